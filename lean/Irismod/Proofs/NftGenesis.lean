/-
Helper lemmas for C12/NFT: `WF` is inductive; iterators over duplicate-free tombstone tables;
counts depend only on what `get` answers; `InitGenesis` of a duplicate-free document writes exactly
the document; the export of a well-formed store validates and re-imports to an equal store.
-/
import Irismod.Spec.C12_Nft
import Irismod.Proofs.Nft
import Irismod.Proofs.GenesisList

namespace Irismod.Proofs.NftGenesis
open Irismod Irismod.Nft Irismod.NftGenesis Irismod.Spec.C12.Nft Irismod.Spec.C14
open Irismod.Proofs.Nft Irismod.Proofs.GenesisList
open Irismod.MtGenesis (sortDedup tail)

/-! ### what ValidateBasic guarantees about stored values -/

theorem issueVB_ok {sender id dok} (h : issueVB sender id dok = true) :
    validDenomId id = true ∧ validAddr sender = true := by
  simp only [issueVB, Bool.and_eq_true] at h
  exact ⟨h.1.1.1, h.1.1.2⟩

theorem mintVB_ok {sender rcpt c t uri dok} (h : mintVB sender rcpt c t uri dok = true) :
    validAddr rcpt = true ∧ validUri uri = true ∧ validTokenId t = true := by
  simp only [mintVB, Bool.and_eq_true] at h
  obtain ⟨⟨⟨⟨⟨⟨_, h2⟩, _⟩, _⟩, h5⟩, _⟩, h7⟩ := h
  exact ⟨h2, h5, h7⟩

theorem editVB_ok {sender c t uri dok} (h : editVB sender c t uri dok = true) : validUri uri = true := by
  simp only [editVB, Bool.and_eq_true] at h
  exact h.1.1.2

theorem transferVB_ok {sender rcpt c t uri dok} (h : transferVB sender rcpt c t uri dok = true) :
    validAddr rcpt = true ∧ validUri uri = true := by
  simp only [transferVB, Bool.and_eq_true] at h
  obtain ⟨⟨⟨⟨⟨_, _⟩, h3⟩, h4⟩, _⟩, _⟩ := h
  exact ⟨h3, h4⟩

theorem transferDenomVB_ok {sender rcpt c} (h : transferDenomVB sender rcpt c = true) : validAddr rcpt = true := by
  simp only [transferDenomVB, Bool.and_eq_true] at h
  exact h.1.2

theorem validUri_modify {old new : String} (h1 : validUri old = true) (h2 : validUri new = true) :
    validUri (Nft.modify old new) = true := by
  unfold Nft.modify; split <;> assumption

/-! ### `WF` is inductive -/

theorem wf_init : WF ({} : State) := by
  refine ⟨by simp [AMap.keys], by simp [AMap.keys], by simp [AMap.keys], by simp [AMap.keys], ?_, ?_, ?_⟩
  · intro c cl h; simp [AMap.get?] at h
  · intro c t r h; simp [tokenOf, Tbl.get, AMap.get?] at h
  · intro c t a h; simp [ownerOf, Tbl.get, AMap.get?] at h

theorem tok_ok_put {s : State} (hw : WF s) {c t} {r : TokenRec} (h1 : validTokenId t = true)
    (h2 : validUri r.uri = true) (c' : ClassId) (t' : TokenId) (r' : TokenRec)
    (h : Tbl.get (Tbl.put s.tokens (c, t) r) (c', t') = some r') :
    validTokenId t' = true ∧ validUri r'.uri = true := by
  rw [get_put] at h
  by_cases hk : (c, t) = (c', t')
  · cases hk; simp only [if_true, Option.some.injEq] at h; subst h; exact ⟨h1, h2⟩
  · simp only [hk, if_false] at h; exact hw.tok_ok c' t' r' h

theorem own_ok_put {m : Tbl (ClassId × TokenId) Addr} {c t a}
    (hm : ∀ c' t' a', Tbl.get m (c', t') = some a' → validAddr a' = true) (ha : validAddr a = true)
    (c' : ClassId) (t' : TokenId) (a' : Addr) (h : Tbl.get (Tbl.put m (c, t) a) (c', t') = some a') :
    validAddr a' = true := by
  rw [get_put] at h
  by_cases hk : (c, t) = (c', t')
  · cases hk; simp only [if_true, Option.some.injEq] at h; subst h; exact ha
  · simp only [hk, if_false] at h; exact hm c' t' a' h

theorem ok_del {V : Type} {P : ClassId → TokenId → V → Prop} {m : Tbl (ClassId × TokenId) V} {k}
    (hm : ∀ c' t' v, Tbl.get m (c', t') = some v → P c' t' v)
    (c' : ClassId) (t' : TokenId) (v : V) (h : Tbl.get (Tbl.del m k) (c', t') = some v) : P c' t' v := by
  rw [get_del] at h
  by_cases hk : k = (c', t')
  · simp [hk] at h
  · simp only [hk, if_false] at h; exact hm c' t' v h

theorem wf_step (s s' : State) (op : Op) (hw : WF s) (h : step s op = .ok s') : WF s' := by
  cases op with
  | issue sender id mr ur name symbol schema desc uri uriHash data =>
    obtain ⟨hvb, _, rfl⟩ := stepIssue_ok h
    obtain ⟨h1, h2⟩ := issueVB_ok hvb
    refine ⟨nodupKeys_set hw.nd_classes _ _, hw.nd_tokens, hw.nd_owners, hw.nd_idx, ?_, hw.tok_ok, hw.own_ok⟩
    intro c cl hcl
    by_cases hk : id = c
    · subst hk
      simp only [AMap.get?_set_self, Option.some.injEq] at hcl
      subst hcl; exact ⟨h1, h2⟩
    · simp only [AMap.get?_set_other _ _ _ _ hk] at hcl
      exact hw.class_ok c cl hcl
  | mint sender rcpt c t name uri uriHash data =>
    obtain ⟨hvb, _, _, _, hm⟩ := stepMint_ok h
    obtain ⟨_, _, rfl⟩ := nkMint_ok hm
    obtain ⟨h1, h2, h3⟩ := mintVB_ok hvb
    exact ⟨hw.nd_classes, nodupKeys_set hw.nd_tokens _ _, nodupKeys_set hw.nd_owners _ _, nodupKeys_set hw.nd_idx _ _, hw.class_ok,
      tok_ok_put hw h3 h2, own_ok_put hw.own_ok h1⟩
  | edit sender c t name uri uriHash data =>
    obtain ⟨hvb, _, _, _, _, hr⟩ := stepEdit_ok h
    rcases hr with rfl | ⟨r, hr, rfl⟩
    · exact hw
    · have ho := hw.tok_ok c t r hr
      exact ⟨hw.nd_classes, nodupKeys_set hw.nd_tokens _ _, hw.nd_owners, hw.nd_idx, hw.class_ok,
        tok_ok_put hw ho.1 (validUri_modify ho.2 (editVB_ok hvb)), hw.own_ok⟩
  | transfer sender rcpt c t name uri uriHash data =>
    obtain ⟨hvb, r, _, hr, _, _, _, tk, htk, rfl⟩ := stepTransfer_ok h
    obtain ⟨h1, h2⟩ := transferVB_ok hvb
    have ho := hw.tok_ok c t r hr
    have hown : ∀ c' t' a', Tbl.get (Tbl.put (Tbl.del s.owners (c, t)) (c, t) rcpt) (c', t') = some a' →
        validAddr a' = true :=
      own_ok_put (ok_del (P := fun _ _ a => validAddr a = true) hw.own_ok) h1
    rcases htk with rfl | ⟨_, rfl⟩
    · exact ⟨hw.nd_classes, hw.nd_tokens, nodupKeys_set (nodupKeys_set hw.nd_owners _ _) _ _,
        nodupKeys_set (nodupKeys_set hw.nd_idx _ _) _ _, hw.class_ok, hw.tok_ok, hown⟩
    · exact ⟨hw.nd_classes, nodupKeys_set hw.nd_tokens _ _, nodupKeys_set (nodupKeys_set hw.nd_owners _ _) _ _,
        nodupKeys_set (nodupKeys_set hw.nd_idx _ _) _ _,
        hw.class_ok, tok_ok_put hw ho.1 (validUri_modify ho.2 h2), hown⟩
  | burn sender c t =>
    obtain ⟨_, _, _, rfl⟩ := stepBurn_ok h
    exact ⟨hw.nd_classes, nodupKeys_set hw.nd_tokens _ _, nodupKeys_set hw.nd_owners _ _, nodupKeys_set hw.nd_idx _ _, hw.class_ok,
      ok_del (P := fun _ t (r : TokenRec) => validTokenId t = true ∧ validUri r.uri = true) hw.tok_ok,
      ok_del (P := fun _ _ a => validAddr a = true) hw.own_ok⟩
  | transferDenom sender rcpt c =>
    obtain ⟨hvb, cl, hcl, _, rfl⟩ := stepTransferDenom_ok h
    have h1 := transferDenomVB_ok hvb
    refine ⟨nodupKeys_set hw.nd_classes _ _, hw.nd_tokens, hw.nd_owners, hw.nd_idx, ?_, hw.tok_ok, hw.own_ok⟩
    intro c' cl' hcl'
    by_cases hk : c = c'
    · subst hk
      simp only [AMap.get?_set_self, Option.some.injEq] at hcl'
      subst hcl'; exact ⟨(hw.class_ok c cl hcl).1, h1⟩
    · simp only [AMap.get?_set_other _ _ _ _ hk] at hcl'
      exact hw.class_ok c' cl' hcl'

theorem wf_apply (s : State) (op : Op) (hw : WF s) : WF (apply s op) := by
  unfold apply
  cases h : step s op with
  | ok s' => exact wf_step s s' op hw h
  | error e => exact hw

theorem wf_run (s : State) (ops : List Op) (hw : WF s) : WF (run s ops) := by
  induction ops generalizing s with
  | nil => exact hw
  | cons op rest ih => exact ih (apply s op) (wf_apply s op hw)


/-! ### iterating a duplicate-free tombstone table -/
section live
variable {K V : Type} [DecidableEq K]

omit [DecidableEq K] in
theorem mem_live (m : Tbl K V) (k : K) (v : V) : (k, v) ∈ Tbl.live m ↔ (k, some v) ∈ m := by
  induction m with
  | nil => simp [Tbl.live]
  | cons hd t ih =>
    obtain ⟨k', o⟩ := hd
    cases o with
    | none => simp [Tbl.live, ih]
    | some v' => simp [Tbl.live, ih]

omit [DecidableEq K] in
theorem keys_live_sublist (m : Tbl K V) : (AMap.keys (Tbl.live m)).Sublist (AMap.keys m) := by
  induction m with
  | nil => simp [Tbl.live, AMap.keys]
  | cons hd t ih =>
    obtain ⟨k', o⟩ := hd
    cases o with
    | none => exact List.Sublist.cons _ ih
    | some v' => exact List.Sublist.cons₂ _ ih

omit [DecidableEq K] in
theorem nodupKeys_live {m : Tbl K V} (hn : NodupKeys m) : NodupKeys (Tbl.live m) :=
  List.Nodup.sublist (keys_live_sublist m) hn

theorem get_eq_some_iff {m : Tbl K V} (hn : NodupKeys m) (k : K) (v : V) :
    Tbl.get m k = some v ↔ (k, v) ∈ Tbl.live m := by
  rw [mem_live, ← get?_eq_some_iff hn]
  unfold Tbl.get
  cases AMap.get? m k with
  | none => simp
  | some o => cases o <;> simp

theorem mem_liveKeys {m : Tbl K V} (hn : NodupKeys m) (k : K) : k ∈ liveKeys m ↔ Tbl.has m k = true := by
  unfold liveKeys Tbl.has
  constructor
  · intro h
    obtain ⟨e, he, rfl⟩ := List.mem_map.mp h
    obtain ⟨k', v⟩ := e
    rw [(get_eq_some_iff hn k' v).mpr he]; rfl
  · intro h
    cases hg : Tbl.get m k with
    | none => rw [hg] at h; cases h
    | some v => exact List.mem_map.mpr ⟨(k, v), (get_eq_some_iff hn k v).mp hg, rfl⟩

omit [DecidableEq K] in
theorem count_eq_live (p : K → Bool) (m : Tbl K V) :
    Tbl.count p m = AMap.sumIf p (fun _ => 1) (Tbl.live m) := by
  unfold Tbl.count
  induction m with
  | nil => rfl
  | cons hd t ih =>
    obtain ⟨k', o⟩ := hd
    cases o with
    | none => simp [AMap.sumIf, Tbl.live, Tbl.one, ih]
    | some v' => simp [AMap.sumIf, Tbl.live, Tbl.one, ih]

/-- a count over a duplicate-free table depends only on what `get` answers -/
theorem count_congr {m1 m2 : Tbl K V} (h1 : NodupKeys m1) (h2 : NodupKeys m2)
    (h : ∀ k, Tbl.get m1 k = Tbl.get m2 k) (p : K → Bool) : Tbl.count p m1 = Tbl.count p m2 := by
  rw [count_eq_live, count_eq_live]
  apply sumIf_perm
  apply perm_of_mem (nodupKeys_live h1) (nodupKeys_live h2)
  intro e
  obtain ⟨k, v⟩ := e
  rw [← get_eq_some_iff h1, ← get_eq_some_iff h2, h]

end live


/-! ### InitGenesis writes exactly the document -/

/-- what the import loops carry along: C14's invariant and duplicate-free tables -/
structure Good (s : State) : Prop where
  inv : Inv s
  nd_classes : NodupKeys s.classes
  nd_tokens : NodupKeys s.tokens
  nd_owners : NodupKeys s.owners
  nd_idx : NodupKeys s.idx

theorem good_init : Good ({} : State) :=
  ⟨by
    constructor
    · intro c t; rfl
    · intro a c t; simp [idxHas, ownerOf, Tbl.has, Tbl.get, AMap.get?]
    · intro c t h; simp [hasNFT, tokenOf, Tbl.get, AMap.get?] at h
    · intro c; simp [supplyOf, tokenCount, Tbl.count, AMap.sumIf, AMap.getD, AMap.get?]
    · intro c; rfl,
   by simp [NodupKeys, AMap.keys], by simp [NodupKeys, AMap.keys], by simp [NodupKeys, AMap.keys],
   by simp [NodupKeys, AMap.keys]⟩

/-- the state after `Mint` -/
def mintedSt (s : State) (c : ClassId) (t : TokenId) (r : TokenRec) (a : Addr) : State :=
  { classes := s.classes, tokens := Tbl.put s.tokens (c, t) r, owners := Tbl.put s.owners (c, t) a,
    idx := Tbl.put s.idx (a, c, t) (), supply := AMap.set s.supply c ((supplyOf s c + 1) % u64) }

theorem nkMint_eq {s : State} {c t} (r : TokenRec) (a : Addr) (hc : hasClass s c = true)
    (hn : hasNFT s c t = false) : nkMint s c t r a = .ok (mintedSt s c t r a) := by
  unfold nkMint; simp [hc, hn]; rfl

theorem good_minted {s : State} (hg : Good s) {c t} (r : TokenRec) (a : Addr) (hc : hasClass s c = true)
    (hn : hasNFT s c t = false) : Good (mintedSt s c t r a) :=
  ⟨inv_nkMint hg.inv (nkMint_eq r a hc hn), hg.nd_classes, nodupKeys_set hg.nd_tokens _ _,
   nodupKeys_set hg.nd_owners _ _, nodupKeys_set hg.nd_idx _ _⟩

theorem importNfts_spec (c : ClassId) : ∀ (ns : List NftExp) (acc : State),
    hasClass acc c = true → (ns.map (·.id)).Nodup → (∀ n ∈ ns, hasNFT acc c n.id = false) → Good acc →
    ∃ s', importNfts acc c ns = .ok s' ∧ s'.classes = acc.classes ∧ Good s' ∧
      (∀ n ∈ ns, tokenOf s' c n.id = some n.tok ∧ ownerOf s' c n.id = some n.owner) ∧
      (∀ c' t', (c' ≠ c ∨ t' ∉ ns.map (·.id)) →
          tokenOf s' c' t' = tokenOf acc c' t' ∧ ownerOf s' c' t' = ownerOf acc c' t')
  | [], acc, _, _, _, hg => ⟨acc, rfl, rfl, hg, (fun n hn => by cases hn), fun _ _ _ => ⟨rfl, rfl⟩⟩
  | n :: rest, acc, hc, hnd, hfree, hg => by
    have hnd' : n.id ∉ rest.map (·.id) ∧ (rest.map (·.id)).Nodup := List.nodup_cons.mp hnd
    have hn0 := hfree n List.mem_cons_self
    have hstep : importNfts acc c (n :: rest) = importNfts (mintedSt acc c n.id n.tok n.owner) c rest := by
      simp only [importNfts, nkMint_eq n.tok n.owner hc hn0]
    have hc1 : hasClass (mintedSt acc c n.id n.tok n.owner) c = true := hc
    have hfree1 : ∀ m ∈ rest, hasNFT (mintedSt acc c n.id n.tok n.owner) c m.id = false := by
      intro m hm
      have hne : (c, n.id) ≠ (c, m.id) := by
        intro e
        have e2 : n.id = m.id := (Prod.mk.inj e).2
        exact hnd'.1 (List.mem_map.mpr ⟨m, hm, e2.symm⟩)
      simp only [hasNFT, tokenOf, mintedSt, get_put, hne, if_false]
      exact hfree m (List.mem_cons_of_mem _ hm)
    obtain ⟨s', h1, h2, h3, h4, h5⟩ :=
      importNfts_spec c rest _ hc1 hnd'.2 hfree1 (good_minted hg n.tok n.owner hc hn0)
    refine ⟨s', by rw [hstep]; exact h1, h2, h3, ?_, ?_⟩
    · intro m hm
      rcases List.mem_cons.mp hm with rfl | hm
      · have := h5 c m.id (Or.inr hnd'.1)
        rw [this.1, this.2]
        simp [tokenOf, ownerOf, mintedSt, get_put]
      · exact h4 m hm
    · intro c' t' hne
      have hne1 : c' ≠ c ∨ t' ∉ rest.map (·.id) := by
        rcases hne with h | h
        · exact Or.inl h
        · exact Or.inr (fun hm => h (by simp only [List.map_cons]; exact List.mem_cons_of_mem _ hm))
      have := h5 c' t' hne1
      rw [this.1, this.2]
      have hk : (c, n.id) ≠ (c', t') := by
        intro e; cases e
        rcases hne with h | h
        · exact h rfl
        · exact h (by simp)
      simp [tokenOf, ownerOf, mintedSt, get_put, hk]

theorem importCollections_spec : ∀ (g : Genesis) (acc : State),
    (g.map (·.id)).Nodup → (∀ c ∈ g, validAddr c.cls.creator = true) →
    (∀ c ∈ g, (c.nfts.map (·.id)).Nodup) →
    (∀ c ∈ g, hasClass acc c.id = false ∧ ∀ t, hasNFT acc c.id t = false) → Good acc →
    ∃ s', importCollections acc g = .ok s' ∧ Good s' ∧
      (∀ c ∈ g, AMap.get? s'.classes c.id = some c.cls ∧
          (∀ n ∈ c.nfts, tokenOf s' c.id n.id = some n.tok ∧ ownerOf s' c.id n.id = some n.owner) ∧
          (∀ t, t ∉ c.nfts.map (·.id) → tokenOf s' c.id t = none)) ∧
      (∀ c', c' ∉ g.map (·.id) → AMap.get? s'.classes c' = AMap.get? acc.classes c' ∧
          ∀ t, tokenOf s' c' t = tokenOf acc c' t ∧ ownerOf s' c' t = ownerOf acc c' t)
  | [], acc, _, _, _, _, hg => ⟨acc, rfl, hg, (fun c hc => by cases hc), fun _ _ => ⟨rfl, fun _ => ⟨rfl, rfl⟩⟩⟩
  | c :: rest, acc, hids, hcr, htn, hfree, hg => by
    have hids' : c.id ∉ rest.map (·.id) ∧ (rest.map (·.id)).Nodup := List.nodup_cons.mp hids
    obtain ⟨hc0, ht0⟩ := hfree c List.mem_cons_self
    have hg1 : Good { acc with classes := AMap.set acc.classes c.id c.cls } :=
      ⟨inv_setClass hg.inv _ _, nodupKeys_set hg.nd_classes _ _, hg.nd_tokens, hg.nd_owners, hg.nd_idx⟩
    have hc1 : hasClass { acc with classes := AMap.set acc.classes c.id c.cls } c.id = true := by
      simp [hasClass, contains_set]
    obtain ⟨s1, i1, i2, i3, i4, i5⟩ := importNfts_spec c.id c.nfts _ hc1 (htn c List.mem_cons_self)
      (fun n _ => ht0 n.id) hg1
    have hstep : importCollections acc (c :: rest) = importCollections s1 rest := by
      simp only [importCollections, hcr c List.mem_cons_self, hc0, i1]
      simp
    have hfree1 : ∀ c2 ∈ rest, hasClass s1 c2.id = false ∧ ∀ t, hasNFT s1 c2.id t = false := by
      intro c2 hc2
      have hne : c.id ≠ c2.id := fun e => hids'.1 (List.mem_map.mpr ⟨c2, hc2, e.symm⟩)
      obtain ⟨a1, a2⟩ := hfree c2 (List.mem_cons_of_mem _ hc2)
      constructor
      · simp only [hasClass, i2, contains_set, hne, decide_false, Bool.false_or]
        exact a1
      · intro t
        have := (i5 c2.id t (Or.inl (Ne.symm hne))).1
        simp only [hasNFT, this]
        exact a2 t
    obtain ⟨s', j1, j2, j3, j4⟩ := importCollections_spec rest s1 hids'.2
      (fun c2 h => hcr c2 (List.mem_cons_of_mem _ h)) (fun c2 h => htn c2 (List.mem_cons_of_mem _ h)) hfree1 i3
    refine ⟨s', by rw [hstep]; exact j1, j2, ?_, ?_⟩
    · intro c2 hc2
      rcases List.mem_cons.mp hc2 with rfl | hc2
      · obtain ⟨k1, k2⟩ := j4 c2.id hids'.1
        refine ⟨?_, ?_, ?_⟩
        · rw [k1, i2]; exact AMap.get?_set_self _ _ _
        · intro n hn
          rw [(k2 n.id).1, (k2 n.id).2]; exact i4 n hn
        · intro t ht
          rw [(k2 t).1, (i5 c2.id t (Or.inr ht)).1]
          have := ht0 t
          simp only [hasNFT, tokenOf] at this ⊢
          cases h : Tbl.get acc.tokens (c2.id, t) with
          | none => rfl
          | some v => rw [h] at this; cases this
      · exact j3 c2 hc2
    · intro c' hc'
      have hne : c' ≠ c.id := fun e => hc' (by simp [e])
      have hnr : c' ∉ rest.map (·.id) := fun h => hc' (by simp only [List.map_cons]; exact List.mem_cons_of_mem _ h)
      obtain ⟨k1, k2⟩ := j4 c' hnr
      refine ⟨?_, ?_⟩
      · rw [k1, i2]; exact AMap.get?_set_other _ _ _ _ (Ne.symm hne)
      · intro t
        rw [(k2 t).1, (k2 t).2]
        exact i5 c' t (Or.inl hne)


/-! ### the exported document of a well-formed store -/

theorem export_ids (s : State) : (exportGenesis s).map (·.id) = sortDedup (AMap.keys s.classes) := by
  unfold exportGenesis
  rw [List.map_map]
  exact List.map_id' _ |>.symm ▸ (by simp [Function.comp_def])

theorem exportNfts_ids (s : State) (c : ClassId) :
    (exportNfts s c).map (·.id) = sortDedup (tail (liveKeys s.tokens) c) := by
  unfold exportNfts
  rw [List.map_map]
  simp [Function.comp_def]

theorem mem_export_iff (s : State) (col : Collection) :
    col ∈ exportGenesis s ↔ ∃ id, id ∈ AMap.keys s.classes ∧
      col = { id := id, cls := (AMap.get? s.classes id).getD default, nfts := exportNfts s id } := by
  unfold exportGenesis
  rw [List.mem_map]
  constructor
  · rintro ⟨id, hid, rfl⟩; exact ⟨id, (mem_sortDedup _ _).mp hid, rfl⟩
  · rintro ⟨id, hid, rfl⟩; exact ⟨id, (mem_sortDedup _ _).mpr hid, rfl⟩

theorem mem_token_ids (s : State) (hn : NodupKeys s.tokens) (c : ClassId) (t : TokenId) :
    t ∈ sortDedup (tail (liveKeys s.tokens) c) ↔ hasNFT s c t = true := by
  rw [mem_sortDedup, mem_tail, mem_liveKeys hn]
  rfl

theorem mem_exportNfts_iff (s : State) (c : ClassId) (n : NftExp) :
    n ∈ exportNfts s c ↔ ∃ t, t ∈ sortDedup (tail (liveKeys s.tokens) c) ∧
      n = { id := t, tok := (tokenOf s c t).getD default, owner := (ownerOf s c t).getD "" } := by
  unfold exportNfts
  rw [List.mem_map]
  constructor
  · rintro ⟨t, ht, rfl⟩; exact ⟨t, ht, rfl⟩
  · rintro ⟨t, ht, rfl⟩; exact ⟨t, ht, rfl⟩

theorem tokenOf_of_has {s : State} {c t} (h : hasNFT s c t = true) : ∃ r, tokenOf s c t = some r := by
  unfold hasNFT at h
  cases hr : tokenOf s c t with
  | none => rw [hr] at h; cases h
  | some r => exact ⟨r, rfl⟩

/-- **the export validates** -/
theorem validate_export (s : State) (hw : WF s) (hi : Inv s) : validateGenesis (exportGenesis s) = true := by
  unfold validateGenesis
  rw [List.all_eq_true]
  intro col hcol
  obtain ⟨id, hid, rfl⟩ := (mem_export_iff s col).mp hcol
  obtain ⟨cl, hcl⟩ := (mem_keys_iff _ _).mp hid
  unfold validateCollection
  simp only [Bool.and_eq_true, List.all_eq_true]
  refine ⟨(hw.class_ok id cl hcl).1, ?_⟩
  intro n hn
  obtain ⟨t, ht, rfl⟩ := (mem_exportNfts_iff s id n).mp hn
  have hlive := (mem_token_ids s hw.nd_tokens id t).mp ht
  obtain ⟨r, hr⟩ := tokenOf_of_has hlive
  obtain ⟨a, ha⟩ := owner_some_of_has hi hlive
  have h1 := hw.tok_ok id t r hr
  have h2 := hw.own_ok id t a ha
  simp [validateNft, hr, ha, h1.1, h1.2, h2]

theorem optUnit_eq {a b : Option Unit} (h : a.isSome = b.isSome) : a = b := by
  cases a <;> cases b <;> simp_all

/-- **the import of the export succeeds and answers every query like the exported store** -/
theorem import_export (s : State) (hw : WF s) (hi : Inv s) :
    ∃ s', importGenesis (exportGenesis s) = .ok s' ∧ ObsEq s' s ∧ Good s' := by
  have hids : ((exportGenesis s).map (·.id)).Nodup := by rw [export_ids]; exact nodup_sortDedup _
  have hcr : ∀ c ∈ exportGenesis s, validAddr c.cls.creator = true := by
    intro col hcol
    obtain ⟨id, hid, rfl⟩ := (mem_export_iff s col).mp hcol
    obtain ⟨cl, hcl⟩ := (mem_keys_iff _ _).mp hid
    simp only [hcl, Option.getD_some]
    exact (hw.class_ok id cl hcl).2
  have htn : ∀ c ∈ exportGenesis s, (c.nfts.map (·.id)).Nodup := by
    intro col hcol
    obtain ⟨id, _, rfl⟩ := (mem_export_iff s col).mp hcol
    simp only [exportNfts_ids]; exact nodup_sortDedup _
  have hfree : ∀ c ∈ exportGenesis s, hasClass ({} : State) c.id = false ∧ ∀ t, hasNFT ({} : State) c.id t = false :=
    fun _ _ => ⟨rfl, fun _ => rfl⟩
  obtain ⟨s', h1, hg, h3, h4⟩ := importCollections_spec (exportGenesis s) {} hids hcr htn hfree good_init
  -- class records
  have hclasses : ∀ c, AMap.get? s'.classes c = AMap.get? s.classes c := by
    intro c
    by_cases hc : c ∈ AMap.keys s.classes
    · obtain ⟨cl, hcl⟩ := (mem_keys_iff _ _).mp hc
      have := (h3 _ ((mem_export_iff s _).mpr ⟨c, hc, rfl⟩)).1
      simp only [hcl, Option.getD_some] at this
      rw [this, hcl]
    · have hn : c ∉ (exportGenesis s).map (·.id) := by rw [export_ids, mem_sortDedup]; exact hc
      rw [(h4 c hn).1, (get?_eq_none_iff _ _).mpr hc]
      rfl
  -- token records
  have htokens : ∀ c t, tokenOf s' c t = tokenOf s c t := by
    intro c t
    by_cases hc : c ∈ AMap.keys s.classes
    · obtain ⟨_, k2, k3⟩ := h3 _ ((mem_export_iff s _).mpr ⟨c, hc, rfl⟩)
      simp only at k2 k3
      cases hl : hasNFT s c t with
      | true =>
        obtain ⟨r, hr⟩ := tokenOf_of_has hl
        have hmem : ({ id := t, tok := (tokenOf s c t).getD default, owner := (ownerOf s c t).getD "" } : NftExp)
            ∈ exportNfts s c :=
          (mem_exportNfts_iff s c _).mpr ⟨t, (mem_token_ids s hw.nd_tokens c t).mpr hl, rfl⟩
        have := (k2 _ hmem).1
        simp only [hr, Option.getD_some] at this
        rw [this, hr]
      | false =>
        have hnot : t ∉ (exportNfts s c).map (·.id) := by
          rw [exportNfts_ids, mem_token_ids s hw.nd_tokens, hl]; simp
        rw [k3 t hnot]
        unfold hasNFT at hl
        cases hr : tokenOf s c t with
        | none => rfl
        | some r => rw [hr] at hl; cases hl
    · have hn : c ∉ (exportGenesis s).map (·.id) := by rw [export_ids, mem_sortDedup]; exact hc
      rw [((h4 c hn).2 t).1]
      have hnc : hasClass s c = false := by
        simp only [hasClass, AMap.contains, (get?_eq_none_iff _ _).mpr hc]; rfl
      cases hl : hasNFT s c t with
      | true => rw [hi.tok_class c t hl] at hnc; cases hnc
      | false =>
        unfold hasNFT at hl
        cases hr : tokenOf s c t with
        | none => rfl
        | some r => rw [hr] at hl; cases hl
  have hhas : ∀ c t, hasNFT s' c t = hasNFT s c t := fun c t => by unfold hasNFT; rw [htokens]
  -- owners
  have howners : ∀ c t, ownerOf s' c t = ownerOf s c t := by
    intro c t
    cases hl : hasNFT s c t with
    | false =>
      rw [owner_none_of_not_has hi hl, owner_none_of_not_has hg.inv (by rw [hhas]; exact hl)]
    | true =>
      have hc : c ∈ AMap.keys s.classes := by
        have := hi.tok_class c t hl
        simp only [hasClass, AMap.contains] at this
        apply Classical.byContradiction
        intro hnc
        rw [(get?_eq_none_iff _ _).mpr hnc] at this; cases this
      obtain ⟨_, k2, _⟩ := h3 _ ((mem_export_iff s _).mpr ⟨c, hc, rfl⟩)
      simp only at k2
      obtain ⟨a, ha⟩ := owner_some_of_has hi hl
      have hmem : ({ id := t, tok := (tokenOf s c t).getD default, owner := (ownerOf s c t).getD "" } : NftExp)
          ∈ exportNfts s c :=
        (mem_exportNfts_iff s c _).mpr ⟨t, (mem_token_ids s hw.nd_tokens c t).mpr hl, rfl⟩
      have := (k2 _ hmem).2
      simp only [ha, Option.getD_some] at this
      rw [this, ha]
  -- owner index
  have hidx : ∀ x c t, idxHas s' x c t = idxHas s x c t := by
    intro x c t
    rw [Bool.eq_iff_iff, hg.inv.idx_owner, hi.idx_owner, howners]
  -- counts
  have hcount : ∀ c, tokenCount s' c = tokenCount s c := by
    intro c
    exact count_congr hg.nd_tokens hw.nd_tokens (fun k => by obtain ⟨c', t'⟩ := k; exact htokens c' t') _
  have hbal : ∀ x c, balanceOf s' x c = balanceOf s x c := by
    intro x c
    exact count_congr hg.nd_idx hw.nd_idx
      (fun k => by obtain ⟨x', c', t'⟩ := k; exact optUnit_eq (hidx x' c' t')) _
  have hsupply : ∀ c, supplyOf s' c = supplyOf s c := by
    intro c; rw [hg.inv.supply_count, hi.supply_count, hcount]
  refine ⟨s', ?_, ⟨hclasses, htokens, howners, hidx, hsupply, hbal, hcount⟩, hg⟩
  unfold importGenesis
  rw [validate_export s hw hi]
  exact h1

/-- the export depends only on what the store answers -/
theorem export_congr {a b : State} (h : ObsEq a b) (na : NodupKeys a.tokens) (nb : NodupKeys b.tokens) :
    exportGenesis a = exportGenesis b := by
  have hk : sortDedup (AMap.keys a.classes) = sortDedup (AMap.keys b.classes) := by
    apply sortDedup_congr
    intro x
    rw [mem_keys_iff, mem_keys_iff, h.classes]
  have hlive : ∀ x, x ∈ liveKeys a.tokens ↔ x ∈ liveKeys b.tokens := by
    intro x
    obtain ⟨c, t⟩ := x
    rw [mem_liveKeys na, mem_liveKeys nb]
    have := h.tokens c t
    unfold tokenOf at this
    unfold Tbl.has; rw [this]
  have hn : ∀ c, exportNfts a c = exportNfts b c := by
    intro c
    unfold exportNfts
    rw [sortDedup_congr (tail_mem_congr hlive c)]
    apply List.map_congr_left
    intro t _
    rw [h.tokens, h.owners]
  unfold exportGenesis
  rw [hk]
  apply List.map_congr_left
  intro c _
  rw [h.classes, hn]

/-- well-formedness and C14's invariant carry over to an observationally equal duplicate-free store -/
theorem wf_of_obsEq {a b : State} (h : ObsEq a b) (ga : Good a) (hb : WF b) : WF a :=
  ⟨ga.nd_classes, ga.nd_tokens, ga.nd_owners, ga.nd_idx,
   fun c cl hcl => hb.class_ok c cl (by rw [← h.classes]; exact hcl),
   fun c t r hr => hb.tok_ok c t r (by rw [← h.tokens]; exact hr),
   fun c t x hx => hb.own_ok c t x (by rw [← h.owners]; exact hx)⟩

end Irismod.Proofs.NftGenesis
