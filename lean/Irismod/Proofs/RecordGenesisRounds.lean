/-
C12 (record): the export → import round trip as a function on stores, its iterates, and the
characterisation of reachable stores as `InitGenesis` images.

* `roundTrip s` = the store `InitGenesis` builds from `ExportGenesis s` on an emptied module store;
  `rounds n s` = n such round trips.
* every reachable store is `importFrom {} rs` for the list `rs` of records in CREATION order
  (`run_eq_importFrom`): ordinary operation and `InitGenesis` are the same `AddRecord` loop — the
  ids differ after a round trip only because `ExportGenesis` lists the records in id order.
* stores whose creation order is their id order are fixpoints of `roundTrip` (`roundTrip_of_sorted`).
Helper lemmas only; headline theorems are in `Props/C12_Record.lean`.
-/
import Irismod.Proofs.RecordGenesis

namespace Irismod.Proofs.RecordGenesis
open Irismod Irismod.Record Irismod.RecordGenesis Irismod.Proofs.GenesisList

/-- export, wipe the module store, `InitGenesis` (the `AddRecord` loop from counter 0) -/
def roundTrip (s : State) : State := importFrom {} (exportGenesis s).records

/-- `n` export → import rounds -/
def rounds : Nat → State → State
  | 0, s => s
  | n + 1, s => roundTrip (rounds n s)

/-- SHA-256 collision freedom along `n` rounds: at every round the ids re-derived for the exported
document are pairwise distinct -/
def NoClashRounds (n : Nat) (s : State) : Prop :=
  ∀ k, k < n → (newIds 0 (exportGenesis (rounds k s)).records).Nodup

/-! ### reachable stores are `InitGenesis` images -/

/-- the records an operation creates, in order (none when the transaction is rejected) -/
def opRecs : Op → List Rec
  | .tx b msgs =>
    if msgs.isEmpty then [] else if !(msgs.all msgOk) then [] else msgs.map (mkRec (txHashOf b))
  | .query _ => []
  | .queryAll => []
  | .nextBlock => []

/-- the records a history creates, in creation order -/
def created : List Op → List Rec
  | [] => []
  | op :: t => opRecs op ++ created t

theorem importFrom_append : ∀ (a b : List Rec) (s : State),
    importFrom s (a ++ b) = importFrom (importFrom s a) b
  | [], _, _ => rfl
  | r :: t, b, s => by
    show importFrom _ (t ++ b) = importFrom (importFrom _ t) b
    exact importFrom_append t b _

theorem foldl_createOne_import (h : String) : ∀ (msgs : List Msg) (s : State),
    msgs.foldl (createOne h) s = importFrom s (msgs.map (mkRec h))
  | [], _ => rfl
  | m :: t, s => by
    show t.foldl (createOne h) (createOne h s m) = importFrom (createOne h s m) (t.map (mkRec h))
    exact foldl_createOne_import h t _

theorem apply_eq_importFrom (s : State) (op : Op) : apply s op = importFrom s (opRecs op) := by
  cases op with
  | tx b msgs =>
    unfold apply step stepTx opRecs
    by_cases h1 : msgs.isEmpty = true
    · simp [h1, importFrom]
    · by_cases h2 : (!(msgs.all msgOk)) = true
      · simp only [h1, h2, if_true, if_false, Bool.false_eq_true]
        rfl
      · simp only [h1, h2, if_false, Bool.false_eq_true]
        exact foldl_createOne_import _ msgs s
  | query id => rfl
  | queryAll => rfl
  | nextBlock => rfl

/-- every reachable store is what the `AddRecord` loop of `InitGenesis` builds from the history's
records listed in creation order -/
theorem run_eq_importFrom : ∀ (ops : List Op) (s : State), run s ops = importFrom s (created ops)
  | [], _ => rfl
  | op :: t, s => by
    show run (apply s op) t = importFrom s (opRecs op ++ created t)
    rw [run_eq_importFrom t, apply_eq_importFrom, importFrom_append]

/-! ### shape of imported stores -/

theorem nodupKeys_importFrom : ∀ (rs : List Rec) (s : State), NodupKeys s.recs →
    NodupKeys (importFrom s rs).recs
  | [], _, h => h
  | r :: t, s, h => by
    unfold importFrom
    exact nodupKeys_importFrom t _ (nodupKeys_set h _ _)

theorem recsOk_importFrom : ∀ (rs : List Rec) (s : State), RecsOk s →
    (∀ r ∈ rs, r.contents.isEmpty = false) → RecsOk (importFrom s rs)
  | [], _, h, _ => h
  | r :: t, s, h, hr => by
    unfold importFrom
    apply recsOk_importFrom t _ ?_ (fun r' hr' => hr r' (List.mem_cons_of_mem _ hr'))
    intro e he
    have he' : e ∈ AMap.set s.recs (idOfPre (preimage r s.counter)) r := he
    rcases mem_set _ _ _ _ he' with rfl | he'
    · exact hr r (by simp)
    · exact h e he'

theorem recsOk_empty : RecsOk ({} : State) := by intro e he; simp at he

theorem nodupKeys_empty : NodupKeys ({} : State).recs := by simp [NodupKeys, AMap.keys]

theorem export_mem {s : State} {r : Rec} (h : r ∈ (exportGenesis s).records) : ∃ e ∈ s.recs, e.2 = r :=
  List.mem_map.mp ((export_perm s).mem_iff.mp h)

theorem recsOk_roundTrip {s : State} (h : RecsOk s) : RecsOk (roundTrip s) := by
  apply recsOk_importFrom _ _ recsOk_empty
  intro r hr
  obtain ⟨e, he, rfl⟩ := export_mem hr
  exact h e he

theorem nodupKeys_roundTrip (s : State) : NodupKeys (roundTrip s).recs :=
  nodupKeys_importFrom _ _ nodupKeys_empty

theorem recsOk_rounds {s : State} (h : RecsOk s) : ∀ n, RecsOk (rounds n s)
  | 0 => h
  | n + 1 => recsOk_roundTrip (recsOk_rounds h n)

/-- the round trip is what `InitGenesis(ExportGenesis(s))` computes, and it is accepted -/
theorem importGenesis_export {s : State} (h : RecsOk s) :
    importGenesis (exportGenesis s) = .ok (roundTrip s) := by
  unfold importGenesis; rw [validate_export s h]; rfl

/-! ### one round -/

theorem roundTrip_counter (s : State) : (roundTrip s).counter = UInt32.ofNat s.recs.length := by
  unfold roundTrip
  rw [importFrom_counter, export_length]
  show (0 : UInt32) + _ = _
  rw [UInt32.zero_add]

theorem roundTrip_recs {s : State} (hn : (newIds 0 (exportGenesis s).records).Nodup) :
    (roundTrip s).recs = (newIds 0 (exportGenesis s).records).zip (exportGenesis s).records :=
  importFrom_empty_recs _ hn

theorem roundTrip_snd {s : State} (hn : (newIds 0 (exportGenesis s).records).Nodup) :
    (roundTrip s).recs.map (fun e => e.2) = (exportGenesis s).records :=
  importFrom_empty_snd _ hn

theorem roundTrip_keys {s : State} (hn : (newIds 0 (exportGenesis s).records).Nodup) :
    AMap.keys (roundTrip s).recs = newIds 0 (exportGenesis s).records := by
  unfold AMap.keys
  rw [roundTrip_recs hn, List.map_fst_zip]
  rw [length_newIds]; exact Nat.le_refl _

theorem roundTrip_perm {s : State} (hn : (newIds 0 (exportGenesis s).records).Nodup) :
    ((roundTrip s).recs.map (fun e => e.2)).Perm (s.recs.map (fun e => e.2)) := by
  rw [roundTrip_snd hn]; exact export_perm s

theorem roundTrip_length {s : State} (hn : (newIds 0 (exportGenesis s).records).Nodup) :
    (roundTrip s).recs.length = s.recs.length := by
  have := (roundTrip_perm hn).length_eq
  simpa using this

/-- the i-th re-derived id answers with the i-th record of the document -/
theorem roundTrip_get {s : State} (hn : (newIds 0 (exportGenesis s).records).Nodup) (i : Nat)
    (h1 : i < (newIds 0 (exportGenesis s).records).length) (h2 : i < (exportGenesis s).records.length) :
    getRecord (roundTrip s) ((newIds 0 (exportGenesis s).records)[i]) = some ((exportGenesis s).records[i]) := by
  unfold getRecord
  apply get?_of_mem (nodupKeys_roundTrip s)
  rw [roundTrip_recs hn]
  refine List.mem_iff_getElem.mpr ⟨i, ?_, ?_⟩
  · rw [List.length_zip]; omega
  · rw [List.getElem_zip]

/-- a record is held by the store (under some id) -/
def Holds (s : State) (r : Rec) : Prop := ∃ id, getRecord s id = some r

theorem holds_iff_mem {s : State} (hk : NodupKeys s.recs) (r : Rec) :
    Holds s r ↔ r ∈ s.recs.map (fun e => e.2) := by
  constructor
  · rintro ⟨id, h⟩
    exact List.mem_map.mpr ⟨(id, r), mem_of_get? h, rfl⟩
  · intro h
    obtain ⟨⟨id, r'⟩, he, rfl⟩ := List.mem_map.mp h
    exact ⟨id, get?_of_mem hk he⟩

/-! ### any number of rounds -/

theorem noClashRounds_of_succ {n : Nat} {s : State} (h : NoClashRounds (n + 1) s) : NoClashRounds n s :=
  fun k hk => h k (Nat.lt_succ_of_lt hk)

theorem rounds_perm {s : State} : ∀ n, NoClashRounds n s →
    ((rounds n s).recs.map (fun e => e.2)).Perm (s.recs.map (fun e => e.2))
  | 0, _ => List.Perm.refl _
  | n + 1, h => (roundTrip_perm (h n (Nat.lt_succ_self n))).trans (rounds_perm n (noClashRounds_of_succ h))

theorem rounds_length {s : State} (n : Nat) (h : NoClashRounds n s) :
    (rounds n s).recs.length = s.recs.length := by
  have := (rounds_perm n h).length_eq
  simpa using this

theorem rounds_export_perm {s : State} (n : Nat) (h : NoClashRounds n s) :
    (exportGenesis (rounds n s)).records.Perm (exportGenesis s).records :=
  ((export_perm _).trans (rounds_perm n h)).trans (export_perm s).symm

theorem rounds_counter {s : State} (n : Nat) (h : NoClashRounds n s) :
    (rounds (n + 1) s).counter = UInt32.ofNat s.recs.length := by
  show (roundTrip (rounds n s)).counter = _
  rw [roundTrip_counter, rounds_length n h]

/-! ### stores whose creation order is their id order keep their ids -/

theorem idLt_irrefl (a : Id) : idLt a a = false := by
  unfold idLt
  exact decide_eq_false (List.lt_irrefl _)

/-- ids ascending in byte order -/
def Ascending (ids : List Id) : Prop := ids.Pairwise (fun a b => idLt a b = true)

theorem nodup_of_ascending {ids : List Id} (h : Ascending ids) : ids.Nodup := by
  unfold Ascending at h
  exact h.imp (fun {a b} hab heq => by subst heq; rw [idLt_irrefl] at hab; cases hab)

theorem sortById_of_ascending : ∀ m : AMap Id Rec, Ascending (AMap.keys m) → sortById m = m
  | [], _ => rfl
  | [_], _ => rfl
  | e :: x :: t, h => by
    unfold Ascending AMap.keys at h
    rw [List.map_cons, List.pairwise_cons] at h
    have ht := sortById_of_ascending (x :: t) h.2
    show insId e (sortById (x :: t)) = _
    rw [ht]
    have hlt : idLt e.1 x.1 = true := h.1 x.1 (by simp)
    simp [insId, hlt]

/-- a store built in creation order whose ids come out ascending is a fixpoint of the round trip -/
theorem roundTrip_of_ascending (rs : List Rec) (h : Ascending (newIds 0 rs)) :
    roundTrip (importFrom {} rs) = importFrom {} rs := by
  have hn := nodup_of_ascending h
  have hrecs := importFrom_empty_recs rs hn
  have hkeys : AMap.keys (importFrom {} rs).recs = newIds 0 rs := by
    unfold AMap.keys
    rw [hrecs, List.map_fst_zip]
    rw [length_newIds]; exact Nat.le_refl _
  have hexp : (exportGenesis (importFrom {} rs)).records = rs := by
    unfold exportGenesis
    show (sortById (importFrom {} rs).recs).map (fun e => e.2) = rs
    rw [sortById_of_ascending _ (by rw [hkeys]; exact h)]
    exact importFrom_empty_snd rs hn
  unfold roundTrip
  rw [hexp]

end Irismod.Proofs.RecordGenesis
