/-
Monitor soundness for the service module, C07 (`Spec.C07.check`): the three state clauses and the step
clauses of every message operation (everything but the end-block group `checkNext`, which is proved
separately).  On every model step `s --op--> apply s op` from a state satisfying `SInv`
(and `ReqsND`: unique request keys, defined and shown invariant here) under the side conditions `OpOK`,
every clause evaluates to "no failure" and the monitor's memory is unchanged.
-/
import Irismod.Proofs.ServiceMonitorBase

namespace Irismod.Proofs.ServiceMonitor
open Irismod Irismod.Sdk Irismod.Service Irismod.Spec.C07 Irismod.Proofs.Service

/-! ### the extra invariant: request keys are unique

`requestsSame pre post` compares the request tables entry by entry through `AMap.get?`; it holds of two
equal tables only if no key occurs twice.  No component of `SInv` says so of `s.reqs`. -/

/-- no request id is stored twice -/
def ReqsND (s : State) : Prop := KeysNodup s.reqs

theorem ReqsND_of_nil {s : State} (h : s.reqs = []) : ReqsND s := by
  unfold ReqsND KeysNodup; rw [h]; exact List.nodup_nil

/-- with unique keys every stored entry is the one `get?` finds -/
private theorem get?_of_mem_nodup {K V : Type} [DecidableEq K] : ∀ (m : AMap K V), KeysNodup m → ∀ e, e ∈ m →
    AMap.get? m e.1 = some e.2
  | [], _, e, he => by cases he
  | (k0, v0) :: t, hn, e, he => by
    unfold KeysNodup at hn
    simp only [List.map_cons, List.nodup_cons] at hn
    rcases List.mem_cons.mp he with h | h
    · subst h; simp [AMap.get?]
    · have hne : ¬ k0 = e.1 := by
        intro hk
        exact hn.1 (by rw [hk]; exact List.mem_map_of_mem (f := fun x : K × V => x.1) h)
      simp only [AMap.get?, hne, if_false]
      exact get?_of_mem_nodup t hn.2 e h

/-! ### introduction rules for the frame clauses -/

theorem balsSameExcept_intro (ds : List Denom) (pre post : State) (ex : List (Addr × Denom))
    (h : ∀ a d, d ∈ ds → (a, d) ∉ ex → Bank.balOf post.bank a d = Bank.balOf pre.bank a d) :
    balsSameExcept ds pre post ex = true := by
  unfold balsSameExcept
  simp only [List.all_eq_true, Bool.or_eq_true, beq_iff_eq]
  intro a _ d hd
  by_cases hc : ex.contains (a, d) = true
  · exact Or.inl hc
  · right
    unfold bal
    rw [h a d hd (by simpa using hc)]

theorem depositsSameExcept_intro (pre post : State) (ex : List (String × Addr))
    (h : ∀ k, k ∉ ex → (AMap.get? post.binds k).map (·.deposit) = (AMap.get? pre.binds k).map (·.deposit)) :
    depositsSameExcept pre post ex = true := by
  unfold depositsSameExcept
  simp only [List.all_eq_true, Bool.or_eq_true, beq_iff_eq]
  intro k _
  by_cases hc : ex.contains k = true
  · exact Or.inl hc
  · right
    exact h k (by simpa using hc)

theorem depositsSame_of_binds {pre post : State} (h : post.binds = pre.binds) : depositsSameExcept pre post [] = true :=
  depositsSameExcept_intro pre post [] (fun k _ => by rw [h])

theorem earnedSameExcept_intro (ds : List Denom) (pre post : State) (exP exO : List Addr)
    (h1 : ∀ a d, a ∉ exP → earnedOf post a d = earnedOf pre a d)
    (h2 : ∀ a d, a ∉ exO → ownerEarned post a d = ownerEarned pre a d) :
    earnedSameExcept ds pre post exP exO = true := by
  unfold earnedSameExcept
  simp only [List.all_eq_true, Bool.and_eq_true, Bool.or_eq_true, beq_iff_eq]
  intro a _ d _
  constructor
  · by_cases hc : exP.contains a = true
    · exact Or.inl hc
    · exact Or.inr (h1 a d (by simpa using hc))
  · by_cases hc : exO.contains a = true
    · exact Or.inl hc
    · exact Or.inr (h2 a d (by simpa using hc))

theorem earnedSame_of_eq (ds : List Denom) {pre post : State} (h1 : post.earned = pre.earned) (h2 : post.oearned = pre.oearned) :
    earnedSameExcept ds pre post [] [] = true :=
  earnedSameExcept_intro ds pre post [] []
    (fun a d _ => by unfold earnedOf; rw [h1]) (fun a d _ => by unfold ownerEarned; rw [h2])

theorem requestsSame_of_eq {pre post : State} (hn : ReqsND pre) (h1 : post.active = pre.active) (h2 : post.reqs = pre.reqs) :
    requestsSame pre post = true := by
  unfold requestsSame
  rw [h1, h2]
  have ha : (pre.active.all fun x => pre.active.contains x) = true := by
    rw [List.all_eq_true]; intro x hx; simpa using hx
  have hq : (pre.reqs.all fun e => AMap.get? pre.reqs e.1 == some e.2) = true := by
    rw [List.all_eq_true]; intro e he; rw [beq_iff_eq]; exact get?_of_mem_nodup _ hn e he
  rw [ha, hq]; rfl

/-- bank, bindings' deposits, both tallies, requests and active set untouched -/
theorem ledgerSame_of_eq (ds : List Denom) {pre post : State} (hn : ReqsND pre) (hb : post.bank = pre.bank)
    (hd : ∀ k, (AMap.get? post.binds k).map (·.deposit) = (AMap.get? pre.binds k).map (·.deposit))
    (h1 : post.earned = pre.earned) (h2 : post.oearned = pre.oearned) (h3 : post.active = pre.active)
    (h4 : post.reqs = pre.reqs) : ledgerSame ds pre post = true := by
  unfold ledgerSame
  rw [balsSameExcept_intro ds pre post [] (fun a d _ _ => by rw [hb]),
    depositsSameExcept_intro pre post [] (fun k _ => hd k), earnedSame_of_eq ds h1 h2, requestsSame_of_eq hn h3 h4]
  rfl

/-! ### state clauses, rejected operations -/

/-- the three state clauses hold on every invariant state -/
theorem c07_state_sound (ds : List Denom) (m : Mon) (hm : m.stranded = []) {s : State} (hs : SInv s) :
    depositEscrowOk ds s = true ∧ requestEscrowOk ds m s = true ∧ tallyOk ds s = true := by
  refine ⟨?_, ?_, ?_⟩
  · unfold depositEscrowOk
    simp only [List.all_eq_true, beq_iff_eq]
    intro d _
    exact hs.di.2 d
  · unfold requestEscrowOk
    simp only [List.all_eq_true, beq_iff_eq]
    intro d _
    rw [hm, hs.escrow d]
    simp [AMap.getD, AMap.get?]
  · unfold tallyOk
    simp only [List.all_eq_true, beq_iff_eq]
    intro o _ d _
    exact (hs.tb.tally o d).symm

/-- a rejected operation: nothing of the ledger moved -/
theorem c07_rejected_sound (ds : List Denom) (s : State) (hr : ReqsND s) : ledgerSame ds s { s with cb := [] } = true :=
  ledgerSame_of_eq ds hr rfl (fun _ => rfl) rfl rfl rfl rfl

/-! ### operations without ledger effect -/

/-- everything the C07 ledger clauses read is untouched -/
def LedgerEq (s s' : State) : Prop :=
  s'.bank = s.bank ∧ (∀ k, (AMap.get? s'.binds k).map (·.deposit) = (AMap.get? s.binds k).map (·.deposit)) ∧
  s'.earned = s.earned ∧ s'.oearned = s.oearned ∧ s'.active = s.active ∧ s'.reqs = s.reqs

theorem ledgerSame_of_LedgerEq (ds : List Denom) {s s' : State} (hr : ReqsND s) (h : LedgerEq s s') :
    ledgerSame ds s s' = true :=
  ledgerSame_of_eq ds hr h.1 h.2.1 h.2.2.1 h.2.2.2.1 h.2.2.2.2.1 h.2.2.2.2.2

/-- the per-operation reset of the callback log is invisible to the ledger clauses -/
theorem LedgerEq.of_cb {s s' : State} (h : LedgerEq { s with cb := [] } s') : LedgerEq s s' := h

theorem createCtx_ledgerEq {s s' : State} {newId svc providers consumer inputOk cap timeout repeated freq total st thr moduleName}
    (h : createCtx s newId svc providers consumer inputOk cap timeout repeated freq total st thr moduleName = .ok s') :
    LedgerEq s s' := by
  unfold createCtx at h
  split at h
  · cases h
  split at h
  · cases h
  split at h
  · cases h
  split at h
  · cases h
  split at h
  · cases h
  cases h
  unfold createState
  split <;> exact ⟨rfl, fun _ => rfl, rfl, rfl, rfl, rfl⟩

theorem keeperPause_ledgerEq {s s' : State} {id : CtxId} {consumer : Addr} (h : keeperPause s id consumer = .ok s') :
    LedgerEq s s' := by
  unfold keeperPause at h
  split at h
  · cases h
  split at h
  · cases h
  split at h
  · cases h
  split at h
  · cases h
  cases h; exact ⟨rfl, fun _ => rfl, rfl, rfl, rfl, rfl⟩

theorem keeperStart_ledgerEq {s s' : State} {id : CtxId} {consumer : Addr} (h : keeperStart s id consumer = .ok s') :
    LedgerEq s s' := by
  unfold keeperStart at h
  split at h
  · cases h
  split at h
  · cases h
  split at h
  · cases h
  split at h
  · cases h
  cases h
  split <;> exact ⟨rfl, fun _ => rfl, rfl, rfl, rfl, rfl⟩

theorem keeperKill_ledgerEq {s s' : State} {id : CtxId} {consumer : Addr} (h : keeperKill s id consumer = .ok s') :
    LedgerEq s s' := by
  unfold keeperKill at h
  split at h
  · cases h
  split at h
  · cases h
  split at h
  · cases h
  cases h; exact ⟨rfl, fun _ => rfl, rfl, rfl, rfl, rfl⟩

theorem keeperUpdate_ledgerEq {s s' : State} {id providers thr cap timeout freq total consumer}
    (h : keeperUpdate s id providers thr cap timeout freq total consumer = .ok s') : LedgerEq s s' := by
  unfold keeperUpdate at h
  split at h
  · cases h
  split at h
  · cases h
  split at h
  · cases h
  split at h
  · cases h
  split at h
  · cases h
  split at h
  · cases h
  split at h
  · cases h
  split at h
  · cases h
  split at h
  · cases h
  cases h; exact ⟨rfl, fun _ => rfl, rfl, rfl, rfl, rfl⟩

theorem define_ledgerEq {s s' : State} {sender name schOk} (h : stepDefine s sender name schOk = .ok s') : LedgerEq s s' := by
  unfold stepDefine at h
  split at h
  · cases h
  split at h
  · cases h
  split at h
  · cases h
  split at h
  · cases h
  cases h; exact ⟨rfl, fun _ => rfl, rfl, rfl, rfl, rfl⟩

theorem setWithdraw_ledgerEq {s s' : State} {owner addr} (h : stepSetWithdraw s owner addr = .ok s') : LedgerEq s s' := by
  unfold stepSetWithdraw at h
  split at h
  · cases h
  split at h
  · cases h
  cases h; exact ⟨rfl, fun _ => rfl, rfl, rfl, rfl, rfl⟩

theorem call_ledgerEq {s s' : State} {newId consumer svc providers cap timeout repeated freq total inputOk}
    (h : stepCall s newId consumer svc providers cap timeout repeated freq total inputOk = .ok s') : LedgerEq s s' := by
  unfold stepCall at h
  split at h
  · cases h
  split at h
  · cases h
  split at h
  · cases h
  exact createCtx_ledgerEq h

/-- `disable` rewrites one binding, keeping its deposit -/
theorem disable_ledgerEq {s s' : State} {owner provider svc} (h : stepDisable s owner provider svc = .ok s') :
    LedgerEq s s' := by
  unfold stepDisable at h
  split at h
  · cases h
  split at h
  · cases h
  rename_i b hb
  split at h
  · cases h
  split at h
  · cases h
  cases h
  refine ⟨rfl, ?_, rfl, rfl, rfl, rfl⟩
  intro k
  show (AMap.get? (AMap.set s.binds (svc, provider) { b with available := false, disabledTime := s.time }) k).map (·.deposit) =
    (AMap.get? s.binds k).map (·.deposit)
  by_cases hk : (svc, provider) = k
  · subst hk
    rw [AMap.get?_set_self, hb]
    rfl
  · rw [AMap.get?_set_other _ _ _ _ hk]

/-- the operations that touch nothing of the ledger -/
def noLedgerOp : Op → Prop
  | .define .. | .setWithdraw .. | .disable .. | .call .. | .mcall .. | .pause .. | .start .. | .kill .. | .updateCtx ..
  | .mpause .. | .mstart .. | .mkill .. | .mupdate .. | .setRate .. | .respond _ none _ _ _ => True
  | _ => False

theorem stepCore_noLedger {t s' : State} {op : Op} (hop : noLedgerOp op) (h : stepCore t op = .ok s') : LedgerEq t s' := by
  cases op with
  | define sender name schOk => exact define_ledgerEq h
  | setWithdraw owner addr => exact setWithdraw_ledgerEq h
  | disable owner provider svc => exact disable_ledgerEq h
  | call tx consumer svc providers cap timeout repeated freq total inputOk => exact call_ledgerEq h
  | mcall tx consumer svc providers cap timeout repeated freq total inputOk paused thr modName => exact createCtx_ledgerEq h
  | pause consumer id => exact keeperPause_ledgerEq (stepPause_inv h)
  | start consumer id => exact keeperStart_ledgerEq (stepStart_inv h)
  | kill consumer id => exact keeperKill_ledgerEq (stepKill_inv h)
  | updateCtx consumer id providers cap timeout freq total => exact keeperUpdate_ledgerEq (stepUpdateCtx_inv h)
  | mpause consumer id => exact keeperPause_ledgerEq h
  | mstart consumer id => exact keeperStart_ledgerEq h
  | mkill consumer id => exact keeperKill_ledgerEq h
  | mupdate consumer id providers thr cap timeout freq total => exact keeperUpdate_ledgerEq h
  | setRate d r =>
    simp only [stepCore] at h
    cases h
    exact ⟨rfl, fun _ => rfl, rfl, rfl, rfl, rfl⟩
  | respond provider rid code out resOk =>
    cases rid with
    | some rid => exact absurd hop (by simp [noLedgerOp])
    | none =>
      simp only [stepCore, stepRespond] at h
      split at h
      · cases h
      · cases h
  | bind => exact absurd hop (by simp [noLedgerOp])
  | updateBinding => exact absurd hop (by simp [noLedgerOp])
  | enable => exact absurd hop (by simp [noLedgerOp])
  | refundDeposit => exact absurd hop (by simp [noLedgerOp])
  | withdraw => exact absurd hop (by simp [noLedgerOp])
  | withdrawK => exact absurd hop (by simp [noLedgerOp])
  | next => exact absurd hop (by simp [noLedgerOp])
  | skip => exact absurd hop (by simp [noLedgerOp])

/-- every operation other than respond / withdraw / bind / update-binding / enable / refund-deposit / next / skip -/
theorem c07_other_sound (ds : List Denom) {s s' : State} {op : Op} (hr : ReqsND s) (hop : noLedgerOp op)
    (h : step s op = .ok s') : ledgerSame ds s s' = true :=
  ledgerSame_of_LedgerEq ds hr (LedgerEq.of_cb (stepCore_noLedger hop h))

/-! ### deposit movements: bind, update-binding, enable, refund-deposit -/

/-- exactly `n` coins of `d` moved from `src` to `dst` -/
def Moved (b b' : Bank) (src dst : Addr) (d : Denom) (n : Nat) : Prop :=
  Bank.balOf b' src d + n = Bank.balOf b src d ∧ Bank.balOf b' dst d = Bank.balOf b dst d + n ∧
  ∀ a' d', (a', d') ≠ (src, d) → (a', d') ≠ (dst, d) → Bank.balOf b' a' d' = Bank.balOf b a' d'

theorem Moved.of_send {b b' : Bank} {src dst : Addr} {d : Denom} {n : Nat} (hne : src ≠ dst)
    (h : Bank.send b src dst d n = some b') : Moved b b' src dst d n :=
  Bank.send_deltas b b' src dst d n hne h

theorem Moved.zero (b : Bank) (src dst : Addr) (d : Denom) : Moved b b src dst d 0 :=
  ⟨rfl, rfl, fun _ _ _ _ => rfl⟩

theorem amountOf_depositOf {s : State} {dep : Coins} {d : Nat} (h : depositOf s dep = some d) :
    coinsBase s dep = d := by
  unfold depositOf at h
  split at h
  · rename_i d0 n
    split at h
    · rename_i hd
      cases h
      simp [coinsBase, Coins.amountOf, List.find?, hd]
    · cases h
  · cases h

theorem amountOf_addedDeposit {s : State} {dep : Coins} {d : Nat} (h : addedDeposit s dep = some d) :
    coinsBase s dep = d := by
  unfold addedDeposit at h
  split at h
  · rename_i he
    cases h
    cases dep with
    | nil => rfl
    | cons _ _ => simp at he
  · exact amountOf_depositOf h

theorem moved_topUp {s : State} {owner : Addr} (ho : owner ≠ depAcc) {dep : Coins} {d : Nat} {bank : Bank}
    (hd : addedDeposit s dep = some d) (ht : topUp s owner dep d = some bank) :
    Moved s.bank bank owner depAcc s.params.base d := by
  unfold topUp at ht
  unfold addedDeposit at hd
  split at ht
  · rename_i he
    simp only [he, if_true] at hd
    cases hd; cases ht
    exact Moved.zero _ _ _ _
  · unfold sendBase at ht
    exact Moved.of_send ho ht

/-- what `checkDeposit` demands, field by field -/
def DepMove (t s' : State) (owner provider : Addr) (svc : String) (before amt : Nat) : Prop :=
  Moved t.bank s'.bank owner depAcc t.params.base amt ∧
  (AMap.get? s'.binds (svc, provider)).map (·.deposit) = some (before + amt) ∧
  (∀ k, k ≠ (svc, provider) → (AMap.get? s'.binds k).map (·.deposit) = (AMap.get? t.binds k).map (·.deposit)) ∧
  s'.earned = t.earned ∧ s'.oearned = t.oearned ∧ s'.active = t.active ∧ s'.reqs = t.reqs

theorem DepMove.of_cb {s s' : State} {owner provider svc before amt}
    (h : DepMove { s with cb := [] } s' owner provider svc before amt) : DepMove s s' owner provider svc before amt := h

private theorem not_mem_pair {α : Type} {x a b : α} (h : x ∉ [a, b]) : x ≠ a ∧ x ≠ b := by
  simp only [List.mem_cons, List.not_mem_nil, or_false, not_or] at h
  exact h

theorem checkDeposit_ok (ds : List Denom) {s s' : State} {owner provider : Addr} {svc : String} {amt : Nat} {isBind : Bool}
    (hr : ReqsND s)
    (h : DepMove s s' owner provider svc
      (if isBind then 0 else ((AMap.get? s.binds (svc, provider)).map (·.deposit)).getD 0) amt) :
    checkDeposit ds s s' owner provider svc amt isBind = [] := by
  obtain ⟨⟨m1, m2, m3⟩, hdep, hoth, e1, e2, e3, e4⟩ := h
  unfold checkDeposit
  dsimp only
  rw [if_pos]
  refine ⟨by rw [hdep]; exact beq_self_eq_true _, Or.inr ⟨by unfold bal; omega, by unfold bal; omega⟩, ?_, ?_,
    earnedSame_of_eq ds e1 e2, requestsSame_of_eq hr e3 e4⟩
  · apply balsSameExcept_intro
    intro a d _ hx
    obtain ⟨h1, h2⟩ := not_mem_pair hx
    exact m3 a d h1 h2
  · apply depositsSameExcept_intro
    intro k hk
    exact hoth k (by simpa using hk)

/-- `bind` -/
theorem bind_depMove {t s' : State} {owner provider svc dep qos pin optsOk} (ho : owner ≠ depAcc)
    (h : stepBind t owner provider svc dep qos pin optsOk = .ok s') :
    DepMove t s' owner provider svc 0 (coinsBase t dep) := by
  unfold stepBind at h
  split at h
  · cases h
  split at h
  · cases h
  unfold keeperBind at h
  split at h
  · cases h
  split at h
  · cases h
  split at h
  · cases h
  split at h
  · cases h
  rename_i d hd
  split at h
  · cases h
  split at h
  · cases h
  split at h
  · cases h
  split at h
  · cases h
  rename_i bank hsend
  cases h
  rw [amountOf_depositOf hd]
  unfold sendBase at hsend
  refine ⟨Moved.of_send ho hsend, ?_, ?_, rfl, rfl, rfl, rfl⟩
  · show (AMap.get? (AMap.set t.binds (svc, provider) _) (svc, provider)).map (·.deposit) = some (0 + d)
    rw [AMap.get?_set_self]; simp
  · intro k hk
    show (AMap.get? (AMap.set t.binds (svc, provider) _) k).map (·.deposit) = _
    rw [AMap.get?_set_other _ _ _ _ (Ne.symm hk)]

/-- `updateBinding` -/
theorem updateBinding_depMove {t s' : State} {owner provider svc dep qos pin opts} (ho : owner ≠ depAcc)
    (h : stepUpdateBinding t owner provider svc dep qos pin opts = .ok s') :
    DepMove t s' owner provider svc (((AMap.get? t.binds (svc, provider)).map (·.deposit)).getD 0) (coinsBase t dep) := by
  unfold stepUpdateBinding at h
  split at h
  · cases h
  obtain ⟨b, d, pr, bank, hb, _, hd, ht, rfl⟩ := keeperUpdateBinding_inv h
  rw [amountOf_addedDeposit hd, hb]
  refine ⟨moved_topUp ho hd ht, ?_, ?_, rfl, rfl, rfl, rfl⟩
  · dsimp only
    split
    · rw [AMap.get?_set_self]; rfl
    · rename_i hno
      have he : dep.isEmpty = true := by
        cases hde : dep.isEmpty with
        | true => rfl
        | false => exact absurd (Or.inr (Or.inl (by simp [hde]))) hno
      unfold addedDeposit at hd
      simp only [he, if_true] at hd
      cases hd
      rw [hb]; rfl
  · intro k hk
    dsimp only
    split
    · rw [AMap.get?_set_other _ _ _ _ (Ne.symm hk)]
    · rfl

/-- `enable` -/
theorem enable_depMove {t s' : State} {owner provider svc dep} (ho : owner ≠ depAcc)
    (h : stepEnable t owner provider svc dep = .ok s') :
    DepMove t s' owner provider svc (((AMap.get? t.binds (svc, provider)).map (·.deposit)).getD 0) (coinsBase t dep) := by
  unfold stepEnable at h
  split at h
  · cases h
  unfold keeperEnable at h
  split at h
  · cases h
  rename_i b hb
  split at h
  · cases h
  split at h
  · cases h
  split at h
  · cases h
  rename_i d hd
  split at h
  · cases h
  split at h
  · cases h
  rename_i bank ht
  cases h
  rw [amountOf_addedDeposit hd, hb]
  refine ⟨moved_topUp ho hd ht, ?_, ?_, rfl, rfl, rfl, rfl⟩
  · show (AMap.get? (AMap.set t.binds (svc, provider) _) (svc, provider)).map (·.deposit) = some (b.deposit + d)
    rw [AMap.get?_set_self]; rfl
  · intro k hk
    show (AMap.get? (AMap.set t.binds (svc, provider) _) k).map (·.deposit) = _
    rw [AMap.get?_set_other _ _ _ _ (Ne.symm hk)]

theorem c07_bind_sound (ds : List Denom) {s s' : State} {owner provider svc dep qos pin optsOk} (hr : ReqsND s)
    (ho : Good owner) (h : step s (.bind owner provider svc dep qos pin optsOk) = .ok s') :
    checkDeposit ds s s' owner provider svc (coinsBase s dep) true = [] :=
  checkDeposit_ok ds hr (DepMove.of_cb (bind_depMove ho.1 h))

theorem c07_updateBinding_sound (ds : List Denom) {s s' : State} {owner provider svc dep qos pin opts} (hr : ReqsND s)
    (ho : Good owner) (h : step s (.updateBinding owner provider svc dep qos pin opts) = .ok s') :
    checkDeposit ds s s' owner provider svc (coinsBase s dep) false = [] :=
  checkDeposit_ok ds hr (DepMove.of_cb (updateBinding_depMove ho.1 h))

theorem c07_enable_sound (ds : List Denom) {s s' : State} {owner provider svc dep} (hr : ReqsND s)
    (ho : Good owner) (h : step s (.enable owner provider svc dep) = .ok s') :
    checkDeposit ds s s' owner provider svc (coinsBase s dep) false = [] :=
  checkDeposit_ok ds hr (DepMove.of_cb (enable_depMove ho.1 h))

/-- what `checkRefundDeposit` demands, field by field -/
def RefundMove (t s' : State) (provider : Addr) (svc : String) : Prop :=
  ∃ b, AMap.get? t.binds (svc, provider) = some b ∧ b.owner ≠ depAcc ∧
  Moved t.bank s'.bank depAcc b.owner t.params.base b.deposit ∧
  (AMap.get? s'.binds (svc, provider)).map (·.deposit) = some 0 ∧
  (∀ k, k ≠ (svc, provider) → (AMap.get? s'.binds k).map (·.deposit) = (AMap.get? t.binds k).map (·.deposit)) ∧
  s'.earned = t.earned ∧ s'.oearned = t.oearned ∧ s'.active = t.active ∧ s'.reqs = t.reqs

theorem RefundMove.of_cb {s s' : State} {provider svc} (h : RefundMove { s with cb := [] } s' provider svc) :
    RefundMove s s' provider svc := h

theorem checkRefundDeposit_ok (ds : List Denom) {s s' : State} {provider : Addr} {svc : String} (hr : ReqsND s)
    (h : RefundMove s s' provider svc) : checkRefundDeposit ds s s' provider svc = [] := by
  obtain ⟨b, hb, _, ⟨m1, m2, m3⟩, hdep, hoth, e1, e2, e3, e4⟩ := h
  unfold checkRefundDeposit
  rw [hb]
  dsimp only
  rw [if_pos]
  refine ⟨by rw [hdep]; exact beq_self_eq_true _, by unfold bal; omega, by unfold bal; omega, ?_, ?_,
    earnedSame_of_eq ds e1 e2, requestsSame_of_eq hr e3 e4⟩
  · apply balsSameExcept_intro
    intro a d _ hx
    obtain ⟨h1, h2⟩ := not_mem_pair hx
    exact m3 a d h2 h1
  · apply depositsSameExcept_intro
    intro k hk
    exact hoth k (by simpa using hk)

theorem refundDeposit_move {t s' : State} {owner provider svc} (hu : UsersInv t)
    (h : stepRefundDeposit t owner provider svc = .ok s') : RefundMove t s' provider svc := by
  unfold stepRefundDeposit at h
  split at h
  · cases h
  unfold keeperRefundDeposit at h
  split at h
  · cases h
  rename_i b hb
  split at h
  · cases h
  split at h
  · cases h
  split at h
  · cases h
  split at h
  · cases h
  split at h
  · cases h
  rename_i bank hsend
  cases h
  have hgo := hu.owners _ _ hb
  unfold sendBase at hsend
  refine ⟨b, hb, hgo.1, Moved.of_send (Ne.symm hgo.1) hsend, ?_, ?_, rfl, rfl, rfl, rfl⟩
  · show (AMap.get? (AMap.set t.binds (svc, provider) _) (svc, provider)).map (·.deposit) = some 0
    rw [AMap.get?_set_self]; rfl
  · intro k hk
    show (AMap.get? (AMap.set t.binds (svc, provider) _) k).map (·.deposit) = _
    rw [AMap.get?_set_other _ _ _ _ (Ne.symm hk)]

theorem c07_refundDeposit_sound (ds : List Denom) {s s' : State} {owner provider svc} (hs : SInv s) (hr : ReqsND s)
    (h : step s (.refundDeposit owner provider svc) = .ok s') : checkRefundDeposit ds s s' provider svc = [] :=
  checkRefundDeposit_ok ds hr (RefundMove.of_cb
    (refundDeposit_move (t := { s with cb := [] }) (UsersInv.of_same (s := s) rfl rfl rfl hs.di.1) h))

/-! ### respond -/

private theorem sumIf_bump (q : Addr × Denom → Bool) (m : AMap (Addr × Denom) Nat) (a : Addr) (d : Denom) (n : Nat) :
    AMap.sumIf q id (bump m a d n) = AMap.sumIf q id m + (if q (a, d) then n else 0) := by
  unfold bump
  split
  · rename_i hn; subst hn; simp
  · have h := AMap.sumIf_set q (id : Nat → Nat) m (a, d) (AMap.getD m (a, d) 0 + n)
    have hb : ((AMap.get? m (a, d)).map (id : Nat → Nat)).getD 0 = AMap.getD m (a, d) 0 := by
      unfold AMap.getD
      cases AMap.get? m (a, d) <;> simp
    rw [hb] at h
    by_cases hq : q (a, d) = true
    · simp only [hq, if_true, id] at h ⊢; omega
    · simp only [hq, Bool.false_eq_true, if_false] at h ⊢; omega

private theorem countResponse_oearned (t : State) (id : CtxId) : (countResponse t id).oearned = t.oearned := by
  unfold countResponse storeCtx completeBatch callback
  split
  · split <;> rfl
  · rfl

/-- what `checkRespond` demands, field by field -/
def RespMove (t s' : State) (provider : Addr) (rid : ReqId) : Prop :=
  ∃ rq, AMap.get? t.reqs rid = some rq ∧ mulTrunc rq.feeAmt t.params.tax ≤ rq.feeAmt ∧
    Moved t.bank s'.bank reqAcc fcAcc rq.feeDenom (mulTrunc rq.feeAmt t.params.tax) ∧
    s'.earned = bump t.earned provider rq.feeDenom (rq.feeAmt - mulTrunc rq.feeAmt t.params.tax) ∧
    s'.oearned = bump t.oearned (AMap.getD t.owners provider "") rq.feeDenom (rq.feeAmt - mulTrunc rq.feeAmt t.params.tax) ∧
    s'.binds = t.binds

theorem RespMove.of_cb {s s' : State} {provider rid} (h : RespMove { s with cb := [] } s' provider rid) :
    RespMove s s' provider rid := h

theorem keeperRespond_move {t s' : State} {provider : Addr} {rid : ReqId} {hasOut : Bool}
    (h : keeperRespond t provider rid hasOut = .ok s') : RespMove t s' provider rid := by
  unfold keeperRespond at h
  split at h
  · cases h
  rename_i rq rc hgr
  split at h
  · cases h
  split at h
  · cases h
  split at h
  · cases h
  rename_i s1 hfee
  cases h
  obtain ⟨hq, _⟩ := getRequest_some hgr
  unfold addEarnedFee at hfee
  split at hfee
  · cases hfee
  rename_i bank hsend
  split at hfee
  · cases hfee
  rename_i htax
  cases hfee
  refine ⟨rq, hq, by unfold taxOf at htax; omega, ?_, ?_, ?_, ?_⟩
  · rw [(countResponse_ledger _ _).1]
    exact Moved.of_send (by decide) hsend
  · rw [(countResponse_ledger _ _).2.1]; rfl
  · rw [countResponse_oearned]; rfl
  · rw [(countResponse_ledger _ _).2.2.1]; rfl

theorem checkRespond_ok (ds : List Denom) {s s' : State} {provider : Addr} {rid : ReqId}
    (h : RespMove s s' provider rid) : checkRespond ds s s' provider rid = [] := by
  obtain ⟨rq, hq, htax, ⟨m1, m2, m3⟩, e1, e2, e3⟩ := h
  have hE : ∀ a d, earnedOf s' a d = earnedOf s a d +
      (if (decide (provider = a) && decide (rq.feeDenom = d)) = true then rq.feeAmt - mulTrunc rq.feeAmt s.params.tax else 0) := by
    intro a d
    unfold earnedOf
    rw [e1, sumIf_bump]
  have hO : ∀ a d, ownerEarned s' a d = ownerEarned s a d +
      (if (decide (AMap.getD s.owners provider "" = a) && decide (rq.feeDenom = d)) = true
        then rq.feeAmt - mulTrunc rq.feeAmt s.params.tax else 0) := by
    intro a d
    unfold ownerEarned
    rw [e2, sumIf_bump]
  unfold checkRespond
  rw [hq]
  dsimp only
  rw [if_pos]
  refine ⟨htax, by unfold bal; omega, by unfold bal; omega, ?_, ?_, ?_, ?_, ?_, depositsSame_of_binds e3⟩
  · apply balsSameExcept_intro
    intro a d _ hx
    obtain ⟨h1, h2⟩ := not_mem_pair hx
    exact m3 a d h2 h1
  · rw [hE]; simp
  · rw [hO]; simp
  · rw [List.all_eq_true]
    intro d' _
    by_cases hd : d' = rq.feeDenom
    · simp [hd]
    · have hd' : ¬ rq.feeDenom = d' := fun e => hd e.symm
      rw [hE, hO]
      simp [hd, hd']
  · apply earnedSameExcept_intro
    · intro a d ha
      have ha' : ¬ provider = a := by
        intro e; apply ha; rw [e]; exact List.mem_singleton.mpr rfl
      rw [hE]; simp [ha']
    · intro a d ha
      have ha' : ¬ AMap.getD s.owners provider "" = a := by
        intro e; apply ha; rw [e]; exact List.mem_singleton.mpr rfl
      rw [hO]; simp [ha']

theorem c07_respond_sound (ds : List Denom) {s s' : State} {provider rid code out resOk}
    (h : step s (.respond provider (some rid) code out resOk) = .ok s') : checkRespond ds s s' provider rid = [] := by
  apply checkRespond_ok
  apply RespMove.of_cb
  unfold step at h
  simp only [stepCore, stepRespond] at h
  split at h
  · cases h
  exact keeperRespond_move h

/-! ### withdraw -/

/-- an all-or-nothing multi-coin send credits the receiver by the coin amounts -/
private theorem sendCoins_dst {src dst : Addr} (hne : src ≠ dst) : ∀ (c : Coins) (b b' : Bank) (d : Denom),
    Bank.sendCoins b src dst c = some b' → Bank.balOf b' dst d = Bank.balOf b dst d + coinsIn c d
  | [], b, b', d, h => by
    simp [Bank.sendCoins] at h; subst h; simp [coinsIn, AMap.sumIf]
  | (d0, n) :: rest, b, b', d, h => by
    simp only [Bank.sendCoins] at h
    cases h1 : Bank.send b src dst d0 n with
    | none => simp [h1] at h
    | some b1 =>
      simp only [h1, Option.bind] at h
      have ih := sendCoins_dst hne rest b1 b' d h
      rw [coinsIn_cons]
      by_cases hd : d0 = d
      · subst hd
        have := send_balOf_dst hne h1
        simp; omega
      · have := send_balOf_other h1 dst d (by intro e; cases e; exact hd rfl) (by intro e; cases e; exact hd rfl)
        simp [hd]; omega

/-- what `checkWithdraw … (some p)` demands, field by field -/
def WdMove (t s' : State) (owner p : Addr) : Prop :=
  (∀ d, Bank.balOf s'.bank reqAcc d + earnedOf t p d = Bank.balOf t.bank reqAcc d) ∧
  (∀ d, Bank.balOf s'.bank (AMap.getD t.wd owner owner) d = Bank.balOf t.bank (AMap.getD t.wd owner owner) d + earnedOf t p d) ∧
  (∀ a d, a ≠ reqAcc → a ≠ AMap.getD t.wd owner owner → Bank.balOf s'.bank a d = Bank.balOf t.bank a d) ∧
  (∀ d, earnedOf s' p d = 0) ∧ s'.binds = t.binds ∧
  (∀ d, ownerEarned s' owner d + earnedOf t p d = ownerEarned t owner d)

theorem WdMove.of_cb {s s' : State} {owner p} (h : WdMove { s with cb := [] } s' owner p) : WdMove s s' owner p := h

theorem withdrawProvider_move {t s' : State} {owner p : Addr} (hw : Good (wdAddrOf t owner)) (ht : TallyInv t)
    (hn1 : KeysNodup t.earned) (hn2 : KeysNodup t.oearned) (h : withdrawProvider t owner p = .ok s') :
    WdMove t s' owner p := by
  have hT' : TallyInv s' := (tally_withdrawProvider ht hn1 hn2 h).1
  unfold withdrawProvider at h
  split at h
  · cases h
  rename_i hown
  have hown' : AMap.get? t.owners p = some owner := Decidable.of_not_not hown
  split at h
  · cases h
  rename_i T hT
  split at h
  · cases h
  rename_i bank hsend
  cases h
  have hpaid : ∀ d, coinsIn (entriesOf t.earned p) d = earnedOf t p d := fun d => coinsIn_entriesOf _ _ _
  refine ⟨?_, ?_, ?_, ?_, rfl, ?_⟩
  · intro d
    rw [← hpaid]
    exact sendCoins_src (src := reqAcc) (dst := wdAddrOf t owner) (Ne.symm hw.2) _ _ _ d hsend
  · intro d
    rw [← hpaid]
    exact sendCoins_dst (src := reqAcc) (dst := wdAddrOf t owner) (Ne.symm hw.2) _ _ _ d hsend
  · intro a d h1 h2
    exact sendCoins_frame a h1 h2 _ _ _ hsend d
  · intro d
    exact sumIf_eraseAll_self t.earned p d
  · intro d
    have a := hT' owner d
    have b := ht owner d
    have hprov := sumIf_eraseAll_split (fun k : Addr × Denom => decide (k.2 = d) && ownedBy t owner k.1) p t.earned
    have hshare : AMap.sumIf (fun k : Addr × Denom => (decide (k.2 = d) && ownedBy t owner k.1) && decide (k.1 = p)) id t.earned =
        earnedOf t p d := by
      unfold earnedOf
      congr 1
      funext k
      by_cases hk : k.1 = p
      · have hob : ownedBy t owner p = true := by unfold ownedBy; rw [hown']; simp
        simp [hk, hob, Bool.and_comm]
      · simp [hk]
    rw [hshare] at hprov
    have a' : AMap.sumIf (fun k : Addr × Denom => decide (k.2 = d) && ownedBy t owner k.1) id (eraseAll t.earned p) =
        ownerEarned { t with bank := bank, earned := eraseAll t.earned p, oearned := T } owner d := a
    have b' : AMap.sumIf (fun k : Addr × Denom => decide (k.2 = d) && ownedBy t owner k.1) id t.earned = ownerEarned t owner d := b
    omega

private theorem mem_flatMap_pairs (ds : List Denom) (x y : Addr) (a : Addr) (d : Denom) (hd : d ∈ ds) (ha : a = x ∨ a = y) :
    (a, d) ∈ ds.flatMap fun d => [(x, d), (y, d)] := by
  rw [List.mem_flatMap]
  refine ⟨d, hd, ?_⟩
  rcases ha with rfl | rfl
  · exact List.mem_cons_self ..
  · exact List.mem_cons_of_mem _ (List.mem_cons_self ..)

theorem checkWithdraw_ok (ds : List Denom) (m : Mon) {s s' : State} {owner p : Addr}
    (hw : AMap.getD s.wd owner owner ≠ reqAcc) (h : WdMove s s' owner p) :
    checkWithdraw ds m s s' owner (some p) = (m, []) := by
  obtain ⟨m1, m2, m3, hclr, hb, htal⟩ := h
  unfold checkWithdraw
  dsimp only
  have hbals : balsSameExcept ds s s' (ds.flatMap fun d => [(AMap.getD s.wd owner owner, d), (reqAcc, d)]) = true := by
    apply balsSameExcept_intro
    intro a d hd hx
    apply m3 a d
    · intro e; exact hx (mem_flatMap_pairs ds _ _ a d hd (Or.inr e))
    · intro e; exact hx (mem_flatMap_pairs ds _ _ a d hd (Or.inl e))
  have hmoney : (ds.all fun d =>
      (if AMap.getD s.wd owner owner = reqAcc then true
       else bal s' (AMap.getD s.wd owner owner) d == bal s (AMap.getD s.wd owner owner) d + (earnedOf s p d : Nat) &&
         bal s' reqAcc d == bal s reqAcc d - (earnedOf s p d : Nat)) &&
      balsSameExcept ds s s' (ds.flatMap fun d => [(AMap.getD s.wd owner owner, d), (reqAcc, d)])) = true := by
    rw [List.all_eq_true]
    intro d _
    rw [hbals, if_neg hw, Bool.and_true, Bool.and_eq_true, beq_iff_eq, beq_iff_eq]
    have h1 := m1 d
    have h2 := m2 d
    unfold bal
    constructor <;> omega
  have hcleared : (ds.all fun d => earnedOf s' p d == 0) = true := by
    rw [List.all_eq_true]
    intro d _
    rw [hclr d]; rfl
  have htally : (ds.all fun d => ownerEarned s' owner d + earnedOf s p d == ownerEarned s owner d) = true := by
    rw [List.all_eq_true]
    intro d _
    rw [htal d]; exact beq_self_eq_true _
  rw [hmoney, hcleared, htally, depositsSame_of_binds hb]
  rfl

theorem c07_keeperWithdraw_sound (ds : List Denom) (m : Mon) {s s' : State} {owner p : Addr} (hs : SInv s) (ho : Good owner)
    (h : withdrawProvider { s with cb := [] } owner p = .ok s') : checkWithdraw ds m s s' owner (some p) = (m, []) := by
  have hw : Good (wdAddrOf s owner) := good_wdAddrOf hs.di.1 ho
  exact checkWithdraw_ok ds m hw.2
    (WdMove.of_cb (withdrawProvider_move (t := { s with cb := [] }) hw hs.tb.tally hs.tb.nd1 hs.tb.nd2 h))

theorem c07_withdraw_sound (ds : List Denom) (m : Mon) {s s' : State} {owner : Addr} {provider : String} (hs : SInv s)
    (ho : Good owner) (h : step s (.withdraw owner provider) = .ok s') :
    checkWithdraw ds m s s' owner (some provider) = (m, []) := by
  unfold step at h
  simp only [stepCore, stepWithdraw] at h
  split at h
  · cases h
  split at h
  · cases h
  exact c07_keeperWithdraw_sound ds m hs ho h

theorem c07_withdrawK_sound (ds : List Denom) (m : Mon) {s s' : State} {owner : Addr} {provider : Option Addr} (hs : SInv s)
    (ho : Good owner) (hr : opReachable (.withdrawK owner provider)) (h : step s (.withdrawK owner provider) = .ok s') :
    checkWithdraw ds m s s' owner provider = (m, []) := by
  cases provider with
  | none => exact absurd hr (by simp [opReachable])
  | some p =>
    unfold step at h
    simp only [stepCore, keeperWithdraw] at h
    exact c07_keeperWithdraw_sound ds m hs ho h

/-! ### all message operations -/

/-- every accepted message operation (everything but `next` / `skip`): the step clauses of `check` pass and the
memory is unchanged -/
theorem c07_msg_sound (ds : List Denom) (m : Mon) {s s' : State} {op : Op} (hs : SInv s) (hr : ReqsND s) (ho : OpOK s op)
    (hn : ∀ dt, op ≠ .next dt) (h : step s op = .ok s') :
    (match op with
      | .respond provider (some rid) _ _ _ => (m, checkRespond ds s s' provider rid)
      | .withdraw owner provider => checkWithdraw ds m s s' owner (some provider)
      | .withdrawK owner provider => checkWithdraw ds m s s' owner provider
      | .bind owner provider svc dep _ _ _ => (m, checkDeposit ds s s' owner provider svc (coinsBase s dep) true)
      | .updateBinding owner provider svc dep _ _ _ => (m, checkDeposit ds s s' owner provider svc (coinsBase s dep) false)
      | .enable owner provider svc dep => (m, checkDeposit ds s s' owner provider svc (coinsBase s dep) false)
      | .refundDeposit _ provider svc => (m, checkRefundDeposit ds s s' provider svc)
      | _ => (m, if ledgerSame ds s s' then [] else [{ clause := "no-ledger-effect" }])) = (m, []) := by
  have hu := ho.users
  cases op with
  | respond provider rid code out resOk =>
    cases rid with
    | some rid => simp only [c07_respond_sound ds h]
    | none => simp only [c07_other_sound ds hr (by simp [noLedgerOp]) h, if_true]
  | withdraw owner provider => exact c07_withdraw_sound ds m hs hu h
  | withdrawK owner provider => exact c07_withdrawK_sound ds m hs hu ho.reachable h
  | bind owner provider svc dep qos pin optsOk => simp only [c07_bind_sound ds hr hu h]
  | updateBinding owner provider svc dep qos pin opts => simp only [c07_updateBinding_sound ds hr hu h]
  | enable owner provider svc dep => simp only [c07_enable_sound ds hr hu h]
  | refundDeposit owner provider svc => simp only [c07_refundDeposit_sound ds hs hr h]
  | next dt => exact absurd rfl (hn dt)
  | skip n dt => exact absurd ho.notSkip (by simp [notSkip])
  | define sender name schOk => simp only [c07_other_sound ds hr (by simp [noLedgerOp]) h, if_true]
  | setWithdraw owner addr => simp only [c07_other_sound ds hr (by simp [noLedgerOp]) h, if_true]
  | disable owner provider svc => simp only [c07_other_sound ds hr (by simp [noLedgerOp]) h, if_true]
  | call tx consumer svc providers cap timeout repeated freq total inputOk =>
    simp only [c07_other_sound ds hr (by simp [noLedgerOp]) h, if_true]
  | mcall tx consumer svc providers cap timeout repeated freq total inputOk paused thr modName =>
    simp only [c07_other_sound ds hr (by simp [noLedgerOp]) h, if_true]
  | pause consumer id => simp only [c07_other_sound ds hr (by simp [noLedgerOp]) h, if_true]
  | start consumer id => simp only [c07_other_sound ds hr (by simp [noLedgerOp]) h, if_true]
  | kill consumer id => simp only [c07_other_sound ds hr (by simp [noLedgerOp]) h, if_true]
  | updateCtx consumer id providers cap timeout freq total => simp only [c07_other_sound ds hr (by simp [noLedgerOp]) h, if_true]
  | mpause consumer id => simp only [c07_other_sound ds hr (by simp [noLedgerOp]) h, if_true]
  | mstart consumer id => simp only [c07_other_sound ds hr (by simp [noLedgerOp]) h, if_true]
  | mkill consumer id => simp only [c07_other_sound ds hr (by simp [noLedgerOp]) h, if_true]
  | mupdate consumer id providers thr cap timeout freq total => simp only [c07_other_sound ds hr (by simp [noLedgerOp]) h, if_true]
  | setRate d r => simp only [c07_other_sound ds hr (by simp [noLedgerOp]) h, if_true]

/-- a rejected line whose ledger did not move, on a post-state that satisfies the state clauses -/
theorem check_rejected (ds : List Denom) (m : Mon) (pre post : State) (op : Op) (h1 : ledgerSame ds pre post = true)
    (h2 : depositEscrowOk ds post = true ∧ requestEscrowOk ds m post = true ∧ tallyOk ds post = true) :
    check ds m pre op false post = (m, []) := by
  unfold check
  simp only [Bool.not_false, if_true, h1, h2.1, h2.2.1, h2.2.2, List.append_nil]

/-- an accepted message line whose step clauses pass without changing the memory, on a post-state that satisfies
the state clauses -/
theorem check_accepted (ds : List Denom) (m : Mon) (pre post : State) (op : Op)
    (h1 : (match op with
      | .respond provider (some rid) _ _ _ => (m, checkRespond ds pre post provider rid)
      | .withdraw owner provider => checkWithdraw ds m pre post owner (some provider)
      | .withdrawK owner provider => checkWithdraw ds m pre post owner provider
      | .bind owner provider svc dep _ _ _ => (m, checkDeposit ds pre post owner provider svc (coinsBase pre dep) true)
      | .updateBinding owner provider svc dep _ _ _ => (m, checkDeposit ds pre post owner provider svc (coinsBase pre dep) false)
      | .enable owner provider svc dep => (m, checkDeposit ds pre post owner provider svc (coinsBase pre dep) false)
      | .refundDeposit _ provider svc => (m, checkRefundDeposit ds pre post provider svc)
      | _ => (m, if ledgerSame ds pre post then [] else [{ clause := "no-ledger-effect" }])) = (m, ([] : List Fail)))
    (hn : ∀ dt, op ≠ .next dt) (hk : notSkip op)
    (h2 : depositEscrowOk ds post = true ∧ requestEscrowOk ds m post = true ∧ tallyOk ds post = true) :
    check ds m pre op true post = (m, []) := by
  cases op with
  | next dt => exact absurd rfl (hn dt)
  | skip n dt => exact absurd hk (by simp [notSkip])
  | respond provider rid code out resOk =>
    cases rid <;>
    · unfold check
      simp only [Bool.not_true, Bool.false_eq_true, if_false] at h1 ⊢
      first | rw [h1] | rw [(Prod.mk.inj h1).2]
      simp only [h2.1, h2.2.1, h2.2.2, if_true, List.append_nil]
  | _ =>
    unfold check
    simp only [Bool.not_true, Bool.false_eq_true, if_false] at h1 ⊢
    first | rw [h1] | rw [(Prod.mk.inj h1).2]
    simp only [h2.1, h2.2.1, h2.2.2, if_true, List.append_nil]

theorem c07_check_msg_sound (ds : List Denom) (m : Mon) (hm : m.stranded = []) {s : State} {op : Op} (hs : SInv s)
    (hr : ReqsND s) (hs' : SInv (apply s op)) (ho : OpOK s op) (hn : ∀ dt, op ≠ .next dt) :
    check ds m s op (accepted s op) (apply s op) = (m, []) := by
  have hst := c07_state_sound ds m hm hs'
  cases h : step s op with
  | error e =>
    obtain ⟨ha, hp⟩ := accepted_err h
    rw [hp] at hst
    rw [ha, hp]
    exact check_rejected ds m s _ op (c07_rejected_sound ds s hr) hst
  | ok s' =>
    obtain ⟨ha, hp⟩ := accepted_ok h
    rw [hp] at hst
    rw [ha, hp]
    exact check_accepted ds m s s' op (c07_msg_sound ds m hs hr ho hn h) hn ho.notSkip hst

/-! ### `ReqsND` is an invariant of every operation (no side condition) -/

private theorem keeperRespond_reqs {t s' : State} {provider : Addr} {rid : ReqId} {hasOut : Bool}
    (h : keeperRespond t provider rid hasOut = .ok s') : s'.reqs = t.reqs := by
  unfold keeperRespond at h
  split at h
  · cases h
  split at h
  · cases h
  split at h
  · cases h
  split at h
  · cases h
  rename_i s1 hfee
  cases h
  rw [(countResponse_fields _ _).2.2.2.2.1]
  exact (addEarnedFee_sched hfee).1.2.2.2.2.2.1

/-- a message operation leaves the request table alone -/
theorem stepCore_msg_reqs {t s' : State} {op : Op} (hn : ∀ dt, op ≠ .next dt) (hk : notSkip op)
    (h : stepCore t op = .ok s') : s'.reqs = t.reqs := by
  cases op with
  | next dt => exact absurd rfl (hn dt)
  | skip n dt => exact absurd hk (by simp [notSkip])
  | bind owner provider svc dep qos pin optsOk =>
    simp only [stepCore, stepBind] at h
    split at h
    · cases h
    split at h
    · cases h
    obtain ⟨d, pr, bank, _, _, _, rfl⟩ := keeperBind_inv h
    rfl
  | updateBinding owner provider svc dep qos pin opts =>
    simp only [stepCore, stepUpdateBinding] at h
    split at h
    · cases h
    obtain ⟨b, d, pr, bank, _, _, _, _, rfl⟩ := keeperUpdateBinding_inv h
    rfl
  | enable owner provider svc dep =>
    simp only [stepCore, stepEnable] at h
    split at h
    · cases h
    unfold keeperEnable at h
    split at h
    · cases h
    split at h
    · cases h
    split at h
    · cases h
    split at h
    · cases h
    split at h
    · cases h
    split at h
    · cases h
    cases h
    rfl
  | refundDeposit owner provider svc =>
    simp only [stepCore, stepRefundDeposit] at h
    split at h
    · cases h
    unfold keeperRefundDeposit at h
    split at h
    · cases h
    split at h
    · cases h
    split at h
    · cases h
    split at h
    · cases h
    split at h
    · cases h
    split at h
    · cases h
    cases h
    rfl
  | respond provider rid code out resOk =>
    cases rid with
    | none => exact (stepCore_noLedger (by simp [noLedgerOp]) h).2.2.2.2.2
    | some rid =>
      simp only [stepCore, stepRespond] at h
      split at h
      · cases h
      exact keeperRespond_reqs h
  | withdraw owner provider =>
    simp only [stepCore, stepWithdraw] at h
    split at h
    · cases h
    split at h
    · cases h
    exact (keeperWithdraw_sched h).2.2.2.2.2.1
  | withdrawK owner provider => exact (keeperWithdraw_sched h).2.2.2.2.2.1
  | define sender name schOk => exact (stepCore_noLedger (by simp [noLedgerOp]) h).2.2.2.2.2
  | setWithdraw owner addr => exact (stepCore_noLedger (by simp [noLedgerOp]) h).2.2.2.2.2
  | disable owner provider svc => exact (stepCore_noLedger (by simp [noLedgerOp]) h).2.2.2.2.2
  | call tx consumer svc providers cap timeout repeated freq total inputOk =>
    exact (stepCore_noLedger (by simp [noLedgerOp]) h).2.2.2.2.2
  | mcall tx consumer svc providers cap timeout repeated freq total inputOk paused thr modName =>
    exact (stepCore_noLedger (by simp [noLedgerOp]) h).2.2.2.2.2
  | pause consumer id => exact (stepCore_noLedger (by simp [noLedgerOp]) h).2.2.2.2.2
  | start consumer id => exact (stepCore_noLedger (by simp [noLedgerOp]) h).2.2.2.2.2
  | kill consumer id => exact (stepCore_noLedger (by simp [noLedgerOp]) h).2.2.2.2.2
  | updateCtx consumer id providers cap timeout freq total => exact (stepCore_noLedger (by simp [noLedgerOp]) h).2.2.2.2.2
  | mpause consumer id => exact (stepCore_noLedger (by simp [noLedgerOp]) h).2.2.2.2.2
  | mstart consumer id => exact (stepCore_noLedger (by simp [noLedgerOp]) h).2.2.2.2.2
  | mkill consumer id => exact (stepCore_noLedger (by simp [noLedgerOp]) h).2.2.2.2.2
  | mupdate consumer id providers thr cap timeout freq total => exact (stepCore_noLedger (by simp [noLedgerOp]) h).2.2.2.2.2
  | setRate d r => exact (stepCore_noLedger (by simp [noLedgerOp]) h).2.2.2.2.2

theorem mkRequests_reqsND (id : CtxId) (b : Nat) (svc : String) (cons : Addr) (to : Int) :
    ∀ (l : List Addr) (i : Nat) (s : State), KeysNodup s.reqs → KeysNodup (mkRequests s id b svc cons to l i).reqs
  | [], _, _, h => h
  | p :: rest, i, s, h => by
    simp only [mkRequests]
    exact mkRequests_reqsND id b svc cons to rest (i + 1) _ (KeysNodup.set (m := s.reqs) h _ _)

theorem newBatch_reqsND {s : State} (h : ReqsND s) (id : CtxId) : ReqsND (newBatch s id) := by
  unfold ReqsND at h ⊢
  unfold newBatch
  split
  · split
    · show KeysNodup (onPaused s id (getCtx s id) "no exchange rate").reqs
      rw [(onPaused_ledger s id (getCtx s id) "no exchange rate").2.2.1]; exact h
    · split
      · unfold chargeAndStart
        split
        · show KeysNodup (mkRequests _ id _ _ _ _ _ 0).reqs
          exact mkRequests_reqsND _ _ _ _ _ _ _ _ h
        · show KeysNodup (onPaused s id (getCtx s id) "insufficient balances").reqs
          rw [(onPaused_ledger s id (getCtx s id) "insufficient balances").2.2.1]; exact h
      · exact h
  · exact h

private theorem settleCtx_reqs (t : State) (id : CtxId) (rc : Ctx) : (settleCtx t id rc).reqs = t.reqs := by
  unfold settleCtx
  split
  · rfl
  · split
    · split <;> rfl
    · rfl

private theorem expirePhase_reqs (s : State) (id : CtxId) : (expirePhase s id).1.reqs = s.reqs := by
  unfold expirePhase
  split
  · have hf := (foldl_expireReq_sched (activeOf s id (getCtx s id).batchCounter) s).1.2.2.2.2.1
    unfold completeBatch callback
    split <;> exact hf
  · rfl

theorem expireCtx_reqsND {s : State} (h : ReqsND s) (id : CtxId) : ReqsND (expireCtx s id) := by
  unfold ReqsND at h ⊢
  unfold expireCtx finishExpire
  show KeysNodup ((settleCtx _ id _).reqs.filter _)
  rw [settleCtx_reqs]
  show KeysNodup ((expirePhase s id).1.reqs.filter _)
  rw [expirePhase_reqs]
  exact h.filter _

private theorem foldl_reqsND {α : Type} (f : State → α → State) (hf : ∀ s a, ReqsND s → ReqsND (f s a)) :
    ∀ (l : List α) (s : State), ReqsND s → ReqsND (l.foldl f s)
  | [], _, h => h
  | a :: t, s, h => foldl_reqsND f hf t (f s a) (hf s a h)

theorem nextBlock_reqsND {s : State} (h : ReqsND s) (dt : Int) : ReqsND (nextBlock s dt) := by
  have h1 : ReqsND (expiredPhase s) := foldl_reqsND expireCtx (fun s a hs => expireCtx_reqsND hs a) _ s h
  have h2 : ReqsND (endBlock s) := foldl_reqsND newBatch (fun s a hs => newBatch_reqsND hs a) _ _ h1
  exact h2

theorem skipBlocks_reqsND (dt : Int) : ∀ (n : Nat) (s : State), ReqsND s → ReqsND (skipBlocks s dt n)
  | 0, _, h => h
  | n + 1, s, h => skipBlocks_reqsND dt n (nextBlock s dt) (nextBlock_reqsND h dt)

theorem ReqsND_stepCore {t s' : State} {op : Op} (hr : ReqsND t) (h : stepCore t op = .ok s') : ReqsND s' := by
  by_cases hn : ∀ dt, op ≠ .next dt
  · by_cases hk : notSkip op
    · unfold ReqsND; rw [stepCore_msg_reqs hn hk h]; exact hr
    · cases op with
      | skip n dt =>
        simp only [stepCore] at h
        cases h
        exact skipBlocks_reqsND dt n t hr
      | _ => exact absurd trivial hk
  · cases op with
    | next dt =>
      simp only [stepCore] at h
      cases h
      exact nextBlock_reqsND hr dt
    | _ => exact absurd (fun dt => by simp) hn

/-- **unique request keys are kept by every operation line**, accepted or not, without side conditions -/
theorem ReqsND_apply {s : State} (hr : ReqsND s) (op : Op) : ReqsND (apply s op) := by
  unfold apply
  cases h : step s op with
  | error e => exact hr
  | ok s' => exact ReqsND_stepCore (t := { s with cb := [] }) hr h

theorem ReqsND_run : ∀ (ops : List Op) (s : State), ReqsND s → ReqsND (run s ops)
  | [], _, h => h
  | op :: rest, s, h => ReqsND_run rest (apply s op) (ReqsND_apply h op)

/-- the genesis states of `Props.C07` / `Props.C12.Service` have an empty request table -/
theorem ReqsND_genesis {s : State} (g : Irismod.Props.C07.Genesis s) : ReqsND s := ReqsND_of_nil g.reqs

theorem ReqsND_genesis12 {s : State} (g : Irismod.Props.C12.Service.Genesis s) : ReqsND s := ReqsND_genesis g.base

end Irismod.Proofs.ServiceMonitor
