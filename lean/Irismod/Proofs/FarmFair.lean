/-
C06(d): fairness ledger.  Each farmer's cumulative payout stays within (number of interactions
× (1 − 10⁻¹⁸)) base units of the farmer's share Σ Δ(rewardPerShare) × stake, for every history.
-/
import Irismod.Proofs.FarmRun

namespace Irismod.Proofs.Farm
open Irismod Irismod.Sdk Irismod.Farm Irismod.Spec

abbrev LKey := Addr × PoolId × Denom

/-- the ledger entry written by one interaction -/
def bookOne (e : Ledger) (r : Rule) (locked : Nat) (rewards : CoinList) : Ledger :=
  { paid := e.paid + amountOf rewards r.denom,
    owed := e.owed + (r.rps.raw - e.mark) * (locked : Int),
    n := e.n + 1,
    mark := r.rps.raw,
    exact := e.exact + (r.acc - e.accMark) * (locked : Rat),
    accMark := r.acc,
    relMark := r.nRel,
    slack := e.slack + locked * (r.nRel - e.relMark) }

theorem getD_set_self (m : AMap LKey Ledger) (k : LKey) (v : Ledger) : AMap.getD (AMap.set m k v) k {} = v := by
  unfold AMap.getD; rw [AMap.get?_set_self]; rfl

theorem getD_set_other (m : AMap LKey Ledger) (k k2 : LKey) (v : Ledger) (h : k ≠ k2) :
    AMap.getD (AMap.set m k v) k2 {} = AMap.getD m k2 {} := by
  unfold AMap.getD; rw [AMap.get?_set_other _ _ _ _ h]

theorem bookLedger_cons (lg : AMap LKey Ledger) (a : Addr) (id : PoolId) (L : Nat) (rw : CoinList) (r : Rule) (rs : List Rule) :
    bookLedger lg a id L rw (r :: rs) =
      bookLedger (AMap.set lg (a, id, r.denom) (bookOne (AMap.getD lg (a, id, r.denom) {}) r L rw)) a id L rw rs := rfl

theorem bookLedger_other : ∀ (rs : List Rule) (lg : AMap LKey Ledger) (a : Addr) (id : PoolId) (L : Nat) (rw : CoinList) (k : LKey),
    (∀ r ∈ rs, (a, id, r.denom) ≠ k) → AMap.getD (bookLedger lg a id L rw rs) k {} = AMap.getD lg k {}
  | [], _, _, _, _, _, _, _ => rfl
  | r :: rs, lg, a, id, L, rw, k, h => by
    rw [bookLedger_cons, bookLedger_other rs _ a id L rw k (fun r' hr' => h r' (by simp [hr']))]
    exact getD_set_other _ _ _ _ (h r (by simp))

theorem bookLedger_self : ∀ (rs : List Rule) (lg : AMap LKey Ledger) (a : Addr) (id : PoolId) (L : Nat) (rw : CoinList) (r : Rule),
    (rs.map (·.denom)).Nodup → r ∈ rs →
    AMap.getD (bookLedger lg a id L rw rs) (a, id, r.denom) {} = bookOne (AMap.getD lg (a, id, r.denom) {}) r L rw
  | [], _, _, _, _, _, _, _, h => by simp at h
  | x :: rs, lg, a, id, L, rw, r, hn, h => by
    simp only [List.map_cons, List.nodup_cons] at hn
    rw [bookLedger_cons]
    simp only [List.mem_cons] at h
    rcases h with e | e
    · subst e
      rw [bookLedger_other rs _ a id L rw (a, id, r.denom)]
      · exact getD_set_self _ _ _
      · intro r' hr' e2
        have : r'.denom = r.denom := by
          have := (Prod.mk.inj (Prod.mk.inj e2).2).2; exact this
        apply hn.1; rw [← this]; exact List.mem_map_of_mem hr'
    · have hne : x.denom ≠ r.denom := by
        intro e2; apply hn.1; rw [e2]; exact List.mem_map_of_mem e
      rw [bookLedger_self rs _ a id L rw r hn.2 e]
      rw [getD_set_other _ _ _ _ (by intro e2; exact hne (Prod.mk.inj (Prod.mk.inj e2).2).2)]

/-- the recorded debt is the floor of the marked share -/
def MarkOK (s : State) : Prop :=
  ∀ a id f p, getFarmer s a id = some f → getPool s id = some p → ∀ r ∈ p.rules,
    (amountOf f.debt r.denom : Int) = ((AMap.getD s.ledger (a, id, r.denom) {}).mark * (f.locked : Int)) / precision ∧
    0 ≤ (AMap.getD s.ledger (a, id, r.denom) {}).mark

structure LedgerInv (s : State) : Prop where
  fair : C06.Fair s
  mark : MarkOK s

/-- the floor arithmetic of one payout -/
theorem payout_bound (rps mark : Int) (L : Nat) :
    (((rps * (L : Int)) / precision - (mark * (L : Int)) / precision) * (C06.unit : Int) - (rps - mark) * (L : Int)).natAbs
      ≤ C06.unit - 1 := by
  have key : ∀ A B : Int, ((A / 1000000000000000000 - B / 1000000000000000000) * 1000000000000000000 - (A - B)).natAbs
      ≤ 999999999999999999 := by
    intro A B; omega
  have := key (rps * (L : Int)) (mark * (L : Int))
  have e : (rps - mark) * (L : Int) = rps * (L : Int) - mark * (L : Int) := Int.sub_mul _ _ _
  rw [e]
  unfold precision C06.unit
  simp only [Nat.cast_ofNat]
  exact this

theorem ledgerFair_default : C06.LedgerFair ({} : Ledger) := by
  unfold C06.LedgerFair; simp

theorem fair_bookOne {e : Ledger} {r : Rule} {L : Nat} {rw : CoinList} (he : C06.LedgerFair e)
    (hpay : (amountOf rw r.denom : Int) = (r.rps.raw * (L : Int)) / precision - (e.mark * (L : Int)) / precision) :
    C06.LedgerFair (bookOne e r L rw) := by
  unfold C06.LedgerFair at he ⊢
  unfold bookOne
  simp only
  have pb := payout_bound r.rps.raw e.mark L
  rw [← hpay] at pb
  have : (((e.paid + amountOf rw r.denom : Nat) : Int) * (C06.unit : Int) - (e.owed + (r.rps.raw - e.mark) * (L : Int)))
      = ((e.paid : Int) * (C06.unit : Int) - e.owed) + ((amountOf rw r.denom : Int) * (C06.unit : Int) - (r.rps.raw - e.mark) * (L : Int)) := by
    push_cast; rw [Int.add_mul]; omega
  rw [this]
  have tri := Int.natAbs_add_le ((e.paid : Int) * (C06.unit : Int) - e.owed) ((amountOf rw r.denom : Int) * (C06.unit : Int) - (r.rps.raw - e.mark) * (L : Int))
  have : (e.n + 1) * (C06.unit - 1) = e.n * (C06.unit - 1) + (C06.unit - 1) := by rw [Nat.add_mul]; omega
  omega

end Irismod.Proofs.Farm
