/-
The escrow infos in the farm genesis (C12, farm slice): `GetAllEscrowInfo` lists the escrow store
in ascending proposal-id order; importing that list with `SetEscrowInfo` into an emptied store
gives a table that answers every lookup like the original, and the list is a function of the
lookups alone (so the export of the re-imported state is the same document).
-/
import Irismod.Proofs.FarmGenesisWF

namespace Irismod.Proofs.FarmGenesis
open Irismod Irismod.Sdk Irismod.Farm Irismod.FarmGenesis Irismod.Proofs.GenesisList Irismod.Proofs.Farm

/-! ### ascending duplicate-free lists of proposal ids -/

def SortedNat (l : List Nat) : Prop := l.Pairwise (· < ·)

theorem mem_insNat (x y : Nat) (l : List Nat) : y ∈ insNat x l ↔ y = x ∨ y ∈ l := by
  induction l with
  | nil => simp [insNat]
  | cons z t ih =>
    unfold insNat
    by_cases h1 : x < z
    · simp [h1]
    · by_cases h2 : x = z
      · subst h2; simp [h1]
      · simp only [h1, h2, if_false, List.mem_cons, ih]
        constructor
        · rintro (h | h | h) <;> simp [h]
        · rintro (h | h | h) <;> simp [h]

theorem sorted_insNat (x : Nat) (l : List Nat) (h : SortedNat l) : SortedNat (insNat x l) := by
  induction l with
  | nil => simp [insNat, SortedNat]
  | cons z t ih =>
    unfold SortedNat at h
    rw [List.pairwise_cons] at h
    unfold insNat
    by_cases h1 : x < z
    · simp only [h1, if_true, SortedNat]
      rw [List.pairwise_cons, List.pairwise_cons]
      refine ⟨?_, h⟩
      intro a ha
      rcases List.mem_cons.mp ha with rfl | ha
      · exact h1
      · exact Nat.lt_trans h1 (h.1 a ha)
    · by_cases h2 : x = z
      · subst h2
        simp only [h1, if_false, if_true, SortedNat]
        rw [List.pairwise_cons]; exact h
      · simp only [h1, h2, if_false, SortedNat]
        rw [List.pairwise_cons]
        refine ⟨?_, ih h.2⟩
        intro a ha
        rcases (mem_insNat x a t).mp ha with rfl | ha
        · omega
        · exact h.1 a ha

theorem mem_sortNat (y : Nat) (l : List Nat) : y ∈ sortNat l ↔ y ∈ l := by
  induction l with
  | nil => simp [sortNat]
  | cons x t ih =>
    have : sortNat (x :: t) = insNat x (sortNat t) := rfl
    rw [this, mem_insNat, ih]; simp

theorem sorted_sortNat (l : List Nat) : SortedNat (sortNat l) := by
  induction l with
  | nil => simp [sortNat, SortedNat]
  | cons x t ih =>
    have : sortNat (x :: t) = insNat x (sortNat t) := rfl
    rw [this]; exact sorted_insNat x _ ih

theorem nodup_sortNat (l : List Nat) : (sortNat l).Nodup := by
  have := sorted_sortNat l
  unfold SortedNat at this
  exact this.imp (fun h => Nat.ne_of_lt h)

/-- two ascending lists with the same members are equal -/
theorem sortedNat_ext : ∀ (l1 l2 : List Nat), SortedNat l1 → SortedNat l2 → (∀ x, x ∈ l1 ↔ x ∈ l2) → l1 = l2
  | [], [], _, _, _ => rfl
  | [], y :: t, _, _, h => by have := (h y).mpr (by simp); cases this
  | x :: t, [], _, _, h => by have := (h x).mp (by simp); cases this
  | x :: t1, y :: t2, h1, h2, h => by
    unfold SortedNat at h1 h2
    rw [List.pairwise_cons] at h1 h2
    have hxy : x = y := by
      have hx : x ∈ y :: t2 := (h x).mp (by simp)
      have hy : y ∈ x :: t1 := (h y).mpr (by simp)
      rcases List.mem_cons.mp hx with e | hx'
      · exact e
      · rcases List.mem_cons.mp hy with e | hy'
        · exact e.symm
        · have := h2.1 x hx'
          have := h1.1 y hy'
          omega
    subst hxy
    congr 1
    apply sortedNat_ext t1 t2 h1.2 h2.2
    intro z
    constructor
    · intro hz
      have : z ∈ x :: t2 := (h z).mp (by simp [hz])
      rcases List.mem_cons.mp this with e | hz'
      · subst e; have := h1.1 z hz; omega
      · exact hz'
    · intro hz
      have : z ∈ x :: t1 := (h z).mpr (by simp [hz])
      rcases List.mem_cons.mp this with e | hz'
      · subst e; have := h2.1 z hz; omega
      · exact hz'

theorem sortNat_congr {l1 l2 : List Nat} (h : ∀ x, x ∈ l1 ↔ x ∈ l2) : sortNat l1 = sortNat l2 :=
  sortedNat_ext _ _ (sorted_sortNat l1) (sorted_sortNat l2)
    (fun x => by rw [mem_sortNat, mem_sortNat]; exact h x)

/-! ### the exported escrow infos -/

theorem mem_exportEscrow {s : State} {e : Nat × Escrow} : e ∈ exportEscrow s ↔ AMap.get? s.cp.escrow e.1 = some e.2 := by
  unfold exportEscrow
  simp only [List.mem_filterMap, mem_sortNat]
  constructor
  · rintro ⟨pid, _, hx⟩
    cases hg : AMap.get? s.cp.escrow pid with
    | none => rw [hg] at hx; cases hx
    | some v =>
      rw [hg] at hx
      simp only [Option.map, Option.some.injEq] at hx
      rw [← hx]; exact hg
  · intro hg
    refine ⟨e.1, (mem_keys_iff _ _).mpr ⟨e.2, hg⟩, ?_⟩
    rw [hg]; rfl

theorem exportEscrow_keys (s : State) : (exportEscrow s).map (·.1) = sortNat (AMap.keys s.cp.escrow) := by
  unfold exportEscrow
  have : ∀ (l : List Nat), (∀ k ∈ l, k ∈ AMap.keys s.cp.escrow) →
      (l.filterMap fun pid => (AMap.get? s.cp.escrow pid).map fun e => (pid, e)).map (·.1) = l := by
    intro l
    induction l with
    | nil => intro _; rfl
    | cons k t ih =>
      intro hk
      obtain ⟨v, hv⟩ := (mem_keys_iff _ _).mp (hk k (by simp))
      simp only [List.filterMap_cons, hv, Option.map_some, List.map_cons]
      rw [ih (fun k' hk' => hk k' (by simp [hk']))]
  exact this _ (fun k hk => (mem_sortNat k _).mp hk)

theorem exportEscrow_nodup (s : State) : ((exportEscrow s).map (·.1)).Nodup := by
  rw [exportEscrow_keys]; exact nodup_sortNat _

/-- the escrow table rebuilt from the exported list answers like the original -/
theorem get?_fromList_exportEscrow (s : State) (pid : Nat) :
    AMap.get? (fromList (exportEscrow s) ([] : AMap Nat Escrow)) pid = AMap.get? s.cp.escrow pid := by
  cases hg : AMap.get? s.cp.escrow pid with
  | some e =>
    have hm : (pid, e) ∈ exportEscrow s := mem_exportEscrow.mpr hg
    exact get?_fromList_mem _ _ (exportEscrow_nodup s) (pid, e) hm
  | none =>
    rw [get?_fromList_notin]
    · rfl
    · intro e he hc
      have := mem_exportEscrow.mp he
      rw [hc, hg] at this; cases this

/-- the exported list is a function of the lookups alone -/
theorem exportEscrow_congr {s s' : State} (h : ∀ pid, AMap.get? s'.cp.escrow pid = AMap.get? s.cp.escrow pid) :
    exportEscrow s' = exportEscrow s := by
  have hk : ∀ x, x ∈ AMap.keys s'.cp.escrow ↔ x ∈ AMap.keys s.cp.escrow := by
    intro x; rw [mem_keys_iff, mem_keys_iff, h]
  unfold exportEscrow
  rw [sortNat_congr hk]
  congr 1
  funext pid; rw [h]

end Irismod.Proofs.FarmGenesis
