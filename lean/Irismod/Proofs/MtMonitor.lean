/-
Soundness of the C15 monitor with respect to the model: on every model step from a state
satisfying the invariant (and with a fresh generated id), `Spec.C15.stepOk` evaluates to
`true`. So a monitor failure on an implementation trace is never an artefact of the monitor
disagreeing with the model the theorems are about.
-/
import Irismod.Props.C15

namespace Irismod.Proofs.MtMonitor
open Irismod Irismod.Mt Irismod.Spec.C15 Irismod.Proofs.Mt Irismod.Props.C15

theorem balsSame_of (pre post : State) (ex : List (Addr × DenomId × MtId))
    (h : ∀ k : Addr × DenomId × MtId, k ∉ ex → balOf post k.1 k.2.1 k.2.2 = balOf pre k.1 k.2.1 k.2.2) :
    balsSameExcept pre post ex = true := by
  unfold balsSameExcept
  rw [List.all_eq_true]
  intro k _
  by_cases hk : k ∈ ex
  · simp [hk]
  · simp [h k hk]

theorem supSame_of (pre post : State) (ex : List (DenomId × MtId))
    (h : ∀ k : DenomId × MtId, k ∉ ex → supplyOf post k.1 k.2 = supplyOf pre k.1 k.2) :
    supSameExcept pre post ex = true := by
  unfold supSameExcept
  rw [List.all_eq_true]
  intro k _
  by_cases hk : k ∈ ex
  · simp [hk]
  · simp [h k hk]

theorem mtsSame_of (pre post : State) (ex : List (DenomId × MtId))
    (h : ∀ k : DenomId × MtId, k ∉ ex → AMap.get? post.mts k = AMap.get? pre.mts k) :
    mtsSameExcept pre post ex = true := by
  unfold mtsSameExcept
  rw [List.all_eq_true]
  intro k _
  by_cases hk : k ∈ ex
  · simp [hk]
  · simp [h k hk]

theorem denomsSame_of (pre post : State) (ex : List DenomId)
    (h : ∀ k : DenomId, k ∉ ex → AMap.get? post.denoms k = AMap.get? pre.denoms k) :
    denomsSameExcept pre post ex = true := by
  unfold denomsSameExcept
  rw [List.all_eq_true]
  intro k _
  by_cases hk : k ∈ ex
  · simp [hk]
  · simp [h k hk]

theorem sameState_refl (s : State) : sameState s s = true := by
  unfold sameState
  rw [balsSame_of s s [] (fun _ _ => rfl), supSame_of s s [] (fun _ _ => rfl),
      mtsSame_of s s [] (fun _ _ => rfl), denomsSame_of s s [] (fun _ _ => rfl)]
  rfl

theorem accepted_transfer (s s' : State) (sender rcpt d m n)
    (h : step s (.transfer sender rcpt d m n) = .ok s') :
    acceptedOk s (.transfer sender rcpt d m n) s' = true := by
  obtain ⟨hle, hne, heq, hoth, hsup, hden, hmts⟩ := transfer_exact s s' sender rcpt d m n h
  have h1 : balsSameExcept s s' [(sender, d, m), (rcpt, d, m)] = true := by
    apply balsSame_of
    intro k hk
    simp only [List.mem_cons, List.not_mem_nil, or_false, not_or] at hk
    exact hoth k.1 k.2.1 k.2.2 hk.1 hk.2
  have h2 : supSameExcept s s' [] = true := supSame_of _ _ _ (fun k _ => by unfold supplyOf; rw [hsup])
  have h3 : mtsSameExcept s s' [] = true := mtsSame_of _ _ _ (fun k _ => by rw [hmts])
  have h4 : denomsSameExcept s s' [] = true := denomsSame_of _ _ _ (fun k _ => by rw [hden])
  unfold acceptedOk
  simp only [h1, h2, h3, h4, Bool.and_true, Bool.and_eq_true, decide_eq_true_eq]
  refine ⟨hle, ?_⟩
  by_cases hsr : sender = rcpt
  · subst hsr
    simp [heq rfl]
  · simp only [hsr, if_false, Bool.and_eq_true, decide_eq_true_eq]
    exact hne hsr

theorem accepted_burn (s s' : State) (sender d m n) (hs : Inv s)
    (h : step s (.burn sender d m n) = .ok s') :
    acceptedOk s (.burn sender d m n) s' = true := by
  obtain ⟨hb, hsup, hoth, hsoth, hden, hmts⟩ := burn_exact s s' sender d m n hs h
  have h1 : balsSameExcept s s' [(sender, d, m)] = true := by
    apply balsSame_of
    intro k hk
    simp only [List.mem_cons, List.not_mem_nil, or_false] at hk
    exact hoth k.1 k.2.1 k.2.2 hk
  have h2 : supSameExcept s s' [(d, m)] = true := by
    apply supSame_of
    intro k hk
    simp only [List.mem_cons, List.not_mem_nil, or_false] at hk
    exact hsoth k.1 k.2 hk
  have h3 : mtsSameExcept s s' [] = true := mtsSame_of _ _ _ (fun k _ => by rw [hmts])
  have h4 : denomsSameExcept s s' [] = true := denomsSame_of _ _ _ (fun k _ => by rw [hden])
  unfold acceptedOk
  simp only [h1, h2, h3, h4, Bool.and_true, Bool.and_eq_true, decide_eq_true_eq]
  exact ⟨hb, hsup⟩

theorem accepted_edit (s s' : State) (sender d id data)
    (h : step s (.edit sender d id data) = .ok s') :
    acceptedOk s (.edit sender d id data) s' = true := by
  have hown := edit_only_owner s s' sender d id data h
  simp only [step, stepEdit] at h
  split at h; · cases h
  split at h; · cases h
  split at h; · cases h
  split at h; · cases h
  rename_i hc
  have hcont : AMap.contains s.mts (d, id) = true := by simpa using hc
  have key : s'.bal = s.bal ∧ s'.supply = s.supply ∧ s'.denoms = s.denoms ∧
      (∀ k, k ≠ (d, id) → AMap.get? s'.mts k = AMap.get? s.mts k) := by
    split at h
    · cases h
      exact ⟨rfl, rfl, rfl, fun k hk => AMap.get?_set_other _ _ _ _ (Ne.symm hk)⟩
    · cases h
      exact ⟨rfl, rfl, rfl, fun _ _ => rfl⟩
  obtain ⟨hb, hsup, hden, hm⟩ := key
  have h1 : balsSameExcept s s' [] = true := balsSame_of _ _ _ (fun k _ => by unfold balOf; rw [hb])
  have h2 : supSameExcept s s' [] = true := supSame_of _ _ _ (fun k _ => by unfold supplyOf; rw [hsup])
  have h3 : mtsSameExcept s s' [(d, id)] = true := by
    apply mtsSame_of
    intro k hk
    simp only [List.mem_cons, List.not_mem_nil, or_false] at hk
    exact hm k hk
  have h4 : denomsSameExcept s s' [] = true := denomsSame_of _ _ _ (fun k _ => by rw [hden])
  unfold acceptedOk
  simp [h1, h2, h3, h4, hown, hcont]

theorem accepted_transferDenom (s s' : State) (sender rcpt id)
    (h : step s (.transferDenom sender rcpt id) = .ok s') :
    acceptedOk s (.transferDenom sender rcpt id) s' = true := by
  obtain ⟨hown, hown'⟩ := transferDenom_only_owner s s' sender rcpt id h
  simp only [step, stepTransferDenom] at h
  split at h; · cases h
  split at h; · cases h
  split at h
  · cases h
  · rename_i r hr
    cases h
    have h1 : balsSameExcept s { s with denoms := AMap.set s.denoms id { r with owner := rcpt } } [] = true :=
      balsSame_of _ _ _ (fun k _ => rfl)
    have h2 : supSameExcept s { s with denoms := AMap.set s.denoms id { r with owner := rcpt } } [] = true :=
      supSame_of _ _ _ (fun k _ => rfl)
    have h3 : mtsSameExcept s { s with denoms := AMap.set s.denoms id { r with owner := rcpt } } [] = true :=
      mtsSame_of _ _ _ (fun k _ => rfl)
    have h4 : denomsSameExcept s { s with denoms := AMap.set s.denoms id { r with owner := rcpt } } [id] = true := by
      apply denomsSame_of
      intro k hk
      simp only [List.mem_cons, List.not_mem_nil, or_false] at hk
      exact AMap.get?_set_other _ _ _ _ (Ne.symm hk)
    unfold acceptedOk
    simp only [h1, h2, h3, h4, hown, hown', Bool.and_true, beq_self_eq_true, Bool.true_and]
    simp [AMap.get?_set_self, hr]

/-! ### list facts about `AMap.set` on a fresh key -/

theorem get?_ne_none_of_mem_keys {K V : Type} [DecidableEq K] (m : AMap K V) (k : K)
    (h : k ∈ m.map (·.1)) : AMap.get? m k ≠ none := by
  induction m with
  | nil => simp at h
  | cons hd t ih =>
    obtain ⟨k', v'⟩ := hd
    by_cases hk : k' = k
    · simp [AMap.get?, hk]
    · simp only [List.map_cons, List.mem_cons] at h
      rcases h with h | h
      · exact absurd h.symm hk
      · simp only [AMap.get?, hk, if_false]; exact ih h

theorem contains_of_mem_keys {K V : Type} [DecidableEq K] (m : AMap K V) (k : K)
    (h : k ∈ m.map (·.1)) : AMap.contains m k = true := by
  unfold AMap.contains
  cases hg : AMap.get? m k with
  | none => exact absurd hg (get?_ne_none_of_mem_keys m k h)
  | some _ => rfl

theorem set_fresh {K V : Type} [DecidableEq K] (m : AMap K V) (k : K) (v : V)
    (h : AMap.get? m k = none) : AMap.set m k v = m ++ [(k, v)] := by
  induction m with
  | nil => rfl
  | cons hd t ih =>
    obtain ⟨k', v'⟩ := hd
    by_cases hk : k' = k
    · simp [AMap.get?, hk] at h
    · simp only [AMap.get?, hk, if_false] at h
      simp [AMap.set, hk, ih h]

/-- the keys of `set m k v` that are not bound in `m` are exactly `[k]` when `k` was fresh -/
theorem new_keys_of_fresh {K V : Type} [DecidableEq K] (m : AMap K V) (k : K) (v : V)
    (h : AMap.get? m k = none) :
    ((AMap.set m k v).map (·.1)).filter (fun x => !(AMap.contains m x)) = [k] := by
  rw [set_fresh m k v h, List.map_append, List.filter_append]
  have h1 : (m.map (·.1)).filter (fun x => !(AMap.contains m x)) = [] := by
    rw [List.filter_eq_nil_iff]
    intro x hx
    simp [contains_of_mem_keys m x hx]
  have h2 : AMap.contains m k = false := by simp [AMap.contains, h]
  simp [h1, h2]

theorem accepted_issueDenom (s s' : State) (sender name data)
    (hfresh : AMap.get? s.denoms (genId "mt-denom-" s.denomSeq) = none)
    (h : step s (.issueDenom sender name data) = .ok s') :
    acceptedOk s (.issueDenom sender name data) s' = true := by
  simp only [step, stepIssueDenom] at h
  split at h
  · cases h
  · cases h
    generalize genId "mt-denom-" s.denomSeq = id at hfresh ⊢
    have h1 : balsSameExcept s { s with denomSeq := s.denomSeq + 1, denoms := AMap.set s.denoms id ⟨name, sender, data⟩ } [] = true :=
      balsSame_of _ _ _ (fun k _ => rfl)
    have h2 : supSameExcept s { s with denomSeq := s.denomSeq + 1, denoms := AMap.set s.denoms id ⟨name, sender, data⟩ } [] = true :=
      supSame_of _ _ _ (fun k _ => rfl)
    have h3 : mtsSameExcept s { s with denomSeq := s.denomSeq + 1, denoms := AMap.set s.denoms id ⟨name, sender, data⟩ } [] = true :=
      mtsSame_of _ _ _ (fun k _ => rfl)
    have h4 : denomsSameExcept s { s with denomSeq := s.denomSeq + 1, denoms := AMap.set s.denoms id ⟨name, sender, data⟩ } [id] = true := by
      apply denomsSame_of
      intro k hk
      simp only [List.mem_cons, List.not_mem_nil, or_false] at hk
      exact AMap.get?_set_other _ _ _ _ (Ne.symm hk)
    unfold acceptedOk
    simp only [new_keys_of_fresh s.denoms id _ hfresh, h1, h2, h3, h4, Bool.and_true]
    simp [ownerOf, AMap.get?_set_self]

/-- effect of `increaseSupply` then `addBalance` on one token, as the monitor reads it -/
theorem incr_add_facts {s s1 s2 : State} {d m a n}
    (h1 : increaseSupply s d m n = .ok s1) (h2 : addBalance s1 a d m n = .ok s2) :
    (supplyOf s2 d m).toNat = (supplyOf s d m).toNat + n.toNat ∧
    (balOf s2 a d m).toNat = (balOf s a d m).toNat + n.toNat ∧
    (∀ k : Addr × DenomId × MtId, k ≠ (a, d, m) → balOf s2 k.1 k.2.1 k.2.2 = balOf s k.1 k.2.1 k.2.2) ∧
    (∀ k : DenomId × MtId, k ≠ (d, m) → supplyOf s2 k.1 k.2 = supplyOf s k.1 k.2) ∧
    s2.mts = s.mts ∧ s2.denoms = s.denoms := by
  obtain ⟨hg1, rfl⟩ := increaseSupply_ok h1
  obtain ⟨hg2, rfl⟩ := addBalance_ok h2
  refine ⟨?_, ?_, ?_, ?_, rfl, rfl⟩
  · show (supplyOf { s with supply := AMap.set s.supply (d, m) (supplyOf s d m + n) } d m).toNat = _
    rw [supplyOf_set_self, add_noWrap _ _ hg1]
  · rw [balOf_set_self]
    exact add_noWrap _ _ hg2
  · intro k hk
    exact balOf_set_other _ _ _ _ _ _ _ _ (Ne.symm hk)
  · intro k hk
    show supplyOf { s with supply := AMap.set s.supply (d, m) (supplyOf s d m + n) } k.1 k.2 = _
    exact supplyOf_set_other _ _ _ _ _ _ (Ne.symm hk)

theorem accepted_mint_existing (s s' : State) (sender d id recipient n data) (hid : id ≠ "")
    (h : step s (.mint sender d id recipient n data) = .ok s') :
    acceptedOk s (.mint sender d id recipient n data) s' = true := by
  have hown := mint_only_owner s s' sender d id recipient n data h
  simp only [step, stepMint] at h
  unfold acceptedOk
  simp only []
  generalize (if recipient = "" then sender else recipient) = rc at h ⊢
  split at h; · cases h
  split at h; · cases h
  split at h; · cases h
  split at h; · cases h
  unfold mintExisting at h
  split at h; · cases h
  rename_i hc
  have hcont : AMap.contains s.mts (d, id) = true := by simpa using hc
  split at h; · cases h
  rename_i s1 hinc
  obtain ⟨f1, f2, f3, f4, f5, f6⟩ := incr_add_facts hinc h
  have h1 : balsSameExcept s s' [(rc, d, id)] = true := by
    apply balsSame_of
    intro k hk
    simp only [List.mem_cons, List.not_mem_nil, or_false] at hk
    exact f3 k hk
  have h2 : supSameExcept s s' [(d, id)] = true := by
    apply supSame_of
    intro k hk
    simp only [List.mem_cons, List.not_mem_nil, or_false] at hk
    exact f4 k hk
  have h3 : mtsSameExcept s s' [] = true := mtsSame_of _ _ _ (fun k _ => by rw [f5])
  have h4 : denomsSameExcept s s' [] = true := denomsSame_of _ _ _ (fun k _ => by rw [f6])
  simp only [hown, hid, ne_eq, not_false_eq_true, if_true, hcont, h1, h2, h3, h4, Bool.and_true,
    beq_self_eq_true, Bool.true_and, Bool.and_eq_true, decide_eq_true_eq]
  exact ⟨f1, f2⟩

/-- freshness of the generated token id: it is not yet used by any table (holds unless SHA-256
    collides on two counter strings or the 64-bit counter wraps) -/
structure FreshMt (s : State) (d : DenomId) (nid : MtId) : Prop where
  mts : AMap.get? s.mts (d, nid) = none
  sup : AMap.get? s.supply (d, nid) = none
  bal : ∀ a, AMap.get? s.bal (a, d, nid) = none

theorem accepted_mint_new (s s' : State) (sender d recipient n data)
    (hf : FreshMt s d (genId "mt-" s.mtSeq))
    (h : step s (.mint sender d "" recipient n data) = .ok s') :
    acceptedOk s (.mint sender d "" recipient n data) s' = true := by
  have hown := mint_only_owner s s' sender d "" recipient n data h
  simp only [step, stepMint] at h
  unfold acceptedOk
  simp only []
  generalize (if recipient = "" then sender else recipient) = rc at h ⊢
  generalize genId "mt-" s.mtSeq = nid at hf h
  split at h; · cases h
  split at h; · cases h
  split at h; · cases h
  split at h; · cases h
  simp only [ne_eq, not_true_eq_false, if_false] at h
  unfold mintNew at h
  split at h; · cases h
  rename_i s1 hinc
  obtain ⟨f1, f2, f3, f4, f5, f6⟩ := incr_add_facts hinc h
  -- the state before the two ledger updates only differs from `s` in mts / mtSeq / denomSupply
  have hsup0 : (supplyOf (withNewToken s d nid data) d nid).toNat = 0 := by
    simp [withNewToken, supplyOf, AMap.getD, hf.sup]
  have hbal0 : (balOf (withNewToken s d nid data) rc d nid).toNat = 0 := by
    simp [withNewToken, balOf, AMap.getD, hf.bal rc]
  have hnew : (s'.mts.map (·.1)).filter (fun k => !(AMap.contains s.mts k)) = [(d, nid)] := by
    rw [f5]
    exact new_keys_of_fresh s.mts (d, nid) data hf.mts
  have hnotbal : ((s.bal.map (fun e => (e.1.2.1, e.1.2.2))).contains (d, nid)) = false := by
    rw [Bool.eq_false_iff]
    intro hc
    rw [List.contains_iff_mem, List.mem_map] at hc
    obtain ⟨e, he, hek⟩ := hc
    have : e.1 ∈ s.bal.map (·.1) := List.mem_map.mpr ⟨e, he, rfl⟩
    have hne := get?_ne_none_of_mem_keys s.bal e.1 this
    have hkey : e.1 = (e.1.1, d, nid) := by
      cases hx : e.1 with
      | mk a rest =>
        cases rest with
        | mk d' m' =>
          rw [hx] at hek
          simp only [Prod.mk.injEq] at hek
          rw [hek.1, hek.2]
    rw [hkey] at hne
    exact hne (hf.bal e.1.1)
  have h1 : balsSameExcept s s' [(rc, d, nid)] = true := by
    apply balsSame_of
    intro k hk
    simp only [List.mem_cons, List.not_mem_nil, or_false] at hk
    exact f3 k hk
  have h2 : supSameExcept s s' [(d, nid)] = true := by
    apply supSame_of
    intro k hk
    simp only [List.mem_cons, List.not_mem_nil, or_false] at hk
    exact f4 k hk
  have h3 : mtsSameExcept s s' [(d, nid)] = true := by
    apply mtsSame_of
    intro k hk
    simp only [List.mem_cons, List.not_mem_nil, or_false] at hk
    rw [f5]
    exact AMap.get?_set_other _ _ _ _ (Ne.symm hk)
  have h4 : denomsSameExcept s s' [] = true := denomsSame_of _ _ _ (fun k _ => by rw [f6]; rfl)
  have hsc : AMap.contains s.supply (d, nid) = false := by simp [AMap.contains, hf.sup]
  simp only [hown, ne_eq, not_true_eq_false, if_false, hnew, h1, h2, h3, h4, hsc, hnotbal, Bool.and_true,
    beq_self_eq_true, Bool.true_and, Bool.not_false, Bool.and_eq_true, decide_eq_true_eq]
  constructor
  · rw [f1, hsup0]; omega
  · rw [f2, hbal0]; omega

/-- **Monitor soundness (C15)**: on every model step from a state satisfying the invariant,
with fresh generated ids, the monitor's step relation evaluates to `true`. -/
theorem monitor_sound (s : State) (op : Op) (hs : Inv s)
    (hfd : AMap.get? s.denoms (genId "mt-denom-" s.denomSeq) = none)
    (hfm : ∀ d, FreshMt s d (genId "mt-" s.mtSeq)) :
    stepOk s op (match step s op with | .ok _ => true | .error _ => false) (apply s op) = true := by
  unfold stepOk apply
  cases h : step s op with
  | error e => simp [sameState_refl]
  | ok s' =>
    simp only [if_true]
    cases op with
    | issueDenom sender name data => exact accepted_issueDenom s s' sender name data hfd h
    | mint sender d id recipient n data =>
      by_cases hid : id = ""
      · subst hid; exact accepted_mint_new s s' sender d recipient n data (hfm d) h
      · exact accepted_mint_existing s s' sender d id recipient n data hid h
    | edit sender d id data => exact accepted_edit s s' sender d id data h
    | transfer sender rcpt d m n => exact accepted_transfer s s' sender rcpt d m n h
    | burn sender d m n => exact accepted_burn s s' sender d m n hs h
    | transferDenom sender rcpt id => exact accepted_transferDenom s s' sender rcpt id h

end Irismod.Proofs.MtMonitor
