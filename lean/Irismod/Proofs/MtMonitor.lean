/-
Soundness of the C15 monitor with respect to the model: on every model step from a state
satisfying the invariant (and with a fresh generated id), `Spec.C15.stepOk` evaluates to
`true`. So a monitor failure on an implementation trace is never an artefact of the monitor
disagreeing with the model the theorems are about.
-/
import Irismod.Props.C15

namespace Irismod.Proofs.MtMonitor
open Irismod Irismod.Mt Irismod.Spec.C15 Irismod.Proofs.Mt Irismod.Props.C15

theorem balsSame_of (pre post : State) (ex : List (Addr × DenomId × MtId))
    (h : ∀ k : Addr × DenomId × MtId, k ∉ ex → balOf post k.1 k.2.1 k.2.2 = balOf pre k.1 k.2.1 k.2.2) :
    balsSameExcept pre post ex = true := by
  unfold balsSameExcept
  rw [List.all_eq_true]
  intro k _
  by_cases hk : k ∈ ex
  · simp [hk]
  · simp [h k hk]

theorem supSame_of (pre post : State) (ex : List (DenomId × MtId))
    (h : ∀ k : DenomId × MtId, k ∉ ex → supplyOf post k.1 k.2 = supplyOf pre k.1 k.2) :
    supSameExcept pre post ex = true := by
  unfold supSameExcept
  rw [List.all_eq_true]
  intro k _
  by_cases hk : k ∈ ex
  · simp [hk]
  · simp [h k hk]

theorem mtsSame_of (pre post : State) (ex : List (DenomId × MtId))
    (h : ∀ k : DenomId × MtId, k ∉ ex → AMap.get? post.mts k = AMap.get? pre.mts k) :
    mtsSameExcept pre post ex = true := by
  unfold mtsSameExcept
  rw [List.all_eq_true]
  intro k _
  by_cases hk : k ∈ ex
  · simp [hk]
  · simp [h k hk]

theorem denomsSame_of (pre post : State) (ex : List DenomId)
    (h : ∀ k : DenomId, k ∉ ex → AMap.get? post.denoms k = AMap.get? pre.denoms k) :
    denomsSameExcept pre post ex = true := by
  unfold denomsSameExcept
  rw [List.all_eq_true]
  intro k _
  by_cases hk : k ∈ ex
  · simp [hk]
  · simp [h k hk]

theorem sameState_refl (s : State) : sameState s s = true := by
  unfold sameState
  rw [balsSame_of s s [] (fun _ _ => rfl), supSame_of s s [] (fun _ _ => rfl),
      mtsSame_of s s [] (fun _ _ => rfl), denomsSame_of s s [] (fun _ _ => rfl)]
  rfl

theorem accepted_transfer (s s' : State) (sender rcpt d m n)
    (h : step s (.transfer sender rcpt d m n) = .ok s') :
    acceptedOk s (.transfer sender rcpt d m n) s' = true := by
  obtain ⟨hle, hne, heq, hoth, hsup, hden, hmts⟩ := transfer_exact s s' sender rcpt d m n h
  unfold acceptedOk
  simp only [Bool.and_eq_true, decide_eq_true_eq]
  refine ⟨⟨⟨⟨⟨⟨hle, ?_⟩, ?_⟩, ?_⟩, ?_⟩, ?_⟩, ?_⟩
  · by_cases hsr : sender = rcpt
    · simp [hsr]
      exact heq hsr ▸ (by rw [← hsr])
    · simp only [hsr, if_false, Bool.and_eq_true, decide_eq_true_eq]
      exact hne hsr
  · apply balsSame_of
    intro k hk
    simp only [List.mem_cons, List.mem_nil_iff, or_false, not_or] at hk
    exact hoth k.1 k.2.1 k.2.2 hk.1 hk.2
  · exact supSame_of _ _ _ (fun k _ => by unfold supplyOf; rw [hsup])
  · exact mtsSame_of _ _ _ (fun k _ => by rw [hmts])
  · exact denomsSame_of _ _ _ (fun k _ => by rw [hden])

end Irismod.Proofs.MtMonitor
