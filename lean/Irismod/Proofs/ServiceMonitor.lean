/-
Monitor soundness for the service module — headline theorems.

`drv-service monitor <C07|C08|C13|C12> <ops> <obs>` evaluates, on every (operation line, observation line) pair of
the IMPLEMENTATION's trace, the functions of `Irismod/Spec/ServiceMon.lean` (`opLine`, `exportLine`, `reimportLine`),
which dispatch to `Spec.C07.check`, `Spec.C08.check`, `Spec.C13S.check`, `Spec.C12S.check*`. The theorems below say:
on every MODEL step from a state satisfying the line invariant, under the side conditions of the line (the exclusion
hypotheses of the headline theorems of C07/C08/C12/C13), none of these clauses fails — except the two clause groups
that carry the class of a recorded finding (F-gen-6, F-gen-14 of C12), which fail exactly on their class — and the
line invariant (state invariants + the monitors' own memory) holds again afterwards. So a monitor failure on the
implementation's trace is a model/implementation disagreement or a genuine failure of the property, never an
artefact of the monitor demanding more than the theorems guarantee.

Pieces: `ServiceMonitorBase` (definitions), `ServiceMonitorInv` (state invariants kept), `ServiceMonitorC07` /
`C07Next` (C07 messages / end block), `ServiceMonitorC08Outcome` / `C08Schedule` / `C08Callbacks`,
`ServiceMonitorC13`, `ServiceMonitorC12` (genesis lines, the clause `panic`, owner index).

Scope, stated explicitly:
* `LineOK` — the side conditions of an operation line: `OpOK` (= C07's `CleanOp`: user accounts, NO PROMOTION — with a
  promotion the recorded finding F-svc-1 applies and the C07 monitor classifies it —, fresh context id, no keeper-only
  owner-wide withdrawal; `opGenesisOk`, `opValidated`; no multi-block `skip` line, which every monitor flags by
  design), `OpFc` (the fee-collector module account is not the consumer of a call), `keeperIdLower` (keeper-level
  entry points are addressed with stored, i.e. lower-case, context ids: the model keeps ids as strings).
* C07 / C08 / C13 cover operation lines of a history that starts at a `service reset` line (`line_inv_reset`);
  genesis lines (`export` / `reimport` / `prep_reimport`) are judged by the C12 monitor only, and its line invariant is
  re-established after them (`genesis_*`).
* `bodySame` (clause `rejected-state-unchanged`) is the driver's token-level comparison of two observation lines with
  result word and callback field stripped; the theorem covers it for every rendering `body` of a state that does not
  read the callback log.
-/
import Irismod.Spec.ServiceMon
import Irismod.Proofs.ServiceMonitorInv
import Irismod.Proofs.ServiceMonitorC07
import Irismod.Proofs.ServiceMonitorC07Next
import Irismod.Proofs.ServiceMonitorC08Outcome
import Irismod.Proofs.ServiceMonitorC08Schedule
import Irismod.Proofs.ServiceMonitorC08Callbacks
import Irismod.Proofs.ServiceMonitorC13
import Irismod.Proofs.ServiceMonitorC12

namespace Irismod.Proofs.ServiceMonitor
open Irismod Irismod.Sdk Irismod.Service Irismod.ServiceGenesis Irismod.Proofs.Service Irismod.Proofs.ServiceGenesis
open Irismod.Spec.ServiceMon

/-- the result word of the model's observation line -/
def modelWord (s : State) (op : Op) : String :=
  match step s op with
  | .ok _ => "ok"
  | .error (.reject _) => "rej"
  | .error (.panic _) => "panic"

/-- the side conditions of one operation line -/
structure LineOK (s : State) (op : Op) : Prop where
  ok    : OpOK s op
  fc    : OpFc op
  lower : keeperIdLower op

/-- **the line invariant**: what the monitor of property `prop` assumes of the previous observation line — the state
invariants and, for the property being monitored, the relation between its memory and the model state -/
structure LineInv (prop : String) (ms : Mons) (s : State) : Prop where
  sinv     : SInv s
  ctxsND   : CtxsNodup s
  markND   : MarkersNodup s
  reqsND   : ReqsND s
  ownerIdx : OwnerIdx s
  noFc     : NoFcConsumer s
  m07      : prop = "C07" → ms.m07.stranded = []
  m08      : prop = "C08" → M08a ms.m08 s ∧ M08b ms.m08 s

theorem opLower_of_keeperIdLower {op : Op} (h : keeperIdLower op) : OpLower op := by
  cases op <;> first | exact h | trivial

theorem modelWord_ok (s : State) (op : Op) : (modelWord s op == "ok") = accepted s op := by
  unfold modelWord accepted
  cases h : step s op with
  | ok s' => rfl
  | error e => cases e <;> rfl

theorem modelWord_not_panic {s : State} (hs : SInv s) (op : Op) : (modelWord s op == "panic") = false := by
  unfold modelWord
  cases h : step s op with
  | ok s' => rfl
  | error e =>
    cases e with
    | reject w => rfl
    | panic w => exact absurd h (step_never_panics hs op w)

/-- a rejected line: any rendering of the state that does not read the callback log is unchanged -/
theorem rejectedFails_model (s : State) (op : Op) (body : State → List String)
    (hbody : ∀ t : State, body { t with cb := [] } = body t) :
    rejectedFails (accepted s op) (body (apply s op) == body s) = [] := by
  unfold rejectedFails
  cases h : step s op with
  | ok s' => rw [(accepted_ok h).1]; rfl
  | error e =>
    rw [(accepted_err h).1, (accepted_err h).2, hbody s]
    simp

/-! ### C07 -/

/-- **C07**: every clause of `Spec.C07.check` passes on every model step, and nothing is recorded as stranded -/
theorem c07_check_sound (ds : List Denom) (m : Spec.C07.Mon) (hm : m.stranded = []) {s : State} {op : Op} (hs : SInv s)
    (hr : ReqsND s) (hf : NoFcConsumer s) (ho : OpOK s op) :
    Spec.C07.check ds m s op (accepted s op) (apply s op) = (m, []) := by
  have hs' := sinv_apply hs ho
  by_cases hn : ∃ dt, op = .next dt
  · obtain ⟨dt, rfl⟩ := hn
    have ha : accepted s (.next dt) = true := rfl
    obtain ⟨c1, c2, c3⟩ := c07_state_sound ds m hm hs'
    unfold Spec.C07.check
    rw [ha]
    simp only [Bool.not_true, Bool.false_eq_true, if_false, c07_next_sound ds m hm hs hf dt, c1, c2, c3, if_true,
      List.append_nil]
  · exact c07_check_msg_sound ds m hm hs hr hs' ho (fun dt h => hn ⟨dt, h⟩)

/-! ### C08 -/

theorem isNextOp_false {op : Op} (a : Bool) (hn : ∀ dt, op ≠ .next dt) : Spec.C08.isNextOp op a = false := by
  cases op with
  | next dt => exact absurd rfl (hn dt)
  | _ => rfl

theorem scheduleStep_msg_fails (m : Spec.C08.Mon) {s : State} {op : Op} (hnd : KeysNodup s.ctxs) (ho : OpOK s op)
    (hn : ∀ dt, op ≠ .next dt) :
    (Spec.C08.scheduleStep m s op (accepted s op) (apply s op)).2 = [] := by
  have hk : ∀ n dt, op ≠ .skip n dt := by
    intro n dt e; subst e; exact ho.notSkip
  unfold Spec.C08.scheduleStep
  rw [isNextOp_false _ hn]
  simp only [Bool.false_eq_true, if_false, c08_counters_sound hnd ho hn hk, if_true]

/-- **C08**: every clause of `Spec.C08.check` passes on every model step, and both parts of the memory invariant
(outcome memory `M08a`, schedule memory `M08b`) hold for the returned memory on the next state -/
theorem c08_check_sound (m : Spec.C08.Mon) {s : State} {op : Op} (hs : SInv s) (hnd : CtxsNodup s) (ho : OpOK s op)
    (hl : keeperIdLower op) (ha : M08a m s) (hb : M08b m s) :
    (Spec.C08.check m s op (accepted s op) (apply s op)).2 = [] ∧
    M08a (Spec.C08.check m s op (accepted s op) (apply s op)).1 (apply s op) ∧
    M08b (Spec.C08.check m s op (accepted s op) (apply s op)).1 (apply s op) := by
  have hs' := sinv_apply hs ho
  obtain ⟨o1, o2⟩ := c08_outcome_sound m hs hs' ho ha
  obtain ⟨f1, f2, f3, f4⟩ := Irismod.Proofs.ServiceMonitor.outcomeStep_frame m s op (accepted s op) (apply s op)
  -- the memory handed to the schedule group
  have hb2 : M08b { (Spec.C08.outcomeStep m s op (accepted s op) (apply s op)).1 with
      seen := Spec.C08.entered s (apply s op) ++ (Spec.C08.outcomeStep m s op (accepted s op) (apply s op)).1.seen } s :=
    hb.congr f2 f3 f4
  have hsch := c08_schedule_inv _ hs hs' ho (fun _ => opLower_of_keeperIdLower hl) hnd hb2
  have hschf : (Spec.C08.scheduleStep { (Spec.C08.outcomeStep m s op (accepted s op) (apply s op)).1 with
      seen := Spec.C08.entered s (apply s op) ++ (Spec.C08.outcomeStep m s op (accepted s op) (apply s op)).1.seen }
      s op (accepted s op) (apply s op)).2 = [] := by
    by_cases hn : ∃ dt, op = .next dt
    · obtain ⟨dt, rfl⟩ := hn
      exact c08_schedule_next_fails _ hs hs' hnd hb2
    · exact scheduleStep_msg_fails _ hnd ho (fun dt h => hn ⟨dt, h⟩)
  have hcb := c08_callbacks_sound hs hs' ho hnd
  have hau := c08_authority_sound (s := s) (op := op) hl
  refine ⟨?_, ?_, ?_⟩
  · unfold Spec.C08.check
    simp only [o1, hau, hschf, hcb, List.append_nil]
  · unfold Spec.C08.check
    simp only
    obtain ⟨g1, g2, g3⟩ := createdPaused_frame
      (Spec.C08.scheduleStep { (Spec.C08.outcomeStep m s op (accepted s op) (apply s op)).1 with
        seen := Spec.C08.entered s (apply s op) ++ (Spec.C08.outcomeStep m s op (accepted s op) (apply s op)).1.seen }
        s op (accepted s op) (apply s op)).1 s op (accepted s op) (apply s op)
    obtain ⟨k1, k2, k3⟩ := scheduleStep_frame
      { (Spec.C08.outcomeStep m s op (accepted s op) (apply s op)).1 with
        seen := Spec.C08.entered s (apply s op) ++ (Spec.C08.outcomeStep m s op (accepted s op) (apply s op)).1.seen }
      s op (accepted s op) (apply s op)
    exact o2.congr (g1.trans k1) (g2.trans k2) (g3.trans k3)
  · unfold Spec.C08.check
    simp only
    exact hsch

/-! ### one operation line, whatever the property -/

theorem map_nil_of_eq_nil {α β : Type} (f : α → β) {l : List α} (h : l = []) : l.map f = [] := by rw [h]; rfl

/-- **monitor soundness (service: C07, C08, C13; operation lines of C12)**: on every model step from a state satisfying
the line invariant, every clause `drv-service monitor <prop>` evaluates on an operation line passes — the shared
clauses `panic` and `rejected-state-unchanged` and the whole clause group of the property -/
theorem monitor_sound (prop : String) (ds : List Denom) (ms : Mons) {s : State} {op : Op} (hl : LineInv prop ms s)
    (ho : LineOK s op) (body : State → List String) (hbody : ∀ t : State, body { t with cb := [] } = body t) :
    (opLine prop ds ms s op (modelWord s op) (body (apply s op) == body s) (apply s op)).2 = [] := by
  have hs' := sinv_apply hl.sinv ho.ok
  have hk' : TablesNodup (apply s op) := ⟨ctxsNodup_apply hl.ctxsND, (markersNodup_apply hl.markND).1, (markersNodup_apply hl.markND).2⟩
  unfold opLine
  simp only [modelWord_ok, modelWord_not_panic hl.sinv, Bool.false_eq_true, if_false, List.nil_append,
    rejectedFails_model s op body hbody]
  split
  · rename_i hp
    rw [c07_check_sound ds ms.m07 (hl.m07 hp) hl.sinv hl.reqsND hl.noFc ho.ok]
    rfl
  · split
    · rename_i hp
      obtain ⟨a, b⟩ := hl.m08 hp
      exact map_nil_of_eq_nil _ (c08_check_sound ms.m08 hl.sinv hl.ctxsND ho.ok ho.lower a b).1
    · split
      · exact map_nil_of_eq_nil _ (c13_check_sound ms.m13 hl.sinv hs' hk' ho.ok)
      · rfl

/-- **the line invariant is preserved** by every operation line: the state the monitor carries to the next line (the
model's next state) and the memory it returns satisfy it again -/
theorem line_inv (prop : String) (ds : List Denom) (ms : Mons) {s : State} {op : Op} (hl : LineInv prop ms s)
    (ho : LineOK s op) (bodySame : Bool) :
    LineInv prop (opLine prop ds ms s op (modelWord s op) bodySame (apply s op)).1 (apply s op) := by
  have hs' := sinv_apply hl.sinv ho.ok
  have base : ∀ ms', (prop = "C07" → ms'.m07.stranded = []) →
      (prop = "C08" → M08a ms'.m08 (apply s op) ∧ M08b ms'.m08 (apply s op)) → LineInv prop ms' (apply s op) :=
    fun ms' h7 h8 =>
      ⟨hs', ctxsNodup_apply hl.ctxsND, markersNodup_apply hl.markND, ReqsND_apply hl.reqsND op, ownerIdx_apply op hl.ownerIdx,
       noFcConsumer_apply hl.noFc hl.sinv ho.ok ho.fc, h7, h8⟩
  unfold opLine
  simp only [modelWord_ok]
  split
  · rename_i hp
    apply base
    · intro _
      show (Spec.C07.check ds ms.m07 s op (accepted s op) (apply s op)).1.stranded = []
      rw [c07_check_sound ds ms.m07 (hl.m07 hp) hl.sinv hl.reqsND hl.noFc ho.ok]
      exact hl.m07 hp
    · intro h8; rw [hp] at h8; exact absurd h8 (by decide)
  · rename_i hp7
    split
    · rename_i hp
      apply base
      · intro h7; exact absurd h7 hp7
      · intro _
        obtain ⟨a, b⟩ := hl.m08 hp
        exact (c08_check_sound ms.m08 hl.sinv hl.ctxsND ho.ok ho.lower a b).2
    · rename_i hp8
      split
      · exact base _ (fun h7 => absurd h7 hp7) (fun h8 => absurd h8 hp8)
      · exact base _ (fun h7 => absurd h7 hp7) (fun h8 => absurd h8 hp8)

/-- the line invariant holds after a `service reset` line: a chain on which the module has not been used, every
monitor memory empty -/
theorem line_inv_reset (prop : String) {s : State} (g : Irismod.Props.C12.Service.Genesis s) (hr : s.resps = [])
    (hop : s.ownerProv = []) : LineInv prop {} s :=
  ⟨sinv_genesis g hr, ctxsNodup_genesis g, markersNodup_genesis g, ReqsND_genesis12 g, ownerIdx_genesis g hop,
   NoFcConsumer.of_genesis g, fun _ => rfl, fun _ => ⟨M08a.init s, M08b.init g.base.ctxs⟩⟩

/-! ### genesis lines (judged by the C12 monitor) -/

/-- **`service export`**: the only failure reported on a model step is the recorded finding F-gen-6, exactly when some
stored context is live; for every other property nothing is evaluated -/
theorem genesis_export_sound (prop : String) (rank : Addr → Nat) {s : State} (hs : SInv s) :
    ∀ f, f ∈ exportLine prop s (genesisValid (exportGenesis rank s)) → f.cls = "F-gen-6" ∧ Spec.C12S.hasLiveCtx s = true := by
  intro f hf
  unfold exportLine at hf
  split at hf
  · rw [List.mem_map] at hf
    obtain ⟨g, hg, rfl⟩ := hf
    exact c12_export_sound rank hs g hg
  · cases hf

/-- **`service reimport`**: every failure reported on a model step carries the class of a recorded finding whose
condition holds (F-gen-6: refused, a context is live; F-gen-14: accepted, earned fees / open-request fees dropped) -/
theorem genesis_reimport_sound (prop : String) (rank : Addr → Nat) (ds : List Denom) (ms : Mons) {s : State}
    (hs : SInv s) (hi : OwnerIdx s) (body : State → List String) (hbody : ∀ t : State, body { t with cb := [] } = body t) :
    ∀ f, f ∈ (reimportLine prop false ds ms s (reimportOk rank s) (body (reimportPost rank s) == body s) (reimportPost rank s)).2 →
      (f.cls = "F-gen-6" ∧ reimportOk rank s = false ∧ Spec.C12S.hasLiveCtx s = true) ∨
      (f.cls = "F-gen-14" ∧ reimportOk rank s = true ∧ ∃ d, d ∈ ds ∧ Spec.C12S.liabilities s d ≠ 0) := by
  have hrej : rejectedFails (reimportOk rank s) (body (reimportPost rank s) == body s) = [] := by
    unfold rejectedFails
    cases hok : reimportOk rank s with
    | true => rfl
    | false =>
      have hp : reimportPost rank s = { s with cb := [] } := by
        unfold reimportOk at hok
        unfold reimportPost
        cases hr : reimport rank { s with cb := [] } with
        | ok s' => rw [hr] at hok; cases hok
        | error e => rfl
      rw [hp, hbody s]
      simp
  intro f hf
  unfold reimportLine at hf
  rw [hrej] at hf
  split at hf
  · simp only [Bool.false_eq_true, if_false, List.nil_append, List.mem_map] at hf
    obtain ⟨g, hg, rfl⟩ := hf
    exact c12_reimport_sound rank ds hs hi g hg
  · split at hf <;> cases hf

/-- **`service prep_reimport`**: accepted on every invariant state, and no clause fails -/
theorem genesis_prep_reimport_sound (prop : String) (rank : Addr → Nat) (ds : List Denom) (ms : Mons) {s : State}
    (hs : SInv s) (hi : OwnerIdx s) (hfc : ∀ d, Spec.C12S.refundTo s fcAcc d = 0 ∧ Spec.C07.earnedOf s fcAcc d = 0)
    (bodySame : Bool) :
    prepReimportOk rank s = true ∧
    (reimportLine prop true ds ms s (prepReimportOk rank s) bodySame (prepReimportPost rank s)).2 = [] := by
  obtain ⟨hok, hc⟩ := c12_prep_reimport_sound rank ds hs hi hfc
  refine ⟨hok, ?_⟩
  unfold reimportLine rejectedFails
  rw [hok] at hc ⊢
  simp only [Bool.not_true, Bool.false_and, Bool.false_eq_true, if_false, if_true, List.nil_append]
  split
  · rw [hc]; rfl
  · rfl

/-- the C12 line invariant after `service prep_reimport` (always) … -/
theorem genesis_prep_reimport_inv (rank : Addr → Nat) (ms : Mons) {s : State} (hl : LineInv "C12" ms s) :
    LineInv "C12" ms (prepReimportPost rank s) := by
  obtain ⟨a1, a2, a3, a4⟩ := sinv_prepReimport rank hl.sinv
  refine ⟨a1, a2, a3, ReqsND_of_nil ?_, a4, ?_, fun h => absurd h (by decide), fun h => absurd h (by decide)⟩
  · have hr0 := reach_nocb hl.sinv.reach
    obtain ⟨b2, _, _, q3, _⟩ := prepReimport_spec rank hr0
    unfold prepReimportPost; rw [q3]; rfl
  · have hr0 := reach_nocb hl.sinv.reach
    obtain ⟨b2, _, _, q3, _⟩ := prepReimport_spec rank hr0
    have hpost : prepReimportPost rank s = roundTrip rank (prepared { s with cb := [] } b2) := by
      unfold prepReimportPost; rw [q3]
    intro id c hg
    rw [hpost, (roundTrip_lookups rank (prepared { s with cb := [] } b2)).2.2.2.2 id] at hg
    simp only [prepared] at hg
    rw [get?_resetCtxs] at hg
    cases hc : AMap.get? s.ctxs id with
    | none => rw [hc] at hg; cases hg
    | some c0 =>
      rw [hc] at hg
      simp only [Option.map_some, Option.some.injEq] at hg
      subst hg
      exact hl.noFc id c0 hc

/-- … and after an accepted `service reimport` that strands nothing (every context quiet, nothing owed) -/
theorem genesis_reimport_inv (rank : Addr → Nat) (ms : Mons) {s : State} (hl : LineInv "C12" ms s)
    (hq : Quiescent s) (hz : ∀ d, Spec.C12S.liabilities s d = 0) :
    LineInv "C12" ms (reimportPost rank s) := by
  obtain ⟨hok, a1, a2, a3, a4⟩ := sinv_reimport rank hl.sinv hq hz
  have hr0 := reach_nocb hl.sinv.reach
  have hq0 : Quiescent { s with cb := [] } := hq
  have hre := reimport_ok (rank := rank) (genesisValid_export rank hr0.2.2.fields hq0)
  have hpost : reimportPost rank s = roundTrip rank { s with cb := [] } := by unfold reimportPost; rw [hre]
  refine ⟨a1, a2, a3, ReqsND_of_nil (by rw [hpost]; rfl), a4, ?_, fun h => absurd h (by decide), fun h => absurd h (by decide)⟩
  intro id c hg
  rw [hpost, (roundTrip_lookups rank { s with cb := [] }).2.2.2.2 id] at hg
  exact hl.noFc id c hg

/-! ### a concrete monitored history (non-vacuity, used by the audit files) -/

def demoParams : Params :=
  { maxTimeout := 100, minDepMult := 1, tax := ⟨100000000000000000⟩, slash := ⟨100000000000000000⟩, complaint := 10,
    arbitration := 10 }

def demoS0 : State :=
  { params := demoParams, height := 10, time := 1000, supplied := ["stake"],
    bank := { bal := [(("A3", "stake"), 10000), (("A5", "stake"), 1000)] } }

def demoPin : PricingIn := { jsonOk := true, amount := 10, denom := "stake", ptime := [], pvol := [] }

def demoRid (tx : String) (batch : Nat) (h : Int) : ReqId := ⟨ctxIdOf tx 0, batch, h, 0⟩

/-- definitions, a binding, a one-shot call that is answered, a repeated call (frequency 3, timeout 2) whose first
batch is answered, whose second expires (slash + refund), which is then paused, restarted and killed; the provider
withdraws its earned fees -/
def demoOps : List Op :=
  [.define "A3" "s1" true, .bind "A3" "A0" "s1" [("stake", 100)] 1 demoPin true, .setWithdraw "A3" "A4",
   .call "n1" "A5" "s1" ["A0"] [("stake", 100)] 2 false 0 0 true, .next 5,
   .respond "A0" (some (demoRid "n1" 1 10)) 200 .good true, .respond "A0" (some (demoRid "n1" 1 10)) 200 .good true,
   .next 5, .next 5,
   .call "n2" "A5" "s1" ["A0"] [("stake", 100)] 2 true 3 (-1) true, .next 5,
   .respond "A0" (some (demoRid "n2" 1 13)) 200 .good true, .next 5, .next 5, .next 5, .next 5, .next 5,
   .withdraw "A3" "A0", .pause "A5" (ctxIdOf "n2" 0), .next 5, .start "A5" (ctxIdOf "n2" 0), .next 5, .next 5,
   .kill "A5" (ctxIdOf "n2" 0), .pause "A1" (ctxIdOf "n2" 0), .next 5, .next 5, .next 5]

/-- the monitor of `prop` run on the model's own observation stream: number of failures and of accepted lines -/
def monRun (prop : String) (ds : List Denom) : Mons → State → List Op → Nat × Nat
  | _, _, [] => (0, 0)
  | ms, s, op :: rest =>
    let r := opLine prop ds ms s op (modelWord s op) true (apply s op)
    let t := monRun prop ds r.1 (apply s op) rest
    (r.2.length + t.1, (if accepted s op then 1 else 0) + t.2)

/-- no monitor fails on the demo history, 26 of its 28 lines are accepted, and at the end the second context is gone,
the provider has been paid and slashed -/
def demoMonitor : Bool :=
  ["C07", "C08", "C13", "C12"].all (fun p => monRun p ["stake"] {} demoS0 demoOps == (0, 26)) &&
  (run demoS0 demoOps).ctxs.isEmpty &&
  Bank.balOf (run demoS0 demoOps).bank "A4" "stake" != 0 &&
  ((AMap.get? (run demoS0 demoOps).binds ("s1", "A0")).map (·.deposit)) != some 100

end Irismod.Proofs.ServiceMonitor
