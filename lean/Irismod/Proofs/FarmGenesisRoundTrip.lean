/-
The farm genesis round trip: the export of a well-formed state validates, imports, and the
imported state answers every query like the original.
-/
import Irismod.Proofs.FarmGenesisEscrow

namespace Irismod.Proofs.FarmGenesis
open Irismod Irismod.Sdk Irismod.Farm Irismod.FarmGenesis Irismod.Proofs.GenesisList Irismod.Proofs.Farm Irismod.Spec
open Irismod.MtGenesis (sortDedup heads tail)

/-- the pool sequence fits a `uint64` -/
def SeqInRange (s : State) : Prop := s.seq < 18446744073709551616

/-- no pool has ended (been refunded or destroyed) at the current height: the situation between
two blocks, where a genesis export is taken -/
def BlockStart (s : State) : Prop :=
  ∀ id p, getPool s id = some p → p.endH = s.height → C06.active s id p = true

/-! ### the export validates -/

theorem validateRules_ok (p : Pool) : ∀ (rs : List Rule), (∀ r ∈ rs, 0 < r.total ∧ 0 < r.rpb ∧ 0 ≤ r.rps.raw) →
    validateRules p rs = .ok ()
  | [], _ => rfl
  | r :: rs, h => by
    obtain ⟨h1, h2, h3⟩ := h r (by simp)
    unfold validateRules
    rw [if_neg (by omega), if_neg (by omega), if_neg (by omega)]
    exact validateRules_ok p rs (fun r hr => h r (by simp [hr]))

theorem validatePools_ok (B : Nat) : ∀ (l : List (PoolId × Pool)) (mx : Nat), mx ≤ B →
    (∀ e ∈ l, (∃ n, poolSeq? e.1 = some n ∧ n ≤ B) ∧ e.2.desc.utf8ByteSize ≤ 280 ∧ validateRules e.2 e.2.rules = .ok ()) →
    ∃ mx', validatePools l mx = .ok mx' ∧ mx' ≤ B
  | [], mx, hm, _ => ⟨mx, rfl, hm⟩
  | (id, p) :: t, mx, hm, h => by
    obtain ⟨⟨n, hn, hle⟩, hd, hr⟩ := h (id, p) (by simp)
    unfold validatePools
    simp only at hn hd hr
    rw [hn]
    simp only
    rw [if_neg (by omega), hr]
    simp only
    exact validatePools_ok B t _ (by split <;> omega) (fun e he => h e (by simp [he]))

theorem validateFarmers_ok : ∀ (l : List ((Addr × PoolId) × Farmer)),
    (∀ e ∈ l, (poolSeq? e.1.2).isSome = true ∧ 0 < e.2.locked ∧ (e.2.debt.map (·.1)).Nodup) →
    validateFarmers l = .ok ()
  | [], _ => rfl
  | ((a, id), f) :: t, h => by
    obtain ⟨h1, h2, h3⟩ := h ((a, id), f) (by simp)
    simp only at h1 h2 h3
    unfold validateFarmers
    have hnz : ((nonzero f.debt).map (·.1)).Nodup := by
      unfold nonzero
      exact List.Nodup.sublist (List.Sublist.map _ List.filter_sublist) h3
    have e1 : (poolSeq? id).isNone = false := by
      cases hps : poolSeq? id with
      | none => rw [hps] at h1; cases h1
      | some n => rfl
    simp only [e1, Bool.false_eq_true, if_false]
    rw [if_neg (by omega)]
    simp only [hnz, decide_true, Bool.not_true, Bool.false_eq_true, if_false]
    exact validateFarmers_ok t (fun e he => h e (by simp [he]))

theorem poolSeq_of_wf {s : State} (hg : GenWF s) (hr : SeqInRange s) {id : PoolId} (hk : id ∈ AMap.keys s.pools) :
    ∃ n, poolSeq? id = some n ∧ n ≤ s.seq := by
  obtain ⟨n, e, h0, hle⟩ := hg.ids id hk
  unfold SeqInRange at hr
  exact ⟨n, by rw [e]; exact poolSeq_poolIdOf h0 (by omega), hle⟩

theorem export_validates {s : State} (hi : Inv s) (hg : GenWF s) (hr : SeqInRange s) :
    validateGenesis (exportGenesis s) = .ok () := by
  have hp : ∃ mx, validatePools (exportPools s) 0 = .ok mx ∧ mx ≤ s.seq := by
    apply validatePools_ok s.seq _ 0 (Nat.zero_le _)
    intro e he
    have hget := mem_exportPools.mp he
    have hk : e.1 ∈ AMap.keys s.pools := (mem_keys_iff _ _).mpr ⟨e.2, hget⟩
    have w := hi.core.wf e.1 e.2 hget
    exact ⟨poolSeq_of_wf hg hr hk, hg.desc e.1 e.2 hget,
      validateRules_ok e.2 e.2.rules (fun r hr => ⟨w.totPos r hr, w.rpbPos r hr, w.rpsNN r hr⟩)⟩
  obtain ⟨mx, hv, hle⟩ := hp
  have hf : validateFarmers (exportFarmers s) = .ok () := by
    apply validateFarmers_ok
    intro e he
    obtain ⟨⟨a, id⟩, f⟩ := e
    have hget : getFarmer s a id = some f := mem_exportFarmers.mp he
    obtain ⟨p, hp⟩ := hi.core.fpool a id f hget
    obtain ⟨n, hn, _⟩ := poolSeq_of_wf hg hr ((mem_keys_iff _ _).mpr ⟨p, hp⟩)
    exact ⟨by simp only; rw [hn]; rfl, hg.flock a id f hget, (hg.fdebt a id f hget).1⟩
  unfold validateGenesis exportGenesis
  simp only
  rw [hv]
  simp only
  rw [if_neg (by omega)]
  exact hf

/-! ### the import -/

structure SameEnv (s s' : State) : Prop where
  height : s'.height = s.height
  bank   : s'.bank = s.bank
  ledger : s'.ledger = s.ledger
  cp     : s'.cp = s.cp

theorem importPool_spec (s : State) (id : PoolId) (p : Pool) :
    (importPool s id p).pools = AMap.set s.pools id p ∧ (importPool s id p).farmers = s.farmers ∧
    SameEnv s (importPool s id p) ∧ (importPool s id p).seq = s.seq ∧ (importPool s id p).params = s.params ∧
    (importPool s id p).resp = s.resp ∧
    (∀ e, e ∈ (importPool s id p).queue ↔ e ∈ s.queue ∨ (e = (p.endH, id) ∧ s.height ≤ p.endH)) ∧
    (s.queue.Nodup → (importPool s id p).queue.Nodup) := by
  unfold importPool
  split
  · rename_i hle
    have hq : ∀ e, e ∈ (enqueue (setPool s id p) id p.endH).queue ↔ e ∈ s.queue ∨ e = (p.endH, id) := by
      intro e; rw [mem_enqueue]; rfl
    refine ⟨by unfold enqueue; split <;> rfl, by unfold enqueue; split <;> rfl,
      ⟨by unfold enqueue; split <;> rfl, by unfold enqueue; split <;> rfl, by unfold enqueue; split <;> rfl, by unfold enqueue; split <;> rfl⟩,
      by unfold enqueue; split <;> rfl, by unfold enqueue; split <;> rfl, by unfold enqueue; split <;> rfl, ?_, ?_⟩
    · intro e; rw [hq]
      constructor
      · rintro (h | h)
        · exact Or.inl h
        · exact Or.inr ⟨h, hle⟩
      · rintro (h | h)
        · exact Or.inl h
        · exact Or.inr h.1
    · intro hn; exact nodup_enqueue (s := setPool s id p) hn
  · rename_i hle
    refine ⟨rfl, rfl, ⟨rfl, rfl, rfl, rfl⟩, rfl, rfl, rfl, ?_, fun hn => hn⟩
    intro e
    constructor
    · intro h; exact Or.inl h
    · rintro (h | h)
      · exact h
      · exact absurd h.2 hle

theorem importPools_spec : ∀ (l : List (PoolId × Pool)) (s : State),
    (importPools s l).pools = fromList l s.pools ∧ (importPools s l).farmers = s.farmers ∧
    SameEnv s (importPools s l) ∧ (importPools s l).seq = s.seq ∧ (importPools s l).params = s.params ∧
    (importPools s l).resp = s.resp ∧
    (∀ e, e ∈ (importPools s l).queue ↔ e ∈ s.queue ∨ ∃ x ∈ l, e = (x.2.endH, x.1) ∧ s.height ≤ x.2.endH) ∧
    (s.queue.Nodup → (importPools s l).queue.Nodup)
  | [], s => ⟨rfl, rfl, ⟨rfl, rfl, rfl, rfl⟩, rfl, rfl, rfl, by intro e; simp [importPools], fun h => h⟩
  | (id, p) :: t, s => by
    obtain ⟨a1, a2, a3, a4, a5, a6, a7, a8⟩ := importPool_spec s id p
    obtain ⟨b1, b2, b3, b4, b5, b6, b7, b8⟩ := importPools_spec t (importPool s id p)
    unfold importPools
    refine ⟨?_, b2.trans a2, ⟨b3.height.trans a3.height, b3.bank.trans a3.bank, b3.ledger.trans a3.ledger, b3.cp.trans a3.cp⟩,
      b4.trans a4, b5.trans a5, b6.trans a6, ?_, fun hn => b8 (a8 hn)⟩
    · rw [b1, a1]; rfl
    · intro e
      rw [b7, a7, a3.height]
      constructor
      · rintro ((h | h) | ⟨x, hx, h⟩)
        · exact Or.inl h
        · exact Or.inr ⟨(id, p), by simp, h⟩
        · exact Or.inr ⟨x, by simp [hx], h⟩
      · rintro (h | ⟨x, hx, h⟩)
        · exact Or.inl (Or.inl h)
        · simp only [List.mem_cons] at hx
          rcases hx with e1 | e1
          · subst e1; exact Or.inl (Or.inr h)
          · exact Or.inr ⟨x, e1, h⟩

theorem importFarmers_spec : ∀ (l : List ((Addr × PoolId) × Farmer)) (s : State),
    (∀ e ∈ l, ∃ p, getPool s e.1.2 = some p) →
    ∃ s', importFarmers s l = .ok s' ∧ s'.farmers = fromList l s.farmers ∧ s'.pools = s.pools ∧ s'.queue = s.queue ∧
      SameEnv s s' ∧ s'.seq = s.seq ∧ s'.params = s.params ∧ s'.resp = s.resp
  | [], s, _ => ⟨s, rfl, rfl, rfl, rfl, ⟨rfl, rfl, rfl, rfl⟩, rfl, rfl, rfl⟩
  | ((a, id), f) :: t, s, h => by
    obtain ⟨p, hp⟩ := h ((a, id), f) (by simp)
    simp only at hp
    unfold importFarmers
    rw [hp]
    simp only
    obtain ⟨s', e1, e2, e3, e4, e5, e6, e7, e8⟩ := importFarmers_spec t { s with farmers := AMap.set s.farmers (a, id) f }
      (fun e he => h e (by simp [he]))
    exact ⟨s', e1, by rw [e2]; rfl, e3, e4, ⟨e5.height, e5.bank, e5.ledger, e5.cp⟩, e6, e7, e8⟩

/-- the pools / farmers rebuilt from the exported lists answer like the originals -/
theorem get?_fromList_exportPools (s : State) (id : PoolId) :
    AMap.get? (fromList (exportPools s) ([] : AMap PoolId Pool)) id = AMap.get? s.pools id := by
  cases hg : AMap.get? s.pools id with
  | some p =>
    have hm : (id, p) ∈ exportPools s := mem_exportPools.mpr hg
    exact get?_fromList_mem _ _ (exportPools_nodup s) (id, p) hm
  | none =>
    rw [get?_fromList_notin]
    · rfl
    · intro e he hc
      have := mem_exportPools.mp he
      unfold getPool at this
      rw [hc, hg] at this; cases this

theorem get?_fromList_exportFarmers (s : State) (k : Addr × PoolId) :
    AMap.get? (fromList (exportFarmers s) ([] : AMap (Addr × PoolId) Farmer)) k = AMap.get? s.farmers k := by
  cases hg : AMap.get? s.farmers k with
  | some f =>
    have hm : (k, f) ∈ exportFarmers s := mem_exportFarmers.mpr hg
    exact get?_fromList_mem _ _ (exportFarmers_nodup s) (k, f) hm
  | none =>
    rw [get?_fromList_notin]
    · rfl
    · intro e he hc
      have := mem_exportFarmers.mp he
      rw [hc, hg] at this; cases this

/-- everything the round trip preserves -/
structure SameQueries (s s' : State) : Prop where
  pools   : ∀ id, getPool s' id = getPool s id
  farmers : ∀ a id, getFarmer s' a id = getFarmer s a id
  queue   : ∀ e, e ∈ s'.queue ↔ e ∈ s.queue
  qnodup  : s'.queue.Nodup
  pkeys   : GenesisList.NodupKeys s'.pools
  fkeys   : GenesisList.NodupKeys s'.farmers
  seq     : s'.seq = s.seq
  params  : s'.params = s.params
  height  : s'.height = s.height
  bank    : s'.bank = s.bank
  ledger  : s'.ledger = s.ledger
  /-- the escrow infos answer the same; the rest of the community-pool state (community pool,
  gov proposals, gov parameters) is not the farm module's and stays in place -/
  escrow  : ∀ pid, AMap.get? s'.cp.escrow pid = AMap.get? s.cp.escrow pid
  ekeys   : GenesisList.NodupKeys s'.cp.escrow
  cpPool  : s'.cp.pool = s.cp.pool
  cpProps : s'.cp.props = s.cp.props
  cpNext  : s'.cp.nextId = s.cp.nextId
  cpMin   : s'.cp.minDeposit = s.cp.minDeposit ∧ s'.cp.minFirst = s.cp.minFirst

theorem validParams_eq {p : Params} (h : validParams p = true) : (!validParams p) = false := by simp [h]

theorem import_export {s : State} (hi : Inv s) (hg : GenWF s) (hr : SeqInRange s) (hb : BlockStart s) :
    ∃ s', importGenesis s (exportGenesis s) = .ok s' ∧ SameQueries s s' := by
  have hv := export_validates hi hg hr
  generalize hs0 : wiped s = s0
  have h0p : s0.pools = [] := by rw [← hs0]; rfl
  have h0f : s0.farmers = [] := by rw [← hs0]; rfl
  have h0q : s0.queue = [] := by rw [← hs0]; rfl
  have h0h : s0.height = s.height := by rw [← hs0]; rfl
  have h0b : s0.bank = s.bank := by rw [← hs0]; rfl
  have h0l : s0.ledger = s.ledger := by rw [← hs0]; rfl
  have h0c : s0.cp = { s.cp with escrow := [] } := by rw [← hs0]; rfl
  obtain ⟨a1, a2, a3, a4, a5, a6, a7, a8⟩ := importPools_spec (exportPools s) s0
  have hpoolsget : ∀ id, getPool (importPools s0 (exportPools s)) id = getPool s id := by
    intro id; unfold getPool; rw [a1, h0p]; exact get?_fromList_exportPools s id
  have hfp : ∀ e ∈ exportFarmers s, ∃ p, getPool (importPools s0 (exportPools s)) e.1.2 = some p := by
    intro e he
    obtain ⟨⟨a, id⟩, f⟩ := e
    have hget : getFarmer s a id = some f := mem_exportFarmers.mp he
    obtain ⟨p, hp⟩ := hi.core.fpool a id f hget
    exact ⟨p, by rw [hpoolsget]; exact hp⟩
  obtain ⟨s1, e1, e2, e3, e4, e5, e6, e7, e8⟩ := importFarmers_spec (exportFarmers s) _ hfp
  have h1c : s1.cp = { s.cp with escrow := [] } := by rw [e5.cp, a3.cp, h0c]
  refine ⟨{ (importEscrow s1 (exportEscrow s)) with seq := s.seq, params := s.params }, ?_, ?_⟩
  · unfold importGenesis
    rw [hv]
    simp only
    have : (exportGenesis s).pools = exportPools s := rfl
    rw [this]
    have : (exportGenesis s).farmers = exportFarmers s := rfl
    rw [this, hs0, e1]
    simp only
    have hpar : (exportGenesis s).params = s.params := rfl
    have hsq : (exportGenesis s).seq = s.seq := rfl
    have hesc : (exportGenesis s).escrow = exportEscrow s := rfl
    rw [hpar, hsq, hesc, validParams_eq hg.params]
    simp
  · obtain ⟨q1, q2, q3⟩ := hi.core.queue
    have hesc1 : (importEscrow s1 (exportEscrow s)).cp.escrow = fromList (exportEscrow s) ([] : AMap Nat Escrow) := by
      show List.foldl _ s1.cp.escrow _ = _
      rw [h1c]; rfl
    refine ⟨?_, ?_, ?_, ?_, ?_, ?_, rfl, rfl, ?_, ?_, ?_, ?_, ?_, ?_, ?_, ?_, ?_⟩
    · intro id
      show AMap.get? s1.pools id = _
      rw [e3]; exact hpoolsget id
    · intro a id
      show AMap.get? s1.farmers (a, id) = _
      rw [e2, a2, h0f]; exact get?_fromList_exportFarmers s (a, id)
    · intro e
      show e ∈ s1.queue ↔ _
      rw [e4, a7, h0q, h0h]
      constructor
      · rintro (h | ⟨x, hx, he, hle⟩)
        · cases h
        · have hget := mem_exportPools.mp hx
          rw [he]
          by_cases hlt : s.height < x.2.endH
          · exact q2 x.1 x.2 hget hlt
          · have heq : x.2.endH = s.height := by omega
            have := hb x.1 x.2 hget heq
            unfold C06.active at this
            simpa using this
      · intro h
        right
        obtain ⟨hh, id⟩ := e
        obtain ⟨p, hp, hend, hle⟩ := q1 hh id h
        exact ⟨(id, p), mem_exportPools.mpr hp, by rw [hend], by rw [hend]; exact hle⟩
    · show s1.queue.Nodup
      rw [e4]; exact a8 (by rw [h0q]; exact List.nodup_nil)
    · show GenesisList.NodupKeys s1.pools
      rw [e3, a1, h0p]; exact nodupKeys_fromList _ _ List.nodup_nil
    · show GenesisList.NodupKeys s1.farmers
      rw [e2, a2, h0f]; exact nodupKeys_fromList _ _ List.nodup_nil
    · show s1.height = _; rw [e5.height, a3.height, h0h]
    · show s1.bank = _; rw [e5.bank, a3.bank, h0b]
    · show s1.ledger = _; rw [e5.ledger, a3.ledger, h0l]
    · intro pid
      show AMap.get? (importEscrow s1 (exportEscrow s)).cp.escrow pid = _
      rw [hesc1]; exact get?_fromList_exportEscrow s pid
    · show GenesisList.NodupKeys (importEscrow s1 (exportEscrow s)).cp.escrow
      rw [hesc1]; exact nodupKeys_fromList _ _ List.nodup_nil
    · show s1.cp.pool = _; rw [h1c]
    · show s1.cp.props = _; rw [h1c]
    · show s1.cp.nextId = _; rw [h1c]
    · exact ⟨by show s1.cp.minDeposit = _; rw [h1c], by show s1.cp.minFirst = _; rw [h1c]⟩

/-! ### consequences of equal queries -/

theorem export_same {s s' : State} (h : SameQueries s s') : exportGenesis s' = exportGenesis s := by
  have hpk : ∀ x, x ∈ AMap.keys s'.pools ↔ x ∈ AMap.keys s.pools := by
    intro x; rw [mem_keys_iff, mem_keys_iff]
    have := h.pools x; unfold getPool at this; rw [this]
  have hfk : ∀ x, x ∈ AMap.keys s'.farmers ↔ x ∈ AMap.keys s.farmers := by
    intro x; rw [mem_keys_iff, mem_keys_iff]
    have := h.farmers x.1 x.2; unfold getFarmer at this; rw [this]
  have hgp : ∀ id, AMap.get? s'.pools id = AMap.get? s.pools id := h.pools
  have hgf : ∀ k, AMap.get? s'.farmers k = AMap.get? s.farmers k := fun k => h.farmers k.1 k.2
  unfold exportGenesis
  have e1 : exportPools s' = exportPools s := by
    unfold exportPools
    rw [sortDedup_congr hpk]
    congr 1
    funext id; rw [hgp]
  have e2 : exportFarmers s' = exportFarmers s := by
    unfold exportFarmers
    rw [heads_congr hfk]
    congr 1
    funext a
    rw [sortDedup_congr (tail_mem_congr hfk a)]
    congr 1
    funext id; rw [hgf]
  rw [e1, e2, h.seq, h.params, exportEscrow_congr h.escrow]

end Irismod.Proofs.FarmGenesis

namespace Irismod.Proofs.FarmGenesis
open Irismod Irismod.Sdk Irismod.Farm Irismod.FarmGenesis Irismod.Proofs.GenesisList Irismod.Proofs.Farm Irismod.Spec

theorem mem_iff_of_get {K V : Type} [DecidableEq K] {m1 m2 : AMap K V} (h1 : GenesisList.NodupKeys m1)
    (h2 : GenesisList.NodupKeys m2) (h : ∀ k, AMap.get? m1 k = AMap.get? m2 k) : ∀ e, e ∈ m1 ↔ e ∈ m2 := by
  intro e
  constructor
  · intro he; have := get?_of_mem h1 he; rw [h] at this; exact mem_of_get? this
  · intro he; have := get?_of_mem h2 he; rw [← h] at this; exact mem_of_get? this

theorem active_same {s s' : State} (h : SameQueries s s') (id : PoolId) (p : Pool) : C06.active s' id p = C06.active s id p := by
  unfold C06.active
  cases h1 : s.queue.contains (p.endH, id) with
  | true =>
    have : (p.endH, id) ∈ s'.queue := (h.queue _).mpr (by simpa using h1)
    simpa using this
  | false =>
    cases h2 : s'.queue.contains (p.endH, id) with
    | false => rfl
    | true =>
      have : (p.endH, id) ∈ s.queue := (h.queue _).mp (by simpa using h2)
      have : s.queue.contains (p.endH, id) = true := by simpa using this
      rw [h1] at this; cases this

/-- the bundle and the genesis well-formedness survive the round trip -/
theorem inv_same {s s' : State} (h : SameQueries s s') (hi : Inv s) (hg : GenWF s) : Inv s' ∧ GenWF s' := by
  have hfperm : s'.farmers.Perm s.farmers :=
    perm_of_mem h.fkeys hi.stakes.nodup (mem_iff_of_get h.fkeys hi.stakes.nodup (fun k => h.farmers k.1 k.2))
  have hpperm : s'.pools.Perm s.pools :=
    perm_of_mem h.pkeys hg.poolKeys (mem_iff_of_get h.pkeys hg.poolKeys h.pools)
  obtain ⟨q1, q2, q3⟩ := hi.core.queue
  refine ⟨⟨⟨?_, ?_, ?_, ⟨?_, ?_, h.qnodup⟩, ?_, ?_, ?_, ?_⟩, ⟨?_, h.fkeys⟩, ?_,
    ⟨fun pid e hg2 => hi.cpu.1 pid e (by rw [← h.escrow]; exact hg2),
     fun pid pr hg2 => hi.cpu.2 pid pr (by rw [← h.cpProps]; exact hg2)⟩⟩, ?_⟩
  · rw [h.height]; exact hi.core.hnn
  · intro id p hp; rw [h.pools] at hp; exact hi.core.wf id p hp
  · intro id p hp; rw [h.pools] at hp; rw [h.height]; exact hi.core.time id p hp
  · intro hh id hm
    rw [h.queue] at hm
    obtain ⟨p, hp, he, hl⟩ := q1 hh id hm
    exact ⟨p, by rw [h.pools]; exact hp, he, by rw [h.height]; exact hl⟩
  · intro id p hp hlt
    rw [h.pools] at hp; rw [h.height] at hlt
    exact (h.queue _).mpr (q2 id p hp hlt)
  · intro id p hp ha
    rw [h.pools] at hp; rw [active_same h] at ha
    exact hi.core.budget id p hp ha
  · intro a id f p hf hp
    rw [h.farmers] at hf; rw [h.pools] at hp
    exact hi.core.debt a id f p hf hp
  · intro a id f hf
    rw [h.farmers] at hf
    obtain ⟨p, hp⟩ := hi.core.fpool a id f hf
    exact ⟨p, by rw [h.pools]; exact hp⟩
  · intro id p hp r hr
    rw [h.pools] at hp
    exact (hi.core.ghost id p hp r hr).transfer (by rw [active_same h]; exact fun x => x) (by rw [h.height]; exact fun x => x)
  · intro id
    unfold C05.stakedSum C05.lockedOf
    rw [sumIf_perm _ _ hfperm, h.pools]
    exact hi.stakes.sum id
  · intro d
    unfold C05.expectedFarm AMap.sumBy
    rw [h.bank, sumIf_perm _ _ hpperm]
    exact hi.modacc d
  · refine ⟨h.pkeys, ?_, ?_, ?_, ?_, by rw [h.params]; exact hg.params⟩
    · intro id hid
      rw [h.seq]
      apply hg.ids
      rw [mem_keys_iff] at hid ⊢
      have := h.pools id; unfold getPool at this; rw [← this]; exact hid
    · intro id p hp; rw [h.pools] at hp; exact hg.desc id p hp
    · intro a id f hf; rw [h.farmers] at hf; exact hg.flock a id f hf
    · intro a id f hf; rw [h.farmers] at hf; exact hg.fdebt a id f hf

/-- between two blocks no pool has ended at the current height -/
theorem blockStart_after_endBlocker {s s' : State} (hi : Inv s) (h : endBlocker s = .ok s') :
    BlockStart { s' with height := s'.height + 1 } := by
  rcases endBlocker_inv hi with ⟨w, e⟩ | ⟨s2, e, i2, h2, q2, o2, d2⟩
  · rw [h] at e; cases e
  · rw [h] at e; cases e
    intro id p hp hend
    have hp' : getPool s' id = some p := hp
    have hend' : p.endH = s'.height + 1 := hend
    by_cases hdue : (s.height, id) ∈ s.queue
    · obtain ⟨pf, hpf, he, _⟩ := d2 id hdue
      rw [hp'] at hpf; cases hpf
      omega
    · rw [o2 id hdue] at hp'
      have hlt : s.height < p.endH := by omega
      have hm := hi.core.queue.2.1 id p hp' hlt
      have : (p.endH, id) ∈ s'.queue := (q2 _).mpr ⟨hm, by simp only; omega⟩
      unfold C06.active
      simpa using this

theorem blockStart_endBlocks : ∀ (n : Nat) (s : State), Inv s → (endBlocks (n + 1) s).2 = false →
    BlockStart (endBlocks (n + 1) s).1
  | 0, s, hi, hf => by
    unfold endBlocks at hf ⊢
    cases he : endBlocker s with
    | error e => rw [he] at hf; simp at hf
    | ok s1 =>
      simp only [endBlocks]
      exact blockStart_after_endBlocker hi he
  | n + 1, s, hi, hf => by
    unfold endBlocks at hf ⊢
    cases he : endBlocker s with
    | error e => rw [he] at hf; simp at hf
    | ok s1 =>
      rw [he] at hf
      simp only at hf ⊢
      rcases endBlocker_inv hi with ⟨w, e⟩ | ⟨s2, e, i2, _⟩
      · rw [he] at e; cases e
      · rw [he] at e; cases e
        exact blockStart_endBlocks n _ i2 hf

theorem blockStart_genesis {s : State} (hg : C05.Genesis s) : BlockStart s := by
  intro id p hp; unfold getPool at hp; rw [hg.1] at hp; cases hp

end Irismod.Proofs.FarmGenesis
