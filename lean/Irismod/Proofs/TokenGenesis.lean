/-
Proofs for the token slice of C12: the reachable-state facts `ValidateGenesis` relies on, the
specification of `AddToken` / `AddBurnCoin` folded over an exported document, and the round trip
(export validates, import succeeds, every query preserved, export is a fixpoint).
Core Lean only.
-/
import Irismod.Spec.C12_Token
import Irismod.Props.C09
import Irismod.Proofs.GenesisList

namespace Irismod.Proofs.TokenGenesis
open Irismod Irismod.Sdk Irismod.Token Irismod.TokenGenesis Irismod.Spec.C12.Token
open Irismod.Spec.C09 (WF OwnIdx)
open Irismod.Proofs.Token Irismod.Proofs.GenesisList
open Irismod.MtGenesis (sortDedup)

/-! ### what `Token.Validate` needs and every history keeps -/

/-- the fields of every token that `Token.Validate` checks and that no operation can spoil -/
def FieldsOK (s : State) : Prop :=
  ∀ sym t, AMap.get? s.tokens sym = some t →
    validName t.name = true ∧ isAddr t.owner = true ∧ t.initialSupply ≤ maxInit ∧ t.scale ≤ 18

/-- every burned tally is filed under a denomination `Coin.Validate` accepts -/
def BurnedOK (s : State) : Prop := ∀ d, d ∈ AMap.keys s.burned → validDenom d = true

/-- `^[a-z][a-z0-9]{2,63}$` is within `[a-zA-Z][a-zA-Z0-9/:._-]{2,127}` -/
theorem validSymbol_validDenom {d : String} (h : validSymbol d = true) : validDenom d = true := by
  unfold validSymbol at h
  unfold validDenom
  cases hl : d.toList with
  | nil => rw [hl] at h; cases h
  | cons c rest =>
    rw [hl] at h
    simp only [Bool.and_eq_true, decide_eq_true_eq, List.all_eq_true, Bool.or_eq_true] at h ⊢
    obtain ⟨⟨⟨⟨h1, h2⟩, h3⟩, h4⟩, _⟩ := h
    refine ⟨⟨⟨Or.inl h1, ?_⟩, h3⟩, by omega⟩
    intro x hx
    rcases h2 x hx with hx' | hx'
    · exact Or.inl (Or.inl (Or.inl (Or.inl (Or.inl (Or.inl (Or.inl hx'))))))
    · exact Or.inl (Or.inl (Or.inl (Or.inl (Or.inl (Or.inr hx')))))

theorem isAddr_TM : isAddr TM = true := by decide +kernel

theorem edit_valid {s s' : State} {owner symbol name : String} {max : Nat} {mintable : String}
    (h : stepEdit s owner symbol name max mintable = .ok s') : validName name = true := by
  unfold stepEdit at h
  split at h; · cases h
  rename_i hv
  have hv' : (isAddr owner && validName name && validSymbol symbol) = true := by simpa using hv
  simp only [Bool.and_eq_true] at hv'
  exact hv'.1.2

theorem transferOwner_valid {s s' : State} {src dst symbol : String}
    (h : stepTransferOwner s src dst symbol = .ok s') : isAddr dst = true := by
  unfold stepTransferOwner at h
  split at h; · cases h
  rename_i hv
  have hv' : (isAddr src && isAddr dst && src ≠ dst && validSymbol symbol) = true := by
    cases hx : (isAddr src && isAddr dst && src ≠ dst && validSymbol symbol) with
    | true => rfl
    | false => rw [hx] at hv; exact absurd rfl hv
  simp only [Bool.and_eq_true] at hv'
  exact hv'.1.1.2

theorem deploy_valid {s s' : State} {authority name symbol minUnit : String} {scale : Nat}
    (h : stepDeploy s authority name symbol minUnit scale = .ok s') : validName name = true ∧ scale ≤ 18 := by
  unfold stepDeploy at h
  split at h; · cases h
  rename_i hv
  have hv' : (isAddr authority && validName name && decide (scale ≤ 18) && validErc20Name minUnit &&
      validErc20Name symbol) = true := by simpa using hv
  simp only [Bool.and_eq_true, decide_eq_true_eq] at hv'
  exact ⟨hv'.1.1.1.2, hv'.1.1.2⟩

theorem updateParams_valid {s s' : State} {authority : String} {p : Params}
    (h : stepUpdateParams s authority p = .ok s') : paramsValid p = true := by
  unfold stepUpdateParams at h
  split at h; · cases h
  rename_i hv
  have hv' : (isAddr authority && paramsValid p) = true := by simpa using hv
  simp only [Bool.and_eq_true] at hv'
  exact hv'.2

theorem burn_valid {s s' : State} {sender denom : String} {amount : Int}
    (h : stepBurn s sender denom amount = .ok s') : validSymbol denom = true := by
  unfold stepBurn at h
  split at h; · cases h
  rename_i hv
  have hv' : (isAddr sender && decide (0 < amount) && validSymbol denom) = true := by simpa using hv
  simp only [Bool.and_eq_true] at hv'
  exact hv'.2

theorem issueValid_fields {owner symbol name minUnit : String} {scale init max : Nat} {mintable : Bool}
    (h : issueValid owner symbol name minUnit scale init max mintable = true) :
    validName name = true ∧ isAddr owner = true ∧ init ≤ maxInit ∧ scale ≤ 18 := by
  unfold issueValid at h
  simp only [Bool.and_eq_true, decide_eq_true_eq] at h
  exact ⟨h.1.1.1.1.1.2, h.1.1.1.1.1.1, h.1.1.2, h.2⟩

/-- the three facts together -/
structure GenOK (s : State) : Prop where
  fields : FieldsOK s
  params : paramsValid s.params = true
  burned : BurnedOK s

theorem fields_of_same {s s' : State} (h : FieldsOK s) (e : s'.tokens = s.tokens) : FieldsOK s' := by
  intro sym t ht; rw [e] at ht; exact h sym t ht

theorem fields_set {s : State} {tokens' : AMap String Token} {sym : String} {t' : Token} (h : FieldsOK s)
    (e : tokens' = AMap.set s.tokens sym t')
    (ht' : validName t'.name = true ∧ isAddr t'.owner = true ∧ t'.initialSupply ≤ maxInit ∧ t'.scale ≤ 18) :
    ∀ sym2 t2, AMap.get? tokens' sym2 = some t2 →
      validName t2.name = true ∧ isAddr t2.owner = true ∧ t2.initialSupply ≤ maxInit ∧ t2.scale ≤ 18 := by
  intro sym2 t2 ht2
  rw [e, get?_set] at ht2
  by_cases hk : sym = sym2
  · simp only [hk, if_true, Option.some.injEq] at ht2
    subst ht2; exact ht'
  · simp only [hk, if_false] at ht2
    exact h sym2 t2 ht2

theorem genOK_step_core (s s' : State) (op : Op) (hn : norm op = op) (hwf : WF s) (h : GenOK s)
    (hs : step s op = .ok s') : GenOK s' := by
  cases op with
  | issue owner symbol name minUnit scale init max mintable =>
    obtain ⟨hv, _, s1, h1, _, _, rfl⟩ := issue_ok hs
    obtain ⟨_, _, _, _, _, _, _, rfl⟩ := deductFee_ok h1
    exact ⟨fields_set h.fields rfl (issueValid_fields hv), h.params, h.burned⟩
  | edit owner symbol name max mintable =>
    have hn := edit_valid (show stepEdit s owner symbol name max mintable = .ok s' from hs)
    obtain ⟨t, ht, _, _, rfl⟩ := edit_ok hs
    obtain ⟨f1, f2, f3, f4⟩ := h.fields symbol t ht
    refine ⟨fields_set h.fields rfl ⟨?_, f2, f3, f4⟩, h.params, h.burned⟩
    show validName (if name ≠ doNotModify then name else t.name) = true
    split <;> assumption
  | mint owner to denom amount =>
    obtain ⟨_, _, sym, s1, _, h1, h2⟩ := mint_ok hs
    obtain ⟨_, _, _, _, _, _, _, rfl⟩ := deductFee_ok h1
    obtain ⟨_, _, _, _, _, rfl⟩ := mintChecked_ok h2
    exact ⟨h.fields, h.params, h.burned⟩
  | legacyIssue _ _ _ _ _ _ _ _ => cases hn
  | legacyEdit _ _ _ _ _ => cases hn
  | legacyTransferOwner _ _ _ => cases hn
  | legacyMint owner to symbol amount =>
    obtain ⟨_, _, t, _, _, _, hh⟩ := legacyMint_ok hs
    obtain ⟨_, sym, s1, _, h1, h2⟩ := mintH_ok hh
    obtain ⟨_, _, _, _, _, _, _, rfl⟩ := deductFee_ok h1
    obtain ⟨_, _, _, _, _, rfl⟩ := mintChecked_ok h2
    exact ⟨h.fields, h.params, h.burned⟩
  | legacyBurn sender symbol amount =>
    -- the coin constructor of the adapter has already checked the min unit as a denom
    obtain ⟨_, _, t, _, _, hvd, hh⟩ := legacyBurn_ok hs
    obtain ⟨_, b, _, rfl⟩ := burnH_ok hh
    refine ⟨h.fields, h.params, ?_⟩
    intro d hdk
    simp only at hdk
    rcases (mem_keys_set _ _ _ _).mp hdk with e | e
    · subst e; exact hvd
    · exact h.burned d e
  | upgradeErc20 authority impl =>
    obtain ⟨_, _, _, _, _, rfl⟩ := upgrade_ok hs
    exact ⟨h.fields, h.params, h.burned⟩
  | burn sender denom amount =>
    have hd := burn_valid (show stepBurn s sender denom amount = .ok s' from hs)
    obtain ⟨_, _, b, _, rfl⟩ := burn_step_ok hs
    refine ⟨h.fields, h.params, ?_⟩
    intro d hdk
    simp only at hdk
    rcases (mem_keys_set _ _ _ _).mp hdk with e | e
    · subst e; exact validSymbol_validDenom hd
    · exact h.burned d e
  | transferOwner src dst symbol =>
    have hn := transferOwner_valid (show stepTransferOwner s src dst symbol = .ok s' from hs)
    obtain ⟨_, t, ht, _, rfl⟩ := transferOwner_ok hs
    obtain ⟨f1, _, f3, f4⟩ := h.fields symbol t ht
    exact ⟨fields_set h.fields rfl ⟨f1, hn, f3, f4⟩, h.params, h.burned⟩
  | swapFee sender to denom amount =>
    obtain ⟨_, tb, target, ratio, tm, b, m, _, _, _, _, h2⟩ := swapFee_ok hs
    obtain ⟨_, _, _, bk, _, rfl⟩ := swapMoves_ok h2
    exact ⟨h.fields, h.params, h.burned⟩
  | deploy authority name symbol minUnit scale =>
    obtain ⟨hn, hsc⟩ := deploy_valid (show stepDeploy s authority name symbol minUnit scale = .ok s' from hs)
    obtain ⟨t, hb, _, rfl⟩ := deploy_ok hs
    refine ⟨fields_set h.fields rfl ?_, h.params, h.burned⟩
    show validName t.name = true ∧ isAddr t.owner = true ∧ t.initialSupply ≤ maxInit ∧ t.scale ≤ 18
    unfold buildErc20Token at hb
    split at hb
    · split at hb
      · cases hb
      · rename_i t' ht'
        cases hb
        obtain ⟨_, e2, _⟩ := Props.C09.tokenByMinUnit_wf hwf ht'
        exact h.fields _ _ e2
    · split at hb
      · cases hb
      · cases hb
        exact ⟨hn, isAddr_TM, Nat.zero_le _, hsc⟩
  | swapToErc20 sender receiver denom amount =>
    obtain ⟨_, _, t, b, _, _, _, rfl⟩ := swapTo_ok hs
    exact ⟨h.fields, h.params, h.burned⟩
  | swapFromErc20 sender receiver denom amount =>
    obtain ⟨_, _, _, t, _, _, _, rfl⟩ := swapFrom_ok hs
    exact ⟨h.fields, h.params, h.burned⟩
  | hookSwap src c to amount =>
    have f := hook_frame (show stepHookSwap s src c to amount = .ok s' from hs)
    exact ⟨fields_of_same h.fields f.tokens, by rw [f.params]; exact h.params,
      by intro d hd; rw [f.burned] at hd; exact h.burned d hd⟩
  | evmFault mode =>
    rw [evmFault_ok hs]; exact ⟨h.fields, h.params, h.burned⟩
  | updateParams authority p =>
    have hp := updateParams_valid (show stepUpdateParams s authority p = .ok s' from hs)
    rw [(updateParams_ok hs).2]
    exact ⟨h.fields, hp, h.burned⟩
  | evmTx target logs =>
    have f := logs_frame (evmTx_ok hs)
    exact ⟨fields_of_same h.fields f.tokens, by rw [f.params]; exact h.params,
      by intro d hd; rw [f.burned] at hd; exact h.burned d hd⟩

/-- **every accepted operation keeps the facts `ValidateGenesis` relies on** (all 19 operations: both
Msg services, conversions, deployment, upgrade) -/
theorem genOK_step (s s' : State) (op : Op) (hwf : WF s) (h : GenOK s) (hs : step s op = .ok s') : GenOK s' :=
  genOK_step_core s s' (norm op) (norm_idem op) hwf h (by rw [← step_norm]; exact hs)

theorem genOK_genesis (bank : Bank) (p : Params) (env : Env) (hp : paramsValid p = true) :
    GenOK (genesis bank p env) := by
  refine ⟨?_, hp, ?_⟩
  · intro sym t ht
    simp only [genesis, AMap.get?] at ht
    split at ht
    · cases ht
      exact ⟨by decide +kernel, isAddr_TM, by decide, by decide⟩
    · cases ht
  · intro d hd; simp [genesis, AMap.keys] at hd

/-! ### the exported document -/

theorem mem_exportTokens {s : State} {t : Token} (h : t ∈ exportTokens s) :
    ∃ sym, AMap.get? s.tokens sym = some t := by
  unfold exportTokens at h
  obtain ⟨sym, _, hs⟩ := List.mem_filterMap.mp h
  exact ⟨sym, hs⟩

theorem exportTokens_mem_of_get {s : State} {sym : String} {t : Token} (h : AMap.get? s.tokens sym = some t) :
    t ∈ exportTokens s := by
  unfold exportTokens
  refine List.mem_filterMap.mpr ⟨sym, ?_, h⟩
  rw [mem_sortDedup, mem_keys_iff]; exact ⟨t, h⟩

theorem any_false_of_mem {s : State} {p : String × Token → Bool} (h : s.tokens.any p = false)
    {sym : String} {t : Token} (ht : AMap.get? s.tokens sym = some t) : p (sym, t) = false := by
  rw [List.any_eq_false] at h
  have := h (sym, t) (mem_of_get? ht)
  simpa using this

/-- **the export of a state validates** when every token has `maxSupply ≥ initialSupply` and a
symbol and min unit `Token.Validate` accepts -/
theorem validate_export (s : State) (hg : GenOK s) (hwf : WF s) (h9 : maxBelowInit s = false)
    (h11 : badIdentity s = false) : validateGenesis (exportGenesis s) = true := by
  unfold validateGenesis exportGenesis
  simp only [Bool.and_eq_true, List.all_eq_true]
  refine ⟨⟨hg.params, ?_⟩, ?_⟩
  · intro t ht
    obtain ⟨sym, hs⟩ := mem_exportTokens ht
    obtain ⟨f1, f2, f3, f4⟩ := hg.fields sym t hs
    have a9 := any_false_of_mem h9 hs
    have a11 := any_false_of_mem h11 hs
    simp only [decide_eq_false_iff_not, Nat.not_lt] at a9
    simp only [Bool.not_eq_false', Bool.and_eq_true] at a11
    unfold validateToken
    simp only [Bool.and_eq_true, Bool.or_eq_true, decide_eq_true_eq]
    exact ⟨⟨⟨⟨⟨⟨Or.inr f2, f1⟩, a11.1⟩, a11.2⟩, f3⟩, a9⟩, f4⟩
  · intro c hc
    unfold exportBurned at hc
    obtain ⟨d, hd, rfl⟩ := List.mem_map.mp hc
    exact hg.burned d ((mem_sortDedup _ _).mp hd)

/-! ### `AddToken` folded over a document -/

/-- the keys of `l` are free in `tb` -/
def Fresh (tb : Tables) (l : List Token) : Prop :=
  ∀ t ∈ l, AMap.get? tb.tokens t.symbol = none ∧ AMap.get? tb.minUnits t.minUnit = none ∧
    (t.contract ≠ 0 → AMap.get? tb.contracts t.contract = none)

/-- no two tokens of the document share a symbol, a min unit or a contract -/
def Distinct (l : List Token) : Prop :=
  l.Pairwise fun a b => a.symbol ≠ b.symbol ∧ a.minUnit ≠ b.minUnit ∧
    (a.contract ≠ 0 → a.contract ≠ b.contract)

/-- what `addTokens` builds: the four entries of every token of the document, nothing else touched -/
structure Built (tb tb' : Tables) (l : List Token) : Prop where
  tok  : ∀ t ∈ l, AMap.get? tb'.tokens t.symbol = some t
  mu   : ∀ t ∈ l, AMap.get? tb'.minUnits t.minUnit = some t.symbol
  own  : ∀ t ∈ l, t.owner ≠ "" → AMap.get? tb'.owners (t.owner, t.symbol) = some t.symbol
  ctr  : ∀ t ∈ l, t.contract ≠ 0 → AMap.get? tb'.contracts t.contract = some t.symbol
  tok' : ∀ k, (∀ t ∈ l, t.symbol ≠ k) → AMap.get? tb'.tokens k = AMap.get? tb.tokens k
  mu'  : ∀ k, (∀ t ∈ l, t.minUnit ≠ k) → AMap.get? tb'.minUnits k = AMap.get? tb.minUnits k
  own' : ∀ k, (∀ t ∈ l, t.owner = "" ∨ (t.owner, t.symbol) ≠ k) → AMap.get? tb'.owners k = AMap.get? tb.owners k
  ctr' : ∀ k, (∀ t ∈ l, t.contract = 0 ∨ t.contract ≠ k) → AMap.get? tb'.contracts k = AMap.get? tb.contracts k

theorem addTokens_spec : ∀ (l : List Token) (tb : Tables), Fresh tb l → Distinct l →
    ∃ tb', addTokens tb l = some tb' ∧ Built tb tb' l
  | [], tb, _, _ => ⟨tb, rfl, ⟨by simp, by simp, by simp, by simp, fun _ _ => rfl, fun _ _ => rfl, fun _ _ => rfl, fun _ _ => rfl⟩⟩
  | t0 :: rest, tb, hf, hd => by
    obtain ⟨f1, f2, f3⟩ := hf t0 List.mem_cons_self
    rw [Distinct, List.pairwise_cons] at hd
    obtain ⟨hd0, hdr⟩ := hd
    have c1 : AMap.contains tb.tokens t0.symbol = false := by simp [AMap.contains, f1]
    have c2 : AMap.contains tb.minUnits t0.minUnit = false := by simp [AMap.contains, f2]
    have c3 : ¬ (t0.contract ≠ 0 ∧ AMap.contains tb.contracts t0.contract = true) := by
      rintro ⟨h0, hc⟩; simp [AMap.contains, f3 h0] at hc
    let tb1 : Tables :=
      { tokens := AMap.set tb.tokens t0.symbol t0,
        minUnits := AMap.set tb.minUnits t0.minUnit t0.symbol,
        owners := if t0.owner = "" then tb.owners else AMap.set tb.owners (t0.owner, t0.symbol) t0.symbol,
        contracts := if t0.contract = 0 then tb.contracts else AMap.set tb.contracts t0.contract t0.symbol }
    have hadd : addToken tb t0 = some tb1 := by
      unfold addToken; simp [c1, c2, c3, tb1]
    have hf1 : Fresh tb1 rest := by
      intro t ht
      obtain ⟨g1, g2, g3⟩ := hf t (List.mem_cons_of_mem _ ht)
      obtain ⟨d1, d2, d3⟩ := hd0 t ht
      refine ⟨by simp only [tb1]; rw [AMap.get?_set_other _ _ _ _ d1]; exact g1,
              by simp only [tb1]; rw [AMap.get?_set_other _ _ _ _ d2]; exact g2, ?_⟩
      intro hc
      simp only [tb1]
      split
      · exact g3 hc
      · rename_i h0
        rw [AMap.get?_set_other _ _ _ _ (d3 h0)]; exact g3 hc
    obtain ⟨tb', hrest, hb⟩ := addTokens_spec rest tb1 hf1 hdr
    refine ⟨tb', by simp only [addTokens, hadd]; exact hrest, ?_⟩
    have hne_sym : ∀ t ∈ rest, t.symbol ≠ t0.symbol := fun t ht => Ne.symm (hd0 t ht).1
    have hne_mu : ∀ t ∈ rest, t.minUnit ≠ t0.minUnit := fun t ht => Ne.symm (hd0 t ht).2.1
    constructor
    · intro t ht
      rcases List.mem_cons.mp ht with rfl | ht
      · rw [hb.tok' _ hne_sym]; exact AMap.get?_set_self _ _ _
      · exact hb.tok t ht
    · intro t ht
      rcases List.mem_cons.mp ht with rfl | ht
      · rw [hb.mu' _ hne_mu]; exact AMap.get?_set_self _ _ _
      · exact hb.mu t ht
    · intro t ht ho
      rcases List.mem_cons.mp ht with rfl | ht
      · rw [hb.own' _ (fun t' ht' => Or.inr (fun e => hne_sym t' ht' (congrArg Prod.snd e)))]
        simp only [tb1, ho, if_false]; exact AMap.get?_set_self _ _ _
      · exact hb.own t ht ho
    · intro t ht hc
      rcases List.mem_cons.mp ht with rfl | ht
      · rw [hb.ctr' _ (fun t' ht' => by
          by_cases h0 : t'.contract = 0
          · exact Or.inl h0
          · exact Or.inr (Ne.symm ((hd0 t' ht').2.2 hc)))]
        simp only [tb1, hc, if_false]; exact AMap.get?_set_self _ _ _
      · exact hb.ctr t ht hc
    · intro k hk
      rw [hb.tok' k (fun t ht => hk t (List.mem_cons_of_mem _ ht))]
      exact AMap.get?_set_other _ _ _ _ (hk t0 List.mem_cons_self)
    · intro k hk
      rw [hb.mu' k (fun t ht => hk t (List.mem_cons_of_mem _ ht))]
      exact AMap.get?_set_other _ _ _ _ (hk t0 List.mem_cons_self)
    · intro k hk
      rw [hb.own' k (fun t ht => hk t (List.mem_cons_of_mem _ ht))]
      simp only [tb1]
      split
      · rfl
      · rename_i ho
        rcases hk t0 List.mem_cons_self with e | e
        · exact absurd e ho
        · exact AMap.get?_set_other _ _ _ _ e
    · intro k hk
      rw [hb.ctr' k (fun t ht => hk t (List.mem_cons_of_mem _ ht))]
      simp only [tb1]
      split
      · rfl
      · rename_i hc
        rcases hk t0 List.mem_cons_self with e | e
        · exact absurd e hc
        · exact AMap.get?_set_other _ _ _ _ e

/-! ### `AddBurnCoin` folded over a document -/

theorem addBurned_spec : ∀ (l : List (String × Nat)) (m : AMap String Nat),
    (l.map (·.1)).Nodup → (∀ e ∈ l, AMap.get? m e.1 = none) →
    (∀ e ∈ l, AMap.get? (addBurned m l) e.1 = some e.2) ∧
    (∀ k, (∀ e ∈ l, e.1 ≠ k) → AMap.get? (addBurned m l) k = AMap.get? m k)
  | [], m, _, _ => ⟨by simp, fun _ _ => rfl⟩
  | (d, n) :: rest, m, hn, hf => by
    rw [List.map_cons, List.nodup_cons] at hn
    have hd : AMap.get? m d = none := hf (d, n) List.mem_cons_self
    have hne : ∀ e ∈ rest, e.1 ≠ d := fun e he heq => hn.1 (List.mem_map.mpr ⟨e, he, heq⟩)
    have hf1 : ∀ e ∈ rest, AMap.get? (AMap.set m d (AMap.getD m d 0 + n)) e.1 = none := by
      intro e he
      rw [AMap.get?_set_other _ _ _ _ (Ne.symm (hne e he))]
      exact hf e (List.mem_cons_of_mem _ he)
    obtain ⟨ha, hb⟩ := addBurned_spec rest _ hn.2 hf1
    constructor
    · intro e he
      rcases List.mem_cons.mp he with rfl | he
      · simp only [addBurned]
        rw [hb _ hne, AMap.get?_set_self]
        simp [AMap.getD, hd]
      · exact ha e he
    · intro k hk
      simp only [addBurned]
      rw [hb k (fun e he => hk e (List.mem_cons_of_mem _ he))]
      exact AMap.get?_set_other _ _ _ _ (hk (d, n) List.mem_cons_self)

/-! ### the round trip -/

/-- the contract index and the token table agree (what `DeployERC20` establishes; `BoundInv` of C10) -/
structure CtrOK (s : State) : Prop where
  fwd : ∀ sym t, AMap.get? s.tokens sym = some t → t.contract ≠ 0 → AMap.get? s.contracts t.contract = some sym
  bwd : ∀ c sym, AMap.get? s.contracts c = some sym → ∃ t, AMap.get? s.tokens sym = some t ∧ t.contract = c ∧ c ≠ 0

theorem isAddr_ne_empty {a : String} (h : isAddr a = true) : a ≠ "" := by
  intro e; subst e; revert h; decide +kernel

theorem distinct_export (s : State) (hwf : WF s) (hc : CtrOK s) : Distinct (exportTokens s) := by
  unfold Distinct exportTokens
  refine List.Pairwise.filterMap _ ?_ (nodup_sortDedup (AMap.keys s.tokens))
  intro a a' hne b hb b' hb'
  have ha : AMap.get? s.tokens a = some b := hb
  have ha' : AMap.get? s.tokens a' = some b' := hb'
  have e1 := (hwf.1 a b ha).1
  have e2 := (hwf.1 a' b' ha').1
  refine ⟨by rw [e1, e2]; exact hne, ?_, ?_⟩
  · intro e
    exact hne (Props.C09.minUnit_identifies_one_token hwf ha ha' e).1
  · intro h0 e
    have x := hc.fwd a b ha h0
    have y := hc.fwd a' b' ha' (by rw [← e]; exact h0)
    rw [e, y] at x
    cases x; exact hne rfl

/-- the four tables `InitGenesis` rebuilds from the exported tokens answer every lookup like the
exported state's -/
theorem import_tables (s : State) (hwf : WF s) (hown : OwnIdx s) (hc : CtrOK s) (hg : GenOK s) :
    ∃ tb, addTokens {} (exportTokens s) = some tb ∧
      (∀ k, AMap.get? tb.tokens k = AMap.get? s.tokens k) ∧ (∀ k, AMap.get? tb.minUnits k = AMap.get? s.minUnits k) ∧
      (∀ k, AMap.get? tb.owners k = AMap.get? s.owners k) ∧ (∀ k, AMap.get? tb.contracts k = AMap.get? s.contracts k) := by
  obtain ⟨tb, hadd, hb⟩ := addTokens_spec (exportTokens s) {} (by intro t _; simp) (distinct_export s hwf hc)
  -- lookups of the rebuilt tables
  have etok : ∀ k, AMap.get? tb.tokens k = AMap.get? s.tokens k := by
    intro k
    cases hk : AMap.get? s.tokens k with
    | some t =>
      have := hb.tok t (exportTokens_mem_of_get hk)
      rw [(hwf.1 k t hk).1] at this; exact this
    | none =>
      rw [hb.tok' k]; · rfl
      intro t ht e
      obtain ⟨sym, hs⟩ := mem_exportTokens ht
      rw [(hwf.1 sym t hs).1] at e; subst e
      rw [hs] at hk; cases hk
  have emu : ∀ k, AMap.get? tb.minUnits k = AMap.get? s.minUnits k := by
    intro k
    cases hk : AMap.get? s.minUnits k with
    | some sym =>
      obtain ⟨t, ht, hm⟩ := hwf.2 k sym hk
      have := hb.mu t (exportTokens_mem_of_get ht)
      rw [hm, (hwf.1 sym t ht).1] at this; exact this
    | none =>
      rw [hb.mu' k]; · rfl
      intro t ht e
      obtain ⟨sym, hs⟩ := mem_exportTokens ht
      have := (hwf.1 sym t hs).2
      rw [e, hk] at this; cases this
  have eown : ∀ k, AMap.get? tb.owners k = AMap.get? s.owners k := by
    intro k
    obtain ⟨o, sym⟩ := k
    cases hk : AMap.get? s.owners (o, sym) with
    | some v =>
      obtain ⟨hv, t, ht, ho⟩ := hown.2 o sym v hk
      have hne : t.owner ≠ "" := isAddr_ne_empty (hg.fields sym t ht).2.1
      have := hb.own t (exportTokens_mem_of_get ht) hne
      rw [ho, (hwf.1 sym t ht).1] at this
      rw [hv]; exact this
    | none =>
      rw [hb.own' (o, sym)]; · rfl
      intro t ht
      refine Or.inr ?_
      intro e
      obtain ⟨sym', hs⟩ := mem_exportTokens ht
      have hsym := (hwf.1 sym' t hs).1
      have := hown.1 sym' t hs
      rw [← hsym, e, hk] at this; cases this
  have ectr : ∀ k, AMap.get? tb.contracts k = AMap.get? s.contracts k := by
    intro k
    cases hk : AMap.get? s.contracts k with
    | some sym =>
      obtain ⟨t, ht, hct, h0⟩ := hc.bwd k sym hk
      have := hb.ctr t (exportTokens_mem_of_get ht) (by rw [hct]; exact h0)
      rw [hct, (hwf.1 sym t ht).1] at this; exact this
    | none =>
      rw [hb.ctr' k]; · rfl
      intro t ht
      by_cases h0 : t.contract = 0
      · exact Or.inl h0
      · refine Or.inr ?_
        intro e
        obtain ⟨sym, hs⟩ := mem_exportTokens ht
        have := hc.fwd sym t hs h0
        rw [e, hk] at this; cases this
  exact ⟨tb, hadd, etok, emu, eown, ectr⟩

/-- the burned tallies `InitGenesis` rebuilds answer every lookup like the exported state's -/
theorem import_burned (s : State) : ∀ d, AMap.get? (addBurned [] (exportBurned s)) d = AMap.get? s.burned d := by
  -- the burned tallies
  have hbn : ((exportBurned s).map (·.1)).Nodup := by
    unfold exportBurned
    rw [List.map_map]
    have : ((fun x : String × Nat => x.1) ∘ fun d => (d, burnedOf s d)) = id := rfl
    rw [this, List.map_id]
    exact nodup_sortDedup _
  obtain ⟨ba, bb⟩ := addBurned_spec (exportBurned s) [] hbn (by intro e _; rfl)
  have eburn : ∀ d, AMap.get? (addBurned [] (exportBurned s)) d = AMap.get? s.burned d := by
    intro d
    cases hk : AMap.get? s.burned d with
    | some n =>
      have hmem : (d, burnedOf s d) ∈ exportBurned s := by
        unfold exportBurned
        exact List.mem_map.mpr ⟨d, (mem_sortDedup _ _).mpr ((mem_keys_iff _ _).mpr ⟨n, hk⟩), rfl⟩
      have := ba _ hmem
      simp only [burnedOf, AMap.getD, hk, Option.getD] at this
      exact this
    | none =>
      rw [bb d]; · rfl
      intro e he heq
      unfold exportBurned at he
      obtain ⟨d', hd', rfl⟩ := List.mem_map.mp he
      simp only at heq; subst heq
      have := (mem_keys_iff _ _).mp ((mem_sortDedup _ _).mp hd')
      obtain ⟨v, hv⟩ := this
      rw [hv] at hk; cases hk
  exact eburn

/-- **round trip of one state**: for a state with consistent tables (`WF`, `OwnIdx`, `CtrOK` — all
invariants of every history) and valid fields, whose tokens all have `maxSupply ≥ initialSupply`
and a valid symbol and min unit and whose base-fee denom is a registered symbol: the export
validates, the import succeeds, every query is preserved and the export is a fixpoint -/
theorem roundtrip (s : State) (hwf : WF s) (hown : OwnIdx s) (hc : CtrOK s) (hg : GenOK s)
    (h9 : maxBelowInit s = false) (h10 : feeDenomUnregistered s = false) (h11 : badIdentity s = false) :
    RoundTrip s := by
  have hval := validate_export s hg hwf h9 h11
  refine ⟨hval, ?_⟩
  obtain ⟨tb, hadd, etok, emu, eown, ectr⟩ := import_tables s hwf hown hc hg
  have eburn := import_burned s
  -- the final assertion of InitGenesis
  have hfee : AMap.contains tb.tokens s.params.feeDenom = true := by
    unfold feeDenomUnregistered at h10
    simp only [Bool.not_eq_false'] at h10
    unfold AMap.contains at h10 ⊢
    rw [etok]; exact h10
  let s' : State := { s with tokens := tb.tokens, minUnits := tb.minUnits, owners := tb.owners,
                             contracts := tb.contracts, burned := addBurned [] (exportBurned s), params := s.params }
  have himp : reimport s = .ok s' := by
    unfold reimport importGenesis
    simp only [hval, Bool.not_true, Bool.false_eq_true, if_false]
    simp only [exportGenesis] at hadd ⊢
    rw [hadd]
    simp [hfee, s']
  have hobs : ObsEq s' s :=
    { tokens := etok, minUnits := emu, owners := eown, contracts := ectr,
      burned := by intro d; simp only [burnedOf, AMap.getD, s']; rw [eburn],
      burnedKeys := by
        intro d
        rw [mem_keys_iff, mem_keys_iff]
        simp only [s']
        rw [eburn],
      params := rfl, bank := rfl, nonce := rfl, evm := rfl, fault := rfl, impl := rfl, env := rfl }
  refine ⟨s', himp, hobs, rfl, ?_, ?_⟩
  · show exportTokens s' = exportTokens s
    unfold exportTokens
    have hk : sortDedup (AMap.keys s'.tokens) = sortDedup (AMap.keys s.tokens) := by
      apply sortDedup_congr
      intro x; rw [mem_keys_iff, mem_keys_iff]; simp only [s']; rw [etok]
    rw [hk]
    have hf : AMap.get? s'.tokens = AMap.get? s.tokens := funext etok
    rw [hf]
  · show exportBurned s' = exportBurned s
    unfold exportBurned
    have hk : sortDedup (AMap.keys s'.burned) = sortDedup (AMap.keys s.burned) :=
      sortDedup_congr hobs.burnedKeys
    rw [hk]
    apply List.map_congr_left
    intro d _
    rw [hobs.burned]

/-- whenever the import of a state's own export succeeds, every query is preserved — with no
assumption on the classes (they only decide *whether* it succeeds) -/
theorem reimport_ok_obsEq (s s' : State) (hwf : WF s) (hown : OwnIdx s) (hc : CtrOK s) (hg : GenOK s)
    (hr : reimport s = .ok s') : ObsEq s' s := by
  obtain ⟨tb, hadd, etok, emu, eown, ectr⟩ := import_tables s hwf hown hc hg
  have eburn := import_burned s
  unfold reimport importGenesis at hr
  split at hr; · cases hr
  have hadd' : addTokens {} (exportGenesis s).tokens = some tb := hadd
  have eburn' : ∀ d, AMap.get? (addBurned [] (exportGenesis s).burned) d = AMap.get? s.burned d := eburn
  rw [hadd'] at hr
  simp only at hr
  cases hfee : AMap.contains tb.tokens (exportGenesis s).params.feeDenom with
  | false => simp [hfee] at hr
  | true =>
  simp only [hfee, Bool.not_true, Bool.false_eq_true, if_false, Except.ok.injEq] at hr
  subst hr
  exact
    { tokens := etok, minUnits := emu, owners := eown, contracts := ectr,
      burned := by intro d; simp only [burnedOf, AMap.getD]; rw [eburn'],
      burnedKeys := by
        intro d
        rw [mem_keys_iff, mem_keys_iff]
        simp only
        rw [eburn'],
      params := rfl, bank := rfl, nonce := rfl, evm := rfl, fault := rfl, impl := rfl, env := rfl }

end Irismod.Proofs.TokenGenesis
