/-
C12 (MT): the exported genesis validates, imports without panic, and the imported store reads
like the exported one. The supply reconstruction (`IncreaseMTSupply` once per balance entry)
is where C15's Σ holders = supply is used: the partial sums stay below the recorded supply
< 2^64, and the final sum is the supply.
-/
import Irismod.Proofs.MtGenesisExport

namespace Irismod.Proofs.MtGenesisImport
open Irismod Irismod.Mt Irismod.MtGenesis Irismod.Spec.C12.Mt Irismod.Spec.C15
open Irismod.Proofs.GenesisList Irismod.Proofs.Mt Irismod.Proofs.MtGenesisExport Irismod.Proofs.MtGenesisWF

/-! ### generic folds of `set` -/

section fold
variable {K V X : Type} [DecidableEq K]

omit [DecidableEq K] in
theorem keys_append (m1 m2 : AMap K V) : AMap.keys (m1 ++ m2) = AMap.keys m1 ++ AMap.keys m2 := by
  simp [AMap.keys]

/-- writing fresh, pairwise distinct keys appends the bindings in order -/
theorem foldl_set_fresh (kf : X → K) (vf : X → V) : ∀ (P : List X) (m0 : AMap K V),
    (P.map kf).Nodup → (∀ x ∈ P, kf x ∉ AMap.keys m0) →
    P.foldl (fun acc x => AMap.set acc (kf x) (vf x)) m0 = m0 ++ P.map (fun x => (kf x, vf x))
  | [], m0, _, _ => by simp
  | x :: t, m0, hn, hf => by
    rw [List.map_cons, List.nodup_cons] at hn
    simp only [List.foldl_cons]
    rw [set_of_not_mem m0 _ _ (hf x (by simp))]
    rw [foldl_set_fresh kf vf t _ hn.2]
    · simp
    · intro y hy
      rw [keys_append, List.mem_append, not_or]
      refine ⟨hf y (List.mem_cons_of_mem _ hy), ?_⟩
      simp only [AMap.keys, List.map_cons, List.map_nil, List.mem_singleton]
      intro e
      exact hn.1 (e ▸ List.mem_map.mpr ⟨y, hy, rfl⟩)

theorem mem_keys_foldl_set (kf : X → K) (vf : X → V) : ∀ (P : List X) (m0 : AMap K V) (k : K),
    k ∈ AMap.keys (P.foldl (fun acc x => AMap.set acc (kf x) (vf x)) m0) ↔
      k ∈ AMap.keys m0 ∨ ∃ x ∈ P, kf x = k
  | [], m0, k => by simp
  | x :: t, m0, k => by
    simp only [List.foldl_cons]
    rw [mem_keys_foldl_set kf vf t _ k, mem_keys_set]
    constructor
    · rintro ((e | h) | ⟨y, hy, e⟩)
      · exact Or.inr ⟨x, by simp, e.symm⟩
      · exact Or.inl h
      · exact Or.inr ⟨y, List.mem_cons_of_mem _ hy, e⟩
    · rintro (h | ⟨y, hy, e⟩)
      · exact Or.inl (Or.inr h)
      · rcases List.mem_cons.mp hy with rfl | hy
        · exact Or.inl (Or.inl e.symm)
        · exact Or.inr ⟨y, hy, e⟩

omit [DecidableEq K] in
theorem length_eq_of_keys_mem {m1 : AMap K V} {l : List K} (h1 : NodupKeys m1) (h2 : l.Nodup)
    (h : ∀ k, k ∈ AMap.keys m1 ↔ k ∈ l) : m1.length = l.length := by
  have := ((List.perm_ext_iff_of_nodup h1 h2).mpr h).length_eq
  simpa [AMap.keys] using this

/-- lookups agree when key presence and defaulted values agree -/
theorem get?_eq_of_getD [Inhabited V] {m1 m2 : AMap K V} (k : K) (d : V)
    (hk : k ∈ AMap.keys m1 ↔ k ∈ AMap.keys m2) (hv : AMap.getD m1 k d = AMap.getD m2 k d) :
    AMap.get? m1 k = AMap.get? m2 k := by
  rw [mem_keys_iff, mem_keys_iff] at hk
  unfold AMap.getD at hv
  cases h1 : AMap.get? m1 k with
  | none =>
    cases h2 : AMap.get? m2 k with
    | none => rfl
    | some v => exact absurd (hk.mpr ⟨v, h2⟩) (by simp [h1])
  | some v =>
    cases h2 : AMap.get? m2 k with
    | none => exact absurd (hk.mp ⟨v, h1⟩) (by simp [h2])
    | some v2 => rw [h1, h2] at hv; simp at hv; rw [hv]

end fold

/-! ### ValidateGenesis on an exported document -/

abbrev TokKey := DenomId × MtId
abbrev BalKey := Addr × DenomId × MtId

def tokOf (e : BalKey × UInt64) : TokKey := (e.1.2.1, e.1.2.2)

def accStep (acc : AMap TokKey UInt64) (e : BalKey × UInt64) : AMap TokKey UInt64 :=
  AMap.set acc (tokOf e) (AMap.getD acc (tokOf e) 0 + e.2)

theorem mtMap2_eq (os : List Owner) : mtMap2 os = (flatOwners os).foldl accStep [] := rfl

theorem mem_keys_acc : ∀ (L : AMap BalKey UInt64) (m0 : AMap TokKey UInt64) (k : TokKey),
    k ∈ AMap.keys (L.foldl accStep m0) ↔ k ∈ AMap.keys m0 ∨ ∃ e ∈ L, tokOf e = k
  | [], m0, k => by simp
  | x :: t, m0, k => by
    simp only [List.foldl_cons]
    rw [mem_keys_acc t _ k]
    unfold accStep
    rw [mem_keys_set]
    constructor
    · rintro ((e | h) | ⟨y, hy, e⟩)
      · exact Or.inr ⟨x, by simp, e.symm⟩
      · exact Or.inl h
      · exact Or.inr ⟨y, List.mem_cons_of_mem _ hy, e⟩
    · rintro (h | ⟨y, hy, e⟩)
      · exact Or.inl (Or.inr h)
      · rcases List.mem_cons.mp hy with rfl | hy
        · exact Or.inl (Or.inl e.symm)
        · exact Or.inr ⟨y, hy, e⟩

theorem nodup_acc : ∀ (L : AMap BalKey UInt64) (m0 : AMap TokKey UInt64),
    NodupKeys m0 → NodupKeys (L.foldl accStep m0)
  | [], _, h => h
  | x :: t, m0, h => by
    simp only [List.foldl_cons]
    exact nodup_acc t _ (nodupKeys_set h _ _)

theorem isTok_tokOf (d : DenomId) (m : MtId) (e : BalKey × UInt64) :
    isTok d m e.1 = decide (tokOf e = (d, m)) := by
  unfold isTok tokOf
  by_cases h1 : e.1.2.1 = d <;> by_cases h2 : e.1.2.2 = m <;> simp [h1, h2]

/-- `mtMap2[k]` is the wrapping sum of the amounts listed for token `k` -/
theorem val_acc (d : DenomId) (m : MtId) : ∀ (L : AMap BalKey UInt64) (m0 : AMap TokKey UInt64),
    (AMap.getD (L.foldl accStep m0) (d, m) 0).toNat =
      ((AMap.getD m0 (d, m) 0).toNat + AMap.sumIf (isTok d m) (fun v => v.toNat) L) % 2 ^ 64
  | [], m0 => by
    have := (AMap.getD m0 (d, m) 0).toNat_lt
    simp only [List.foldl_nil, AMap.sumIf]; omega
  | x :: t, m0 => by
    obtain ⟨k, v⟩ := x
    simp only [List.foldl_cons, AMap.sumIf]
    rw [val_acc d m t _, isTok_tokOf d m (k, v)]
    by_cases hk : tokOf (k, v) = (d, m)
    · have : AMap.getD (accStep m0 (k, v)) (d, m) 0 = AMap.getD m0 (d, m) 0 + v := by
        unfold accStep
        rw [hk]
        simp [AMap.getD, AMap.get?_set_self]
      rw [this, UInt64.toNat_add]
      simp only [hk, decide_true, if_true]
      omega
    · have : AMap.getD (accStep m0 (k, v)) (d, m) 0 = AMap.getD m0 (d, m) 0 := by
        unfold accStep
        simp [AMap.getD, AMap.get?_set_other _ _ _ _ hk]
      rw [this]
      simp only [hk, decide_false]
      simp

/-- Σ over the exported owners = Σ over the balance table = recorded supply -/
theorem sum_flatOwners (s : State) (hw : WF s) (hinv : Inv s) (d : DenomId) (m : MtId) :
    AMap.sumIf (isTok d m) (fun v : UInt64 => v.toNat) (flatOwners (exportOwners s)) = (supplyOf s d m).toNat := by
  rw [sumIf_perm _ _ (flatOwners_perm s hw), ← holdersSum_eq]
  exact hinv d m

theorem mem_keys_mtMap2 (s : State) (hw : WF s) (k : TokKey) :
    k ∈ AMap.keys (mtMap2 (exportOwners s)) ↔ k ∈ AMap.keys s.mts := by
  rw [mtMap2_eq, mem_keys_acc]
  obtain ⟨d, m⟩ := k
  constructor
  · rintro (h | ⟨⟨⟨a, d', m'⟩, v⟩, he, e⟩)
    · simp [AMap.keys] at h
    · cases e
      have : (a, d', m') ∈ AMap.keys s.bal := List.mem_map.mpr ⟨_, (mem_flatOwners s hw _).mp he, rfl⟩
      exact hw.bal_mt a d' m' this
  · intro hk
    obtain ⟨a, ha⟩ := hw.mt_bal d m hk
    obtain ⟨v, hv⟩ := (mem_keys_iff _ _).mp ha
    exact Or.inr ⟨((a, d, m), v), (mem_flatOwners s hw _).mpr (mem_of_get? hv), rfl⟩

theorem mtMap1_export (s : State) :
    mtMap1 (exportCollections s) = (flatMts (exportCollections s)).map (fun e => (e.1, e.2.supply)) := by
  unfold mtMap1
  rw [foldl_set_fresh (fun e : TokKey × MtRec => e.1) (fun e => e.2.supply) _ [] (nodup_flatMts s)
    (by intro x _; simp [AMap.keys])]
  simp

theorem ownersKnown_export (s : State) (hw : WF s) :
    ownersKnown (exportCollections s) (exportOwners s) = true := by
  unfold ownersKnown
  rw [List.all_eq_true]
  intro o ho
  rw [List.all_eq_true]
  intro db hdb
  unfold exportOwners at ho
  rw [List.mem_map] at ho
  obtain ⟨a, ha, rfl⟩ := ho
  simp only [exportDenomBalances, List.mem_map] at hdb
  obtain ⟨d, hd, rfl⟩ := hdb
  simp only
  obtain ⟨m, hm⟩ := (mem_heads _ _).mp hd
  have hk : (a, d, m) ∈ AMap.keys s.bal := (mem_tail _ _ _).mp hm
  have hden : d ∈ AMap.keys s.denoms := hw.mts_denom d m (hw.bal_mt a d m hk)
  have : d ∈ AMap.keys (denomMap1 (exportCollections s)) := by
    unfold denomMap1
    rw [mem_keys_foldl_set (fun c : Collection => c.id) (fun c => c.mts.length)]
    right
    have : d ∈ (exportCollections s).map (·.id) := by rw [ids_export]; exact (mem_sortDedup _ _).mpr hden
    obtain ⟨c, hc, e⟩ := List.mem_map.mp this
    exact ⟨c, hc, e⟩
  obtain ⟨v, hv⟩ := (mem_keys_iff _ _).mp this
  simp [AMap.contains, hv]

/-- **the exported genesis passes `ValidateGenesis`** -/
theorem validate_export (s : State) (hw : WF s) (hinv : Inv s) :
    validateGenesis (exportGenesis s) = .ok () := by
  have h1 := ownersKnown_export s hw
  have h2 : (mtMap1 (exportCollections s)).length = (mtMap2 (exportOwners s)).length := by
    have n2 : NodupKeys (mtMap2 (exportOwners s)) := by
      rw [mtMap2_eq]; exact nodup_acc _ _ (by simp [NodupKeys, AMap.keys])
    rw [length_eq_of_keys_mem n2 hw.nd_mts (mem_keys_mtMap2 s hw), mtMap1_export, List.length_map,
      length_eq_of_keys_mem (nodup_flatMts s) hw.nd_mts (mem_keys_flatMts s hw)]
  have h3 : ((mtMap1 (exportCollections s)).all fun e => AMap.getD (mtMap2 (exportOwners s)) e.1 0 == e.2) = true := by
    rw [List.all_eq_true]
    intro e he
    rw [mtMap1_export, List.mem_map] at he
    obtain ⟨⟨⟨d, m⟩, r⟩, hr, rfl⟩ := he
    obtain ⟨_, rfl⟩ := (mem_flatMts s hw (d, m) r).mp hr
    simp only [beq_iff_eq, mtEntry]
    apply UInt64.toNat_inj.mp
    rw [mtMap2_eq, val_acc d m, sum_flatOwners s hw hinv d m]
    have := (supplyOf s d m).toNat_lt
    have h0 : (AMap.getD ([] : AMap TokKey UInt64) (d, m) 0).toNat = 0 := rfl
    rw [h0]; omega
  unfold validateGenesis exportGenesis
  simp only [h1, h2, h3]
  simp

/-! ### InitGenesis: the collections half -/

theorem importMts_frame (d : DenomId) : ∀ (ms : List MtRec) (s : State),
    (importMts s d ms).denoms = s.denoms ∧ (importMts s d ms).supply = s.supply ∧
    (importMts s d ms).bal = s.bal ∧ (importMts s d ms).denomSeq = s.denomSeq ∧
    (importMts s d ms).mtSeq = s.mtSeq + UInt64.ofNat ms.length
  | [], s => by simp [importMts]
  | m :: t, s => by
    unfold importMts
    obtain ⟨h1, h2, h3, h4, h5⟩ := importMts_frame d t
      { s with denomSupply := AMap.set s.denomSupply d (AMap.getD s.denomSupply d 0 + 1),
               mts := AMap.set s.mts (d, m.id) m.data, mtSeq := s.mtSeq + 1 }
    refine ⟨h1, h2, h3, h4, ?_⟩
    rw [h5, List.length_cons, ofNat_succ, UInt64.add_assoc, UInt64.add_comm 1]

theorem importMts_mts (d : DenomId) : ∀ (ms : List MtRec) (s : State),
    (ms.map (fun m => (d, m.id))).Nodup → (∀ m ∈ ms, (d, m.id) ∉ AMap.keys s.mts) →
    (importMts s d ms).mts = s.mts ++ ms.map (fun m => ((d, m.id), m.data))
  | [], s, _, _ => by simp [importMts]
  | m :: t, s, hn, hf => by
    rw [List.map_cons, List.nodup_cons] at hn
    unfold importMts
    rw [importMts_mts d t _ hn.2]
    · show AMap.set s.mts (d, m.id) m.data ++ _ = _
      rw [set_of_not_mem _ _ _ (hf m (by simp))]
      simp
    · intro m' hm'
      show (d, m'.id) ∉ AMap.keys (AMap.set s.mts (d, m.id) m.data)
      rw [mem_keys_set, not_or]
      refine ⟨?_, hf m' (List.mem_cons_of_mem _ hm')⟩
      intro e
      exact hn.1 (e ▸ List.mem_map.mpr ⟨m', hm', rfl⟩)

theorem importMts_dsup (d : DenomId) : ∀ (ms : List MtRec) (s : State) (d' : DenomId),
    AMap.get? (importMts s d ms).denomSupply d' =
      if d' = d ∧ ms.length ≠ 0 then some (AMap.getD s.denomSupply d 0 + UInt64.ofNat ms.length)
      else AMap.get? s.denomSupply d'
  | [], s, d' => by simp [importMts]
  | m :: t, s, d' => by
    unfold importMts
    rw [importMts_dsup d t _ d']
    have hg : AMap.getD (AMap.set s.denomSupply d (AMap.getD s.denomSupply d 0 + 1)) d 0
        = AMap.getD s.denomSupply d 0 + 1 := by simp [AMap.getD, AMap.get?_set_self]
    simp only [hg, List.length_cons]
    by_cases hd : d' = d
    · subst hd
      by_cases ht : t.length = 0
      · simp only [ht, AMap.get?_set_self]
        simp
      · simp only [ht, ne_eq, not_false_eq_true, and_self, if_true, true_and]
        have : ¬ (t.length + 1 = 0) := by omega
        simp only [this, not_false_eq_true, if_true]
        rw [ofNat_succ, UInt64.add_assoc, UInt64.add_comm 1]
    · have hd2 : ¬ d = d' := fun e => hd e.symm
      simp [hd, AMap.get?_set_other _ _ _ _ hd2]

/-- the collections half of `InitGenesis` on a store that does not know these classes/tokens -/
theorem importCollections_spec : ∀ (cs : List Collection) (s : State),
    (cs.map (·.id)).Nodup → NodupKeys (flatMts cs) →
    (∀ c ∈ cs, c.id ∉ AMap.keys s.denoms) → (∀ k ∈ AMap.keys (flatMts cs), k ∉ AMap.keys s.mts) →
    (∀ c ∈ cs, AMap.get? s.denomSupply c.id = none) →
    (importCollections s cs).denoms = s.denoms ++ flatDenoms cs ∧
    (importCollections s cs).mts = s.mts ++ (flatMts cs).map (fun e => (e.1, e.2.data)) ∧
    (importCollections s cs).supply = s.supply ∧ (importCollections s cs).bal = s.bal ∧
    (importCollections s cs).denomSeq = s.denomSeq ∧
    (importCollections s cs).mtSeq = s.mtSeq + UInt64.ofNat (flatMts cs).length ∧
    (∀ c ∈ cs, AMap.get? (importCollections s cs).denomSupply c.id =
        if c.mts.length = 0 then none else some (UInt64.ofNat c.mts.length)) ∧
    (∀ d', (∀ c ∈ cs, c.id ≠ d') → AMap.get? (importCollections s cs).denomSupply d' = AMap.get? s.denomSupply d')
  | [], s, _, _, _, _, _ => by simp [importCollections, flatDenoms, flatMts]
  | c :: t, s, hid, hmt, hfd, hfm, hfs => by
    rw [List.map_cons, List.nodup_cons] at hid
    have hflat : flatMts (c :: t) = c.mts.map (fun m => ((c.id, m.id), m)) ++ flatMts t := by
      simp [flatMts]
    unfold NodupKeys at hmt
    rw [hflat, keys_append, List.nodup_append] at hmt
    obtain ⟨hmt1, hmt2, hmt3⟩ := hmt
    have hkc : AMap.keys (c.mts.map (fun m => ((c.id, m.id), m))) = c.mts.map (fun m => (c.id, m.id)) := by
      simp [AMap.keys, List.map_map, Function.comp_def]
    rw [hkc] at hmt1 hmt3
    rw [hflat, keys_append, hkc] at hfm
    -- the state after this collection
    have hfr := importMts_frame c.id c.mts { s with denoms := AMap.set s.denoms c.id c.denom }
    have hm1 := importMts_mts c.id c.mts { s with denoms := AMap.set s.denoms c.id c.denom } hmt1
      (fun m hm => hfm _ (List.mem_append_left _ (List.mem_map.mpr ⟨m, hm, rfl⟩)))
    have hds := importMts_dsup c.id c.mts { s with denoms := AMap.set s.denoms c.id c.denom }
    obtain ⟨f1, f2, f3, f4, f5⟩ := hfr
    have hden1 : (importMts { s with denoms := AMap.set s.denoms c.id c.denom } c.id c.mts).denoms
        = s.denoms ++ [(c.id, c.denom)] := by
      rw [f1]; exact set_of_not_mem _ _ _ (hfd c (by simp))
    have ih := importCollections_spec t (importMts { s with denoms := AMap.set s.denoms c.id c.denom } c.id c.mts)
      hid.2 hmt2
      (by
        intro c' hc'
        rw [hden1, keys_append, List.mem_append, not_or]
        refine ⟨hfd c' (List.mem_cons_of_mem _ hc'), ?_⟩
        simp only [AMap.keys, List.map_cons, List.map_nil, List.mem_singleton]
        intro e
        exact hid.1 (e ▸ List.mem_map.mpr ⟨c', hc', rfl⟩))
      (by
        intro k hk
        rw [hm1, keys_append, List.mem_append, not_or]
        refine ⟨hfm k (List.mem_append_right _ hk), ?_⟩
        have : AMap.keys (c.mts.map (fun m => ((c.id, m.id), m.data))) = c.mts.map (fun m => (c.id, m.id)) := by
          simp [AMap.keys, List.map_map, Function.comp_def]
        rw [this]
        intro hk2
        exact hmt3 k hk2 k hk rfl)
      (by
        intro c' hc'
        rw [hds c'.id]
        have hne : ¬ c'.id = c.id := fun e => hid.1 (e ▸ List.mem_map.mpr ⟨c', hc', rfl⟩)
        simp only [hne, false_and, if_false]
        exact hfs c' (List.mem_cons_of_mem _ hc'))
    obtain ⟨i1, i2, i3, i4, i5, i6, i7, i8⟩ := ih
    unfold importCollections
    refine ⟨?_, ?_, ?_, ?_, ?_, ?_, ?_, ?_⟩
    · rw [i1, hden1]; simp [flatDenoms]
    · rw [i2, hm1, hflat]; simp [List.map_map, Function.comp_def]
    · rw [i3, f2]
    · rw [i4, f3]
    · rw [i5, f4]
    · rw [i6, f5, hflat, List.length_append, List.length_map, UInt64.ofNat_add, UInt64.add_assoc]
    · intro c' hc'
      rcases List.mem_cons.mp hc' with rfl | hc'
      · rw [i8 c'.id (fun c'' hc'' e => hid.1 (e ▸ List.mem_map.mpr ⟨c'', hc'', rfl⟩)), hds c'.id]
        have h0 : AMap.getD s.denomSupply c'.id 0 = 0 := by
          simp [AMap.getD, hfs c' (by simp)]
        by_cases hl : c'.mts.length = 0
        · simp only [hl, ne_eq, not_true_eq_false, and_false, if_false, if_true]
          exact hfs c' (by simp)
        · simp only [hl, ne_eq, not_false_eq_true, and_self, if_true, if_false, h0, UInt64.zero_add]
      · exact i7 c' hc'
    · intro d' hd'
      rw [i8 d' (fun c' hc' => hd' c' (List.mem_cons_of_mem _ hc')), hds d']
      have hne : ¬ d' = c.id := fun e => hd' c (by simp) e.symm
      simp only [hne, false_and, if_false]

/-! ### InitGenesis: the balances half -/

/-- the balances half as one loop over the flat entry list -/
def importFlat (s : State) : AMap BalKey UInt64 → R
  | [] => .ok s
  | (k, v) :: t =>
    match importBalance s k.1 k.2.1 k.2.2 v with
    | .error e => .error e
    | .ok s1 => importFlat s1 t

theorem importFlat_append : ∀ (l1 l2 : AMap BalKey UInt64) (s : State),
    importFlat s (l1 ++ l2) = match importFlat s l1 with
      | .error e => .error e
      | .ok s1 => importFlat s1 l2
  | [], l2, s => by simp [importFlat]
  | (k, v) :: t, l2, s => by
    simp only [List.cons_append, importFlat]
    cases importBalance s k.1 k.2.1 k.2.2 v with
    | error e => rfl
    | ok s1 => exact importFlat_append t l2 s1

theorem importBalances_flat (a : Addr) (d : DenomId) : ∀ (bs : List Balance) (s : State),
    importBalances s a d bs = importFlat s (bs.map fun b => ((a, d, b.mtId), b.amount))
  | [], s => rfl
  | b :: t, s => by
    simp only [importBalances, List.map_cons, importFlat]
    cases importBalance s a d b.mtId b.amount with
    | error e => rfl
    | ok s1 => exact importBalances_flat a d t s1

theorem importDenomBalances_flat (a : Addr) : ∀ (ds : List DenomBalance) (s : State),
    importDenomBalances s a ds =
      importFlat s (ds.flatMap fun d => d.balances.map fun b => ((a, d.denomId, b.mtId), b.amount))
  | [], s => rfl
  | d :: t, s => by
    simp only [importDenomBalances, List.flatMap_cons]
    rw [importFlat_append, importBalances_flat]
    cases importFlat s (d.balances.map fun b => ((a, d.denomId, b.mtId), b.amount)) with
    | error e => rfl
    | ok s1 => exact importDenomBalances_flat a t s1

theorem importOwners_flat : ∀ (os : List Owner) (s : State), importOwners s os = importFlat s (flatOwners os)
  | [], s => rfl
  | o :: t, s => by
    simp only [importOwners, flatOwners, List.flatMap_cons]
    rw [importFlat_append, importDenomBalances_flat]
    cases importFlat s (o.denoms.flatMap fun d => d.balances.map fun b => ((o.address, d.denomId, b.mtId), b.amount)) with
    | error e => rfl
    | ok s1 => exact importOwners_flat t s1

theorem increaseSupply_of_le {s : State} {d m} {n : UInt64}
    (h : ¬ (maxU64 - (supplyOf s d m).toNat < n.toNat)) :
    increaseSupply s d m n = .ok { s with supply := AMap.set s.supply (d, m) (supplyOf s d m + n) } := by
  simp [increaseSupply, h]

theorem addBalance_of_le {s : State} {a d m} {n : UInt64}
    (h : ¬ (maxU64 - (balOf s a d m).toNat < n.toNat)) :
    addBalance s a d m n = .ok { s with bal := AMap.set s.bal (a, d, m) (balOf s a d m + n) } := by
  simp [addBalance, h]

/-- importing a duplicate-free entry list whose per-token totals fit in 64 bits: no panic; the
entries are appended to the balance table verbatim; every supply grows by its token's total -/
theorem importFlat_spec : ∀ (L : AMap BalKey UInt64) (s : State),
    NodupKeys L → (∀ k ∈ AMap.keys L, k ∉ AMap.keys s.bal) →
    (∀ d m, (supplyOf s d m).toNat + AMap.sumIf (isTok d m) (fun v => v.toNat) L ≤ maxU64) →
    ∃ s', importFlat s L = .ok s' ∧ s'.denoms = s.denoms ∧ s'.mts = s.mts ∧
      s'.denomSupply = s.denomSupply ∧ s'.denomSeq = s.denomSeq ∧ s'.mtSeq = s.mtSeq ∧
      s'.bal = s.bal ++ L ∧
      (∀ d m, (supplyOf s' d m).toNat = (supplyOf s d m).toNat + AMap.sumIf (isTok d m) (fun v => v.toNat) L) ∧
      (∀ k, k ∈ AMap.keys s'.supply ↔ k ∈ AMap.keys s.supply ∨ ∃ e ∈ L, tokOf e = k)
  | [], s, _, _, _ => ⟨s, rfl, rfl, rfl, rfl, rfl, rfl, by simp, by simp [AMap.sumIf], by simp⟩
  | ((a, d, m), v) :: t, s, hn, hf, hb => by
    unfold NodupKeys AMap.keys at hn
    rw [List.map_cons, List.nodup_cons] at hn
    have hfresh : (a, d, m) ∉ AMap.keys s.bal := hf _ (by simp [AMap.keys])
    have hbal0 : balOf s a d m = 0 := by
      have := (get?_eq_none_iff s.bal (a, d, m)).mpr hfresh
      simp [balOf, AMap.getD, this]
    have hb0 := hb d m
    simp only [AMap.sumIf, isTok, decide_true, Bool.and_self, if_true] at hb0
    have hg1 : ¬ (maxU64 - (supplyOf s d m).toNat < v.toNat) := by omega
    have hv := v.toNat_lt
    have hg2 : ¬ (maxU64 - (balOf s a d m).toNat < v.toNat) := by
      rw [hbal0]; unfold maxU64; have : (0 : UInt64).toNat = 0 := rfl; omega
    -- the state after this entry
    have hstep : importBalance s a d m v = .ok
        { s with supply := AMap.set s.supply (d, m) (supplyOf s d m + v), bal := s.bal ++ [((a, d, m), v)] } := by
      unfold importBalance
      rw [increaseSupply_of_le hg1]
      simp only
      have hbal1 : balOf { s with supply := AMap.set s.supply (d, m) (supplyOf s d m + v) } a d m = 0 := hbal0
      have hg3 : ¬ (maxU64 - (balOf { s with supply := AMap.set s.supply (d, m) (supplyOf s d m + v) } a d m).toNat < v.toNat) := by
        rw [hbal1]; unfold maxU64; have : (0 : UInt64).toNat = 0 := rfl; omega
      rw [addBalance_of_le hg3, hbal1, UInt64.zero_add]
      simp only
      rw [set_of_not_mem _ _ _ hfresh]
    have hsupSelf : (supplyOf s d m + v).toNat = (supplyOf s d m).toNat + v.toNat := add_noWrap _ _ hg1
    obtain ⟨s', e1, e2, e3, e4, e5, e6, e7, e8, e9⟩ := importFlat_spec t
      { s with supply := AMap.set s.supply (d, m) (supplyOf s d m + v), bal := s.bal ++ [((a, d, m), v)] }
      hn.2
      (by
        intro k hk
        show k ∉ AMap.keys (s.bal ++ [((a, d, m), v)])
        rw [keys_append, List.mem_append, not_or]
        refine ⟨hf k (by simp only [AMap.keys, List.map_cons, List.mem_cons]; exact Or.inr hk), ?_⟩
        simp only [AMap.keys, List.map_cons, List.map_nil, List.mem_singleton]
        intro e; subst e; exact hn.1 hk)
      (by
        intro d' m'
        have hb' := hb d' m'
        simp only [AMap.sumIf] at hb'
        by_cases hk : (d, m) = (d', m')
        · cases hk
          show (supplyOf { s with supply := AMap.set s.supply (d, m) (supplyOf s d m + v) } d m).toNat + _ ≤ _
          rw [supplyOf_set_self, hsupSelf]
          simp only [isTok, decide_true, Bool.and_self, if_true] at hb'
          omega
        · show (supplyOf { s with supply := AMap.set s.supply (d, m) (supplyOf s d m + v) } d' m').toNat + _ ≤ _
          rw [supplyOf_set_other _ _ _ _ _ _ hk]
          omega)
    refine ⟨s', ?_, e2, e3, e4, e5, e6, ?_, ?_, ?_⟩
    · simp only [importFlat]
      rw [hstep]
      exact e1
    · rw [e7]; simp
    · intro d' m'
      rw [e8 d' m']
      simp only [AMap.sumIf]
      by_cases hk : (d, m) = (d', m')
      · cases hk
        show (supplyOf { s with supply := AMap.set s.supply (d, m) (supplyOf s d m + v) } d m).toNat + _ = _
        rw [supplyOf_set_self, hsupSelf]
        simp only [isTok, decide_true, Bool.and_self, if_true]
        omega
      · show (supplyOf { s with supply := AMap.set s.supply (d, m) (supplyOf s d m + v) } d' m').toNat + _ = _
        rw [supplyOf_set_other _ _ _ _ _ _ hk]
        have : isTok d' m' (a, d, m) = false := by
          unfold isTok
          by_cases h1 : d = d'
          · by_cases h2 : m = m'
            · subst h1; subst h2; exact absurd rfl hk
            · simp [h2]
          · simp [h1]
        simp only [this]
        simp
    · intro k
      rw [e9 k]
      show k ∈ AMap.keys (AMap.set s.supply (d, m) (supplyOf s d m + v)) ∨ _ ↔ _
      rw [mem_keys_set]
      constructor
      · rintro ((e | h) | ⟨y, hy, e⟩)
        · exact Or.inr ⟨((a, d, m), v), by simp, e.symm⟩
        · exact Or.inl h
        · exact Or.inr ⟨y, List.mem_cons_of_mem _ hy, e⟩
      · rintro (h | ⟨y, hy, e⟩)
        · exact Or.inl (Or.inr h)
        · rcases List.mem_cons.mp hy with rfl | hy
          · exact Or.inl (Or.inl e.symm)
          · exact Or.inr ⟨y, hy, e⟩

end Irismod.Proofs.MtGenesisImport
