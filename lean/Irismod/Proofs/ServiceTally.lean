/-
C07, owner-side vs provider-side tallies (after the repair of `SetOwnerEarnedFees`, /repo 5529ca8):
a per-provider withdrawal — with any number of fee denoms — and an answer keep
`Σ earned fees of the owner's providers = owner-side tally`, per owner and denom.
-/
import Irismod.Proofs.ServiceDelta

namespace Irismod.Proofs.Service
open Irismod Irismod.Sdk Irismod.Service Irismod.Spec.C07

/-- no key occurs twice -/
def KeysNodup {K V : Type} (m : AMap K V) : Prop := (m.map (·.1)).Nodup

/-! ### keys of association lists -/

theorem keys_set {K V : Type} [DecidableEq K] (m : AMap K V) (k : K) (v : V) :
    (AMap.set m k v).map (·.1) = if k ∈ m.map (·.1) then m.map (·.1) else m.map (·.1) ++ [k] := by
  induction m with
  | nil => simp [AMap.set]
  | cons e t ih =>
    obtain ⟨k0, v0⟩ := e
    by_cases hk : k0 = k
    · subst hk; simp [AMap.set]
    · have hk' : ¬ k = k0 := fun e => hk e.symm
      simp only [AMap.set, hk, if_false, List.map_cons, ih, List.mem_cons, hk', false_or]
      split <;> simp

theorem KeysNodup.set {K V : Type} [DecidableEq K] {m : AMap K V} (h : KeysNodup m) (k : K) (v : V) :
    KeysNodup (AMap.set m k v) := by
  unfold KeysNodup at h ⊢
  rw [keys_set]
  split
  · exact h
  · rename_i hk
    rw [List.nodup_append]
    refine ⟨h, by simp, ?_⟩
    intro a ha b hb e
    simp only [List.mem_singleton] at hb
    subst hb; subst e; exact hk ha

theorem KeysNodup.filter {K V : Type} {m : AMap K V} (h : KeysNodup m) (p : K × V → Bool) : KeysNodup (m.filter p) := by
  unfold KeysNodup at h ⊢
  exact List.Nodup.sublist (List.Sublist.map _ List.filter_sublist) h

theorem get?_none_of_not_mem_keys {K V : Type} [DecidableEq K] : ∀ (m : AMap K V) (k : K), k ∉ m.map (·.1) → AMap.get? m k = none
  | [], _, _ => rfl
  | (k0, v0) :: t, k, h => by
    simp only [List.map_cons, List.mem_cons, not_or] at h
    have : ¬ k0 = k := fun e => h.1 e.symm
    simp only [AMap.get?, this, if_false]
    exact get?_none_of_not_mem_keys t k h.2

/-! ### sums over entries -/

theorem coinsIn_entriesOf (m : AMap (Addr × Denom) Nat) (a : Addr) (d : Denom) :
    coinsIn (entriesOf m a) d = AMap.sumIf (fun k : Addr × Denom => k.1 = a && k.2 = d) id m := by
  induction m with
  | nil => rfl
  | cons e t ih =>
    obtain ⟨⟨a0, d0⟩, v⟩ := e
    unfold entriesOf at ih ⊢
    by_cases ha : a0 = a
    · simp only [List.filter_cons, ha, decide_true, if_true, List.map_cons, AMap.sumIf, Bool.true_and]
      rw [coinsIn_cons, ih]
      by_cases hd : d0 = d <;> simp [hd]
    · simp only [List.filter_cons, ha, decide_false, Bool.false_eq_true, if_false, AMap.sumIf, Bool.false_and]
      rw [ih]; simp

/-- the denoms of an account's entries are pairwise different -/
theorem entriesOf_nodup {m : AMap (Addr × Denom) Nat} (h : KeysNodup m) (a : Addr) : ((entriesOf m a).map (·.1)).Nodup := by
  induction m with
  | nil => simp [entriesOf]
  | cons e t ih =>
    obtain ⟨⟨a0, d0⟩, v⟩ := e
    unfold KeysNodup at h
    simp only [List.map_cons, List.nodup_cons] at h
    have ih' := ih h.2
    unfold entriesOf at ih' ⊢
    by_cases ha : a0 = a
    · simp only [List.filter_cons, ha, decide_true, if_true, List.map_cons, List.nodup_cons]
      refine ⟨?_, ih'⟩
      intro hm
      simp only [List.mem_map, List.mem_filter, decide_eq_true_eq] at hm
      obtain ⟨x, ⟨y, ⟨hy, hya⟩, rfl⟩, hx⟩ := hm
      apply h.1
      simp only [List.mem_map]
      refine ⟨y, hy, ?_⟩
      obtain ⟨⟨ya, yd⟩, yv⟩ := y
      simp only at hya hx ⊢
      rw [hya, hx, ha]
    · simp only [List.filter_cons, ha, decide_false, Bool.false_eq_true, if_false]
      exact ih'

theorem coinsIn_zero_of_not_mem : ∀ (c : Coins) (d : Denom), d ∉ c.map (·.1) → coinsIn c d = 0
  | [], _, _ => rfl
  | (d0, n) :: t, d, h => by
    simp only [List.map_cons, List.mem_cons, not_or] at h
    have : ¬ d0 = d := fun e => h.1 e.symm
    rw [coinsIn_cons, coinsIn_zero_of_not_mem t d h.2]
    simp [this]

/-- with pairwise different denoms `AmountOf` (first match) is the sum -/
theorem amountOf_eq_coinsIn : ∀ (c : Coins) (d : Denom), (c.map (·.1)).Nodup → Coins.amountOf c d = coinsIn c d
  | [], _, _ => rfl
  | (d0, n) :: t, d, h => by
    simp only [List.map_cons, List.nodup_cons] at h
    rw [coinsIn_cons]
    by_cases hd : d0 = d
    · subst hd
      rw [coinsIn_zero_of_not_mem t d0 h.1]
      simp [Coins.amountOf, List.find?]
    · have ih := amountOf_eq_coinsIn t d h.2
      unfold Coins.amountOf at ih ⊢
      simp only [List.find?, hd, decide_false, if_false]
      rw [ih]; simp

theorem coinsIn_filter_nonzero (c : Coins) (d : Denom) : coinsIn (c.filter (fun e => decide (e.2 ≠ 0))) d = coinsIn c d := by
  induction c with
  | nil => rfl
  | cons e t ih =>
    obtain ⟨d0, n⟩ := e
    by_cases hn : n = 0
    · subst hn
      simp only [List.filter_cons, ne_eq, not_true_eq_false, decide_false, Bool.false_eq_true, if_false]
      rw [ih, coinsIn_cons]; simp
    · simp only [List.filter_cons, ne_eq, hn, not_false_eq_true, decide_true, if_true]
      rw [coinsIn_cons, coinsIn_cons, ih]

/-- `Coins.Sub` entry-wise -/
theorem coinsIn_sub_map (pe : Coins) : ∀ (oe : Coins) (d : Denom), (oe.map (·.1)).Nodup →
    coinsIn (oe.map (fun e => (e.1, e.2 - Coins.amountOf pe e.1))) d = coinsIn oe d - Coins.amountOf pe d
  | [], d, _ => by simp [coinsIn, AMap.sumIf]
  | (d0, n) :: t, d, h => by
    simp only [List.map_cons, List.nodup_cons] at h
    have ih := coinsIn_sub_map pe t d h.2
    simp only [List.map_cons]
    rw [coinsIn_cons, coinsIn_cons, ih]
    by_cases hd : d0 = d
    · subst hd
      rw [coinsIn_zero_of_not_mem t d0 h.1]
      simp
    · simp [hd]

theorem coinsSub_spec {oe pe diff : Coins} (h : coinsSub oe pe = some diff) (hn : (oe.map (·.1)).Nodup)
    (hp : (pe.map (·.1)).Nodup) (d : Denom) :
    coinsIn diff d = coinsIn oe d - coinsIn pe d ∧ (diff.map (·.1)).Nodup := by
  unfold coinsSub at h
  split at h
  · cases h
  cases h
  refine ⟨?_, ?_⟩
  · rw [coinsIn_filter_nonzero, coinsIn_sub_map pe oe d hn, amountOf_eq_coinsIn pe d hp]
  · have hm : (oe.map (fun e => (e.1, e.2 - Coins.amountOf pe e.1))).map (·.1) = oe.map (·.1) := by
      rw [List.map_map]; rfl
    exact List.Nodup.sublist (List.Sublist.map _ List.filter_sublist) (by rw [hm]; exact hn)

theorem coinsIn_of_sortCoins_eq {a b : Coins} (h : sortCoins a = sortCoins b) (d : Denom) : coinsIn a d = coinsIn b d := by
  rw [← coinsIn_sortCoins a d, ← coinsIn_sortCoins b d, h]

theorem coinsEq_coinsIn {a b : Coins} (h : coinsEq a b = true) (d : Denom) : coinsIn a d = coinsIn b d := by
  unfold coinsEq at h
  simp only [Bool.and_eq_true, decide_eq_true_eq, beq_iff_eq] at h
  exact coinsIn_of_sortCoins_eq h.2 d

/-! ### writing the owner's remaining entries -/

theorem sumIf_setEntries_other (q : Addr × Denom → Bool) (owner : Addr) (hq : ∀ d, q (owner, d) = false) :
    ∀ (c : Coins) (m : AMap (Addr × Denom) Nat), AMap.sumIf q id (setEntries m owner c) = AMap.sumIf q id m
  | [], _ => rfl
  | (d0, n) :: t, m => by
    simp only [setEntries, List.foldl]
    have := sumIf_setEntries_other q owner hq t (AMap.set m (owner, d0) n)
    unfold setEntries at this
    rw [this, AMap.sumIf_set_of_not q id m (owner, d0) n (hq d0)]

theorem sumIf_setEntries_fresh (owner : Addr) (d : Denom) : ∀ (c : Coins) (m : AMap (Addr × Denom) Nat),
    (c.map (·.1)).Nodup → (∀ e, e ∈ c → AMap.get? m (owner, e.1) = none) →
    AMap.sumIf (fun k : Addr × Denom => k.1 = owner && k.2 = d) id (setEntries m owner c) =
      AMap.sumIf (fun k : Addr × Denom => k.1 = owner && k.2 = d) id m + coinsIn c d
  | [], _, _, _ => by simp [setEntries, coinsIn, AMap.sumIf]
  | (d0, n) :: t, m, hn, hf => by
    simp only [List.map_cons, List.nodup_cons] at hn
    simp only [setEntries, List.foldl]
    have ih := sumIf_setEntries_fresh owner d t (AMap.set m (owner, d0) n) hn.2 (by
      intro e he
      have hne : (owner, d0) ≠ (owner, e.1) := by
        intro eq
        have : d0 = e.1 := (Prod.mk.inj eq).2
        exact hn.1 (by rw [this]; exact List.mem_map_of_mem (f := fun x : Denom × Nat => x.1) he)
      rw [AMap.get?_set_other _ _ _ _ hne]
      exact hf e (List.mem_cons_of_mem _ he))
    unfold setEntries at ih
    rw [ih]
    have hs := AMap.sumIf_set (fun k : Addr × Denom => decide (k.1 = owner) && decide (k.2 = d)) (id : Nat → Nat) m (owner, d0) n
    rw [hf (d0, n) (List.mem_cons_self ..)] at hs
    rw [coinsIn_cons]
    by_cases hd : d0 = d
    · simp only [hd, decide_true, Bool.and_self, if_true, Option.map, Option.getD, id] at hs ⊢
      omega
    · simp only [hd, decide_false, Bool.and_false, Bool.false_eq_true, if_false, Option.map, Option.getD] at hs ⊢
      omega

theorem sumIf_eraseAll_self (m : AMap (Addr × Denom) Nat) (owner : Addr) (d : Denom) :
    AMap.sumIf (fun k : Addr × Denom => k.1 = owner && k.2 = d) id (eraseAll m owner) = 0 := by
  induction m with
  | nil => rfl
  | cons e t ih =>
    obtain ⟨⟨a, d0⟩, v⟩ := e
    unfold eraseAll at ih ⊢
    by_cases ha : a = owner
    · simp only [List.filter_cons, ha, ne_eq, not_true_eq_false, decide_false, Bool.false_eq_true, if_false]
      exact ih
    · simp only [List.filter_cons, ne_eq, ha, not_false_eq_true, decide_true, if_true, AMap.sumIf, decide_false,
        Bool.false_and, Bool.false_eq_true, if_false]
      rw [ih]

theorem sumIf_eraseAll_other (q : Addr × Denom → Bool) (a : Addr) (hq : ∀ d, q (a, d) = false)
    (m : AMap (Addr × Denom) Nat) : AMap.sumIf q id (eraseAll m a) = AMap.sumIf q id m := by
  induction m with
  | nil => rfl
  | cons e t ih =>
    obtain ⟨⟨a0, d0⟩, v⟩ := e
    unfold eraseAll at ih ⊢
    by_cases ha : a0 = a
    · subst ha
      simp only [List.filter_cons, ne_eq, not_true_eq_false, decide_false, Bool.false_eq_true, if_false, AMap.sumIf, hq d0]
      rw [ih]; simp
    · simp only [List.filter_cons, ne_eq, ha, not_false_eq_true, decide_true, if_true, AMap.sumIf]
      rw [ih]

theorem get?_eraseAll_self (m : AMap (Addr × Denom) Nat) (a : Addr) (d : Denom) : AMap.get? (eraseAll m a) (a, d) = none := by
  unfold eraseAll
  rw [get?_filter_key (fun k : Addr × Denom => decide (k.1 ≠ a))]
  simp

/-- splitting a sum by one account's entries -/
theorem sumIf_eraseAll_split (q : Addr × Denom → Bool) (p : Addr) (m : AMap (Addr × Denom) Nat) :
    AMap.sumIf q id (eraseAll m p) + AMap.sumIf (fun k => q k && decide (k.1 = p)) id m = AMap.sumIf q id m := by
  induction m with
  | nil => rfl
  | cons e t ih =>
    obtain ⟨⟨a0, d0⟩, v⟩ := e
    unfold eraseAll at ih ⊢
    simp only [ne_eq] at ih
    by_cases ha : a0 = p
    · subst ha
      simp only [List.filter_cons, ne_eq, not_true_eq_false, decide_false, Bool.false_eq_true, if_false, AMap.sumIf,
        decide_true, Bool.and_true]
      split <;> omega
    · simp only [List.filter_cons, ne_eq, ha, not_false_eq_true, decide_true, if_true, AMap.sumIf, decide_false,
        Bool.and_false, Bool.false_eq_true, if_false]
      split <;> omega

/-! ### the two steps that move the tallies -/

/-- **a per-provider withdrawal keeps the tallies in agreement**, whatever the number of fee denoms -/
theorem tally_withdrawProvider {s s' : State} {owner p : Addr} (ht : TallyInv s) (hn1 : KeysNodup s.earned)
    (hn2 : KeysNodup s.oearned) (h : withdrawProvider s owner p = .ok s') :
    TallyInv s' ∧ KeysNodup s'.earned ∧ KeysNodup s'.oearned := by
  unfold withdrawProvider at h
  split at h
  · cases h
  rename_i hown
  have hown' : AMap.get? s.owners p = some owner := Decidable.of_not_not hown
  split at h
  · cases h
  rename_i T hT
  split at h
  · cases h
  cases h
  have hpe := entriesOf_nodup hn1 p
  have hoe := entriesOf_nodup hn2 owner
  -- the new owner-side table
  have hTspec : KeysNodup T ∧ (∀ o d, AMap.sumIf (fun k : Addr × Denom => k.1 = o && k.2 = d) id T =
      if o = owner then coinsIn (entriesOf s.oearned owner) d - coinsIn (entriesOf s.earned p) d
      else AMap.sumIf (fun k : Addr × Denom => k.1 = o && k.2 = d) id s.oearned) := by
    unfold ownerTallyAfter at hT
    split at hT
    · rename_i heq
      cases hT
      refine ⟨hn2.filter _, ?_⟩
      intro o d
      by_cases ho : o = owner
      · subst ho
        rw [if_pos rfl, sumIf_eraseAll_self, coinsEq_coinsIn heq d]; omega
      · rw [if_neg ho]
        exact sumIf_eraseAll_other _ owner (fun d' => by have ho' : ¬ owner = o := fun e => ho e.symm; simp [ho']) _
    · cases hsub : coinsSub (entriesOf s.oearned owner) (entriesOf s.earned p) with
      | none => rw [hsub] at hT; cases hT
      | some diff =>
        rw [hsub] at hT
        simp only [Option.map] at hT
        cases hT
        have hspec := fun d => coinsSub_spec hsub hoe hpe d
        refine ⟨?_, ?_⟩
        · -- keys stay unique under `set`
          have : ∀ (c : Coins) (m : AMap (Addr × Denom) Nat), KeysNodup m → KeysNodup (setEntries m owner c) := by
            intro c
            induction c with
            | nil => intro m hm; exact hm
            | cons e t ih => intro m hm; simp only [setEntries, List.foldl]; exact ih _ (hm.set _ _)
          exact this _ _ (hn2.filter _)
        · intro o d
          by_cases ho : o = owner
          · subst ho
            rw [if_pos rfl, sumIf_setEntries_fresh o d diff (eraseAll s.oearned o) (hspec d).2
              (fun e _ => get?_eraseAll_self _ _ _), sumIf_eraseAll_self, (hspec d).1]
            omega
          · rw [if_neg ho, sumIf_setEntries_other _ owner (fun d' => by have ho' : ¬ owner = o := fun e => ho e.symm; simp [ho'])]
            exact sumIf_eraseAll_other _ owner (fun d' => by have ho' : ¬ owner = o := fun e => ho e.symm; simp [ho']) _
  refine ⟨?_, hn1.filter _, hTspec.1⟩
  intro o d
  have hprov := sumIf_eraseAll_split (fun k : Addr × Denom => decide (k.2 = d) && ownedBy s o k.1) p s.earned
  have hinv := ht o d
  unfold providersEarned ownerEarned at hinv
  show AMap.sumIf (fun k : Addr × Denom => decide (k.2 = d) && ownedBy s o k.1) id (eraseAll s.earned p) =
    AMap.sumIf (fun k : Addr × Denom => decide (k.1 = o) && decide (k.2 = d)) id T
  rw [hTspec.2 o d]
  -- the provider's share of the owner's provider-side total
  have hshare : AMap.sumIf (fun k : Addr × Denom => (decide (k.2 = d) && ownedBy s o k.1) && decide (k.1 = p)) id s.earned =
      if o = owner then coinsIn (entriesOf s.earned p) d else 0 := by
    rw [coinsIn_entriesOf]
    by_cases ho : o = owner
    · subst ho
      rw [if_pos rfl]
      congr 1
      funext k
      by_cases hk : k.1 = p
      · have hob : ownedBy s o p = true := by unfold ownedBy; rw [hown']; simp
        simp [hk, hob, Bool.and_comm]
      · simp [hk]
    · rw [if_neg ho]
      have hz : ∀ k : Addr × Denom, ((decide (k.2 = d) && ownedBy s o k.1) && decide (k.1 = p)) = false := by
        intro k
        by_cases hk : k.1 = p
        · have : ownedBy s o k.1 = false := by
            unfold ownedBy; rw [hk, hown']
            simp only [beq_eq_false_iff_ne, ne_eq, Option.some.injEq]
            exact fun e => ho e.symm
          simp [this]
        · simp [hk]
      clear hprov hinv
      induction s.earned with
      | nil => rfl
      | cons e t ih => simp only [AMap.sumIf, hz e.1, Bool.false_eq_true, if_false, ih, Nat.zero_add]
  rw [hshare] at hprov
  by_cases ho : o = owner
  · subst ho
    simp only [if_true] at hprov ⊢
    rw [← coinsIn_entriesOf] at hinv
    omega
  · simp only [ho, if_false] at hprov ⊢
    omega

/-- **an answer raises both tallies by the same amount**: provider-side entry of the answering provider and
owner-side entry of its owner -/
theorem tally_bump {s : State} (ht : TallyInv s) {p o : Addr} (ho : AMap.get? s.owners p = some o) (d0 : Denom) (n : Nat)
    (s' : State) (e1 : s'.earned = bump s.earned p d0 n) (e2 : s'.oearned = bump s.oearned o d0 n)
    (e3 : s'.owners = s.owners) : TallyInv s' := by
  intro o' d
  have hinv := ht o' d
  unfold providersEarned ownerEarned ownedBy at hinv ⊢
  rw [e1, e2, e3]
  unfold bump
  split
  · exact hinv
  · have h1 := AMap.sumIf_set (fun k : Addr × Denom => decide (k.2 = d) && (AMap.get? s.owners k.1 == some o')) (id : Nat → Nat)
      s.earned (p, d0) (AMap.getD s.earned (p, d0) 0 + n)
    have h2 := AMap.sumIf_set (fun k : Addr × Denom => decide (k.1 = o') && decide (k.2 = d)) (id : Nat → Nat)
      s.oearned (o, d0) (AMap.getD s.oearned (o, d0) 0 + n)
    have hb1 : ((AMap.get? s.earned (p, d0)).map (id : Nat → Nat)).getD 0 = AMap.getD s.earned (p, d0) 0 := by
      unfold AMap.getD; cases AMap.get? s.earned (p, d0) <;> simp
    have hb2 : ((AMap.get? s.oearned (o, d0)).map (id : Nat → Nat)).getD 0 = AMap.getD s.oearned (o, d0) 0 := by
      unfold AMap.getD; cases AMap.get? s.oearned (o, d0) <;> simp
    rw [hb1] at h1
    rw [hb2] at h2
    simp only [ho] at h1
    by_cases hd : d0 = d
    · by_cases hoo : o = o'
      · subst hd; subst hoo
        simp only [decide_true, Bool.and_self, beq_self_eq_true, if_true, id] at h1 h2
        omega
      · have hne : (some o == some o') = false := by simp [hoo]
        have hne2 : decide (o = o') = false := by simp [hoo]
        simp only [hne, hne2, Bool.and_false, Bool.false_and, Bool.false_eq_true, if_false] at h1 h2
        omega
    · simp only [hd, decide_false, Bool.false_and, Bool.and_false, Bool.false_eq_true, if_false] at h1 h2
      omega

end Irismod.Proofs.Service
