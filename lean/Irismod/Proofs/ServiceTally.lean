/-
C07, owner-side vs provider-side tallies: with a single fee denom a per-provider withdrawal lowers the
owner-side tally by exactly what the provider had earned (the partial statement that F-svc-2 leaves
true), and an answer raises both tallies by the same amount.
-/
import Irismod.Proofs.ServiceDelta

namespace Irismod.Proofs.Service
open Irismod Irismod.Sdk Irismod.Service Irismod.Spec.C07

/-- no key occurs twice -/
def KeysNodup {K V : Type} (m : AMap K V) : Prop := (m.map (·.1)).Nodup

/-- with one denom per table and unique keys, the entries of an account are at most one coin -/
theorem entriesOf_single (d0 : Denom) : ∀ (m : AMap (Addr × Denom) Nat) (a : Addr), KeysNodup m →
    (∀ e, e ∈ m → e.1.2 = d0) →
    entriesOf m a = (match AMap.get? m (a, d0) with | some v => [(d0, v)] | none => [])
  | [], _, _, _ => rfl
  | ((a', d'), v) :: t, a, hn, hd => by
    have hd' : d' = d0 := hd ((a', d'), v) (List.mem_cons_self ..)
    subst hd'
    unfold KeysNodup at hn
    simp only [List.map_cons, List.nodup_cons] at hn
    have ih := entriesOf_single d' t a hn.2 (fun e he => hd e (List.mem_cons_of_mem _ he))
    unfold entriesOf at ih ⊢
    by_cases ha : a' = a
    · subst ha
      simp only [List.filter_cons, decide_true, if_true, List.map_cons, AMap.get?]
      have hnone : AMap.get? t (a', d') = none := by
        cases hg : AMap.get? t (a', d') with
        | none => rfl
        | some w =>
          exfalso
          apply hn.1
          clear ih hn hd
          induction t with
          | nil => simp [AMap.get?] at hg
          | cons e rest ihr =>
            obtain ⟨k, x⟩ := e
            simp only [AMap.get?] at hg
            split at hg
            · rename_i hk; simp [hk]
            · simp only [List.map_cons, List.mem_cons]; exact Or.inr (ihr hg)
      rw [hnone] at ih
      rw [ih]
    · have hk : ¬ ((a', d') = (a, d')) := fun e => ha (Prod.mk.inj e).1
      simp only [List.filter_cons, ha, decide_false, Bool.false_eq_true, if_false, AMap.get?, hk]
      exact ih

theorem sumIf_key_get? {K : Type} [DecidableEq K] : ∀ (m : AMap K Nat) (k : K), KeysNodup m →
    AMap.sumIf (fun x => decide (x = k)) id m = (AMap.get? m k).getD 0
  | [], _, _ => rfl
  | (k0, v) :: t, k, hn => by
    unfold KeysNodup at hn
    simp only [List.map_cons, List.nodup_cons] at hn
    have ih := sumIf_key_get? t k hn.2
    by_cases hk : k0 = k
    · subst hk
      have hzero : AMap.sumIf (fun x => decide (x = k0)) id t = 0 := by
        clear ih
        have hno := hn.1
        clear hn
        induction t with
        | nil => rfl
        | cons e rest ihr =>
          obtain ⟨k1, w⟩ := e
          simp only [List.map_cons, List.mem_cons, not_or] at hno
          have : ¬ (k1 = k0) := fun e => hno.1 e.symm
          simp only [AMap.sumIf, this, decide_false, Bool.false_eq_true, if_false]
          rw [ihr hno.2]
      simp [AMap.sumIf, AMap.get?, hzero]
    · simp only [AMap.sumIf, hk, decide_false, Bool.false_eq_true, if_false, AMap.get?]
      rw [ih]; simp

theorem ownerEarned_eq_get? (s : State) (o : Addr) (d : Denom) (hn : KeysNodup s.oearned) :
    ownerEarned s o d = (AMap.get? s.oearned (o, d)).getD 0 := by
  unfold ownerEarned
  have := sumIf_key_get? s.oearned (o, d) hn
  rw [← this]
  congr 1
  funext k
  obtain ⟨a, b⟩ := k
  by_cases h1 : a = o
  · by_cases h2 : b = d
    · simp [h1, h2]
    · have : ¬ ((a, b) = (o, d)) := fun e => h2 (Prod.mk.inj e).2
      simp [h1, h2, this]
  · have : ¬ ((a, b) = (o, d)) := fun e => h1 (Prod.mk.inj e).1
    simp [h1, this]

/-- **F-svc-2, the part that holds**: when provider-side and owner-side entries are all in one denom `d0`
(unique keys, positive amounts), an accepted per-provider withdrawal lowers the owner-side tally by
exactly the provider's earned fees -/
theorem withdraw_owner_tally_single_denom {s s' : State} {owner p : Addr} (d0 : Denom)
    (h : withdrawProvider s owner p = .ok s')
    (hn1 : KeysNodup s.earned) (hn2 : KeysNodup s.oearned)
    (hd1 : ∀ e, e ∈ s.earned → e.1.2 = d0) (hd2 : ∀ e, e ∈ s.oearned → e.1.2 = d0)
    (hpos : ∀ e, e ∈ s.earned → 0 < e.2) (hpos2 : ∀ e, e ∈ s.oearned → 0 < e.2) :
    (AMap.get? s'.oearned (owner, d0)).getD 0 + (AMap.get? s.earned (p, d0)).getD 0 =
      (AMap.get? s.oearned (owner, d0)).getD 0 := by
  unfold withdrawProvider at h
  split at h
  · cases h
  split at h
  · cases h
  rename_i oe' hto
  split at h
  · cases h
  cases h
  simp only
  unfold ownerTallyAfter at hto
  rw [entriesOf_single d0 s.earned p hn1 hd1, entriesOf_single d0 s.oearned owner hn2 hd2] at hto
  have getpos : ∀ (m : AMap (Addr × Denom) Nat) k v, AMap.get? m k = some v → (k, v) ∈ m := by
    intro m
    induction m with
    | nil => intro k v hg; simp [AMap.get?] at hg
    | cons e t ih =>
      intro k v hg
      obtain ⟨k0, v0⟩ := e
      simp only [AMap.get?] at hg
      split at hg
      · rename_i hk; cases hg; subst hk; exact List.mem_cons_self ..
      · exact List.mem_cons_of_mem _ (ih k v hg)
  cases hpe : AMap.get? s.earned (p, d0) with
  | none =>
    cases hoe : AMap.get? s.oearned (owner, d0) with
    | none =>
      rw [hpe, hoe] at hto
      simp only [coinsEq, sortCoins, List.foldr, List.length_nil, beq_self_eq_true, Bool.and_self, decide_true, if_true] at hto
      cases hto
      simp only [Option.getD]
      have : AMap.get? (eraseAll s.oearned owner) (owner, d0) = none := by
        unfold eraseAll
        rw [get?_filter_key (fun k : Addr × Denom => decide (k.1 ≠ owner))]
        simp
      rw [this]
    | some y =>
      rw [hpe, hoe] at hto
      have hy : 0 < y := hpos2 _ (getpos _ _ _ hoe)
      simp only [coinsEq, List.length_nil, List.length_cons, Nat.zero_ne_add_one, decide_false, Bool.false_and,
        Bool.false_eq_true, if_false, coinsSub, List.any_nil, List.map, Coins.amountOf, List.find?, Option.map,
        Option.getD, Nat.sub_zero, List.filter, Option.some.injEq] at hto
      have hne : (decide (y ≠ 0)) = true := by simp; omega
      simp only [hne] at hto
      subst hto
      simp only [setEntries, List.foldl, Option.getD]
      rw [AMap.get?_set_self]
      simp
  | some x =>
    have hx : 0 < x := hpos _ (getpos _ _ _ hpe)
    cases hoe : AMap.get? s.oearned (owner, d0) with
    | none =>
      rw [hpe, hoe] at hto
      simp [coinsEq, coinsSub, Coins.amountOf, hx] at hto
    | some y =>
      rw [hpe, hoe] at hto
      by_cases hxy : x = y
      · subst hxy
        simp only [coinsEq, sortCoins, List.foldr, insertCoin, List.length_cons, List.length_nil, beq_self_eq_true,
          Bool.and_self, decide_true, if_true] at hto
        cases hto
        have : AMap.get? (eraseAll s.oearned owner) (owner, d0) = none := by
          unfold eraseAll
          rw [get?_filter_key (fun k : Addr × Denom => decide (k.1 ≠ owner))]
          simp
        rw [this]; simp
      · have hne : ¬ ((d0, x) = (d0, y)) := fun e => hxy (Prod.mk.inj e).2
        have hce : coinsEq [(d0, x)] [(d0, y)] = false := by
          simp [coinsEq, sortCoins, insertCoin, hne]
        rw [hce] at hto
        simp only [Bool.false_eq_true, if_false, coinsSub, List.any_cons, List.any_nil, Coins.amountOf, List.find?,
          decide_true, Option.map, Option.getD, Bool.or_false, List.map] at hto
        by_cases hlt : y < x
        · simp [hlt] at hto
        · have hd : decide (y < x) = false := by simp; omega
          simp only [hd, Bool.false_eq_true, if_false, Option.some.injEq, List.filter] at hto
          have hnz : decide (y - x ≠ 0) = true := by simp; omega
          simp only [hnz] at hto
          subst hto
          simp only [setEntries, List.foldl, Option.getD]
          rw [AMap.get?_set_self]
          simp; omega

end Irismod.Proofs.Service
