/-
Monitor soundness for the service module — the line invariant `SInv` of `ServiceMonitorBase` is kept by every
operation line (`sinv_apply`) and holds on an unused chain (`sinv_genesis`).

Three of its five fields are existing theorems (`Reach`, `NS`, and `ActPast` from `apply_grows`).  The two new
invariants are carried through every handler of `Model/Service.lean` here:
 * `RespInv` — the response table has unique keys and records only requests that are no longer active and were
   issued in a past block;
 * `Awaits` — a stored context with a running batch has an expired-batch marker, a running context has an
   expired-batch or a new-batch marker.
Both are kept by every handler unconditionally (no well-formedness needed): every scheduler handler touches the
context, the two markers of ONE context id only (`Loc`), and re-establishes the two clauses at that id (`AtOk`).
A further invariant `CtxsNodup` (unique keys of the context table) is carried along; it turns `Awaits` into the
Boolean `List.all` form the C13 monitor evaluates (`awaits_exp_bool`, `awaits_any_bool`).
-/
import Irismod.Proofs.ServiceMonitorBase

namespace Irismod.Proofs.ServiceMonitor
open Irismod Irismod.Sdk Irismod.Service Irismod.Proofs.Service Irismod.Proofs.ServiceGenesis

/-! ### association-list facts -/

theorem erase_sublist {K V : Type} [DecidableEq K] (m : AMap K V) (k : K) : (AMap.erase m k).Sublist m := by
  induction m with
  | nil => exact List.Sublist.refl _
  | cons hd t ih =>
    obtain ⟨k0, v0⟩ := hd
    simp only [AMap.erase]
    split
    · exact List.Sublist.cons _ ih
    · exact List.Sublist.cons_cons _ ih

theorem keysNodup_sublist {K V : Type} {m m' : AMap K V} (h : KeysNodup m) (hs : m'.Sublist m) : KeysNodup m' :=
  List.Nodup.sublist (List.Sublist.map _ hs) h

theorem keysNodup_erase {K V : Type} [DecidableEq K] {m : AMap K V} (h : KeysNodup m) (k : K) :
    KeysNodup (AMap.erase m k) :=
  keysNodup_sublist h (erase_sublist m k)

/-- with unique keys every list entry is the one `get?` finds -/
theorem get?_of_mem_nodup {K V : Type} [DecidableEq K] : ∀ (m : AMap K V), KeysNodup m → ∀ (k : K) (v : V),
    (k, v) ∈ m → AMap.get? m k = some v
  | [], _, _, _, h => by cases h
  | (k0, v0) :: t, hn, k, v, h => by
    unfold KeysNodup at hn
    rw [List.map_cons, List.nodup_cons] at hn
    rcases List.mem_cons.mp h with h | h
    · cases h; simp [AMap.get?]
    · have hne : ¬ k0 = k := by
        intro e; subst e
        exact hn.1 (List.mem_map.mpr ⟨(k0, v), h, rfl⟩)
      simp only [AMap.get?, hne, if_false]
      exact get?_of_mem_nodup t hn.2 k v h

theorem contains_set_self {K V : Type} [DecidableEq K] (m : AMap K V) (k : K) (v : V) :
    AMap.contains (AMap.set m k v) k = true :=
  (contains_iff _ _).mpr ⟨v, AMap.get?_set_self _ _ _⟩

/-! ### the context table has unique keys -/

/-- no context id is stored twice -/
def CtxsNodup (s : State) : Prop := KeysNodup s.ctxs

/-- no context id has two new-batch markers or two expired-batch markers -/
def MarkersNodup (s : State) : Prop := KeysNodup s.newH ∧ KeysNodup s.expH

theorem mem_get?_of_nodup {K V : Type} [DecidableEq K] {m : AMap K V} (h : KeysNodup m) {k : K} {v : V}
    (hm : (k, v) ∈ m) : AMap.get? m k = some v :=
  get?_of_mem_nodup m h k v hm

theorem mem_ctxs_get? {s : State} (h : CtxsNodup s) {id : CtxId} {c : Ctx} (hm : (id, c) ∈ s.ctxs) :
    AMap.get? s.ctxs id = some c :=
  get?_of_mem_nodup s.ctxs h id c hm

/-! ### the two clauses of `Awaits` at one context id -/

def AtOk (s : State) (id : CtxId) : Prop :=
  ∀ c, AMap.get? s.ctxs id = some c →
    (c.batchState = .running → AMap.contains s.expH id = true) ∧
    (c.state = .running → AMap.contains s.expH id = true ∨ AMap.contains s.newH id = true)

theorem Awaits.atOk {s : State} (h : Awaits s) (id : CtxId) : AtOk s id :=
  fun c hg => ⟨h.exp id c hg, h.any id c hg⟩

theorem Awaits.of_atOk {s : State} (h : ∀ id, AtOk s id) : Awaits s :=
  ⟨fun id c hg => (h id c hg).1, fun id c hg => (h id c hg).2⟩

theorem Awaits.of_same {s s' : State} (h : Awaits s) (e1 : s'.ctxs = s.ctxs) (e2 : s'.newH = s.newH)
    (e3 : s'.expH = s.expH) : Awaits s' :=
  ⟨by rw [e1, e3]; exact h.exp, by rw [e1, e2, e3]; exact h.any⟩

/-- a marker for the context exists: both clauses hold whatever the context is -/
theorem atOk_of_exp {s : State} {id : CtxId} (h : AMap.contains s.expH id = true) : AtOk s id :=
  fun _ _ => ⟨fun _ => h, fun _ => Or.inl h⟩

/-- no context stored: nothing to show -/
theorem atOk_of_none {s : State} {id : CtxId} (h : AMap.get? s.ctxs id = none) : AtOk s id := by
  intro c hg; rw [h] at hg; cases hg

/-- the stored context has a completed batch and is running only if a new-batch marker exists -/
theorem atOk_of_done {s : State} {id : CtxId} {c : Ctx} (hg : AMap.get? s.ctxs id = some c)
    (hb : c.batchState = .completed) (hst : c.state = .running → AMap.contains s.newH id = true) : AtOk s id := by
  intro c' hg'
  rw [hg] at hg'; cases hg'
  exact ⟨fun h => by (rw [hb] at h; cases h), fun h => Or.inr (hst h)⟩

/-- the stored context is replaced by one that runs (batch / context) only if the old one did; markers kept -/
theorem atOk_set {s t : State} {id : CtxId} (ha : AtOk s id) {rc : Ctx} (hg : AMap.get? s.ctxs id = some rc) {c : Ctx}
    (e1 : AMap.get? t.ctxs id = some c) (e2 : t.expH = s.expH) (e3 : t.newH = s.newH)
    (hb : c.batchState = .running → rc.batchState = .running) (hst : c.state = .running → rc.state = .running) :
    AtOk t id := by
  intro c' hg'
  rw [e1] at hg'; cases hg'
  rw [e2, e3]
  exact ⟨fun h => (ha rc hg).1 (hb h), fun h => (ha rc hg).2 (hst h)⟩

/-! ### what a handler working on one context id may touch -/

/-- the context, the new-batch marker and the expired-batch marker of other ids are untouched; the context table
keeps unique keys; responses are only removed -/
structure Loc (id : CtxId) (s s' : State) : Prop where
  ctxs : ∀ id', id' ≠ id → AMap.get? s'.ctxs id' = AMap.get? s.ctxs id'
  newH : ∀ id', id' ≠ id → AMap.get? s'.newH id' = AMap.get? s.newH id'
  expH : ∀ id', id' ≠ id → AMap.get? s'.expH id' = AMap.get? s.expH id'
  cn   : KeysNodup s.ctxs → KeysNodup s'.ctxs
  nn   : KeysNodup s.newH → KeysNodup s'.newH
  en   : KeysNodup s.expH → KeysNodup s'.expH
  rs   : s'.resps.Sublist s.resps

theorem Loc.refl (id : CtxId) (s : State) : Loc id s s :=
  ⟨fun _ _ => rfl, fun _ _ => rfl, fun _ _ => rfl, fun h => h, fun h => h, fun h => h, List.Sublist.refl _⟩

theorem Loc.trans {id : CtxId} {a b c : State} (h1 : Loc id a b) (h2 : Loc id b c) : Loc id a c :=
  ⟨fun i hn => (h2.ctxs i hn).trans (h1.ctxs i hn), fun i hn => (h2.newH i hn).trans (h1.newH i hn),
   fun i hn => (h2.expH i hn).trans (h1.expH i hn), fun hn => h2.cn (h1.cn hn), fun hn => h2.nn (h1.nn hn),
   fun hn => h2.en (h1.en hn), h2.rs.trans h1.rs⟩

/-- a further change that leaves the four tables alone -/
theorem Loc.eq {id : CtxId} {s t : State} (h : Loc id s t) (t' : State) (e1 : t'.ctxs = t.ctxs) (e2 : t'.newH = t.newH)
    (e3 : t'.expH = t.expH) (e4 : t'.resps = t.resps) : Loc id s t' :=
  ⟨by rw [e1]; exact h.ctxs, by rw [e2]; exact h.newH, by rw [e3]; exact h.expH, by rw [e1]; exact h.cn,
   by rw [e2]; exact h.nn, by rw [e3]; exact h.en, by rw [e4]; exact h.rs⟩

theorem Loc.of_eq (id : CtxId) {s s' : State} (e1 : s'.ctxs = s.ctxs) (e2 : s'.newH = s.newH)
    (e3 : s'.expH = s.expH) (e4 : s'.resps = s.resps) : Loc id s s' :=
  (Loc.refl id s).eq s' e1 e2 e3 e4

theorem Loc.setCtx {id : CtxId} {s t : State} (h : Loc id s t) (c : Ctx) : Loc id s (setCtx t id c) :=
  ⟨fun id' hne => by
      show AMap.get? (AMap.set t.ctxs id c) id' = _
      rw [AMap.get?_set_other _ _ _ _ (Ne.symm hne)]; exact h.ctxs id' hne,
   h.newH, h.expH, fun hn => (h.cn hn).set id c, h.nn, h.en, h.rs⟩

theorem Loc.eraseCtx {id : CtxId} {s t : State} (h : Loc id s t) : Loc id s (eraseCtx t id) :=
  ⟨fun id' hne => by
      show AMap.get? (AMap.erase t.ctxs id) id' = _
      rw [get?_erase_other _ _ _ (Ne.symm hne)]; exact h.ctxs id' hne,
   h.newH, h.expH, fun hn => keysNodup_erase (h.cn hn) id, h.nn, h.en, h.rs⟩

theorem Loc.addNew {id : CtxId} {s t : State} (h : Loc id s t) (ht : Int) : Loc id s (addNew t id ht) :=
  ⟨h.ctxs, fun id' hne => by
      show AMap.get? (AMap.set t.newH id ht) id' = _
      rw [AMap.get?_set_other _ _ _ _ (Ne.symm hne)]; exact h.newH id' hne,
   h.expH, h.cn, fun hn => (h.nn hn).set id ht, h.en, h.rs⟩

theorem Loc.delNew {id : CtxId} {s t : State} (h : Loc id s t) (ht : Int) : Loc id s (delNew t id ht) :=
  ⟨h.ctxs, fun id' hne => by
      show AMap.get? (AMap.erase t.newH id) id' = _
      rw [get?_erase_other _ _ _ (Ne.symm hne)]; exact h.newH id' hne,
   h.expH, h.cn, fun hn => keysNodup_erase (h.nn hn) id, h.en, h.rs⟩

theorem Loc.addExp {id : CtxId} {s t : State} (h : Loc id s t) (ht : Int) : Loc id s (addExp t id ht) :=
  ⟨h.ctxs, h.newH, fun id' hne => by
      show AMap.get? (AMap.set t.expH id ht) id' = _
      rw [AMap.get?_set_other _ _ _ _ (Ne.symm hne)]; exact h.expH id' hne,
   h.cn, h.nn, fun hn => (h.en hn).set id ht, h.rs⟩

theorem Loc.delExp {id : CtxId} {s t : State} (h : Loc id s t) (ht : Int) : Loc id s (delExp t id ht) :=
  ⟨h.ctxs, h.newH, fun id' hne => by
      show AMap.get? (AMap.erase t.expH id) id' = _
      rw [get?_erase_other _ _ _ (Ne.symm hne)]; exact h.expH id' hne,
   h.cn, h.nn, fun hn => keysNodup_erase (h.en hn) id, h.rs⟩

theorem Loc.cleanBatch {id : CtxId} {s t : State} (h : Loc id s t) (b : Nat) : Loc id s (cleanBatch t id b) :=
  ⟨h.ctxs, h.newH, h.expH, h.cn, h.nn, h.en, (List.filter_sublist).trans h.rs⟩

/-- `Awaits` is kept when one id is worked on and the two clauses hold at that id afterwards -/
theorem Awaits.local {s s' : State} {id : CtxId} (h : Awaits s) (l : Loc id s s') (a : AtOk s' id) : Awaits s' := by
  apply Awaits.of_atOk
  intro id'
  by_cases hi : id' = id
  · subst hi; exact a
  · intro c hg
    rw [l.ctxs id' hi] at hg
    have := h.atOk id' c hg
    unfold AMap.contains at this ⊢
    rw [l.expH id' hi, l.newH id' hi]
    exact this

/-! ### the relations between the state before and after an operation -/

/-- the unconditional invariants are kept -/
structure Step (s s' : State) : Prop where
  cn : CtxsNodup s → CtxsNodup s'
  mn : MarkersNodup s → MarkersNodup s'
  aw : Awaits s → Awaits s'

/-- responses are only removed -/
def RSub (s s' : State) : Prop := s'.resps.Sublist s.resps

theorem Step.refl (s : State) : Step s s := ⟨fun h => h, fun h => h, fun h => h⟩
theorem Step.trans {a b c : State} (h1 : Step a b) (h2 : Step b c) : Step a c :=
  ⟨fun h => h2.cn (h1.cn h), fun h => h2.mn (h1.mn h), fun h => h2.aw (h1.aw h)⟩
theorem RSub.refl (s : State) : RSub s s := List.Sublist.refl _
theorem RSub.trans {a b c : State} (h1 : RSub a b) (h2 : RSub b c) : RSub a c := List.Sublist.trans h2 h1

theorem Step.of_eq {s s' : State} (e1 : s'.ctxs = s.ctxs) (e2 : s'.newH = s.newH) (e3 : s'.expH = s.expH) : Step s s' :=
  ⟨fun h => by unfold CtxsNodup; rw [e1]; exact h, fun h => by unfold MarkersNodup; rw [e2, e3]; exact h,
   fun h => h.of_same e1 e2 e3⟩

theorem RSub.of_eq {s s' : State} (e : s'.resps = s.resps) : RSub s s' := by
  unfold RSub; rw [e]; exact List.Sublist.refl _

/-- a handler on one id that re-establishes the two clauses there -/
def LocOk (id : CtxId) (s s' : State) : Prop := Loc id s s' ∧ (AtOk s id → AtOk s' id)

theorem LocOk.step {id : CtxId} {s s' : State} (h : LocOk id s s') : Step s s' :=
  ⟨h.1.cn, fun m => ⟨h.1.nn m.1, h.1.en m.2⟩, fun a => a.local h.1 (h.2 (a.atOk id))⟩

theorem LocOk.rsub {id : CtxId} {s s' : State} (h : LocOk id s s') : RSub s s' := h.1.rs


/-! ### creating and controlling contexts -/

theorem createState_locOk (s : State) (newId : CtxId) (rc : Ctx) (hb : rc.batchState = .completed) :
    LocOk newId s (createState s newId rc) := by
  unfold createState
  split
  · refine ⟨(((Loc.refl newId s).setCtx rc).eq { setCtx s newId rc with idx := s.idx + 1 } rfl rfl rfl rfl).addNew _, fun _ => ?_⟩
    exact atOk_of_done (c := rc) (AMap.get?_set_self _ _ _) hb (fun _ => contains_set_self _ _ _)
  · rename_i hnr
    refine ⟨((Loc.refl newId s).setCtx rc).eq _ rfl rfl rfl rfl, fun _ => ?_⟩
    exact atOk_of_done (c := rc) (AMap.get?_set_self _ _ _) hb (fun h => absurd h hnr)

theorem createCtx_locOk {s s' : State} {newId svc providers consumer inputOk cap timeout repeated freq total st thr moduleName}
    (h : createCtx s newId svc providers consumer inputOk cap timeout repeated freq total st thr moduleName = .ok s') :
    LocOk newId s s' := by
  unfold createCtx at h
  split at h
  · cases h
  split at h
  · cases h
  split at h
  · cases h
  split at h
  · cases h
  split at h
  · cases h
  cases h
  exact createState_locOk s newId _ rfl

theorem keeperPause_locOk {s s' : State} {id consumer} (h : keeperPause s id consumer = .ok s') : LocOk id s s' := by
  unfold keeperPause at h
  split at h
  · cases h
  rename_i rc hg
  split at h
  · cases h
  split at h
  · cases h
  split at h
  · cases h
  cases h
  exact ⟨(Loc.refl id s).setCtx _, fun ha => atOk_set ha hg (AMap.get?_set_self _ _ _) rfl rfl (fun h => h)
    (fun h => by cases h)⟩

theorem keeperKill_locOk {s s' : State} {id consumer} (h : keeperKill s id consumer = .ok s') : LocOk id s s' := by
  unfold keeperKill at h
  split at h
  · cases h
  rename_i rc hg
  split at h
  · cases h
  split at h
  · cases h
  cases h
  exact ⟨(Loc.refl id s).setCtx _, fun ha => atOk_set ha hg (AMap.get?_set_self _ _ _) rfl rfl (fun h => h)
    (fun h => by cases h)⟩

theorem keeperUpdate_locOk {s s' : State} {id providers thr cap timeout freq total consumer}
    (h : keeperUpdate s id providers thr cap timeout freq total consumer = .ok s') : LocOk id s s' := by
  unfold keeperUpdate at h
  split at h
  · cases h
  rename_i rc hg
  split at h
  · cases h
  split at h
  · cases h
  split at h
  · cases h
  split at h
  · cases h
  split at h
  · cases h
  split at h
  · cases h
  split at h
  · cases h
  split at h
  · cases h
  cases h
  exact ⟨(Loc.refl id s).setCtx _, fun ha => atOk_set ha hg (AMap.get?_set_self _ _ _) rfl rfl (fun h => h)
    (fun h => h)⟩

/-- `StartRequestContext`: the context runs again; a new-batch entry is added exactly when no marker exists -/
theorem keeperStart_locOk {s s' : State} {id consumer} (h : keeperStart s id consumer = .ok s') : LocOk id s s' := by
  unfold keeperStart at h
  split at h
  · cases h
  rename_i rc hg
  split at h
  · cases h
  split at h
  · cases h
  split at h
  · cases h
  cases h
  split
  · refine ⟨((Loc.refl id s).setCtx _).addNew _, fun ha => ?_⟩
    intro c hc
    have hc' : AMap.get? (AMap.set s.ctxs id { rc with state := .running }) id = some c := hc
    rw [AMap.get?_set_self] at hc'; cases hc'
    exact ⟨fun hb => (ha rc hg).1 hb, fun _ => Or.inr (contains_set_self _ _ _)⟩
  · rename_i hq
    refine ⟨(Loc.refl id s).setCtx _, fun ha => ?_⟩
    intro c hc
    have hc' : AMap.get? (AMap.set s.ctxs id { rc with state := .running }) id = some c := hc
    rw [AMap.get?_set_self] at hc'; cases hc'
    refine ⟨fun hb => (ha rc hg).1 hb, fun _ => ?_⟩
    show AMap.contains s.expH id = true ∨ AMap.contains s.newH id = true
    cases he : AMap.contains s.expH id with
    | true => exact Or.inl rfl
    | false =>
      cases hn : AMap.contains s.newH id with
      | true => exact Or.inr rfl
      | false => exact absurd ⟨by simp [he], by simp [hn]⟩ hq

/-! ### answering a request -/

theorem countResponse_resps (t : State) (id : CtxId) : (countResponse t id).resps = t.resps := by
  unfold countResponse storeCtx completeBatch callback
  split
  · split <;> rfl
  · rfl

theorem countResponse_locOk {t : State} {id : CtxId} {rc : Ctx} (hg : AMap.get? t.ctxs id = some rc) :
    LocOk id t (countResponse t id) := by
  obtain ⟨_, g2, _, g4, _, _, g7⟩ := countResponse_fields t id
  refine ⟨((Loc.refl id t).setCtx _).eq _ g7 g2 g4 (countResponse_resps t id), fun ha => ?_⟩
  rw [getCtx_of_get? hg] at g7
  refine atOk_set ha hg (by rw [g7]; exact AMap.get?_set_self _ _ _) g4 g2 ?_ ?_
  · split
    · intro h; cases h
    · exact fun h => h
  · split <;> exact fun h => h

/-- `AddResponse`: the response is recorded under the id of the (active) request, the marker goes -/
theorem keeperRespond_inv {s s' : State} {provider : Addr} {rid : ReqId} {hasOut : Bool}
    (h : keeperRespond s provider rid hasOut = .ok s') :
    Step s s' ∧ rid ∈ s.active ∧ (∃ v, s'.resps = AMap.set s.resps rid v) ∧
    s'.active = s.active.filter (fun y => decide (y ≠ rid)) ∧ s'.height = s.height := by
  have hq := (keeperRespond_quiet h).1
  unfold keeperRespond at h
  split at h
  · cases h
  rename_i rq rc hgr
  split at h
  · cases h
  split at h
  · cases h
  rename_i hact
  split at h
  · cases h
  rename_i s1 hfee
  cases h
  have hr : rid ∈ s.active := by simpa using hact
  obtain ⟨_, hc⟩ := getRequest_some hgr
  obtain ⟨⟨_, f2, _, f4, f5, _, f7⟩, f8, _, _⟩ := addEarnedFee_sched hfee
  have hc1 : AMap.get? (recordResponse s1 rid provider rq rc hasOut).ctxs rq.ctx = some rc := by
    show AMap.get? s1.ctxs rq.ctx = some rc
    rw [f7]; exact hc
  have hl := countResponse_locOk hc1
  have h0 : Step s (recordResponse s1 rid provider rq rc hasOut) := Step.of_eq f7 f2 f4
  refine ⟨h0.trans hl.step, hr,
    ⟨{ provider := provider, consumer := rc.consumer, hasOut := hasOut, ctx := rq.ctx, batch := rq.batch }, ?_⟩, ?_, hq⟩
  · rw [countResponse_resps]
    show AMap.set s1.resps rid _ = _
    rw [f8]
  · rw [(countResponse_fields _ _).2.2.2.2.2.1]
    show s1.active.filter _ = _
    rw [f5]


/-! ### the new-batch handler -/

theorem mkRequests_tables (id : CtxId) (b : Nat) (svc : String) (cons : Addr) (to : Int) :
    ∀ (ps : List Addr) (i : Nat) (s : State),
      (mkRequests s id b svc cons to ps i).ctxs = s.ctxs ∧ (mkRequests s id b svc cons to ps i).newH = s.newH ∧
      (mkRequests s id b svc cons to ps i).expH = s.expH ∧ (mkRequests s id b svc cons to ps i).resps = s.resps
  | [], _, _ => ⟨rfl, rfl, rfl, rfl⟩
  | p :: rest, i, s => by
    simp only [mkRequests]
    have := mkRequests_tables id b svc cons to rest (i + 1)
      (addRequest s (reqIdOf id b s.height i) (mkReq s id b svc cons to p))
    exact ⟨this.1, this.2.1, this.2.2.1, this.2.2.2⟩

theorem Loc.initiate {id : CtxId} {s t : State} (h : Loc id s t) (provs : List Addr) :
    Loc id s (initiateRequests t id provs) := by
  unfold initiateRequests
  obtain ⟨m1, m2, m3, m4⟩ := mkRequests_tables id ((getCtx t id).batchCounter + 1) (getCtx t id).svc (getCtx t id).consumer
    (getCtx t id).timeout provs 0 t
  exact (h.eq _ m1 m2 m3 m4).setCtx _

theorem Loc.onPaused {id : CtxId} {s t : State} (h : Loc id s t) (c : Ctx) (cause : String) :
    Loc id s (onPaused t id c cause) := by
  unfold Irismod.Service.onPaused
  split
  · exact (h.setCtx _).eq _ rfl rfl rfl rfl
  · exact h.setCtx _

/-- the automatic pause: the stored context is paused with a completed batch -/
theorem onPaused_atOk (t : State) (id : CtxId) (c : Ctx) (cause : String) (ht : Int) :
    AtOk (delNew (onPaused t id c cause) id ht) id := by
  have hg : AMap.get? (delNew (onPaused t id c cause) id ht).ctxs id =
      some { c with batchState := .completed, state := .paused } := by
    show AMap.get? (onPaused t id c cause).ctxs id = _
    unfold Irismod.Service.onPaused
    split <;> exact AMap.get?_set_self _ _ _
  exact atOk_of_done hg rfl (fun h => by cases h)

/-- **the new-batch handler** works on its context only; afterwards the context either awaits the expiry of the batch
just started (or skipped), or is paused, or — not running — is as it was -/
theorem newBatch_locOk (s : State) (id : CtxId) : LocOk id s (newBatch s id) := by
  unfold newBatch
  split
  · split
    · exact ⟨((Loc.refl id s).onPaused _ _).delNew _, fun _ => onPaused_atOk s id _ _ _⟩
    · rename_i provs total _
      split
      · unfold chargeAndStart
        split
        · refine ⟨((((Loc.refl id s).eq
            { s with bank := creditCoins (debitCoins s.bank (getCtx s id).consumer (sortCoins total)).1 reqAcc (sortCoins total) }
            rfl rfl rfl rfl).initiate provs).addExp _).delNew _, fun _ => ?_⟩
          exact atOk_of_exp (contains_set_self _ _ _)
        · exact ⟨((Loc.refl id s).onPaused _ _).delNew _, fun _ => onPaused_atOk s id _ _ _⟩
      · refine ⟨(((Loc.refl id s).setCtx _).addExp _).delNew _, fun _ => ?_⟩
        exact atOk_of_exp (contains_set_self _ _ _)
  · rename_i hnr
    refine ⟨(Loc.refl id s).delNew _, fun ha => ?_⟩
    intro c hg
    have hg' : AMap.get? s.ctxs id = some c := hg
    rw [getCtx_of_get? hg'] at hnr
    exact ⟨fun hb => (ha c hg').1 hb, fun hr => absurd hr hnr⟩

/-! ### the expired-batch handler -/

theorem slash_resps (s : State) (svc : String) (p : Addr) : (slash s svc p).resps = s.resps := by
  unfold slash
  split
  · rfl
  · split
    · rfl
    · split <;> rfl

theorem refund_resps (s : State) (c : Addr) (d : Denom) (n : Nat) : (refund s c d n).resps = s.resps := by
  unfold refund
  split <;> rfl

theorem expireReq_resps (s : State) (rid : ReqId) : (expireReq s rid).resps = s.resps := by
  unfold expireReq
  split
  · rfl
  · simp only [dropActive]
    rw [refund_resps, slash_resps]

theorem foldl_expireReq_resps : ∀ (l : List ReqId) (s : State), (l.foldl expireReq s).resps = s.resps
  | [], _ => rfl
  | r :: rest, s => by
    simp only [List.foldl]
    rw [foldl_expireReq_resps rest, expireReq_resps]

/-- the first half of the expired-batch handler leaves the tables alone and returns a context with a completed batch -/
theorem expirePhase_tables (s : State) (id : CtxId) :
    (expirePhase s id).1.ctxs = s.ctxs ∧ (expirePhase s id).1.newH = s.newH ∧ (expirePhase s id).1.expH = s.expH ∧
    (expirePhase s id).1.resps = s.resps ∧ (expirePhase s id).2.batchState = .completed := by
  unfold expirePhase
  split
  · obtain ⟨⟨_, q2, _, q4, _, q6, _⟩, _⟩ := foldl_expireReq_sched (activeOf s id (getCtx s id).batchCounter) s
    have q8 := foldl_expireReq_resps (activeOf s id (getCtx s id).batchCounter) s
    unfold completeBatch callback
    split <;> exact ⟨q6, q2, q4, q8, rfl⟩
  · rename_i hdone
    exact ⟨rfl, rfl, rfl, rfl, Decidable.of_not_not hdone⟩

/-- **the expired-batch handler** works on its context only; afterwards the context is gone, or waits for its next
batch, or is paused with a completed batch -/
theorem expireCtx_locOk (s : State) (id : CtxId) : LocOk id s (expireCtx s id) := by
  obtain ⟨p1, p2, p3, p4, p5⟩ := expirePhase_tables s id
  have L1 : Loc id s (setCtx (delExp (expirePhase s id).1 id (expirePhase s id).1.height) id (expirePhase s id).2) :=
    ((Loc.of_eq id p1 p2 p3 p4).delExp _).setCtx _
  have hg : AMap.get? (setCtx (delExp (expirePhase s id).1 id (expirePhase s id).1.height) id (expirePhase s id).2).ctxs id =
      some (expirePhase s id).2 := AMap.get?_set_self _ _ _
  have hsettle : LocOk id s (settleCtx (setCtx (delExp (expirePhase s id).1 id (expirePhase s id).1.height) id (expirePhase s id).2) id
      (expirePhase s id).2) := by
    unfold settleCtx
    split
    · exact ⟨L1.eraseCtx, fun _ => atOk_of_none (get?_erase_self _ _)⟩
    · rename_i hnc
      split
      · split
        · refine ⟨L1.addNew _, fun _ => ?_⟩
          exact atOk_of_done (c := (expirePhase s id).2) hg p5 (fun _ => contains_set_self _ _ _)
        · exact ⟨L1.eraseCtx, fun _ => atOk_of_none (get?_erase_self _ _)⟩
      · rename_i hnr
        exact ⟨L1, fun _ => atOk_of_done hg p5 (fun h => absurd h hnr)⟩
  unfold expireCtx finishExpire
  exact ⟨hsettle.1.cleanBatch _, fun ha => fun c hc => hsettle.2 ha c hc⟩

/-! ### blocks -/

theorem foldl_expire_step : ∀ (l : List CtxId) (s : State), Step s (l.foldl expireCtx s) ∧ RSub s (l.foldl expireCtx s)
  | [], s => ⟨Step.refl s, RSub.refl s⟩
  | id :: rest, s => by
    simp only [List.foldl]
    have h1 := expireCtx_locOk s id
    have h2 := foldl_expire_step rest (expireCtx s id)
    exact ⟨h1.step.trans h2.1, h1.rsub.trans h2.2⟩

theorem foldl_new_step : ∀ (l : List CtxId) (s : State), Step s (l.foldl newBatch s) ∧ RSub s (l.foldl newBatch s)
  | [], s => ⟨Step.refl s, RSub.refl s⟩
  | id :: rest, s => by
    simp only [List.foldl]
    have h1 := newBatch_locOk s id
    have h2 := foldl_new_step rest (newBatch s id)
    exact ⟨h1.step.trans h2.1, h1.rsub.trans h2.2⟩

theorem endBlock_step (s : State) : Step s (endBlock s) ∧ RSub s (endBlock s) := by
  unfold endBlock newPhase
  have h1 : Step s (expiredPhase s) ∧ RSub s (expiredPhase s) := by
    unfold expiredPhase; exact foldl_expire_step _ s
  have h2 := foldl_new_step (dueIds (expiredPhase s).newQ (expiredPhase s).height) (expiredPhase s)
  exact ⟨h1.1.trans h2.1, h1.2.trans h2.2⟩

theorem nextBlock_step (s : State) (dt : Int) : Step s (nextBlock s dt) ∧ RSub s (nextBlock s dt) := by
  unfold nextBlock beginNext
  have h := endBlock_step s
  exact ⟨h.1.trans (Step.of_eq rfl rfl rfl), h.2.trans (RSub.of_eq rfl)⟩

theorem skipBlocks_step (dt : Int) : ∀ (n : Nat) (s : State), Step s (skipBlocks s dt n) ∧ RSub s (skipBlocks s dt n)
  | 0, s => ⟨Step.refl s, RSub.refl s⟩
  | n + 1, s => by
    have h1 := nextBlock_step s dt
    have h2 := skipBlocks_step dt n (nextBlock s dt)
    exact ⟨h1.1.trans h2.1, h1.2.trans h2.2⟩


/-! ### every operation -/

theorem keeperWithdraw_tables {s s' : State} {owner provider} (h : keeperWithdraw s owner provider = .ok s') :
    s'.ctxs = s.ctxs ∧ s'.newH = s.newH ∧ s'.expH = s.expH ∧ s'.resps = s.resps := by
  unfold keeperWithdraw at h
  split at h
  · unfold withdrawProvider at h
    split at h
    · cases h
    split at h
    · cases h
    split at h
    · cases h
    cases h
    exact ⟨rfl, rfl, rfl, rfl⟩
  · unfold withdrawOwner at h
    split at h
    · cases h
    cases h
    exact ⟨rfl, rfl, rfl, rfl⟩

def isRespond : Op → Prop
  | .respond _ _ _ _ _ => True
  | _ => False

/-- an operation that leaves the four tables alone -/
theorem plain_sr {s s' : State} {op : Op} (e1 : s'.ctxs = s.ctxs) (e2 : s'.newH = s.newH) (e3 : s'.expH = s.expH)
    (e4 : s'.resps = s.resps) : Step s s' ∧ (¬ isRespond op → RSub s s') :=
  ⟨Step.of_eq e1 e2 e3, fun _ => RSub.of_eq e4⟩

theorem LocOk.sr {id : CtxId} {s s' : State} {op : Op} (h : LocOk id s s') : Step s s' ∧ (¬ isRespond op → RSub s s') :=
  ⟨h.step, fun _ => h.rsub⟩

/-- every accepted operation keeps `CtxsNodup`, `MarkersNodup` and `Awaits`; every operation except an answer only
removes responses -/
theorem stepCore_sr {s s' : State} {op : Op} (h : stepCore s op = .ok s') : Step s s' ∧ (¬ isRespond op → RSub s s') := by
  cases op with
  | define sender name schOk =>
    simp only [stepCore, stepDefine] at h
    split at h
    · cases h
    split at h
    · cases h
    split at h
    · cases h
    split at h
    · cases h
    cases h
    exact plain_sr rfl rfl rfl rfl
  | bind owner provider svc dep qos pin optsOk =>
    simp only [stepCore, stepBind] at h
    split at h
    · cases h
    split at h
    · cases h
    obtain ⟨d, pr, bank, _, _, _, rfl⟩ := keeperBind_inv h
    exact plain_sr rfl rfl rfl rfl
  | updateBinding owner provider svc dep qos pin opts =>
    simp only [stepCore, stepUpdateBinding] at h
    split at h
    · cases h
    obtain ⟨b, d, pr, bank, _, _, _, _, rfl⟩ := keeperUpdateBinding_inv h
    exact plain_sr rfl rfl rfl rfl
  | setWithdraw owner addr =>
    simp only [stepCore, stepSetWithdraw] at h
    split at h
    · cases h
    split at h
    · cases h
    cases h
    exact plain_sr rfl rfl rfl rfl
  | enable owner provider svc dep =>
    simp only [stepCore, stepEnable] at h
    split at h
    · cases h
    unfold keeperEnable at h
    split at h
    · cases h
    split at h
    · cases h
    split at h
    · cases h
    split at h
    · cases h
    split at h
    · cases h
    split at h
    · cases h
    cases h
    exact plain_sr rfl rfl rfl rfl
  | disable owner provider svc =>
    simp only [stepCore, stepDisable] at h
    split at h
    · cases h
    split at h
    · cases h
    split at h
    · cases h
    split at h
    · cases h
    cases h
    exact plain_sr rfl rfl rfl rfl
  | refundDeposit owner provider svc =>
    simp only [stepCore, stepRefundDeposit] at h
    split at h
    · cases h
    unfold keeperRefundDeposit at h
    split at h
    · cases h
    split at h
    · cases h
    split at h
    · cases h
    split at h
    · cases h
    split at h
    · cases h
    split at h
    · cases h
    cases h
    exact plain_sr rfl rfl rfl rfl
  | call tx consumer svc providers cap timeout repeated freq total inputOk =>
    simp only [stepCore, stepCall] at h
    split at h
    · cases h
    split at h
    · cases h
    split at h
    · cases h
    exact (createCtx_locOk h).sr
  | mcall tx consumer svc providers cap timeout repeated freq total inputOk paused thr modName =>
    exact (createCtx_locOk h).sr
  | respond provider rid code out resOk =>
    simp only [stepCore, stepRespond] at h
    split at h
    · cases h
    split at h
    · cases h
    exact ⟨(keeperRespond_inv h).1, fun hn => absurd trivial hn⟩
  | withdraw owner provider =>
    simp only [stepCore, stepWithdraw] at h
    split at h
    · cases h
    split at h
    · cases h
    obtain ⟨e1, e2, e3, e4⟩ := keeperWithdraw_tables h
    exact plain_sr e1 e2 e3 e4
  | withdrawK owner provider =>
    obtain ⟨e1, e2, e3, e4⟩ := keeperWithdraw_tables h
    exact plain_sr e1 e2 e3 e4
  | pause consumer id => exact (keeperPause_locOk (stepPause_inv h)).sr
  | start consumer id => exact (keeperStart_locOk (stepStart_inv h)).sr
  | kill consumer id => exact (keeperKill_locOk (stepKill_inv h)).sr
  | updateCtx consumer id providers cap timeout freq total => exact (keeperUpdate_locOk (stepUpdateCtx_inv h)).sr
  | mpause consumer id => exact (keeperPause_locOk h).sr
  | mstart consumer id => exact (keeperStart_locOk h).sr
  | mkill consumer id => exact (keeperKill_locOk h).sr
  | mupdate consumer id providers thr cap timeout freq total => exact (keeperUpdate_locOk h).sr
  | setRate d r =>
    simp only [stepCore] at h
    cases h
    exact plain_sr rfl rfl rfl rfl
  | next dt =>
    simp only [stepCore] at h
    cases h
    exact ⟨(nextBlock_step s dt).1, fun _ => (nextBlock_step s dt).2⟩
  | skip n dt =>
    simp only [stepCore] at h
    cases h
    exact ⟨(skipBlocks_step dt n s).1, fun _ => (skipBlocks_step dt n s).2⟩

theorem apply_sr (s : State) (op : Op) : Step s (apply s op) ∧ (¬ isRespond op → RSub s (apply s op)) := by
  unfold apply step
  cases h : stepCore { s with cb := [] } op with
  | ok s' =>
    have := stepCore_sr h
    exact ⟨(Step.of_eq (s := s) (s' := { s with cb := [] }) rfl rfl rfl).trans this.1,
      fun hn => (RSub.of_eq (s := s) (s' := { s with cb := [] }) rfl).trans (this.2 hn)⟩
  | error e => exact ⟨Step.of_eq rfl rfl rfl, fun _ => RSub.of_eq rfl⟩

/-- **the context table keeps unique keys** (every operation line, accepted or rejected) -/
theorem ctxsNodup_apply {s : State} {op : Op} (h : CtxsNodup s) : CtxsNodup (apply s op) := (apply_sr s op).1.cn h

/-- **the two marker tables keep unique keys** -/
theorem markersNodup_apply {s : State} {op : Op} (h : MarkersNodup s) : MarkersNodup (apply s op) := (apply_sr s op).1.mn h

/-- **`Awaits` is kept by every operation line** -/
theorem awaits_apply {s : State} {op : Op} (h : Awaits s) : Awaits (apply s op) := (apply_sr s op).1.aw h

theorem ctxsNodup_empty {s : State} (h : s.ctxs = []) : CtxsNodup s := by
  unfold CtxsNodup KeysNodup; rw [h]; exact List.nodup_nil

theorem markersNodup_empty {s : State} (h1 : s.newH = []) (h2 : s.expH = []) : MarkersNodup s := by
  unfold MarkersNodup KeysNodup; rw [h1, h2]; exact ⟨List.nodup_nil, List.nodup_nil⟩

theorem ctxsNodup_genesis {s : State} (g : Irismod.Props.C12.Service.Genesis s) : CtxsNodup s := ctxsNodup_empty g.base.ctxs

theorem markersNodup_genesis {s : State} (g : Irismod.Props.C12.Service.Genesis s) : MarkersNodup s :=
  markersNodup_empty g.base.newH g.base.expH

/-! ### recorded responses -/

/-- responses are only removed, the height does not decrease, new markers carry a height that is not below the old
height: the response invariant is kept -/
theorem RespInv.of_rsub {s s' : State} (hr : RespInv s) (hsub : RSub s s') (hg : Grows s s') : RespInv s' := by
  refine ⟨keysNodup_sublist hr.nd hsub, ?_⟩
  intro e he
  obtain ⟨h1, h2⟩ := hr.past e (hsub.subset he)
  refine ⟨fun ha => ?_, Int.lt_of_lt_of_le h2 hg.1⟩
  rcases hg.2 _ ha with h | h
  · exact h1 h
  · omega

/-- an accepted answer: the new response is that of a request that was active (so issued in a past block) and whose
marker is removed -/
theorem RespInv.respond {s s' : State} {provider : Addr} {rid : ReqId} {hasOut : Bool} (hr : RespInv s) (hp : ActPast s)
    (h : keeperRespond s provider rid hasOut = .ok s') : RespInv s' := by
  obtain ⟨_, hact, ⟨v, e1⟩, e2, e3⟩ := keeperRespond_inv h
  refine ⟨by rw [e1]; exact hr.nd.set rid v, ?_⟩
  intro e he
  rw [e1] at he
  rw [e2, e3]
  rcases mem_set _ _ _ _ he with he | he
  · obtain ⟨h1, h2⟩ := hr.past e he
    exact ⟨fun ha => h1 (List.mem_filter.mp ha).1, h2⟩
  · subst he
    refine ⟨fun ha => ?_, hp rid hact⟩
    have := (List.mem_filter.mp ha).2
    simp at this

theorem respInv_apply {s : State} {op : Op} (hr : RespInv s) (hp : ActPast s) : RespInv (apply s op) := by
  by_cases hn : isRespond op
  · cases op with
    | respond provider rid code out resOk =>
      unfold apply step
      have h0 : RespInv { s with cb := [] } := ⟨hr.nd, hr.past⟩
      cases h : stepCore { s with cb := [] } (.respond provider rid code out resOk) with
      | error e => exact h0
      | ok s' =>
        simp only [stepCore, stepRespond] at h
        split at h
        · cases h
        split at h
        · cases h
        exact h0.respond (fun r hm => hp r hm) h
    | _ => exact absurd hn (fun h => h)
  · exact hr.of_rsub ((apply_sr s op).2 hn) (apply_grows s op)

theorem actPast_apply {s : State} {op : Op} (hp : ActPast s) : ActPast (apply s op) := by
  intro r hr
  obtain ⟨g1, g2⟩ := apply_grows s op
  rcases g2 r hr with h | h
  · exact Int.lt_of_lt_of_le (hp r h) g1
  · exact h.2

/-! ### the line invariant -/

/-- the invariant is kept by every operation line (accepted or rejected) -/
theorem sinv_apply {s : State} {op : Op} (hs : SInv s) (ho : OpOK s op) : SInv (apply s op) :=
  ⟨Irismod.Props.C12.Service.reach_apply hs.reach ho.1 ho.genesis,
   Irismod.Props.C13S.ns_apply hs.ns ho.fresh ho.validated,
   actPast_apply hs.past,
   respInv_apply hs.resp hs.past,
   awaits_apply hs.awaits⟩

/-- … and holds on a chain on which the module has not been used (the state of a `service reset` line) -/
theorem sinv_genesis {s : State} (g : Irismod.Props.C12.Service.Genesis s) (hr : s.resps = []) : SInv s := by
  refine ⟨Irismod.Props.C12.Service.reach_genesis g,
    Irismod.Props.C13S.ns_empty ⟨g.base.newQ, g.base.newH, g.base.expQ, g.base.expH, g.base.active, g.base.ctxs⟩, ?_, ?_, ?_⟩
  · intro r h; rw [g.base.active] at h; cases h
  · refine ⟨?_, ?_⟩
    · unfold KeysNodup; rw [hr]; exact List.nodup_nil
    · intro e h; rw [hr] at h; cases h
  · refine ⟨?_, ?_⟩ <;>
    · intro id c h; rw [g.base.ctxs] at h; simp [AMap.get?] at h

/-! ### the Boolean forms the C13 monitor evaluates -/

theorem awaits_exp_bool {s : State} (hn : CtxsNodup s) (h : Awaits s) :
    s.ctxs.all (fun e => e.2.batchState != .running || AMap.contains s.expH e.1) = true := by
  rw [List.all_eq_true]
  intro e he
  obtain ⟨id, c⟩ := e
  have hg := mem_ctxs_get? hn he
  by_cases hb : c.batchState = .running
  · simp [h.exp id c hg hb]
  · simp [hb]

theorem awaits_any_bool {s : State} (hn : CtxsNodup s) (h : Awaits s) :
    s.ctxs.all (fun e => e.2.state != .running || AMap.contains s.expH e.1 || AMap.contains s.newH e.1) = true := by
  rw [List.all_eq_true]
  intro e he
  obtain ⟨id, c⟩ := e
  have hg := mem_ctxs_get? hn he
  by_cases hb : c.state = .running
  · rcases h.any id c hg hb with h1 | h1 <;> simp [h1]
  · simp [hb]

end Irismod.Proofs.ServiceMonitor
