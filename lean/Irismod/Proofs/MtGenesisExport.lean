/-
C12 (MT): what the exported genesis contains. The three loops of `InitGenesis` /
`ValidateGenesis` visit (`flatDenoms`, `flatMts`, `flatOwners`) duplicate-free key lists whose
bindings are exactly the bindings of the store — i.e. permutations of the store's tables.
Also: export depends on the store only through its reads (`export_congr`).
-/
import Irismod.Proofs.MtGenesisWF

namespace Irismod.Proofs.MtGenesisExport
open Irismod Irismod.Mt Irismod.MtGenesis Irismod.Spec.C12.Mt Irismod.Proofs.GenesisList

theorem nodup_map_of_inj {A B : Type} {l : List A} (f : A → B) (hl : l.Nodup)
    (hf : ∀ a b, f a = f b → a = b) : (l.map f).Nodup := by
  unfold List.Nodup at *
  rw [List.pairwise_map]
  exact hl.imp (fun {a b} hab heq => hab (hf a b heq))

section amap
variable {K V : Type} [DecidableEq K]

theorem getD_of_get? {m : AMap K V} {k : K} {v d : V} (h : AMap.get? m k = some v) : AMap.getD m k d = v := by
  simp [AMap.getD, h]

/-- listing a table along any enumeration of its keys yields exactly its bindings -/
theorem mem_map_getD (m : AMap K V) (ks : List K) (hks : ∀ k, k ∈ ks ↔ k ∈ AMap.keys m) (dflt : V) (k : K) (v : V) :
    (k, v) ∈ ks.map (fun k => (k, AMap.getD m k dflt)) ↔ AMap.get? m k = some v := by
  rw [List.mem_map]
  constructor
  · rintro ⟨k', hk', e⟩
    cases e
    obtain ⟨v', hv'⟩ := (mem_keys_iff m k).mp ((hks k).mp hk')
    rw [getD_of_get? hv']; exact hv'
  · intro h
    refine ⟨k, (hks k).mpr ((mem_keys_iff m k).mpr ⟨v, h⟩), ?_⟩
    rw [getD_of_get? h]

omit [DecidableEq K] in
theorem keys_map_pair (ks : List K) (f : K → V) : AMap.keys (ks.map (fun k => (k, f k))) = ks := by
  simp [AMap.keys, List.map_map, Function.comp_def]

end amap

/-! ### collections -/

theorem flatDenoms_export (s : State) :
    flatDenoms (exportCollections s) =
      (sortDedup (AMap.keys s.denoms)).map (fun d => (d, AMap.getD s.denoms d default)) := by
  simp [flatDenoms, exportCollections, List.map_map, Function.comp_def]

theorem ids_export (s : State) : (exportCollections s).map (·.id) = sortDedup (AMap.keys s.denoms) := by
  simp [exportCollections, List.map_map, Function.comp_def]

theorem nodup_flatDenoms (s : State) : NodupKeys (flatDenoms (exportCollections s)) := by
  unfold NodupKeys
  rw [flatDenoms_export, keys_map_pair]
  exact nodup_sortDedup _

theorem mem_flatDenoms (s : State) (hw : WF s) (e : DenomId × DenomRec) :
    e ∈ flatDenoms (exportCollections s) ↔ e ∈ s.denoms := by
  obtain ⟨d, r⟩ := e
  rw [flatDenoms_export, mem_map_getD s.denoms _ (fun k => mem_sortDedup k _)]
  exact get?_eq_some_iff hw.nd_denoms d r

/-- the token entries visited by the collection loops -/
def mtEntry (s : State) (d : DenomId) (m : MtId) : MtRec :=
  { id := m, supply := supplyOf s d m, data := AMap.getD s.mts (d, m) "" }

theorem flatMts_export (s : State) :
    flatMts (exportCollections s) =
      (sortDedup (AMap.keys s.denoms)).flatMap fun d =>
        (sortDedup (tail (AMap.keys s.mts) d)).map fun m => ((d, m), mtEntry s d m) := by
  simp [flatMts, exportCollections, exportMts, List.flatMap_map, List.map_map, Function.comp_def, mtEntry]

theorem keys_flatMts_export (s : State) :
    AMap.keys (flatMts (exportCollections s)) =
      (sortDedup (AMap.keys s.denoms)).flatMap fun d =>
        (sortDedup (tail (AMap.keys s.mts) d)).map fun m => (d, m) := by
  rw [flatMts_export]
  simp [AMap.keys, List.map_flatMap, List.map_map, Function.comp_def]

theorem nodup_flatMts (s : State) : NodupKeys (flatMts (exportCollections s)) := by
  unfold NodupKeys
  rw [keys_flatMts_export]
  apply nodup_flatMap_tag (nodup_sortDedup _) _ Prod.fst
  · intro d _ b hb
    rw [List.mem_map] at hb
    obtain ⟨m, _, rfl⟩ := hb
    rfl
  · intro d _
    exact nodup_map_of_inj _ (nodup_sortDedup _) (fun a b h => by cases h; rfl)

theorem mem_keys_flatMts (s : State) (hw : WF s) (k : DenomId × MtId) :
    k ∈ AMap.keys (flatMts (exportCollections s)) ↔ k ∈ AMap.keys s.mts := by
  obtain ⟨d, m⟩ := k
  rw [keys_flatMts_export, List.mem_flatMap]
  constructor
  · rintro ⟨d', _, hm⟩
    rw [List.mem_map] at hm
    obtain ⟨m', hm', e⟩ := hm
    cases e
    exact (mem_tail _ _ _).mp ((mem_sortDedup _ _).mp hm')
  · intro hk
    refine ⟨d, (mem_sortDedup _ _).mpr (hw.mts_denom d m hk), ?_⟩
    rw [List.mem_map]
    exact ⟨m, (mem_sortDedup _ _).mpr ((mem_tail _ _ _).mpr hk), rfl⟩

theorem mem_flatMts (s : State) (hw : WF s) (k : DenomId × MtId) (r : MtRec) :
    (k, r) ∈ flatMts (exportCollections s) ↔ k ∈ AMap.keys s.mts ∧ r = mtEntry s k.1 k.2 := by
  obtain ⟨d, m⟩ := k
  constructor
  · intro h
    have hk : (d, m) ∈ AMap.keys (flatMts (exportCollections s)) := List.mem_map.mpr ⟨_, h, rfl⟩
    refine ⟨(mem_keys_flatMts s hw _).mp hk, ?_⟩
    rw [flatMts_export, List.mem_flatMap] at h
    obtain ⟨d', _, hm⟩ := h
    rw [List.mem_map] at hm
    obtain ⟨m', _, e⟩ := hm
    cases e; rfl
  · rintro ⟨hk, rfl⟩
    rw [flatMts_export, List.mem_flatMap]
    refine ⟨d, (mem_sortDedup _ _).mpr (hw.mts_denom d m hk), ?_⟩
    rw [List.mem_map]
    exact ⟨m, (mem_sortDedup _ _).mpr ((mem_tail _ _ _).mpr hk), rfl⟩

/-! ### owners -/

theorem flatOwners_export (s : State) :
    flatOwners (exportOwners s) =
      (heads (AMap.keys s.bal)).flatMap fun a =>
        (heads (tail (AMap.keys s.bal) a)).flatMap fun d =>
          (sortDedup (tail (tail (AMap.keys s.bal) a) d)).map fun m => ((a, d, m), balOf s a d m) := by
  simp [flatOwners, exportOwners, exportDenomBalances, exportBalances, List.flatMap_map, List.map_map,
    Function.comp_def]

theorem keys_flatOwners_export (s : State) :
    AMap.keys (flatOwners (exportOwners s)) =
      (heads (AMap.keys s.bal)).flatMap fun a =>
        (heads (tail (AMap.keys s.bal) a)).flatMap fun d =>
          (sortDedup (tail (tail (AMap.keys s.bal) a) d)).map fun m => (a, d, m) := by
  rw [flatOwners_export]
  simp [AMap.keys, List.map_flatMap, List.map_map, Function.comp_def]

theorem nodup_flatOwners (s : State) : NodupKeys (flatOwners (exportOwners s)) := by
  unfold NodupKeys
  rw [keys_flatOwners_export]
  apply nodup_flatMap_tag (nodup_heads _) _ (fun k => k.1)
  · intro a _ b hb
    rw [List.mem_flatMap] at hb
    obtain ⟨d, _, hb⟩ := hb
    rw [List.mem_map] at hb
    obtain ⟨m, _, rfl⟩ := hb
    rfl
  · intro a _
    apply nodup_flatMap_tag (nodup_heads _) _ (fun k => k.2.1)
    · intro d _ b hb
      rw [List.mem_map] at hb
      obtain ⟨m, _, rfl⟩ := hb
      rfl
    · intro d _
      exact nodup_map_of_inj _ (nodup_sortDedup _) (fun x y h => by cases h; rfl)

theorem mem_keys_flatOwners (s : State) (k : Addr × DenomId × MtId) :
    k ∈ AMap.keys (flatOwners (exportOwners s)) ↔ k ∈ AMap.keys s.bal := by
  obtain ⟨a, d, m⟩ := k
  rw [keys_flatOwners_export, List.mem_flatMap]
  constructor
  · rintro ⟨a', _, h⟩
    rw [List.mem_flatMap] at h
    obtain ⟨d', _, h⟩ := h
    rw [List.mem_map] at h
    obtain ⟨m', hm', e⟩ := h
    cases e
    exact (mem_tail _ _ _).mp ((mem_tail _ _ _).mp ((mem_sortDedup _ _).mp hm'))
  · intro hk
    have h1 : (d, m) ∈ tail (AMap.keys s.bal) a := (mem_tail _ _ _).mpr hk
    have h2 : m ∈ tail (tail (AMap.keys s.bal) a) d := (mem_tail _ _ _).mpr h1
    refine ⟨a, (mem_heads _ _).mpr ⟨_, hk⟩, ?_⟩
    rw [List.mem_flatMap]
    refine ⟨d, (mem_heads _ _).mpr ⟨_, h1⟩, ?_⟩
    rw [List.mem_map]
    exact ⟨m, (mem_sortDedup _ _).mpr h2, rfl⟩

theorem val_flatOwners (s : State) (k : Addr × DenomId × MtId) (v : UInt64)
    (h : (k, v) ∈ flatOwners (exportOwners s)) : v = balOf s k.1 k.2.1 k.2.2 := by
  rw [flatOwners_export, List.mem_flatMap] at h
  obtain ⟨a', _, h⟩ := h
  rw [List.mem_flatMap] at h
  obtain ⟨d', _, h⟩ := h
  rw [List.mem_map] at h
  obtain ⟨m', _, e⟩ := h
  cases e; rfl

theorem mem_flatOwners (s : State) (hw : WF s) (e : (Addr × DenomId × MtId) × UInt64) :
    e ∈ flatOwners (exportOwners s) ↔ e ∈ s.bal := by
  obtain ⟨k, v⟩ := e
  rw [← get?_eq_some_iff hw.nd_bal]
  constructor
  · intro h
    have hk : k ∈ AMap.keys (flatOwners (exportOwners s)) := List.mem_map.mpr ⟨_, h, rfl⟩
    obtain ⟨v', hv'⟩ := (mem_keys_iff _ _).mp ((mem_keys_flatOwners s k).mp hk)
    rw [val_flatOwners s k v h, hv']
    simp [balOf, AMap.getD, hv']
  · intro h
    have hk : k ∈ AMap.keys (flatOwners (exportOwners s)) :=
      (mem_keys_flatOwners s k).mpr ((mem_keys_iff _ _).mpr ⟨v, h⟩)
    obtain ⟨v', hv'⟩ := (mem_keys_iff _ _).mp hk
    have hm := mem_of_get? hv'
    have := val_flatOwners s k v' hm
    have hb : balOf s k.1 k.2.1 k.2.2 = v := by simp [balOf, AMap.getD, h]
    rw [hb] at this
    subst this; exact hm

/-- the owners loop visits a permutation of the balance table -/
theorem flatOwners_perm (s : State) (hw : WF s) : (flatOwners (exportOwners s)).Perm s.bal :=
  perm_of_mem (nodup_flatOwners s) hw.nd_bal (mem_flatOwners s hw)

/-! ### export reads the store only through lookups -/

theorem keys_congr {K V : Type} [DecidableEq K] {m1 m2 : AMap K V}
    (h : ∀ k, AMap.get? m1 k = AMap.get? m2 k) (k : K) : k ∈ AMap.keys m1 ↔ k ∈ AMap.keys m2 := by
  rw [mem_keys_iff, mem_keys_iff, h k]

theorem export_congr {a b : State} (h : ObsEq a b) : exportGenesis a = exportGenesis b := by
  have hd := keys_congr h.denoms
  have hm := keys_congr h.mts
  have hb := keys_congr h.bal
  have hsup : ∀ d m, supplyOf a d m = supplyOf b d m := by
    intro d m; unfold supplyOf AMap.getD; rw [h.supply]
  have hbal : ∀ x d m, balOf a x d m = balOf b x d m := by
    intro x d m; unfold balOf AMap.getD; rw [h.bal]
  have hcoll : exportCollections a = exportCollections b := by
    unfold exportCollections
    rw [sortDedup_congr hd]
    apply List.map_congr_left
    intro d _
    have e1 : AMap.getD a.denoms d default = AMap.getD b.denoms d default := by
      unfold AMap.getD; rw [h.denoms]
    have e2 : exportMts a d = exportMts b d := by
      unfold exportMts
      rw [sortDedup_congr (tail_mem_congr hm d)]
      apply List.map_congr_left
      intro m _
      have : AMap.getD a.mts (d, m) "" = AMap.getD b.mts (d, m) "" := by unfold AMap.getD; rw [h.mts]
      rw [hsup, this]
    rw [e1, e2]
  have hown : exportOwners a = exportOwners b := by
    unfold exportOwners
    rw [heads_congr hb]
    apply List.map_congr_left
    intro x _
    have : exportDenomBalances a x = exportDenomBalances b x := by
      unfold exportDenomBalances
      rw [heads_congr (tail_mem_congr hb x)]
      apply List.map_congr_left
      intro d _
      have : exportBalances a x d = exportBalances b x d := by
        unfold exportBalances
        rw [sortDedup_congr (tail_mem_congr (tail_mem_congr hb x) d)]
        apply List.map_congr_left
        intro m _
        rw [hbal]
      rw [this]
    rw [this]
  unfold exportGenesis
  rw [hcoll, hown]

end Irismod.Proofs.MtGenesisExport
