/-
C06(d) over ℚ: the fairness ledger against the exact rational stake-time share.
`exact` accumulates `Σ (acc − accMark) × stake` with `acc = Σ released / totalStake` the
untruncated reward per share; `owed` accumulates the same with the truncated on-chain
accumulator.  Invariant: `0 ≤ exact·10¹⁸ − owed ≤ slack`, where `slack = Σ stake × (number of
releases in the interval)`; together with the integer bound of `FarmFair` this gives
`paid − exact ≤ n` and `exact − paid ≤ n + slack·10⁻¹⁸`.
-/
import Irismod.Proofs.FarmLedger
import Mathlib.Algebra.Order.Field.Rat
import Mathlib.Tactic.FieldSimp

namespace Irismod.Proofs.Farm
open Irismod Irismod.Sdk Irismod.Farm Irismod.Spec

/-- 10¹⁸ as a rational -/
def Uq : ℚ := 1000000000000000000

theorem Uq_pos : (0 : ℚ) < Uq := by unfold Uq; norm_num

/-- the truncation deficit of a rule's accumulator -/
def deficit (r : Rule) : ℚ := r.acc * Uq - (r.rps.raw : ℚ)

/-- `r'` is a later version of rule `r`: same denom, more releases, the deficit grew by at most
one unit per release -/
structure AccLe (r r' : Rule) : Prop where
  denom : r'.denom = r.denom
  rel   : r.nRel ≤ r'.nRel
  lo    : deficit r ≤ deficit r'
  hi    : deficit r' - deficit r ≤ ((r'.nRel - r.nRel : Nat) : ℚ)

theorem AccLe.refl (r : Rule) : AccLe r r := ⟨rfl, Nat.le_refl _, le_refl _, by simp⟩

theorem AccLe.trans {a b c : Rule} (h1 : AccLe a b) (h2 : AccLe b c) : AccLe a c := by
  refine ⟨h2.denom.trans h1.denom, Nat.le_trans h1.rel h2.rel, le_trans h1.lo h2.lo, ?_⟩
  have e : ((c.nRel - a.nRel : Nat) : ℚ) = ((c.nRel - b.nRel : Nat) : ℚ) + ((b.nRel - a.nRel : Nat) : ℚ) := by
    have := h1.rel; have := h2.rel
    rw [← Nat.cast_add]; congr 1; omega
  rw [e]
  have := h1.hi; have := h2.hi
  linarith

theorem AccLe.of_eq {r r' : Rule} (hd : r'.denom = r.denom) (ha : r'.acc = r.acc) (hr : r'.rps = r.rps) (hn : r'.nRel = r.nRel) :
    AccLe r r' := by
  have : deficit r' = deficit r := by unfold deficit; rw [ha, hr]
  exact ⟨hd, by omega, by rw [this], by rw [this, hn]; simp⟩

theorem AccLe.of_stepped {i L : Nat} {r r' : Rule} (h : Stepped i L r r') : AccLe r r' := by
  obtain ⟨hden, _, _, _, _, _, _, hnr, hacc, hL, hraw⟩ := stepped_facts h
  have hLpos : (0 : ℚ) < (L : ℚ) := by exact_mod_cast Nat.pos_of_ne_zero hL
  -- the increment of the on-chain accumulator is the natural quotient
  have hq : r'.rps.raw - r.rps.raw = (((r.rpb * i * C06.unit) / L : Nat) : Int) := by
    rw [hraw]
    have : (((r.rpb * i : Nat) : Int) * precision).tdiv (L : Int) = (((r.rpb * i * C06.unit) / L : Nat) : Int) := by
      rw [Int.tdiv_eq_ediv_of_nonneg (by unfold precision; positivity)]
      unfold precision C06.unit
      push_cast
      rfl
    omega
  have h1 : (r.rpb * i * C06.unit) / L * L ≤ r.rpb * i * C06.unit := Nat.div_mul_le_self _ _
  have h2 : r.rpb * i * C06.unit < L * ((r.rpb * i * C06.unit) / L + 1) := Nat.lt_mul_div_succ _ (Nat.pos_of_ne_zero hL)
  have hd : deficit r' - deficit r = ((r.rpb * i : Nat) : ℚ) / (L : ℚ) * Uq - (((r.rpb * i * C06.unit) / L : Nat) : ℚ) := by
    unfold deficit
    rw [hacc]
    have : (r'.rps.raw : ℚ) = (r.rps.raw : ℚ) + (((r.rpb * i * C06.unit) / L : Nat) : ℚ) := by
      have : r'.rps.raw = r.rps.raw + (((r.rpb * i * C06.unit) / L : Nat) : Int) := by omega
      rw [this, Int.cast_add, Int.cast_natCast]
    rw [this]; ring
  generalize (r.rpb * i * C06.unit) / L = q at h1 h2 hd
  generalize r.rpb * i = c at h1 h2 hd
  have hU : ((C06.unit : Nat) : ℚ) = Uq := by unfold C06.unit Uq; norm_num
  have e1 : (q : ℚ) * (L : ℚ) ≤ (c : ℚ) * Uq := by
    have : ((q * L : Nat) : ℚ) ≤ ((c * C06.unit : Nat) : ℚ) := by exact_mod_cast h1
    push_cast at this; rw [hU] at this; exact this
  have e2 : (c : ℚ) * Uq < (L : ℚ) * ((q : ℚ) + 1) := by
    have : ((c * C06.unit : Nat) : ℚ) < ((L * (q + 1) : Nat) : ℚ) := by exact_mod_cast h2
    push_cast at this; rw [hU] at this; exact this
  have hval : (c : ℚ) / (L : ℚ) * Uq = (c : ℚ) * Uq / (L : ℚ) := by ring
  have lo : (q : ℚ) ≤ (c : ℚ) / (L : ℚ) * Uq := by rw [hval, le_div_iff₀ hLpos]; exact e1
  have hi : (c : ℚ) / (L : ℚ) * Uq < (q : ℚ) + 1 := by rw [hval, div_lt_iff₀ hLpos]; linarith
  refine ⟨hden, by omega, by linarith, ?_⟩
  rw [hd]
  have : ((r'.nRel - r.nRel : Nat) : ℚ) = 1 := by rw [hnr]; simp
  rw [this]; linarith

/-! ### pointwise evolution of rule lists -/

theorem all2_refl {α : Type} {R : α → α → Prop} (hr : ∀ a, R a a) : ∀ l : List α, All2 R l l
  | [] => All2.nil
  | a :: l => All2.cons (hr a) (all2_refl hr l)

theorem all2_trans {α : Type} {R : α → α → Prop} (ht : ∀ a b c, R a b → R b c → R a c) :
    ∀ {l1 l2 l3 : List α}, All2 R l1 l2 → All2 R l2 l3 → All2 R l1 l3
  | _, _, _, All2.nil, All2.nil => All2.nil
  | _, _, _, All2.cons h1 t1, All2.cons h2 t2 => All2.cons (ht _ _ _ h1 h2) (all2_trans ht t1 t2)

theorem all2_map {α : Type} {R : α → α → Prop} (f : α → α) (h : ∀ a, R a (f a)) : ∀ l : List α, All2 R l (l.map f)
  | [] => All2.nil
  | a :: l => All2.cons (h a) (all2_map f h l)

theorem all2_imp {α β : Type} {R S : α → β → Prop} (h : ∀ a b, R a b → S a b) :
    ∀ {l1 : List α} {l2 : List β}, All2 R l1 l2 → All2 S l1 l2
  | _, _, All2.nil => All2.nil
  | _, _, All2.cons h1 t => All2.cons (h _ _ h1) (all2_imp h t)

theorem all2_mem_left {α β : Type} {R : α → β → Prop} {l₁ : List α} {l₂ : List β} (h : All2 R l₁ l₂) :
    ∀ a ∈ l₁, ∃ b ∈ l₂, R a b := by
  induction h with
  | nil => simp
  | cons hr _ ih =>
    intro a ha
    simp only [List.mem_cons] at ha
    rcases ha with e | e
    · subst e; exact ⟨_, by simp, hr⟩
    · obtain ⟨b, hb, hab⟩ := ih a e; exact ⟨b, by simp [hb], hab⟩

/-- the loop output is pointwise a later version of its input, whatever the verdict -/
theorem collectRules_accLe (i L : Nat) : ∀ (rs : List Rule), All2 AccLe rs (collectRules i L rs).1
  | [] => All2.nil
  | r :: rs => by
    unfold collectRules
    split
    · exact all2_refl AccLe.refl _
    · rename_i r' hr
      exact All2.cons (AccLe.of_stepped hr) (collectRules_accLe i L rs)

theorem zeroRules_accLe (rs : List Rule) : All2 AccLe rs (zeroRules rs) := by
  unfold zeroRules
  apply all2_map (R := AccLe)
  intro r; exact AccLe.of_eq rfl rfl rfl rfl

theorem adjustRules_accLe (add rpb : CoinList) (rs : List Rule) : All2 AccLe rs (adjustRules add rpb rs) := by
  unfold adjustRules
  apply all2_map (R := AccLe)
  intro r; exact AccLe.of_eq rfl rfl rfl rfl

/-- the deficit recorded in a ledger entry at the farmer's last interaction -/
def markDeficit (e : Ledger) : ℚ := e.accMark * Uq - (e.mark : ℚ)

/-- a ledger entry against the current version of its rule: since the farmer's last
interaction the truncation deficit grew by at most one unit per release -/
structure PairOK (e : Ledger) (r : Rule) : Prop where
  rel : e.relMark ≤ r.nRel
  lo  : markDeficit e ≤ deficit r
  hi  : deficit r - markDeficit e ≤ ((r.nRel - e.relMark : Nat) : ℚ)

theorem PairOK.mono {e : Ledger} {r r' : Rule} (h : PairOK e r) (ha : AccLe r r') : PairOK e r' := by
  refine ⟨Nat.le_trans h.rel ha.rel, le_trans h.lo ha.lo, ?_⟩
  have e1 : ((r'.nRel - e.relMark : Nat) : ℚ) = ((r'.nRel - r.nRel : Nat) : ℚ) + ((r.nRel - e.relMark : Nat) : ℚ) := by
    have := h.rel; have := ha.rel
    rw [← Nat.cast_add]; congr 1; omega
  rw [e1]
  have := h.hi; have := ha.hi
  linarith

/-- pools never disappear, their rules only move forward, and a pool that appears carries
rules against which the empty ledger entry is consistent -/
structure EvolveQ (s s' : State) : Prop where
  fwd   : ∀ id p, getPool s id = some p → ∃ p', getPool s' id = some p' ∧ All2 AccLe p.rules p'.rules
  fresh : ∀ id p', getPool s' id = some p' → getPool s id = none → ∀ r' ∈ p'.rules, PairOK {} r'

theorem EvolveQ.refl (s : State) : EvolveQ s s :=
  ⟨fun _ p h => ⟨p, h, all2_refl AccLe.refl _⟩, fun id p' h1 h2 => by rw [h1] at h2; cases h2⟩

theorem EvolveQ.trans {a b c : State} (h1 : EvolveQ a b) (h2 : EvolveQ b c) : EvolveQ a c := by
  refine ⟨?_, ?_⟩
  · intro id p hp
    obtain ⟨p1, hp1, e1⟩ := h1.fwd id p hp
    obtain ⟨p2, hp2, e2⟩ := h2.fwd id p1 hp1
    exact ⟨p2, hp2, all2_trans (R := AccLe) (fun _ _ _ => AccLe.trans) e1 e2⟩
  · intro id p' hp' hnone r' hr'
    cases hb : getPool b id with
    | none => exact h2.fresh id p' hp' hb r' hr'
    | some pb =>
      obtain ⟨p2, hp2, e2⟩ := h2.fwd id pb hb
      rw [hp'] at hp2; cases hp2
      obtain ⟨rb, hrb, hle⟩ := all2_mem e2 r' hr'
      exact (h1.fresh id pb hb hnone rb hrb).mono hle

theorem evolveQ_same {s s' : State} (h : s'.pools = s.pools) : EvolveQ s s' :=
  ⟨fun id p hp => ⟨p, by unfold getPool; rw [h]; exact hp, all2_refl AccLe.refl _⟩,
   fun id p' h1 h2 => by unfold getPool at h1 h2; rw [h, h2] at h1; cases h1⟩

theorem evolveQ_set {s s' : State} {id : PoolId} {p q : Pool} (hp : getPool s id = some p)
    (hpools : s'.pools = AMap.set s.pools id q) (hd : All2 AccLe p.rules q.rules) : EvolveQ s s' := by
  refine ⟨?_, ?_⟩
  · intro id2 p2 hp2
    by_cases e : id = id2
    · subst e; rw [hp] at hp2; cases hp2
      exact ⟨q, getPool_set_self _ _ _ _ hpools, hd⟩
    · exact ⟨p2, by rw [getPool_set_other s s' id id2 q hpools e]; exact hp2, all2_refl AccLe.refl _⟩
  · intro id2 p' h1 h2
    by_cases e : id = id2
    · subst e; rw [hp] at h2; cases h2
    · rw [getPool_set_other s s' id id2 q hpools e, h2] at h1; cases h1

theorem evolveQ_new {s s' : State} {id : PoolId} {q : Pool} (hp : getPool s id = none)
    (hpools : s'.pools = AMap.set s.pools id q) (hq : ∀ r ∈ q.rules, PairOK {} r) : EvolveQ s s' := by
  refine ⟨?_, ?_⟩
  · intro id2 p2 hp2
    by_cases e : id = id2
    · subst e; rw [hp] at hp2; cases hp2
    · exact ⟨p2, by rw [getPool_set_other s s' id id2 q hpools e]; exact hp2, all2_refl AccLe.refl _⟩
  · intro id2 p' h1 h2
    by_cases e : id = id2
    · subst e
      rw [getPool_set_self _ _ _ _ hpools] at h1; cases h1
      exact hq
    · rw [getPool_set_other s s' id id2 q hpools e, h2] at h1; cases h1

theorem updOk_accLe {s s' : State} {id : PoolId} {p p' : Pool} {amount : Int} {d : Bool}
    (h : UpdOk s s' id p p' amount d) : All2 AccLe p.rules p'.rules := by
  rcases h.rules with e | ⟨_, _, f2⟩
  · rw [e]; exact all2_refl AccLe.refl _
  · exact all2_imp (fun _ _ hst => AccLe.of_stepped hst) f2

/-- farmers and ledger untouched, rules only moved forward -/
structure FrameQ (s s' : State) : Prop where
  farmers : s'.farmers = s.farmers
  ledger  : s'.ledger = s.ledger
  evolve  : EvolveQ s s'

theorem FrameQ.refl (s : State) : FrameQ s s := ⟨rfl, rfl, EvolveQ.refl s⟩
theorem FrameQ.trans {a b c : State} (h1 : FrameQ a b) (h2 : FrameQ b c) : FrameQ a c :=
  ⟨h2.farmers.trans h1.farmers, h2.ledger.trans h1.ledger, h1.evolve.trans h2.evolve⟩

theorem BankOnly.frameQ {s s' : State} (b : BankOnly s s') : FrameQ s s' := ⟨b.farmers, b.ledger, evolveQ_same b.pools⟩
theorem Quiet.frameQ {s s' : State} (b : Quiet s s') : FrameQ s s' := ⟨b.farmers, b.ledger, evolveQ_same b.pools⟩

theorem updOk_frameQ {s s' : State} {id : PoolId} {p p' : Pool} {amount : Int} {d : Bool}
    (hp : getPool s id = some p) (h : UpdOk s s' id p p' amount d) : FrameQ s s' :=
  ⟨h.farmers, h.ledger, evolveQ_set hp h.pools (updOk_accLe h)⟩

/-- a failing `updatePool` leaves (at most) the partial output of the release loop -/
theorem updatePool_err_frameQ {s s1 : State} {id : PoolId} {p : Pool} {amount : Int} {b : Bool} {e : Err}
    (hp : getPool s id = some p) (h : updatePool s id p amount b = (s1, .error e)) : FrameQ s s1 := by
  have ue := updatePool_err h
  refine ⟨ue.farmers, ue.ledger, ?_⟩
  -- the pools are either untouched or carry the loop's partial output
  have hfin : ∀ (s0 s2 : State) (rs : List Rule), finishUpdate s0 id p rs amount b = (s2, .error e) → s2 = s0 := by
    intro s0 s2 rs hf
    unfold finishUpdate at hf
    split at hf
    · simp only [Prod.mk.injEq] at hf; exact hf.1.symm
    · simp at hf
  have hpart : EvolveQ s (setPool s id { p with rules := (collectRules (s.height - p.last).toNat p.locked p.rules).1 }) :=
    evolveQ_set hp rfl (collectRules_accLe _ _ _)
  unfold updatePool at h
  split at h
  · simp only [Prod.mk.injEq] at h; rw [← h.1]; exact EvolveQ.refl _
  split at h
  · simp only [Prod.mk.injEq] at h; rw [← h.1]; exact EvolveQ.refl _
  split at h
  · split at h
    · simp only [Prod.mk.injEq] at h; rw [← h.1]; exact hpart
    · unfold releaseAndFinish at h
      split at h
      · rw [hfin _ _ _ h]; exact hpart
      · split at h
        · simp only [Prod.mk.injEq] at h; rw [← h.1]; exact hpart
        · rename_i s2 hs2
          rw [hfin _ _ _ h]
          exact hpart.trans (evolveQ_same (sendAll_ok hs2).1.pools)
  · rw [hfin _ _ _ h]; exact EvolveQ.refl _

theorem refund_frameQ {s : State} {id : PoolId} {p : Pool} (hp : getPool s id = some p) : FrameQ s (refund s id p).1 := by
  have f0 : FrameQ s (dequeue s id p.endH) := ⟨rfl, rfl, evolveQ_same rfl⟩
  have hp0 : getPool (dequeue s id p.endH) id = some p := hp
  rcases refund_cases s id p with ⟨s1, e, hu, hr⟩ | ⟨s1, p1, hu, hr⟩
  · rw [hr]; exact f0.trans (updatePool_err_frameQ hp0 hu)
  · have ok := updatePool_ok hu
    have f1 := updOk_frameQ hp0 ok
    have hp1 : getPool s1 id = some p1 := getPool_set_self _ _ _ _ ok.pools
    have f2 : FrameQ s1 (zeroed s1 id p1) := ⟨rfl, rfl, evolveQ_set hp1 rfl (zeroRules_accLe _)⟩
    rcases hr with ⟨_, hr⟩ | ⟨_, e, _, hr⟩ | ⟨_, s2, hs, hr⟩
    · rw [hr]; exact (f0.trans f1).trans f2
    · rw [hr]; exact (f0.trans f1).trans f2
    · rw [hr]; exact (((f0.trans f1).trans f2).trans (sendAll_ok hs).1.frameQ).trans (withCp_quiet _ _).frameQ

theorem endBlockOne_frameQ {s s' : State} {id : PoolId} (h : endBlockOne s id = .ok s') : FrameQ s s' := by
  unfold endBlockOne at h
  split at h
  · cases h; exact FrameQ.refl _
  · rename_i p hp
    have := refund_frameQ hp
    generalize refund s id p = res at h this
    obtain ⟨s1, r⟩ := res
    split at h
    · cases h
    · rename_i s2 r2 _ heq
      cases h; cases heq; exact this

theorem endBlockIds_frameQ : ∀ (ids : List PoolId) {s s' : State}, endBlockIds s ids = .ok s' → FrameQ s s'
  | [], s, s', h => by simp [endBlockIds] at h; subst h; exact FrameQ.refl _
  | id :: ids, s, s', h => by
    unfold endBlockIds at h
    split at h
    · cases h
    · rename_i s1 h1
      exact (endBlockOne_frameQ h1).trans (endBlockIds_frameQ ids h)

theorem endBlocks_frameQ : ∀ (n : Nat) (s : State), FrameQ s (endBlocks n s).1
  | 0, s => FrameQ.refl _
  | n + 1, s => by
    unfold endBlocks
    split
    · exact FrameQ.refl _
    · rename_i s1 h1
      have a := endBlockIds_frameQ _ h1
      have b : FrameQ s1 { s1 with height := s1.height + 1 } := ⟨rfl, rfl, evolveQ_same rfl⟩
      exact (a.trans b).trans (endBlocks_frameQ n _)

theorem enqueue_frameQ (s : State) (id : PoolId) (h : Int) : FrameQ s (enqueue s id h) := by
  unfold enqueue; split
  · exact FrameQ.refl _
  · exact ⟨rfl, rfl, evolveQ_same rfl⟩

theorem createCore_frameQ {s2 s' : State} {id creator desc lpt start rpb total editable}
    (h : createPoolCore s2 id creator desc lpt start rpb total editable = .ok s') : FrameQ s2 s' := by
  obtain ⟨m, hnone, _, rfl⟩ := createPoolCore_ok h
  refine FrameQ.trans ?_ (enqueue_frameQ _ _ _)
  refine ⟨rfl, rfl, evolveQ_new hnone rfl ?_⟩
  intro r hr
  show PairOK {} r
  unfold newRules at hr
  simp only [List.mem_map] at hr
  obtain ⟨c, _, e⟩ := hr
  rw [← e]
  refine ⟨Nat.le_refl _, ?_, ?_⟩ <;> simp [markDeficit, deficit, Dec.zero]

theorem qEffect_frameQ {s s' : State} (h : QEffect s s') : FrameQ s s' := by
  cases h with
  | frame f => exact f.frameQ
  | created sa s2 c f1 hd f2 =>
    obtain ⟨_, _, _, s1, h1, h2⟩ := hd
    exact ((f1.frameQ.trans (sendAll_ok h1).1.frameQ).trans (createCore_frameQ h2)).trans f2.frameQ

theorem createPool_frameQ {s s' : State} {id sender desc lpt start rpb total editable}
    (h : stepCreatePool s id sender desc lpt start rpb total editable = .ok s') : FrameQ s s' := by
  obtain ⟨s1, s2, m, _, _, _, _, _, h1, h2, hnone, _, rfl⟩ := stepCreatePool_ok h
  have b12 : BankOnly s s2 := (deductFee_ok h1).trans (sendAll_ok h2).1
  refine (b12.frameQ.trans ?_).trans (enqueue_frameQ _ _ _)
  refine ⟨rfl, rfl, evolveQ_new hnone rfl ?_⟩
  intro r hr
  show PairOK {} r
  unfold newRules at hr
  simp only [List.mem_map] at hr
  obtain ⟨c, _, e⟩ := hr
  rw [← e]
  refine ⟨Nat.le_refl _, ?_, ?_⟩ <;> simp [markDeficit, deficit, Dec.zero]

theorem destroyPool_frameQ {s s' : State} {sender id} (h : stepDestroyPool s sender id = .ok s') : FrameQ s s' := by
  obtain ⟨p, hp, _, _, _, hr⟩ := stepDestroyPool_ok h
  have := refund_frameQ hp
  rw [hr] at this; exact this

theorem adjustCore_frameQ {s s' : State} {id : PoolId} {p1 : Pool} {sh : Int} {st : Bool} {add rpb : CoinList}
    (hp : getPool s id = some p1) (h : adjustCore s id p1 sh st add rpb = .ok s') : FrameQ s s' := by
  unfold adjustCore at h
  split at h; · cases h
  split at h; · cases h
  split at h
  · cases h
    exact ⟨rfl, rfl, evolveQ_set hp rfl (adjustRules_accLe _ _ _)⟩
  · rename_i ah _ _ _
    cases h
    refine FrameQ.trans (b := setPool (dequeue s id p1.endH) id _) ?_ (enqueue_frameQ _ _ _)
    exact ⟨rfl, rfl, evolveQ_set (s := s) hp rfl (adjustRules_accLe _ _ _)⟩

theorem adjustPool_frameQ {s s' : State} {sender id add rpb} (h : stepAdjustPool s sender id add rpb = .ok s') : FrameQ s s' := by
  obtain ⟨p, _, _, _, hp, hat⟩ := stepAdjustPool_ok h
  obtain ⟨s1, p1, s2, _, _, _, _, _, hu, _, h2, hcore⟩ := adjustPoolAt_ok hat
  have ok := updatePool_ok hu
  have f1 := updOk_frameQ hp ok
  have b2 := (sendAll_ok h2).1
  have hp2 : getPool s2 id = some p1 := by
    unfold getPool; rw [b2.pools]; exact getPool_set_self _ _ _ _ ok.pools
  exact (f1.trans b2.frameQ).trans (adjustCore_frameQ hp2 hcore)

end Irismod.Proofs.Farm

namespace Irismod.Proofs.Farm
open Irismod Irismod.Sdk Irismod.Farm Irismod.Spec

/-- the exact share is above the accumulator share by at most the accumulated slack -/
structure XOK (e : Ledger) : Prop where
  lo : (e.owed : ℚ) ≤ e.exact * Uq
  hi : e.exact * Uq - (e.owed : ℚ) ≤ (e.slack : ℚ)

structure QInv (s : State) : Prop where
  pair   : ∀ a id p, getPool s id = some p → ∀ r ∈ p.rules, PairOK (AMap.getD s.ledger (a, id, r.denom) {}) r
  x      : ∀ k, XOK (AMap.getD s.ledger k {})
  orphan : ∀ a id d, getPool s id = none → AMap.getD s.ledger (a, id, d) {} = {}

theorem xok_default : XOK ({} : Ledger) := ⟨by simp, by simp⟩

theorem qInv_frameQ {s s' : State} (fr : FrameQ s s') (h : QInv s) : QInv s' := by
  refine ⟨?_, fun k => by rw [fr.ledger]; exact h.x k, ?_⟩
  · intro a id p' hp' r' hr'
    rw [fr.ledger]
    cases hp : getPool s id with
    | some p =>
      obtain ⟨p2, hp2, e2⟩ := fr.evolve.fwd id p hp
      rw [hp'] at hp2; cases hp2
      obtain ⟨r, hr, hle⟩ := all2_mem e2 r' hr'
      have := h.pair a id p hp r hr
      rw [hle.denom]
      exact this.mono hle
    | none =>
      rw [h.orphan a id r'.denom hp]
      exact fr.evolve.fresh id p' hp' hp r' hr'
  · intro a id d hnone
    rw [fr.ledger]
    apply h.orphan
    cases hp : getPool s id with
    | none => rfl
    | some p =>
      obtain ⟨p2, hp2, _⟩ := fr.evolve.fwd id p hp
      rw [hnone] at hp2; cases hp2

/-- booking one interaction keeps the ℚ-side invariant -/
theorem qInv_book {s3 s' : State} {a : Addr} {id : PoolId} {p1 : Pool} {L : Nat} {rw : CoinList}
    (h : QInv s3) (hp : getPool s3 id = some p1) (hn : (p1.rules.map (·.denom)).Nodup)
    (hpools : s'.pools = s3.pools) (hledger : s'.ledger = bookLedger s3.ledger a id L rw p1.rules) : QInv s' := by
  have gp : ∀ i, getPool s' i = getPool s3 i := fun i => by unfold getPool; rw [hpools]
  refine ⟨?_, ?_, ?_⟩
  · intro a2 id2 p2 hp2 r2 hr2
    rw [gp] at hp2
    rw [hledger]
    by_cases hk : a = a2 ∧ id = id2
    · obtain ⟨e1, e2⟩ := hk; subst e1 e2
      rw [hp] at hp2; cases hp2
      rw [bookLedger_self _ _ _ _ _ _ r2 hn hr2]
      refine ⟨Nat.le_refl _, ?_, ?_⟩
      · show markDeficit (bookOne _ r2 L rw) ≤ deficit r2
        unfold markDeficit bookOne deficit; simp
      · show deficit r2 - markDeficit (bookOne _ r2 L rw) ≤ _
        unfold markDeficit bookOne deficit; simp
    · rw [bookLedger_other _ _ _ _ _ _ (a2, id2, r2.denom)]
      · exact h.pair a2 id2 p2 hp2 r2 hr2
      · intro r _ e
        apply hk
        exact ⟨(Prod.mk.inj e).1, (Prod.mk.inj (Prod.mk.inj e).2).1⟩
  · intro k
    rw [hledger]
    by_cases hk : ∃ r ∈ p1.rules, (a, id, r.denom) = k
    · obtain ⟨r, hr, e⟩ := hk
      subst e
      rw [bookLedger_self _ _ _ _ _ _ r hn hr]
      have hx := h.x (a, id, r.denom)
      have hpair := h.pair a id p1 hp r hr
      generalize AMap.getD s3.ledger (a, id, r.denom) {} = e0 at hx hpair
      have hlo := hpair.lo
      have hhi := hpair.hi
      unfold markDeficit deficit at hlo hhi
      have hL : (0 : ℚ) ≤ (L : ℚ) := Nat.cast_nonneg _
      have key : (bookOne e0 r L rw).exact * Uq - ((bookOne e0 r L rw).owed : ℚ)
          = (e0.exact * Uq - (e0.owed : ℚ)) + (L : ℚ) * ((r.acc * Uq - (r.rps.raw : ℚ)) - (e0.accMark * Uq - (e0.mark : ℚ))) := by
        unfold bookOne
        simp only
        push_cast
        ring
      have hsl : ((bookOne e0 r L rw).slack : ℚ) = (e0.slack : ℚ) + (L : ℚ) * ((r.nRel - e0.relMark : Nat) : ℚ) := by
        unfold bookOne; simp only; push_cast; ring
      refine ⟨?_, ?_⟩
      · have := hx.lo
        have h2 : (0 : ℚ) ≤ (L : ℚ) * ((r.acc * Uq - (r.rps.raw : ℚ)) - (e0.accMark * Uq - (e0.mark : ℚ))) :=
          mul_nonneg hL (by linarith)
        linarith
      · rw [key, hsl]
        have := hx.hi
        have h2 : (L : ℚ) * ((r.acc * Uq - (r.rps.raw : ℚ)) - (e0.accMark * Uq - (e0.mark : ℚ))) ≤ (L : ℚ) * ((r.nRel - e0.relMark : Nat) : ℚ) :=
          mul_le_mul_of_nonneg_left hhi hL
        linarith
    · rw [bookLedger_other _ _ _ _ _ _ k (fun r hr e => hk ⟨r, hr, e⟩)]
      exact h.x k
  · intro a2 id2 d hnone
    rw [gp] at hnone
    rw [hledger, bookLedger_other _ _ _ _ _ _ (a2, id2, d)]
    · exact h.orphan a2 id2 d hnone
    · intro r _ e
      have : id = id2 := (Prod.mk.inj (Prod.mk.inj e).2).1
      subst this
      rw [hp] at hnone; cases hnone

theorem qInv_stake {s s' : State} {sender id denom amt} (hi : Inv s) (hq : QInv s)
    (h : stepStake s sender id denom amt = .ok s') : QInv s' := by
  obtain ⟨p, s1, s2, p1, rewards, debt, s3, _, _, hp, _, _, _, h1, hupd, hc, h3, rfl⟩ := stepStake_ok h
  have b1 := (sendAll_ok h1).1
  have ok := updatePool_ok hupd
  have b3 := (payRewards_ok h3).1
  have hp1 : getPool s1 id = some p := by unfold getPool; rw [b1.pools]; exact hp
  have q3 := qInv_frameQ ((b1.frameQ.trans (updOk_frameQ hp1 ok)).trans b3.frameQ) hq
  have w1 := updOk_wf ok (hi.core.wf id p hp)
  have hp3 : getPool s3 id = some p1 := by unfold getPool; rw [b3.pools]; exact getPool_set_self _ _ _ _ ok.pools
  exact qInv_book q3 hp3 w1.nodup rfl rfl

theorem qInv_harvest {s s' : State} {sender id} (hi : Inv s) (hq : QInv s)
    (h : stepHarvest s sender id = .ok s') : QInv s' := by
  obtain ⟨p, f, s1, p1, rewards, debt, s2, _, hp, _, hf, hupd, hc, h2, rfl⟩ := stepHarvest_ok h
  have ok := updatePool_ok hupd
  have b2 := (payRewards_ok h2).1
  have q2 := qInv_frameQ ((updOk_frameQ hp ok).trans b2.frameQ) hq
  have w1 := updOk_wf ok (hi.core.wf id p hp)
  have hp2 : getPool s2 id = some p1 := by unfold getPool; rw [b2.pools]; exact getPool_set_self _ _ _ _ ok.pools
  exact qInv_book q2 hp2 w1.nodup rfl rfl

theorem unstakePool_frameQ {s s1 : State} {id : PoolId} {p p1 : Pool} {amt : Nat} (hp : getPool s id = some p)
    (h : unstakePool s id p amt = (s1, .ok p1)) : FrameQ s s1 := by
  unfold unstakePool at h
  split at h
  · simp only [Prod.mk.injEq, Except.ok.injEq] at h
    obtain ⟨e1, e2⟩ := h
    subst e1 e2
    exact ⟨rfl, rfl, evolveQ_set hp rfl (all2_refl AccLe.refl _)⟩
  · exact updOk_frameQ hp (updatePool_ok h)

theorem qInv_unstake {s s' : State} {sender id denom amt} (hi : Inv s) (hq : QInv s)
    (h : stepUnstake s sender id denom amt = .ok s') : QInv s' := by
  obtain ⟨p, f, s1, p1, s2, rewards, debt, s3, _, _, hp, _, hf, hamt, hamt2, hbr, h2, hc, h3, rfl⟩ := stepUnstake_ok h
  obtain ⟨c1, hp1, _, _⟩ := unstakePool_core hi.core hp hamt2 hbr
  have b2 := (sendAll_ok h2).1
  have b3 := (payRewards_ok h3).1
  have q3 := qInv_frameQ (((unstakePool_frameQ hp hbr).trans b2.frameQ).trans b3.frameQ) hq
  have w1 := c1.wf id p1 hp1
  have hp3 : getPool s3 id = some p1 := by unfold getPool; rw [b3.pools, b2.pools]; exact hp1
  exact qInv_book q3 hp3 w1.nodup rfl rfl

theorem qInv_stepMsg {s s' : State} {op : Op} (hi : Inv s) (hq : QInv s) (h : stepMsg s op = .ok s') : QInv s' := by
  cases op with
  | createPool sender desc lpt start rpb total editable => exact qInv_frameQ (createPool_frameQ h) hq
  | destroyPool sender id => exact qInv_frameQ (destroyPool_frameQ h) hq
  | adjustPool sender id add rpb => exact qInv_frameQ (adjustPool_frameQ h) hq
  | stake sender id denom amt => exact qInv_stake hi hq h
  | unstake sender id denom amt => exact qInv_unstake hi hq h
  | harvest sender id => exact qInv_harvest hi hq h
  | endBlocks n => simp [stepMsg] at h; subst h; exact hq
  | cpPass pid => simp [stepMsg] at h; subst h; exact hq
  | cpReject pid => simp [stepMsg] at h; subst h; exact hq
  | cpFailDeposit pid => simp [stepMsg] at h; subst h; exact hq
  | cpSubmit proposer title c deposit => exact qInv_frameQ (cpSubmit_quiet h).frameQ hq
  | fundCp sender amt => exact qInv_frameQ (fundCp_quiet h).frameQ hq

theorem qInv_apply (s : State) (op : Op) (hi : Inv s) (hq : QInv s) : QInv (apply s op) := by
  rcases apply_cases s op with ⟨n, _, h⟩ | h | ⟨h, _, _⟩ | h
  · rw [h]; exact qInv_frameQ (endBlocks_frameQ n s) hq
  · rw [h]; exact hq
  · exact qInv_stepMsg hi hq h
  · exact qInv_frameQ (qEffect_frameQ (govStep_q h)) hq

theorem qInv_run : ∀ (ops : List Op) (s : State), Inv s → QInv s → QInv (run s ops)
  | [], _, _, hq => hq
  | op :: ops, s, hi, hq => by
    show QInv (run (apply s op) ops)
    exact qInv_run ops _ (inv_apply s op hi) (qInv_apply s op hi hq)

theorem qInv_genesis {s : State} (hg : C05.Genesis s) : QInv s := by
  obtain ⟨hp, _, _, hlg, _⟩ := hg
  refine ⟨?_, ?_, ?_⟩
  · intro a id p h; unfold getPool at h; rw [hp] at h; cases h
  · intro k; rw [hlg]; exact xok_default
  · intro a id d _; rw [hlg]; rfl

/-- the accumulator bound and the slack bound together: the ℚ form of fairness -/
theorem fairQ_of {e : Ledger} (hf : C06.LedgerFair e) (hx : XOK e) : C06.LedgerFairQ e := by
  unfold C06.LedgerFair at hf
  have hU : ((C06.unit : Nat) : ℚ) = Uq := by unfold C06.unit Uq; norm_num
  have hUpos := Uq_pos
  -- the integer bound, both directions, over ℚ
  have hb1 : ((e.paid : ℚ) * Uq - (e.owed : ℚ)) ≤ (e.n : ℚ) * Uq := by
    have : ((e.paid : Int) * (C06.unit : Int) - e.owed) ≤ ((e.n * (C06.unit - 1) : Nat) : Int) := by omega
    have h2 : (((e.paid : Int) * (C06.unit : Int) - e.owed : Int) : ℚ) ≤ (((e.n * (C06.unit - 1) : Nat) : Int) : ℚ) := by exact_mod_cast this
    push_cast at h2
    have h3 : ((C06.unit - 1 : Nat) : ℚ) ≤ Uq := by unfold C06.unit Uq; norm_num
    have h4 : (e.n : ℚ) * ((C06.unit - 1 : Nat) : ℚ) ≤ (e.n : ℚ) * Uq := mul_le_mul_of_nonneg_left h3 (Nat.cast_nonneg _)
    rw [hU] at h2
    linarith
  have hb2 : (e.owed : ℚ) - (e.paid : ℚ) * Uq ≤ (e.n : ℚ) * Uq := by
    have : e.owed - (e.paid : Int) * (C06.unit : Int) ≤ ((e.n * (C06.unit - 1) : Nat) : Int) := by omega
    have h2 : ((e.owed - (e.paid : Int) * (C06.unit : Int) : Int) : ℚ) ≤ (((e.n * (C06.unit - 1) : Nat) : Int) : ℚ) := by exact_mod_cast this
    push_cast at h2
    have h3 : ((C06.unit - 1 : Nat) : ℚ) ≤ Uq := by unfold C06.unit Uq; norm_num
    have h4 : (e.n : ℚ) * ((C06.unit - 1 : Nat) : ℚ) ≤ (e.n : ℚ) * Uq := mul_le_mul_of_nonneg_left h3 (Nat.cast_nonneg _)
    rw [hU] at h2
    linarith
  unfold C06.LedgerFairQ
  rw [hU]
  constructor
  · -- paid − exact ≤ n
    have : ((e.paid : ℚ) - e.exact) * Uq ≤ (e.n : ℚ) * Uq := by have := hx.lo; nlinarith
    exact le_of_mul_le_mul_right this hUpos
  · -- exact − paid ≤ n + slack / U
    have h5 : (e.exact - (e.paid : ℚ)) * Uq ≤ ((e.n : ℚ) + (e.slack : ℚ) / Uq) * Uq := by
      have := hx.hi
      have : (e.slack : ℚ) / Uq * Uq = (e.slack : ℚ) := div_mul_cancel₀ _ (ne_of_gt hUpos)
      nlinarith
    exact le_of_mul_le_mul_right h5 hUpos

end Irismod.Proofs.Farm
