import Irismod.Proofs.Token
import Mathlib.Tactic.Ring
import Mathlib.Tactic.Linarith
import Mathlib.Tactic.NormNum
import Mathlib.Tactic.Positivity

namespace Irismod.Proofs.TokenSwap
open Irismod Irismod.Sdk Irismod.Token

/-- 10^18 as a natural number -/
abbrev P : Nat := 1000000000000000000

theorem precision_eq : precision = (P : Int) := rfl

theorem chopRoundNat_bounds (k : Nat) :
    2 * chopRoundNat k * P ≤ 2 * k + P ∧ 2 * k ≤ 2 * chopRoundNat k * P + P := by
  unfold chopRoundNat P
  simp only
  split
  · omega
  · split
    · omega
    · split
      · omega
      · split <;> omega

theorem chopRoundNat_exact (a : Nat) : chopRoundNat (a * P) = a := by
  unfold chopRoundNat P
  simp only
  have h1 : a * 1000000000000000000 % 1000000000000000000 = 0 := by omega
  have h2 : a * 1000000000000000000 / 1000000000000000000 = a := by omega
  simp [h1, h2]

theorem chopRound_ofNat (k : Nat) : chopRound (k : Int) = (chopRoundNat k : Int) := by
  unfold chopRound
  have : ¬ ((k : Int) < 0) := by omega
  simp [this]

theorem chkDec_some {v : Int} {d : Dec} (h : (chkDec v).map Dec.mk = some d) : d = ⟨v⟩ := by
  unfold chkDec at h
  split at h
  · simp at h; exact h.symm
  · simp at h

theorem mul_raw {a b d : Dec} (h : a.mul b = some d) : d.raw = chopRound (a.raw * b.raw) := by
  unfold Dec.mul at h
  rw [chkDec_some h]

theorem sub_raw {a b d : Dec} (h : a.sub b = some d) : d.raw = a.raw - b.raw := by
  unfold Dec.sub at h
  rw [chkDec_some h]

theorem truncateInt_val {a : Dec} {v : Int} (h : a.truncateInt = some v) : v = a.raw.tdiv precision := by
  unfold Dec.truncateInt chkInt chopTrunc at h
  split at h
  · cases h; rfl
  · cases h

/-- the product of two non-negative decimals, on naturals -/
theorem mul_nat {a b d : Dec} {x y : Nat} (ha : a.raw = x) (hb : b.raw = y) (h : a.mul b = some d) :
    d.raw = (chopRoundNat (x * y) : Int) := by
  rw [mul_raw h, ha, hb, ← Int.natCast_mul, chopRound_ofNat]

/-! ### the pieces of `LossLessSwap` on naturals -/

/-- the minted amount: `⌊out⌋` -/
theorem minted_nat {out : Dec} {o : Nat} {m : Int} (ho : out.raw = o)
    (h : out.truncateDec.truncateInt = some m) : m = ((o / P : Nat) : Int) := by
  have := truncateInt_val h
  rw [this]
  simp only [Dec.truncateDec, chopTrunc, ho, precision_eq]
  rw [Int.mul_tdiv_cancel _ (by decide)]
  rw [Int.tdiv_eq_ediv_of_nonneg (by omega)]
  norm_cast

/-- the burned amount given the (non-negative) output and reverse multiplier -/
def burnOf (x o revN : Nat) : Int :=
  if o % P = 0 then (x : Int) else ((x : Int) * P - (chopRoundNat (o % P * revN) : Int)).tdiv P

theorem burned_nat {out rev : Dec} {x o revN : Nat} {b : Int} (ho : out.raw = o) (hr : rev.raw = revN)
    (h : llBurn (x : Int) out rev = some b) : b = burnOf x o revN := by
  unfold llBurn at h
  unfold burnOf
  have htr : out.truncateDec.raw = ((o / P * P : Nat) : Int) := by
    simp only [Dec.truncateDec, chopTrunc, ho, precision_eq]
    rw [Int.tdiv_eq_ediv_of_nonneg (by omega)]
    norm_cast
  split at h
  · rename_i heq
    cases h
    have : out.raw = out.truncateDec.raw := by rw [← heq]
    rw [ho, htr] at this
    have h0 : o % P = 0 := by
      have : o = o / P * P := by exact_mod_cast this
      have := Nat.div_add_mod o P
      have h3 : P * (o / P) = o / P * P := Nat.mul_comm _ _
      omega
    simp [h0]
  · rename_i hne
    have h0 : o % P ≠ 0 := by
      intro h0
      apply hne
      have : out.raw = out.truncateDec.raw := by
        rw [ho, htr]
        have := Nat.div_add_mod o P
        have h3 : P * (o / P) = o / P * P := Nat.mul_comm _ _
        have : o = o / P * P := by omega
        exact_mod_cast this
      cases out
      simp only [Dec.truncateDec] at this ⊢
      simp only [Dec.mk.injEq]
      exact this
    simp only [h0, if_false]
    cases hf : out.sub out.truncateDec with
    | none => simp [hf] at h
    | some f =>
      simp only [hf, Option.bind] at h
      cases hg : f.mul rev with
      | none => simp [hg] at h
      | some g =>
        simp only [hg] at h
        cases hd : (Dec.ofInt (x : Int)).sub g with
        | none => simp [hd] at h
        | some d =>
          simp only [hd] at h
          have hfr : f.raw = ((o % P : Nat) : Int) := by
            rw [sub_raw hf, ho, htr]
            have := Nat.div_add_mod o P
            have h3 : P * (o / P) = o / P * P := Nat.mul_comm _ _
            have : o = o / P * P + o % P := by omega
            omega
          have hgr := mul_nat hfr hr hg
          have hdr := sub_raw hd
          rw [truncateInt_val h, hdr, hgr]
          simp [Dec.ofInt, precision_eq]

/-- the output when the input scale is at least the output scale (`k = si - so`) -/
theorem output_down {x q si so : Nat} {out : Dec} (hle : so ≤ si)
    (h : llOutput (x : Int) ⟨(q : Int)⟩ si so = some out) :
    out.raw = (chopRoundNat (x * 10 ^ (18 - (si - so)) * q) : Int) := by
  unfold llOutput at h
  cases h1 : (Dec.ofInt (x : Int)).mul (scaleMul si so) with
  | none => simp [h1] at h
  | some d1 =>
    simp only [h1, Option.bind] at h
    have e1 : (Dec.ofInt (x : Int)).raw = ((x * P : Nat) : Int) := by simp [Dec.ofInt, precision_eq]
    have e2 : (scaleMul si so).raw = ((10 ^ (18 - (si - so)) : Nat) : Int) := by
      simp [scaleMul, hle, Dec.withPrec]
    have r1 := mul_nat e1 e2 h1
    have : x * P * 10 ^ (18 - (si - so)) = x * 10 ^ (18 - (si - so)) * P := by ring
    rw [this, chopRoundNat_exact] at r1
    exact mul_nat r1 rfl h

/-- the output when the output scale is larger (`j = so - si`): no rounding occurs -/
theorem output_up {x q si so : Nat} {out : Dec} (hlt : si < so)
    (h : llOutput (x : Int) ⟨(q : Int)⟩ si so = some out) :
    out.raw = ((x * 10 ^ (so - si) * q : Nat) : Int) := by
  unfold llOutput at h
  cases h1 : (Dec.ofInt (x : Int)).mul (scaleMul si so) with
  | none => simp [h1] at h
  | some d1 =>
    simp only [h1, Option.bind] at h
    have e1 : (Dec.ofInt (x : Int)).raw = ((x * P : Nat) : Int) := by simp [Dec.ofInt, precision_eq]
    have hn : ¬ so ≤ si := by omega
    have e2 : (scaleMul si so).raw = ((10 ^ (so - si) * P : Nat) : Int) := by
      simp [scaleMul, hn, Dec.ofInt, pow10, precision_eq]
    have r1 := mul_nat e1 e2 h1
    have : x * P * (10 ^ (so - si) * P) = x * P * 10 ^ (so - si) * P := by ring
    rw [this, chopRoundNat_exact] at r1
    have r2 := mul_nat r1 (rfl : (Dec.mk (q : Int)).raw = (q : Int)) h
    have : x * P * 10 ^ (so - si) * q = x * 10 ^ (so - si) * q * P := by ring
    rw [this, chopRoundNat_exact] at r2
    exact r2

theorem scaleRev_down {si so : Nat} (hle : so ≤ si) : (scaleRev si so).raw = ((10 ^ (si - so) * P : Nat) : Int) := by
  simp [scaleRev, hle, Dec.ofInt, pow10, precision_eq]

theorem scaleRev_up {si so : Nat} (hlt : si < so) : (scaleRev si so).raw = ((10 ^ (18 - (so - si)) : Nat) : Int) := by
  have hn : ¬ so ≤ si := by omega
  simp [scaleRev, hn, Dec.withPrec]

/-- **characterisation of `LossLessSwap`** on non-negative inputs: the output decimal `o/10^18`,
the minted amount `⌊o/10^18⌋` and the burned amount, in the two scale regimes -/
theorem lossLess_char {x q si so : Nat} {b m : Int} (h : lossLess (x : Int) ⟨(q : Int)⟩ si so = some (b, m)) :
    ∃ o revN : Nat, m = ((o / P : Nat) : Int) ∧ b = burnOf x o revN ∧
      ((so ≤ si ∧ si - so ≤ 18 ∧ o = chopRoundNat (x * 10 ^ (18 - (si - so)) * q) ∧ revN = 10 ^ (si - so) * P) ∨
       (si < so ∧ so - si ≤ 18 ∧ o = x * 10 ^ (so - si) * q ∧ revN = 10 ^ (18 - (so - si)))) := by
  unfold lossLess at h
  split at h; · cases h
  rename_i hg
  split at h; · cases h
  rename_i out hout
  split at h; · cases h
  rename_i b' hb
  split at h; · cases h
  rename_i m' hm
  cases h
  by_cases hle : so ≤ si
  · have ho := output_down hle hout
    refine ⟨_, _, minted_nat ho hm, burned_nat ho (scaleRev_down hle) hb, Or.inl ⟨hle, by omega, rfl, rfl⟩⟩
  · have hlt : si < so := by omega
    have ho := output_up hlt hout
    refine ⟨_, _, minted_nat ho hm, burned_nat ho (scaleRev_up hlt) hb, Or.inr ⟨hlt, by omega, rfl, rfl⟩⟩

/-! ### arithmetic -/

theorem P_pos : 0 < P := by decide

theorem pow_split {k : Nat} (hk : k ≤ 18) : 10 ^ k * 10 ^ (18 - k) = P := by
  rw [← Nat.pow_add]
  have : k + (18 - k) = 18 := by omega
  rw [this]

theorem pow_pos10 (n : Nat) : 0 < 10 ^ n := by positivity

/-- **burned ≤ offered**, whatever the ratio -/
theorem burnOf_le (x o revN : Nat) : burnOf x o revN ≤ (x : Int) := by
  unfold burnOf
  split
  · exact Int.le_refl _
  · have h1 : ((x : Int) * P - (chopRoundNat (o % P * revN) : Int)) ≤ (x : Int) * P := by omega
    have h2 := Int.tdiv_le_tdiv (c := (P : Int)) (by decide) h1
    rw [Int.mul_tdiv_cancel _ (by decide)] at h2
    exact h2

/-- the burned amount leaves less than one input min unit of the give-back behind -/
theorem burnOf_lower (x o revN : Nat) (h : o % P ≠ 0) :
    (x : Int) * P - (chopRoundNat (o % P * revN) : Int) < (burnOf x o revN + 1) * P := by
  unfold burnOf
  simp only [h, if_false]
  exact Int.lt_tdiv_add_one_mul_self _ (by decide)

/-- at ratio 1 with `k = si - so ≥ 0`: burned = x - x mod 10^k, minted = x / 10^k -/
theorem one_down (x k : Nat) (hk : k ≤ 18) :
    let o := chopRoundNat (x * 10 ^ (18 - k) * P)
    o / P = x / 10 ^ k ∧ burnOf x o (10 ^ k * P) = ((x - x % 10 ^ k : Nat) : Int) := by
  intro o
  have ho : o = x * 10 ^ (18 - k) := chopRoundNat_exact _
  have hP := pow_split hk
  have he := pow_pos10 (18 - k)
  have hdiv : x * 10 ^ (18 - k) / P = x / 10 ^ k := by
    rw [← hP]; exact Nat.mul_div_mul_right _ _ he
  have hmod : x * 10 ^ (18 - k) % P = x % 10 ^ k * 10 ^ (18 - k) := by
    rw [← hP]; exact Nat.mul_mod_mul_right _ _ _
  refine ⟨by rw [ho, hdiv], ?_⟩
  unfold burnOf
  rw [ho, hmod]
  by_cases hz : x % 10 ^ k = 0
  · simp [hz]
  · have hne : x % 10 ^ k * 10 ^ (18 - k) ≠ 0 := Nat.mul_ne_zero hz (by omega)
    simp only [hne, if_false]
    have : x % 10 ^ k * 10 ^ (18 - k) * (10 ^ k * P) = x % 10 ^ k * P * P := by
      calc x % 10 ^ k * 10 ^ (18 - k) * (10 ^ k * P) = x % 10 ^ k * (10 ^ k * 10 ^ (18 - k)) * P := by ring
        _ = x % 10 ^ k * P * P := by rw [hP]
    rw [this, chopRoundNat_exact]
    have hle : x % 10 ^ k ≤ x := Nat.mod_le _ _
    have : (x : Int) * P - ((x % 10 ^ k * P : Nat) : Int) = ((x - x % 10 ^ k : Nat) : Int) * P := by
      push_cast [hle]; ring
    rw [this, Int.mul_tdiv_cancel _ (by decide)]

/-- at ratio 1 with `j = so - si > 0`: nothing is given back -/
theorem one_up (x j : Nat) : burnOf x (x * 10 ^ j * P) (10 ^ (18 - j)) = (x : Int) ∧ x * 10 ^ j * P / P = x * 10 ^ j := by
  constructor
  · unfold burnOf
    simp
  · exact Nat.mul_div_cancel _ P_pos

/-! #### value bounds: the abstract inequalities -/

theorem core_down (mm F x e q p R : Int) (hR : p * e = R) (hRpos : 0 < R) (hp : 0 ≤ p)
    (h1 : 2 * (mm * R + F) * R ≤ 2 * (x * e * q) + R) : 2 * (mm * R + F) * p ≤ 2 * x * q + p := by
  have a := mul_le_mul_of_nonneg_right h1 hp
  have b : (2 * (mm * R + F) * p) * R ≤ (2 * x * q + p) * R := by
    subst hR; linarith
  exact le_of_mul_le_mul_right b hRpos

theorem core_down_near (mm F x e q p R B : Int) (hR : p * e = R) (hRpos : 0 < R) (hF : 0 ≤ F) (hp : 0 ≤ p)
    (hq0 : 0 ≤ q) (hq : q ≤ R) (h1 : 2 * (mm * R + F) * R ≤ 2 * (x * e * q) + R)
    (h2 : x * R ≤ B * R + F * p) : 2 * mm * R * p ≤ 2 * B * q + p := by
  have a' := core_down mm F x e q p R hR hRpos hp h1
  have b1 := mul_le_mul_of_nonneg_right h2 hq0
  have b2 : F * p * q ≤ F * p * R := mul_le_mul_of_nonneg_left hq (mul_nonneg hF hp)
  have b3 : (x * q) * R ≤ (B * q + F * p) * R := by linarith
  have b := le_of_mul_le_mul_right b3 hRpos
  linarith

theorem core_up_near (mm F x q t e' g R B : Int) (hR : t * e' = R) (hRpos : 0 < R) (ht : 0 ≤ t) (hg0 : 0 ≤ g)
    (hq0 : 0 ≤ q) (hq : q ≤ R) (h0 : mm * R + F = x * t * q) (hg : 2 * g * R ≤ 2 * (F * e') + R)
    (h2 : x * R ≤ B * R + g) : 2 * mm * R ≤ 2 * B * q * t + t := by
  have c1 := mul_le_mul_of_nonneg_right h2 (mul_nonneg hq0 ht)
  have c2 : g * t * q ≤ g * t * R := mul_le_mul_of_nonneg_left hq (mul_nonneg hg0 ht)
  have c3 : (x * q * t) * R ≤ (B * q * t + g * t) * R := by linarith
  have c := le_of_mul_le_mul_right c3 hRpos
  have d1 := mul_le_mul_of_nonneg_right hg ht
  have d2 : (2 * g * t) * R ≤ (2 * F + t) * R := by subst hR; linarith
  have d := le_of_mul_le_mul_right d2 hRpos
  linarith

/-! #### value bounds for the two regimes -/

theorem div_mod_int (o : Nat) : ((o / P : Nat) : Int) * (P : Int) + ((o % P : Nat) : Int) = (o : Int) := by
  have := Nat.div_add_mod o P
  have h3 : P * (o / P) = o / P * P := Nat.mul_comm _ _
  have : o / P * P + o % P = o := by omega
  exact_mod_cast this

/-- `k = si - so ≥ 0`: minted is worth at most the offered amount, up to half an ulp -/
theorem offered_down (x q k : Nat) (hk : k ≤ 18) :
    2 * ((chopRoundNat (x * 10 ^ (18 - k) * q) / P : Nat) : Int) * P * (10 ^ k : Nat)
      ≤ 2 * (x : Int) * q + (10 ^ k : Nat) := by
  set o := chopRoundNat (x * 10 ^ (18 - k) * q) with ho
  have hA := (chopRoundNat_bounds (x * 10 ^ (18 - k) * q)).1
  rw [← ho] at hA
  have hA' : 2 * (((o / P : Nat) : Int) * P + ((o % P : Nat) : Int)) * P
      ≤ 2 * ((x : Int) * ((10 ^ (18 - k) : Nat) : Int) * q) + P := by
    rw [div_mod_int]; exact_mod_cast hA
  have hR : ((10 ^ k : Nat) : Int) * ((10 ^ (18 - k) : Nat) : Int) = (P : Int) := by exact_mod_cast pow_split hk
  have := core_down _ _ _ _ _ _ _ hR (by decide) (by positivity) hA'
  have hF : (0 : Int) ≤ ((o % P : Nat) : Int) * ((10 ^ k : Nat) : Int) := by positivity
  linarith

/-- `k = si - so ≥ 0`, ratio ≤ 1: minted is worth at most (burned + 1), up to half an ulp -/
theorem near_down (x q k : Nat) (hk : k ≤ 18) (hq : q ≤ P) :
    2 * ((chopRoundNat (x * 10 ^ (18 - k) * q) / P : Nat) : Int) * P * (10 ^ k : Nat)
      ≤ 2 * (burnOf x (chopRoundNat (x * 10 ^ (18 - k) * q)) (10 ^ k * P) + 1) * q + (10 ^ k : Nat) := by
  set o := chopRoundNat (x * 10 ^ (18 - k) * q) with ho
  by_cases hz : o % P = 0
  · have hb : burnOf x o (10 ^ k * P) = (x : Int) := by unfold burnOf; simp [hz]
    rw [hb]
    have := offered_down x q k hk
    rw [← ho] at this
    have hq0 : (0 : Int) ≤ q := by positivity
    linarith
  · have hA := (chopRoundNat_bounds (x * 10 ^ (18 - k) * q)).1
    rw [← ho] at hA
    have hA' : 2 * (((o / P : Nat) : Int) * P + ((o % P : Nat) : Int)) * P
        ≤ 2 * ((x : Int) * ((10 ^ (18 - k) : Nat) : Int) * q) + P := by
      rw [div_mod_int]; exact_mod_cast hA
    have hR : ((10 ^ k : Nat) : Int) * ((10 ^ (18 - k) : Nat) : Int) = (P : Int) := by exact_mod_cast pow_split hk
    have hlow := burnOf_lower x o (10 ^ k * P) hz
    have hg : chopRoundNat (o % P * (10 ^ k * P)) = o % P * 10 ^ k := by
      have : o % P * (10 ^ k * P) = o % P * 10 ^ k * P := by ring
      rw [this, chopRoundNat_exact]
    rw [hg] at hlow
    have h2 : (x : Int) * P ≤ (burnOf x o (10 ^ k * P) + 1) * P + ((o % P : Nat) : Int) * ((10 ^ k : Nat) : Int) := by
      push_cast at hlow ⊢; linarith
    exact core_down_near _ _ _ _ _ _ _ _ hR (by decide) (by positivity) (by positivity) (by positivity)
      (by exact_mod_cast hq) hA' h2

/-- `j = so - si > 0`: minted is worth at most the offered amount (no rounding at all) -/
theorem offered_up (x q j : Nat) : ((x * 10 ^ j * q / P : Nat) : Int) * P ≤ (x : Int) * (10 ^ j : Nat) * q := by
  have := Nat.div_mul_le_self (x * 10 ^ j * q) P
  exact_mod_cast this

/-- `j = so - si > 0`, ratio ≤ 1: minted is worth at most (burned + 1), up to half an output min unit
of the 18th decimal -/
theorem near_up (x q j : Nat) (hj : j ≤ 18) (hq : q ≤ P) :
    2 * ((x * 10 ^ j * q / P : Nat) : Int) * P
      ≤ 2 * (burnOf x (x * 10 ^ j * q) (10 ^ (18 - j)) + 1) * q * (10 ^ j : Nat) + (10 ^ j : Nat) := by
  set o := x * 10 ^ j * q with ho
  by_cases hz : o % P = 0
  · have hb : burnOf x o (10 ^ (18 - j)) = (x : Int) := by unfold burnOf; simp [hz]
    rw [hb]
    have := offered_up x q j
    rw [← ho] at this
    have h1 : (0 : Int) ≤ (q : Int) * ((10 ^ j : Nat) : Int) := by positivity
    have h2 : (0 : Int) ≤ ((10 ^ j : Nat) : Int) := by positivity
    nlinarith
  · have hR : ((10 ^ j : Nat) : Int) * ((10 ^ (18 - j) : Nat) : Int) = (P : Int) := by exact_mod_cast pow_split hj
    have hlow := burnOf_lower x o (10 ^ (18 - j)) hz
    have hgb := (chopRoundNat_bounds (o % P * 10 ^ (18 - j))).1
    set g := chopRoundNat (o % P * 10 ^ (18 - j)) with hgdef
    have h0 : ((o / P : Nat) : Int) * P + ((o % P : Nat) : Int) = (x : Int) * ((10 ^ j : Nat) : Int) * q := by
      rw [div_mod_int, ho]; push_cast; ring
    have hg' : 2 * (g : Int) * P ≤ 2 * (((o % P : Nat) : Int) * ((10 ^ (18 - j) : Nat) : Int)) + P := by
      exact_mod_cast hgb
    have h2 : (x : Int) * P ≤ (burnOf x o (10 ^ (18 - j)) + 1) * P + (g : Int) := by linarith
    exact core_up_near _ _ _ _ _ _ _ _ _ hR (by decide) (by positivity) (by positivity) (by positivity)
      (by exact_mod_cast hq) h0 hg' h2

end Irismod.Proofs.TokenSwap
