/-
Arithmetic of `LossLessSwap` (the exact-integer algorithm of /repo be84bab) for C10: the
characterisation of the model function on naturals, the floor/ceiling facts behind the value
statement, and exactness at ratio 1.
-/
import Irismod.Proofs.Token
import Mathlib.Tactic.Ring
import Mathlib.Tactic.Linarith
import Mathlib.Tactic.NormNum
import Mathlib.Tactic.Positivity

namespace Irismod.Proofs.TokenSwap
open Irismod Irismod.Sdk Irismod.Token

/-- 10^18 as a natural number -/
abbrev P : Nat := 1000000000000000000

theorem precision_eq : precision = (P : Int) := rfl

theorem P_pos : 0 < P := by decide

theorem pow_pos10 (n : Nat) : 0 < 10 ^ n := by positivity

theorem chkInt_some {v w : Int} (h : chkInt v = some w) : w = v := by
  unfold chkInt at h
  split at h
  · cases h; rfl
  · cases h

/-- the output of a swap on naturals: `⌊X · n / d⌋` -/
def outN (X n d : Nat) : Nat := X * n / d

/-- the input taken on naturals: `⌈m · d / n⌉` computed as `(m·d + (n-1)) / n` -/
def takenN (m n d : Nat) : Nat := (m * d + (n - 1)) / n

/-- **characterisation of `LossLessSwap`**: `(0, 0)` for a non-positive input or ratio, otherwise
floor / ceiling over `num = Q·10^so`, `den = 10^18·10^si` -/
theorem lossLess_char {x : Int} {ratio : Dec} {si so : Nat} {b m : Int}
    (h : lossLess x ratio si so = some (b, m)) :
    (b = 0 ∧ m = 0 ∧ (x ≤ 0 ∨ ratio.raw ≤ 0)) ∨
    ∃ X Q : Nat, 0 < X ∧ 0 < Q ∧ x = (X : Int) ∧ ratio.raw = (Q : Int) ∧
      m = (outN X (Q * 10 ^ so) (P * 10 ^ si) : Int) ∧
      b = (takenN (outN X (Q * 10 ^ so) (P * 10 ^ si)) (Q * 10 ^ so) (P * 10 ^ si) : Int) := by
  unfold lossLess at h
  split at h
  · rename_i hg
    cases h
    exact Or.inl ⟨rfl, rfl, hg⟩
  · rename_i hg
    split at h; · cases h
    rename_i b' hb
    split at h; · cases h
    rename_i m' hm
    cases h
    right
    have hx : 0 < x := by omega
    have hq : 0 < ratio.raw := by omega
    obtain ⟨X, rfl⟩ := Int.eq_ofNat_of_zero_le (Int.le_of_lt hx)
    obtain ⟨Q, hQ⟩ := Int.eq_ofNat_of_zero_le (Int.le_of_lt hq)
    have hnum : swapNum ratio so = ((Q * 10 ^ so : Nat) : Int) := by
      simp [swapNum, hQ, pow10]
    have hden : swapDen si = ((P * 10 ^ si : Nat) : Int) := by
      simp [swapDen, precision_eq, pow10]
    have hout : swapOutput (X : Int) (swapNum ratio so) (swapDen si) = (outN X (Q * 10 ^ so) (P * 10 ^ si) : Int) := by
      rw [hnum, hden]
      unfold swapOutput outN
      rw [Int.tdiv_eq_ediv_of_nonneg (by positivity)]
      norm_cast
    refine ⟨X, Q, by exact_mod_cast hx, by rw [hQ] at hq; exact_mod_cast hq, rfl, hQ, ?_, ?_⟩
    · rw [chkInt_some hm, hout]
    · rw [chkInt_some hb, hout, hnum, hden]
      unfold swapTaken takenN
      have hn1 : 1 ≤ Q * 10 ^ so := by
        have : 0 < Q := by rw [hQ] at hq; exact_mod_cast hq
        have := pow_pos10 so
        exact Nat.mul_pos ‹0 < Q› this
      rw [Int.tdiv_eq_ediv_of_nonneg (by
        have : (0 : Int) ≤ ((Q * 10 ^ so : Nat) : Int) - 1 := by
          have : (1 : Int) ≤ ((Q * 10 ^ so : Nat) : Int) := by exact_mod_cast hn1
          omega
        positivity)]
      have : (((Q * 10 ^ so : Nat) : Int) - 1) = ((Q * 10 ^ so - 1 : Nat) : Int) := by
        rw [Nat.cast_sub hn1]; rfl
      rw [this]
      norm_cast

/-! ### floor and ceiling facts -/

/-- the output is worth at most the input: `⌊X·n/d⌋ · d ≤ X · n` -/
theorem outN_mul_le (X n d : Nat) : outN X n d * d ≤ X * n := Nat.div_mul_le_self _ _

/-- the taken input covers the output: `m · d ≤ ⌈m·d/n⌉ · n` -/
theorem le_takenN_mul (m n d : Nat) (hn : 0 < n) : m * d ≤ takenN m n d * n := by
  unfold takenN
  have h1 := Nat.div_add_mod (m * d + (n - 1)) n
  have h2 := Nat.mod_lt (m * d + (n - 1)) hn
  have h3 : n * ((m * d + (n - 1)) / n) = (m * d + (n - 1)) / n * n := Nat.mul_comm _ _
  generalize (m * d + (n - 1)) / n * n = t at *
  generalize (m * d + (n - 1)) % n = r at *
  generalize m * d = a at *
  omega

/-- … and is the least such amount, so never more than what was offered -/
theorem takenN_le (X m n d : Nat) (hn : 0 < n) (h : m * d ≤ X * n) : takenN m n d ≤ X := by
  unfold takenN
  have : (m * d + (n - 1)) / n < X + 1 := by
    rw [Nat.div_lt_iff_lt_mul hn]
    have : (X + 1) * n = X * n + n := by ring
    omega
  omega

/-- `(c · n + (n - 1)) / n = c` -/
theorem takenN_exact (c n d m : Nat) (hn : 0 < n) (h : m * d = c * n) : takenN m n d = c := by
  unfold takenN
  rw [h]
  have : c * n + (n - 1) = n * c + (n - 1) := by ring
  rw [this, Nat.mul_add_div hn]
  have : (n - 1) / n = 0 := Nat.div_eq_of_lt (by omega)
  omega

/-! ### ratio 1 -/

theorem pow_add_split {a b : Nat} (h : b ≤ a) : 10 ^ a = 10 ^ (a - b) * 10 ^ b := by
  rw [← Nat.pow_add]; congr 1; omega

/-- ratio 1, `so ≥ si`: everything offered is taken and `X · 10^(so-si)` is minted -/
theorem one_up (X si so : Nat) (h : si ≤ so) :
    outN X (P * 10 ^ so) (P * 10 ^ si) = X * 10 ^ (so - si) ∧
    takenN (outN X (P * 10 ^ so) (P * 10 ^ si)) (P * 10 ^ so) (P * 10 ^ si) = X := by
  have hd : 0 < P * 10 ^ si := Nat.mul_pos P_pos (pow_pos10 _)
  have hn : 0 < P * 10 ^ so := Nat.mul_pos P_pos (pow_pos10 _)
  have e : X * (P * 10 ^ so) = X * 10 ^ (so - si) * (P * 10 ^ si) := by
    rw [pow_add_split h]; ring
  have ho : outN X (P * 10 ^ so) (P * 10 ^ si) = X * 10 ^ (so - si) := by
    unfold outN; rw [e]; exact Nat.mul_div_cancel _ hd
  refine ⟨ho, ?_⟩
  rw [ho]
  exact takenN_exact X _ _ _ hn e.symm

/-- ratio 1, `si > so` (`k = si - so`): `X / 10^k` is minted, `X - X mod 10^k` is taken -/
theorem one_down (X si so : Nat) (h : so ≤ si) :
    outN X (P * 10 ^ so) (P * 10 ^ si) = X / 10 ^ (si - so) ∧
    takenN (outN X (P * 10 ^ so) (P * 10 ^ si)) (P * 10 ^ so) (P * 10 ^ si) = X / 10 ^ (si - so) * 10 ^ (si - so) := by
  have hn : 0 < P * 10 ^ so := Nat.mul_pos P_pos (pow_pos10 _)
  have ed : P * 10 ^ si = P * 10 ^ so * 10 ^ (si - so) := by
    rw [pow_add_split h]; ring
  have ho : outN X (P * 10 ^ so) (P * 10 ^ si) = X / 10 ^ (si - so) := by
    unfold outN
    rw [ed, Nat.mul_comm X, Nat.mul_div_mul_left _ _ hn]
  refine ⟨ho, ?_⟩
  rw [ho]
  apply takenN_exact _ _ _ _ hn
  rw [ed]; ring

end Irismod.Proofs.TokenSwap
