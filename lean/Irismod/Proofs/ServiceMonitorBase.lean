/-
Monitor soundness for the service module (C07, C08, the service slices of C13 and C12) — shared
definitions: the invariant the monitors assume of the previous observation line (`SInv`), the side
conditions of one operation line (`OpOK`: the exclusion hypotheses of the headline theorems), and the
invariants relating the C08 monitor's memory to the model state (`M08a`).

The pieces: `ServiceMonitorInv` (the invariant is kept by every operation), `ServiceMonitorC07*`,
`ServiceMonitorC08*`, `ServiceMonitorC13`, `ServiceMonitorC12`; `ServiceMonitor` states the headline theorems.
-/
import Irismod.Props.C07
import Irismod.Props.C08
import Irismod.Props.C13_Service
import Irismod.Props.C12_Service
import Irismod.Spec.C13_Service

namespace Irismod.Proofs.ServiceMonitor
open Irismod Irismod.Sdk Irismod.Service Irismod.Proofs.Service Irismod.Proofs.ServiceGenesis

/-- the verdict word of the model as the monitor reads it: accepted = `ok` -/
def accepted (s : State) (op : Op) : Bool :=
  match step s op with
  | .ok _ => true
  | .error _ => false

/-- the monitors need one observation per block: a multi-block `skip` line is flagged by every monitor
(`multi-block-step-not-monitorable`) and is never generated in monitored runs -/
def notSkip : Op → Prop
  | .skip _ _ => False
  | _ => True

/-- the side conditions of one operation line — the exclusion hypotheses of the headline theorems:
`CleanOp` (user accounts, no promotion — F-svc-1 otherwise —, fresh context id, no keeper-only owner-wide
withdrawal), `opGenesisOk` / `opValidated` (module-level entry points used the way the code base uses them) -/
def OpOK (s : State) (op : Op) : Prop :=
  Irismod.Props.C07.CleanOp { s with cb := [] } op ∧ opGenesisOk op ∧ opValidated op ∧ notSkip op

/-- every active request was issued in a past block -/
def ActPast (s : State) : Prop := ∀ r, r ∈ s.active → r.h < s.height

/-- recorded responses: unique keys, each for a request that is no longer active and was issued in a past block -/
structure RespInv (s : State) : Prop where
  nd   : KeysNodup s.resps
  past : ∀ e, e ∈ s.resps → e.1 ∉ s.active ∧ e.1.h < s.height

/-- every context with a running batch awaits its expiry; every running context awaits an event -/
structure Awaits (s : State) : Prop where
  exp : ∀ id c, AMap.get? s.ctxs id = some c → c.batchState = .running → AMap.contains s.expH id = true
  any : ∀ id c, AMap.get? s.ctxs id = some c → c.state = .running →
          AMap.contains s.expH id = true ∨ AMap.contains s.newH id = true

/-- **the invariant the monitors assume of the previous observation line** -/
structure SInv (s : State) : Prop where
  reach  : Reach s          -- `Full` (WF, DI, NoPromo, EscrowInv), `TB`, `GI`
  ns     : NS s             -- WF, well-timed contexts, no stale queue entry
  past   : ActPast s
  resp   : RespInv s
  awaits : Awaits s

theorem SInv.wf {s : State} (h : SInv s) : WF s := h.reach.1.1
theorem SInv.di {s : State} (h : SInv s) : DI s := h.reach.1.2.1
theorem SInv.noPromo {s : State} (h : SInv s) : NoPromo s := h.reach.1.2.2.1
theorem SInv.escrow {s : State} (h : SInv s) : Irismod.Spec.C07.EscrowInv s := h.reach.1.2.2.2
theorem SInv.full {s : State} (h : SInv s) : Full s := h.reach.1
theorem SInv.tb {s : State} (h : SInv s) : TB s := h.reach.2.1
theorem SInv.gi {s : State} (h : SInv s) : GI s := h.reach.2.2
theorem SInv.ctxsOk {s : State} (h : SInv s) : CtxsOk s := h.ns.2.1
theorem SInv.noStale {s : State} (h : SInv s) : Irismod.Spec.C13S.NoStale s := h.ns.2.2

theorem OpOK.users {s : State} {op : Op} (h : OpOK s op) : opUsers op := h.1.1
theorem OpOK.noPromo {s : State} {op : Op} (h : OpOK s op) : opNoPromo op := h.1.2.1
theorem OpOK.fresh {s : State} {op : Op} (h : OpOK s op) : FreshOp { s with cb := [] } op := h.1.2.2.1
theorem OpOK.reachable {s : State} {op : Op} (h : OpOK s op) : opReachable op := h.1.2.2.2
theorem OpOK.genesis {s : State} {op : Op} (h : OpOK s op) : opGenesisOk op := h.2.1
theorem OpOK.validated {s : State} {op : Op} (h : OpOK s op) : opValidated op := h.2.2.1
theorem OpOK.notSkip {s : State} {op : Op} (h : OpOK s op) : notSkip op := h.2.2.2

/-- resetting the per-operation callback log changes nothing the invariant reads -/
theorem accepted_ok {s s' : State} {op : Op} (h : step s op = .ok s') : accepted s op = true ∧ apply s op = s' := by
  unfold accepted apply; rw [h]; exact ⟨rfl, rfl⟩

theorem accepted_err {s : State} {op : Op} {e : Err} (h : step s op = .error e) :
    accepted s op = false ∧ apply s op = { s with cb := [] } := by
  unfold accepted apply; rw [h]; exact ⟨rfl, rfl⟩

/-! ### the C08 monitor's memory -/

/-- outcome memory: a request the monitor has seen answered or expired is not active and was issued in a
past block (so it can never be active again: `Props.C08.no_reactivation`); every request id the monitor has
seen entering was issued in a past block -/
structure M08a (m : Irismod.Spec.C08.Mon) (s : State) : Prop where
  done : ∀ r, r ∈ m.answered ∨ r ∈ m.expired → r ∉ s.active ∧ r.h < s.height
  seen : ∀ r, r ∈ m.seen → r.h < s.height

theorem M08a.init (s : State) : M08a {} s :=
  ⟨fun r h => by rcases h with h | h <;> exact absurd h (List.not_mem_nil),
   fun r h => absurd h (List.not_mem_nil)⟩

end Irismod.Proofs.ServiceMonitor
