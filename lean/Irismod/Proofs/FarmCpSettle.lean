/-
How each escrow is settled (C06 for community-pool farms): a passed proposal whose handler runs
turns exactly the escrowed funds into the budget of a new pool owned by the distribution module
account; a rejected proposal, a passed proposal whose handler fails and a proposal that missed its
minimum deposit return the self-bond to the proposer and the applied funds to the distribution
module account and the community pool; afterwards the escrow info is gone and no further call of
the hooks changes anything.
-/
import Irismod.Proofs.FarmCpInv

namespace Irismod.Proofs.Farm
open Irismod Irismod.Sdk Irismod.Farm Irismod.Spec

/-- the pool the handler of a passed proposal creates -/
theorem handlerRan_pool {sa s2 : State} {c : Content} (h : HandlerRan sa s2 c) :
    s2.seq = sa.seq + 1 ∧ getPool sa (poolIdOf (sa.seq + 1)) = none ∧
    (∀ id2, poolIdOf (sa.seq + 1) ≠ id2 → getPool s2 id2 = getPool sa id2) ∧
    ∃ p, getPool s2 (poolIdOf (sa.seq + 1)) = some p ∧ p.creator = distrAcc ∧ p.editable = false ∧
      p.start = sa.height ∧ p.locked = 0 ∧ p.lpt = c.lpt ∧ p.desc = c.desc ∧
      (∀ d, C05.remainingIn d p.rules = sumOf c.applied d + sumOf c.selfBond d) ∧
      (∀ r ∈ p.rules, r.remaining = r.total ∧ r.released = 0 ∧ r.refunded = 0) := by
  obtain ⟨_, _, _, s1, h1, h2⟩ := h
  have b1 := (sendAll_ok h1).1
  obtain ⟨m, hnone, _, hs2⟩ := createPoolCore_ok h2
  have hpl : s2.pools = AMap.set s1.pools (poolIdOf (s1.seq + 1))
      { creator := distrAcc, desc := c.desc, start := s1.height, endH := s1.height + (m : Int), last := 0,
        editable := false, lpt := c.lpt, locked := 0, rules := newRules (totalOf c) c.rpb } := by
    rw [hs2]; unfold enqueue; split <;> rfl
  have hsq : s2.seq = s1.seq + 1 := by rw [hs2]; unfold enqueue; split <;> rfl
  rw [b1.seq] at hnone hpl hsq
  refine ⟨hsq, ?_, ?_, _, getPool_set_self _ _ _ _ hpl, rfl, rfl, b1.height, rfl, rfl, rfl, ?_, ?_⟩
  · unfold getPool at hnone ⊢; rw [← b1.pools]; exact hnone
  · intro id2 hne
    rw [getPool_set_other s1 s2 _ id2 _ hpl hne]
    unfold getPool; rw [b1.pools]
  · intro d
    show C05.remainingIn d (newRules (totalOf c) c.rpb) = _
    rw [remainingIn_newRules, sumOf_totalOf]
  · intro r hr
    have hr' : r ∈ newRules (totalOf c) c.rpb := hr
    unfold newRules at hr'
    simp only [List.mem_map] at hr'
    obtain ⟨x, _, e⟩ := hr'
    rw [← e]; exact ⟨rfl, rfl, rfl⟩

/-- **pass → pool budget**: gov's EndBlocker on a proposal in its voting period with a passing
tally whose handler runs: the escrow info is deleted, the proposal is `Passed`, and exactly the
escrowed funds have become the budget of a new non-editable pool owned by the distribution module
account — the escrow collector is debited, the farm module account credited with them, the
distribution module account and the community pool are untouched. -/
theorem tally_executed {s s1 s2 : State} {pid : Nat} {pr : Proposal} {e : Escrow} (hi : CpInv s) (hu : CpUsers s)
    (hp : AMap.get? s.cp.props pid = some pr) (he : AMap.get? s.cp.escrow pid = some e)
    (h1 : refundDeposit s pr = .ok s1) (hh : cpHandler s1 pr.content = .ok s2) :
    let s' := delEscrow (setProp s2 pid { pr with status := .passed, deposit := 0 }) pid
    AMap.get? s'.cp.escrow pid = none ∧
    (∃ pr', AMap.get? s'.cp.props pid = some pr' ∧ pr'.status = .passed) ∧
    (∃ p, getPool s' (poolIdOf (s.seq + 1)) = some p ∧ p.creator = distrAcc ∧ p.editable = false ∧ p.start = s.height ∧
      ∀ d, C05.remainingIn d p.rules = C05.escrowHolds d e) ∧
    (∀ d, s'.bank.balOf escrowAcc d + C05.escrowHolds d e = s.bank.balOf escrowAcc d) ∧
    (∀ d, s'.bank.balOf farmAcc d = s.bank.balOf farmAcc d + C05.escrowHolds d e) ∧
    (∀ d, s'.bank.balOf distrAcc d = s.bank.balOf distrAcc d) ∧ (∀ d, C05.cpoolOf s' d = C05.cpoolOf s d) := by
  intro s'
  obtain ⟨s1', h1', hc1, _, ho1, _⟩ := refundDeposit_done (hu.2 pid pr hp) (deposit_le_gov hi hp)
  rw [h1] at h1'; cases h1'
  obtain ⟨w1, _, w3⟩ := user_ne3 (hu.2 pid pr hp)
  have hq1 : Quiet s s1 := refundDeposit_quiet h1
  have hr := cpHandler_ok hh
  obtain ⟨hc2, hb1, hb2, hb3⟩ := handlerRan_bank hr
  obtain ⟨_, _, _, p, hpool, hcre, hed, hst, _, _, _, hbud, _⟩ := handlerRan_pool hr
  obtain ⟨pr0, hp0, _, _, ea, es⟩ := hi.tables.info pid e he
  rw [hp] at hp0; cases hp0
  have hholds : ∀ d, C05.escrowHolds d e = sumOf pr.content.applied d + sumOf pr.content.selfBond d := by
    intro d; rw [escrowHolds_eq, ea, es]
  have hfu : pr.proposer ≠ farmAcc := (user_ne (hu.2 pid pr hp)).1
  refine ⟨?_, ⟨_, AMap.get?_set_self _ _ _, rfl⟩, ⟨p, ?_, hcre, hed, by rw [hst, hq1.height], ?_⟩, ?_, ?_, ?_, ?_⟩
  · show AMap.get? (AMap.erase s2.cp.escrow pid) pid = none
    exact get?_erase_self _ _
  · show getPool s2 _ = _; rw [← hq1.seq]; exact hpool
  · intro d; rw [hbud d, hholds d]
  · intro d
    show s2.bank.balOf escrowAcc d + _ = _
    rw [hholds d]; have := hb1 d; have := ho1 escrowAcc d (by decide) (Ne.symm w1); omega
  · intro d
    show s2.bank.balOf farmAcc d = _
    rw [hholds d, hb2 d, ho1 farmAcc d (by decide) (Ne.symm hfu)]
  · intro d
    show s2.bank.balOf distrAcc d = _
    rw [hb3 distrAcc d (by decide) (by decide), ho1 distrAcc d (by decide) (Ne.symm w3)]
  · intro d
    unfold C05.cpoolOf
    show cpGet s2.cp.pool d = _
    rw [hc2, hc1]

/-- **reject / failed handler → back to proposer and community pool**: the escrow info is deleted,
the self-bond is back on the proposer's account (together with the deposit gov refunds), the
applied funds are back in the distribution module account and in the community pool; the escrow
collector is debited with exactly both. -/
theorem tally_refunded {s s1 : State} {pid : Nat} {pr : Proposal} {e : Escrow} (st : PStatus) (hi : CpInv s) (hu : CpUsers s)
    (hp : AMap.get? s.cp.props pid = some pr) (he : AMap.get? s.cp.escrow pid = some e)
    (h1 : refundDeposit s pr = .ok s1) :
    let s' := refundEscrow (setProp s1 pid { pr with status := st, deposit := 0 }) pid e
    AMap.get? s'.cp.escrow pid = none ∧
    (∃ pr', AMap.get? s'.cp.props pid = some pr' ∧ pr'.status = st) ∧
    (∀ d, s'.bank.balOf escrowAcc d + C05.escrowHolds d e = s.bank.balOf escrowAcc d) ∧
    (∀ d, s'.bank.balOf e.proposer d = s.bank.balOf e.proposer d + sumOf e.selfBond d + (if d = depositDenom then pr.deposit else 0)) ∧
    (∀ d, s'.bank.balOf distrAcc d = s.bank.balOf distrAcc d + sumOf e.applied d) ∧
    (∀ d, C05.cpoolOf s' d = C05.cpoolOf s d + sumOf e.applied d * decUnit) ∧
    (∀ d, s'.bank.balOf farmAcc d = s.bank.balOf farmAcc d) ∧ s'.pools = s.pools := by
  intro s'
  obtain ⟨s1', h1', hc1, _, ho1, hup⟩ := refundDeposit_done (hu.2 pid pr hp) (deposit_le_gov hi hp)
  rw [h1] at h1'; cases h1'
  obtain ⟨w1, _, w3⟩ := user_ne3 (hu.2 pid pr hp)
  have hue := hu.1 pid e he
  obtain ⟨pr0, hp0, _, eprop, _, _⟩ := hi.tables.info pid e he
  rw [hp] at hp0; cases hp0
  have hq1 : Quiet s s1 := refundDeposit_quiet h1
  have hcov : ∀ d, C05.escrowHolds d e ≤ (setProp s1 pid { pr with status := st, deposit := 0 }).bank.balOf escrowAcc d := by
    intro d
    show _ ≤ s1.bank.balOf escrowAcc d
    rw [ho1 escrowAcc d (by decide) (Ne.symm w1)]; exact holds_le_escrow hi he d
  have r := refundEscrow_done (pid := pid) hue hcov
  have hfu := user_ne hue
  refine ⟨?_, ⟨{ pr with status := st, deposit := 0 }, ?_, rfl⟩, ?_, ?_, ?_, ?_, ?_, ?_⟩
  · show AMap.get? (refundEscrow _ pid e).cp.escrow pid = none
    rw [r.esc]; exact get?_erase_self _ _
  · show AMap.get? (refundEscrow _ pid e).cp.props pid = _
    rw [r.props]; exact AMap.get?_set_self _ _ _
  · intro d
    have := r.escrow d
    have e0 : (setProp s1 pid { pr with status := st, deposit := 0 }).bank.balOf escrowAcc d = s.bank.balOf escrowAcc d :=
      ho1 escrowAcc d (by decide) (Ne.symm w1)
    show (refundEscrow _ pid e).bank.balOf escrowAcc d + _ = _
    omega
  · intro d
    show (refundEscrow _ pid e).bank.balOf e.proposer d = _
    rw [r.user d]
    show s1.bank.balOf e.proposer d + _ = _
    rw [eprop, hup d]; omega
  · intro d
    show (refundEscrow _ pid e).bank.balOf distrAcc d = _
    rw [r.distr d]
    show s1.bank.balOf distrAcc d + _ = _
    rw [ho1 distrAcc d (by decide) (Ne.symm w3)]
  · intro d
    show C05.cpoolOf (refundEscrow _ pid e) d = _
    rw [r.pool d]
    unfold C05.cpoolOf
    show cpGet s1.cp.pool d + _ = _
    rw [hc1]
  · intro d
    show (refundEscrow _ pid e).bank.balOf farmAcc d = _
    rw [r.others farmAcc d (by decide) (Ne.symm hfu.1) (by decide)]
    show s1.bank.balOf farmAcc d = _
    exact ho1 farmAcc d (by decide) (Ne.symm (user_ne (hu.2 pid pr hp)).1)
  · have := (refundEscrow_quiet (setProp s1 pid { pr with status := st, deposit := 0 }) pid e).pools
    show (refundEscrow _ pid e).pools = _
    rw [this]; exact hq1.pools

/-- **failed minimum deposit → back to proposer and community pool**: the proposal is deleted,
deposit and self-bond are back on the proposer's account, the applied funds back in the
distribution module account and the community pool. -/
theorem failDeposit_refunded {s : State} {pid : Nat} {pr : Proposal} (hi : CpInv s) (hu : CpUsers s)
    (hp : AMap.get? s.cp.props pid = some pr) (hd : pr.status = .deposit) :
    ∃ e, AMap.get? s.cp.escrow pid = some e ∧
    let s' := (govFailDeposit s pid).1
    AMap.get? s'.cp.escrow pid = none ∧ AMap.get? s'.cp.props pid = none ∧
    (∀ d, s'.bank.balOf escrowAcc d + C05.escrowHolds d e = s.bank.balOf escrowAcc d) ∧
    (∀ d, s'.bank.balOf e.proposer d = s.bank.balOf e.proposer d + sumOf e.selfBond d + (if d = depositDenom then pr.deposit else 0)) ∧
    (∀ d, s'.bank.balOf distrAcc d = s.bank.balOf distrAcc d + sumOf e.applied d) ∧
    (∀ d, C05.cpoolOf s' d = C05.cpoolOf s d + sumOf e.applied d * decUnit) := by
  obtain ⟨e, s1, he, h1, hres⟩ := govFailDeposit_due hi hu hp hd
  refine ⟨e, he, ?_⟩
  intro s'
  have hs' : s' = refundEscrow s1 pid e := by show (govFailDeposit s pid).1 = _; rw [hres]
  have hcov0 : pr.deposit ≤ (delProp s pid).bank.balOf govAcc depositDenom := deposit_le_gov hi hp
  obtain ⟨s1', h1', hc1, _, ho1, hup⟩ := refundDeposit_done (hu.2 pid pr hp) hcov0
  rw [h1] at h1'; cases h1'
  obtain ⟨w1, _, w3⟩ := user_ne3 (hu.2 pid pr hp)
  have hue := hu.1 pid e he
  obtain ⟨pr0, hp0, _, eprop, _, _⟩ := hi.tables.info pid e he
  rw [hp] at hp0; cases hp0
  have r := refundEscrow_done (s := s1) (pid := pid) hue
    (fun d => by rw [ho1 escrowAcc d (by decide) (Ne.symm w1)]; exact holds_le_escrow hi he d)
  rw [hs']
  refine ⟨?_, ?_, ?_, ?_, ?_, ?_⟩
  · rw [r.esc]; exact get?_erase_self _ _
  · rw [r.props, hc1]; exact get?_erase_self _ _
  · intro d
    have := r.escrow d
    have e0 : s1.bank.balOf escrowAcc d = s.bank.balOf escrowAcc d := ho1 escrowAcc d (by decide) (Ne.symm w1)
    omega
  · intro d
    rw [r.user d, eprop, hup d]
    show s.bank.balOf pr.proposer d + _ + _ = _
    omega
  · intro d
    rw [r.distr d, ho1 distrAcc d (by decide) (Ne.symm w3)]; rfl
  · intro d
    rw [r.pool d]
    unfold C05.cpoolOf
    rw [hc1]; rfl

/-- **exactly once**: once the escrow info of a proposal is gone (settled, or never there), no
call of the hooks — a second pass, a reject after a pass, a failed deposit after a vote — changes
the state, whatever gov's record of the proposal says, as long as it is not live. -/
theorem settled_once {s : State} (pid : Nat) (hi : CpInv s)
    (h : ∀ pr, AMap.get? s.cp.props pid = some pr → C05.alive pr = false) :
    (∀ passes, (govVote s pid passes).1 = s) ∧ (govFailDeposit s pid).1 = s := by
  have hv : ∀ pr, AMap.get? s.cp.props pid = some pr → pr.status ≠ .voting := by
    intro pr hp e
    have := h pr hp
    rw [alive_of_voting e] at this; cases this
  have hd : ∀ pr, AMap.get? s.cp.props pid = some pr → pr.status ≠ .deposit := by
    intro pr hp e
    have := h pr hp
    rw [alive_of_deposit e] at this; cases this
  exact ⟨fun passes => govVote_noop pid passes hi hv, govFailDeposit_noop pid hi hd⟩

end Irismod.Proofs.Farm
