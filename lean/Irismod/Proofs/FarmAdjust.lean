/-
`AdjustPool` (as repaired by commit 966aea0: end height bounded by every reward rule) on the
invariant bundle.
-/
import Irismod.Proofs.FarmCreate

namespace Irismod.Proofs.Farm
open Irismod Irismod.Sdk Irismod.Farm Irismod.Spec

/-- the per-block rate `UpdateWith` leaves on a rule -/
def newRpb (rpb : CoinList) (r : Rule) : Nat := if amountOf rpb r.denom > 0 then amountOf rpb r.denom else r.rpb

theorem mem_adjustRules {add rpb : CoinList} {rs : List Rule} {r' : Rule} (h : r' ∈ adjustRules add rpb rs) :
    ∃ r ∈ rs, r'.denom = r.denom ∧ r'.total = r.total + amountOf add r.denom ∧
      r'.remaining = r.remaining + amountOf add r.denom ∧ r'.rpb = newRpb rpb r ∧ r'.rps = r.rps := by
  unfold adjustRules at h
  simp only [List.mem_map] at h
  obtain ⟨r, hr, e⟩ := h
  exact ⟨r, hr, by rw [← e], by rw [← e], by rw [← e], by rw [← e]; rfl, by rw [← e]⟩

theorem adjustRules_denoms (add rpb : CoinList) (rs : List Rule) :
    (adjustRules add rpb rs).map (·.denom) = rs.map (·.denom) := by
  unfold adjustRules; simp [List.map_map]

theorem find?_of_mem_nodup : ∀ {rs : List Rule} {r : Rule}, (rs.map (·.denom)).Nodup → r ∈ rs →
    rs.find? (fun x => x.denom = r.denom) = some r
  | [], _, _, h => by simp at h
  | x :: t, r, hn, h => by
    simp only [List.map_cons, List.nodup_cons] at hn
    simp only [List.mem_cons] at h
    rcases h with e | e
    · subst e; simp [List.find?]
    · have hne : x.denom ≠ r.denom := by
        intro e2; apply hn.1; rw [e2]; exact List.mem_map_of_mem e
      simp only [List.find?, hne, decide_false]
      exact find?_of_mem_nodup hn.2 e

theorem mem_nonzero {cs : CoinList} {c : Denom × Nat} : c ∈ nonzero cs ↔ c ∈ cs ∧ c.2 ≠ 0 := by
  unfold nonzero; simp [List.mem_filter]

theorem mem_denoms_nonzero {cs : CoinList} {d : Denom} (h : d ∈ (nonzero cs).map (·.1)) : d ∈ cs.map (·.1) := by
  simp only [List.mem_map] at h ⊢
  obtain ⟨c, hc, e⟩ := h
  exact ⟨c, (mem_nonzero.mp hc).1, e⟩

/-- on duplicate-free coin lists dropping the zero coins does not change `AmountOf` -/
theorem amountOf_nonzero : ∀ (cs : CoinList) (d : Denom), (cs.map (·.1)).Nodup → amountOf (nonzero cs) d = amountOf cs d
  | [], _, _ => rfl
  | (d0, n) :: t, d, hn => by
    simp only [List.map_cons, List.nodup_cons] at hn
    rw [nonzero_cons]
    by_cases hz : n = 0
    · subst hz
      simp only [if_true]
      by_cases e : d0 = d
      · subst e
        simp only [amountOf, if_true]
        exact amountOf_eq_zero_of_not_mem _ _ (fun hm => hn.1 (mem_denoms_nonzero hm))
      · simp only [amountOf, e, if_false]
        exact amountOf_nonzero t d hn.2
    · simp only [hz, if_false, amountOf]
      split
      · rfl
      · exact amountOf_nonzero t d hn.2

theorem amountOf_map_rule (f : Rule → Nat) : ∀ (rs : List Rule) (r : Rule), (rs.map (·.denom)).Nodup → r ∈ rs →
    amountOf (rs.map fun x => (x.denom, f x)) r.denom = f r
  | [], _, _, h => by simp at h
  | x :: t, r, hn, h => by
    simp only [List.map_cons, List.nodup_cons] at hn
    simp only [List.mem_cons] at h
    rcases h with e | e
    · subst e; simp [amountOf]
    · have hne : x.denom ≠ r.denom := by
        intro e2; apply hn.1; rw [e2]; exact List.mem_map_of_mem e
      simp only [List.map_cons, amountOf, hne, if_false]
      exact amountOf_map_rule f t r hn.2 e

/-- what a rule can still pay from now on when `AdjustPool` computes the new end -/
def availOf (started : Bool) (remH : Nat) (add : CoinList) (r : Rule) : Nat :=
  if started then r.rpb * remH + amountOf add r.denom else r.total + amountOf add r.denom

theorem availableReward_eq (started : Bool) (remH : Nat) (add : CoinList) (rs : List Rule) :
    availableReward started remH add (adjustRules add [] rs) =
      nonzero (rs.map fun r => (r.denom, availOf started remH add r)) := by
  unfold availableReward adjustRules availOf
  cases started <;> simp [List.map_map, amountOf, Function.comp_def]

/-- `AmountOf` on the available coins is the rule's available amount (0 for a dropped coin) -/
theorem amountOf_available {started : Bool} {remH : Nat} {add : CoinList} {rs : List Rule} {r : Rule}
    (hn : (rs.map (·.denom)).Nodup) (hr : r ∈ rs) :
    amountOf (availableReward started remH add (adjustRules add [] rs)) r.denom = availOf started remH add r := by
  rw [availableReward_eq, amountOf_nonzero]
  · exact amountOf_map_rule _ rs r hn hr
  · simpa [List.map_map, Function.comp_def] using hn

/-- `availableHeight` is non-negative on a non-empty rule list and below every rule's quotient -/
theorem availableHeight_spec (avail : CoinList) : ∀ {rs : List Rule} {m : Int}, availableHeight avail rs = some m →
    (rs ≠ [] → 0 ≤ m) ∧ ∀ r ∈ rs, (r.rpb : Int) * m ≤ (amountOf avail r.denom : Int)
  | [], m, h => by simp [availableHeight] at h; subst h; simp
  | r :: rs, m, h => by
    unfold availableHeight at h
    split at h; · cases h
    rename_i hz
    split at h; · cases h
    split at h; · cases h
    rename_i m0 hm0
    obtain ⟨ih0, ih⟩ := availableHeight_spec avail hm0
    cases h
    have hq : r.rpb * (amountOf avail r.denom / r.rpb) ≤ amountOf avail r.denom := Nat.mul_div_le _ _
    have hqi : (r.rpb : Int) * ((amountOf avail r.denom / r.rpb : Nat) : Int) ≤ (amountOf avail r.denom : Int) := by
      exact_mod_cast hq
    have hq0 : (0 : Int) ≤ ((amountOf avail r.denom / r.rpb : Nat) : Int) := Int.natCast_nonneg _
    refine ⟨fun _ => ?_, ?_⟩
    · split
      · exact hq0
      · rename_i hc; omega
    · intro r' hr'
      simp only [List.mem_cons] at hr'
      rcases hr' with e | e
      · subst e
        split
        · exact hqi
        · rename_i hc
          have hr0 : (0 : Int) ≤ (r'.rpb : Int) := Int.natCast_nonneg _
          have : m0 ≤ ((amountOf avail r'.denom / r'.rpb : Nat) : Int) := by omega
          calc (r'.rpb : Int) * m0 ≤ (r'.rpb : Int) * ((amountOf avail r'.denom / r'.rpb : Nat) : Int) :=
                Int.mul_le_mul_of_nonneg_left this hr0
            _ ≤ _ := hqi
      · have := ih r' e
        split
        · rename_i hc
          have hr0 : (0 : Int) ≤ (r'.rpb : Int) := Int.natCast_nonneg _
          rcases hc with hc | hc
          · -- the tail minimum is the sentinel: the tail is empty, contradiction with r' ∈ rs
            have : rs ≠ [] := by intro e2; rw [e2] at e; cases e
            have := ih0 this; omega
          · calc (r'.rpb : Int) * ((amountOf avail r.denom / r.rpb : Nat) : Int) ≤ (r'.rpb : Int) * m0 :=
                  Int.mul_le_mul_of_nonneg_left (by omega) hr0
              _ ≤ _ := this
        · exact this

/-- the new end leaves every rule solvent -/
theorem adjust_ah_le {add rpb : CoinList} {rs : List Rule} {started : Bool} {remH : Nat} {ah : Int}
    (hn : (rs.map (·.denom)).Nodup) (hne : rs ≠ [])
    (h : availableHeight (availableReward started remH add (adjustRules add [] rs)) (adjustRules add rpb rs) = some ah) :
    0 ≤ ah ∧ ∀ r ∈ rs, (newRpb rpb r : Int) * ah ≤ (availOf started remH add r : Int) := by
  obtain ⟨h0, hall⟩ := availableHeight_spec _ h
  have hne' : adjustRules add rpb rs ≠ [] := by
    intro e; apply hne
    have := congrArg List.length e
    simp [adjustRules] at this
    exact this
  refine ⟨h0 hne', ?_⟩
  intro r hr
  have himg : ({ r with total := r.total + amountOf add r.denom, remaining := r.remaining + amountOf add r.denom,
                        rpb := if amountOf rpb r.denom > 0 then amountOf rpb r.denom else r.rpb } : Rule) ∈ adjustRules add rpb rs := by
    unfold adjustRules; exact List.mem_map_of_mem hr
  have := hall _ himg
  simp only at this
  rw [amountOf_available hn hr] at this
  exact this

theorem inv_adjustPool {s s' : State} {sender id add rpb} (hi : Inv s) (hu : isModuleAcc sender = false)
    (h : stepAdjustPool s sender id add rpb = .ok s') : Inv s' := by
  have hst := stakes_adjustPool hi.stakes h
  obtain ⟨p, hsadd, _, _, hp, hat⟩ := stepAdjustPool_ok h
  obtain ⟨s1, p1, s2, _, _, hexp, hrpbsub, haddsub, hupd, _, h2, hcore⟩ := adjustPoolAt_ok hat
  obtain ⟨une1, _, _⟩ := user_ne hu
  generalize hadd : add.getD [] = addL at *
  generalize hrpb : rpb.getD [] = rpbL at *
  have ok := updatePool_ok hupd
  have c1 := core_updOk hi.core hp ok (by intro hh; omega)
  have b2 := (sendAll_ok h2).1
  have c2 := core_bankOnly b2 c1
  have hcpu2 : CpUsers s2 := cpUsers_of_cp (by rw [b2.cp, ok.cp]) hi.cpu
  have hp1 : getPool s1 id = some p1 := getPool_set_self _ _ _ _ ok.pools
  have hp2 : getPool s2 id = some p1 := by unfold getPool; rw [b2.pools]; exact hp1
  have w1 := c2.wf id p1 hp2
  have t1 := c2.time id p1 hp2
  obtain ⟨_, _, _, _, hlast, hend, hstt⟩ := updOk_fields ok
  simp at hend hstt
  have hh2 : s2.height = s.height := by rw [b2.height, ok.height]
  rw [hh2] at t1
  -- the pool is active (not expired)
  have hact : s2.queue.contains (p1.endH, id) = true ∧ s.height ≤ p1.endH := by
    rw [b2.queue, ok.queue, hend]
    unfold expired at hexp
    split at hexp
    · cases hexp
    · rename_i hgt
      split at hexp
      · rename_i heq
        refine ⟨by simpa using hexp, by omega⟩
      · rename_i hne
        have hlt : s.height < p.endH := by omega
        have := hi.core.queue.2.1 id p hp hlt
        exact ⟨by simpa using this, by omega⟩
  have hbud := c2.budget id p1 hp2 hact.1
  -- unfold the tail of AdjustPool
  generalize hshdef : (if p.start ≤ s.height then s.height else p.start) = sh at hcore
  unfold adjustCore at hcore
  split at hcore; · cases hcore
  rename_i ah hah
  split at hcore; · cases hcore
  rename_i hov
  -- the start height used and the span in both modes
  have hstarted : decide (p1.start ≤ s.height) = decide (p.start ≤ s.height) := by rw [hstt]
  -- solvency of every rule at the new end
  obtain ⟨hah0, hal⟩ := adjust_ah_le (rpb := rpbL) w1.nodup w1.rulesNe hah
  have hsolv : ∀ r ∈ p1.rules, (newRpb rpbL r : Int) * ah ≤ (r.remaining : Int) + (amountOf addL r.denom : Int) := by
    intro r hr
    have hb := hbud r hr
    rw [ruleBudget_iff] at hb
    have h3 := hal r hr
    by_cases hs : p.start ≤ s.height
    · -- started: available = rpb × remaining span + top-up
      have hsh : sh = s.height := by rw [← hshdef]; simp [hs]
      have hst2 : decide (p1.start ≤ s.height) = true := by rw [hstarted]; simpa using hs
      rw [hsh, hst2] at h3
      have hspan : spanOf p1 = p1.endH - s.height := by
        unfold spanOf; rw [hlast, hstt]; split <;> omega
      rw [hspan] at hb
      have hrem : ((p1.endH - s.height).toNat : Int) = p1.endH - s.height := by omega
      unfold availOf at h3
      simp only [if_true] at h3
      push_cast at h3
      rw [hrem] at h3
      omega
    · -- not started: available = total (+ top-up) and nothing has been released
      have hlt : s.height < p1.start := by rw [hstt]; omega
      have hfresh := t1.fresh hlt r hr
      have hst2 : decide (p1.start ≤ s.height) = false := by rw [hstarted]; simpa using hs
      rw [hst2] at h3
      unfold availOf at h3
      simp only [Bool.false_eq_true, if_false] at h3
      push_cast at h3
      omega
  -- the final record
  have hsh_ge : s.height ≤ sh := by rw [← hshdef]; split <;> omega
  have hsh_max : sh = (if p1.last > p1.start then p1.last else p1.start) := by
    rw [← hshdef, hlast, hstt]; split <;> split <;> omega
  -- generic facts about the written rules
  have wfA : PoolWF { p1 with rules := adjustRules addL rpbL p1.rules } ∧
      ∀ e : Int, PoolWF { p1 with rules := adjustRules addL rpbL p1.rules, endH := e } := by
    have core : ∀ q : Pool, q.rules = adjustRules addL rpbL p1.rules → q.creator = p1.creator → PoolWF q := by
      intro q hq hcq
      refine ⟨?_, ?_, ?_, ?_, ?_, by rw [hcq]; exact w1.user⟩
      · rw [hq]; intro e
        have := congrArg List.length e
        simp [adjustRules] at this
        exact w1.rulesNe this
      · rw [hq, adjustRules_denoms]; exact w1.nodup
      · intro r' hr'; rw [hq] at hr'
        obtain ⟨r, hr, _, _, _, e, _⟩ := mem_adjustRules hr'
        rw [e]; unfold newRpb; split
        · assumption
        · exact w1.rpbPos r hr
      · intro r' hr'; rw [hq] at hr'
        obtain ⟨r, hr, _, e, _⟩ := mem_adjustRules hr'
        rw [e]; have := w1.totPos r hr; omega
      · intro r' hr'; rw [hq] at hr'
        obtain ⟨r, hr, _, _, _, _, e⟩ := mem_adjustRules hr'
        rw [e]; exact w1.rpsNN r hr
    exact ⟨core _ rfl rfl, fun e => core _ rfl rfl⟩
  have timeA : ∀ q : Pool, q.rules = adjustRules addL rpbL p1.rules → q.last = p1.last → q.start = p1.start →
      q.locked = p1.locked → PoolTime s.height q := by
    intro q hq hl hs hlk
    refine ⟨by rw [hl]; exact t1.lastLe, by rw [hlk, hs, hl]; exact t1.staked, ?_⟩
    intro hlt r' hr'
    rw [hs] at hlt; rw [hq] at hr'
    obtain ⟨r, hr, _, e1, e2, _⟩ := mem_adjustRules hr'
    rw [e1, e2, t1.fresh hlt r hr]
  have budA : ∀ q : Pool, q.rules = adjustRules addL rpbL p1.rules → q.last = p1.last → q.start = p1.start →
      q.endH = sh + (ah : Int) → ∀ r' ∈ q.rules, C06.RuleBudget q r' := by
    intro q hq hl hs he r' hr'
    rw [hq] at hr'
    obtain ⟨r, hr, _, _, e2, e3, _⟩ := mem_adjustRules hr'
    rw [ruleBudget_iff]
    have hspan : spanOf q = (ah : Int) := by
      unfold spanOf; rw [hl, hs, he, ← hsh_max]; omega
    rw [hspan, e2, e3]
    have := hsolv r hr
    push_cast
    exact this
  have debtA : ∀ q : Pool, q.rules = adjustRules addL rpbL p1.rules →
      ∀ a f, getFarmer s2 a id = some f → ∀ r' ∈ q.rules, (amountOf f.debt r'.denom : Int) ≤ (r'.rps.raw * (f.locked : Int)) / precision := by
    intro q hq a f hf r' hr'
    rw [hq] at hr'
    obtain ⟨r, hr, e1, _, _, _, e5⟩ := mem_adjustRules hr'
    rw [e1, e5]
    exact c2.debt a id f p1 hf hp2 r hr
  have hn0 := ghost_active (c2.ghost id p1 hp2) (by unfold C06.active; exact hact.1)
  have ghostA : ∀ (st : State) (q : Pool), q.rules = adjustRules addL rpbL p1.rules → ∀ r' ∈ q.rules, RuleGhost st id q r' := by
    intro st q hq r' hr'
    rw [hq] at hr'
    unfold adjustRules at hr'
    simp only [List.mem_map] at hr'
    obtain ⟨r, hr, e⟩ := hr'
    have g := c2.ghost id p1 hp2 r hr
    have hz := hn0 r hr
    have c := g.1
    unfold C06.RuleConserved at c
    rw [← e]
    refine ⟨by unfold C06.RuleConserved; simp only; omega, by simp only; omega, by intro e1; simp only at e1; omega, fun _ => hz.2⟩
  have gapA : ∀ (st : State) (q : Pool), st.pools = AMap.set s2.pools id q → st.bank = s2.bank →
      q.rules = adjustRules addL rpbL p1.rules → q.lpt = p1.lpt → q.locked = p1.locked → ∀ d, gap st d = 0 := by
    intro st q hpl hbk hq hlpt hlk d
    have g0 := (moduleAccount_iff s).mp hi.modacc d
    have g1 := gap_updOk ok hp d
    simp at g1
    have g2 := gap_send_in une1 h2 d
    have he := expected_set (s' := st) hp2 hpl d
    unfold C05.poolHolds at he
    have haddn : (addL.map (·.1)).Nodup := sorted_nodup addL hsadd
    have hsub : ∀ c ∈ addL, ∃ r ∈ p1.rules, r.denom = c.1 := by
      intro c hc
      obtain ⟨r0, hr0, hd0, _⟩ := haddsub c hc
      -- p1.rules has the same denoms as p.rules
      have hdm : p1.rules.map (·.denom) = p.rules.map (·.denom) := by
        rcases ok.rules with e | ⟨_, _, f2⟩
        · rw [e]
        · exact forall2_denoms f2
      have : c.1 ∈ p1.rules.map (·.denom) := by rw [hdm, ← hd0]; exact List.mem_map_of_mem hr0
      simp only [List.mem_map] at this
      obtain ⟨r, hr, e⟩ := this
      exact ⟨r, hr, e⟩
    rw [hq, hlpt, hlk, remainingIn_adjustRules addL rpbL p1.rules d w1.nodup haddn hsub] at he
    unfold gap at g0 g1 g2 ⊢
    rw [hbk]
    omega
  split at hcore
  · -- the end height does not move
    rename_i heq
    cases hcore
    have hpl : (setPool s2 id { p1 with rules := adjustRules addL rpbL p1.rules }).pools =
        AMap.set s2.pools id { p1 with rules := adjustRules addL rpbL p1.rules } := rfl
    have gself := getPool_set_self _ _ _ _ hpl
    have gother : ∀ id2, id ≠ id2 → getPool (setPool s2 id { p1 with rules := adjustRules addL rpbL p1.rules }) id2 = getPool s2 id2 :=
      fun id2 e => getPool_set_other s2 _ id id2 _ hpl e
    refine ⟨⟨c2.hnn, poolsAll_set c2.wf hpl wfA.1, ?_, ?_, ?_, ?_, ?_, ?_⟩, hst, ?_, cpUsers_of_cp (s := s2) rfl hcpu2⟩
    · show PoolsAll (PoolTime s2.height) _
      rw [hh2]
      have := c2.time; rw [hh2] at this
      exact poolsAll_set this hpl (timeA _ rfl rfl rfl rfl)
    · obtain ⟨q1, q2, q3⟩ := c2.queue
      refine ⟨?_, ?_, q3⟩
      · intro hq i hm
        obtain ⟨p2, hp2', he2, hl2⟩ := q1 hq i hm
        by_cases e : id = i
        · subst e; rw [hp2] at hp2'; cases hp2'
          exact ⟨_, gself, he2, hl2⟩
        · exact ⟨p2, by rw [gother i e]; exact hp2', he2, hl2⟩
      · intro i p2 hp2' hlt
        by_cases e : id = i
        · subst e; rw [gself] at hp2'; cases hp2'
          exact q2 id p1 hp2 hlt
        · rw [gother i e] at hp2'; exact q2 i p2 hp2' hlt
    · intro i p2 hp2' ha
      by_cases e : id = i
      · subst e; rw [gself] at hp2'; cases hp2'
        exact budA _ rfl rfl rfl heq.symm
      · rw [gother i e] at hp2'; exact c2.budget i p2 hp2' ha
    · intro a i f p2 hf hp2'
      by_cases e : id = i
      · subst e; rw [gself] at hp2'; cases hp2'
        exact debtA _ rfl a f hf
      · rw [gother i e] at hp2'; exact c2.debt a i f p2 hf hp2'
    · intro a i f hf
      obtain ⟨p2, hp2'⟩ := c2.fpool a i f hf
      by_cases e : id = i
      · subst e; exact ⟨_, gself⟩
      · exact ⟨p2, by rw [gother i e]; exact hp2'⟩
    · intro i p2 hp2' r hr
      by_cases e : id = i
      · subst e; rw [gself] at hp2'; cases hp2'
        exact ghostA _ _ rfl r hr
      · rw [gother i e] at hp2'
        exact (c2.ghost i p2 hp2' r hr).transfer (fun h => h) (fun h => h)
    · rw [moduleAccount_iff]
      exact gapA _ _ hpl rfl rfl rfl rfl
  · -- the pool is re-queued at the new end height
    rename_i hne
    cases hcore
    generalize hne2 : sh + (ah : Int) = newEnd at *
    generalize hq0 : ({ p1 with rules := adjustRules addL rpbL p1.rules, endH := newEnd } : Pool) = pf at hst ⊢
    have hpfr : pf.rules = adjustRules addL rpbL p1.rules := by rw [← hq0]
    have hpfe : pf.endH = newEnd := by rw [← hq0]
    have hpfl : pf.last = p1.last := by rw [← hq0]
    have hpfs : pf.start = p1.start := by rw [← hq0]
    have hpfk : pf.locked = p1.locked := by rw [← hq0]
    have hpft : pf.lpt = p1.lpt := by rw [← hq0]
    have hpl : (enqueue (setPool (dequeue s2 id p1.endH) id pf) id newEnd).pools = AMap.set s2.pools id pf := by
      unfold enqueue; split <;> rfl
    have hhe : (enqueue (setPool (dequeue s2 id p1.endH) id pf) id newEnd).height = s2.height := by
      unfold enqueue; split <;> rfl
    have hfe : (enqueue (setPool (dequeue s2 id p1.endH) id pf) id newEnd).farmers = s2.farmers := by
      unfold enqueue; split <;> rfl
    have hbe : (enqueue (setPool (dequeue s2 id p1.endH) id pf) id newEnd).bank = s2.bank := by
      unfold enqueue; split <;> rfl
    have gself := getPool_set_self _ _ _ _ hpl
    have gother : ∀ id2, id ≠ id2 → getPool (enqueue (setPool (dequeue s2 id p1.endH) id pf) id newEnd) id2 = getPool s2 id2 :=
      fun id2 e => getPool_set_other s2 _ id id2 _ hpl e
    have hmemq : ∀ e : Int × PoolId, e ∈ (enqueue (setPool (dequeue s2 id p1.endH) id pf) id newEnd).queue ↔
        (e ∈ s2.queue ∧ e ≠ (p1.endH, id)) ∨ e = (newEnd, id) := by
      intro e
      rw [mem_enqueue]
      have : (setPool (dequeue s2 id p1.endH) id pf).queue = (dequeue s2 id p1.endH).queue := rfl
      rw [this, mem_dequeue]
    have wfpf : PoolWF pf := by rw [← hq0]; exact wfA.2 newEnd
    refine ⟨⟨by rw [hhe]; exact c2.hnn, poolsAll_set c2.wf hpl wfpf, ?_, ?_, ?_, ?_, ?_, ?_⟩, hst, ?_,
      cpUsers_of_cp (s := s2) (by unfold enqueue; split <;> rfl) hcpu2⟩
    · rw [hhe, hh2]
      have := c2.time; rw [hh2] at this
      exact poolsAll_set this hpl (timeA pf hpfr hpfl hpfs hpfk)
    · obtain ⟨q1, q2, q3⟩ := c2.queue
      refine ⟨?_, ?_, ?_⟩
      · intro hq i hm
        rw [hmemq] at hm
        rcases hm with ⟨hm, hmne⟩ | hm
        · obtain ⟨p2, hp2', he2, hl2⟩ := q1 hq i hm
          have hnei : id ≠ i := by
            intro e; subst e; rw [hp2] at hp2'; cases hp2'
            exact hmne (by rw [he2])
          exact ⟨p2, by rw [gother i hnei]; exact hp2', he2, by rw [hhe]; exact hl2⟩
        · cases hm
          refine ⟨pf, gself, hpfe, ?_⟩
          rw [hhe, hh2, ← hne2]
          omega
      · intro i p2 hp2' hlt
        rw [hhe] at hlt
        rw [hmemq]
        by_cases e : id = i
        · subst e; rw [gself] at hp2'; cases hp2'
          right; rw [hpfe]
        · rw [gother i e] at hp2'
          left
          exact ⟨q2 i p2 hp2' hlt, fun e2 => e (Prod.mk.inj e2).2.symm⟩
      · exact nodup_enqueue (s := setPool (dequeue s2 id p1.endH) id pf)
          (by show (dequeue s2 id p1.endH).queue.Nodup; unfold dequeue; exact List.Nodup.sublist List.filter_sublist q3)
    · intro i p2 hp2' ha
      by_cases e : id = i
      · subst e; rw [gself] at hp2'; cases hp2'
        exact budA pf hpfr hpfl hpfs (by rw [hpfe])
      · rw [gother i e] at hp2'
        refine c2.budget i p2 hp2' ?_
        unfold C06.active at ha ⊢
        have hm : (p2.endH, i) ∈ (enqueue (setPool (dequeue s2 id p1.endH) id pf) id newEnd).queue := by simpa using ha
        rw [hmemq] at hm
        rcases hm with ⟨hm, _⟩ | hm
        · simpa using hm
        · exact absurd (Prod.mk.inj hm).2.symm e
    · intro a i f p2 hf hp2'
      unfold getFarmer at hf; rw [hfe] at hf
      by_cases e : id = i
      · subst e; rw [gself] at hp2'; cases hp2'
        exact debtA pf hpfr a f hf
      · rw [gother i e] at hp2'; exact c2.debt a i f p2 hf hp2'
    · intro a i f hf
      unfold getFarmer at hf; rw [hfe] at hf
      obtain ⟨p2, hp2'⟩ := c2.fpool a i f hf
      by_cases e : id = i
      · subst e; exact ⟨_, gself⟩
      · exact ⟨p2, by rw [gother i e]; exact hp2'⟩
    · intro i p2 hp2' r hr
      by_cases e : id = i
      · subst e; rw [gself] at hp2'; cases hp2'
        exact ghostA _ pf hpfr r hr
      · rw [gother i e] at hp2'
        refine (c2.ghost i p2 hp2' r hr).transfer ?_ (by rw [hhe]; exact fun h => h)
        unfold C06.active
        intro hf0
        cases hcn : (enqueue (setPool (dequeue s2 id p1.endH) id pf) id newEnd).queue.contains (p2.endH, i) with
        | false => rfl
        | true =>
          have hm : (p2.endH, i) ∈ (enqueue (setPool (dequeue s2 id p1.endH) id pf) id newEnd).queue := by simpa using hcn
          rw [hmemq] at hm
          rcases hm with ⟨hm, _⟩ | hm
          · have : s2.queue.contains (p2.endH, i) = true := by simpa using hm
            rw [this] at hf0; cases hf0
          · exact absurd (Prod.mk.inj hm).2.symm e
    · rw [moduleAccount_iff]
      exact gapA _ pf hpl hbe hpfr hpft hpfk

end Irismod.Proofs.Farm
