/-
Soundness of the random module's line monitor with respect to the model.

`Spec.C18Mon.stepFails prop pre line obs` is the function `drv-random monitor C18 | C13 | C12`
evaluates on every (operation line, observation line) pair; `Spec.C18Mon.postOf` is the state the
driver carries to the next line; `Spec.C18Mon.modelObs` is the observation the model prints.

* `monitor_sound`: from every state satisfying `LineInv`, on every valid line, `stepFails`
  evaluated on the model's own observation reports nothing — except failures of class F-rnd-1
  (the known finding: the PRNG divides by the block time, which may be zero), and those only where
  the exclusion hypothesis of the partial theorems is violated (`Excluded`).
* `line_inv`: the state the monitor carries to the next line satisfies `LineInv` again.
* `post_tracks_model`: that state agrees with the model's next state (unobserved fields equal,
  observed tables key-wise equal).

The observation carries the tables as sorted printed lists, so the parsed tables are in another
order than the model's: all theorems are stated for ANY observed state `p` whose tables have
unique keys and read, key by key, like the model's (`ObsEq`).
-/
import Irismod.Spec.C18Mon
import Irismod.Props.C13_Random
import Irismod.Props.C12_Random

namespace Irismod.Proofs.RandomMonitor
open Irismod Irismod.Random Irismod.RandomGenesis Irismod.Spec.C18 Irismod.Spec.C18Mon
open Irismod.Proofs.Random Irismod.Props.C18 Irismod.Props.C12Random

/-! ### association lists read key by key -/

section maps
variable {K V : Type} [DecidableEq K]

theorem mem_congr {a b : AMap K V} (ha : AMap.NodupKeys a) (hb : AMap.NodupKeys b)
    (h : ∀ k, AMap.get? a k = AMap.get? b k) (e : K × V) : e ∈ a ↔ e ∈ b := by
  constructor
  · intro he
    have := AMap.get?_of_mem ha (k := e.1) (v := e.2) he
    rw [h] at this
    exact AMap.mem_of_get? this
  · intro he
    have := AMap.get?_of_mem hb (k := e.1) (v := e.2) he
    rw [← h] at this
    exact AMap.mem_of_get? this

/-- the frame clause `sameMap a b ex`: outside the excepted keys both maps read the same -/
theorem sameMap_of [BEq V] [LawfulBEq V] {a b : AMap K V} {ex : K → Bool}
    (ha : AMap.NodupKeys a) (hb : AMap.NodupKeys b)
    (h : ∀ k, ex k = false → AMap.get? a k = AMap.get? b k) : sameMap a b ex = true := by
  unfold sameMap
  rw [Bool.and_eq_true, List.all_eq_true, List.all_eq_true]
  constructor
  · intro e he
    cases hx : ex e.1 with
    | true => rfl
    | false =>
      have := AMap.get?_of_mem ha (k := e.1) (v := e.2) he
      rw [h _ hx] at this
      simp [this]
  · intro e he
    cases hx : ex e.1 with
    | true => rfl
    | false =>
      have := AMap.get?_of_mem hb (k := e.1) (v := e.2) he
      rw [← h _ hx] at this
      simp [this]

omit [DecidableEq K] in
theorem nodup_nil : AMap.NodupKeys ([] : AMap K V) := by simp [AMap.NodupKeys]

/-- erasing a list of keys -/
theorem get?_foldl_erase (l : List K) (m : AMap K V) (k : K) :
    AMap.get? (l.foldl (fun m c => AMap.erase m c) m) k = if k ∈ l then none else AMap.get? m k := by
  induction l generalizing m with
  | nil => simp
  | cons c t ih =>
    simp only [List.foldl_cons, ih, List.mem_cons]
    by_cases hk : k ∈ t
    · simp [hk]
    · by_cases hc : k = c
      · subst hc; simp [AMap.get?_erase_self]
      · simp [hk, hc, AMap.get?_erase_other _ _ _ (Ne.symm hc)]

theorem nodup_foldl_erase (l : List K) (m : AMap K V) (hm : AMap.NodupKeys m) :
    AMap.NodupKeys (l.foldl (fun m c => AMap.erase m c) m) := by
  induction l generalizing m with
  | nil => exact hm
  | cons c t ih => exact ih _ (AMap.nodup_erase hm c)

end maps

/-! ### the printed value: `0.` and 20 decimal digits -/

theorem toList_pushn (s : String) (c : Char) (n : Nat) : (s.pushn c n).toList = s.toList ++ List.replicate n c := by
  rw [String.pushn_eq_repeat_push]
  induction n with
  | zero => simp [Nat.repeat]
  | succ k ih => simp [Nat.repeat, ih, List.replicate_succ', List.append_assoc]

theorem isDigits20_valueString (n : Nat) (h : n < prec) : isDigits20 (valueString n) = true := by
  have hlen : (toString n).length ≤ 20 := by
    rw [Nat.toString_eq_repr, Nat.length_repr_le_iff (by omega)]
    unfold prec at h; omega
  have hl : (valueString n).toList = '0' :: '.' :: (List.replicate (20 - (toString n).length) '0' ++ (toString n).toList) := by
    simp [valueString, pad20, String.toList_append, toList_pushn]
  unfold isDigits20
  rw [hl]
  simp only [Bool.and_eq_true, beq_iff_eq, List.length_append, List.length_replicate, List.all_eq_true,
    List.mem_append, List.mem_replicate, decide_eq_true_eq]
  refine ⟨?_, ?_⟩
  · have : (toString n).toList.length = (toString n).length := String.length_toList
    omega
  · intro c hc
    rcases hc with ⟨_, rfl⟩ | hc
    · decide
    · rw [Nat.toString_eq_repr, Nat.toList_repr] at hc
      have := Nat.isDigit_of_mem_toDigits (by omega) (by omega) hc
      simp only [Char.isDigit, Bool.and_eq_true, decide_eq_true_eq] at this
      exact ⟨by simpa [Char.le_def] using this.1, by simpa [Char.le_def] using this.2⟩

/-! ### the statements: invariant, valid lines, the model's observation, the excluded class -/

/-- the observed tables of `p` have unique keys and read, key by key, like those of `s`
    (the observation prints them sorted; the model holds them in insertion order) -/
structure ObsEq (p s : State) : Prop where
  height : p.height = s.height
  queue : ∀ k, AMap.get? p.queue k = AMap.get? s.queue k
  randoms : ∀ k, AMap.get? p.randoms k = AMap.get? s.randoms k
  oracleReqs : ∀ k, AMap.get? p.oracleReqs k = AMap.get? s.oracleReqs k
  nodupQ : AMap.NodupKeys p.queue
  nodupR : AMap.NodupKeys p.randoms
  nodupO : AMap.NodupKeys p.oracleReqs

/-- what the monitor assumes of the state it carries (the previous observation line): the height is
    an `int64`, the three tables have unique keys, every queue entry sits under the id of its own
    request and under a due height in `[height, 2^63)`, every stored value is `0.` + 20 digits.
    This is `QueueInv requestId` of Spec/C18 without the bounds on the *request's own* height
    (`lineInv_of_queueInv`): a zero-height restart rebases the due heights but keeps the requests,
    so a request's own height may exceed the new chain's height and `QueueInv` is not preserved
    by `reimport_zero`, while this invariant is. -/
structure LineInv (s : State) : Prop where
  height_nonneg : 0 ≤ s.height
  height_lt : s.height < two63
  nodupQ : AMap.NodupKeys s.queue
  nodupR : AMap.NodupKeys s.randoms
  nodupO : AMap.NodupKeys s.oracleReqs
  entry : ∀ e ∈ s.queue, e.1.2 = requestId e.2.height e.2.consumer ∧ s.height ≤ (e.1.1 : Int) ∧ (e.1.1 : Int) < two63
  digits : ∀ e ∈ s.randoms, isDigits20 e.2.value = true

theorem lineInv_of_queueInv {s : State} (hq : QueueInv requestId s) (hr : AMap.NodupKeys s.randoms)
    (ho : AMap.NodupKeys s.oracleReqs) (hd : ∀ e ∈ s.randoms, isDigits20 e.2.value = true) : LineInv s :=
  ⟨hq.height_nonneg, hq.height_lt, hq.nodup, hr, ho,
   fun e he => ⟨(hq.entry e he).1, (hq.entry e he).2.2.2.1, (hq.entry e he).2.2.2.2⟩, hd⟩

/-- environment contract of the begin block: two due oracle requests that both start do not share
    a service context (the service module derives a context id from the transaction hash and a
    per-block counter; the check's assumption "distinct transactions have distinct bytes where a
    service context is created") -/
def StartedDistinct (s : State) (h : Int) (st : List String) : Prop :=
  ∀ e ∈ s.queue, ∀ e' ∈ s.queue, e.1.1 = u64 (h - 1) → e'.1.1 = u64 (h - 1) →
    e.2.oracle = true → e'.2.oracle = true → st.contains e.2.ctxId = true → e.2.ctxId = e'.2.ctxId → e = e'

/-- the lines of a live chain as the harness generates them:
    * a begin block advances the height by one, below 2^63 (`OpValid`), and the contexts it starts
      are distinct;
    * `RequestService` returns a non-empty context id, and panics only at block time zero (its
      provider choice seeds `GetRand` with the block time);
    * the service module reports an error whenever it delivers no outputs;
    * a request imported through genesis is filed under a due height in `[height, 2^63)`
      (the harness draws `due = h + [0..4]`, clipped at the `int64` edge);
    * a zero-height restart happens on a chain of height ≥ 1. -/
def LineValid (s : State) : MonLine → Prop
  | .op (.beginBlock h _ _ st) => (h = s.height + 1 ∧ h < two63) ∧ StartedDistinct s h st
  | .op (.requestOracle _ _ _ _ _ _ (.ok c)) => c ≠ ""
  | .op (.requestOracle _ _ _ _ _ _ .panic) => s.unix = 0
  | .op (.cbResponse _ .empty err) => err = true
  | .genesisPending due _ => s.height ≤ (due : Int) ∧ (due : Int) < two63
  | .reimportZero => 1 ≤ s.height
  | _ => True

/-- `o` is the model's own observation of `line` from `s`, its tables in any order -/
structure ModelObs (s : State) (line : MonLine) (o : Obs) : Prop where
  word : o.word = (modelObs s line).word
  validate : o.validate = (modelObs s line).validate
  gen : o.gen = (modelObs s line).gen
  value : o.value = (modelObs s line).value
  tables : ObsEq o.p (modelObs s line).p

/-- the class of the known finding F-rnd-1 (zero block time): where the exclusion hypothesis of
    the partial theorems (`beginBlockTotal_partial`: t ≠ 0; `cbResponse_total`: unix ≠ 0) fails -/
def Excluded (s : State) : MonLine → Prop
  | .op (.beginBlock h t _ _) => t = 0 ∧ ∃ r ∈ dueRequests s.queue (u64 (h - 1)), r.oracle = false
  | .op (.requestOracle _ _ _ _ _ _ .panic) => s.unix = 0
  | .op (.cbResponse _ (.valid _) false) => s.unix = 0
  | .svcRespond _ _ cb => cb = "1" ∧ s.unix = 0
  | _ => False

theorem obsEq_refl {s : State} (hi : LineInv s) : ObsEq s s :=
  ⟨rfl, fun _ => rfl, fun _ => rfl, fun _ => rfl, hi.nodupQ, hi.nodupR, hi.nodupO⟩

theorem obsEq_carry {pre p s : State} (h : ObsEq p s) (u : Int) (hs : ByteArray) (c : List String) :
    ObsEq (carry pre p u hs c) s :=
  ⟨h.height, h.queue, h.randoms, h.oracleReqs, h.nodupQ, h.nodupR, h.nodupO⟩

/-- the invariant only speaks about the observed tables -/
theorem lineInv_obs {p s : State} (hi : LineInv s) (h : ObsEq p s) : LineInv p := by
  refine ⟨by rw [h.height]; exact hi.height_nonneg, by rw [h.height]; exact hi.height_lt,
    h.nodupQ, h.nodupR, h.nodupO, ?_, ?_⟩
  · intro e he
    rw [h.height]
    exact hi.entry e ((mem_congr h.nodupQ hi.nodupQ h.queue e).mp he)
  · intro e he
    exact hi.digits e ((mem_congr h.nodupR hi.nodupR h.randoms e).mp he)

/-! ### the begin-block loop: tables other than the queue -/

section loop
variable {rid : Int → String → Id} {rnd : String → Option String} {started : List String}

/-- the part of the invariant about stored results and oracle requests -/
def TablesOk (s : State) : Prop :=
  AMap.NodupKeys s.randoms ∧ AMap.NodupKeys s.oracleReqs ∧ ∀ e ∈ s.randoms, isDigits20 e.2.value = true

theorem digits_set {m : AMap Id Rand} (hm : ∀ e ∈ m, isDigits20 e.2.value = true) (id : Id) (x : Rand)
    (hx : isDigits20 x.value = true) : ∀ e ∈ AMap.set m id x, isDigits20 e.2.value = true := by
  intro e he
  rcases AMap.mem_set_sub he with h | h
  · rw [h]; exact hx
  · exact hm e h

theorem processOne_tablesOk {s s' : State} {r : Request} {last : Int}
    (hrnd : ∀ c v, rnd c = some v → isDigits20 v = true)
    (h : processOne rid rnd started last s r = .ok s') (ht : TablesOk s) : TablesOk s' := by
  unfold processOne at h
  split at h
  · split at h
    · cases h; exact ⟨ht.1, AMap.nodup_set ht.2.1 _ _, ht.2.2⟩
    · cases h; exact ht
  · split at h
    · cases h
    · rename_i v hv
      cases h
      exact ⟨AMap.nodup_set ht.1 _ _, ht.2.1, digits_set ht.2.2 _ _ (hrnd _ _ hv)⟩

theorem processAll_tablesOk {s s' : State} {reqs : List Request} {last : Int}
    (hrnd : ∀ c v, rnd c = some v → isDigits20 v = true)
    (h : processAll rid rnd started last s reqs = .ok s') (ht : TablesOk s) : TablesOk s' := by
  induction reqs generalizing s with
  | nil => simp only [processAll] at h; cases h; exact ht
  | cons r t ih =>
    simp only [processAll] at h
    split at h
    · cases h
    · rename_i s1 h1
      exact ih h (processOne_tablesOk hrnd h1 ht)

theorem processOne_oracle_other {s s' : State} {r : Request} {last : Int} (c : String)
    (h : processOne rid rnd started last s r = .ok s')
    (hne : ¬ (r.oracle = true ∧ started.contains r.ctxId = true ∧ r.ctxId = c)) :
    AMap.get? s'.oracleReqs c = AMap.get? s.oracleReqs c := by
  unfold processOne at h
  split at h
  · rename_i ho
    split at h
    · rename_i hs
      cases h
      apply AMap.get?_set_other
      intro hc
      exact hne ⟨ho, hs, hc⟩
    · cases h; rfl
  · split at h
    · cases h
    · cases h; rfl

theorem processAll_oracle_other {s s' : State} {reqs : List Request} {last : Int} (c : String)
    (h : processAll rid rnd started last s reqs = .ok s')
    (hne : ∀ r ∈ reqs, ¬ (r.oracle = true ∧ started.contains r.ctxId = true ∧ r.ctxId = c)) :
    AMap.get? s'.oracleReqs c = AMap.get? s.oracleReqs c := by
  induction reqs generalizing s with
  | nil => simp only [processAll] at h; cases h; rfl
  | cons r t ih =>
    simp only [processAll] at h
    split at h
    · cases h
    · rename_i s1 h1
      rw [ih h (fun r' hr' => hne r' (List.mem_cons_of_mem _ hr')),
          processOne_oracle_other c h1 (hne r (by simp))]

/-- every visited oracle request whose context starts is handed to the service callbacks under
    its context id, provided the starting contexts are pairwise distinct -/
theorem processAll_oracle_started {s s' : State} {reqs : List Request} {last : Int}
    (h : processAll rid rnd started last s reqs = .ok s')
    (hd : reqs.Pairwise fun a b =>
      ¬ (a.oracle = true ∧ b.oracle = true ∧ started.contains a.ctxId = true ∧ a.ctxId = b.ctxId))
    (r : Request) (hr : r ∈ reqs) (ho : r.oracle = true) (hs : started.contains r.ctxId = true) :
    AMap.get? s'.oracleReqs r.ctxId = some r := by
  induction reqs generalizing s with
  | nil => simp at hr
  | cons x t ih =>
    simp only [processAll] at h
    rw [List.pairwise_cons] at hd
    split at h
    · cases h
    · rename_i s1 h1
      rcases List.mem_cons.mp hr with rfl | hrt
      · have keep := processAll_oracle_other r.ctxId h
          (fun r' hr' hc => hd.1 r' hr' ⟨ho, hc.1, hs, hc.2.2.symm⟩)
        unfold processOne at h1
        simp only [ho, hs, if_true] at h1
        cases h1
        rw [keep]; exact AMap.get?_set_self _ _ _
      · exact ih h hd.2 hrt

end loop

/-! ### the model's steps, one handler at a time -/

theorem prngValue_digits {hash : ByteArray} {t : Int} {ini : ByteArray} {o : Bool} {seed : ByteArray} {v : String}
    (h : prngValue hash t ini o seed = some v) : isDigits20 v = true := by
  unfold prngValue at h
  cases hn : prngNum hash t ini o seed with
  | none => simp [hn] at h
  | some n =>
    simp only [hn, Option.map_some, Option.some.injEq] at h
    rw [← h]; exact isDigits20_valueString n (prngNum_lt hn)

theorem prngValue_none_iff {hash : ByteArray} {t : Int} {ini : ByteArray} {o : Bool} {seed : ByteArray} :
    prngValue hash t ini o seed = none ↔ t = 0 := by
  constructor
  · intro h
    by_cases ht : t = 0
    · exact ht
    · exact absurd h (prngValue_ne_none ht)
  · intro h; subst h; simp [prngValue, prngNum_zero]

theorem tablesOk_of {s : State} (hi : LineInv s) : TablesOk s := ⟨hi.nodupR, hi.nodupO, hi.digits⟩

theorem lineInv_tables {s s' : State} (hi : LineInv s) (hq : s'.queue = s.queue) (hh : s'.height = s.height)
    (ht : TablesOk s') : LineInv s' := by
  refine ⟨by rw [hh]; exact hi.height_nonneg, by rw [hh]; exact hi.height_lt, by rw [hq]; exact hi.nodupQ,
    ht.1, ht.2.1, ?_, ht.2.2⟩
  intro e he
  rw [hq] at he; rw [hh]; exact hi.entry e he

theorem lineInv_enqueue {s s' : State} (hi : LineInv s) (k : Nat) (req : Request)
    (hk : s.height ≤ (k : Int) ∧ (k : Int) < two63)
    (hq : s'.queue = AMap.set s.queue (k, requestId req.height req.consumer) req)
    (hr : s'.randoms = s.randoms) (ho : s'.oracleReqs = s.oracleReqs) (hh : s'.height = s.height) : LineInv s' := by
  refine ⟨by rw [hh]; exact hi.height_nonneg, by rw [hh]; exact hi.height_lt,
    by rw [hq]; exact AMap.nodup_set hi.nodupQ _ _, by rw [hr]; exact hi.nodupR, by rw [ho]; exact hi.nodupO, ?_,
    by rw [hr]; exact hi.digits⟩
  intro e he
  rw [hq] at he; rw [hh]
  rcases AMap.mem_set_sub he with h1 | h1
  · subst h1; exact ⟨rfl, hk.1, hk.2⟩
  · exact hi.entry e h1

/-- an accepted plain request: exactly one entry is written, under the due height `h + n` -/
theorem request_ok {s s' : State} {c : String} {ok : Bool} {n : Nat} {tx : ByteArray} {feeOk : Bool}
    (hi : LineInv s) (h : step s (.request c ok n tx feeOk) = .ok s') :
    s' = { s with queue := AMap.set s.queue (u64 (s.height + n), requestId s.height c)
                            { height := s.height, consumer := c, txHash := txHashOf tx, oracle := false,
                              feeCap := "", ctxId := "" } } ∧
    s.height + (n : Int) < two63 := by
  simp only [step, stepRequest] at h
  split at h; · cases h
  split at h; · cases h
  split at h; · cases h
  rename_i hn
  cases h
  exact ⟨rfl, accepted_interval hi.height_nonneg hi.height_lt hn⟩

theorem request_err {s : State} {c : String} {ok : Bool} {n : Nat} {tx : ByteArray} {feeOk : Bool} {e : Err}
    (h : step s (.request c ok n tx feeOk) = .error e) : ∃ w, e = .reject w := by
  simp only [step, stepRequest] at h
  split at h; · cases h; exact ⟨_, rfl⟩
  split at h; · cases h; exact ⟨_, rfl⟩
  split at h; · cases h; exact ⟨_, rfl⟩
  cases h

theorem requestOracle_ok {s s' : State} {c : String} {ok : Bool} {n : Nat} {tx : ByteArray} {fee : String}
    {feeOk : Bool} {svc : Svc} (hi : LineInv s) (h : step s (.requestOracle c ok n tx fee feeOk svc) = .ok s') :
    ∃ ctxId, svc = .ok ctxId ∧
    s' = { s with ctxs := ctxId :: s.ctxs,
                  queue := AMap.set s.queue (u64 (s.height + n), requestId s.height c)
                    { height := s.height, consumer := c, txHash := txHashOf tx, oracle := true, feeCap := fee,
                      ctxId := ctxId } } ∧
    s.height + (n : Int) < two63 := by
  simp only [step, stepRequestOracle] at h
  split at h; · cases h
  split at h; · cases h
  split at h; · cases h
  rename_i hn
  split at h
  · cases h
  · cases h
  · cases h
    exact ⟨_, rfl, rfl, accepted_interval hi.height_nonneg hi.height_lt hn⟩

theorem requestOracle_err {s : State} {c : String} {ok : Bool} {n : Nat} {tx : ByteArray} {fee : String}
    {feeOk : Bool} {svc : Svc} {e : Err} (h : step s (.requestOracle c ok n tx fee feeOk svc) = .error e) :
    (∃ w, e = .reject w) ∨ ((∃ w, e = .panic w) ∧ svc = .panic) := by
  simp only [step, stepRequestOracle] at h
  split at h; · cases h; exact Or.inl ⟨_, rfl⟩
  split at h; · cases h; exact Or.inl ⟨_, rfl⟩
  split at h; · cases h; exact Or.inl ⟨_, rfl⟩
  split at h
  · cases h; exact Or.inl ⟨_, rfl⟩
  · cases h; exact Or.inr ⟨⟨_, rfl⟩, rfl⟩
  · cases h

theorem u64_due {s : State} (hi : LineInv s) {n : Nat} (hv : s.height + (n : Int) < two63) :
    s.height ≤ ((u64 (s.height + n) : Nat) : Int) ∧ ((u64 (s.height + n) : Nat) : Int) < two63 := by
  have h0 := hi.height_nonneg
  rw [u64_of_small (by omega) hv]
  exact ⟨by omega, hv⟩

theorem due_pairwise' {s : State} (hi : LineInv s) (k : Nat) :
    (dueRequests s.queue k).Pairwise fun a b => requestId a.height a.consumer ≠ requestId b.height b.consumer := by
  unfold dueRequests
  rw [List.pairwise_map]
  have h1 : s.queue.Pairwise (fun a b => a.1 ≠ b.1) := by
    have := hi.nodupQ
    unfold AMap.NodupKeys List.Nodup at this
    rwa [List.pairwise_map] at this
  have h2 := List.Pairwise.filter (fun e : (Nat × Id) × Request => e.1.1 == k) h1
  refine List.Pairwise.imp_of_mem ?_ h2
  intro a b ha hb hab hc
  rw [List.mem_filter] at ha hb
  apply hab
  have ea := (hi.entry a ha.1).1
  have eb := (hi.entry b hb.1).1
  have k1 : a.1.1 = k := by simpa using ha.2
  have k2 : b.1.1 = k := by simpa using hb.2
  exact Prod.ext (by rw [k1, k2]) (by rw [ea, eb, hc])

theorem due_started_pairwise {s : State} (hi : LineInv s) {h : Int} {st : List String}
    (hd : StartedDistinct s h st) :
    (dueRequests s.queue (u64 (h - 1))).Pairwise fun a b =>
      ¬ (a.oracle = true ∧ b.oracle = true ∧ st.contains a.ctxId = true ∧ a.ctxId = b.ctxId) := by
  unfold dueRequests
  rw [List.pairwise_map]
  have h1 : s.queue.Pairwise (fun a b => a.1 ≠ b.1) := by
    have := hi.nodupQ
    unfold AMap.NodupKeys List.Nodup at this
    rwa [List.pairwise_map] at this
  have h2 := List.Pairwise.filter (fun e : (Nat × Id) × Request => e.1.1 == u64 (h - 1)) h1
  refine List.Pairwise.imp_of_mem ?_ h2
  intro a b ha hb hab hc
  rw [List.mem_filter] at ha hb
  apply hab
  have k1 : a.1.1 = u64 (h - 1) := by simpa using ha.2
  have k2 : b.1.1 = u64 (h - 1) := by simpa using hb.2
  rw [hd a ha.1 b hb.1 k1 k2 hc.1 hc.2.1 hc.2.2.1 hc.2.2.2]

/-- the begin block of `height + 1`: what it does to every table -/
structure BeginFacts (s s' : State) (h t : Int) (hash : ByteArray) (st : List String) : Prop where
  inv : LineInv s'
  height : s'.height = h
  unixEq : s'.unix = t
  hashEq : s'.hash = hash
  addrsEq : s'.addrs = s.addrs
  ctxsEq : s'.ctxs = s.ctxs
  drained : ∀ e ∈ s'.queue, e.1.1 ≠ u64 (h - 1)
  qframe : ∀ key : Nat × Id, key.1 ≠ u64 (h - 1) → AMap.get? s'.queue key = AMap.get? s.queue key
  fulfils : ∀ e ∈ s.queue, e.1.1 = u64 (h - 1) → e.2.oracle = false →
    ∃ v, prngValue hash t (addrBytes s e.2.consumer) false ByteArray.empty = some v ∧
      AMap.get? s'.randoms (requestId e.2.height e.2.consumer) = some { txHash := e.2.txHash, height := h - 1, value := v }
  rframe : ∀ id, (∀ e ∈ s.queue, e.1.1 = u64 (h - 1) → e.2.oracle = false → requestId e.2.height e.2.consumer ≠ id) →
    AMap.get? s'.randoms id = AMap.get? s.randoms id
  starts : ∀ e ∈ s.queue, e.1.1 = u64 (h - 1) → e.2.oracle = true → st.contains e.2.ctxId = true →
    AMap.get? s'.oracleReqs e.2.ctxId = some e.2
  oframe : ∀ c, (∀ e ∈ s.queue, e.1.1 = u64 (h - 1) → e.2.oracle = true → st.contains e.2.ctxId = true → e.2.ctxId ≠ c) →
    AMap.get? s'.oracleReqs c = AMap.get? s.oracleReqs c

theorem beginBlock_facts {s s' : State} {h t : Int} {hash : ByteArray} {st : List String}
    (hi : LineInv s) (hv : h = s.height + 1 ∧ h < two63) (hd : StartedDistinct s h st)
    (hs : step s (.beginBlock h t hash st) = .ok s') : BeginFacts s s' h t hash st := by
  simp only [step, stepBeginBlock] at hs
  have f := processAll_frame hs
  have hq : s'.queue = eraseDue requestId (h - 1) s.queue (dueRequests s.queue (u64 (h - 1))) := f.1
  have hh : s'.height = h := f.2.1
  have h0 := hi.height_nonneg
  have hlast : h - 1 = s.height := by omega
  have hcast : ((u64 (h - 1) : Nat) : Int) = s.height := by
    rw [hlast]; exact u64_of_small h0 hi.height_lt
  have hrnd : ∀ c v, prngValue hash t (addrBytes s c) false ByteArray.empty = some v → isDigits20 v = true :=
    fun c v hv => prngValue_digits hv
  have ht : TablesOk s' := processAll_tablesOk hrnd hs (show TablesOk (withHeader s h t hash) from (tablesOk_of hi : TablesOk s))
  have hdrain : ∀ e ∈ s'.queue, e.1.1 ≠ u64 (h - 1) := by
    intro e he hk
    rw [hq, mem_eraseDue] at he
    obtain ⟨heq, hne⟩ := he
    have hr : e.2 ∈ dueRequests s.queue (u64 (h - 1)) := mem_dueRequests.mpr ⟨e, heq, hk, rfl⟩
    apply hne e.2 hr
    rw [← hk, ← (hi.entry e heq).1]
  refine ⟨?_, hh, f.2.2.1, f.2.2.2.1, f.2.2.2.2.1, f.2.2.2.2.2, hdrain, ?_, ?_, ?_, ?_, ?_⟩
  · refine ⟨by omega, by omega, by rw [hq]; exact nodup_eraseDue _ hi.nodupQ, ht.1, ht.2.1, ?_, ht.2.2⟩
    intro e he
    have hk := hdrain e he
    rw [hq, mem_eraseDue] at he
    obtain ⟨e1, e2, e3⟩ := hi.entry e he.1
    refine ⟨e1, ?_, e3⟩
    rw [hh]
    have : (e.1.1 : Int) ≠ s.height := by
      intro hc
      apply hk
      have : (e.1.1 : Int) = ((u64 (h - 1) : Nat) : Int) := by rw [hcast]; exact hc
      exact Int.ofNat.inj this
    omega
  · intro key hk
    rw [hq]; exact get?_eraseDue_other _ key hk
  · intro e he hk ho
    have hr : e.2 ∈ dueRequests s.queue (u64 (h - 1)) := mem_dueRequests.mpr ⟨e, he, hk, rfl⟩
    exact processAll_fulfils hs (due_pairwise' hi _) e.2 hr ho
  · intro id hne
    apply processAll_randoms_other id hs
    intro r hr
    obtain ⟨e, he, hk, rfl⟩ := mem_dueRequests.mp hr
    cases ho : e.2.oracle with
    | true => exact Or.inl rfl
    | false => exact Or.inr (hne e he hk ho)
  · intro e he hk ho hst
    have hr : e.2 ∈ dueRequests s.queue (u64 (h - 1)) := mem_dueRequests.mpr ⟨e, he, hk, rfl⟩
    exact processAll_oracle_started hs (due_started_pairwise hi hd) e.2 hr ho hst
  · intro c hne
    apply processAll_oracle_other c hs
    intro r hr hc
    obtain ⟨e, he, hk, rfl⟩ := mem_dueRequests.mp hr
    exact hne e he hk hc.1 hc.2.1 hc.2.2

/-! ### clause helpers: a clause about the observed tables follows from the model's next state -/

section clauses
variable {s s' post : State}

theorem same_q (hi : LineInv s) (hp : ObsEq post s') {ex : Nat × Id → Bool}
    (h : ∀ k, ex k = false → AMap.get? s.queue k = AMap.get? s'.queue k) : sameMap s.queue post.queue ex = true :=
  sameMap_of hi.nodupQ hp.nodupQ (fun k hk => by rw [hp.queue]; exact h k hk)

theorem same_r (hi : LineInv s) (hp : ObsEq post s') {ex : Id → Bool}
    (h : ∀ k, ex k = false → AMap.get? s.randoms k = AMap.get? s'.randoms k) : sameMap s.randoms post.randoms ex = true :=
  sameMap_of hi.nodupR hp.nodupR (fun k hk => by rw [hp.randoms]; exact h k hk)

theorem same_o (hi : LineInv s) (hp : ObsEq post s') {ex : String → Bool}
    (h : ∀ k, ex k = false → AMap.get? s.oracleReqs k = AMap.get? s'.oracleReqs k) :
    sameMap s.oracleReqs post.oracleReqs ex = true :=
  sameMap_of hi.nodupO hp.nodupO (fun k hk => by rw [hp.oracleReqs]; exact h k hk)

theorem height_beq (hp : ObsEq post s') (hh : s'.height = s.height) : (s.height == post.height) = true := by
  rw [hp.height, hh]; simp

theorem values_ok (hi' : LineInv s') (hp : ObsEq post s') :
    (post.randoms.all fun e => isDigits20 e.2.value) = true := by
  rw [List.all_eq_true]
  intro e he
  exact hi'.digits e ((mem_congr hp.nodupR hi'.nodupR hp.randoms e).mp he)

theorem no_stale (hi' : LineInv s') (hp : ObsEq post s') : post.queue.any (staleEntry post.height) = false := by
  rw [List.any_eq_false]
  intro e he
  have := hi'.entry e ((mem_congr hp.nodupQ hi'.nodupQ hp.queue e).mp he)
  rw [hp.height]
  simp only [staleEntry, Bool.or_eq_true, decide_eq_true_eq, not_or]
  omega

theorem ids_ok (hi' : LineInv s') (hp : ObsEq post s') :
    (post.queue.any fun e => e.1.2 != requestId e.2.height e.2.consumer) = false := by
  rw [List.any_eq_false]
  intro e he
  have := (hi'.entry e ((mem_congr hp.nodupQ hi'.nodupQ hp.queue e).mp he)).1
  simp [this]

theorem hygiene_nil (hi' : LineInv s') (hp : ObsEq post s') : hygiene post = [] := by
  simp [hygiene, failIf, ids_ok hi' hp, no_stale hi' hp]

theorem sameObs_of (hi : LineInv s) (hp : ObsEq post s) : sameObs s post = true := by
  simp [sameObs, same_q hi hp (fun _ _ => rfl), same_r hi hp (fun _ _ => rfl), same_o hi hp (fun _ _ => rfl),
    height_beq hp rfl]

end clauses

/-! ### requests -/

theorem check_request (s post : State) (c : String) (ok : Bool) (n : Nat) (tx : ByteArray) (feeOk : Bool)
    (hi : LineInv s) (hp : ObsEq post (nextOf s (step s (.request c ok n tx feeOk)))) :
    check s (.request c ok n tx feeOk) (resWord (step s (.request c ok n tx feeOk))) post = [] ∧
    LineInv (nextOf s (step s (.request c ok n tx feeOk))) := by
  cases hs : step s (.request c ok n tx feeOk) with
  | ok s' =>
    rw [hs] at hp
    obtain ⟨hs', hlt⟩ := request_ok hi hs
    have hi' : LineInv s' :=
      lineInv_enqueue hi (u64 (s.height + n))
        { height := s.height, consumer := c, txHash := txHashOf tx, oracle := false, feeCap := "", ctxId := "" }
        (u64_due hi hlt) (by rw [hs']) (by rw [hs']) (by rw [hs']) (by rw [hs'])
    subst hs'
    simp only [nextOf] at hp ⊢
    refine ⟨?_, hi'⟩
    have c1 : decide (s.height + (n : Int) ≥ two63) = false := by rw [decide_eq_false_iff_not]; omega
    have c2 := hp.queue (u64 (s.height + n), requestId s.height c)
    simp only [AMap.get?_set_self] at c2
    have c3 := same_q hi hp (ex := (· == (u64 (s.height + n), requestId s.height c)))
      (fun k hk => (AMap.get?_set_other _ _ _ _ (fun hc => by rw [← hc] at hk; simp at hk)).symm)
    simp [check, resWord, failIf, c1, c2, c3, same_r hi hp (fun _ _ => rfl), same_o hi hp (fun _ _ => rfl),
      height_beq hp rfl]
  | error e =>
    rw [hs] at hp
    obtain ⟨w, rfl⟩ := request_err hs
    simp only [nextOf] at hp ⊢
    exact ⟨by simp [check, resWord, failIf, sameObs_of hi hp], hi⟩

theorem check_requestOracle (s post : State) (c : String) (ok : Bool) (n : Nat) (tx : ByteArray) (fee : String)
    (feeOk : Bool) (svc : Svc) (hi : LineInv s) (hv : LineValid s (.op (.requestOracle c ok n tx fee feeOk svc)))
    (hp : ObsEq post (nextOf s (step s (.requestOracle c ok n tx fee feeOk svc)))) :
    (∀ f ∈ check s (.requestOracle c ok n tx fee feeOk svc) (resWord (step s (.requestOracle c ok n tx fee feeOk svc))) post,
      f.cls = some "F-rnd-1" ∧ Excluded s (.op (.requestOracle c ok n tx fee feeOk svc))) ∧
    LineInv (nextOf s (step s (.requestOracle c ok n tx fee feeOk svc))) := by
  cases hs : step s (.requestOracle c ok n tx fee feeOk svc) with
  | ok s' =>
    rw [hs] at hp
    obtain ⟨ctxId, rfl, hs', hlt⟩ := requestOracle_ok hi hs
    have hi' : LineInv s' :=
      lineInv_enqueue hi (u64 (s.height + n))
        { height := s.height, consumer := c, txHash := txHashOf tx, oracle := true, feeCap := fee, ctxId := ctxId }
        (u64_due hi hlt) (by rw [hs']) (by rw [hs']) (by rw [hs']) (by rw [hs'])
    subst hs'
    simp only [nextOf] at hp ⊢
    refine ⟨?_, hi'⟩
    have hne : ctxId ≠ "" := hv
    have c1 : decide (s.height + (n : Int) ≥ two63) = false := by rw [decide_eq_false_iff_not]; omega
    have c2 := hp.queue (u64 (s.height + n), requestId s.height c)
    simp only [AMap.get?_set_self] at c2
    have c3 := same_q hi hp (ex := (· == (u64 (s.height + n), requestId s.height c)))
      (fun k hk => (AMap.get?_set_other _ _ _ _ (fun hc => by rw [← hc] at hk; simp at hk)).symm)
    simp [check, resWord, failIf, c1, c2, c3, hne, same_r hi hp (fun _ _ => rfl), same_o hi hp (fun _ _ => rfl),
      height_beq hp rfl]
  | error e =>
    rw [hs] at hp
    simp only [nextOf] at hp ⊢
    refine ⟨?_, hi⟩
    rcases requestOracle_err hs with ⟨w, rfl⟩ | ⟨⟨w, rfl⟩, rfl⟩
    · simp [check, resWord, failIf, sameObs_of hi hp]
    · have hu : s.unix = 0 := hv
      simp [check, resWord, hu, Excluded]

/-! ### begin blocks -/

theorem append_nil_of {α : Type} {a b : List α} (ha : a = []) (hb : b = []) : a ++ b = [] := by rw [ha, hb]; rfl
theorem failIf_nil {c : Bool} {clause : String} {cls : Option String} (h : c = false) : failIf c clause cls = [] := by
  simp [failIf, h]
theorem failIf_not {c : Bool} {clause : String} {cls : Option String} (h : c = true) : failIf (!c) clause cls = [] := by
  simp [failIf, h]

theorem mem_dueNormal {s : State} {k : Nat} {e : (Nat × Id) × Request} :
    e ∈ ((s.queue.filter fun e => e.1.1 == k).filter fun e => !e.2.oracle) ↔
      e ∈ s.queue ∧ e.1.1 = k ∧ e.2.oracle = false := by
  simp only [List.mem_filter, beq_iff_eq, Bool.not_eq_true', and_assoc]

theorem mem_dueOracle {s : State} {k : Nat} {e : (Nat × Id) × Request} :
    e ∈ ((s.queue.filter fun e => e.1.1 == k).filter fun e => e.2.oracle) ↔
      e ∈ s.queue ∧ e.1.1 = k ∧ e.2.oracle = true := by
  simp only [List.mem_filter, beq_iff_eq, and_assoc]

section begin_ok
variable {s s' post : State} {h t : Int} {hash : ByteArray} {st : List String}

theorem bb_dequeued (F : BeginFacts s s' h t hash st) (hp : ObsEq post s') :
    (post.queue.any fun e => e.1.1 == u64 (h - 1)) = false := by
  rw [List.any_eq_false]
  intro e he
  have := F.drained e ((mem_congr hp.nodupQ F.inv.nodupQ hp.queue e).mp he)
  simpa using this

theorem bb_qframe (hi : LineInv s) (F : BeginFacts s s' h t hash st) (hp : ObsEq post s') :
    sameMap s.queue post.queue (fun key => key.1 == u64 (h - 1)) = true :=
  same_q hi hp (fun k hk => (F.qframe k (by simpa using hk)).symm)

theorem bb_fulfilled (F : BeginFacts s s' h t hash st) (hp : ObsEq post s') :
    (((s.queue.filter fun e => e.1.1 == u64 (h - 1)).filter fun e => !e.2.oracle).all fun e =>
      match prngValue hash t (addrBytes s e.2.consumer) false ByteArray.empty with
      | some v => AMap.get? post.randoms (requestId e.2.height e.2.consumer) ==
                    some { txHash := e.2.txHash, height := h - 1, value := v }
      | none => false) = true := by
  rw [List.all_eq_true]
  intro e he
  obtain ⟨h1, h2, h3⟩ := mem_dueNormal.mp he
  obtain ⟨v, hv, hg⟩ := F.fulfils e h1 h2 h3
  rw [hv, hp.randoms, hg]
  simp

theorem bb_fulfilled13 (F : BeginFacts s s' h t hash st) (hp : ObsEq post s') :
    (((s.queue.filter fun e => e.1.1 == u64 (h - 1)).filter fun e => !e.2.oracle).all fun e =>
      match AMap.get? post.randoms (requestId e.2.height e.2.consumer) with
      | some r => r.height == h - 1 && r.txHash == e.2.txHash
      | none => false) = true := by
  rw [List.all_eq_true]
  intro e he
  obtain ⟨h1, h2, h3⟩ := mem_dueNormal.mp he
  obtain ⟨v, _, hg⟩ := F.fulfils e h1 h2 h3
  rw [hp.randoms, hg]
  simp

theorem bb_rframe (hi : LineInv s) (F : BeginFacts s s' h t hash st) (hp : ObsEq post s') :
    sameMap s.randoms post.randoms (fun id =>
      (((s.queue.filter fun e => e.1.1 == u64 (h - 1)).filter fun e => !e.2.oracle).map
        fun e => requestId e.2.height e.2.consumer).contains id) = true := by
  refine same_r hi hp (fun id hid => (F.rframe id ?_).symm)
  intro e h1 h2 h3 hc
  have : id ∈ (((s.queue.filter fun e => e.1.1 == u64 (h - 1)).filter fun e => !e.2.oracle).map
      fun e => requestId e.2.height e.2.consumer) :=
    List.mem_map.mpr ⟨e, mem_dueNormal.mpr ⟨h1, h2, h3⟩, hc⟩
  rw [List.contains_eq_mem, decide_eq_false_iff_not] at hid
  exact hid this

theorem bb_ostart (F : BeginFacts s s' h t hash st) (hp : ObsEq post s') :
    (((s.queue.filter fun e => e.1.1 == u64 (h - 1)).filter fun e => e.2.oracle).all fun e =>
      !(st.contains e.2.ctxId) || AMap.get? post.oracleReqs e.2.ctxId == some e.2) = true := by
  rw [List.all_eq_true]
  intro e he
  obtain ⟨h1, h2, h3⟩ := mem_dueOracle.mp he
  cases hst : st.contains e.2.ctxId with
  | false => rfl
  | true =>
    rw [hp.oracleReqs, F.starts e h1 h2 h3 hst]
    simp

theorem bb_oframe (hi : LineInv s) (F : BeginFacts s s' h t hash st) (hp : ObsEq post s') :
    sameMap s.oracleReqs post.oracleReqs (fun c =>
      ((s.queue.filter fun e => e.1.1 == u64 (h - 1)).filter fun e => e.2.oracle).any
        fun e => e.2.ctxId == c && st.contains c) = true := by
  refine same_o hi hp (fun c hc => (F.oframe c ?_).symm)
  intro e h1 h2 h3 hst heq
  rw [List.any_eq_false] at hc
  apply hc e (mem_dueOracle.mpr ⟨h1, h2, h3⟩)
  subst heq
  rw [hst]; simp

theorem bb_height (F : BeginFacts s s' h t hash st) (hp : ObsEq post s') : (post.height != h) = false := by
  rw [hp.height, F.height]; simp

theorem bb_stale (F : BeginFacts s s' h t hash st) (hp : ObsEq post s') : post.queue.any (staleEntry h) = false := by
  have := no_stale F.inv hp
  rwa [hp.height, F.height] at this

end begin_ok

theorem bb_error_class {s : State} {h t : Int} {hash : ByteArray} {st : List String} {e : Err}
    (hs : step s (.beginBlock h t hash st) = .error e) :
    (t == 0 && !((s.queue.filter fun e => e.1.1 == u64 (h - 1)).filter fun e => !e.2.oracle).isEmpty) = true ∧
    Excluded s (.op (.beginBlock h t hash st)) := by
  obtain ⟨ht, r, hr, ho⟩ := beginBlock_error_only_zero_time s h t hash st e hs
  refine ⟨?_, ht, r, hr, ho⟩
  obtain ⟨e, he, hk, rfl⟩ := mem_dueRequests.mp hr
  have hm := mem_dueNormal.mpr ⟨he, hk, ho⟩
  subst ht
  cases hl : ((s.queue.filter fun e => e.1.1 == u64 (h - 1)).filter fun e => !e.2.oracle) with
  | nil => rw [hl] at hm; simp at hm
  | cons x l => simp

theorem check_beginBlock (s post : State) (h t : Int) (hash : ByteArray) (st : List String)
    (hi : LineInv s) (hv : LineValid s (.op (.beginBlock h t hash st)))
    (hp : ObsEq post (nextOf s (step s (.beginBlock h t hash st)))) :
    (∀ f ∈ check s (.beginBlock h t hash st) (resWord (step s (.beginBlock h t hash st))) post,
      f.cls = some "F-rnd-1" ∧ Excluded s (.op (.beginBlock h t hash st))) ∧
    (∀ f ∈ checkC13 s (.beginBlock h t hash st) (resWord (step s (.beginBlock h t hash st))) post,
      f.cls = some "F-rnd-1" ∧ Excluded s (.op (.beginBlock h t hash st))) ∧
    LineInv (nextOf s (step s (.beginBlock h t hash st))) := by
  cases hs : step s (.beginBlock h t hash st) with
  | ok s' =>
    rw [hs] at hp
    simp only [nextOf] at hp ⊢
    have F := beginBlock_facts hi hv.1 hv.2 hs
    refine ⟨?_, ?_, F.inv⟩
    · have : check s (.beginBlock h t hash st) (resWord (.ok s')) post = [] := by
        simp only [check, resWord, beq_self_eq_true, if_true]
        repeat' apply append_nil_of
        · exact failIf_nil (bb_dequeued F hp)
        · exact failIf_not (bb_qframe hi F hp)
        · exact failIf_not (bb_fulfilled F hp)
        · exact failIf_not (values_ok F.inv hp)
        · exact failIf_not (bb_rframe hi F hp)
        · exact failIf_not (bb_ostart F hp)
        · exact failIf_not (bb_oframe hi F hp)
        · exact failIf_nil (bb_height F hp)
        · exact failIf_nil (bb_stale F hp)
      rw [this]; intro f hf; cases hf
    · have : checkC13 s (.beginBlock h t hash st) (resWord (.ok s')) post = [] := by
        simp only [checkC13, resWord, beq_self_eq_true, if_true]
        refine append_nil_of (append_nil_of (append_nil_of (append_nil_of ?_ ?_) ?_) ?_) (hygiene_nil F.inv hp)
        · exact failIf_nil (bb_dequeued F hp)
        · exact failIf_not (bb_qframe hi F hp)
        · exact failIf_not (bb_fulfilled13 F hp)
        · exact failIf_nil (bb_height F hp)
      rw [this]; intro f hf; cases hf
  | error e =>
    simp only [nextOf]
    obtain ⟨hc, hx⟩ := bb_error_class hs
    have hw : (resWord (.error e) == "ok") = false := by cases e <;> simp [resWord]
    refine ⟨?_, ?_, hi⟩
    · intro f hf
      simp only [check, hw, Bool.false_eq_true, if_false, List.mem_singleton] at hf
      subst hf
      exact ⟨by simp only [hc, if_true], hx⟩
    · intro f hf
      simp only [checkC13, hw, Bool.false_eq_true, if_false, List.mem_singleton] at hf
      subst hf
      exact ⟨by simp only [hc, if_true], hx⟩

/-! ### service callbacks -/

/-- the clauses of `check` for an accepted response callback, as a function of the two case
    distinctions it makes (`success`: the request is fulfilled; `keeps`: the request stays pending) -/
def cbClauses (pre post : State) (ctxId : String) (success : Option (Request × ByteArray)) (keeps : Bool) : List Fail :=
  (match success with
   | some (r, seed) =>
     failIf (!(match prngValue pre.hash pre.unix (addrBytes pre r.consumer) true seed with
               | some v => AMap.get? post.randoms (requestId r.height r.consumer) ==
                             some { txHash := r.txHash, height := pre.height - 1, value := v }
               | none => false)) "oracle-fulfilled-value" ++
     failIf (!(sameMap pre.randoms post.randoms (· == requestId r.height r.consumer))) "result-overwritten"
   | none => failIf (!(sameMap pre.randoms post.randoms (fun _ => false))) "oracle-failure-produced-random") ++
  failIf (!keeps && (AMap.get? post.oracleReqs ctxId).isSome) "oracle-request-not-dropped" ++
  failIf (!(sameMap pre.oracleReqs post.oracleReqs (· == ctxId))) "oracle-frame" ++
  failIf (!(post.randoms.all fun e => isDigits20 e.2.value)) "value-range" ++
  failIf (!(sameMap pre.queue post.queue (fun _ => false) && pre.height == post.height)) "queue-frame"

theorem check_cb_eq (pre post : State) (ctxId : String) (out : Output) (err : Bool) :
    check pre (.cbResponse ctxId out err) "ok" post =
      cbClauses pre post ctxId
        (match out, err, pre.ctxs.contains ctxId, AMap.get? pre.oracleReqs ctxId with
         | .valid seed, false, true, some r => some (r, seed)
         | _, _, _, _ => none)
        (match out, err, pre.ctxs.contains ctxId, AMap.get? pre.oracleReqs ctxId with
         | .invalidBody, false, true, some _ => true
         | _, _, _, _ => false) := by
  simp only [check, beq_self_eq_true, if_true, cbClauses]
  rfl

theorem lineInv_dropped {s : State} (hi : LineInv s) (c : String) :
    LineInv { s with oracleReqs := AMap.erase s.oracleReqs c } :=
  lineInv_tables hi rfl rfl ⟨hi.nodupR, AMap.nodup_erase hi.nodupO c, hi.digits⟩

theorem erase_other_beq (m : AMap String Request) (c k : String) (hk : (k == c) = false) :
    AMap.get? m k = AMap.get? (AMap.erase m c) k :=
  (AMap.get?_erase_other _ _ _ (fun hc => by rw [hc] at hk; simp at hk)).symm

/-- the callback dropped the pending oracle request and did nothing else -/
theorem cbClauses_dropped {s post : State} (ctxId : String) (hi : LineInv s)
    (hp : ObsEq post { s with oracleReqs := AMap.erase s.oracleReqs ctxId }) :
    cbClauses s post ctxId none false = [] := by
  have hi' := lineInv_dropped hi ctxId
  have hn : (AMap.get? post.oracleReqs ctxId).isSome = false := by
    rw [hp.oracleReqs]; simp [AMap.get?_erase_self]
  simp only [cbClauses]
  repeat' apply append_nil_of
  · exact failIf_not (same_r hi hp (fun _ _ => rfl))
  · exact failIf_nil (by rw [hn]; rfl)
  · exact failIf_not (same_o hi hp (fun k hk => erase_other_beq _ _ _ hk))
  · exact failIf_not (values_ok hi' hp)
  · exact failIf_not (by rw [same_q hi hp (fun _ _ => rfl), height_beq hp rfl]; rfl)

/-- the callback left everything as it was (a body failing the output schema) -/
theorem cbClauses_kept {s post : State} (ctxId : String) (hi : LineInv s) (hp : ObsEq post s) :
    cbClauses s post ctxId none true = [] := by
  simp only [cbClauses]
  repeat' apply append_nil_of
  · exact failIf_not (same_r hi hp (fun _ _ => rfl))
  · exact failIf_nil rfl
  · exact failIf_not (same_o hi hp (fun _ _ => rfl))
  · exact failIf_not (values_ok hi hp)
  · exact failIf_not (by rw [same_q hi hp (fun _ _ => rfl), height_beq hp rfl]; rfl)

theorem lineInv_fulfilled {s : State} (hi : LineInv s) (c : String) (id : Id) (x : Rand)
    (hx : isDigits20 x.value = true) :
    LineInv { s with oracleReqs := AMap.erase s.oracleReqs c, randoms := AMap.set s.randoms id x } :=
  lineInv_tables hi rfl rfl ⟨AMap.nodup_set hi.nodupR _ _, AMap.nodup_erase hi.nodupO c, digits_set hi.digits _ _ hx⟩

/-- the callback fulfilled the request with the PRNG value over (app hash, block time, consumer, seed) -/
theorem cbClauses_fulfilled {s post : State} (ctxId : String) (r : Request) (seed : ByteArray) (v : String)
    (hi : LineInv s) (hv : prngValue s.hash s.unix (addrBytes s r.consumer) true seed = some v)
    (hp : ObsEq post { s with oracleReqs := AMap.erase s.oracleReqs ctxId,
                              randoms := AMap.set s.randoms (requestId r.height r.consumer)
                                { txHash := r.txHash, height := s.height - 1, value := v } }) :
    cbClauses s post ctxId (some (r, seed)) false = [] := by
  have hi' := lineInv_fulfilled hi ctxId (requestId r.height r.consumer)
    { txHash := r.txHash, height := s.height - 1, value := v } (prngValue_digits hv)
  have hn : (AMap.get? post.oracleReqs ctxId).isSome = false := by
    rw [hp.oracleReqs]; simp [AMap.get?_erase_self]
  have hg := hp.randoms (requestId r.height r.consumer)
  simp only [AMap.get?_set_self] at hg
  simp only [cbClauses]
  repeat' apply append_nil_of
  · exact failIf_not (by rw [hv, hg]; simp)
  · exact failIf_not (same_r hi hp (fun k hk =>
      (AMap.get?_set_other _ _ _ _ (fun hc => by rw [← hc] at hk; simp at hk)).symm))
  · exact failIf_nil (by rw [hn]; rfl)
  · exact failIf_not (same_o hi hp (fun k hk => erase_other_beq _ _ _ hk))
  · exact failIf_not (values_ok hi' hp)
  · exact failIf_not (by rw [same_q hi hp (fun _ _ => rfl), height_beq hp rfl]; rfl)

theorem finish_ok {s s' post : State} {op : Op} {P : Prop} (hs : step s op = .ok s')
    (hnil : check s op "ok" post = []) (hi' : LineInv s') :
    (∀ f ∈ check s op (resWord (step s op)) post, f.cls = some "F-rnd-1" ∧ P) ∧ LineInv (nextOf s (step s op)) := by
  rw [hs]
  simp only [resWord, nextOf]
  rw [hnil]
  exact ⟨fun f hf => (by cases hf), hi'⟩

theorem check_cbResponse (s post : State) (ctxId : String) (out : Output) (err : Bool)
    (hi : LineInv s) (hv : LineValid s (.op (.cbResponse ctxId out err)))
    (hp : ObsEq post (nextOf s (step s (.cbResponse ctxId out err)))) :
    (∀ f ∈ check s (.cbResponse ctxId out err) (resWord (step s (.cbResponse ctxId out err))) post,
      f.cls = some "F-rnd-1" ∧ Excluded s (.op (.cbResponse ctxId out err))) ∧
    LineInv (nextOf s (step s (.cbResponse ctxId out err))) := by
  -- the three shapes of an accepted callback
  have dropped : ∀ (out : Output) (err : Bool),
      step s (.cbResponse ctxId out err) = .ok { s with oracleReqs := AMap.erase s.oracleReqs ctxId } →
      (match out, err, s.ctxs.contains ctxId, AMap.get? s.oracleReqs ctxId with
        | .valid seed, false, true, some r => some (r, seed)
        | _, _, _, _ => none) = none →
      (match out, err, s.ctxs.contains ctxId, AMap.get? s.oracleReqs ctxId with
        | .invalidBody, false, true, some _ => true
        | _, _, _, _ => false) = false →
      ObsEq post (nextOf s (step s (.cbResponse ctxId out err))) →
      (∀ f ∈ check s (.cbResponse ctxId out err) (resWord (step s (.cbResponse ctxId out err))) post,
        f.cls = some "F-rnd-1" ∧ Excluded s (.op (.cbResponse ctxId out err))) ∧
      LineInv (nextOf s (step s (.cbResponse ctxId out err))) := by
    intro out err hs h1 h2 hp
    rw [hs] at hp
    refine finish_ok hs ?_ (lineInv_dropped hi ctxId)
    rw [check_cb_eq, h1, h2]
    exact cbClauses_dropped ctxId hi hp
  cases out with
  | empty =>
    have he : err = true := hv
    subst he
    exact dropped _ _ (by simp [step, stepCbResponse]) rfl rfl hp
  | invalidBody =>
    cases err with
    | true => exact dropped _ _ (by simp [step, stepCbResponse]) rfl rfl hp
    | false =>
      cases hk : s.ctxs.contains ctxId with
      | false =>
        have hk' : ¬ ctxId ∈ s.ctxs := by simpa using hk
        exact dropped _ _ (by simp [step, stepCbResponse, hk']) (by first | rfl | simp only [hk]) (by first | rfl | simp only [hk]) hp
      | true =>
        have hk' : ctxId ∈ s.ctxs := by simpa using hk
        cases hpd : AMap.get? s.oracleReqs ctxId with
        | none => exact dropped _ _ (by simp [step, stepCbResponse, hk', hpd]) (by first | rfl | simp only [hk, hpd]) (by first | rfl | simp only [hk, hpd]) hp
        | some r =>
          have hs : step s (.cbResponse ctxId .invalidBody false) = .ok s := by simp [step, stepCbResponse, hk', hpd]
          rw [hs] at hp
          refine finish_ok hs ?_ hi
          rw [check_cb_eq]
          simp only [hk, hpd]
          exact cbClauses_kept ctxId hi hp
  | valid seed =>
    cases err with
    | true => exact dropped _ _ (by simp [step, stepCbResponse]) rfl rfl hp
    | false =>
      cases hk : s.ctxs.contains ctxId with
      | false =>
        have hk' : ¬ ctxId ∈ s.ctxs := by simpa using hk
        exact dropped _ _ (by simp [step, stepCbResponse, hk']) (by first | rfl | simp only [hk]) (by first | rfl | simp only [hk]) hp
      | true =>
        have hk' : ctxId ∈ s.ctxs := by simpa using hk
        cases hpd : AMap.get? s.oracleReqs ctxId with
        | none => exact dropped _ _ (by simp [step, stepCbResponse, hk', hpd]) (by first | rfl | simp only [hk, hpd]) (by first | rfl | simp only [hk, hpd]) hp
        | some r =>
          cases hv' : prngValue s.hash s.unix (addrBytes s r.consumer) true seed with
          | none =>
            have hs : step s (.cbResponse ctxId (.valid seed) false) = .error (.panic "division by zero") := by
              simp [step, stepCbResponse, hk', hpd, hv']
            have hu : s.unix = 0 := prngValue_none_iff.mp hv'
            rw [hs]
            simp only [resWord, nextOf]
            refine ⟨?_, hi⟩
            intro f hf
            simp only [check, String.reduceBEq, Bool.false_eq_true, if_false, List.mem_singleton] at hf
            subst hf
            exact ⟨by simp [hu], hu⟩
          | some v =>
            have hs : step s (.cbResponse ctxId (.valid seed) false) =
                .ok { s with oracleReqs := AMap.erase s.oracleReqs ctxId,
                             randoms := AMap.set s.randoms (requestId r.height r.consumer)
                               { txHash := r.txHash, height := s.height - 1, value := v } } := by
              simp [step, stepCbResponse, hk', hpd, hv']
            rw [hs] at hp
            refine finish_ok hs ?_ (lineInv_fulfilled hi ctxId _ _ (prngValue_digits hv'))
            rw [check_cb_eq]
            simp only [hk, hpd]
            exact cbClauses_fulfilled ctxId r seed v hi hv' hp

theorem check_cbState (s post : State) (ctxId : String) (hi : LineInv s)
    (hp : ObsEq post (nextOf s (step s (.cbState ctxId)))) :
    check s (.cbState ctxId) (resWord (step s (.cbState ctxId))) post = [] ∧
    LineInv (nextOf s (step s (.cbState ctxId))) := by
  cases hk : s.ctxs.contains ctxId with
  | false =>
    have hs : step s (.cbState ctxId) = .ok s := by simp only [step, stepCbState, hk]; rfl
    rw [hs] at hp ⊢
    simp only [nextOf, resWord] at hp ⊢
    refine ⟨?_, hi⟩
    simp only [check, beq_self_eq_true, if_true, hk]
    refine append_nil_of (failIf_nil rfl) (failIf_not ?_)
    rw [same_o hi hp (fun _ _ => rfl), same_r hi hp (fun _ _ => rfl), same_q hi hp (fun _ _ => rfl), height_beq hp rfl]
    rfl
  | true =>
    have hs : step s (.cbState ctxId) = .ok { s with oracleReqs := AMap.erase s.oracleReqs ctxId } := by
      simp only [step, stepCbState, hk]; rfl
    rw [hs] at hp ⊢
    simp only [nextOf, resWord] at hp ⊢
    refine ⟨?_, lineInv_dropped hi ctxId⟩
    have hn : (AMap.get? post.oracleReqs ctxId).isSome = false := by
      rw [hp.oracleReqs]; simp [AMap.get?_erase_self]
    simp only [check, beq_self_eq_true, if_true, hk]
    refine append_nil_of (failIf_nil (by rw [hn]; rfl)) (failIf_not ?_)
    rw [same_o hi hp (fun k hk => erase_other_beq _ _ _ hk), same_r hi hp (fun _ _ => rfl),
      same_q hi hp (fun _ _ => rfl), height_beq hp rfl]
    rfl

/-! ### the service end block, environment lines, genesis lines -/

theorem apply_cbEmpty (s : State) (c : String) :
    apply s (.cbResponse c .empty true) = { s with oracleReqs := AMap.erase s.oracleReqs c } := by
  simp [apply, step, stepCbResponse]

theorem dropAll_eq (s : State) (dropped : List String) :
    dropAll s dropped = { s with oracleReqs := dropped.foldl (fun m c => AMap.erase m c) s.oracleReqs } := by
  unfold dropAll
  induction dropped generalizing s with
  | nil => rfl
  | cons c t ih =>
    rw [List.foldl_cons]
    show List.foldl _ (apply s (.cbResponse c .empty true)) t = _
    rw [apply_cbEmpty, ih]
    rfl

theorem lineInv_svcEnd {s : State} (hi : LineInv s) (dropped gone : List String) :
    LineInv (applySvcEnd s dropped gone) := by
  unfold applySvcEnd
  rw [dropAll_eq]
  exact lineInv_tables hi rfl rfl ⟨hi.nodupR, nodup_foldl_erase _ _ hi.nodupO, hi.digits⟩

theorem svcEnd_sound {s post : State} (dropped gone : List String) (hi : LineInv s)
    (hp : ObsEq post (applySvcEnd s dropped gone)) : svcEndFrame s post dropped = true := by
  unfold applySvcEnd at hp
  rw [dropAll_eq] at hp
  have ho : ∀ k, AMap.get? post.oracleReqs k = if k ∈ dropped then none else AMap.get? s.oracleReqs k := by
    intro k; rw [hp.oracleReqs]; exact get?_foldl_erase dropped s.oracleReqs k
  have h1 := same_q hi hp (ex := fun _ => false) (fun _ _ => rfl)
  have h2 := same_r hi hp (ex := fun _ => false) (fun _ _ => rfl)
  have h3 : (s.height == post.height) = true := height_beq hp rfl
  have h4 : sameMap s.oracleReqs post.oracleReqs (fun c => dropped.contains c) = true := by
    refine sameMap_of hi.nodupO hp.nodupO (fun k hk => ?_)
    rw [ho]
    have : ¬ k ∈ dropped := by simpa using hk
    simp [this]
  have h5 : dropped.all (fun c => (AMap.get? post.oracleReqs c).isNone) = true := by
    rw [List.all_eq_true]
    intro c hc
    rw [ho]; simp [hc]
  unfold svcEndFrame
  rw [h1, h2, h3, h4, h5]; rfl

theorem genesisPending_sound {s post : State} (due : Nat) (req : Request) (hi : LineInv s)
    (hp : ObsEq post { s with queue := AMap.set s.queue (due, requestId req.height req.consumer) req }) :
    genesisPendingOk s post due req = true := by
  have c2 := hp.queue (due, requestId req.height req.consumer)
  simp only [AMap.get?_set_self] at c2
  have c3 := same_q hi hp (ex := (· == (due, requestId req.height req.consumer)))
    (fun k hk => (AMap.get?_set_other _ _ _ _ (fun hc => by rw [← hc] at hk; simp at hk)).symm)
  unfold genesisPendingOk
  rw [c2, c3, same_r hi hp (fun _ _ => rfl), same_o hi hp (fun _ _ => rfl), height_beq hp rfl]
  simp

theorem genWF_of_lineInv {s : State} (hi : LineInv s) : GenWF requestId s := by
  refine ⟨hi.nodupQ, fun e he => ⟨(hi.entry e he).1, ?_⟩⟩
  have := (hi.entry e he).2.2
  unfold two63 at this; omega

theorem export_sound {s : State} (hi : LineInv s) :
    validateGenesis (exportGenesis s) = .ok () ∧ Spec.C12Random.exportOk s (exportGenesis s) = true := by
  refine ⟨rnd_export_validates s (genWF_of_lineInv hi), ?_⟩
  unfold Spec.C12Random.exportOk
  rw [Bool.and_eq_true, List.all_eq_true]
  constructor
  · intro e he
    rw [List.contains_eq_mem, decide_eq_true_eq]
    exact (flat_export_perm s).mem_iff.mpr (List.mem_map.mpr ⟨e, he, rfl⟩)
  · rw [rnd_export_count]; simp

theorem reimport_eq {s : State} (hw : GenWF requestId s) :
    importGenesis s (exportGenesis s) =
      .ok { s with queue := importQueue requestId (exportGenesis s), randoms := [], oracleReqs := [] } := by
  unfold importGenesis importGenesisWith
  rw [rnd_export_validates s hw]

/-- the state after wiping the store and importing the module's own export -/
theorem lineInv_imported {s : State} (hi : LineInv s) :
    LineInv { s with queue := importQueue requestId (exportGenesis s), randoms := [], oracleReqs := [] } := by
  have hw := genWF_of_lineInv hi
  refine ⟨hi.height_nonneg, hi.height_lt, importQueue_nodup _ _, nodup_nil, nodup_nil, ?_, by intro e he; cases he⟩
  intro e he
  have hg : AMap.get? s.queue e.1 = some e.2 := by
    rw [← import_export_queue requestId s hw e.1]
    exact AMap.get?_of_mem (importQueue_nodup _ _) he
  exact hi.entry e (AMap.mem_of_get? hg)

theorem reimport_sound {s post : State} (hi : LineInv s)
    (hp : ObsEq post { s with queue := importQueue requestId (exportGenesis s), randoms := [], oracleReqs := [] }) :
    (Spec.C12Random.queueSame s.queue post.queue && s.height == post.height) = true := by
  have h1 : Spec.C12Random.queueSame s.queue post.queue = true :=
    same_q hi hp (fun k _ => (import_export_queue requestId s (genWF_of_lineInv hi) k).symm)
  rw [h1, height_beq hp rfl]; rfl

/-! ### zero-height restart -/

theorem prep_key {s : State} (hi : LineInv s) (hh : 1 ≤ s.height) (e : (Nat × Id) × Request) (he : e ∈ s.queue) :
    u64 (i64OfKey e.1.1 - s.height + 1) = (i64OfKey e.1.1 - s.height + 1).toNat ∧
    ((u64 (i64OfKey e.1.1 - s.height + 1) : Nat) : Int) = (e.1.1 : Int) - s.height + 1 ∧
    1 ≤ (e.1.1 : Int) - s.height + 1 ∧ (e.1.1 : Int) - s.height + 1 < two63 := by
  obtain ⟨_, h2, h3⟩ := hi.entry e he
  have hk : e.1.1 < 9223372036854775808 := by unfold two63 at h3; omega
  rw [i64_small hk]
  have hu := u64_of_small (x := (e.1.1 : Int) - s.height + 1) (by omega) (by omega)
  refine ⟨?_, hu, by omega, by omega⟩
  have : (((e.1.1 : Int) - s.height + 1).toNat : Int) = (e.1.1 : Int) - s.height + 1 := Int.toNat_of_nonneg (by omega)
  omega

/-- under the invariant the monitor's `rebased` queue is the model's prepared queue -/
theorem rebased_eq {s : State} (hi : LineInv s) (hh : 1 ≤ s.height) :
    Spec.C12Random.rebased s = (prepZeroHeight s).queue := by
  unfold Spec.C12Random.rebased prepZeroHeight
  apply List.map_congr_left
  intro e he
  rw [(prep_key hi hh e he).1]

theorem prep_genWF' {s : State} (hi : LineInv s) (hh : 1 ≤ s.height) : GenWF requestId (prepZeroHeight s) := by
  constructor
  · unfold AMap.NodupKeys prepZeroHeight
    simp only [List.map_map]
    have h1 : s.queue.Pairwise (fun a b => a.1 ≠ b.1) := by
      have := hi.nodupQ
      unfold AMap.NodupKeys List.Nodup at this
      rwa [List.pairwise_map] at this
    unfold List.Nodup
    rw [List.pairwise_map]
    refine List.Pairwise.imp_of_mem ?_ h1
    intro a b ha hb hab hc
    simp only [Function.comp] at hc
    apply hab
    injection hc with hc1 hc2
    have ka := (prep_key hi hh a ha).2.1
    have kb := (prep_key hi hh b hb).2.1
    exact Prod.ext (by have : (a.1.1 : Int) = b.1.1 := by rw [hc1] at ka; omega
                       exact Int.ofNat.inj this) hc2
  · intro e he
    simp only [prepZeroHeight, List.mem_map] at he
    obtain ⟨e0, he0, rfl⟩ := he
    simp only
    refine ⟨(hi.entry e0 he0).1, ?_⟩
    have := prep_key hi hh e0 he0
    unfold two63 at this
    omega

theorem restart_eq {s : State} (hi : LineInv s) (hh : 1 ≤ s.height) :
    restartZeroHeight s =
      .ok { prepZeroHeight s with queue := importQueue requestId (exportGenesis (prepZeroHeight s)),
                                  randoms := [], oracleReqs := [], height := 1 } := by
  unfold restartZeroHeight
  rw [reimport_eq (prep_genWF' hi hh)]

theorem lineInv_restarted {s : State} (hi : LineInv s) (hh : 1 ≤ s.height) :
    LineInv { prepZeroHeight s with queue := importQueue requestId (exportGenesis (prepZeroHeight s)),
                                    randoms := [], oracleReqs := [], height := 1 } := by
  have hw := prep_genWF' hi hh
  refine ⟨by show (0 : Int) ≤ 1; decide, by show (1 : Int) < two63; decide, importQueue_nodup _ _, nodup_nil, nodup_nil,
    ?_, by intro e he; cases he⟩
  intro e he
  have hg : AMap.get? (prepZeroHeight s).queue e.1 = some e.2 := by
    rw [← import_export_queue requestId _ hw e.1]
    exact AMap.get?_of_mem (importQueue_nodup _ _) he
  have hm := AMap.mem_of_get? hg
  refine ⟨(hw.entry e hm).1, ?_⟩
  simp only [prepZeroHeight, List.mem_map] at hm
  obtain ⟨e0, he0, heq⟩ := hm
  have := prep_key hi hh e0 he0
  have h1 : e.1.1 = u64 (i64OfKey e0.1.1 - s.height + 1) := by
    have := congrArg (fun x => x.1.1) heq
    exact this.symm
  show (1 : Int) ≤ (e.1.1 : Int) ∧ (e.1.1 : Int) < two63
  rw [h1]
  omega

theorem restart_sound {s post : State} (hi : LineInv s) (hh : 1 ≤ s.height)
    (hp : ObsEq post { prepZeroHeight s with queue := importQueue requestId (exportGenesis (prepZeroHeight s)),
                                             randoms := [], oracleReqs := [], height := 1 }) :
    (Spec.C12Random.queueSame (Spec.C12Random.rebased s) post.queue && post.height == 1) = true := by
  have hw := prep_genWF' hi hh
  have h1 : Spec.C12Random.queueSame (Spec.C12Random.rebased s) post.queue = true := by
    rw [rebased_eq hi hh]
    refine sameMap_of hw.nodup hp.nodupQ (fun k _ => ?_)
    rw [hp.queue]
    exact (import_export_queue requestId _ hw k).symm
  have h2 : (post.height == 1) = true := by rw [hp.height]; rfl
  rw [h1, h2]; rfl

/-! ### one operation: C18 and C13 clauses together with the invariant of the next state -/

theorem op_sound (s post : State) (op : Op) (hi : LineInv s) (hv : LineValid s (.op op))
    (hp : ObsEq post (nextOf s (step s op))) :
    (∀ f ∈ check s op (resWord (step s op)) post, f.cls = some "F-rnd-1" ∧ Excluded s (.op op)) ∧
    (∀ f ∈ checkC13 s op (resWord (step s op)) post, f.cls = some "F-rnd-1" ∧ Excluded s (.op op)) ∧
    LineInv (nextOf s (step s op)) := by
  -- after a message or callback the C13 slice only checks queue hygiene
  have c13 : ∀ {op : Op}, (∀ h t hash st, op ≠ .beginBlock h t hash st) → LineInv (nextOf s (step s op)) →
      ObsEq post (nextOf s (step s op)) → checkC13 s op (resWord (step s op)) post = [] := by
    intro op hne hi' hp
    have hh := hygiene_nil hi' hp
    cases op with
    | beginBlock h t hash st => exact absurd rfl (hne h t hash st)
    | request _ _ _ _ _ => simp only [checkC13, hh]; split <;> rfl
    | requestOracle _ _ _ _ _ _ _ => simp only [checkC13, hh]; split <;> rfl
    | cbResponse _ _ _ => simp only [checkC13, hh]; split <;> rfl
    | cbState _ => simp only [checkC13, hh]; split <;> rfl
  cases op with
  | beginBlock h t hash st => exact check_beginBlock s post h t hash st hi hv hp
  | request c ok n tx feeOk =>
    obtain ⟨h1, h2⟩ := check_request s post c ok n tx feeOk hi hp
    refine ⟨(by rw [h1]; intro f hf; cases hf), ?_, h2⟩
    rw [c13 (by intro _ _ _ _ hc; cases hc) h2 hp]; intro f hf; cases hf
  | requestOracle c ok n tx fee feeOk svc =>
    obtain ⟨h1, h2⟩ := check_requestOracle s post c ok n tx fee feeOk svc hi hv hp
    refine ⟨h1, ?_, h2⟩
    rw [c13 (by intro _ _ _ _ hc; cases hc) h2 hp]; intro f hf; cases hf
  | cbResponse ctxId out err =>
    obtain ⟨h1, h2⟩ := check_cbResponse s post ctxId out err hi hv hp
    refine ⟨h1, ?_, h2⟩
    rw [c13 (by intro _ _ _ _ hc; cases hc) h2 hp]; intro f hf; cases hf
  | cbState ctxId =>
    obtain ⟨h1, h2⟩ := check_cbState s post ctxId hi hp
    refine ⟨(by rw [h1]; intro f hf; cases hf), ?_, h2⟩
    rw [c13 (by intro _ _ _ _ hc; cases hc) h2 hp]; intro f hf; cases hf

/-- every accepted or refused operation leaves a state satisfying the invariant -/
theorem cbResponse_tablesOk {s s' : State} {ctxId : String} {out : Output} {err : Bool} (hi : LineInv s)
    (h : step s (.cbResponse ctxId out err) = .ok s') : TablesOk s' := by
  simp only [step, stepCbResponse] at h
  repeat' split at h
  all_goals first
    | (cases h; exact ⟨hi.nodupR, AMap.nodup_erase hi.nodupO _, hi.digits⟩)
    | (cases h; exact tablesOk_of hi)
    | (cases h
       exact ⟨AMap.nodup_set hi.nodupR _ _, AMap.nodup_erase hi.nodupO _,
         digits_set hi.digits _ _ (prngValue_digits (by assumption))⟩)
    | cases h

theorem op_inv (s : State) (op : Op) (hi : LineInv s) (hv : LineValid s (.op op)) :
    LineInv (nextOf s (step s op)) := by
  cases hs : step s op with
  | error e => exact hi
  | ok s' =>
    simp only [nextOf]
    cases op with
    | beginBlock h t hash st => exact (beginBlock_facts hi hv.1 hv.2 hs).inv
    | request c ok n tx feeOk =>
      obtain ⟨hs', hlt⟩ := request_ok hi hs
      exact lineInv_enqueue hi (u64 (s.height + n))
        { height := s.height, consumer := c, txHash := txHashOf tx, oracle := false, feeCap := "", ctxId := "" }
        (u64_due hi hlt) (by rw [hs']) (by rw [hs']) (by rw [hs']) (by rw [hs'])
    | requestOracle c ok n tx fee feeOk svc =>
      obtain ⟨ctxId, _, hs', hlt⟩ := requestOracle_ok hi hs
      exact lineInv_enqueue hi (u64 (s.height + n))
        { height := s.height, consumer := c, txHash := txHashOf tx, oracle := true, feeCap := fee, ctxId := ctxId }
        (u64_due hi hlt) (by rw [hs']) (by rw [hs']) (by rw [hs']) (by rw [hs'])
    | cbResponse ctxId out err =>
      have f := cbResponse_frame (by simpa only [step] using hs)
      exact lineInv_tables hi f.1 f.2 (cbResponse_tablesOk hi hs)
    | cbState ctxId =>
      have hs2 : stepCbState s ctxId = .ok s' := by simpa only [step] using hs
      have f := cbState_frame hs2
      unfold stepCbState at hs2
      split at hs2
      · cases hs2; exact lineInv_dropped hi ctxId
      · cases hs2; exact hi

/-! ### the carried state -/

/-- on every line that prints the tables, the carried state has exactly the observed tables -/
theorem postOf_carry (pre p : State) (line : MonLine) (word : String)
    (h1 : ∀ a b c d e, line ≠ .prng a b c d e) (h2 : line ≠ .export) :
    ∃ u hs cs, postOf pre line word p = carry pre p u hs cs := by
  cases line with
  | op op =>
    cases op with
    | beginBlock h t hash st => simp only [postOf]; split <;> exact ⟨_, _, _, rfl⟩
    | requestOracle c ok n tx fee feeOk svc => cases svc <;> exact ⟨_, _, _, rfl⟩
    | request _ _ _ _ _ => exact ⟨_, _, _, rfl⟩
    | cbResponse _ _ _ => exact ⟨_, _, _, rfl⟩
    | cbState _ => exact ⟨_, _, _, rfl⟩
  | prng a b c d e => exact absurd rfl (h1 a b c d e)
  | «export» => exact absurd rfl h2
  | svcEnd _ _ => exact ⟨_, _, _, rfl⟩
  | svcRespond _ _ _ => exact ⟨_, _, _, rfl⟩
  | svcBreak _ _ => exact ⟨_, _, _, rfl⟩
  | genesisPending _ _ => exact ⟨_, _, _, rfl⟩
  | reimport => exact ⟨_, _, _, rfl⟩
  | reimportZero => exact ⟨_, _, _, rfl⟩

theorem obsEq_postOf {pre p s' : State} (line : MonLine) (word : String) (h : ObsEq p s')
    (h1 : ∀ a b c d e, line ≠ .prng a b c d e) (h2 : line ≠ .export) : ObsEq (postOf pre line word p) s' := by
  obtain ⟨u, hs, cs, he⟩ := postOf_carry pre p line word h1 h2
  rw [he]; exact obsEq_carry h u hs cs

/-- the model's next state satisfies the invariant again -/
theorem model_inv (s : State) (line : MonLine) (hi : LineInv s) (hv : LineValid s line) :
    LineInv (modelObs s line).p := by
  cases line with
  | op op => exact op_inv s op hi hv
  | prng hash t ini o seed => simp only [modelObs]; split <;> exact hi
  | svcEnd dropped gone => exact lineInv_svcEnd hi dropped gone
  | svcRespond c seed cb =>
    simp only [modelObs]
    split
    · exact op_inv s (.cbResponse c (.valid seed) false) hi trivial
    · exact hi
  | svcBreak c delete =>
    simp only [modelObs]
    split
    · exact lineInv_tables hi rfl rfl (tablesOk_of hi : TablesOk s)
    · exact hi
  | genesisPending due req => exact lineInv_enqueue hi due req hv rfl rfl rfl rfl
  | «export» => exact hi
  | reimport =>
    simp only [modelObs, reimport_eq (genWF_of_lineInv hi), nextOf]
    exact lineInv_imported hi
  | reimportZero =>
    have hh : 1 ≤ s.height := hv
    simp only [modelObs, restart_eq hi hh, nextOf]
    exact lineInv_restarted hi hh

/-! ### headline theorems -/

theorem nil_of_excluded {l : List Fail} {Q : Prop} (h : ∀ f ∈ l, f.cls = some "F-rnd-1" ∧ Q) (hq : ¬ Q) : l = [] := by
  cases l with
  | nil => rfl
  | cons f t => exact absurd (h f List.mem_cons_self).2 hq

theorem all_of_nil {l : List Fail} {Q : Prop} (h : l = []) : ∀ f ∈ l, f.cls = some "F-rnd-1" ∧ Q := by
  rw [h]; intro f hf; cases hf

/-- **Monitor soundness.** From every state `s` satisfying the line invariant, on every valid
    line, for every property `prop` the driver knows (and any other string): `stepFails` — the
    function `drv-random monitor` evaluates — applied to the model's own observation of the line
    (word, printed value / genesis document as the model prints them; the printed tables in ANY
    order, `ObsEq`; the unobserved fields reconstructed by the driver's own `postOf`) reports
    nothing, except failures of class F-rnd-1, and those only where the exclusion hypothesis of the
    partial theorems is violated (`Excluded`: block time zero under a begin block with a due
    non-oracle request, under a seed response, under `RequestService`). -/
theorem monitor_sound (prop : String) (s : State) (line : MonLine) (o : Obs)
    (hi : LineInv s) (hv : LineValid s line) (ho : ModelObs s line o) :
    (∀ f ∈ stepFails prop s line o, f.cls = some "F-rnd-1" ∧ Excluded s line) ∧
    (¬ Excluded s line → stepFails prop s line o = []) := by
  suffices h : ∀ f ∈ stepFails prop s line o, f.cls = some "F-rnd-1" ∧ Excluded s line from
    ⟨h, fun hq => nil_of_excluded h hq⟩
  cases line with
  | op op =>
    have hw : o.word = resWord (step s op) := ho.word
    have hp : ObsEq (postOf s (.op op) o.word o.p) (nextOf s (step s op)) :=
      obsEq_postOf _ _ ho.tables (by intro _ _ _ _ _ hc; cases hc) (by intro hc; cases hc)
    obtain ⟨h18, h13, _⟩ := op_sound s _ op hi hv hp
    simp only [stepFails]
    split
    · rw [hw] at h13 ⊢; exact h13
    · split
      · intro f hf; cases hf
      · rw [hw] at h18 ⊢; exact h18
  | prng hash t ini orc seed =>
    have hw : o.word = (modelObs s (.prng hash t ini orc seed)).word := ho.word
    have hval : o.value = (modelObs s (.prng hash t ini orc seed)).value := ho.value
    apply all_of_nil
    simp only [stepFails]
    split
    · rfl
    · cases hv' : prngValue hash t ini orc seed with
      | some v =>
        simp only [modelObs, hv'] at hw hval
        rw [hw, hval]
        simp only [beq_self_eq_true, if_true]
        exact failIf_not (prngValue_digits hv')
      | none =>
        simp only [modelObs, hv'] at hw hval
        have ht : t = 0 := prngValue_none_iff.mp hv'
        rw [hw, ht]
        simp [failIf]
  | svcEnd dropped gone =>
    have hw : o.word = "ok" := ho.word
    have hp : ObsEq (postOf s (.svcEnd dropped gone) o.word o.p) (applySvcEnd s dropped gone) :=
      obsEq_postOf _ _ ho.tables (by intro _ _ _ _ _ hc; cases hc) (by intro hc; cases hc)
    apply all_of_nil
    simp only [stepFails]
    rw [svcEnd_sound dropped gone hi hp, hw]
    simp [failIf]
  | svcRespond c seed cb =>
    have hp := obsEq_postOf (pre := s) (.svcRespond c seed cb) o.word ho.tables
      (by intro _ _ _ _ _ hc; cases hc) (by intro hc; cases hc)
    have hw := ho.word
    simp only [stepFails]
    split
    · by_cases hcb : (cb == "1") = true
      · simp only [modelObs, hcb, if_true] at hp hw
        simp only [hcb, if_true]
        obtain ⟨h18, _⟩ := check_cbResponse s _ c (.valid seed) false hi trivial hp
        rw [← hw] at h18
        intro f hf
        have := h18 f hf
        exact ⟨this.1, by simpa using hcb, this.2⟩
      · simp only [modelObs, hcb] at hp
        apply all_of_nil
        simp only [hcb]
        exact failIf_not (sameObs_of hi hp)
    · intro f hf; cases hf
  | svcBreak c delete =>
    have hw : o.word = "ok" := ho.word
    have hp := obsEq_postOf (pre := s) (.svcBreak c delete) o.word ho.tables
      (by intro _ _ _ _ _ hc; cases hc) (by intro hc; cases hc)
    have hp' : ObsEq (postOf s (.svcBreak c delete) o.word o.p) s := by
      simp only [modelObs] at hp
      split at hp
      · exact ⟨hp.height, hp.queue, hp.randoms, hp.oracleReqs, hp.nodupQ, hp.nodupR, hp.nodupO⟩
      · exact hp
    apply all_of_nil
    simp only [stepFails]
    rw [sameObs_of hi hp', hw]
    simp [failIf]
  | genesisPending due req =>
    have hw : o.word = "ok" := ho.word
    have hp := obsEq_postOf (pre := s) (.genesisPending due req) o.word ho.tables
      (by intro _ _ _ _ _ hc; cases hc) (by intro hc; cases hc)
    apply all_of_nil
    simp only [stepFails]
    rw [genesisPending_sound due req hi hp, hw]
    simp [failIf]
  | «export» =>
    have hval : o.validate = (modelObs s .export).validate := ho.validate
    have hgen : o.gen = exportGenesis s := ho.gen
    obtain ⟨e1, e2⟩ := export_sound hi
    simp only [modelObs, e1] at hval
    apply all_of_nil
    simp only [stepFails]
    rw [hval, hgen, e2]
    simp [failIf]
  | reimport =>
    have hw := ho.word
    have hp := obsEq_postOf (pre := s) .reimport o.word ho.tables
      (by intro _ _ _ _ _ hc; cases hc) (by intro hc; cases hc)
    simp only [modelObs, reimport_eq (genWF_of_lineInv hi), nextOf, resWord] at hw hp
    apply all_of_nil
    simp only [stepFails]
    rw [reimport_sound hi hp, hw]
    simp [failIf]
  | reimportZero =>
    have hh : 1 ≤ s.height := hv
    have hw := ho.word
    have hp := obsEq_postOf (pre := s) .reimportZero o.word ho.tables
      (by intro _ _ _ _ _ hc; cases hc) (by intro hc; cases hc)
    simp only [modelObs, restart_eq hi hh, nextOf, resWord] at hw hp
    apply all_of_nil
    simp only [stepFails]
    rw [restart_sound hi hh hp, hw]
    simp [failIf]

/-- **The line invariant is preserved.** The state the monitor carries to the next line — the
    observed tables under the fields reconstructed by `postOf` — satisfies `LineInv` again. -/
theorem line_inv (s : State) (line : MonLine) (o : Obs)
    (hi : LineInv s) (hv : LineValid s line) (ho : ModelObs s line o) :
    LineInv (postOf s line o.word o.p) := by
  by_cases h1 : ∃ a b c d e, line = .prng a b c d e
  · obtain ⟨a, b, c, d, e, rfl⟩ := h1; exact hi
  · by_cases h2 : line = .export
    · subst h2; exact hi
    · exact lineInv_obs (model_inv s line hi hv)
        (obsEq_postOf line o.word ho.tables (fun a b c d e hc => h1 ⟨a, b, c, d, e, hc⟩) h2)

/-- the invariant holds after a `reset` line (height `0 ≤ h < 2^63`, empty tables), for the
    tables as the observation prints them -/
theorem line_inv_reset (h t : Int) (hash : ByteArray) (addrs : List (String × ByteArray)) (p : State)
    (h0 : 0 ≤ h) (h1 : h < two63)
    (hp : ObsEq p { height := h, unix := t, hash := hash, addrs := addrs }) :
    LineInv (resetPost { height := h, unix := t, hash := hash, addrs := addrs } p) := by
  have hi0 : LineInv ({ height := h, unix := t, hash := hash, addrs := addrs } : State) :=
    ⟨h0, h1, nodup_nil, nodup_nil, nodup_nil, (by intro e he; cases he), (by intro e he; cases he)⟩
  exact lineInv_obs hi0 ⟨hp.height, hp.queue, hp.randoms, hp.oracleReqs, hp.nodupQ, hp.nodupR, hp.nodupO⟩

/-- the model's step preserves the invariant (`modelStep` = word and next state of `modelObs`) -/
theorem model_step_inv (s : State) (line : MonLine) (hi : LineInv s) (hv : LineValid s line) :
    LineInv (modelStep s line).2 := model_inv s line hi hv

/-! ### the carried state tracks the model's state -/

/-- agreement on the fields the observation does not print -/
def SameHidden (a b : State) : Prop :=
  a.unix = b.unix ∧ a.hash = b.hash ∧ a.addrs = b.addrs ∧ a.ctxs = b.ctxs

theorem cbResponse_hidden {s s' : State} {ctxId : String} {out : Output} {err : Bool}
    (h : step s (.cbResponse ctxId out err) = .ok s') : SameHidden s s' := by
  simp only [step, stepCbResponse] at h
  repeat' split at h
  all_goals first
    | (cases h; exact ⟨rfl, rfl, rfl, rfl⟩)
    | cases h

theorem op_hidden (s p : State) (op : Op) (hi : LineInv s) (hv : LineValid s (.op op)) :
    SameHidden (postOf s (.op op) (resWord (step s op)) p) (nextOf s (step s op)) := by
  cases hs : step s op with
  | error e =>
    have hw : (resWord (.error e) == "ok") = false := by cases e <;> simp [resWord]
    simp only [nextOf]
    cases op with
    | beginBlock h t hash st => simp only [postOf, hw]; exact ⟨rfl, rfl, rfl, rfl⟩
    | requestOracle c ok n tx fee feeOk svc =>
      cases svc with
      | ok cid => simp only [postOf, hw]; exact ⟨rfl, rfl, rfl, rfl⟩
      | err => exact ⟨rfl, rfl, rfl, rfl⟩
      | panic => exact ⟨rfl, rfl, rfl, rfl⟩
    | request _ _ _ _ _ => exact ⟨rfl, rfl, rfl, rfl⟩
    | cbResponse _ _ _ => exact ⟨rfl, rfl, rfl, rfl⟩
    | cbState _ => exact ⟨rfl, rfl, rfl, rfl⟩
  | ok s' =>
    simp only [nextOf, resWord]
    cases op with
    | beginBlock h t hash st =>
      have F := beginBlock_facts hi hv.1 hv.2 hs
      simp only [postOf, beq_self_eq_true, if_true, carry]
      exact ⟨F.unixEq.symm, F.hashEq.symm, F.addrsEq.symm, F.ctxsEq.symm⟩
    | request c ok n tx feeOk =>
      obtain ⟨hs', _⟩ := request_ok hi hs
      subst hs'; exact ⟨rfl, rfl, rfl, rfl⟩
    | requestOracle c ok n tx fee feeOk svc =>
      obtain ⟨ctxId, rfl, hs', _⟩ := requestOracle_ok hi hs
      subst hs'
      simp only [postOf, beq_self_eq_true, if_true, carry]
      exact ⟨rfl, rfl, rfl, rfl⟩
    | cbResponse ctxId out err =>
      have := cbResponse_hidden hs
      exact ⟨this.1, this.2.1, this.2.2.1, this.2.2.2⟩
    | cbState ctxId =>
      have hs2 : stepCbState s ctxId = .ok s' := by simpa only [step] using hs
      unfold stepCbState at hs2
      split at hs2 <;> (cases hs2; exact ⟨rfl, rfl, rfl, rfl⟩)

/-- **The reconstruction is right.** The state the monitor carries agrees with the model's next
    state on every field the observation does not print (block time, app hash, address table,
    known service contexts), and its tables read like the model's. -/
theorem post_tracks_model (s : State) (line : MonLine) (o : Obs)
    (hi : LineInv s) (hv : LineValid s line) (ho : ModelObs s line o) :
    SameHidden (postOf s line o.word o.p) (modelObs s line).p ∧ ObsEq (postOf s line o.word o.p) (modelObs s line).p := by
  have hw := ho.word
  cases line with
  | prng hash t ini orc seed =>
    have : (modelObs s (.prng hash t ini orc seed)).p = s := by simp only [modelObs]; split <;> rfl
    rw [this]; exact ⟨⟨rfl, rfl, rfl, rfl⟩, obsEq_refl hi⟩
  | «export» => exact ⟨⟨rfl, rfl, rfl, rfl⟩, obsEq_refl hi⟩
  | op op =>
    refine ⟨?_, obsEq_postOf _ _ ho.tables (by intro _ _ _ _ _ hc; cases hc) (by intro hc; cases hc)⟩
    rw [hw]; exact op_hidden s o.p op hi hv
  | svcEnd dropped gone =>
    refine ⟨?_, obsEq_postOf _ _ ho.tables (by intro _ _ _ _ _ hc; cases hc) (by intro hc; cases hc)⟩
    simp only [modelObs, applySvcEnd, dropAll_eq]
    exact ⟨rfl, rfl, rfl, rfl⟩
  | svcRespond c seed cb =>
    refine ⟨?_, obsEq_postOf _ _ ho.tables (by intro _ _ _ _ _ hc; cases hc) (by intro hc; cases hc)⟩
    simp only [modelObs]
    split
    · cases hs : step s (.cbResponse c (.valid seed) false) with
      | ok s' =>
        have := cbResponse_hidden hs
        exact ⟨this.1, this.2.1, this.2.2.1, this.2.2.2⟩
      | error e => exact ⟨rfl, rfl, rfl, rfl⟩
    · exact ⟨rfl, rfl, rfl, rfl⟩
  | svcBreak c delete =>
    refine ⟨?_, obsEq_postOf _ _ ho.tables (by intro _ _ _ _ _ hc; cases hc) (by intro hc; cases hc)⟩
    cases delete <;> exact ⟨rfl, rfl, rfl, rfl⟩
  | genesisPending due req =>
    exact ⟨⟨rfl, rfl, rfl, rfl⟩, obsEq_postOf _ _ ho.tables (by intro _ _ _ _ _ hc; cases hc) (by intro hc; cases hc)⟩
  | reimport =>
    refine ⟨?_, obsEq_postOf _ _ ho.tables (by intro _ _ _ _ _ hc; cases hc) (by intro hc; cases hc)⟩
    simp only [modelObs, reimport_eq (genWF_of_lineInv hi), nextOf]
    exact ⟨rfl, rfl, rfl, rfl⟩
  | reimportZero =>
    have hh : 1 ≤ s.height := hv
    refine ⟨?_, obsEq_postOf _ _ ho.tables (by intro _ _ _ _ _ hc; cases hc) (by intro hc; cases hc)⟩
    simp only [modelObs, restart_eq hi hh, nextOf]
    exact ⟨rfl, rfl, rfl, rfl⟩

/-! ### a decidable form of the invariant and a concrete monitored history (used by the audit) -/

def lineInvB (s : State) : Bool :=
  decide (0 ≤ s.height) && decide (s.height < two63) &&
  decide ((s.queue.map (·.1)).Nodup) && decide ((s.randoms.map (·.1)).Nodup) &&
  decide ((s.oracleReqs.map (·.1)).Nodup) &&
  s.queue.all (fun e => e.1.2 == requestId e.2.height e.2.consumer &&
    decide (s.height ≤ (e.1.1 : Int)) && decide ((e.1.1 : Int) < two63)) &&
  s.randoms.all (fun e => isDigits20 e.2.value)

theorem lineInv_of_B {s : State} (h : lineInvB s = true) : LineInv s := by
  simp only [lineInvB, Bool.and_eq_true, decide_eq_true_eq, List.all_eq_true, beq_iff_eq] at h
  obtain ⟨⟨⟨⟨⟨⟨h1, h2⟩, h3⟩, h4⟩, h5⟩, h6⟩, h7⟩ := h
  exact ⟨h1, h2, h3, h4, h5, fun e he => ⟨(h6 e he).1.1, (h6 e he).1.2, (h6 e he).2⟩, h7⟩

def demoSeed : ByteArray := ByteArray.mk (List.replicate 32 (7 : UInt8)).toArray

/-- requests with and without oracle, a request imported through genesis, export / reimport, two
    begin blocks (the second fulfils one request and starts the oracle one), the service end block,
    the seed response through the service module, an environment break, the pure PRNG, a
    zero-height restart — and finally a begin block at block time zero over a due request -/
def demoLines : List MonLine :=
  [.op (.request "cA" true 1 "t1".toUTF8 true),
   .op (.requestOracle "cB" true 1 "t2".toUTF8 "50stake" true (.ok "CTX1")),
   .genesisPending 7 { height := 5, consumer := "cA", txHash := "aa", oracle := true, feeCap := "50stake", ctxId := "CTXG" },
   .export, .reimport,
   .op (.beginBlock 6 107 "h6".toUTF8 []), .svcEnd [] [],
   .op (.beginBlock 7 113 "h7".toUTF8 ["CTX1"]),
   .svcRespond "CTX1" demoSeed "1",
   .op (.cbState "CTXG"), .op (.cbResponse "CTX1" .empty true),
   .op (.request "cA" true 0 "t3".toUTF8 true),
   .svcBreak "CTXG" true, .svcEnd ["CTXG"] ["CTX1"],
   .prng "h".toUTF8 100 "a".toUTF8 true demoSeed, .prng "h".toUTF8 0 "a".toUTF8 false ByteArray.empty,
   .reimportZero]

def demoLast : MonLine := .op (.beginBlock 2 0 "z".toUTF8 [])

/-- the monitors of all three properties are silent along `demoLines` on the model's own
    observations, every carried state satisfies the invariant, the history is not trivial (two
    fulfilled requests, entries rebased to height 1), and the last line yields exactly the F-rnd-1
    failure -/
def demoMonitor : Bool :=
  let run := demoLines.foldl (fun (acc : State × Bool) line =>
    let o := modelObs acc.1 line
    (postOf acc.1 line o.word o.p,
     acc.2 && lineInvB acc.1 && (stepFails "C18" acc.1 line o).isEmpty && (stepFails "C13" acc.1 line o).isEmpty &&
       (stepFails "C12" acc.1 line o).isEmpty)) (Props.C18.demoInit, true)
  let s := run.1
  let o := modelObs s demoLast
  run.2 && lineInvB s && s.height == 1 && s.queue.length == 2 && s.queue.all (fun e => e.1.1 == 1) &&
  o.word == "panic" &&
  (stepFails "C18" s demoLast o).map (fun f => (f.clause, f.cls)) == [("begin-block-panic", some "F-rnd-1")] &&
  (stepFails "C13" s demoLast o).map (fun f => (f.clause, f.cls)) == [("begin-block-panic", some "F-rnd-1")]

end Irismod.Proofs.RandomMonitor
