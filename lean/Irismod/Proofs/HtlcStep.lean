/-
Step-level facts of the HTLC model under the joint invariant: `Inv` is preserved by every
operation; the per-contract transition relation (`Trans`) of one step; contracts persist and
closed contracts are frozen; queue entries stay in the future on a chain of consecutive blocks.
Core tactics only.
-/
import Irismod.Proofs.HtlcBlock

namespace Irismod.Proofs.Htlc
open Irismod Irismod.Sdk Irismod.Htlc Irismod.Spec.C03 Irismod.Spec.C04

/-! ### `Inv` along operations -/

theorem inv_setParams {s s' : State} {auth ps} (hs : Inv s) (h : stepSetParams s auth ps = .ok s') : Inv s' := by
  unfold stepSetParams at h
  split at h; · cases h
  split at h; · cases h
  cases h; exact hs

/-- `advance` is total under the invariant and preserves it -/
theorem advance_ok {s : State} (hs : Inv s) (n dt : Nat) :
    ∃ s', advance s n dt = .ok s' ∧ Inv s' ∧ s'.height = s.height + n ∧ s'.params = s.params := by
  induction n generalizing s with
  | zero => exact ⟨s, rfl, hs, rfl, rfl⟩
  | succ n ih =>
    obtain ⟨s1, e⟩ := beginBlock_ok hs (s.height + 1) (s.time + dt)
    obtain ⟨s', h1, h2, h3, h4⟩ := ih e.inv
    refine ⟨s', ?_, h2, ?_, ?_⟩
    · simp only [advance, e.run]; exact h1
    · rw [h3, e.height]; omega
    · rw [h4, e.params]

theorem inv_step {s s' : State} {op : Op} (hs : Inv s) (hop : OpOk op) (h : step s op = .ok s') : Inv s' := by
  cases op with
  | create sender to coins lock ts tl transfer => exact inv_stepCreate hs hop h
  | claim sender id secret => exact inv_stepClaim hs h
  | beginBlock hh t =>
    obtain ⟨s1, e⟩ := beginBlock_ok hs hh t
    have : step s (.beginBlock hh t) = .ok s1 := e.run
    rw [this] at h; cases h; exact e.inv
  | advance n dt =>
    obtain ⟨s1, h1, h2, _⟩ := advance_ok hs n dt
    have : step s (.advance n dt) = .ok s1 := h1
    rw [this] at h; cases h; exact h2
  | setParams auth ps => exact inv_setParams hs h

theorem inv_apply {s : State} {op : Op} (hs : Inv s) (hop : OpOk op) : Inv (apply s op) := by
  unfold apply
  cases h : step s op with
  | ok s' => exact inv_step hs hop h
  | error e => exact hs

theorem inv_run {s : State} (ops : List Op) (hs : Inv s) (hops : ∀ op ∈ ops, OpOk op) : Inv (run s ops) := by
  induction ops generalizing s with
  | nil => exact hs
  | cons op r ih =>
    exact ih (inv_apply hs (hops op (by simp))) (fun o ho => hops o (by simp [ho]))

/-- a state without contracts, queue entries and supply records satisfies the invariant -/
theorem inv_fresh {s : State} (h1 : s.htlcs = []) (h2 : s.queue = []) (h3 : s.supplies = []) : Inv s := by
  refine ⟨?_, ⟨?_, ?_, ?_⟩, ?_, ?_⟩
  · exact ⟨by rw [h1]; exact List.nodup_nil, fun id c hg => by rw [h1] at hg; simp at hg⟩
  · rw [h2]; exact List.nodup_nil
  · intro id c hg; rw [h1] at hg; simp at hg
  · intro h id hm; rw [h2] at hm; simp at hm
  · intro d; simp [openEscrow, h1, AMap.sumBy, AMap.sumIf]
  · intro d; simp [supOf, sumDir, h1, h3, AMap.sumBy, AMap.sumIf, zeroSupply]

/-! ### the per-contract transition relation of one step -/

/-- the operation runs the begin blocker of height `h` -/
def RunsBlock (s : State) (op : Op) (h : Nat) : Prop :=
  match op with
  | .beginBlock h' _ => h' = h
  | .advance n _ => s.height < h ∧ h ≤ s.height + n
  | _ => False

/-- how the record `c` of contract `id` may look after the step by `op` from `s` -/
inductive Trans (s : State) (op : Op) (id : Id) (c : Contract) : Contract → Prop
  | stay : Trans s op id c c
  | claimed (sender secret : String) : op = .claim sender id secret → c.state = .open →
      genLock secret c.timestamp = c.hashLock → Trans s op id c (completed c secret s.height)
  | refunded : c.state = .open → RunsBlock s op c.expiration → Trans s op id c (Htlc.refunded c c.expiration)

theorem Trans.closed_eq {s op id c c'} (t : Trans s op id c c') (hc : c.state ≠ .open) : c' = c := by
  cases t with
  | stay => rfl
  | claimed _ _ _ ho _ => exact absurd ho hc
  | refunded ho _ => exact absurd ho hc

theorem Trans.state_cases {s op id c c'} (t : Trans s op id c c') :
    c' = c ∨ (c.state = .open ∧ c'.state ≠ .open) := by
  cases t with
  | stay => exact Or.inl rfl
  | claimed _ _ _ ho _ => exact Or.inr ⟨ho, by simp [completed]⟩
  | refunded ho _ => exact Or.inr ⟨ho, by simp [Htlc.refunded]⟩

theorem trans_beginBlock {s s' : State} {h t : Nat} (_hs : Inv s) (e : BlockEff s h t s') {id : Id} {c : Contract}
    (hg : AMap.get? s.htlcs id = some c) :
    ∃ c', AMap.get? s'.htlcs id = some c' ∧
      (c' = c ∨ (c.state = .open ∧ c.expiration = h ∧ c' = Htlc.refunded c h)) := by
  by_cases hm : (h, id) ∈ s.queue
  · obtain ⟨c0, hg0, ho, hexp, hr⟩ := e.refunded id hm
    rw [hg] at hg0; cases hg0
    exact ⟨_, hr, Or.inr ⟨ho, hexp, rfl⟩⟩
  · exact ⟨c, by rw [e.others id hm]; exact hg, Or.inl rfl⟩

theorem trans_advance {s : State} (hs : Inv s) (n dt : Nat) {s' : State} (h : advance s n dt = .ok s')
    {id : Id} {c : Contract} (hg : AMap.get? s.htlcs id = some c) :
    ∃ c', AMap.get? s'.htlcs id = some c' ∧
      (c' = c ∨ (c.state = .open ∧ s.height < c.expiration ∧ c.expiration ≤ s.height + n ∧
                  c' = Htlc.refunded c c.expiration)) := by
  induction n generalizing s c with
  | zero => simp [advance] at h; subst h; exact ⟨c, hg, Or.inl rfl⟩
  | succ n ih =>
    obtain ⟨s1, e⟩ := beginBlock_ok hs (s.height + 1) (s.time + dt)
    simp only [advance, e.run] at h
    obtain ⟨c1, hg1, hc1⟩ := trans_beginBlock hs e hg
    obtain ⟨c', hg', hc'⟩ := ih e.inv h hg1
    refine ⟨c', hg', ?_⟩
    rcases hc1 with rfl | ⟨ho, hexp, rfl⟩
    · rcases hc' with rfl | ⟨ho, h1, h2, rfl⟩
      · exact Or.inl rfl
      · rw [e.height] at h1 h2
        exact Or.inr ⟨ho, by omega, by omega, rfl⟩
    · rcases hc' with rfl | ⟨ho', _⟩
      · exact Or.inr ⟨ho, by omega, by omega, by rw [hexp]⟩
      · simp [Htlc.refunded] at ho'

/-- **state automaton of one step**: after an accepted operation every existing contract is
still there, and its record either is unchanged, or was open and was completed by *this* claim
with a matching secret, or was open and was refunded by the block of its expiration height -/
theorem step_trans {s s' : State} {op : Op} (hs : Inv s) (h : step s op = .ok s')
    {id : Id} {c : Contract} (hg : AMap.get? s.htlcs id = some c) :
    ∃ c', AMap.get? s'.htlcs id = some c' ∧ Trans s op id c c' := by
  cases op with
  | create sender to coins lock ts tl transfer =>
    simp only [step] at h
    obtain ⟨_, _, hfresh, hb⟩ := stepCreate_ok h
    have hne : genId lock sender to coins ≠ id := by
      intro e; rw [e, hg] at hfresh; cases hfresh
    have hh : ∃ cN, s'.htlcs = AMap.set s.htlcs (genId lock sender to coins) cN := by
      cases transfer with
      | false => obtain ⟨b, _, rfl⟩ := createPlain_ok hb; exact ⟨_, rfl⟩
      | true =>
        simp only [if_true] at hb
        obtain ⟨d, n, a, _, _, _, _, _, _, hcase⟩ := createHTLT_ok hb
        rcases hcase with ⟨_, _, hc⟩ | ⟨_, _, hc⟩
        · obtain ⟨_, _, _, rfl⟩ := createIncoming_ok hc; exact ⟨_, rfl⟩
        · obtain ⟨_, _, _, _, _, _, _, _, rfl⟩ := createOutgoing_ok hc; exact ⟨_, rfl⟩
    obtain ⟨cN, hh⟩ := hh
    exact ⟨c, by rw [hh, get?_set]; simp [hne, hg], .stay⟩
  | claim sender id0 secret =>
    simp only [step] at h
    obtain ⟨c0, s1, hget, hopen, hlk, hf, rfl⟩ := stepClaim_ok h
    have hh : s1.htlcs = s.htlcs := by
      rcases claimFunds_ok hf with ⟨_, b, _, rfl⟩ | ⟨_, _, d0, n, r, _, hci⟩ | ⟨_, _, d0, n, r, _, hco⟩
      · rfl
      · obtain ⟨_, _, _, _, _, _, _, _, rfl⟩ := claimIncoming_ok hci; rfl
      · obtain ⟨_, _, _, _, _, _, rfl⟩ := claimOutgoing_ok hco; rfl
    by_cases e : id0 = id
    · subst e
      rw [hg] at hget; cases hget
      refine ⟨completed c secret s.height, by rw [close_htlcs, get?_set]; simp, ?_⟩
      refine .claimed sender secret rfl hopen ?_
      simpa [hg] using hlk
    · exact ⟨c, by rw [close_htlcs, get?_set, hh]; simp [e, hg], .stay⟩
  | beginBlock hh t =>
    obtain ⟨s1, e⟩ := beginBlock_ok hs hh t
    have : step s (.beginBlock hh t) = .ok s1 := e.run
    rw [this] at h; cases h
    obtain ⟨c', hg', hc'⟩ := trans_beginBlock hs e hg
    refine ⟨c', hg', ?_⟩
    rcases hc' with rfl | ⟨ho, hexp, rfl⟩
    · exact .stay
    · subst hexp; exact .refunded ho rfl
  | advance n dt =>
    obtain ⟨c', hg', hc'⟩ := trans_advance hs n dt h hg
    refine ⟨c', hg', ?_⟩
    rcases hc' with rfl | ⟨ho, h1, h2, rfl⟩
    · exact .stay
    · exact .refunded ho ⟨h1, h2⟩
  | setParams auth ps =>
    simp only [step, stepSetParams] at h
    split at h; · cases h
    split at h; · cases h
    cases h; exact ⟨c, hg, .stay⟩

/-- the same for `apply` (a rejected operation changes nothing) -/
theorem apply_trans {s : State} {op : Op} (hs : Inv s) {id : Id} {c : Contract}
    (hg : AMap.get? s.htlcs id = some c) :
    ∃ c', AMap.get? (apply s op).htlcs id = some c' ∧ Trans s op id c c' := by
  unfold apply
  cases h : step s op with
  | ok s' => exact step_trans hs h hg
  | error e => exact ⟨c, hg, .stay⟩

/-! ### contracts come into existence only by `create`, and open -/

theorem absent_beginBlock {s s' : State} {h t : Nat} (hs : Inv s) (e : BlockEff s h t s') {id : Id}
    (hg : AMap.get? s.htlcs id = none) : AMap.get? s'.htlcs id = none := by
  have hm : (h, id) ∉ s.queue := by
    intro hm
    obtain ⟨c, hc, _⟩ := hs.2.1.2.2 h id hm
    rw [hg] at hc; cases hc
  rw [e.others id hm]; exact hg

theorem absent_advance {s : State} (hs : Inv s) (n dt : Nat) {s' : State} (h : advance s n dt = .ok s')
    {id : Id} (hg : AMap.get? s.htlcs id = none) : AMap.get? s'.htlcs id = none := by
  induction n generalizing s with
  | zero => simp [advance] at h; subst h; exact hg
  | succ n ih =>
    obtain ⟨s1, e⟩ := beginBlock_ok hs (s.height + 1) (s.time + dt)
    simp only [advance, e.run] at h
    exact ih e.inv h (absent_beginBlock hs e hg)

/-- the record a successful `create` stores -/
theorem stepCreate_record {s s' : State} {id sender to coins lock ts tl transfer}
    (h : stepCreate s id sender to coins lock ts tl transfer = .ok s') :
    ∃ dir b sp, s' = record { s with bank := b, supplies := sp } id (newContract s sender to coins lock ts tl transfer dir) := by
  obtain ⟨_, _, hfresh, hb⟩ := stepCreate_ok h
  cases transfer with
  | false => obtain ⟨b, _, rfl⟩ := createPlain_ok hb; exact ⟨_, _, _, rfl⟩
  | true =>
    simp only [if_true] at hb
    obtain ⟨d, n, a, hcoins, _, _, _, _, _, hcase⟩ := createHTLT_ok hb
    subst hcoins
    rcases hcase with ⟨_, _, hc⟩ | ⟨_, _, hc⟩
    · obtain ⟨_, _, _, rfl⟩ := createIncoming_ok hc; exact ⟨_, _, _, rfl⟩
    · obtain ⟨_, _, _, _, _, _, _, _, rfl⟩ := createOutgoing_ok hc; exact ⟨_, _, _, rfl⟩

/-- **a contract appears only through `create`, under the id `genId …`, and open** -/
theorem step_absent {s s' : State} {op : Op} (hs : Inv s) (h : step s op = .ok s') {id : Id}
    (hg : AMap.get? s.htlcs id = none) :
    AMap.get? s'.htlcs id = none ∨
    ∃ sender to coins lock ts tl transfer dir,
      op = .create sender to coins lock ts tl transfer ∧ id = genId lock sender to coins ∧
      AMap.get? s'.htlcs id = some (newContract s sender to coins lock ts tl transfer dir) := by
  cases op with
  | create sender to coins lock ts tl transfer =>
    simp only [step] at h
    obtain ⟨dir, b, sp, rfl⟩ := stepCreate_record h
    by_cases e : genId lock sender to coins = id
    · right
      refine ⟨sender, to, coins, lock, ts, tl, transfer, dir, rfl, e.symm, ?_⟩
      simp only [record]; rw [get?_set]; simp [e]
    · left
      simp only [record]; rw [get?_set]; simp [e]; exact hg
  | claim sender id0 secret =>
    left
    simp only [step] at h
    obtain ⟨c0, s1, hget, hopen, hlk, hf, rfl⟩ := stepClaim_ok h
    have hh : s1.htlcs = s.htlcs := by
      rcases claimFunds_ok hf with ⟨_, b, _, rfl⟩ | ⟨_, _, d0, n, r, _, hci⟩ | ⟨_, _, d0, n, r, _, hco⟩
      · rfl
      · obtain ⟨_, _, _, _, _, _, _, _, rfl⟩ := claimIncoming_ok hci; rfl
      · obtain ⟨_, _, _, _, _, _, rfl⟩ := claimOutgoing_ok hco; rfl
    have hne : id0 ≠ id := by intro e; subst e; rw [hg] at hget; cases hget
    rw [close_htlcs, get?_set, hh]; simp [hne, hg]
  | beginBlock hh t =>
    left
    obtain ⟨s1, e⟩ := beginBlock_ok hs hh t
    have : step s (.beginBlock hh t) = .ok s1 := e.run
    rw [this] at h; cases h
    exact absent_beginBlock hs e hg
  | advance n dt => left; exact absent_advance hs n dt h hg
  | setParams auth ps =>
    left
    simp only [step, stepSetParams] at h
    split at h; · cases h
    split at h; · cases h
    cases h; exact hg

/-- the bank after an accepted claim is the bank before adjusted by the claim's payout -/
theorem stepClaim_bank {s s' : State} {id secret lk} (h : stepClaim s id secret lk = .ok s') :
    ∃ c, AMap.get? s.htlcs id = some c ∧ c.state = .open ∧ lk = c.hashLock ∧ s'.bank = payClaim s.bank c ∧
      s'.htlcs = AMap.set s.htlcs id (completed c secret s.height) ∧
      s'.queue = dequeue s.queue (c.expiration, id) := by
  obtain ⟨c, s1, hget, hopen, hlk, hf, rfl⟩ := stepClaim_ok h
  refine ⟨c, hget, hopen, hlk, ?_⟩
  rcases claimFunds_ok hf with ⟨ht, b, hb, rfl⟩ | ⟨ht, hdir, d0, n, r, hamt, hci⟩ | ⟨ht, hdir, d0, n, r, hamt, hco⟩
  · refine ⟨?_, rfl, rfl⟩
    simp only [payClaim, ht]; exact sendCoins_eq hb
  · obtain ⟨sup, a, b, hsup, hin, ha, hfit, hb, rfl⟩ := claimIncoming_ok hci
    refine ⟨?_, rfl, rfl⟩
    simp only [payClaim, ht, hdir, if_true]; exact sendCoins_eq hb
  · obtain ⟨sup, b, hsup, hout, hcur, hb, rfl⟩ := claimOutgoing_ok hco
    refine ⟨?_, rfl, rfl⟩
    simp only [payClaim, ht, hdir, if_true]; exact burnCoins_eq hb

/-- the bank after an accepted create is the bank before adjusted by the escrow-in -/
theorem stepCreate_bank {s s' : State} {id sender to coins lock ts tl transfer}
    (h : stepCreate s id sender to coins lock ts tl transfer = .ok s') :
    ∃ dir, AMap.get? s'.htlcs id = some (newContract s sender to coins lock ts tl transfer dir) ∧
      s'.bank = payCreate s.bank (newContract s sender to coins lock ts tl transfer dir) := by
  obtain ⟨_, _, hfresh, hb⟩ := stepCreate_ok h
  cases transfer with
  | false =>
    obtain ⟨b, hsend, rfl⟩ := createPlain_ok hb
    refine ⟨.none, by simp only [record]; rw [get?_set]; simp, ?_⟩
    simp only [payCreate, newContract, record]; exact sendCoins_eq hsend
  | true =>
    simp only [if_true] at hb
    obtain ⟨d, n, a, hcoins, _, _, _, _, _, hcase⟩ := createHTLT_ok hb
    subst hcoins
    rcases hcase with ⟨_, _, hc⟩ | ⟨_, _, hc⟩
    · obtain ⟨_, _, _, rfl⟩ := createIncoming_ok hc
      refine ⟨.incoming, by simp only [record]; rw [get?_set]; simp, ?_⟩
      simp [payCreate, newContract, record]
    · obtain ⟨_, b, _, _, hsend, _, _, _, rfl⟩ := createOutgoing_ok hc
      refine ⟨.outgoing, by simp only [record]; rw [get?_set]; simp, ?_⟩
      simp only [payCreate, newContract, record]; exact sendCoins_eq hsend

/-! ### queue entries stay in the future on consecutive blocks -/

theorem queueFuture_beginBlock {s s' : State} {t : Nat} (hf : QueueFuture s)
    (e : BlockEff s (s.height + 1) t s') : QueueFuture s' := by
  intro h id hm
  have := (e.queue (h, id)).mp hm
  have h1 := hf h id this.1
  have h2 : h ≠ s.height + 1 := this.2
  rw [e.height]; omega

theorem queueFuture_advance {s : State} (hs : Inv s) (hf : QueueFuture s) (n dt : Nat) {s' : State}
    (h : advance s n dt = .ok s') : QueueFuture s' := by
  induction n generalizing s with
  | zero => simp [advance] at h; subst h; exact hf
  | succ n ih =>
    obtain ⟨s1, e⟩ := beginBlock_ok hs (s.height + 1) (s.time + dt)
    simp only [advance, e.run] at h
    exact ih e.inv (queueFuture_beginBlock hf e) h

/-- the heights of explicit `beginBlock` operations are consecutive -/
def ChainOp (s : State) : Op → Prop
  | .beginBlock h _ => h = s.height + 1
  | _ => True

theorem queueFuture_step {s s' : State} {op : Op} (hs : Inv s) (hf : QueueFuture s) (hc : ChainOp s op)
    (h : step s op = .ok s') : QueueFuture s' := by
  cases op with
  | create sender to coins lock ts tl transfer =>
    simp only [step] at h
    obtain ⟨hvb, _, hfresh, hb⟩ := stepCreate_ok h
    have htl : 0 < tl := by
      have : minTimeLock ≤ tl := by
        simp only [vbCreate, Bool.and_eq_true, decide_eq_true_eq] at hvb
        exact hvb.1.2
      unfold minTimeLock at this; omega
    have key : ∀ (s0 : State) (cN : Contract), s0.queue = s.queue → s0.height = s.height →
        cN.expiration = s.height + tl → QueueFuture (record s0 (genId lock sender to coins) cN) := by
      intro s0 cN hq hh hexp h' id' hm
      simp only [record] at hm
      rw [mem_enqueue, hq] at hm
      show s0.height < h'
      rcases hm with hm | hm
      · rw [hh]; exact hf h' id' hm
      · cases hm; rw [hh, hexp]; omega
    cases transfer with
    | false => obtain ⟨b, _, rfl⟩ := createPlain_ok hb; exact key _ _ rfl rfl rfl
    | true =>
      simp only [if_true] at hb
      obtain ⟨d, n, a, _, _, _, _, _, _, hcase⟩ := createHTLT_ok hb
      rcases hcase with ⟨_, _, hc⟩ | ⟨_, _, hc⟩
      · obtain ⟨_, _, _, rfl⟩ := createIncoming_ok hc; exact key _ _ rfl rfl rfl
      · obtain ⟨_, _, _, _, _, _, _, _, rfl⟩ := createOutgoing_ok hc; exact key _ _ rfl rfl rfl
  | claim sender id0 secret =>
    simp only [step] at h
    obtain ⟨c0, s1, hget, hopen, hlk, hfu, rfl⟩ := stepClaim_ok h
    have hh : s1.queue = s.queue ∧ s1.height = s.height := by
      rcases claimFunds_ok hfu with ⟨_, b, _, rfl⟩ | ⟨_, _, d0, n, r, _, hci⟩ | ⟨_, _, d0, n, r, _, hco⟩
      · exact ⟨rfl, rfl⟩
      · obtain ⟨_, _, _, _, _, _, _, _, rfl⟩ := claimIncoming_ok hci; exact ⟨rfl, rfl⟩
      · obtain ⟨_, _, _, _, _, _, rfl⟩ := claimOutgoing_ok hco; exact ⟨rfl, rfl⟩
    intro h' id' hm
    simp only [close] at hm
    rw [mem_dequeue, hh.1] at hm
    show s1.height < h'
    rw [hh.2]; exact hf h' id' hm.1
  | beginBlock hh t =>
    simp only [ChainOp] at hc
    subst hc
    obtain ⟨s1, e⟩ := beginBlock_ok hs (s.height + 1) t
    have : step s (.beginBlock (s.height + 1) t) = .ok s1 := e.run
    rw [this] at h; cases h
    exact queueFuture_beginBlock hf e
  | advance n dt => exact queueFuture_advance hs hf n dt h
  | setParams auth ps =>
    simp only [step, stepSetParams] at h
    split at h; · cases h
    split at h; · cases h
    cases h; exact hf

end Irismod.Proofs.Htlc
