/-
The begin blocker of the HTLC model under the joint invariant: every refund of a queued
contract succeeds (so the swallowed error of abci.go:26 is dead code), the iteration is total,
and `Inv` is preserved by whole blocks, by `advance`, by parameter updates, hence by `step`.
Core tactics only.
-/
import Irismod.Proofs.HtlcInv

namespace Irismod.Proofs.Htlc
open Irismod Irismod.Sdk Irismod.Htlc Irismod.Spec.C03 Irismod.Spec.C04

/-! ### the pay-once ledger relation between two states -/

/-- every balance moved from `s` to `s'` by exactly the change of the contracts' ledger amounts -/
def LedgerRel (s s' : State) : Prop :=
  ∀ a d, Bank.balOf s'.bank a d + outSum s' a d + inSum s a d
       = Bank.balOf s.bank a d + outSum s a d + inSum s' a d

theorem LedgerRel.refl (s : State) : LedgerRel s s := fun _ _ => rfl

theorem LedgerRel.trans {s1 s2 s3 : State} (h12 : LedgerRel s1 s2) (h23 : LedgerRel s2 s3) : LedgerRel s1 s3 := by
  intro a d; have := h12 a d; have := h23 a d; omega

/-- `LedgerRel` when neither the contract table nor the bank changed -/
theorem LedgerRel.same {s s' : State} (hh : s'.htlcs = s.htlcs) (hb : s'.bank = s.bank) : LedgerRel s s' := by
  intro a d; unfold outSum inSum; rw [hh, hb]

/-- `LedgerRel` after one entry changed -/
theorem ledgerRel_update {s s' : State} {id : Id} {c' : Contract} (hh : s'.htlcs = AMap.set s.htlcs id c')
    (hb : ∀ a d, Bank.balOf s'.bank a d + ledgerOut a d c' + ((AMap.get? s.htlcs id).map (ledgerIn a d)).getD 0
               = Bank.balOf s.bank a d + ((AMap.get? s.htlcs id).map (ledgerOut a d)).getD 0 + ledgerIn a d c') :
    LedgerRel s s' := by
  intro a d
  have h1 : outSum s' a d + ((AMap.get? s.htlcs id).map (ledgerOut a d)).getD 0 = outSum s a d + ledgerOut a d c' := by
    unfold outSum; rw [hh]; exact sumBy_set _ _ _ _
  have h2 : inSum s' a d + ((AMap.get? s.htlcs id).map (ledgerIn a d)).getD 0 = inSum s a d + ledgerIn a d c' := by
    unfold inSum; rw [hh]; exact sumBy_set _ _ _ _
  have := hb a d
  omega

/-- what one refund of a queued contract does -/
structure RefundEff (s : State) (h : Nat) (id : Id) (c : Contract) (s1 : State) : Prop where
  get : AMap.get? s.htlcs id = some c
  isOpen : c.state = .open
  exp : c.expiration = h
  run : refundOne s id = .ok s1
  htlcs : s1.htlcs = AMap.set s.htlcs id (refunded c s.height)
  bank : s1.bank = payRefund s.bank c
  esc : ∀ d, Bank.balOf s1.bank escrow d + escrowAmt d c = Bank.balOf s.bank escrow d
  ledger : LedgerRel s s1
  queue : s1.queue = s.queue
  height : s1.height = s.height
  time : s1.time = s.time
  params : s1.params = s.params
  prev : s1.prevTime = s.prevTime
  sup : ∀ d, (supOf s1 d).current = (supOf s d).current ∧ (supOf s1 d).incoming ≤ (supOf s d).incoming ∧
             (supOf s1 d).tlCurrent = (supOf s d).tlCurrent ∧ (supOf s1 d).elapsed = (supOf s d).elapsed
  inv : Inv { s1 with queue := dequeue s1.queue (h, id) }

theorem escrowAmt_le {s : State} (hge : EscrowGe s) {id : Id} {c : Contract}
    (hget : AMap.get? s.htlcs id = some c) (d : Denom) : escrowAmt d c ≤ Bank.balOf s.bank escrow d := by
  have := le_sumBy (escrowAmt d) s.htlcs id c hget
  have := hge d
  unfold openEscrow at this
  omega

/-- **refund at expiry cannot fail**: under the invariant the refund of any queued contract goes
through, with the stated effect -/
theorem refundOne_due {s : State} {h : Nat} {id : Id} (hs : Inv s) (hm : (h, id) ∈ s.queue) :
    ∃ c s1, RefundEff s h id c s1 := by
  obtain ⟨hwf, hq, hge, hcnt⟩ := hs
  obtain ⟨c, hget, hopen, hexp⟩ := hq.2.2 h id hm
  obtain ⟨hsnd, hwt, hwp⟩ := hwf.2 id c hget
  have hclosed : (refunded c s.height).state ≠ .open := by simp [refunded]
  cases ht : c.transfer with
  | false =>
    have hle : ∀ d, coinAmt c.amount d ≤ Bank.balOf s.bank escrow d := by
      intro d
      have := escrowAmt_le hge hget d
      simpa [escrowAmt, escrowed, hopen, ht] using this
    obtain ⟨b, hb⟩ := sendCoins_succeeds s.bank escrow c.sender c.amount hle
    refine ⟨c, markRefunded { s with bank := b } id c, ?_⟩
    refine { get := hget, isOpen := hopen, exp := hexp, run := ?_, htlcs := rfl, bank := ?_, esc := ?_, ledger := ?_, queue := rfl,
             height := rfl, time := rfl, params := rfl, prev := rfl, sup := ?_, inv := ?_ }
    · simp [refundOne, hget, ht, refundPlain, hb]
    · simp [payRefund, ht, markRefunded]; exact sendCoins_eq hb
    · intro d
      have := sendCoins_ok hb escrow d
      have hne : ¬ (escrow = c.sender) := fun e => hsnd e.symm
      simp only [hne, if_false, if_true] at this
      simp [escrowAmt, escrowed, hopen, ht, markRefunded]
      omega
    · apply ledgerRel_update (id := id) (c' := refunded c s.height) rfl
      intro a d
      have := sendCoins_ok hb a d
      show Bank.balOf b a d + _ + _ = _
      by_cases h1 : a = escrow <;> by_cases h2 : a = c.sender <;>
        simp [hget, ledgerOut, ledgerIn, funded, paysTo, refunded, hopen, ht, h1, h2] at this ⊢ <;> omega
    · intro d; simp [supOf, markRefunded]
    · refine ⟨?_, ?_, ?_, ?_⟩
      · exact wf_update hwf (id := id) (c' := refunded c s.height) rfl
          (fun d hd => hd) ⟨hsnd, by simp [refunded, ht], by simpa [refunded] using hwp⟩
      · exact queueInv_close hq hget hclosed rfl (by rw [hexp]; rfl)
      · apply escrowGe_update hge (id := id) (c' := refunded c s.height) rfl
        intro d
        have := sendCoins_ok hb escrow d
        have hne : ¬ (escrow = c.sender) := fun e => hsnd e.symm
        simp only [hne, if_false, if_true] at this
        simp [hget, escrowAmt, escrowed, refunded, hopen, ht, markRefunded]
        omega
      · apply counterInv_update hcnt (id := id) (c' := refunded c s.height) rfl
        intro d
        have := hcnt d
        simp [hget, dirAmt, refunded, ht, markRefunded, supOf] at this ⊢
        exact this.2.2.2
  | true =>
    obtain ⟨d0, n, hamt, hdirne, hsome⟩ := hwt ht
    obtain ⟨sup, hsup⟩ := Option.isSome_iff_exists.mp hsome
    have hso : supOf s d0 = sup := by simp [supOf, hsup]
    cases hdir : c.direction with
    | none => exact absurd hdir hdirne
    | incoming =>
      have hn : n ≤ sup.incoming := by
        have h1 := (hcnt d0).1
        have h2 := le_sumBy (dirAmt .open .incoming d0) s.htlcs id c hget
        rw [hso] at h1
        simp [dirAmt, ht, hopen, hdir, hamt, coinAmt] at h2
        unfold sumDir at h1; omega
      refine ⟨c, markRefunded { s with supplies := AMap.set s.supplies d0 { sup with incoming := sup.incoming - n } } id c, ?_⟩
      refine { get := hget, isOpen := hopen, exp := hexp, run := ?_, htlcs := rfl, bank := ?_, esc := ?_, ledger := ?_, queue := rfl,
               height := rfl, time := rfl, params := rfl, prev := rfl, sup := ?_, inv := ?_ }
      · have : ¬ (sup.incoming < n) := by omega
        simp [refundOne, hget, ht, hdir, hamt, refundIncoming, hsup, this]
      · simp [payRefund, ht, hdir, markRefunded]
      · intro d; simp [escrowAmt, escrowed, hopen, ht, hdir, markRefunded]
      · apply ledgerRel_update (id := id) (c' := refunded c s.height) rfl
        intro a d
        simp [hget, ledgerOut, ledgerIn, funded, paysTo, refunded, hopen, ht, hdir, markRefunded]
      · intro d
        simp only [supOf, markRefunded, getS?_set]
        by_cases e : d0 = d
        · subst e; simp [hsup]
        · simp [e]
      · refine ⟨?_, ?_, ?_, ?_⟩
        · apply wf_update hwf (id := id) (c' := refunded c s.height) rfl
            (fun d hd => isSome_set _ _ _ _ hd)
          refine ⟨hsnd, fun _ => ⟨d0, n, by simp [refunded, hamt], by simp [refunded, hdir], ?_⟩, by simp [refunded, ht]⟩
          simp [markRefunded, AMap.get?_set_self]
        · exact queueInv_close hq hget hclosed rfl (by rw [hexp]; rfl)
        · apply escrowGe_update hge (id := id) (c' := refunded c s.height) rfl
          intro d
          simp [hget, escrowAmt, escrowed, refunded, hopen, ht, hdir, markRefunded]
        · apply counterInv_update hcnt (id := id) (c' := refunded c s.height) rfl
          intro d
          have hc := hcnt d
          simp only [supOf, markRefunded, getS?_set]
          by_cases e : d0 = d
          · subst e
            simp [hget, dirAmt, refunded, hopen, ht, hdir, hamt, coinAmt, supOf, hsup] at hc ⊢
            omega
          · simp [hget, dirAmt, refunded, hopen, ht, hdir, hamt, coinAmt, e, supOf] at hc ⊢
            exact hc.2.2.2
    | outgoing =>
      have hn : n ≤ sup.outgoing := by
        have h1 := (hcnt d0).2.1
        have h2 := le_sumBy (dirAmt .open .outgoing d0) s.htlcs id c hget
        rw [hso] at h1
        simp [dirAmt, ht, hopen, hdir, hamt, coinAmt] at h2
        unfold sumDir at h1; omega
      have hle : ∀ d, coinAmt c.amount d ≤ Bank.balOf s.bank escrow d := by
        intro d
        have := escrowAmt_le hge hget d
        simpa [escrowAmt, escrowed, hopen, ht, hdir] using this
      obtain ⟨b, hb⟩ := sendCoins_succeeds s.bank escrow c.sender c.amount hle
      refine ⟨c, markRefunded { s with bank := b, supplies := AMap.set s.supplies d0 { sup with outgoing := sup.outgoing - n } } id c, ?_⟩
      refine { get := hget, isOpen := hopen, exp := hexp, run := ?_, htlcs := rfl, bank := ?_, esc := ?_, ledger := ?_, queue := rfl,
               height := rfl, time := rfl, params := rfl, prev := rfl, sup := ?_, inv := ?_ }
      · have : ¬ (sup.outgoing < n) := by omega
        simp [refundOne, hget, ht, hdir, hamt, refundOutgoing, hsup, this]
        rw [← hamt, hb]
      · simp [payRefund, ht, hdir, markRefunded]; exact sendCoins_eq hb
      · intro d
        have := sendCoins_ok hb escrow d
        have hne : ¬ (escrow = c.sender) := fun e => hsnd e.symm
        simp only [hne, if_false, if_true] at this
        simp [escrowAmt, escrowed, hopen, ht, hdir, markRefunded]
        omega
      · apply ledgerRel_update (id := id) (c' := refunded c s.height) rfl
        intro a d
        have := sendCoins_ok hb a d
        show Bank.balOf b a d + _ + _ = _
        by_cases h1 : a = escrow <;> by_cases h2 : a = c.sender <;>
          simp [hget, ledgerOut, ledgerIn, funded, paysTo, refunded, hopen, ht, hdir, h1, h2] at this ⊢ <;> omega
      · intro d
        simp only [supOf, markRefunded, getS?_set]
        by_cases e : d0 = d
        · subst e; simp [hsup]
        · simp [e]
      · refine ⟨?_, ?_, ?_, ?_⟩
        · apply wf_update hwf (id := id) (c' := refunded c s.height) rfl
            (fun d hd => isSome_set _ _ _ _ hd)
          refine ⟨hsnd, fun _ => ⟨d0, n, by simp [refunded, hamt], by simp [refunded, hdir], ?_⟩, by simp [refunded, ht]⟩
          simp [markRefunded, AMap.get?_set_self]
        · exact queueInv_close hq hget hclosed rfl (by rw [hexp]; rfl)
        · apply escrowGe_update hge (id := id) (c' := refunded c s.height) rfl
          intro d
          have := sendCoins_ok hb escrow d
          have hne : ¬ (escrow = c.sender) := fun e => hsnd e.symm
          simp only [hne, if_false, if_true] at this
          simp [hget, escrowAmt, escrowed, refunded, hopen, ht, hdir, markRefunded]
          omega
        · apply counterInv_update hcnt (id := id) (c' := refunded c s.height) rfl
          intro d
          have hc := hcnt d
          simp only [supOf, markRefunded, getS?_set]
          by_cases e : d0 = d
          · subst e
            simp [hget, dirAmt, refunded, hopen, ht, hdir, hamt, coinAmt, supOf, hsup] at hc ⊢
            omega
          · simp [hget, dirAmt, refunded, hopen, ht, hdir, hamt, coinAmt, e, supOf] at hc ⊢
            exact hc.2.2.2


theorem strandedSum_update {s s' : State} {id : Id} {c' : Contract}
    (hh : s'.htlcs = AMap.set s.htlcs id c') (d : Denom) :
    strandedSum s' d + ((AMap.get? s.htlcs id).map (strandedAmt d)).getD 0 = strandedSum s d + strandedAmt d c' := by
  unfold strandedSum; rw [hh]; exact sumBy_set _ _ _ _

/-- `EscrowExact` after one entry changed -/
theorem escrowExact_update {s s' : State} {id : Id} {c' : Contract} (hs : EscrowExact s)
    (hh : s'.htlcs = AMap.set s.htlcs id c')
    (hb : ∀ d, Bank.balOf s.bank escrow d + escrowAmt d c' + strandedAmt d c'
             = Bank.balOf s'.bank escrow d + ((AMap.get? s.htlcs id).map (escrowAmt d)).getD 0
               + ((AMap.get? s.htlcs id).map (strandedAmt d)).getD 0) :
    EscrowExact s' := by
  intro d
  have h1 := openEscrow_update hh d
  have h2 := strandedSum_update hh d
  have h3 := hs d
  have h4 := hb d
  omega

theorem RefundEff.exact {s : State} {h : Nat} {id : Id} {c : Contract} {s1 : State} (e : RefundEff s h id c s1)
    (hx : EscrowExact s) : EscrowExact { s1 with queue := dequeue s1.queue (h, id) } := by
  apply escrowExact_update hx (id := id) (c' := refunded c s.height) e.htlcs
  intro d
  have := e.esc d
  simp [e.get, strandedAmt, escrowAmt, escrowed, refunded, e.isOpen]
  show _ = Bank.balOf s1.bank escrow d + _
  simp [escrowAmt, escrowed, e.isOpen] at this
  omega

/-- the balances after refunding the listed contracts (as recorded in table `m`) one after the other -/
def refundAll (m : AMap Id Contract) (b : Bank) (ids : List Id) : Bank :=
  ids.foldl (fun b id => match AMap.get? m id with | some c => payRefund b c | none => b) b

theorem refundAll_congr (m m' : AMap Id Contract) (b : Bank) (ids : List Id)
    (h : ∀ x ∈ ids, AMap.get? m x = AMap.get? m' x) : refundAll m b ids = refundAll m' b ids := by
  induction ids generalizing b with
  | nil => rfl
  | cons x r ih =>
    simp only [refundAll, List.foldl]
    rw [h x (by simp)]
    exact ih _ (fun y hy => h y (by simp [hy]))

/-- what the iteration over the due entries does -/
structure DueEff (s : State) (h : Nat) (ids : List Id) (s' : State) : Prop where
  run : processDue s h ids = .ok s'
  inv : Inv s'
  queue : ∀ x, x ∈ s'.queue ↔ x ∈ s.queue ∧ ¬ (x.1 = h ∧ x.2 ∈ ids)
  refunded : ∀ id, id ∈ ids → ∃ c, AMap.get? s.htlcs id = some c ∧ c.state = .open ∧ c.expiration = h ∧
                AMap.get? s'.htlcs id = some (Htlc.refunded c s.height)
  others : ∀ id, id ∉ ids → AMap.get? s'.htlcs id = AMap.get? s.htlcs id
  bank : s'.bank = refundAll s.htlcs s.bank ids
  exact : EscrowExact s → EscrowExact s'
  ledger : LedgerRel s s'
  height : s'.height = s.height
  time : s'.time = s.time
  params : s'.params = s.params
  prev : s'.prevTime = s.prevTime
  sup : ∀ d, (supOf s' d).current = (supOf s d).current ∧ (supOf s' d).incoming ≤ (supOf s d).incoming ∧
             (supOf s' d).tlCurrent = (supOf s d).tlCurrent ∧ (supOf s' d).elapsed = (supOf s d).elapsed

/-- **the begin-block iteration is total** on states satisfying the invariant, refunds each due
contract exactly once and removes exactly the due entries -/
theorem processDue_ok (ids : List Id) {s : State} {h : Nat} (hs : Inv s) (hnd : ids.Nodup)
    (hin : ∀ id ∈ ids, (h, id) ∈ s.queue) : ∃ s', DueEff s h ids s' := by
  induction ids generalizing s with
  | nil =>
    refine ⟨s, { run := rfl, inv := hs, queue := fun x => by simp, refunded := fun id hid => by simp at hid,
                 others := fun _ _ => rfl, bank := rfl, exact := fun hx => hx, ledger := LedgerRel.refl _, height := rfl, time := rfl, params := rfl, prev := rfl,
                 sup := fun d => ⟨rfl, Nat.le_refl _, rfl, rfl⟩ }⟩
  | cons id r ih =>
    have hnd' := List.nodup_cons.mp hnd
    obtain ⟨c, s1, e⟩ := refundOne_due hs (hin id (by simp))
    have hq2 : ({ s1 with queue := dequeue s1.queue (h, id) } : State).queue = dequeue s.queue (h, id) := by
      show dequeue s1.queue (h, id) = _; rw [e.queue]
    have hin2 : ∀ id' ∈ r, (h, id') ∈ ({ s1 with queue := dequeue s1.queue (h, id) } : State).queue := by
      intro id' hid'
      rw [hq2, mem_dequeue]
      refine ⟨hin id' (by simp [hid']), ?_⟩
      intro heq
      have : id' = id := (Prod.mk.inj heq).2
      subst this; exact hnd'.1 hid'
    obtain ⟨s', e'⟩ := ih e.inv hnd'.2 hin2
    have hget2 : ∀ x, x ≠ id → AMap.get? ({ s1 with queue := dequeue s1.queue (h, id) } : State).htlcs x = AMap.get? s.htlcs x := by
      intro x hx
      show AMap.get? s1.htlcs x = _
      rw [e.htlcs, get?_set]; simp [Ne.symm hx]
    refine ⟨s', { run := ?_, inv := e'.inv, queue := ?_, refunded := ?_, others := ?_, bank := ?_,
                  exact := fun hx => e'.exact (e.exact hx),
                  ledger := (e.ledger.trans (LedgerRel.same rfl rfl)).trans e'.ledger,
                  height := by rw [e'.height]; exact e.height, time := by rw [e'.time]; exact e.time,
                  params := by rw [e'.params]; exact e.params, prev := by rw [e'.prev]; exact e.prev,
                  sup := ?_ }⟩
    · simp only [processDue, e.run]; exact e'.run
    · intro x
      rw [e'.queue x, hq2, mem_dequeue]
      constructor
      · rintro ⟨⟨hx, hne⟩, hnot⟩
        refine ⟨hx, ?_⟩
        rintro ⟨h1, h2⟩
        simp at h2
        rcases h2 with h2 | h2
        · apply hne; rw [← h1, ← h2]
        · exact hnot ⟨h1, h2⟩
      · rintro ⟨hx, hnot⟩
        refine ⟨⟨hx, ?_⟩, ?_⟩
        · intro heq; apply hnot; rw [heq]; simp
        · rintro ⟨h1, h2⟩; exact hnot ⟨h1, by simp [h2]⟩
    · intro x hx
      simp at hx
      rcases hx with rfl | hx
      · refine ⟨c, e.get, e.isOpen, e.exp, ?_⟩
        rw [e'.others x hnd'.1]
        show AMap.get? s1.htlcs x = _
        rw [e.htlcs, get?_set]; simp
      · obtain ⟨c', hg, ho, hexp, hr⟩ := e'.refunded x hx
        have hne : x ≠ id := by intro e0; subst e0; exact hnd'.1 hx
        rw [hget2 x hne] at hg
        refine ⟨c', hg, ho, hexp, ?_⟩
        rw [hr]; show some (Htlc.refunded c' s1.height) = _; rw [e.height]
    · intro x hx
      simp at hx
      rw [e'.others x hx.2, hget2 x hx.1]
    · rw [e'.bank]
      show refundAll s1.htlcs s1.bank r = _
      rw [e.bank]
      simp only [refundAll, List.foldl, e.get]
      apply refundAll_congr
      intro x hx
      have hne : x ≠ id := by intro e0; subst e0; exact hnd'.1 hx
      rw [e.htlcs, get?_set]; simp [Ne.symm hne]
    · intro d
      obtain ⟨a1, a2, a3, a4⟩ := e'.sup d
      obtain ⟨b1, b2, b3, b4⟩ := e.sup d
      have hsame : supOf ({ s1 with queue := dequeue s1.queue (h, id) } : State) d = supOf s1 d := rfl
      rw [hsame] at a1 a2 a3 a4
      exact ⟨a1.trans b1, Nat.le_trans a2 b2, a3.trans b3, a4.trans b4⟩


/-! ### the window update -/

def getSup (m : AMap Denom Supply) (d : Denom) : Supply := (AMap.get? m d).getD zeroSupply

theorem supOf_eq (s : State) (d : Denom) : supOf s d = getSup s.supplies d := rfl

theorem getSup_set (m : AMap Denom Supply) (d0 : Denom) (v : Supply) (d : Denom) :
    getSup (AMap.set m d0 v) d = if d0 = d then v else getSup m d := by
  unfold getSup; rw [getS?_set]; split <;> simp

theorem tick_fields (a : Asset) (dt : Int) (sup : Supply) :
    (tick a dt sup).incoming = sup.incoming ∧ (tick a dt sup).outgoing = sup.outgoing ∧
    (tick a dt sup).current = sup.current ∧ (tick a dt sup).tlCurrent ≤ sup.tlCurrent := by
  unfold tick; split <;> simp

theorem tickAll_fields (dt : Int) (ps : List Asset) (m : AMap Denom Supply) (d : Denom) :
    (getSup (tickAll dt ps m) d).incoming = (getSup m d).incoming ∧
    (getSup (tickAll dt ps m) d).outgoing = (getSup m d).outgoing ∧
    (getSup (tickAll dt ps m) d).current = (getSup m d).current ∧
    (getSup (tickAll dt ps m) d).tlCurrent ≤ (getSup m d).tlCurrent := by
  induction ps generalizing m with
  | nil => simp [tickAll]
  | cons a r ih =>
    simp only [tickAll]
    obtain ⟨h1, h2, h3, h4⟩ := ih (AMap.set m a.denom (tick a dt ((AMap.get? m a.denom).getD zeroSupply)))
    rw [getSup_set] at h1 h2 h3 h4
    by_cases e : a.denom = d
    · subst e
      simp only [if_true] at h1 h2 h3 h4
      obtain ⟨t1, t2, t3, t4⟩ := tick_fields a dt ((AMap.get? m a.denom).getD zeroSupply)
      exact ⟨h1.trans t1, h2.trans t2, h3.trans t3, Nat.le_trans h4 t4⟩
    · simp only [e, if_false] at h1 h2 h3 h4
      exact ⟨h1, h2, h3, h4⟩

theorem tickAll_isSome (dt : Int) (ps : List Asset) (m : AMap Denom Supply) (d : Denom)
    (h : (AMap.get? m d).isSome) : (AMap.get? (tickAll dt ps m) d).isSome := by
  induction ps generalizing m with
  | nil => exact h
  | cons a r ih => simp only [tickAll]; exact ih _ (isSome_set _ _ _ _ h)

theorem findAsset_none_of_not_any (r : List Asset) (d : Denom)
    (h : r.any (fun b => b.denom == d) = false) : findAsset r d = none := by
  induction r with
  | nil => rfl
  | cons a t ih =>
    simp only [List.any, Bool.or_eq_false_iff] at h
    have : ¬ (a.denom = d) := by simpa using h.1
    simp only [findAsset, this, if_false]
    exact ih h.2

theorem tickAll_absent (dt : Int) (ps : List Asset) (m : AMap Denom Supply) (d : Denom)
    (h : findAsset ps d = none) : getSup (tickAll dt ps m) d = getSup m d := by
  induction ps generalizing m with
  | nil => rfl
  | cons a r ih =>
    simp only [findAsset] at h
    split at h
    · cases h
    · rename_i e
      simp only [tickAll]
      rw [ih _ h, getSup_set]; simp [e]

/-- **the window of an asset is updated by exactly one `tick`** (params without duplicate denoms) -/
theorem tickAll_exact (dt : Int) (ps : List Asset) (m : AMap Denom Supply) (d : Denom) (a : Asset)
    (hnd : noDupDenoms ps = true) (h : findAsset ps d = some a) :
    getSup (tickAll dt ps m) d = tick a dt (getSup m d) := by
  induction ps generalizing m with
  | nil => cases h
  | cons a0 r ih =>
    simp only [noDupDenoms, Bool.and_eq_true, Bool.not_eq_true'] at hnd
    simp only [findAsset] at h
    simp only [tickAll]
    split at h
    · rename_i e
      have ha : a0 = a := Option.some.inj h
      subst ha
      subst e
      rw [tickAll_absent _ _ _ _ (findAsset_none_of_not_any r a0.denom hnd.1), getSup_set]
      simp [getSup]
    · rename_i e
      rw [ih _ hnd.2 h, getSup_set]; simp [e]

theorem inv_updateLimits {s : State} (hs : Inv s) : Inv (updateLimits s) := by
  unfold updateLimits
  split
  · exact hs
  · obtain ⟨hwf, hq, hge, hcnt⟩ := hs
    refine ⟨wf_same hwf rfl (fun d hd => tickAll_isSome _ _ _ _ hd), queueInv_same hq rfl rfl,
            escrowGe_same hge rfl rfl, counterInv_same hcnt rfl ?_⟩
    intro d
    obtain ⟨h1, h2, h3, _⟩ := tickAll_fields ((s.time : Int) - ((s.prevTime.getD s.time : Nat) : Int)) s.params s.supplies d
    exact ⟨h1, h2, h3⟩

theorem updateLimits_sup (s : State) (d : Denom) :
    (supOf (updateLimits s) d).incoming = (supOf s d).incoming ∧
    (supOf (updateLimits s) d).outgoing = (supOf s d).outgoing ∧
    (supOf (updateLimits s) d).current = (supOf s d).current ∧
    (supOf (updateLimits s) d).tlCurrent ≤ (supOf s d).tlCurrent := by
  unfold updateLimits
  split
  · exact ⟨rfl, rfl, rfl, Nat.le_refl _⟩
  · exact tickAll_fields _ s.params s.supplies d

/-! ### a whole block -/

/-- what `BeginBlocker` at height `h`, time `t` does on a state satisfying the invariant -/
structure BlockEff (s : State) (h t : Nat) (s' : State) : Prop where
  run : stepBeginBlock s h t = .ok s'
  inv : Inv s'
  queue : ∀ x, x ∈ s'.queue ↔ x ∈ s.queue ∧ x.1 ≠ h
  refunded : ∀ id, (h, id) ∈ s.queue → ∃ c, AMap.get? s.htlcs id = some c ∧ c.state = .open ∧
                c.expiration = h ∧ AMap.get? s'.htlcs id = some (Htlc.refunded c h)
  others : ∀ id, (h, id) ∉ s.queue → AMap.get? s'.htlcs id = AMap.get? s.htlcs id
  bank : s'.bank = refundAll s.htlcs s.bank (dueIds s.queue h)
  exact : EscrowExact s → EscrowExact s'
  ledger : LedgerRel s s'
  height : s'.height = h
  time : s'.time = t
  params : s'.params = s.params
  sup : ∀ d, (supOf s' d).current = (supOf s d).current ∧ (supOf s' d).incoming ≤ (supOf s d).incoming ∧
             (supOf s' d).tlCurrent ≤ (supOf s d).tlCurrent

theorem inv_ctx {s : State} (hs : Inv s) (h t : Nat) : Inv { s with height := h, time := t } := hs

/-- **`BeginBlocker` is total** on every state satisfying the invariant (C13, HTLC slice), with
the stated effect -/
theorem beginBlock_ok {s : State} (hs : Inv s) (h t : Nat) : ∃ s', BlockEff s h t s' := by
  have hnd := nodup_dueIds s.queue h hs.2.1.1
  have hin : ∀ id ∈ dueIds s.queue h, (h, id) ∈ ({ s with height := h, time := t } : State).queue :=
    fun id hid => (mem_dueIds s.queue h id).mp hid
  obtain ⟨s1, e⟩ := processDue_ok (dueIds s.queue h) (inv_ctx hs h t) hnd hin
  refine ⟨updateLimits s1,
    { run := ?_, inv := inv_updateLimits e.inv, queue := ?_, refunded := ?_, others := ?_,
      bank := ?_, exact := ?_, ledger := ?_, height := ?_, time := ?_, params := ?_, sup := ?_ }⟩
  · simp only [stepBeginBlock, e.run]
  · intro x
    have hq : (updateLimits s1).queue = s1.queue := by unfold updateLimits; split <;> rfl
    rw [hq, e.queue x]
    show x ∈ s.queue ∧ _ ↔ _
    constructor
    · rintro ⟨hx, hnot⟩
      refine ⟨hx, fun h1 => hnot ⟨h1, ?_⟩⟩
      rw [mem_dueIds]; rw [← h1]; exact hx
    · rintro ⟨hx, hne⟩; exact ⟨hx, fun h1 => hne h1.1⟩
  · intro id hid
    obtain ⟨c, hg, ho, hexp, hr⟩ := e.refunded id ((mem_dueIds s.queue h id).mpr hid)
    have hh : (updateLimits s1).htlcs = s1.htlcs := by unfold updateLimits; split <;> rfl
    exact ⟨c, hg, ho, hexp, by rw [hh]; exact hr⟩
  · intro id hid
    have hh : (updateLimits s1).htlcs = s1.htlcs := by unfold updateLimits; split <;> rfl
    rw [hh]
    exact e.others id (fun hm => hid ((mem_dueIds s.queue h id).mp hm))
  · have hb : (updateLimits s1).bank = s1.bank := by unfold updateLimits; split <;> rfl
    rw [hb]; exact e.bank
  · intro hx
    have hb : (updateLimits s1).bank = s1.bank := by unfold updateLimits; split <;> rfl
    have hh : (updateLimits s1).htlcs = s1.htlcs := by unfold updateLimits; split <;> rfl
    have := e.exact hx
    intro d
    have h0 := this d
    unfold openEscrow strandedSum at *
    rw [hb, hh]; exact h0
  · have hb : (updateLimits s1).bank = s1.bank := by unfold updateLimits; split <;> rfl
    have hh : (updateLimits s1).htlcs = s1.htlcs := by unfold updateLimits; split <;> rfl
    exact ((LedgerRel.same (s := s) (s' := { s with height := h, time := t }) rfl rfl).trans e.ledger).trans
      (LedgerRel.same hh hb)
  · have hb : (updateLimits s1).height = s1.height := by unfold updateLimits; split <;> rfl
    rw [hb]; exact e.height
  · have hb : (updateLimits s1).time = s1.time := by unfold updateLimits; split <;> rfl
    rw [hb]; exact e.time
  · have hb : (updateLimits s1).params = s1.params := by unfold updateLimits; split <;> rfl
    rw [hb]; exact e.params
  · intro d
    obtain ⟨u1, u2, u3, u4⟩ := updateLimits_sup s1 d
    obtain ⟨a1, a2, a3, a4⟩ := e.sup d
    have hsame : supOf ({ s with height := h, time := t } : State) d = supOf s d := rfl
    rw [hsame] at a1 a2 a3 a4
    exact ⟨u3.trans a1, by omega, by omega⟩

end Irismod.Proofs.Htlc
