/-
C12 (service slice): `PrepForZeroHeightGenesis` — the refunds succeed on every state that satisfies C07's
request-escrow identity, pay each consumer exactly the fees of its open requests and each provider exactly
its earned fees, and leave the request escrow with what it held beyond its liabilities (nothing, on a state
that satisfies the identity).
-/
import Irismod.Proofs.ServiceGenesis
import Irismod.Proofs.ServiceEscrow
import Irismod.Spec.C12_Service

namespace Irismod.Proofs.ServiceGenesis
open Irismod Irismod.Sdk Irismod.Service Irismod.ServiceGenesis Irismod.Proofs.GenesisList Irismod.Proofs.Service
open Irismod.Spec.C07 Irismod.Spec.C12S

/-- the fees of the requests `l` in denom `d` -/
def feeSumL (s : State) (l : List ReqId) (d : Denom) : Nat := sumList (l.map (fun rid => reqFee s rid d))

theorem activeFee_eq (s : State) (d : Denom) : activeFee s d = feeSumL s s.active d := rfl

/-- one payment out of the request escrow to another account -/
theorem send_from_escrow {b b' : Bank} {dst : Addr} {d : Denom} {n : Nat} (hd : dst ≠ reqAcc)
    (h : Bank.send b reqAcc dst d n = some b') :
    (∀ d', Bank.balOf b' reqAcc d' + (if d = d' then n else 0) = Bank.balOf b reqAcc d') ∧
    (∀ a d', a ≠ reqAcc → Bank.balOf b' a d' = Bank.balOf b a d' + (if dst = a ∧ d = d' then n else 0)) := by
  constructor
  · intro d'
    by_cases hdd : d = d'
    · subst hdd
      rw [if_pos rfl]
      exact send_balOf_src (Ne.symm hd) h
    · rw [if_neg hdd, Nat.add_zero]
      exact send_balOf_other h reqAcc d' (by intro e; cases e; exact hdd rfl) (by intro e; cases e; exact hdd rfl)
  · intro a d' ha
    by_cases hc : dst = a ∧ d = d'
    · obtain ⟨h1, h2⟩ := hc
      subst h1; subst h2
      rw [if_pos ⟨rfl, rfl⟩]
      exact send_balOf_dst (Ne.symm hd) h
    · rw [if_neg hc, Nat.add_zero]
      apply send_balOf_other h a d'
      · intro e; cases e; exact ha rfl
      · intro e; cases e; exact hc ⟨rfl, rfl⟩

/-- `RefundServiceFees` over a list of requests that are stored with their contexts -/
theorem refundFees_spec (s : State) : ∀ (l : List ReqId) (b : Bank),
    (∀ rid, rid ∈ l → ∃ rq c, getRequest s rid = some (rq, c) ∧ c.consumer ≠ reqAcc) →
    (∀ d, feeSumL s l d ≤ Bank.balOf b reqAcc d) →
    ∃ b', refundFees s l b = some b' ∧
      (∀ d, Bank.balOf b' reqAcc d + feeSumL s l d = Bank.balOf b reqAcc d) ∧
      (∀ a d, a ≠ reqAcc → Bank.balOf b' a d = Bank.balOf b a d + refundToL s l a d)
  | [], b, _, _ => ⟨b, rfl, fun _ => rfl, fun _ _ _ => rfl⟩
  | rid :: rest, b, hreq, hbal => by
    obtain ⟨rq, c, hg, hc⟩ := hreq rid (List.mem_cons_self ..)
    have hq := (getRequest_some hg).1
    have hfee : ∀ d, reqFee s rid d = if rq.feeDenom = d then rq.feeAmt else 0 := by
      intro d; unfold reqFee feeIn; rw [hq]
    have hcons : ∀ d, feeSumL s (rid :: rest) d = (if rq.feeDenom = d then rq.feeAmt else 0) + feeSumL s rest d := by
      intro d; unfold feeSumL; simp only [List.map_cons, sumList]; rw [hfee d]
    have hle : rq.feeAmt ≤ Bank.balOf b reqAcc rq.feeDenom := by
      have := hbal rq.feeDenom
      rw [hcons, if_pos rfl] at this
      omega
    obtain ⟨b1, hs⟩ := send_isSome (dst := c.consumer) hle
    obtain ⟨e1, e2⟩ := send_from_escrow hc hs
    obtain ⟨b', r1, r2, r3⟩ := refundFees_spec s rest b1 (fun x hx => hreq x (List.mem_cons_of_mem _ hx)) (by
      intro d
      have h1 := e1 d
      have h2 := hbal d
      rw [hcons] at h2
      omega)
    refine ⟨b', ?_, ?_, ?_⟩
    · simp only [refundFees, hg, hs]
      exact r1
    · intro d
      have h1 := e1 d
      have h2 := r2 d
      rw [hcons]
      omega
    · intro a d ha
      have h1 := e2 a d ha
      have h2 := r3 a d ha
      have : refundToL s (rid :: rest) a d = (if c.consumer = a ∧ rq.feeDenom = d then rq.feeAmt else 0) + refundToL s rest a d := by
        unfold refundToL
        simp only [List.map_cons, sumList, hg]
      rw [this]
      omega

/-- `RefundEarnedFees` over a list of earned-fee entries of providers other than the escrow itself -/
theorem refundEarned_spec : ∀ (l : List ((Addr × Denom) × Nat)) (b : Bank),
    (∀ e, e ∈ l → e.1.1 ≠ reqAcc) →
    (∀ d, AMap.sumIf (fun k : Addr × Denom => k.2 = d) id l ≤ Bank.balOf b reqAcc d) →
    ∃ b', refundEarned l b = some b' ∧
      (∀ d, Bank.balOf b' reqAcc d + AMap.sumIf (fun k : Addr × Denom => k.2 = d) id l = Bank.balOf b reqAcc d) ∧
      (∀ a d, a ≠ reqAcc →
        Bank.balOf b' a d = Bank.balOf b a d + AMap.sumIf (fun k : Addr × Denom => k.1 = a && k.2 = d) id l)
  | [], b, _, _ => ⟨b, rfl, fun _ => rfl, fun _ _ _ => rfl⟩
  | ((p, d0), n) :: rest, b, hp, hbal => by
    have hpne : p ≠ reqAcc := hp _ (List.mem_cons_self ..)
    have hle : n ≤ Bank.balOf b reqAcc d0 := by
      have := hbal d0
      simp only [AMap.sumIf, decide_true, if_true, id] at this
      omega
    obtain ⟨b1, hs⟩ := send_isSome (dst := p) hle
    obtain ⟨e1, e2⟩ := send_from_escrow hpne hs
    obtain ⟨b', r1, r2, r3⟩ := refundEarned_spec rest b1 (fun x hx => hp x (List.mem_cons_of_mem _ hx)) (by
      intro d
      have h1 := e1 d
      have h2 := hbal d
      simp only [AMap.sumIf, id] at h2
      by_cases hd : d0 = d
      · simp only [hd, decide_true, if_true] at h1 h2 ⊢; omega
      · simp only [hd, decide_false, if_false] at h1 h2 ⊢
        simp only [Bool.false_eq_true, if_false] at h2
        omega)
    refine ⟨b', ?_, ?_, ?_⟩
    · simp only [refundEarned, hs]
      exact r1
    · intro d
      have h1 := e1 d
      have h2 := r2 d
      simp only [AMap.sumIf, id]
      by_cases hd : d0 = d
      · simp only [hd, decide_true, if_true] at h1 ⊢; omega
      · simp only [hd, decide_false, if_false] at h1 ⊢
        simp only [Bool.false_eq_true, if_false]
        omega
    · intro a d ha
      have h1 := e2 a d ha
      have h2 := r3 a d ha
      simp only [AMap.sumIf, id]
      by_cases hc : p = a ∧ d0 = d
      · obtain ⟨c1, c2⟩ := hc
        simp only [c1, c2, and_self, if_true] at h1
        simp only [c1, c2, decide_true, Bool.and_self, if_true]
        omega
      · rw [if_neg hc] at h1
        have : (decide (p = a) && decide (d0 = d)) = false := by
          rw [Bool.and_eq_false_iff]
          by_cases c1 : p = a
          · right; simp only [decide_eq_false_iff_not]; exact fun c2 => hc ⟨c1, c2⟩
          · left; simp only [decide_eq_false_iff_not]; exact c1
        rw [this]
        simp only [Bool.false_eq_true, if_false]
        omega

/-- what `PrepForZeroHeightGenesis` does, on a state that holds at least its liabilities in the request escrow:
it cannot fail, every account other than the request escrow gains exactly its refunds and its earned fees, the
escrow loses exactly its liabilities, and every context is reset -/
theorem prepZeroHeight_spec {s : State}
    (hact : ∀ rid, rid ∈ s.active → ∃ rq c, getRequest s rid = some (rq, c) ∧ c.consumer ≠ reqAcc)
    (hprov : ∀ e, e ∈ s.earned → e.1.1 ≠ reqAcc)
    (hesc : ∀ d, liabilities s d ≤ Bank.balOf s.bank reqAcc d) :
    ∃ b2, prepZeroHeight s = .ok { s with bank := b2, ctxs := resetCtxs s.ctxs } ∧
      (∀ d, Bank.balOf b2 reqAcc d + liabilities s d = Bank.balOf s.bank reqAcc d) ∧
      (∀ a d, a ≠ reqAcc → Bank.balOf b2 a d = Bank.balOf s.bank a d + refundTo s a d + earnedOf s a d) := by
  obtain ⟨b1, f1, f2, f3⟩ := refundFees_spec s s.active s.bank hact (by
    intro d
    have := hesc d
    unfold liabilities at this
    rw [activeFee_eq] at this
    omega)
  obtain ⟨b2, g1, g2, g3⟩ := refundEarned_spec s.earned b1 hprov (by
    intro d
    have h1 := hesc d
    have h2 := f2 d
    unfold liabilities earnedSum at h1
    rw [activeFee_eq] at h1
    omega)
  refine ⟨b2, ?_, ?_, ?_⟩
  · unfold prepZeroHeight
    rw [f1]
    simp only
    rw [g1]
  · intro d
    have h1 := f2 d
    have h2 := g2 d
    unfold liabilities earnedSum
    rw [activeFee_eq]
    omega
  · intro a d ha
    have h1 := f3 a d ha
    have h2 := g3 a d ha
    unfold refundTo earnedOf
    omega

end Irismod.Proofs.ServiceGenesis
