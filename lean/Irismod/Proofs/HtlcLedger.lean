/-
Ledger-side invariants of the HTLC model for C04: the exact escrow identity (`EscrowExact`,
incl. the self-recipient amounts), the limits (`LimitInv`), bank supply = external + current
(`SupplyTrack`), the window update of a block, and "an incoming claim never fails on a limit".
Core tactics only.
-/
import Irismod.Proofs.HtlcStep

namespace Irismod.Proofs.Htlc
open Irismod Irismod.Sdk Irismod.Htlc Irismod.Spec.C03 Irismod.Spec.C04

/-! ### `EscrowExact` -/

theorem exact_stepCreate {s s' : State} {id sender to coins lock ts tl transfer} (hx : EscrowExact s)
    (hsender : sender ≠ escrow)
    (h : stepCreate s id sender to coins lock ts tl transfer = .ok s') : EscrowExact s' := by
  obtain ⟨_, _, hfresh, hb⟩ := stepCreate_ok h
  have hne : ¬ (escrow = sender) := fun e => hsender e.symm
  cases transfer with
  | false =>
    obtain ⟨b, hsend, rfl⟩ := createPlain_ok hb
    apply escrowExact_update hx rfl
    intro d
    have := sendCoins_ok hsend escrow d
    simp only [hne, if_false, if_true] at this
    simp [hfresh, escrowAmt, strandedAmt, escrowed, newContract, record]
    omega
  | true =>
    simp only [if_true] at hb
    obtain ⟨d0, n, a, _, _, _, _, _, _, hcase⟩ := createHTLT_ok hb
    rcases hcase with ⟨_, _, hc⟩ | ⟨_, _, hc⟩
    · obtain ⟨_, _, _, rfl⟩ := createIncoming_ok hc
      apply escrowExact_update hx rfl
      intro d
      simp [hfresh, escrowAmt, strandedAmt, escrowed, newContract, record]
    · obtain ⟨_, b, _, _, hsend, _, _, _, rfl⟩ := createOutgoing_ok hc
      apply escrowExact_update hx rfl
      intro d
      have := sendCoins_ok hsend escrow d
      simp only [hne, if_false, if_true] at this
      simp [hfresh, escrowAmt, strandedAmt, escrowed, newContract, record]
      omega

theorem exact_stepClaim {s s' : State} {id secret lk} (hs : Inv s) (hx : EscrowExact s)
    (h : stepClaim s id secret lk = .ok s') : EscrowExact s' := by
  obtain ⟨c, s1, hget, hopen, _, hf, rfl⟩ := stepClaim_ok h
  obtain ⟨hsnd, hwt, hwp⟩ := hs.1.2 id c hget
  rcases claimFunds_ok hf with ⟨ht, b, hb, rfl⟩ | ⟨ht, hdir, d0, n, r, hamt, hci⟩ | ⟨ht, hdir, d0, n, r, hamt, hco⟩
  · apply escrowExact_update hx rfl
    intro d
    have := sendCoins_ok hb escrow d
    simp only [if_true] at this
    by_cases hto : c.to = escrow
    · simp [hto] at this
      simp [hget, escrowAmt, strandedAmt, escrowed, completed, hopen, ht, close, hto]
      omega
    · have hto' : ¬ (escrow = c.to) := fun e => hto e.symm
      simp [hto'] at this
      simp [hget, escrowAmt, strandedAmt, escrowed, completed, hopen, ht, close, hto]
      omega
  · obtain ⟨sup, a, b, hsup, hin, ha, hfit, hb, rfl⟩ := claimIncoming_ok hci
    apply escrowExact_update hx rfl
    intro d
    have h1 := sendCoins_ok hb escrow d
    rw [balOf_mintCoins] at h1
    simp only [if_true] at h1
    by_cases hto : c.to = escrow
    · simp [hto] at h1
      simp [hget, escrowAmt, strandedAmt, escrowed, completed, hopen, ht, hdir, close, hto]
      omega
    · have hto' : ¬ (escrow = c.to) := fun e => hto e.symm
      simp [hto'] at h1
      simp [hget, escrowAmt, strandedAmt, escrowed, completed, hopen, ht, hdir, close, hto]
      omega
  · obtain ⟨sup, b, hsup, hout, hcur, hb, rfl⟩ := claimOutgoing_ok hco
    apply escrowExact_update hx rfl
    intro d
    have h1 := (burnCoins_ok hb).1 escrow d
    simp only [if_true] at h1
    simp [hget, escrowAmt, strandedAmt, escrowed, completed, hopen, ht, hdir, close]
    omega

theorem exact_advance {s : State} (hs : Inv s) (hx : EscrowExact s) (n dt : Nat) {s' : State}
    (h : advance s n dt = .ok s') : EscrowExact s' := by
  induction n generalizing s with
  | zero => simp [advance] at h; subst h; exact hx
  | succ n ih =>
    obtain ⟨s1, e⟩ := beginBlock_ok hs (s.height + 1) (s.time + dt)
    simp only [advance, e.run] at h
    exact ih e.inv (e.exact hx) h

theorem exact_step {s s' : State} {op : Op} (hs : Inv s) (hx : EscrowExact s) (hop : OpOk op)
    (h : step s op = .ok s') : EscrowExact s' := by
  cases op with
  | create sender to coins lock ts tl transfer => exact exact_stepCreate hx hop h
  | claim sender id secret => exact exact_stepClaim hs hx h
  | beginBlock hh t =>
    obtain ⟨s1, e⟩ := beginBlock_ok hs hh t
    have : step s (.beginBlock hh t) = .ok s1 := e.run
    rw [this] at h; cases h; exact e.exact hx
  | advance n dt => exact exact_advance hs hx n dt h
  | setParams auth ps =>
    simp only [step, stepSetParams] at h
    split at h; · cases h
    split at h; · cases h
    cases h; exact hx

/-! ### from the auxiliary identity to the escrow identity -/

theorem exact_apply {s : State} {op : Op} (hs : Inv s) (hx : EscrowExact s) (hop : OpOk op) :
    EscrowExact (apply s op) := by
  unfold apply
  cases h : step s op with
  | ok s' => exact exact_step hs hx hop h
  | error e => exact hx

/-- auxiliary identity (with the vanishing self-recipient term) along histories -/
theorem escrowExact_run (s : State) (ops : List Op) (hs : Inv s) (hx : EscrowExact s)
    (hops : ∀ op ∈ ops, OpOk op) : EscrowExact (run s ops) := by
  induction ops generalizing s with
  | nil => exact hx
  | cons op r ih =>
    have hop := hops op (by simp)
    exact ih (apply s op) (inv_apply hs hop) (exact_apply hs hx hop) (fun o ho => hops o (by simp [ho]))

theorem stranded_zero {s : State} (hwf : WF s) (hn : NoSelf s) (d : Denom) : strandedSum s d = 0 := by
  unfold strandedSum
  apply sumBy_eq_zero _ _ hwf.1
  intro k c hg
  have := hn k c hg
  simp [strandedAmt, this]

theorem exact_of_eq {s : State} (hwf : WF s) (hn : NoSelf s) (he : EscrowEq s) : EscrowExact s := by
  intro d; rw [stranded_zero hwf hn d]; exact he d

theorem eq_of_exact {s : State} (hwf : WF s) (hn : NoSelf s) (hx : EscrowExact s) : EscrowEq s := by
  intro d; have := hx d; rw [stranded_zero hwf hn d] at this; exact this

theorem noSelf_apply {s : State} {op : Op} (hs : Inv s) (hn : NoSelf s) : NoSelf (apply s op) := by
  intro id c' hg'
  cases hg : AMap.get? s.htlcs id with
  | some c =>
    obtain ⟨c1, hg1, t⟩ := apply_trans (op := op) hs hg
    rw [hg'] at hg1; cases hg1
    have hto := hn id c hg
    cases t with
    | stay => exact hto
    | claimed _ _ _ _ _ => simpa [completed] using hto
    | refunded _ _ => simpa [refunded] using hto
  | none =>
    unfold apply at hg'
    cases h : step s op with
    | error e => rw [h] at hg'; simp only at hg'; rw [hg] at hg'; cases hg'
    | ok s' =>
      rw [h] at hg'; simp only at hg'
      rcases step_absent hs h hg with h0 | ⟨sender, to, coins, lock, ts, tl, tr, dir, rfl, _, h1⟩
      · rw [h0] at hg'; cases hg'
      · rw [h1] at hg'; cases hg'
        simp only [step] at h
        simpa [newContract] using stepCreate_to h

/-! ### `LimitInv` -/

/-- limits survive any change of the supply table that does not raise `current + incoming`
nor `tlCurrent + incoming` -/
theorem limitInv_mono {s s' : State} (hl : LimitInv s) (hp : s'.params = s.params)
    (hm : ∀ d, (supOf s' d).current + (supOf s' d).incoming ≤ (supOf s d).current + (supOf s d).incoming ∧
               (supOf s' d).tlCurrent + (supOf s' d).incoming ≤ (supOf s d).tlCurrent + (supOf s d).incoming) :
    LimitInv s' := by
  intro d a ha
  rw [hp] at ha
  obtain ⟨h1, h2⟩ := hl d a ha
  obtain ⟨m1, m2⟩ := hm d
  exact ⟨by omega, fun ht => by have := h2 ht; omega⟩

theorem limit_stepCreate {s s' : State} {id sender to coins lock ts tl transfer} (hl : LimitInv s)
    (h : stepCreate s id sender to coins lock ts tl transfer = .ok s') : LimitInv s' := by
  obtain ⟨_, _, hfresh, hb⟩ := stepCreate_ok h
  cases transfer with
  | false =>
    obtain ⟨b, _, rfl⟩ := createPlain_ok hb
    exact limitInv_mono hl rfl (fun d => ⟨Nat.le_refl _, Nat.le_refl _⟩)
  | true =>
    simp only [if_true] at hb
    obtain ⟨d0, n, a, _, ha, _, _, _, _, hcase⟩ := createHTLT_ok hb
    rcases hcase with ⟨_, _, hc⟩ | ⟨_, _, hc⟩
    · obtain ⟨sup, hsup, hfit, rfl⟩ := createIncoming_ok hc
      intro d a' ha'
      have ha'' : findAsset s.params d = some a' := ha'
      obtain ⟨h1, h2⟩ := hl d a' ha''
      simp only [supOf, record, getS?_set]
      by_cases e : d0 = d
      · subst e
        rw [ha] at ha''; cases ha''
        simp only [incomingFits, Bool.and_eq_true, Bool.not_eq_true', decide_eq_false_iff_not,
          Bool.and_eq_false_iff] at hfit
        simp only [if_true, Option.getD_some]
        refine ⟨by omega, fun ht => ?_⟩
        rcases hfit.2 with hf | hf
        · rw [ht] at hf; cases hf
        · omega
      · simp only [e, if_false]; exact ⟨h1, h2⟩
    · obtain ⟨sup, b, hsup, _, _, _, _, _, rfl⟩ := createOutgoing_ok hc
      refine limitInv_mono hl rfl ?_
      intro d
      simp only [supOf, record, getS?_set]
      by_cases e : d0 = d
      · subst e; simp [hsup]
      · simp [e]

theorem limit_stepClaim {s s' : State} {id secret lk} (hl : LimitInv s)
    (h : stepClaim s id secret lk = .ok s') : LimitInv s' := by
  obtain ⟨c, s1, hget, hopen, _, hf, rfl⟩ := stepClaim_ok h
  rcases claimFunds_ok hf with ⟨ht, b, hb, rfl⟩ | ⟨ht, hdir, d0, n, r, hamt, hci⟩ | ⟨ht, hdir, d0, n, r, hamt, hco⟩
  · exact limitInv_mono hl rfl (fun d => ⟨Nat.le_refl _, Nat.le_refl _⟩)
  · obtain ⟨sup, a, b, hsup, hin, ha, hfit, hb, rfl⟩ := claimIncoming_ok hci
    refine limitInv_mono hl rfl ?_
    intro d
    simp only [supOf, close, getS?_set]
    by_cases e : d0 = d
    · subst e
      simp only [if_true, Option.getD_some, hsup, supAfterClaimIn]
      refine ⟨by omega, ?_⟩
      split <;> omega
    · simp [e]
  · obtain ⟨sup, b, hsup, hout, hcur, hb, rfl⟩ := claimOutgoing_ok hco
    refine limitInv_mono hl rfl ?_
    intro d
    simp only [supOf, close, getS?_set]
    by_cases e : d0 = d
    · subst e; simp [hsup] <;> omega
    · simp [e]

theorem limit_beginBlock {s s' : State} {h t : Nat} (hl : LimitInv s) (e : BlockEff s h t s') : LimitInv s' := by
  apply limitInv_mono hl e.params
  intro d
  obtain ⟨h1, h2, h3⟩ := e.sup d
  exact ⟨by omega, by omega⟩

theorem limit_advance {s : State} (hs : Inv s) (hl : LimitInv s) (n dt : Nat) {s' : State}
    (h : advance s n dt = .ok s') : LimitInv s' := by
  induction n generalizing s with
  | zero => simp [advance] at h; subst h; exact hl
  | succ n ih =>
    obtain ⟨s1, e⟩ := beginBlock_ok hs (s.height + 1) (s.time + dt)
    simp only [advance, e.run] at h
    exact ih e.inv (limit_beginBlock hl e) h

/-- an operation that leaves the asset params alone -/
def KeepsParams : Op → Prop
  | .setParams _ _ => False
  | _ => True

theorem limit_step {s s' : State} {op : Op} (hs : Inv s) (hl : LimitInv s) (hk : KeepsParams op)
    (h : step s op = .ok s') : LimitInv s' := by
  cases op with
  | create sender to coins lock ts tl transfer => exact limit_stepCreate hl h
  | claim sender id secret => exact limit_stepClaim hl h
  | beginBlock hh t =>
    obtain ⟨s1, e⟩ := beginBlock_ok hs hh t
    have : step s (.beginBlock hh t) = .ok s1 := e.run
    rw [this] at h; cases h; exact limit_beginBlock hl e
  | advance n dt => exact limit_advance hs hl n dt h
  | setParams auth ps => exact absurd hk (by simp [KeepsParams])

/-! ### bank supply = external + current -/

theorem supplyOf_debit (b : Bank) (a : Addr) (cs : Coins) (d : Denom) :
    Bank.supplyOf (debit b a cs) d = Bank.supplyOf b d := by
  induction cs generalizing b with
  | nil => rfl
  | cons c r ih => obtain ⟨d', n⟩ := c; simp only [debit]; rw [ih, supplyOf_setBal]

theorem supplyOf_payRefund (b : Bank) (c : Contract) (d : Denom) :
    Bank.supplyOf (payRefund b c) d = Bank.supplyOf b d := by
  unfold payRefund
  split
  · rfl
  · unfold credit; rw [supplyOf_addCoins, supplyOf_debit]

theorem supplyOf_refundAll (m : AMap Id Contract) (b : Bank) (ids : List Id) (d : Denom) :
    Bank.supplyOf (refundAll m b ids) d = Bank.supplyOf b d := by
  induction ids generalizing b with
  | nil => rfl
  | cons x r ih =>
    simp only [refundAll, List.foldl]
    have := ih (match AMap.get? m x with | some c => payRefund b c | none => b)
    simp only [refundAll] at this
    refine this.trans ?_
    split
    · exact supplyOf_payRefund _ _ _
    · rfl

theorem track_stepCreate {k : Denom → Nat} {s s' : State} {id sender to coins lock ts tl transfer}
    (hk : SupplyTrack k s) (h : stepCreate s id sender to coins lock ts tl transfer = .ok s') :
    SupplyTrack k s' := by
  obtain ⟨_, _, hfresh, hb⟩ := stepCreate_ok h
  cases transfer with
  | false =>
    obtain ⟨b, hsend, rfl⟩ := createPlain_ok hb
    intro d
    have := hk d
    show Bank.supplyOf b d = _
    rw [sendCoins_supply hsend]; exact this
  | true =>
    simp only [if_true] at hb
    obtain ⟨d0, n, a, _, ha, _, _, _, _, hcase⟩ := createHTLT_ok hb
    rcases hcase with ⟨_, _, hc⟩ | ⟨_, _, hc⟩
    · obtain ⟨sup, hsup, hfit, rfl⟩ := createIncoming_ok hc
      intro d
      have := hk d
      simp only [supOf, record, getS?_set] at this ⊢
      by_cases e : d0 = d
      · subst e; simp [hsup] at this ⊢; exact this
      · simp [e]; exact this
    · obtain ⟨sup, b, hsup, _, hsend, _, _, _, rfl⟩ := createOutgoing_ok hc
      intro d
      have := hk d
      simp only [supOf, record, getS?_set] at this ⊢
      rw [sendCoins_supply hsend]
      by_cases e : d0 = d
      · subst e; simp [hsup] at this ⊢; exact this
      · simp [e]; exact this

theorem track_stepClaim {k : Denom → Nat} {s s' : State} {id secret lk} (hs : Inv s)
    (hk : SupplyTrack k s) (h : stepClaim s id secret lk = .ok s') : SupplyTrack k s' := by
  obtain ⟨c, s1, hget, hopen, _, hf, rfl⟩ := stepClaim_ok h
  obtain ⟨hsnd, hwt, hwp⟩ := hs.1.2 id c hget
  rcases claimFunds_ok hf with ⟨ht, b, hb, rfl⟩ | ⟨ht, hdir, d0, n, r, hamt, hci⟩ | ⟨ht, hdir, d0, n, r, hamt, hco⟩
  · intro d
    have := hk d
    show Bank.supplyOf b d = _
    rw [sendCoins_supply hb]; exact this
  · obtain ⟨d1, n1, ha1, _, _⟩ := hwt ht
    rw [ha1] at hamt; cases hamt
    obtain ⟨sup, a, b, hsup, hin, ha, hfit, hb, rfl⟩ := claimIncoming_ok hci
    intro d
    have := hk d
    simp only [supOf, close, getS?_set] at this ⊢
    rw [sendCoins_supply hb, supplyOf_mintCoins, ha1, coinAmt_single]
    by_cases e : d0 = d
    · subst e; simp [hsup, supAfterClaimIn] at this ⊢; omega
    · simp [e]; exact this
  · obtain ⟨d1, n1, ha1, _, _⟩ := hwt ht
    rw [ha1] at hamt; cases hamt
    obtain ⟨sup, b, hsup, hout, hcur, hb, rfl⟩ := claimOutgoing_ok hco
    intro d
    have := hk d
    simp only [supOf, close, getS?_set] at this ⊢
    rw [(burnCoins_ok hb).2 d, ha1, coinAmt_single]
    by_cases e : d0 = d
    · subst e; simp [hsup] at this ⊢; omega
    · simp [e]; exact this

theorem track_beginBlock {k : Denom → Nat} {s s' : State} {h t : Nat} (hk : SupplyTrack k s)
    (e : BlockEff s h t s') : SupplyTrack k s' := by
  intro d
  rw [e.bank, supplyOf_refundAll, (e.sup d).1]; exact hk d

theorem track_advance {k : Denom → Nat} {s : State} (hs : Inv s) (hk : SupplyTrack k s) (n dt : Nat)
    {s' : State} (h : advance s n dt = .ok s') : SupplyTrack k s' := by
  induction n generalizing s with
  | zero => simp [advance] at h; subst h; exact hk
  | succ n ih =>
    obtain ⟨s1, e⟩ := beginBlock_ok hs (s.height + 1) (s.time + dt)
    simp only [advance, e.run] at h
    exact ih e.inv (track_beginBlock hk e) h

theorem track_step {k : Denom → Nat} {s s' : State} {op : Op} (hs : Inv s) (hk : SupplyTrack k s)
    (h : step s op = .ok s') : SupplyTrack k s' := by
  cases op with
  | create sender to coins lock ts tl transfer => exact track_stepCreate hk h
  | claim sender id secret => exact track_stepClaim hs hk h
  | beginBlock hh t =>
    obtain ⟨s1, e⟩ := beginBlock_ok hs hh t
    have : step s (.beginBlock hh t) = .ok s1 := e.run
    rw [this] at h; cases h; exact track_beginBlock hk e
  | advance n dt => exact track_advance hs hk n dt h
  | setParams auth ps =>
    simp only [step, stepSetParams] at h
    split at h; · cases h
    split at h; · cases h
    cases h; exact hk

/-! ### an incoming claim never fails on a limit -/

theorem claimIncoming_succeeds {s : State} {id : Id} {c : Contract} {d n a secret}
    (hs : Inv s) (hl : LimitInv s) (hget : AMap.get? s.htlcs id = some c) (hopen : c.state = .open)
    (ht : c.transfer = true) (hdir : c.direction = .incoming) (hamt : c.amount = [(d, n)])
    (ha : findAsset s.params d = some a) (hid : hexOk64 id = true) (hsec : hexOk64 secret = true) :
    ∃ s', stepClaim s id secret c.hashLock = .ok s' := by
  obtain ⟨hwf, hq, hge, hcnt⟩ := hs
  obtain ⟨_, hwt, _⟩ := hwf.2 id c hget
  obtain ⟨d1, n1, ha1, _, hsome⟩ := hwt ht
  rw [hamt] at ha1; cases ha1
  obtain ⟨sup, hsup⟩ := Option.isSome_iff_exists.mp hsome
  have hso : supOf s d = sup := by simp [supOf, hsup]
  have hn : n ≤ sup.incoming := by
    have h1 := (hcnt d).1
    have h2 := le_sumBy (dirAmt .open .incoming d) s.htlcs id c hget
    rw [hso] at h1
    simp [dirAmt, ht, hopen, hdir, hamt, coinAmt] at h2
    unfold sumDir at h1; omega
  obtain ⟨l1, l2⟩ := hl d a ha
  rw [hso] at l1 l2
  have hfit : currentFits a sup n = true := by
    simp only [currentFits, Bool.and_eq_true, Bool.not_eq_true', decide_eq_false_iff_not,
      Bool.and_eq_false_iff]
    refine ⟨by omega, ?_⟩
    cases htl : a.timeLimited with
    | false => exact Or.inl rfl
    | true => right; have := l2 htl; omega
  have hcov : ∀ d', coinAmt c.amount d' ≤ Bank.balOf (mintCoins s.bank escrow c.amount) escrow d' := by
    intro d'; rw [balOf_mintCoins]; simp
  obtain ⟨b, hb⟩ := sendOk_succeeds _ escrow c.to c.amount hcov
  have hni : ¬ (sup.incoming < n) := by omega
  have hb' : sendOk (mintCoins s.bank escrow [(d, n)]) escrow c.to [(d, n)] = some b := by
    rw [← hamt]; exact hb
  simp [stepClaim, hid, hsec, hget, hopen, claimFunds, ht, hdir, hamt, claimIncoming, hsup, hni, ha, hfit, hb']


/-! ### the time-limited supply moves only by incoming claims (and by the window update) -/

/-- amount an accepted claim of `c` adds to the time-limited current supply of denom `d` -/
def tlAdd (s : State) (c : Contract) (d : Denom) : Nat :=
  if c.transfer && c.direction == .incoming && ((findAsset s.params d).map (·.timeLimited)).getD false
  then coinAmt c.amount d else 0

theorem tl_stepClaim {s s' : State} {id secret lk} (hs : Inv s) (h : stepClaim s id secret lk = .ok s') :
    ∃ c, AMap.get? s.htlcs id = some c ∧ ∀ d,
      (supOf s' d).elapsed = (supOf s d).elapsed ∧
      (supOf s' d).tlCurrent = (supOf s d).tlCurrent + tlAdd s c d := by
  obtain ⟨c, s1, hget, hopen, _, hf, rfl⟩ := stepClaim_ok h
  obtain ⟨hsnd, hwt, hwp⟩ := hs.1.2 id c hget
  refine ⟨c, hget, ?_⟩
  rcases claimFunds_ok hf with ⟨ht, b, hb, rfl⟩ | ⟨ht, hdir, d0, n, r, hamt, hci⟩ | ⟨ht, hdir, d0, n, r, hamt, hco⟩
  · intro d; simp [tlAdd, ht, supOf, close]
  · obtain ⟨d1, n1, ha1, _, _⟩ := hwt ht
    rw [ha1] at hamt; cases hamt
    obtain ⟨sup, a, b, hsup, hin, ha, hfit, hb, rfl⟩ := claimIncoming_ok hci
    intro d
    simp only [supOf, close, getS?_set, tlAdd, ht, hdir, ha1, coinAmt_single]
    by_cases e : d0 = d
    · subst e
      simp only [if_true, Option.getD_some, hsup, supAfterClaimIn, ha, Option.map_some]
      cases a.timeLimited <;> simp
    · simp [e]
  · obtain ⟨sup, b, hsup, hout, hcur, hb, rfl⟩ := claimOutgoing_ok hco
    intro d
    simp only [supOf, close, getS?_set, tlAdd, ht, hdir]
    by_cases e : d0 = d
    · subst e; simp [hsup]
    · simp [e]

theorem tl_stepCreate {s s' : State} {id sender to coins lock ts tl transfer}
    (h : stepCreate s id sender to coins lock ts tl transfer = .ok s') (d : Denom) :
    (supOf s' d).elapsed = (supOf s d).elapsed ∧ (supOf s' d).tlCurrent = (supOf s d).tlCurrent ∧
    (supOf s' d).current = (supOf s d).current := by
  obtain ⟨_, _, hfresh, hb⟩ := stepCreate_ok h
  cases transfer with
  | false => obtain ⟨b, _, rfl⟩ := createPlain_ok hb; exact ⟨rfl, rfl, rfl⟩
  | true =>
    simp only [if_true] at hb
    obtain ⟨d0, n, a, _, ha, _, _, _, _, hcase⟩ := createHTLT_ok hb
    rcases hcase with ⟨_, _, hc⟩ | ⟨_, _, hc⟩
    · obtain ⟨sup, hsup, hfit, rfl⟩ := createIncoming_ok hc
      simp only [supOf, record, getS?_set]
      by_cases e : d0 = d
      · subst e; simp [hsup]
      · simp [e]
    · obtain ⟨sup, b, hsup, _, _, _, _, _, rfl⟩ := createOutgoing_ok hc
      simp only [supOf, record, getS?_set]
      by_cases e : d0 = d
      · subst e; simp [hsup]
      · simp [e]

/-! ### a right secret is accepted: plain and outgoing contracts -/

theorem claimPlain_succeeds {s : State} {id : Id} {c : Contract} {secret}
    (hs : Inv s) (hget : AMap.get? s.htlcs id = some c) (hopen : c.state = .open)
    (ht : c.transfer = false) (hid : hexOk64 id = true) (hsec : hexOk64 secret = true) :
    ∃ s', stepClaim s id secret c.hashLock = .ok s' := by
  have hle : ∀ d, coinAmt c.amount d ≤ Bank.balOf s.bank escrow d := by
    intro d
    have := escrowAmt_le hs.2.2.1 hget d
    simpa [escrowAmt, escrowed, hopen, ht] using this
  obtain ⟨b, hb⟩ := sendOk_succeeds s.bank escrow c.to c.amount hle
  simp [stepClaim, hid, hsec, hget, hopen, claimFunds, ht, hb]

theorem claimOutgoing_succeeds {s : State} {id : Id} {c : Contract} {secret}
    (hs : Inv s) (hget : AMap.get? s.htlcs id = some c) (hopen : c.state = .open)
    (ht : c.transfer = true) (hdir : c.direction = .outgoing)
    (hid : hexOk64 id = true) (hsec : hexOk64 secret = true) :
    ∃ s', stepClaim s id secret c.hashLock = .ok s' := by
  obtain ⟨hwf, hq, hge, hcnt⟩ := hs
  obtain ⟨_, hwt, _⟩ := hwf.2 id c hget
  obtain ⟨d, n, hamt, _, hsome⟩ := hwt ht
  obtain ⟨sup, hsup⟩ := Option.isSome_iff_exists.mp hsome
  have hso : supOf s d = sup := by simp [supOf, hsup]
  have hn : n ≤ sup.outgoing := by
    have h1 := (hcnt d).2.1
    have h2 := le_sumBy (dirAmt .open .outgoing d) s.htlcs id c hget
    rw [hso] at h1
    simp [dirAmt, ht, hopen, hdir, hamt, coinAmt] at h2
    unfold sumDir at h1; omega
  have hc : sup.outgoing ≤ sup.current := by have := (hcnt d).2.2.2; rw [hso] at this; exact this
  have hle : ∀ d', coinAmt c.amount d' ≤ Bank.balOf s.bank escrow d' := by
    intro d'
    have := escrowAmt_le hge hget d'
    simpa [escrowAmt, escrowed, hopen, ht, hdir] using this
  obtain ⟨b, hb⟩ := burnCoins_succeeds s.bank escrow c.amount hle
  have hb' : burnCoins s.bank escrow [(d, n)] = some b := by rw [← hamt]; exact hb
  have h1 : ¬ (sup.outgoing < n) := by omega
  have h2 : ¬ (sup.current < n) := by omega
  simp [stepClaim, hid, hsec, hget, hopen, claimFunds, ht, hdir, hamt, claimOutgoing, hsup, h1, h2, hb']

end Irismod.Proofs.Htlc
