/-
C12 (htlc): the class F-gen-5 is reachable only through `MsgUpdateParams`.

Along every history WITHOUT a parameter update, from the state a chain starts with: every supply
record belongs to a listed asset, every stored HTLT names a listed and active asset, and the limits
of C04 hold — hence the state is importable (`importableB`), and by `import_export` its export
re-imports.  Core tactics only.
-/
import Irismod.Proofs.HtlcGenesisRoundTrip
import Irismod.Proofs.HtlcLedger

namespace Irismod.Proofs.HtlcGen
open Irismod Irismod.Sdk Irismod.Htlc Irismod.HtlcGen Irismod.Spec.C03 Irismod.Spec.C04 Irismod.Spec.C12Htlc
open Irismod.Proofs.Htlc Irismod.Proofs.GenesisList

/-- every supply record belongs to a listed asset -/
def KeysIn (ps : List Asset) (m : AMap Denom Supply) : Prop := ∀ d ∈ AMap.keys m, (findAsset ps d).isSome = true

/-- every stored HTLT names a listed and active asset -/
def HtltsLive (s : State) : Prop :=
  ∀ id c, AMap.get? s.htlcs id = some c → c.transfer = true →
    ∃ d n a, c.amount = [(d, n)] ∧ findAsset s.params d = some a ∧ a.active = true

structure ClassInv (s : State) : Prop where
  keys : KeysIn s.params s.supplies
  live : HtltsLive s

theorem keysIn_set {ps : List Asset} {m : AMap Denom Supply} (h : KeysIn ps m) (d : Denom) (v : Supply)
    (hd : (AMap.get? m d).isSome = true ∨ (findAsset ps d).isSome = true) : KeysIn ps (AMap.set m d v) := by
  intro x hx
  rcases (mem_keys_set m d x v).mp hx with rfl | hx
  · rcases hd with hd | hd
    · obtain ⟨sup, hs⟩ := Option.isSome_iff_exists.mp hd
      exact h x ((mem_keys_iff m x).mpr ⟨sup, hs⟩)
    · exact hd
  · exact h x hx

theorem findAsset_isSome_of_mem : ∀ (ps : List Asset) (a : Asset), a ∈ ps → (findAsset ps a.denom).isSome = true
  | [], _, h => by simp at h
  | b :: r, a, h => by
    unfold findAsset
    split
    · rfl
    · rcases List.mem_cons.mp h with e | h
      · subst e; rename_i hne; exact absurd rfl hne
      · exact findAsset_isSome_of_mem r a h

theorem keysIn_tickAll (P : List Asset) (dt : Int) : ∀ (ps : List Asset) (m : AMap Denom Supply),
    (∀ a ∈ ps, a ∈ P) → KeysIn P m → KeysIn P (tickAll dt ps m)
  | [], _, _, h => h
  | a :: r, _, hsub, h =>
    keysIn_tickAll P dt r _ (fun b hb => hsub b (by simp [hb]))
      (keysIn_set h a.denom _ (Or.inr (findAsset_isSome_of_mem P a (hsub a (by simp)))))

/-! ### the supply keys along the handlers (parameters unchanged) -/

theorem keys_refundOne {s s1 : State} {id : Id} (hk : KeysIn s.params s.supplies) (h : refundOne s id = .ok s1) :
    KeysIn s1.params s1.supplies ∧ s1.params = s.params := by
  unfold refundOne at h
  split at h
  · cases h; exact ⟨hk, rfl⟩
  · rename_i c _
    split at h
    · split at h
      · cases h; exact ⟨hk, rfl⟩
      · split at h
        · cases h
        · rename_i d n _ _
          cases h
          unfold refundIncoming
          split
          · exact ⟨hk, rfl⟩
          · rename_i sup hsup
            split
            · exact ⟨hk, rfl⟩
            · exact ⟨keysIn_set hk d _ (Or.inl (by rw [hsup]; rfl)), rfl⟩
      · split at h
        · cases h
        · rename_i d n _ _
          cases h
          unfold refundOutgoing
          split
          · exact ⟨hk, rfl⟩
          · rename_i sup hsup
            split
            · exact ⟨hk, rfl⟩
            · split
              · exact ⟨keysIn_set hk d _ (Or.inl (by rw [hsup]; rfl)), rfl⟩
              · exact ⟨keysIn_set hk d _ (Or.inl (by rw [hsup]; rfl)), rfl⟩
    · cases h
      unfold refundPlain
      split
      · exact ⟨hk, rfl⟩
      · exact ⟨hk, rfl⟩

theorem keys_processDue : ∀ (ids : List Id) {s s1 : State} {h : Nat}, KeysIn s.params s.supplies →
    processDue s h ids = .ok s1 → KeysIn s1.params s1.supplies ∧ s1.params = s.params
  | [], s, s1, _, hk, h => by simp [processDue] at h; subst h; exact ⟨hk, rfl⟩
  | id :: r, s, s1, hh, hk, h => by
    unfold processDue at h
    split at h
    · cases h
    · rename_i s2 h2
      obtain ⟨hk2, hp2⟩ := keys_refundOne hk h2
      obtain ⟨hk3, hp3⟩ := keys_processDue r (s := { s2 with queue := dequeue s2.queue (hh, id) }) hk2 h
      exact ⟨hk3, hp3.trans hp2⟩

theorem keys_updateLimits {s : State} (hk : KeysIn s.params s.supplies) :
    KeysIn (updateLimits s).params (updateLimits s).supplies ∧ (updateLimits s).params = s.params := by
  unfold updateLimits
  split
  · exact ⟨hk, rfl⟩
  · exact ⟨keysIn_tickAll s.params _ s.params s.supplies (fun _ h => h) hk, rfl⟩

theorem keys_beginBlock {s s' : State} {h t : Nat} (hk : KeysIn s.params s.supplies) (hr : stepBeginBlock s h t = .ok s') :
    KeysIn s'.params s'.supplies ∧ s'.params = s.params := by
  unfold stepBeginBlock at hr
  split at hr
  · cases hr
  · rename_i s1 h1
    cases hr
    obtain ⟨hk1, hp1⟩ := keys_processDue _ (s := { s with height := h, time := t }) hk h1
    obtain ⟨hk2, hp2⟩ := keys_updateLimits hk1
    exact ⟨hk2, hp2.trans hp1⟩

theorem keys_advance : ∀ (n : Nat) {s s' : State} {dt : Nat}, KeysIn s.params s.supplies → advance s n dt = .ok s' →
    KeysIn s'.params s'.supplies ∧ s'.params = s.params
  | 0, s, s', _, hk, h => by simp [advance] at h; subst h; exact ⟨hk, rfl⟩
  | n + 1, s, s', dt, hk, h => by
    unfold advance at h
    split at h
    · cases h
    · rename_i s1 h1
      obtain ⟨hk1, hp1⟩ := keys_beginBlock hk h1
      obtain ⟨hk2, hp2⟩ := keys_advance n hk1 h
      exact ⟨hk2, hp2.trans hp1⟩

theorem keys_stepCreate {s s' : State} {id sender to coins lock ts tl transfer} (hk : KeysIn s.params s.supplies)
    (h : stepCreate s id sender to coins lock ts tl transfer = .ok s') :
    KeysIn s'.params s'.supplies ∧ s'.params = s.params := by
  obtain ⟨_, _, _, hb⟩ := stepCreate_ok h
  cases transfer with
  | false =>
    obtain ⟨b, _, rfl⟩ := createPlain_ok hb
    exact ⟨hk, rfl⟩
  | true =>
    simp only [if_true] at hb
    obtain ⟨d, n, a, hcoins, ha, _, _, _, _, hcase⟩ := createHTLT_ok hb
    subst hcoins
    rcases hcase with ⟨_, _, hc⟩ | ⟨_, _, hc⟩
    · obtain ⟨sup, _, _, rfl⟩ := createIncoming_ok hc
      exact ⟨keysIn_set hk d _ (Or.inr (by rw [ha]; rfl)), rfl⟩
    · obtain ⟨_, _, sup, b, _, _, _, _, rfl⟩ := createOutgoing_ok hc
      exact ⟨keysIn_set hk d _ (Or.inr (by rw [ha]; rfl)), rfl⟩

theorem keys_stepClaim {s s' : State} {id secret lk} (hk : KeysIn s.params s.supplies)
    (h : stepClaim s id secret lk = .ok s') : KeysIn s'.params s'.supplies ∧ s'.params = s.params := by
  obtain ⟨c0, s1, _, _, _, hf, rfl⟩ := stepClaim_ok h
  rcases claimFunds_ok hf with ⟨_, b, _, rfl⟩ | ⟨_, _, d0, n, r, _, hci⟩ | ⟨_, _, d0, n, r, _, hco⟩
  · exact ⟨hk, rfl⟩
  · obtain ⟨sup, a, b, hsup, _, _, _, _, rfl⟩ := claimIncoming_ok hci
    exact ⟨keysIn_set hk d0 _ (Or.inl (by rw [hsup]; rfl)), rfl⟩
  · obtain ⟨sup, b, hsup, _, _, _, rfl⟩ := claimOutgoing_ok hco
    exact ⟨keysIn_set hk d0 _ (Or.inl (by rw [hsup]; rfl)), rfl⟩

theorem keys_step {s s' : State} {op : Op} (hk : KeysIn s.params s.supplies) (hkp : KeepsParams op)
    (h : step s op = .ok s') : KeysIn s'.params s'.supplies ∧ s'.params = s.params := by
  cases op with
  | create sender to coins lock ts tl transfer => exact keys_stepCreate hk h
  | claim sender id secret => exact keys_stepClaim hk h
  | beginBlock hh t => exact keys_beginBlock hk h
  | advance n dt => exact keys_advance n hk h
  | setParams auth ps => exact absurd hkp (by simp [KeepsParams])

/-! ### the stored HTLTs -/

theorem live_step {s s' : State} {op : Op} (hs : Inv s) (hl : HtltsLive s) (hp : s'.params = s.params)
    (h : step s op = .ok s') : HtltsLive s' := by
  intro id c' hget htr
  rw [hp]
  cases hold : AMap.get? s.htlcs id with
  | some c =>
    obtain ⟨c'', hg'', t⟩ := step_trans hs h hold
    rw [hget] at hg''; cases hg''
    have : c'.transfer = c.transfer ∧ c'.amount = c.amount := by
      cases t with
      | stay => exact ⟨rfl, rfl⟩
      | claimed _ _ _ _ _ => exact ⟨rfl, rfl⟩
      | refunded _ _ => exact ⟨rfl, rfl⟩
    rw [this.1] at htr; rw [this.2]
    exact hl id c hold htr
  | none =>
    rcases step_absent hs h hold with hn | ⟨sender, to, coins, lock, ts, tl, transfer, dir, rfl, rfl, hnew⟩
    · rw [hget] at hn; cases hn
    · rw [hget] at hnew; cases hnew
      have htr' : transfer = true := htr
      subst htr'
      obtain ⟨_, _, _, hb⟩ := stepCreate_ok (show stepCreate s (genId lock sender to coins) sender to coins lock ts tl true = .ok s' from h)
      simp only [if_true] at hb
      obtain ⟨d, n, a, hcoins, ha, hact, _⟩ := createHTLT_ok hb
      exact ⟨d, n, a, hcoins, ha, hact⟩

theorem classInv_step {s s' : State} {op : Op} (hs : Inv s) (hc : ClassInv s) (hkp : KeepsParams op)
    (h : step s op = .ok s') : ClassInv s' := by
  obtain ⟨hk, hp⟩ := keys_step hc.keys hkp h
  exact ⟨hk, live_step hs hc.live hp h⟩

theorem classInv_fresh {s : State} (h1 : s.htlcs = []) (h3 : s.supplies = []) : ClassInv s :=
  ⟨by intro d hd; rw [h3] at hd; simp [AMap.keys] at hd, by intro id c hg; rw [h1] at hg; simp at hg⟩

/-- **outside the class**: the three invariants imply importability -/
theorem importable_of_classInv {s : State} (hs : Inv s) (hw : GenWF s) (hc : ClassInv s) (hl : LimitInv s) :
    importableB s = true := by
  unfold importableB htltsLiveB suppliesFitB
  simp only [Bool.and_eq_true, List.all_eq_true]
  constructor
  · intro e he
    cases hop : isOpen e.2 && e.2.transfer with
    | false => rfl
    | true =>
      simp only [Bool.and_eq_true] at hop
      obtain ⟨d, n, a, hamt, ha, hact⟩ := hc.live e.1 e.2 (get?_of_mem (m := s.htlcs) hs.1.1 he) hop.2
      simp [liveAssetB, hamt, ha, hact]
  · intro e he
    have hkey : e.1 ∈ AMap.keys s.supplies := List.mem_map.mpr ⟨e, he, rfl⟩
    obtain ⟨a, ha⟩ := Option.isSome_iff_exists.mp (hc.keys e.1 hkey)
    have hsup := supply_mem hw.aux he
    obtain ⟨l1, _⟩ := hl e.1 a ha
    obtain ⟨_, _, _, c4⟩ := hs.2.2.2 e.1
    rw [hsup] at l1 c4
    simp only [supplyFitsB, ha, Bool.and_eq_true, decide_eq_true_eq]
    omega

end Irismod.Proofs.HtlcGen
