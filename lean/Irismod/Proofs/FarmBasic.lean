/-
Helper lemmas for the farm proofs (C05/C06/C13-farm): association-list sums, multi-coin
bank sends, and the per-rule arithmetic of `collectRules`.
-/
import Irismod.Spec.C13Farm

namespace Irismod.Proofs.Farm
open Irismod Irismod.Sdk Irismod.Farm

/-! ### association lists -/

theorem get?_le_sumIf {K V : Type} [DecidableEq K] (p : K → Bool) (f : V → Nat) (m : AMap K V) (k : K) (v : V)
    (h : AMap.get? m k = some v) (hp : p k = true) : f v ≤ AMap.sumIf p f m := by
  induction m with
  | nil => simp [AMap.get?] at h
  | cons hd t ih =>
    obtain ⟨k', v'⟩ := hd
    by_cases hk : k' = k
    · subst hk
      simp [AMap.get?] at h
      subst h
      simp [AMap.sumIf, hp]
    · simp [AMap.get?, hk] at h
      have := ih h
      simp only [AMap.sumIf]
      omega

theorem sumBy_set {K V : Type} [DecidableEq K] (f : V → Nat) (m : AMap K V) (k : K) (v : V) :
    AMap.sumBy f (AMap.set m k v) + ((AMap.get? m k).map f).getD 0 = AMap.sumBy f m + f v := by
  have := AMap.sumIf_set (fun _ => true) f m k v
  simpa [AMap.sumBy] using this

theorem get?_erase_self {K V : Type} [DecidableEq K] (m : AMap K V) (k : K) :
    AMap.get? (AMap.erase m k) k = none := by
  induction m with
  | nil => rfl
  | cons hd t ih =>
    obtain ⟨k', v'⟩ := hd
    by_cases hk : k' = k
    · simp [AMap.erase, hk, ih]
    · simp [AMap.erase, AMap.get?, hk, ih]

theorem get?_erase_other {K V : Type} [DecidableEq K] (m : AMap K V) (k k2 : K) (h : k ≠ k2) :
    AMap.get? (AMap.erase m k) k2 = AMap.get? m k2 := by
  induction m with
  | nil => rfl
  | cons hd t ih =>
    obtain ⟨k', v'⟩ := hd
    by_cases hk : k' = k
    · subst hk
      simp [AMap.erase, AMap.get?, h, ih]
    · by_cases hk2 : k' = k2
      · subst hk2; simp [AMap.erase, AMap.get?, hk]
      · simp [AMap.erase, AMap.get?, hk, hk2, ih]

/-- erasing removes the contribution of every binding of the key; with the value read by
`get?` being the only one when keys are unique.  Stated as an inequality-free law through
`sumIf` of the key predicate. -/
theorem sumIf_erase_of_not {K V : Type} [DecidableEq K] (p : K → Bool) (f : V → Nat) (m : AMap K V) (k : K)
    (h : p k = false) : AMap.sumIf p f (AMap.erase m k) = AMap.sumIf p f m := by
  induction m with
  | nil => rfl
  | cons hd t ih =>
    obtain ⟨k', v'⟩ := hd
    by_cases hk : k' = k
    · subst hk; simp [AMap.erase, AMap.sumIf, h, ih]
    · simp [AMap.erase, AMap.sumIf, hk, ih]

/-- keys are pairwise distinct -/
def NodupKeys {K V : Type} (m : AMap K V) : Prop := (m.map (·.1)).Nodup

theorem get?_none_of_not_mem {K V : Type} [DecidableEq K] (m : AMap K V) (k : K)
    (h : k ∉ m.map (·.1)) : AMap.get? m k = none := by
  induction m with
  | nil => rfl
  | cons hd t ih =>
    obtain ⟨k', v'⟩ := hd
    simp only [List.map_cons, List.mem_cons, not_or] at h
    simp [AMap.get?, Ne.symm h.1, ih h.2]

theorem keys_set {K V : Type} [DecidableEq K] (m : AMap K V) (k : K) (v : V) :
    (AMap.set m k v).map (·.1) = if k ∈ m.map (·.1) then m.map (·.1) else m.map (·.1) ++ [k] := by
  induction m with
  | nil => simp [AMap.set]
  | cons hd t ih =>
    obtain ⟨k', v'⟩ := hd
    by_cases hk : k' = k
    · subst hk; simp [AMap.set]
    · simp only [AMap.set, hk, if_false, List.map_cons, ih, List.mem_cons]
      by_cases hm : k ∈ t.map (·.1)
      · simp [hm]
      · simp [hm, Ne.symm hk]

theorem nodupKeys_set {K V : Type} [DecidableEq K] (m : AMap K V) (k : K) (v : V) (h : NodupKeys m) :
    NodupKeys (AMap.set m k v) := by
  unfold NodupKeys at *
  rw [keys_set]
  split
  · exact h
  · rename_i hm
    exact List.nodup_append.mpr ⟨h, by simp, by intro a ha b hb; simp at hb; subst hb; intro e; subst e; exact hm ha⟩

theorem mem_keys_of_get? {K V : Type} [DecidableEq K] (m : AMap K V) (k : K) (v : V)
    (h : AMap.get? m k = some v) : k ∈ m.map (·.1) := by
  induction m with
  | nil => simp [AMap.get?] at h
  | cons hd t ih =>
    obtain ⟨k', v'⟩ := hd
    by_cases hk : k' = k
    · simp [hk]
    · simp [AMap.get?, hk] at h
      simp [ih h]

theorem sumIf_erase {K V : Type} [DecidableEq K] (p : K → Bool) (f : V → Nat) (m : AMap K V) (k : K)
    (hn : NodupKeys m) :
    AMap.sumIf p f (AMap.erase m k) + (if p k then ((AMap.get? m k).map f).getD 0 else 0) = AMap.sumIf p f m := by
  induction m with
  | nil => simp [AMap.erase, AMap.sumIf, AMap.get?]
  | cons hd t ih =>
    obtain ⟨k', v'⟩ := hd
    have hn' : NodupKeys t := by
      unfold NodupKeys at *; simp only [List.map_cons, List.nodup_cons] at hn; exact hn.2
    by_cases hk : k' = k
    · subst hk
      have hnot : k' ∉ t.map (·.1) := by
        unfold NodupKeys at hn; simp only [List.map_cons, List.nodup_cons] at hn; exact hn.1
      have hget : AMap.get? t k' = none := get?_none_of_not_mem t k' hnot
      have := ih hn'
      rw [hget] at this
      simp only [AMap.erase, if_true, AMap.sumIf, AMap.get?, Option.map, Option.getD] at *
      split <;> simp_all <;> omega
    · have := ih hn'
      simp only [AMap.erase, hk, if_false, AMap.sumIf, AMap.get?]
      omega

theorem nodupKeys_erase {K V : Type} [DecidableEq K] (m : AMap K V) (k : K) (h : NodupKeys m) :
    NodupKeys (AMap.erase m k) := by
  induction m with
  | nil => exact h
  | cons hd t ih =>
    obtain ⟨k', v'⟩ := hd
    unfold NodupKeys at *
    simp only [List.map_cons, List.nodup_cons] at h
    by_cases hk : k' = k
    · simp only [AMap.erase, hk, if_true]; exact ih h.2
    · simp only [AMap.erase, hk, if_false, List.map_cons, List.nodup_cons]
      refine ⟨?_, ih h.2⟩
      intro hm
      apply h.1
      clear ih h
      induction t with
      | nil => simp [AMap.erase] at hm
      | cons hd2 t2 ih2 =>
        obtain ⟨k2, v2⟩ := hd2
        by_cases hk2 : k2 = k
        · simp only [AMap.erase, hk2, if_true] at hm
          simp [ih2 hm]
        · simp only [AMap.erase, hk2, if_false, List.map_cons, List.mem_cons] at hm
          rcases hm with hm | hm
          · simp [hm]
          · simp [ih2 hm]

/-! ### coins -/

/-- Σ of the amounts of denom `d` in a coin list -/
def sumOf : CoinList → Denom → Nat
  | [], _ => 0
  | (d', n) :: t, d => (if d' = d then n else 0) + sumOf t d

theorem nonzero_cons (d : Denom) (n : Nat) (t : CoinList) :
    nonzero ((d, n) :: t) = if n = 0 then nonzero t else (d, n) :: nonzero t := by
  by_cases hn : n = 0 <;> simp [nonzero, List.filter, hn]

@[simp] theorem nonzero_nil : nonzero [] = [] := rfl

theorem sumOf_nonzero (cs : CoinList) (d : Denom) : sumOf (nonzero cs) d = sumOf cs d := by
  induction cs with
  | nil => rfl
  | cons hd t ih =>
    obtain ⟨d', n⟩ := hd
    rw [nonzero_cons]
    by_cases hn : n = 0
    · subst hn; simp [sumOf, ih]
    · simp [hn, sumOf, ih]

theorem sumOf_append (a b : CoinList) (d : Denom) : sumOf (a ++ b) d = sumOf a d + sumOf b d := by
  induction a with
  | nil => simp [sumOf]
  | cons hd t ih => obtain ⟨d', n⟩ := hd; simp [sumOf, ih]; omega

/-! ### bank -/

theorem sendCoins_deltas (cs : CoinList) (b b' : Bank) (src dst : Addr) (hne : src ≠ dst)
    (h : Bank.sendCoins b src dst cs = some b') :
    (∀ d, Bank.balOf b' src d + sumOf cs d = Bank.balOf b src d) ∧
    (∀ d, Bank.balOf b' dst d = Bank.balOf b dst d + sumOf cs d) ∧
    (∀ a d, a ≠ src → a ≠ dst → Bank.balOf b' a d = Bank.balOf b a d) := by
  induction cs generalizing b with
  | nil =>
    simp [Bank.sendCoins] at h; subst h
    simp [sumOf]
  | cons hd t ih =>
    obtain ⟨d0, n⟩ := hd
    simp only [Bank.sendCoins, Option.bind] at h
    cases h1 : Bank.send b src dst d0 n with
    | none => simp [h1] at h
    | some b1 =>
      simp only [h1] at h
      obtain ⟨i1, i2, i3⟩ := ih b1 h
      obtain ⟨e1, e2, e3⟩ := Bank.send_deltas b b1 src dst d0 n hne h1
      refine ⟨?_, ?_, ?_⟩
      · intro d
        have := i1 d
        by_cases hd : d0 = d
        · subst hd; simp only [sumOf, if_true]; omega
        · have := e3 src d (by intro e; cases e; exact hd rfl) (by intro e; cases e; exact hd rfl)
          simp only [sumOf, hd, if_false]; omega
      · intro d
        have := i2 d
        by_cases hd : d0 = d
        · subst hd; simp only [sumOf, if_true]; omega
        · have := e3 dst d (by intro e; cases e; exact hd rfl) (by intro e; cases e; exact hd rfl)
          simp only [sumOf, hd, if_false]; omega
      · intro a d ha1 ha2
        rw [i3 a d ha1 ha2]
        exact e3 a d (by intro e; cases e; exact ha1 rfl) (by intro e; cases e; exact ha2 rfl)

/-- a multi-coin send succeeds when the source covers the per-denom totals -/
theorem sendCoins_ok (cs : CoinList) (b : Bank) (src dst : Addr) (hne : src ≠ dst)
    (h : ∀ d, sumOf cs d ≤ Bank.balOf b src d) : ∃ b', Bank.sendCoins b src dst cs = some b' := by
  induction cs generalizing b with
  | nil => exact ⟨b, rfl⟩
  | cons hd t ih =>
    obtain ⟨d0, n⟩ := hd
    have h0 := h d0
    simp only [sumOf, if_true] at h0
    have hs : ¬ (Bank.balOf b src d0 < n) := by omega
    cases h1 : Bank.send b src dst d0 n with
    | none => unfold Bank.send at h1; simp [hs] at h1
    | some b1 =>
      obtain ⟨e1, e2, e3⟩ := Bank.send_deltas b b1 src dst d0 n hne h1
      have : ∀ d, sumOf t d ≤ Bank.balOf b1 src d := by
        intro d
        have := h d
        by_cases hd : d0 = d
        · subst hd; simp only [sumOf, if_true] at this; omega
        · have e := e3 src d (by intro e; cases e; exact hd rfl) (by intro e; cases e; exact hd rfl)
          simp only [sumOf, hd, if_false] at this; omega
      obtain ⟨b', hb'⟩ := ih b1 this
      exact ⟨b', by simp [Bank.sendCoins, h1, hb', Option.bind]⟩

end Irismod.Proofs.Farm
