/-
C12 (htlc): every operation of the HTLC model commutes with putting closed "ghost" contracts in
front of the contract table, as long as their ids are not well-formed ids (so no message can name
them).  This is the tool that carries the theorems of C03 / C04 / C13 — proved from the joint
invariant `Inv`, whose counter clause sums over ALL contracts ever stored — over to a chain restarted
from a genesis, which has forgotten its closed contracts: see `Proofs/HtlcRestart.lean`.
Core tactics only.
-/
import Irismod.Proofs.HtlcGenesisWF

namespace Irismod.Proofs.HtlcGen
open Irismod Irismod.Sdk Irismod.Htlc Irismod.Proofs.Htlc Irismod.Proofs.GenesisList

/-- `s` with the contracts `g` in front of its contract table -/
def ghost (g : AMap Id Contract) (s : State) : State := { s with htlcs := g ++ s.htlcs }

/-- the same on results -/
def mapG (g : AMap Id Contract) : R → R
  | .ok s => .ok (ghost g s)
  | .error e => .error e

theorem get?_ghost {g m : AMap Id Contract} {id : Id} (h : id ∉ AMap.keys g) :
    AMap.get? (g ++ m) id = AMap.get? m id := by
  rw [get?_append, (get?_eq_none_iff g id).mpr h]; rfl

theorem set_ghost {g : AMap Id Contract} (m : AMap Id Contract) {id : Id} (c : Contract) (h : id ∉ AMap.keys g) :
    AMap.set (g ++ m) id c = g ++ AMap.set m id c := by
  induction g with
  | nil => rfl
  | cons hd t ih =>
    obtain ⟨k, v⟩ := hd
    simp only [AMap.keys, List.map_cons, List.mem_cons, not_or] at h
    have hk : ¬ k = id := fun e => h.1 e.symm
    simp only [List.cons_append, AMap.set, hk, if_false]
    rw [ih h.2]

theorem contains_ghost {g m : AMap Id Contract} {id : Id} (h : id ∉ AMap.keys g) :
    AMap.contains (g ++ m) id = AMap.contains m id := by
  unfold AMap.contains; rw [get?_ghost h]

theorem record_ghost (g : AMap Id Contract) (s : State) {id : Id} (c : Contract) (h : id ∉ AMap.keys g) :
    record (ghost g s) id c = ghost g (record s id c) := by
  unfold record ghost
  simp only [set_ghost _ _ h]

/-! ### CreateHTLC -/

theorem createPlain_ghost (g : AMap Id Contract) (s : State) {id : Id} (sender to : Addr) (coins : Coins)
    (lock : String) (ts tl : Nat) (h : id ∉ AMap.keys g) :
    createPlain (ghost g s) id sender to coins lock ts tl = mapG g (createPlain s id sender to coins lock ts tl) := by
  unfold createPlain
  show (match sendOk s.bank sender escrow coins with | none => _ | some b => _) = _
  cases sendOk s.bank sender escrow coins with
  | none => rfl
  | some b => exact congrArg Except.ok (record_ghost g { s with bank := b } _ h)

theorem createIncoming_ghost (g : AMap Id Contract) (s : State) {id : Id} (sender to : Addr) (d : Denom) (n : Nat)
    (lock : String) (ts tl : Nat) (a : Asset) (h : id ∉ AMap.keys g) :
    createIncoming (ghost g s) id sender to d n lock ts tl a = mapG g (createIncoming s id sender to d n lock ts tl a) := by
  unfold createIncoming
  show (match AMap.get? s.supplies d with | none => _ | some sup => _) = _
  cases AMap.get? s.supplies d with
  | none => rfl
  | some sup =>
    simp only
    split
    · rfl
    · refine congrArg Except.ok ?_
      unfold record ghost newContract
      simp only [set_ghost _ _ h]

theorem createOutgoing_ghost (g : AMap Id Contract) (s : State) {id : Id} (sender to : Addr) (d : Denom) (n : Nat)
    (lock : String) (ts tl : Nat) (a : Asset) (h : id ∉ AMap.keys g) :
    createOutgoing (ghost g s) id sender to d n lock ts tl a = mapG g (createOutgoing s id sender to d n lock ts tl a) := by
  unfold createOutgoing
  split
  · rfl
  · split
    · rfl
    · show (match AMap.get? s.supplies d with | none => _ | some sup => _) = _
      cases AMap.get? s.supplies d with
      | none => rfl
      | some sup =>
        simp only
        split
        · rfl
        · show (match sendOk s.bank sender escrow [(d, n)] with | none => _ | some b => _) = _
          cases sendOk s.bank sender escrow [(d, n)] with
          | none => rfl
          | some b =>
            refine congrArg Except.ok ?_
            unfold record ghost newContract
            simp only [set_ghost _ _ h]

theorem createHTLT_ghost (g : AMap Id Contract) (s : State) {id : Id} (sender to : Addr) (coins : Coins)
    (lock : String) (ts tl : Nat) (h : id ∉ AMap.keys g) :
    createHTLT (ghost g s) id sender to coins lock ts tl = mapG g (createHTLT s id sender to coins lock ts tl) := by
  unfold createHTLT
  split
  · rename_i d n
    show (match findAsset s.params d with | none => _ | some a => _) = _
    cases findAsset s.params d with
    | none => rfl
    | some a =>
      simp only
      split
      · rfl
      · split
        · rfl
        · show (if tsOutOfRange s.time ts then _ else _) = _
          split
          · rfl
          · split
            · split
              · rfl
              · exact createIncoming_ghost g s sender to d n lock ts tl a h
            · split
              · rfl
              · exact createOutgoing_ghost g s sender to d n lock ts tl a h
  · rfl

theorem stepCreate_ghost (g : AMap Id Contract) (s : State) {id : Id} (sender to : Addr) (coins : Coins)
    (lock : String) (ts tl : Nat) (transfer : Bool) (h : id ∉ AMap.keys g) :
    stepCreate (ghost g s) id sender to coins lock ts tl transfer = mapG g (stepCreate s id sender to coins lock ts tl transfer) := by
  unfold stepCreate
  split
  · rfl
  · split
    · rfl
    · split
      · rfl
      · show (if AMap.contains (g ++ s.htlcs) id then _ else _) = _
        rw [contains_ghost h]
        split
        · rfl
        · split
          · exact createHTLT_ghost g s sender to coins lock ts tl h
          · exact createPlain_ghost g s sender to coins lock ts tl h

/-! ### ClaimHTLC -/

theorem claimIncoming_ghost (g : AMap Id Contract) (s : State) (c : Contract) (d : Denom) (n : Nat) :
    claimIncoming (ghost g s) c d n = mapG g (claimIncoming s c d n) := by
  unfold claimIncoming
  show (match AMap.get? s.supplies d with | none => _ | some sup => _) = _
  cases AMap.get? s.supplies d with
  | none => rfl
  | some sup =>
    simp only
    split
    · rfl
    · show (match findAsset s.params d with | none => _ | some a => _) = _
      cases findAsset s.params d with
      | none => rfl
      | some a =>
        simp only
        split
        · rfl
        · show (match sendOk (mintCoins s.bank escrow c.amount) escrow c.to c.amount with | none => _ | some b => _) = _
          cases sendOk (mintCoins s.bank escrow c.amount) escrow c.to c.amount with
          | none => rfl
          | some b => rfl

theorem claimOutgoing_ghost (g : AMap Id Contract) (s : State) (c : Contract) (d : Denom) (n : Nat) :
    claimOutgoing (ghost g s) c d n = mapG g (claimOutgoing s c d n) := by
  unfold claimOutgoing
  show (match AMap.get? s.supplies d with | none => _ | some sup => _) = _
  cases AMap.get? s.supplies d with
  | none => rfl
  | some sup =>
    simp only
    split
    · rfl
    · split
      · rfl
      · show (match burnCoins s.bank escrow c.amount with | none => _ | some b => _) = _
        cases burnCoins s.bank escrow c.amount with
        | none => rfl
        | some b => rfl

theorem claimFunds_ghost (g : AMap Id Contract) (s : State) (c : Contract) :
    claimFunds (ghost g s) c = mapG g (claimFunds s c) := by
  unfold claimFunds
  split
  · split
    · rfl
    · split
      · rfl
      · exact claimIncoming_ghost g s c _ _
    · split
      · rfl
      · exact claimOutgoing_ghost g s c _ _
  · show (match sendOk s.bank escrow c.to c.amount with | none => _ | some b => _) = _
    cases sendOk s.bank escrow c.to c.amount with
    | none => rfl
    | some b => rfl

theorem close_ghost (g : AMap Id Contract) (s : State) {id : Id} (c : Contract) (h : id ∉ AMap.keys g) :
    close (ghost g s) id c = ghost g (close s id c) := by
  unfold close ghost
  simp only [set_ghost _ _ h]

/-- ghost ids are not well-formed ids: no `MsgClaimHTLC` passes `ValidateBasic` with one of them, and
no `types.GetID` value equals one -/
def GhostIds (g : AMap Id Contract) : Prop := ∀ k ∈ AMap.keys g, hexOk64 k = false

theorem not_ghost_of_hex {g : AMap Id Contract} (hg : GhostIds g) {id : Id} (h : hexOk64 id = true) : id ∉ AMap.keys g := by
  intro hm; rw [hg id hm] at h; cases h

theorem stepClaim_ghost (g : AMap Id Contract) (hg : GhostIds g) (s : State) (id secret lk : String) :
    stepClaim (ghost g s) id secret lk = mapG g (stepClaim s id secret lk) := by
  unfold stepClaim
  split
  · rfl
  · rename_i hvb
    have hid : hexOk64 id = true := by
      have : (hexOk64 id && hexOk64 secret) = true := by simpa using hvb
      simp only [Bool.and_eq_true] at this
      exact this.1
    have hn := not_ghost_of_hex hg hid
    show (match AMap.get? (g ++ s.htlcs) id with | none => _ | some c => _) = _
    rw [get?_ghost hn]
    cases AMap.get? s.htlcs id with
    | none => rfl
    | some c =>
      simp only
      split
      · rfl
      · split
        · rfl
        · rw [claimFunds_ghost]
          cases claimFunds s c with
          | error e => rfl
          | ok s1 => exact congrArg Except.ok (close_ghost g s1 _ hn)

/-! ### BeginBlocker -/

theorem markRefunded_ghost (g : AMap Id Contract) (s : State) {id : Id} (c : Contract) (h : id ∉ AMap.keys g) :
    markRefunded (ghost g s) id c = ghost g (markRefunded s id c) := by
  unfold markRefunded ghost
  simp only [set_ghost _ _ h]

theorem refundIncoming_ghost (g : AMap Id Contract) (s : State) {id : Id} (c : Contract) (d : Denom) (n : Nat)
    (h : id ∉ AMap.keys g) : refundIncoming (ghost g s) id c d n = ghost g (refundIncoming s id c d n) := by
  unfold refundIncoming
  show (match AMap.get? s.supplies d with | none => _ | some sup => _) = _
  cases AMap.get? s.supplies d with
  | none => rfl
  | some sup =>
    simp only
    split
    · rfl
    · unfold markRefunded ghost
      simp only [set_ghost _ _ h]

theorem refundOutgoing_ghost (g : AMap Id Contract) (s : State) {id : Id} (c : Contract) (d : Denom) (n : Nat)
    (h : id ∉ AMap.keys g) : refundOutgoing (ghost g s) id c d n = ghost g (refundOutgoing s id c d n) := by
  unfold refundOutgoing
  show (match AMap.get? s.supplies d with | none => _ | some sup => _) = _
  cases AMap.get? s.supplies d with
  | none => rfl
  | some sup =>
    simp only
    split
    · rfl
    · show (match sendCoins s.bank escrow c.sender c.amount with | (b, false) => _ | (b, true) => _) = _
      rcases sendCoins s.bank escrow c.sender c.amount with ⟨b, ok⟩
      cases ok with
      | false => rfl
      | true =>
        unfold markRefunded ghost
        simp only [set_ghost _ _ h]

theorem refundPlain_ghost (g : AMap Id Contract) (s : State) {id : Id} (c : Contract) (h : id ∉ AMap.keys g) :
    refundPlain (ghost g s) id c = ghost g (refundPlain s id c) := by
  unfold refundPlain
  show (match sendCoins s.bank escrow c.sender c.amount with | (b, false) => _ | (b, true) => _) = _
  rcases sendCoins s.bank escrow c.sender c.amount with ⟨b, ok⟩
  cases ok with
  | false => rfl
  | true =>
    unfold markRefunded ghost
    simp only [set_ghost _ _ h]

theorem refundOne_ghost (g : AMap Id Contract) (s : State) {id : Id} (h : id ∉ AMap.keys g) :
    refundOne (ghost g s) id = mapG g (refundOne s id) := by
  unfold refundOne
  show (match AMap.get? (g ++ s.htlcs) id with | none => _ | some c => _) = _
  rw [get?_ghost h]
  cases AMap.get? s.htlcs id with
  | none => rfl
  | some c =>
    simp only
    split
    · split
      · rfl
      · split
        · rfl
        · exact congrArg Except.ok (refundIncoming_ghost g s c _ _ h)
      · split
        · rfl
        · exact congrArg Except.ok (refundOutgoing_ghost g s c _ _ h)
    · exact congrArg Except.ok (refundPlain_ghost g s c h)

theorem processDue_ghost (g : AMap Id Contract) : ∀ (ids : List Id) (s : State) (hh : Nat),
    (∀ id ∈ ids, id ∉ AMap.keys g) → processDue (ghost g s) hh ids = mapG g (processDue s hh ids)
  | [], _, _, _ => rfl
  | id :: r, s, hh, h => by
    unfold processDue
    rw [refundOne_ghost g s (h id (by simp))]
    cases refundOne s id with
    | error e => rfl
    | ok s1 =>
      exact processDue_ghost g r { s1 with queue := dequeue s1.queue (hh, id) } hh (fun x hx => h x (by simp [hx]))

theorem updateLimits_ghost (g : AMap Id Contract) (s : State) : updateLimits (ghost g s) = ghost g (updateLimits s) := by
  unfold updateLimits
  show (if s.params.isEmpty then _ else _) = _
  split <;> rfl

/-- no queue entry names a ghost -/
def QueueClean (g : AMap Id Contract) (s : State) : Prop := ∀ q ∈ s.queue, q.2 ∉ AMap.keys g

theorem stepBeginBlock_ghost (g : AMap Id Contract) (s : State) (h t : Nat) (hq : QueueClean g s) :
    stepBeginBlock (ghost g s) h t = mapG g (stepBeginBlock s h t) := by
  unfold stepBeginBlock
  have hids : ∀ id ∈ dueIds s.queue h, id ∉ AMap.keys g :=
    fun id hid => hq (h, id) ((mem_dueIds s.queue h id).mp hid)
  have := processDue_ghost g (dueIds s.queue h) { s with height := h, time := t } h hids
  show (match processDue (ghost g { s with height := h, time := t }) h (dueIds s.queue h) with
        | .error e => _ | .ok s1 => _) = _
  rw [this]
  cases processDue { s with height := h, time := t } h (dueIds s.queue h) with
  | error e => rfl
  | ok s1 => exact congrArg Except.ok (updateLimits_ghost g s1)

/-! the begin blocker only removes queue entries -/

theorem queue_refundOne {s s1 : State} {id : Id} (h : refundOne s id = .ok s1) : s1.queue = s.queue := by
  unfold refundOne at h
  split at h
  · cases h; rfl
  · split at h
    · split at h
      · cases h; rfl
      · split at h
        · cases h
        · cases h; unfold refundIncoming; split
          · rfl
          · split <;> rfl
      · split at h
        · cases h
        · cases h; unfold refundOutgoing; split
          · rfl
          · split
            · rfl
            · split <;> rfl
    · cases h; unfold refundPlain; split <;> rfl

theorem queue_processDue : ∀ (ids : List Id) {s s1 : State} {hh : Nat}, processDue s hh ids = .ok s1 →
    ∀ q ∈ s1.queue, q ∈ s.queue
  | [], s, s1, _, h => by simp [processDue] at h; subst h; exact fun _ hq => hq
  | id :: r, s, s1, hh, h => by
    unfold processDue at h
    split at h
    · cases h
    · rename_i s2 h2
      intro q hq
      have := queue_processDue r (s := { s2 with queue := dequeue s2.queue (hh, id) }) h q hq
      rw [← queue_refundOne h2]
      exact ((mem_dequeue _ _ _).mp this).1

theorem queue_beginBlock {s s' : State} {h t : Nat} (hr : stepBeginBlock s h t = .ok s') : ∀ q ∈ s'.queue, q ∈ s.queue := by
  unfold stepBeginBlock at hr
  split at hr
  · cases hr
  · rename_i s1 h1
    cases hr
    intro q hq
    have hq' : q ∈ s1.queue := by
      unfold updateLimits at hq; split at hq <;> exact hq
    exact queue_processDue _ (s := { s with height := h, time := t }) h1 q hq'

theorem advance_ghost (g : AMap Id Contract) : ∀ (n : Nat) (s : State) (dt : Nat), QueueClean g s →
    advance (ghost g s) n dt = mapG g (advance s n dt)
  | 0, _, _, _ => rfl
  | n + 1, s, dt, hq => by
    unfold advance
    have := stepBeginBlock_ghost g s (s.height + 1) (s.time + dt) hq
    show (match stepBeginBlock (ghost g s) (s.height + 1) (s.time + dt) with | .error e => _ | .ok s1 => _) = _
    rw [this]
    cases hb : stepBeginBlock s (s.height + 1) (s.time + dt) with
    | error e => rfl
    | ok s1 => exact advance_ghost g n s1 dt (fun q hq1 => hq q (queue_beginBlock hb q hq1))

/-! ### every operation -/

/-- **every operation commutes with the ghosts**: the same verdict, and the same resulting state with
the ghosts in front -/
theorem step_ghost (g : AMap Id Contract) (hg : GhostIds g) (s : State) (op : Op) (hop : OpOkG op)
    (hq : QueueClean g s) : step (ghost g s) op = mapG g (step s op) := by
  cases op with
  | create sender to coins lock ts tl transfer =>
    exact stepCreate_ghost g s sender to coins lock ts tl transfer (not_ghost_of_hex hg hop.2)
  | claim sender id secret =>
    show stepClaim (ghost g s) id secret (genLock secret (((AMap.get? (g ++ s.htlcs) id).map (·.timestamp)).getD 0)) = _
    by_cases hid : hexOk64 id = true
    · rw [get?_ghost (not_ghost_of_hex hg hid)]
      exact stepClaim_ghost g hg s id secret _
    · -- a malformed id is refused by `ValidateBasic` whatever the lock argument is
      have hrej : ∀ (x : State) (lk : String), stepClaim x id secret lk = .error (.reject "validate basic") := by
        intro x lk
        unfold stepClaim
        have : (hexOk64 id && hexOk64 secret) = false := by
          simp only [Bool.not_eq_true] at hid; simp [hid]
        simp [this]
      rw [hrej, show step s (.claim sender id secret) = stepClaim s id secret _ from rfl, hrej]
      rfl
  | beginBlock hh t => exact stepBeginBlock_ghost g s hh t hq
  | advance n dt => exact advance_ghost g n s dt hq
  | setParams auth ps =>
    show stepSetParams (ghost g s) auth ps = mapG g (stepSetParams s auth ps)
    unfold stepSetParams
    split
    · rfl
    · split <;> rfl

theorem apply_ghost (g : AMap Id Contract) (hg : GhostIds g) (s : State) (op : Op) (hop : OpOkG op)
    (hq : QueueClean g s) : apply (ghost g s) op = ghost g (apply s op) := by
  unfold apply
  rw [step_ghost g hg s op hop hq]
  cases step s op <;> rfl

end Irismod.Proofs.HtlcGen
