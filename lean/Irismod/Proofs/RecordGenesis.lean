/-
C12 (record): what survives `ExportGenesis` → `InitGenesis`, and what does not.
The records (tx hash, contents, creator) survive as a multiset and are stored in export order
under ids re-derived with fresh counters 0, 1, 2, …; the ids themselves survive only when the
export order happens to coincide with the creation order.
-/
import Irismod.Model.RecordGenesis
import Irismod.Proofs.GenesisList

namespace Irismod.Proofs.RecordGenesis
open Irismod Irismod.Record Irismod.RecordGenesis Irismod.Proofs.GenesisList

/-! ### export: the store's records, reordered -/

theorem insId_perm (e : Id × Rec) : ∀ l, (insId e l).Perm (e :: l)
  | [] => List.Perm.refl _
  | x :: t => by
    unfold insId
    by_cases h : idLt e.1 x.1 = true
    · simp [h]
    · simp only [h]
      exact ((insId_perm e t).cons x).trans (List.Perm.swap e x t)

theorem sortById_perm : ∀ m : AMap Id Rec, (sortById m).Perm m
  | [] => List.Perm.refl _
  | e :: t => by
    show (insId e (sortById t)).Perm (e :: t)
    exact (insId_perm e _).trans ((sortById_perm t).cons e)

/-- the exported record list is a permutation of the stored records -/
theorem export_perm (s : State) : (exportGenesis s).records.Perm (s.recs.map (·.2)) :=
  (sortById_perm s.recs).map _

theorem export_length (s : State) : (exportGenesis s).records.length = s.recs.length := by
  have := (export_perm s).length_eq
  simpa using this

/-! ### import: fresh counters -/

theorem length_newIds : ∀ (rs : List Rec) (c : UInt32), (newIds c rs).length = rs.length
  | [], _ => rfl
  | r :: t, c => by simp [newIds, length_newIds t]

theorem importFrom_counter : ∀ (rs : List Rec) (s : State),
    (importFrom s rs).counter = s.counter + UInt32.ofNat rs.length
  | [], s => by simp [importFrom]
  | r :: t, s => by
    unfold importFrom
    rw [importFrom_counter t]
    show s.counter + 1 + UInt32.ofNat t.length = s.counter + UInt32.ofNat (t.length + 1)
    rw [UInt32.ofNat_add, UInt32.add_assoc, UInt32.add_comm 1]
    rfl

/-- with no clash among the re-derived ids, the imported store is the export list, in order,
keyed by the re-derived ids -/
theorem importFrom_recs : ∀ (rs : List Rec) (s : State), (newIds s.counter rs).Nodup →
    (∀ id ∈ newIds s.counter rs, id ∉ AMap.keys s.recs) →
    (importFrom s rs).recs = s.recs ++ (newIds s.counter rs).zip rs
  | [], s, _, _ => by simp [importFrom, newIds]
  | r :: t, s, hn, hf => by
    unfold newIds at hn hf
    rw [List.nodup_cons] at hn
    unfold importFrom
    have hfr : idOfPre (preimage r s.counter) ∉ AMap.keys s.recs := hf _ (by simp)
    rw [importFrom_recs t (addRecord s (idOfPre (preimage r s.counter)) r) hn.2]
    · show AMap.set s.recs _ r ++ _ = _
      rw [set_of_not_mem _ _ _ hfr]
      simp [newIds, addRecord]
    · intro id hid
      show id ∉ AMap.keys (AMap.set s.recs _ r)
      rw [mem_keys_set, not_or]
      refine ⟨?_, hf id (List.mem_cons_of_mem _ hid)⟩
      intro e; subst e; exact hn.1 hid

theorem importFrom_empty_recs (rs : List Rec) (hnc : (newIds 0 rs).Nodup) :
    (importFrom {} rs).recs = (newIds 0 rs).zip rs := by
  have := importFrom_recs rs {} hnc (by intro id _; simp [AMap.keys])
  simpa using this

theorem importFrom_empty_snd (rs : List Rec) (hnc : (newIds 0 rs).Nodup) :
    (importFrom {} rs).recs.map (fun e => e.2) = rs := by
  rw [importFrom_empty_recs rs hnc, List.map_snd_zip]
  rw [length_newIds]; exact Nat.le_refl _

/-! ### reachable stores hold only records with contents, so their export validates -/

def RecsOk (s : State) : Prop := ∀ e ∈ s.recs, e.2.contents.isEmpty = false

theorem mem_set {K V : Type} [DecidableEq K] (m : AMap K V) (k : K) (v : V) (e : K × V)
    (h : e ∈ AMap.set m k v) : e = (k, v) ∨ e ∈ m := by
  induction m with
  | nil => simp [AMap.set] at h; exact Or.inl h
  | cons hd t ih =>
    obtain ⟨k', v'⟩ := hd
    by_cases hk : k' = k
    · simp only [AMap.set, hk, if_true, List.mem_cons] at h
      rcases h with h | h
      · exact Or.inl h
      · exact Or.inr (List.mem_cons_of_mem _ h)
    · simp only [AMap.set, hk, if_false, List.mem_cons] at h
      rcases h with h | h
      · exact Or.inr (by rw [h]; simp)
      · rcases ih h with h | h
        · exact Or.inl h
        · exact Or.inr (List.mem_cons_of_mem _ h)

theorem recsOk_fold (txHash : String) : ∀ (msgs : List Msg) (s : State), RecsOk s →
    msgs.all msgOk = true → RecsOk (msgs.foldl (createOne txHash) s)
  | [], s, h, _ => h
  | m :: t, s, h, hm => by
    rw [List.all_cons, Bool.and_eq_true] at hm
    apply recsOk_fold txHash t _ ?_ hm.2
    intro e he
    rcases mem_set _ _ _ _ he with rfl | he
    · have := hm.1
      simp only [msgOk, Bool.and_eq_true, Bool.not_eq_true'] at this
      exact this.1.1
    · exact h e he

theorem recsOk_apply (s : State) (op : Op) (h : RecsOk s) : RecsOk (apply s op) := by
  unfold apply
  cases hs : step s op with
  | error e => exact h
  | ok s' =>
    cases op with
    | tx b msgs =>
      simp only [step, stepTx] at hs
      split at hs
      · cases hs
      · split at hs
        · cases hs
        · rename_i h2
          cases hs
          exact recsOk_fold _ msgs s h (by simpa using h2)
    | query id => cases hs; exact h
    | queryAll => cases hs; exact h
    | nextBlock => cases hs; exact h

theorem recsOk_run (ops : List Op) : ∀ s, RecsOk s → RecsOk (run s ops) := by
  induction ops with
  | nil => intro s h; exact h
  | cons op t ih => intro s h; exact ih _ (recsOk_apply s op h)

theorem validateRecords_ok : ∀ rs : List Rec, (∀ r ∈ rs, r.contents.isEmpty = false) → validateRecords rs = .ok ()
  | [], _ => rfl
  | r :: t, h => by
    unfold validateRecords
    rw [h r (by simp)]
    simp only [Bool.false_eq_true, if_false]
    split
    · rfl
    · exact validateRecords_ok t (fun r' hr' => h r' (List.mem_cons_of_mem _ hr'))

theorem validate_export (s : State) (h : RecsOk s) : validateGenesis (exportGenesis s) = .ok () := by
  apply validateRecords_ok
  intro r hr
  have := (export_perm s).mem_iff.mp hr
  obtain ⟨e, he, rfl⟩ := List.mem_map.mp this
  exact h e he

end Irismod.Proofs.RecordGenesis
