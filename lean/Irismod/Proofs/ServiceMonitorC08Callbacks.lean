/-
Monitor soundness for the service module, C08, the CALLBACK clause (`Spec.C08.callbackFails` / `callbacksOk`):
on every model step the response callbacks fired are exactly (up to order) the completed batches of
module-owned contexts with the expected payload, and the state callbacks are exactly the module-owned
contexts paused by the scheduler.

Contents: (A) sorting: `isort le` is canonical on permutations; (B) list / map facts; (C) every operation but
`respond` / `next` / `skip` fires no callback and ends no batch; (D) `respond`; (E) the end block.
-/
import Irismod.Proofs.ServiceMonitorBase

namespace Irismod.Proofs.ServiceMonitor
open Irismod Irismod.Sdk Irismod.Service Irismod.Spec.C08 Irismod.Proofs.Service

/-! ### (A) insertion sort is canonical on permutations -/

namespace Cb

theorem perm_insertBy {α : Type} (le : α → α → Bool) (x : α) : ∀ l : List α, (insertBy le x l).Perm (x :: l)
  | [] => List.Perm.refl _
  | h :: t => by
    unfold insertBy
    split
    · exact List.Perm.refl _
    · exact ((perm_insertBy le x t).cons h).trans (List.Perm.swap x h t)

theorem perm_isort {α : Type} (le : α → α → Bool) : ∀ l : List α, (isort le l).Perm l
  | [] => List.Perm.refl _
  | a :: t => by
    have : isort le (a :: t) = insertBy le a (isort le t) := rfl
    rw [this]
    exact (perm_insertBy le a _).trans ((perm_isort le t).cons a)

theorem pairwise_insertBy {α : Type} {le : α → α → Bool} (tot : ∀ a b, le a b = true ∨ le b a = true)
    (tr : ∀ a b c, le a b = true → le b c = true → le a c = true) (x : α) :
    ∀ l : List α, l.Pairwise (fun a b => le a b = true) → (insertBy le x l).Pairwise (fun a b => le a b = true)
  | [], _ => by simp [insertBy]
  | h :: t, hp => by
    rw [List.pairwise_cons] at hp
    unfold insertBy
    split
    · rename_i hxh
      rw [List.pairwise_cons]
      refine ⟨?_, List.pairwise_cons.mpr hp⟩
      intro b hb
      rcases List.mem_cons.mp hb with hb | hb
      · subst hb; exact hxh
      · exact tr _ _ _ hxh (hp.1 b hb)
    · rename_i hxh
      have hhx : le h x = true := by
        rcases tot x h with h1 | h1
        · exact absurd h1 hxh
        · exact h1
      rw [List.pairwise_cons]
      refine ⟨?_, pairwise_insertBy tot tr x t hp.2⟩
      intro b hb
      rcases (mem_insertBy le x b t).mp hb with hb | hb
      · subst hb; exact hhx
      · exact hp.1 b hb

theorem pairwise_isort {α : Type} {le : α → α → Bool} (tot : ∀ a b, le a b = true ∨ le b a = true)
    (tr : ∀ a b c, le a b = true → le b c = true → le a c = true) :
    ∀ l : List α, (isort le l).Pairwise (fun a b => le a b = true)
  | [] => List.Pairwise.nil
  | a :: t => by
    have : isort le (a :: t) = insertBy le a (isort le t) := rfl
    rw [this]
    exact pairwise_insertBy tot tr a _ (pairwise_isort tot tr t)

end Cb

open Cb in
/-- **sorting lemma**: for a total, transitive comparison that is antisymmetric on the elements present,
`isort` returns the same list on every permutation of its input -/
theorem isort_eq_of_perm {α : Type} {le : α → α → Bool} (tot : ∀ a b, le a b = true ∨ le b a = true)
    (tr : ∀ a b c, le a b = true → le b c = true → le a c = true) {l₁ l₂ : List α} (hp : l₁.Perm l₂)
    (anti : ∀ a b, a ∈ l₁ → b ∈ l₁ → le a b = true → le b a = true → a = b) :
    isort le l₁ = isort le l₂ := by
  apply List.Perm.eq_of_pairwise (le := fun a b => le a b = true)
  · intro a b ha hb h1 h2
    exact anti a b ((mem_isort le a l₁).mp ha) (hp.symm.subset ((mem_isort le b l₂).mp hb)) h1 h2
  · exact pairwise_isort tot tr l₁
  · exact pairwise_isort tot tr l₂
  · exact (perm_isort le l₁).trans (hp.trans (perm_isort le l₂).symm)

namespace Cb

/-- `≤` on strings as used by `sortIds` / `dueIds` -/
theorem strLe_total (a b : String) : decide (a ≤ b) = true ∨ decide (b ≤ a) = true := by
  rcases String.le_total a b with h | h
  · exact Or.inl (decide_eq_true h)
  · exact Or.inr (decide_eq_true h)

theorem strLe_trans (a b c : String) (h1 : decide (a ≤ b) = true) (h2 : decide (b ≤ c) = true) : decide (a ≤ c) = true :=
  decide_eq_true (String.le_trans (of_decide_eq_true h1) (of_decide_eq_true h2))

theorem sortIds_eq_of_perm {l₁ l₂ : List CtxId} (hp : l₁.Perm l₂) : sortIds l₁ = sortIds l₂ := by
  unfold sortIds
  exact isort_eq_of_perm strLe_total strLe_trans hp
    (fun a b _ _ h1 h2 => String.le_antisymm (of_decide_eq_true h1) (of_decide_eq_true h2))

theorem evLe_total (a b : CtxId × Nat × Bool) : evLe a b = true ∨ evLe b a = true := by
  unfold evLe
  by_cases h1 : a.1 < b.1
  · left; simp [h1]
  · by_cases h2 : b.1 < a.1
    · right; simp [h2]
    · have he : a.1 = b.1 := String.le_antisymm h2 h1
      rcases Nat.le_total a.2.1 b.2.1 with h | h
      · left; simp [he, h]
      · right; simp [he, h]

theorem evLe_trans (a b c : CtxId × Nat × Bool) (h1 : evLe a b = true) (h2 : evLe b c = true) : evLe a c = true := by
  unfold evLe at *
  simp only [Bool.or_eq_true, Bool.and_eq_true, decide_eq_true_eq, beq_iff_eq] at *
  rcases h1 with h1 | ⟨h1, h1'⟩
  · rcases h2 with h2 | ⟨h2, _⟩
    · exact Or.inl (String.lt_trans h1 h2)
    · rw [← h2]; exact Or.inl h1
  · rcases h2 with h2 | ⟨h2, h2'⟩
    · rw [h1]; exact Or.inl h2
    · exact Or.inr ⟨h1.trans h2, Nat.le_trans h1' h2'⟩

/-- two events compare both ways only if they have the same context id -/
theorem evLe_antisymm_id {a b : CtxId × Nat × Bool} (h1 : evLe a b = true) (h2 : evLe b a = true) : a.1 = b.1 := by
  unfold evLe at *
  simp only [Bool.or_eq_true, Bool.and_eq_true, decide_eq_true_eq, beq_iff_eq] at *
  rcases h1 with h1 | ⟨h1, _⟩
  · rcases h2 with h2 | ⟨h2, _⟩
    · exact absurd h2 (String.lt_asymm h1)
    · exact h2.symm
  · exact h1

/-! ### (B) list and map facts -/

theorem get?_of_mem_nodup {K V : Type} [DecidableEq K] : ∀ (m : AMap K V), KeysNodup m → ∀ e, e ∈ m →
    AMap.get? m e.1 = some e.2
  | [], _, e, he => by cases he
  | hd :: t, hn, e, he => by
    obtain ⟨k0, v0⟩ := hd
    unfold KeysNodup at hn
    rw [List.map_cons, List.nodup_cons] at hn
    rcases List.mem_cons.mp he with he | he
    · subst he; simp [AMap.get?]
    · have hne : k0 ≠ e.1 := by
        intro h
        apply hn.1
        rw [h]
        exact List.mem_map.mpr ⟨e, he, rfl⟩
      simp only [AMap.get?, hne, if_false]
      exact get?_of_mem_nodup t hn.2 e he

theorem nodup_filterMap_key {α β κ : Type} (g : α → κ) (k : β → κ) (f : α → Option β)
    (hf : ∀ a b, f a = some b → k b = g a) : ∀ l : List α, (l.map g).Nodup → ((l.filterMap f).map k).Nodup
  | [], _ => by simp
  | a :: t, hn => by
    rw [List.map_cons, List.nodup_cons] at hn
    have ih := nodup_filterMap_key g k f hf t hn.2
    rw [List.filterMap_cons]
    cases hfa : f a with
    | none => exact ih
    | some b =>
      simp only [List.map_cons]
      rw [List.nodup_cons]
      refine ⟨?_, ih⟩
      intro hm
      obtain ⟨b', hb', hk⟩ := List.mem_map.mp hm
      obtain ⟨a', ha', hfa'⟩ := List.mem_filterMap.mp hb'
      apply hn.1
      rw [← hf a b hfa, ← hk, hf a' b' hfa']
      exact List.mem_map.mpr ⟨a', ha', rfl⟩

theorem eq_of_key_eq {β κ : Type} (k : β → κ) : ∀ l : List β, (l.map k).Nodup → ∀ a b, a ∈ l → b ∈ l → k a = k b → a = b
  | [], _, a, _, ha, _, _ => by cases ha
  | x :: t, hn, a, b, ha, hb, hk => by
    rw [List.map_cons, List.nodup_cons] at hn
    rcases List.mem_cons.mp ha with ha | ha
    · rcases List.mem_cons.mp hb with hb | hb
      · rw [ha, hb]
      · exfalso; apply hn.1; rw [← ha, hk]; exact List.mem_map.mpr ⟨b, hb, rfl⟩
    · rcases List.mem_cons.mp hb with hb | hb
      · exfalso; apply hn.1; rw [← hb, ← hk]; exact List.mem_map.mpr ⟨a, ha, rfl⟩
      · exact eq_of_key_eq k t hn.2 a b ha hb hk

theorem nodup_of_nodup_map {β κ : Type} (k : β → κ) : ∀ l : List β, (l.map k).Nodup → l.Nodup
  | [], _ => List.nodup_nil
  | x :: t, hn => by
    rw [List.map_cons, List.nodup_cons] at hn
    rw [List.nodup_cons]
    exact ⟨fun hm => hn.1 (List.mem_map.mpr ⟨x, hm, rfl⟩), nodup_of_nodup_map k t hn.2⟩

theorem nodup_eraseDups {α : Type} [BEq α] [LawfulBEq α] : ∀ l : List α, l.eraseDups.Nodup
  | [] => by simp
  | a :: as => by
    rw [List.eraseDups_cons, List.nodup_cons]
    have : (as.filter fun b => !b == a).length < as.length + 1 := Nat.lt_add_one_of_le (List.length_filter_le _ as)
    refine ⟨?_, nodup_eraseDups _⟩
    rw [List.mem_eraseDups, List.mem_filter]
    simp
termination_by l => l.length

/-- the number of distinct elements of `l` is the length of any duplicate-free list with the same elements -/
theorem length_eraseDups_of {α : Type} [BEq α] [LawfulBEq α] (l r : List α) (hr : r.Nodup) (h : ∀ x, x ∈ l ↔ x ∈ r) :
    l.eraseDups.length = r.length := by
  apply Nat.le_antisymm
  · exact List.Nodup.length_le_of_subset (nodup_eraseDups l) (fun x hx => (h x).mp (List.mem_eraseDups.mp hx))
  · exact List.Nodup.length_le_of_subset hr (fun x hx => List.mem_eraseDups.mpr ((h x).mpr hx))

/-- the monitor's output count is the model's, read off a state whose response table has unique keys and contains
exactly the records of both sides -/
theorem outputsOf_eq {pre post big : State} (hn : KeysNodup big.resps)
    (hm : ∀ e, e ∈ pre.resps ++ post.resps ↔ e ∈ big.resps) (id : CtxId) (b : Nat) :
    outputsOf pre post id b = respOutputs big id b := by
  unfold outputsOf respOutputs
  rw [← List.length_map (f := fun e : ReqId × Resp => e.1)]
  apply length_eraseDups_of
  · exact List.Nodup.sublist (List.Sublist.map _ List.filter_sublist) hn
  · intro x
    simp only [List.mem_map, List.mem_filter]
    constructor
    · rintro ⟨e, ⟨he, hp⟩, rfl⟩
      exact ⟨e, ⟨(hm e).mp he, hp⟩, rfl⟩
    · rintro ⟨e, ⟨he, hp⟩, rfl⟩
      exact ⟨e, ⟨(hm e).mpr he, hp⟩, rfl⟩

/-- a `filterMap` over a table with unique keys that answers on one key only -/
theorem filterMap_single {K V β : Type} [DecidableEq K] (f : K × V → Option β) (k : K) :
    ∀ (m : AMap K V), KeysNodup m → (∀ e, e ∈ m → e.1 ≠ k → f e = none) → ∀ v, AMap.get? m k = some v →
    m.filterMap f = (f (k, v)).toList
  | [], _, _, v, hg => by cases hg
  | hd :: t, hn, hf, v, hg => by
    obtain ⟨k0, v0⟩ := hd
    unfold KeysNodup at hn
    rw [List.map_cons, List.nodup_cons] at hn
    by_cases hk : k0 = k
    · subst hk
      simp only [AMap.get?, if_true] at hg
      cases hg
      have ht : t.filterMap f = [] := by
        apply List.filterMap_eq_nil_iff.mpr
        intro e he
        apply hf e (List.mem_cons_of_mem _ he)
        intro h
        apply hn.1
        rw [← h]
        exact List.mem_map.mpr ⟨e, he, rfl⟩
      rw [List.filterMap_cons, ht]
      cases f (k0, v) <;> rfl
    · simp only [AMap.get?, hk, if_false] at hg
      have h0 : f (k0, v0) = none := hf (k0, v0) (List.mem_cons_self ..) hk
      rw [List.filterMap_cons, h0]
      exact filterMap_single f k t hn.2 (fun e he => hf e (List.mem_cons_of_mem _ he)) v hg

/-- a module-owned context read through `getCtx` is a stored one -/
theorem get?_of_module {s : State} {id : CtxId} (h : (getCtx s id).moduleName ≠ "") :
    AMap.get? s.ctxs id = some (getCtx s id) := by
  unfold getCtx at h ⊢
  cases hg : AMap.get? s.ctxs id with
  | none => rw [hg] at h; exact absurd rfl h
  | some c => rfl

theorem batchState_cases (b : BatchState) : b = .running ∨ b = .completed := by cases b <;> simp

/-! ### (C) operations that fire no callback and end no batch -/

/-- every running batch is still running, with the same counter -/
def BatchKept (m m' : AMap CtxId Ctx) : Prop :=
  ∀ id c, AMap.get? m id = some c → c.batchState = .running →
    ∃ c', AMap.get? m' id = some c' ∧ c'.batchState = .running ∧ c'.batchCounter = c.batchCounter

theorem BatchKept.refl (m : AMap CtxId Ctx) : BatchKept m m := fun _ c h hr => ⟨c, h, hr, rfl⟩

theorem BatchKept.set {m : AMap CtxId Ctx} {id : CtxId} {c0 c : Ctx} (hg : AMap.get? m id = some c0)
    (h1 : c.batchState = c0.batchState) (h2 : c.batchCounter = c0.batchCounter) : BatchKept m (AMap.set m id c) := by
  intro id' c' hg' hr
  by_cases hi : id = id'
  · subst hi
    rw [hg] at hg'; cases hg'
    exact ⟨c, AMap.get?_set_self _ _ _, h1.trans hr, h2⟩
  · exact ⟨c', by rw [AMap.get?_set_other _ _ _ _ hi]; exact hg', hr, rfl⟩

theorem BatchKept.fresh {m : AMap CtxId Ctx} {id : CtxId} (hf : AMap.contains m id = false) (c : Ctx) :
    BatchKept m (AMap.set m id c) := by
  intro id' c' hg' hr
  have hn := (contains_false_iff m id).mp hf
  by_cases hi : id = id'
  · subst hi; rw [hn] at hg'; cases hg'
  · exact ⟨c', by rw [AMap.get?_set_other _ _ _ _ hi]; exact hg', hr, rfl⟩

theorem expectedResp_nil {pre post : State} (hnd : KeysNodup pre.ctxs) (hk : BatchKept pre.ctxs post.ctxs) :
    expectedRespEvents pre post = [] := by
  unfold expectedRespEvents
  apply List.filterMap_eq_nil_iff.mpr
  intro e he
  have hg := get?_of_mem_nodup _ hnd e he
  by_cases hc : e.2.moduleName ≠ "" ∧ e.2.batchState = .running
  · obtain ⟨c', h1, h2, h3⟩ := hk e.1 e.2 hg hc.2
    have hb : batchDone post e.1 e.2 = false := by
      unfold batchDone; rw [h1]; simp [h2, h3]
    simp only [hc, hb]
    simp
  · simp only [hc]
    simp

/-- no callback, no batch ended: the clause holds (outside an end block) -/
theorem callbacksOk_calm {pre post : State} (hnd : KeysNodup pre.ctxs) (hcb : post.cb = [])
    (hk : BatchKept pre.ctxs post.ctxs) : callbacksOk pre post false = true := by
  unfold callbacksOk
  rw [expectedResp_nil hnd hk]
  simp [respEvents, stateEvents, hcb, sortIds, isort]

theorem createCtx_calm {s s' : State} {newId svc providers consumer inputOk cap timeout repeated freq total st thr moduleName}
    (hf : AMap.contains s.ctxs newId = false)
    (h : createCtx s newId svc providers consumer inputOk cap timeout repeated freq total st thr moduleName = .ok s') :
    s'.cb = s.cb ∧ BatchKept s.ctxs s'.ctxs := by
  unfold createCtx at h
  split at h
  · cases h
  split at h
  · cases h
  split at h
  · cases h
  split at h
  · cases h
  split at h
  · cases h
  cases h
  unfold createState
  split
  · exact ⟨rfl, BatchKept.fresh hf _⟩
  · exact ⟨rfl, BatchKept.fresh hf _⟩

theorem keeperPause_calm {s s' : State} {id consumer} (h : keeperPause s id consumer = .ok s') :
    s'.cb = s.cb ∧ BatchKept s.ctxs s'.ctxs := by
  unfold keeperPause at h
  split at h
  · cases h
  rename_i rc hg
  split at h
  · cases h
  split at h
  · cases h
  split at h
  · cases h
  cases h
  exact ⟨rfl, BatchKept.set hg rfl rfl⟩

theorem keeperStart_calm {s s' : State} {id consumer} (h : keeperStart s id consumer = .ok s') :
    s'.cb = s.cb ∧ BatchKept s.ctxs s'.ctxs := by
  unfold keeperStart at h
  split at h
  · cases h
  rename_i rc hg
  split at h
  · cases h
  split at h
  · cases h
  split at h
  · cases h
  cases h
  split
  · exact ⟨rfl, BatchKept.set hg rfl rfl⟩
  · exact ⟨rfl, BatchKept.set hg rfl rfl⟩

theorem keeperKill_calm {s s' : State} {id consumer} (h : keeperKill s id consumer = .ok s') :
    s'.cb = s.cb ∧ BatchKept s.ctxs s'.ctxs := by
  unfold keeperKill at h
  split at h
  · cases h
  rename_i rc hg
  split at h
  · cases h
  split at h
  · cases h
  cases h
  exact ⟨rfl, BatchKept.set hg rfl rfl⟩

theorem keeperUpdate_calm {s s' : State} {id providers thr cap timeout freq total consumer}
    (h : keeperUpdate s id providers thr cap timeout freq total consumer = .ok s') :
    s'.cb = s.cb ∧ BatchKept s.ctxs s'.ctxs := by
  unfold keeperUpdate at h
  split at h
  · cases h
  rename_i rc hg
  split at h
  · cases h
  split at h
  · cases h
  split at h
  · cases h
  split at h
  · cases h
  split at h
  · cases h
  split at h
  · cases h
  split at h
  · cases h
  split at h
  · cases h
  cases h
  exact ⟨rfl, BatchKept.set hg rfl rfl⟩

theorem keeperWithdraw_calm {s s' : State} {owner provider} (h : keeperWithdraw s owner provider = .ok s') :
    s'.cb = s.cb ∧ BatchKept s.ctxs s'.ctxs := by
  unfold keeperWithdraw at h
  split at h
  · unfold withdrawProvider at h
    split at h
    · cases h
    split at h
    · cases h
    split at h
    · cases h
    cases h
    exact ⟨rfl, BatchKept.refl _⟩
  · unfold withdrawOwner at h
    split at h
    · cases h
    cases h
    exact ⟨rfl, BatchKept.refl _⟩

/-- every accepted operation other than `respond`, `next`, `skip` fires no callback and ends no batch -/
theorem stepCore_calm {s s' : State} {op : Op} (hf : FreshOp s op) (h : stepCore s op = .ok s')
    (hr : ∀ p r c o k, op ≠ .respond p r c o k) (hb : ∀ dt, op ≠ .next dt) (hk : ∀ n dt, op ≠ .skip n dt) :
    s'.cb = s.cb ∧ BatchKept s.ctxs s'.ctxs := by
  cases op with
  | define sender name schOk =>
    simp only [stepCore, stepDefine] at h
    split at h
    · cases h
    split at h
    · cases h
    split at h
    · cases h
    split at h
    · cases h
    cases h
    exact ⟨rfl, BatchKept.refl _⟩
  | bind owner provider svc dep qos pin optsOk =>
    simp only [stepCore, stepBind] at h
    split at h
    · cases h
    split at h
    · cases h
    obtain ⟨d, pr, bank, _, _, _, rfl⟩ := keeperBind_inv h
    exact ⟨rfl, BatchKept.refl _⟩
  | updateBinding owner provider svc dep qos pin opts =>
    simp only [stepCore, stepUpdateBinding] at h
    split at h
    · cases h
    obtain ⟨b, d, pr, bank, _, _, _, _, rfl⟩ := keeperUpdateBinding_inv h
    exact ⟨rfl, BatchKept.refl _⟩
  | setWithdraw owner addr =>
    simp only [stepCore, stepSetWithdraw] at h
    split at h
    · cases h
    split at h
    · cases h
    cases h
    exact ⟨rfl, BatchKept.refl _⟩
  | enable owner provider svc dep =>
    simp only [stepCore, stepEnable] at h
    split at h
    · cases h
    unfold keeperEnable at h
    split at h
    · cases h
    split at h
    · cases h
    split at h
    · cases h
    split at h
    · cases h
    split at h
    · cases h
    split at h
    · cases h
    cases h
    exact ⟨rfl, BatchKept.refl _⟩
  | disable owner provider svc =>
    simp only [stepCore, stepDisable] at h
    split at h
    · cases h
    split at h
    · cases h
    split at h
    · cases h
    split at h
    · cases h
    cases h
    exact ⟨rfl, BatchKept.refl _⟩
  | refundDeposit owner provider svc =>
    simp only [stepCore, stepRefundDeposit] at h
    split at h
    · cases h
    unfold keeperRefundDeposit at h
    split at h
    · cases h
    split at h
    · cases h
    split at h
    · cases h
    split at h
    · cases h
    split at h
    · cases h
    split at h
    · cases h
    cases h
    exact ⟨rfl, BatchKept.refl _⟩
  | call tx consumer svc providers cap timeout repeated freq total inputOk =>
    simp only [stepCore, stepCall] at h
    split at h
    · cases h
    split at h
    · cases h
    split at h
    · cases h
    exact createCtx_calm hf h
  | mcall tx consumer svc providers cap timeout repeated freq total inputOk paused thr modName =>
    exact createCtx_calm hf h
  | respond provider rid code out resOk => exact absurd rfl (hr _ _ _ _ _)
  | withdraw owner provider =>
    simp only [stepCore, stepWithdraw] at h
    split at h
    · cases h
    split at h
    · cases h
    exact keeperWithdraw_calm h
  | withdrawK owner provider => exact keeperWithdraw_calm h
  | pause consumer id => exact keeperPause_calm (stepPause_inv h)
  | start consumer id => exact keeperStart_calm (stepStart_inv h)
  | kill consumer id => exact keeperKill_calm (stepKill_inv h)
  | updateCtx consumer id providers cap timeout freq total => exact keeperUpdate_calm (stepUpdateCtx_inv h)
  | mpause consumer id => exact keeperPause_calm h
  | mstart consumer id => exact keeperStart_calm h
  | mkill consumer id => exact keeperKill_calm h
  | mupdate consumer id providers thr cap timeout freq total => exact keeperUpdate_calm h
  | setRate d r =>
    simp only [stepCore] at h
    cases h
    exact ⟨rfl, BatchKept.refl _⟩
  | next dt => exact absurd rfl (hb _)
  | skip n dt => exact absurd rfl (hk _ _)

/-! ### (D) `respond` -/

theorem mem_set_of_ne {K V : Type} [DecidableEq K] : ∀ (m : AMap K V) (k : K) (v : V) (e : K × V), e ∈ m → e.1 ≠ k →
    e ∈ AMap.set m k v
  | [], _, _, _, h, _ => by cases h
  | (k0, v0) :: t, k, v, e, h, hne => by
    simp only [AMap.set]
    split
    · rename_i hk
      rcases List.mem_cons.mp h with h | h
      · subst h; exact absurd hk hne
      · exact List.mem_cons_of_mem _ h
    · rcases List.mem_cons.mp h with h | h
      · subst h; exact List.mem_cons_self ..
      · exact List.mem_cons_of_mem _ (mem_set_of_ne t k v e h hne)

/-- what completing the batch on the last response writes -/
theorem completing_fields (t : State) (rc : Ctx) (id : CtxId) :
    (storeCtx (completeBatch t (countedCtx rc) id) id).ctxs
      = AMap.set t.ctxs id { countedCtx rc with batchState := .completed } ∧
    (storeCtx (completeBatch t (countedCtx rc) id) id).resps = t.resps ∧
    (storeCtx (completeBatch t (countedCtx rc) id) id).cb
      = t.cb ++ (if rc.moduleName ≠ "" then
          [CbEvent.resp id (getCtx t id).batchCounter (respOutputs t id (getCtx t id).batchCounter)
            (decide (respOutputs t id (getCtx t id).batchCounter < (getCtx t id).batchRespThreshold))] else []) := by
  unfold storeCtx completeBatch callback countedCtx
  by_cases hm : rc.moduleName ≠ ""
  · rw [if_pos hm, if_pos hm]
    exact ⟨rfl, rfl, rfl⟩
  · rw [if_neg hm, if_neg hm]
    exact ⟨rfl, rfl, by simp [setCtx]⟩

theorem respond_callbacksOk {s s' : State} {provider : Addr} {rid : ReqId} {hasOut : Bool} (hw : WF s) (hri : RespInv s)
    (hnd : KeysNodup s.ctxs) (hcb : s.cb = []) (h : keeperRespond s provider rid hasOut = .ok s') :
    callbacksOk s s' false = true := by
  unfold keeperRespond at h
  split at h
  · cases h
  rename_i rq rc hgr
  split at h
  · cases h
  split at h
  · cases h
  rename_i hact
  split at h
  · cases h
  rename_i s1 hfee
  cases h
  obtain ⟨hq, hc⟩ := getRequest_some hgr
  obtain ⟨⟨_, _, _, _, _, _, e7⟩, er, _, ec⟩ := addEarnedFee_sched hfee
  have hra : rid ∈ s.active := by simpa using hact
  obtain ⟨rq', c0, a1, a2, _, a4, a5, _, _⟩ := hw.act rid hra
  rw [hq] at a1; cases a1
  rw [a2, a4] at hc; cases hc
  have htc : (recordResponse s1 rid provider rq rc hasOut).ctxs = s.ctxs := e7
  have htcb : (recordResponse s1 rid provider rq rc hasOut).cb = [] := ec.trans hcb
  have htr : (recordResponse s1 rid provider rq rc hasOut).resps = AMap.set s.resps rid
      { provider := provider, consumer := rc.consumer, hasOut := hasOut, ctx := rq.ctx, batch := rq.batch } := by
    show AMap.set s1.resps rid _ = _
    rw [er]
  have hg : AMap.get? s.ctxs rq.ctx = some rc := by rw [a2]; exact a4
  have hgt : getCtx (recordResponse s1 rid provider rq rc hasOut) rq.ctx = rc :=
    getCtx_of_get? (by rw [htc]; exact hg)
  unfold countResponse
  rw [hgt]
  split
  · -- the last response of the batch
    obtain ⟨f1, f2, f3⟩ := completing_fields (recordResponse s1 rid provider rq rc hasOut) rc rq.ctx
    generalize storeCtx (completeBatch (recordResponse s1 rid provider rq rc hasOut) (countedCtx rc) rq.ctx) rq.ctx = s' at *
    rw [hgt, htcb, List.nil_append] at f3
    rw [htc] at f1
    rw [htr] at f2
    have hro : respOutputs (recordResponse s1 rid provider rq rc hasOut) rq.ctx rc.batchCounter
        = respOutputs s' rq.ctx rc.batchCounter := by
      unfold respOutputs; rw [htr, f2]
    rw [hro] at f3
    have hnd' : KeysNodup s'.resps := by rw [f2]; exact hri.nd.set _ _
    have hout : outputsOf s s' rq.ctx rc.batchCounter = respOutputs s' rq.ctx rc.batchCounter := by
      apply outputsOf_eq hnd'
      intro e
      rw [List.mem_append]
      constructor
      · rintro (he | he)
        · rw [f2]
          apply mem_set_of_ne _ _ _ _ he
          intro hk
          exact (hri.past e he).1 (hk ▸ hra)
        · exact he
      · exact Or.inr
    have hdone : batchDone s' rq.ctx rc = true := by
      unfold batchDone; rw [f1, AMap.get?_set_self]; simp
    have hexp : expectedRespEvents s s' = (if rc.moduleName ≠ "" then
        [(rq.ctx, respOutputs s' rq.ctx rc.batchCounter,
          decide (respOutputs s' rq.ctx rc.batchCounter < rc.batchRespThreshold))] else []) := by
      unfold expectedRespEvents
      rw [filterMap_single _ rq.ctx s.ctxs hnd ?_ rc hg]
      · by_cases hm : rc.moduleName ≠ ""
        · simp [hm, a5, hdone, hout]
        · simp [hm]
      · intro e he hne
        have hge := get?_of_mem_nodup _ hnd e he
        by_cases hcnd : e.2.moduleName ≠ "" ∧ e.2.batchState = .running
        · have hb : batchDone s' e.1 e.2 = false := by
            unfold batchDone
            rw [f1, AMap.get?_set_other _ _ _ _ (Ne.symm hne), hge]
            simp [hcnd.2]
          simp only [hcnd, hb]
          simp
        · simp only [hcnd]
          simp
    unfold callbacksOk
    rw [hexp]
    by_cases hm : rc.moduleName ≠ ""
    · simp [respEvents, stateEvents, f3, hm, sortIds, isort]
    · simp [respEvents, stateEvents, f3, hm, sortIds, isort]
  · have hcb' : (setCtx (recordResponse s1 rid provider rq rc hasOut) rq.ctx (countedCtx rc)).cb = [] := htcb
    apply callbacksOk_calm hnd hcb'
    show BatchKept s.ctxs (AMap.set (recordResponse s1 rid provider rq rc hasOut).ctxs rq.ctx (countedCtx rc))
    rw [htc]
    exact BatchKept.set hg rfl rfl

end Cb

open Cb in
/-- **callback clause, every operation but the end block**: a rejected operation and every accepted operation other
than `respond` fires no callback and ends no batch; an accepted `respond` fires the response callback exactly when it
completes the batch of a module-owned context, with the number of outputs recorded after the response -/
theorem c08_callbacks_msg_sound {s : State} {op : Op} (hs : SInv s) (ho : OpOK s op) (hnd : KeysNodup s.ctxs)
    (hn : ∀ dt, op ≠ .next dt) :
    callbackFails s (apply s op) (isNextOp op (accepted s op)) = [] := by
  have hnx : isNextOp op (accepted s op) = false := by
    cases op <;> first | rfl | exact absurd rfl (hn _)
  rw [hnx]
  unfold callbackFails
  suffices h : callbacksOk s (apply s op) false = true by rw [h]; rfl
  cases hst : step s op with
  | error e =>
    rw [(accepted_err hst).2]
    exact callbacksOk_calm hnd rfl (BatchKept.refl _)
  | ok s' =>
    rw [(accepted_ok hst).2]
    unfold step at hst
    have hk : ∀ n dt, op ≠ .skip n dt := by
      intro n dt e; subst e; exact ho.notSkip
    by_cases hr : ∃ p r c o k, op = .respond p r c o k
    · obtain ⟨p, r, c, o, k, rfl⟩ := hr
      simp only [stepCore, stepRespond] at hst
      split at hst
      · cases hst
      split at hst
      · cases hst
      have hw0 : WF { s with cb := [] } := hs.wf.of_same ⟨rfl, rfl, rfl, rfl, rfl, rfl, rfl⟩
      have hr0 : RespInv { s with cb := [] } := ⟨hs.resp.nd, hs.resp.past⟩
      exact respond_callbacksOk (s := { s with cb := [] }) hw0 hr0 hnd rfl hst
    · have hr' : ∀ p r c o k, op ≠ .respond p r c o k := fun p r c o k e => hr ⟨p, r, c, o, k, e⟩
      obtain ⟨h1, h2⟩ := stepCore_calm ho.fresh hst hr' hn hk
      exact callbacksOk_calm hnd h1 h2

namespace Cb

/-! ### (E) the end block: one expired-batch entry -/

/-- contexts, responses and the callback log are untouched -/
def Keep (s s' : State) : Prop := s'.ctxs = s.ctxs ∧ s'.resps = s.resps ∧ s'.cb = s.cb

theorem Keep.refl (s : State) : Keep s s := ⟨rfl, rfl, rfl⟩

theorem Keep.trans {a b c : State} (h1 : Keep a b) (h2 : Keep b c) : Keep a c :=
  ⟨h2.1.trans h1.1, h2.2.1.trans h1.2.1, h2.2.2.trans h1.2.2⟩

theorem slash_keep (s : State) (svc : String) (p : Addr) : Keep s (slash s svc p) := by
  unfold slash
  split
  · exact Keep.refl s
  · split
    · exact Keep.refl s
    · split
      · exact Keep.refl s
      · exact ⟨rfl, rfl, rfl⟩

theorem refund_keep (s : State) (c : Addr) (d : Denom) (n : Nat) : Keep s (refund s c d n) := by
  unfold refund
  split
  · exact Keep.refl s
  · exact ⟨rfl, rfl, rfl⟩

theorem expireReq_keep (s : State) (rid : ReqId) : Keep s (expireReq s rid) := by
  unfold expireReq
  split
  · exact ⟨rfl, rfl, rfl⟩
  · rename_i rq rc _
    exact ((slash_keep s rc.svc rq.provider).trans (refund_keep _ rc.consumer rq.feeDenom rq.feeAmt)).trans ⟨rfl, rfl, rfl⟩

theorem foldl_expireReq_keep : ∀ (l : List ReqId) (s : State), Keep s (l.foldl expireReq s)
  | [], s => Keep.refl s
  | r :: rest, s => (expireReq_keep s r).trans (foldl_expireReq_keep rest (expireReq s r))

/-- the response callback the expired-batch handler fires for `id` in state `t` (as the monitor reads it) -/
def expEvent (t : State) (id : CtxId) : Option (CtxId × Nat × Bool) :=
  if (getCtx t id).batchState ≠ .completed ∧ (getCtx t id).moduleName ≠ "" then
    some (id, respOutputs t id (getCtx t id).batchCounter,
      decide (respOutputs t id (getCtx t id).batchCounter < (getCtx t id).batchRespThreshold))
  else none

def respOf : CbEvent → Option (CtxId × Nat × Bool)
  | .resp id _ n er => some (id, n, er)
  | .state _ _ => none

def stateOf : CbEvent → Option CtxId
  | .resp _ _ _ _ => none
  | .state id _ => some id

theorem respEvents_eq (t : State) : respEvents t = t.cb.filterMap respOf := by
  unfold respEvents
  congr

theorem stateEvents_eq (t : State) : stateEvents t = t.cb.filterMap stateOf := by
  unfold stateEvents
  congr

theorem respEvents_append (t : State) (l : List CbEvent) (t' : State) (h : t'.cb = t.cb ++ l) :
    respEvents t' = respEvents t ++ l.filterMap respOf := by
  rw [respEvents_eq, respEvents_eq, h, List.filterMap_append]

theorem stateEvents_append (t : State) (l : List CbEvent) (t' : State) (h : t'.cb = t.cb ++ l) :
    stateEvents t' = stateEvents t ++ l.filterMap stateOf := by
  rw [stateEvents_eq, stateEvents_eq, h, List.filterMap_append]

theorem events_same (t t' : State) (h : t'.cb = t.cb) : respEvents t' = respEvents t ∧ stateEvents t' = stateEvents t := by
  rw [respEvents_eq, respEvents_eq, stateEvents_eq, stateEvents_eq, h]
  exact ⟨rfl, rfl⟩

/-- first half of the expired-batch handler -/
theorem expirePhase_out (t : State) (id : CtxId) :
    (expirePhase t id).1.ctxs = t.ctxs ∧ (expirePhase t id).1.resps = t.resps ∧
    (expirePhase t id).1.newQ = t.newQ ∧
    respEvents (expirePhase t id).1 = respEvents t ++ (expEvent t id).toList ∧
    stateEvents (expirePhase t id).1 = stateEvents t ∧
    (expirePhase t id).2.batchState = .completed ∧
    (expirePhase t id).2.batchCounter = (getCtx t id).batchCounter ∧
    (expirePhase t id).2.state = (getCtx t id).state ∧
    (expirePhase t id).2.moduleName = (getCtx t id).moduleName ∧
    (expirePhase t id).2.repeated = (getCtx t id).repeated := by
  have hq := (expirePhase_frame t id).1.1
  unfold expirePhase at hq ⊢
  by_cases hc : (getCtx t id).batchState ≠ .completed
  · rw [if_pos hc] at hq ⊢
    obtain ⟨k1, k2, k3⟩ := foldl_expireReq_keep (activeOf t id (getCtx t id).batchCounter) t
    generalize (activeOf t id (getCtx t id).batchCounter).foldl expireReq t = u at *
    have hgu : getCtx u id = getCtx t id := by unfold getCtx; rw [k1]
    have hru : ∀ b, respOutputs u id b = respOutputs t id b := by intro b; unfold respOutputs; rw [k2]
    unfold completeBatch at hq ⊢
    by_cases hm : (getCtx t id).moduleName ≠ ""
    · rw [if_pos hm] at hq ⊢
      have hcb : (callback u id).cb = t.cb ++ [CbEvent.resp id (getCtx t id).batchCounter
          (respOutputs t id (getCtx t id).batchCounter)
          (decide (respOutputs t id (getCtx t id).batchCounter < (getCtx t id).batchRespThreshold))] := by
        unfold callback
        simp only [hgu, hru, k3]
      refine ⟨k1, k2, hq, ?_, ?_, rfl, rfl, rfl, rfl, rfl⟩
      · rw [respEvents_append t _ _ hcb]
        simp [expEvent, hc, hm, respOf]
      · rw [stateEvents_append t _ _ hcb]
        simp [stateOf]
    · rw [if_neg hm] at hq ⊢
      refine ⟨k1, k2, hq, ?_, (events_same t u k3).2, rfl, rfl, rfl, rfl, rfl⟩
      rw [(events_same t u k3).1]; simp [expEvent, hm]
  · rw [if_neg hc]
    have hcc : (getCtx t id).batchState = .completed := Decidable.of_not_not hc
    refine ⟨rfl, rfl, rfl, ?_, rfl, hcc, rfl, rfl, rfl, rfl⟩
    simp [expEvent, hcc]

theorem settleCtx_out (u : State) (id : CtxId) (rc : Ctx) :
    (settleCtx u id rc).resps = u.resps ∧ (settleCtx u id rc).cb = u.cb ∧ (settleCtx u id rc).reqs = u.reqs ∧
    ((settleCtx u id rc).ctxs = u.ctxs ∨ (settleCtx u id rc).ctxs = AMap.erase u.ctxs id) ∧
    (rc.state = .running → rc.repeated = false → (settleCtx u id rc).ctxs = AMap.erase u.ctxs id) ∧
    (∀ e, e ∈ (settleCtx u id rc).newQ → e ∈ u.newQ ∨ e.2 = id) := by
  unfold settleCtx
  split
  · rename_i h1
    exact ⟨rfl, rfl, rfl, Or.inr rfl, fun _ _ => rfl, fun e he => Or.inl he⟩
  · split
    · rename_i h1 h2
      split
      · rename_i h3
        refine ⟨rfl, rfl, rfl, Or.inl rfl, ?_, ?_⟩
        · intro _ hr; rw [hr] at h3; exact absurd h3.1 (by simp)
        · intro e he
          simp only [addNew] at he
          rcases (mem_qInsert _ _ _).mp he with he | he
          · exact Or.inl he
          · rw [he]; exact Or.inr rfl
      · exact ⟨rfl, rfl, rfl, Or.inr rfl, fun _ _ => rfl, fun e he => Or.inl he⟩
    · rename_i h1 h2
      exact ⟨rfl, rfl, rfl, Or.inl rfl, fun hr _ => absurd hr h2, fun e he => Or.inl he⟩

theorem getCtx_none {t : State} {id : CtxId} (h : AMap.get? t.ctxs id = none) : getCtx t id = {} := by
  unfold getCtx; rw [h]; rfl

/-- the expired-batch handler for one queue entry, as the callback clause sees it -/
theorem expireCtx_out (t : State) (id : CtxId) :
    respEvents (expireCtx t id) = respEvents t ++ (expEvent t id).toList ∧
    stateEvents (expireCtx t id) = stateEvents t ∧
    (∀ id', id' ≠ id → AMap.get? (expireCtx t id).ctxs id' = AMap.get? t.ctxs id') ∧
    (∀ c', AMap.get? (expireCtx t id).ctxs id = some c' → ∃ c, AMap.get? t.ctxs id = some c ∧
      c'.batchState = .completed ∧ c'.batchCounter = c.batchCounter ∧ c'.state = c.state ∧
      c'.moduleName = c.moduleName) ∧
    (∃ q : ReqId × Resp → Bool, (expireCtx t id).resps = t.resps.filter q ∧ ∀ e, q e = false → e.1.ctx = id) ∧
    (∀ e, e ∈ (expireCtx t id).newQ → e ∈ t.newQ ∨ e.2 = id) := by
  obtain ⟨p1, p2, p3, p4, p5, p6, p7, p8, p9, p10⟩ := expirePhase_out t id
  obtain ⟨s1, s2, _, s4, s5, s6⟩ :=
    settleCtx_out (setCtx (delExp (expirePhase t id).1 id (expirePhase t id).1.height) id (expirePhase t id).2) id
      (expirePhase t id).2
  have hcb : (expireCtx t id).cb = (expirePhase t id).1.cb := s2
  have hctx : (expireCtx t id).ctxs = AMap.set t.ctxs id (expirePhase t id).2 ∨
      (expireCtx t id).ctxs = AMap.erase (AMap.set t.ctxs id (expirePhase t id).2) id := by
    rw [← p1]; exact s4
  refine ⟨?_, ?_, ?_, ?_, ?_, ?_⟩
  · rw [(events_same _ _ hcb).1]; exact p4
  · rw [(events_same _ _ hcb).2]; exact p5
  · intro id' hne
    rcases hctx with h | h
    · rw [h, AMap.get?_set_other _ _ _ _ (Ne.symm hne)]
    · rw [h, get?_erase_other _ _ _ (Ne.symm hne), AMap.get?_set_other _ _ _ _ (Ne.symm hne)]
  · intro c' hc'
    cases hg : AMap.get? t.ctxs id with
    | none =>
      exfalso
      have hd := getCtx_none hg
      have h1 : (expirePhase t id).2.state = .running := by rw [p8, hd]
      have h2 : (expirePhase t id).2.repeated = false := by rw [p10, hd]
      have h3 : (expireCtx t id).ctxs = AMap.erase (AMap.set t.ctxs id (expirePhase t id).2) id := by
        rw [← p1]; exact s5 h1 h2
      rw [h3, get?_erase_self] at hc'
      cases hc'
    | some c =>
      have hd := getCtx_of_get? hg
      rcases hctx with h | h
      · rw [h, AMap.get?_set_self] at hc'
        cases hc'
        exact ⟨c, rfl, p6, by rw [p7, hd], by rw [p8, hd], by rw [p9, hd]⟩
      · rw [h, get?_erase_self] at hc'
        cases hc'
  · refine ⟨fun e => !(e.1.inBatch id (expirePhase t id).2.batchCounter && AMap.contains
      (settleCtx (setCtx (delExp (expirePhase t id).1 id (expirePhase t id).1.height) id (expirePhase t id).2) id
        (expirePhase t id).2).reqs e.1), ?_, ?_⟩
    · show List.filter _ (settleCtx _ id _).resps = _
      rw [s1]
      show List.filter _ (expirePhase t id).1.resps = _
      rw [p2]
    · intro e he
      simp only [Bool.not_eq_false', Bool.and_eq_true] at he
      have := he.1
      simp only [ReqId.inBatch, Bool.and_eq_true, decide_eq_true_eq] at this
      exact this.1
  · intro e he
    rcases s6 e he with h | h
    · left
      have : (setCtx (delExp (expirePhase t id).1 id (expirePhase t id).1.height) id (expirePhase t id).2).newQ
          = (expirePhase t id).1.newQ := rfl
      rw [this, p3] at h
      exact h
    · exact Or.inr h

/-! ### the expired-batch phase -/

/-- contexts only disappear; those that stay keep their batch counter, state and owner -/
def CFrame (t t' : State) : Prop :=
  ∀ id c', AMap.get? t'.ctxs id = some c' → ∃ c, AMap.get? t.ctxs id = some c ∧
    c'.batchCounter = c.batchCounter ∧ c'.state = c.state ∧ c'.moduleName = c.moduleName

theorem CFrame.refl (t : State) : CFrame t t := fun _ c' h => ⟨c', h, rfl, rfl, rfl⟩

theorem CFrame.trans {a b c : State} (h1 : CFrame a b) (h2 : CFrame b c) : CFrame a c := by
  intro id c' hc
  obtain ⟨c1, g1, e1, e2, e3⟩ := h2 id c' hc
  obtain ⟨c0, g0, f1, f2, f3⟩ := h1 id c1 g1
  exact ⟨c0, g0, e1.trans f1, e2.trans f2, e3.trans f3⟩

theorem expireCtx_cframe (t : State) (id : CtxId) : CFrame t (expireCtx t id) := by
  obtain ⟨_, _, x2, x3, _, _⟩ := expireCtx_out t id
  intro id' c' hc
  by_cases hi : id' = id
  · subst hi
    obtain ⟨c, g, _, e1, e2, e3⟩ := x3 c' hc
    exact ⟨c, g, e1, e2, e3⟩
  · rw [x2 id' hi] at hc
    exact ⟨c', hc, rfl, rfl, rfl⟩

theorem getCtx_congr {t t' : State} {id : CtxId} (h : AMap.get? t'.ctxs id = AMap.get? t.ctxs id) :
    getCtx t' id = getCtx t id := by
  unfold getCtx; rw [h]

theorem respOutputs_expire (t : State) (id' id : CtxId) (b : Nat) (h : id ≠ id') :
    respOutputs (expireCtx t id') id b = respOutputs t id b := by
  obtain ⟨q, hq, hq'⟩ := (expireCtx_out t id').2.2.2.2.1
  unfold respOutputs
  rw [hq, List.filter_filter]
  congr 1
  apply List.filter_congr
  intro e _
  cases hqe : q e with
  | true => simp
  | false =>
    have := hq' e hqe
    simp [ReqId.inBatch, this, Ne.symm h]

theorem expEvent_frame (t : State) (id' id : CtxId) (h : id ≠ id') : expEvent (expireCtx t id') id = expEvent t id := by
  have hg := getCtx_congr ((expireCtx_out t id').2.2.1 id h)
  unfold expEvent
  rw [hg, respOutputs_expire t id' id _ h]

theorem filterMap_congr' {α β : Type} {f g : α → Option β} : ∀ (l : List α), (∀ x, x ∈ l → f x = g x) →
    l.filterMap f = l.filterMap g
  | [], _ => rfl
  | a :: t, h => by
    rw [List.filterMap_cons, List.filterMap_cons, h a (List.mem_cons_self ..),
      filterMap_congr' t (fun x hx => h x (List.mem_cons_of_mem _ hx))]

theorem foldl_expireCtx_out : ∀ (l : List CtxId) (t : State), l.Nodup →
    respEvents (l.foldl expireCtx t) = respEvents t ++ l.filterMap (expEvent t) ∧
    stateEvents (l.foldl expireCtx t) = stateEvents t ∧
    (∀ id, id ∉ l → AMap.get? (l.foldl expireCtx t).ctxs id = AMap.get? t.ctxs id) ∧
    (∀ id, id ∈ l → ∀ c', AMap.get? (l.foldl expireCtx t).ctxs id = some c' → c'.batchState = .completed) ∧
    CFrame t (l.foldl expireCtx t) ∧
    (∀ e, e ∈ (l.foldl expireCtx t).resps → e ∈ t.resps) ∧
    (∀ e, e ∈ (l.foldl expireCtx t).newQ → e ∈ t.newQ ∨ e.2 ∈ l)
  | [], t, _ =>
    ⟨by simp, rfl, fun _ _ => rfl, fun _ h => (by cases h), CFrame.refl t, fun _ h => h, fun _ h => Or.inl h⟩
  | a :: rest, t, hn => by
    rw [List.nodup_cons] at hn
    obtain ⟨i1, i2, i3, i4, i5, i6, i7⟩ := foldl_expireCtx_out rest (expireCtx t a) hn.2
    obtain ⟨x0, x1, x2, x3, ⟨q, x4, _⟩, x5⟩ := expireCtx_out t a
    simp only [List.foldl]
    refine ⟨?_, i2.trans x1, ?_, ?_, (expireCtx_cframe t a).trans i5, ?_, ?_⟩
    · rw [i1, x0, List.append_assoc]
      congr 1
      have hc : rest.filterMap (expEvent (expireCtx t a)) = rest.filterMap (expEvent t) := by
        apply filterMap_congr'
        intro x hx
        exact expEvent_frame t a x (fun e => hn.1 (e ▸ hx))
      rw [hc, List.filterMap_cons]
      cases expEvent t a <;> rfl
    · intro id hid
      rw [List.mem_cons, not_or] at hid
      rw [i3 id hid.2, x2 id hid.1]
    · intro id hid c' hc'
      rcases List.mem_cons.mp hid with h | h
      · subst h
        rw [i3 id hn.1] at hc'
        obtain ⟨_, _, hcomp, _⟩ := x3 c' hc'
        exact hcomp
      · exact i4 id h c' hc'
    · intro e he
      have := i6 e he
      rw [x4] at this
      exact (List.mem_filter.mp this).1
    · intro e he
      rcases i7 e he with h | h
      · rcases x5 e h with h' | h'
        · exact Or.inl h'
        · exact Or.inr (by rw [h']; exact List.mem_cons_self ..)
      · exact Or.inr (List.mem_cons_of_mem _ h)

/-! ### the new-batch phase -/

theorem mkRequests_keep (id : CtxId) (b : Nat) (svc : String) (cons : Addr) (to : Int) :
    ∀ (ps : List Addr) (i : Nat) (s : State), Keep s (mkRequests s id b svc cons to ps i)
  | [], _, s => Keep.refl s
  | p :: rest, i, s => by
    simp only [mkRequests]
    exact Keep.trans (b := addRequest s (reqIdOf id b s.height i) (mkReq s id b svc cons to p)) ⟨rfl, rfl, rfl⟩
      (mkRequests_keep id b svc cons to rest (i + 1) _)

theorem onPaused_out (t : State) (a : CtxId) (c : Ctx) (cause : String) :
    (onPaused t a c cause).ctxs = AMap.set t.ctxs a { c with batchState := .completed, state := .paused } ∧
    (onPaused t a c cause).resps = t.resps ∧
    (onPaused t a c cause).cb = t.cb ++ (if c.moduleName ≠ "" then [CbEvent.state a cause] else []) := by
  unfold onPaused
  by_cases hm : c.moduleName ≠ ""
  · rw [if_pos hm, if_pos hm]; exact ⟨rfl, rfl, rfl⟩
  · rw [if_neg hm, if_neg hm]; exact ⟨rfl, rfl, by simp [setCtx]⟩

/-- the new-batch handler for one queue entry: nothing (context not running), the automatic pause, or a new batch -/
theorem newBatch_cases (t : State) (a : CtxId) :
    (newBatch t a).resps = t.resps ∧
    (((getCtx t a).state ≠ .running ∧ (newBatch t a).ctxs = t.ctxs ∧ (newBatch t a).cb = t.cb) ∨
     ((getCtx t a).state = .running ∧ ∃ cause,
        (newBatch t a).ctxs = AMap.set t.ctxs a { getCtx t a with batchState := .completed, state := .paused } ∧
        (newBatch t a).cb = t.cb ++ (if (getCtx t a).moduleName ≠ "" then [CbEvent.state a cause] else [])) ∨
     ((getCtx t a).state = .running ∧ ∃ n,
        (newBatch t a).ctxs = AMap.set t.ctxs a (startedCtx (getCtx t a) n) ∧ (newBatch t a).cb = t.cb)) := by
  unfold newBatch
  split
  · rename_i hr
    split
    · obtain ⟨o1, o2, o3⟩ := onPaused_out t a (getCtx t a) "no exchange rate"
      exact ⟨o2, Or.inr (Or.inl ⟨hr, _, o1, o3⟩)⟩
    · rename_i provs total _
      split
      · unfold chargeAndStart
        split
        · refine ⟨?_, Or.inr (Or.inr ⟨hr, provs.length, ?_, ?_⟩)⟩
          · exact (mkRequests_keep a _ _ _ _ provs 0 _).2.1
          · simp only [delNew, addExp, initiateRequests, setCtx]
            rw [(mkRequests_keep a _ _ _ _ provs 0 _).1]
            rfl
          · exact (mkRequests_keep a _ _ _ _ provs 0 _).2.2
        · obtain ⟨o1, o2, o3⟩ := onPaused_out t a (getCtx t a) "insufficient balances"
          exact ⟨o2, Or.inr (Or.inl ⟨hr, _, o1, o3⟩)⟩
      · exact ⟨rfl, Or.inr (Or.inr ⟨hr, 0, rfl, rfl⟩)⟩
  · rename_i hr
    exact ⟨rfl, Or.inl ⟨hr, rfl, rfl⟩⟩

/-- the state callback the new-batch handler fires for `a`: a module-owned running context that is paused afterwards -/
def pausedBy (t u : State) (a : CtxId) : Bool :=
  decide ((getCtx t a).moduleName ≠ "" ∧ (getCtx t a).state = .running ∧ (getCtx u a).state = .paused)

/-- what the new-batch handler may do to the context it handles -/
def NbStep (c0 c' : Ctx) : Prop :=
  c'.moduleName = c0.moduleName ∧
  (c' = c0 ∨
   (c'.batchState = .completed ∧ c'.batchCounter = c0.batchCounter ∧ c'.state = .paused ∧ c0.state = .running) ∨
   (c'.batchCounter = c0.batchCounter + 1 ∧ c'.state = c0.state))

theorem getCtx_set_self (t t' : State) (a : CtxId) (c : Ctx) (h : t'.ctxs = AMap.set t.ctxs a c) : getCtx t' a = c := by
  unfold getCtx; rw [h, AMap.get?_set_self]; rfl

theorem newBatch_out (t : State) (a : CtxId) :
    (newBatch t a).resps = t.resps ∧
    respEvents (newBatch t a) = respEvents t ∧
    stateEvents (newBatch t a) = stateEvents t ++ (if pausedBy t (newBatch t a) a then [a] else []) ∧
    (∀ id, id ≠ a → AMap.get? (newBatch t a).ctxs id = AMap.get? t.ctxs id) ∧
    (∀ c0, AMap.get? t.ctxs a = some c0 → ∃ c', AMap.get? (newBatch t a).ctxs a = some c' ∧ NbStep c0 c') := by
  obtain ⟨hres, hc⟩ := newBatch_cases t a
  rcases hc with ⟨hr, h1, h2⟩ | ⟨hr, cause, h1, h2⟩ | ⟨hr, n, h1, h2⟩
  · have hp : pausedBy t (newBatch t a) a = false := by
      unfold pausedBy; simp [hr]
    refine ⟨hres, (events_same _ _ h2).1, ?_, ?_, ?_⟩
    · rw [hp, (events_same _ _ h2).2]; simp
    · intro id _; rw [h1]
    · intro c0 hg; exact ⟨c0, by rw [h1]; exact hg, rfl, Or.inl rfl⟩
  · have hgc := getCtx_set_self t (newBatch t a) a _ h1
    have hp : pausedBy t (newBatch t a) a = decide ((getCtx t a).moduleName ≠ "") := by
      unfold pausedBy; rw [hgc]; simp [hr]
    refine ⟨hres, ?_, ?_, ?_, ?_⟩
    · rw [respEvents_append t _ _ h2]
      by_cases hm : (getCtx t a).moduleName ≠ ""
      · rw [if_pos hm]; simp [respOf]
      · rw [if_neg hm]; simp
    · rw [stateEvents_append t _ _ h2, hp]
      by_cases hm : (getCtx t a).moduleName ≠ ""
      · rw [if_pos hm]; simp [stateOf, hm]
      · rw [if_neg hm]; simp [hm]
    · intro id hne; rw [h1, AMap.get?_set_other _ _ _ _ (Ne.symm hne)]
    · intro c0 hg
      have hd := getCtx_of_get? hg
      refine ⟨_, by rw [h1, AMap.get?_set_self], ?_⟩
      rw [hd] at hr ⊢
      exact ⟨rfl, Or.inr (Or.inl ⟨rfl, rfl, rfl, hr⟩)⟩
  · have hgc := getCtx_set_self t (newBatch t a) a _ h1
    have hp : pausedBy t (newBatch t a) a = false := by
      unfold pausedBy; rw [hgc]
      have : (startedCtx (getCtx t a) n).state = (getCtx t a).state := rfl
      rw [this, hr]; simp
    refine ⟨hres, (events_same _ _ h2).1, ?_, ?_, ?_⟩
    · rw [hp, (events_same _ _ h2).2]; simp
    · intro id hne; rw [h1, AMap.get?_set_other _ _ _ _ (Ne.symm hne)]
    · intro c0 hg
      have hd := getCtx_of_get? hg
      refine ⟨_, by rw [h1, AMap.get?_set_self], ?_⟩
      rw [hd]
      exact ⟨rfl, Or.inr (Or.inr ⟨rfl, rfl⟩)⟩

theorem foldl_newBatch_out : ∀ (l : List CtxId) (t : State), l.Nodup →
    (l.foldl newBatch t).resps = t.resps ∧
    respEvents (l.foldl newBatch t) = respEvents t ∧
    stateEvents (l.foldl newBatch t) = stateEvents t ++ l.filter (pausedBy t (l.foldl newBatch t)) ∧
    (∀ id, id ∉ l → AMap.get? (l.foldl newBatch t).ctxs id = AMap.get? t.ctxs id) ∧
    (∀ id, id ∈ l → ∀ c0, AMap.get? t.ctxs id = some c0 →
      ∃ c', AMap.get? (l.foldl newBatch t).ctxs id = some c' ∧ NbStep c0 c')
  | [], t, _ => ⟨rfl, rfl, by simp, fun _ _ => rfl, fun _ h => (by cases h)⟩
  | a :: rest, t, hn => by
    rw [List.nodup_cons] at hn
    obtain ⟨i0, i1, i2, i3, i4⟩ := foldl_newBatch_out rest (newBatch t a) hn.2
    obtain ⟨n0, n1, n2, n3, n4⟩ := newBatch_out t a
    simp only [List.foldl]
    refine ⟨i0.trans n0, i1.trans n1, ?_, ?_, ?_⟩
    · rw [i2, n2, List.append_assoc]
      congr 1
      have ha : pausedBy t (rest.foldl newBatch (newBatch t a)) a = pausedBy t (newBatch t a) a := by
        unfold pausedBy
        rw [getCtx_congr (i3 a hn.1)]
      have hr : rest.filter (pausedBy (newBatch t a) (rest.foldl newBatch (newBatch t a)))
          = rest.filter (pausedBy t (rest.foldl newBatch (newBatch t a))) := by
        apply List.filter_congr
        intro x hx
        have hxa : x ≠ a := fun e => hn.1 (e ▸ hx)
        unfold pausedBy
        rw [getCtx_congr (n3 x hxa)]
      rw [hr, List.filter_cons, ha]
      cases pausedBy t (newBatch t a) a <;> simp
    · intro id hid
      rw [List.mem_cons, not_or] at hid
      rw [i3 id hid.2, n3 id hid.1]
    · intro id hid c0 hg
      rcases List.mem_cons.mp hid with h | h
      · subst h
        obtain ⟨c', g', st⟩ := n4 c0 hg
        exact ⟨c', by rw [i3 id hn.1]; exact g', st⟩
      · have hne : id ≠ a := fun e => hn.1 (e ▸ h)
        exact i4 id h c0 (by rw [n3 id hne]; exact hg)

/-! ### the end block as a whole -/

/-- the monitor's expectation for one stored context -/
def expF (pre post : State) (e : CtxId × Ctx) : Option (CtxId × Nat × Bool) :=
  if e.2.moduleName ≠ "" ∧ e.2.batchState = .running then
    if batchDone post e.1 e.2 then
      some (e.1, outputsOf pre post e.1 e.2.batchCounter,
        decide (outputsOf pre post e.1 e.2.batchCounter < e.2.batchRespThreshold))
    else none
  else none

theorem expectedResp_eq (pre post : State) : expectedRespEvents pre post = pre.ctxs.filterMap (expF pre post) := rfl

def stF (post : State) (e : CtxId × Ctx) : Option CtxId :=
  if e.2.moduleName ≠ "" ∧ e.2.state = .running then
    match AMap.get? post.ctxs e.1 with
    | some c' => if c'.state = .paused then some e.1 else none
    | none => none
  else none

theorem expectedState_eq (pre post : State) : expectedStateEvents pre post = pre.ctxs.filterMap (stF post) := rfl

theorem expF_key {pre post : State} {e : CtxId × Ctx} {x : CtxId × Nat × Bool} (h : expF pre post e = some x) : x.1 = e.1 := by
  unfold expF at h
  split at h
  · split at h
    · cases h; rfl
    · cases h
  · cases h

theorem stF_key {post : State} {e : CtxId × Ctx} {x : CtxId} (h : stF post e = some x) : x = e.1 := by
  unfold stF at h
  split at h
  · split at h
    · split at h
      · cases h; rfl
      · cases h
    · cases h
  · cases h

theorem expEvent_key {t : State} {id : CtxId} {x : CtxId × Nat × Bool} (h : expEvent t id = some x) : x.1 = id := by
  unfold expEvent at h
  split at h
  · cases h; rfl
  · cases h

/-- the situation after the two phases of an end block from a well-formed state whose running batches await expiry -/
structure EB (s : State) : Prop where
  wf     : WF s
  wf1    : WF (expiredPhase s)
  expND  : (dueIds s.expQ s.height).Nodup
  newND  : (dueIds (expiredPhase s).newQ (expiredPhase s).height).Nodup

theorem EB.mk' {s : State} (hw : WF s) : EB s :=
  ⟨hw, (WF_expiredPhase hw).1, nodup_dueIds _ _ hw.expND, nodup_dueIds _ _ (WF_expiredPhase hw).1.newND⟩

/-- an id in the due new-batch list of the second phase has a stored context -/
theorem newId_live {s : State} (h : EB s) {id : CtxId}
    (hm : id ∈ dueIds (expiredPhase s).newQ (expiredPhase s).height) :
    ∃ c1, AMap.get? (expiredPhase s).ctxs id = some c1 := by
  have hq := (mem_dueIds _ _ _).mp hm
  have hmk := h.wf1.newM.1 _ _ hq
  have hl := h.wf1.live id (Or.inl ((contains_iff _ _).mpr ⟨_, hmk⟩))
  exact (contains_iff _ _).mp hl

/-- a batch whose expiry is due is over after the end block -/
theorem batchDone_due {s : State} (h : EB s) {id : CtxId} {c0 : Ctx} (hd : id ∈ dueIds s.expQ s.height)
    (hg : AMap.get? s.ctxs id = some c0) : batchDone (endBlock s) id c0 = true := by
  obtain ⟨_, _, _, x4, x5, _, _⟩ := foldl_expireCtx_out (dueIds s.expQ s.height) s h.expND
  obtain ⟨_, _, _, y4, y5⟩ := foldl_newBatch_out (dueIds (expiredPhase s).newQ (expiredPhase s).height)
    (expiredPhase s) h.newND
  have hE : endBlock s = (dueIds (expiredPhase s).newQ (expiredPhase s).height).foldl newBatch (expiredPhase s) := rfl
  have hT : expiredPhase s = (dueIds s.expQ s.height).foldl expireCtx s := rfl
  rw [← hT] at x4 x5
  rw [← hE] at y4 y5
  unfold batchDone
  by_cases hn : id ∈ dueIds (expiredPhase s).newQ (expiredPhase s).height
  · obtain ⟨c1, g1⟩ := newId_live h hn
    have hc1 := x4 id hd c1 g1
    obtain ⟨c, gc, e1, _, _⟩ := x5 id c1 g1
    rw [hg] at gc; cases gc
    obtain ⟨c', g', _, st⟩ := y5 id hn c1 g1
    rw [g']
    rcases st with st | ⟨st, _⟩ | ⟨st, _⟩
    · rw [st]; simp [hc1]
    · simp [st]
    · simp only [Bool.or_eq_true, decide_eq_true_eq]
      right; omega
  · rw [y4 id hn]
    cases g1 : AMap.get? (expiredPhase s).ctxs id with
    | none => rfl
    | some c1 =>
      have hc1 := x4 id hd c1 g1
      simp [hc1]

/-- a running batch whose expiry is not due is left alone by the end block -/
theorem not_due_kept {s : State} (h : EB s) (haw : Awaits s) {id : CtxId} {c0 : Ctx} (hd : id ∉ dueIds s.expQ s.height)
    (hg : AMap.get? s.ctxs id = some c0) (hr : c0.batchState = .running) :
    AMap.get? (endBlock s).ctxs id = some c0 := by
  obtain ⟨_, _, x3, _, _, _, x7⟩ := foldl_expireCtx_out (dueIds s.expQ s.height) s h.expND
  obtain ⟨_, _, _, y4, _⟩ := foldl_newBatch_out (dueIds (expiredPhase s).newQ (expiredPhase s).height)
    (expiredPhase s) h.newND
  have hE : endBlock s = (dueIds (expiredPhase s).newQ (expiredPhase s).height).foldl newBatch (expiredPhase s) := rfl
  have hT : expiredPhase s = (dueIds s.expQ s.height).foldl expireCtx s := rfl
  rw [← hT] at x3 x7
  rw [← hE] at y4
  have hn : id ∉ dueIds (expiredPhase s).newQ (expiredPhase s).height := by
    intro hm
    have hq := (mem_dueIds _ _ _).mp hm
    rcases x7 _ hq with hq' | hq'
    · have hmk := h.wf.newM.1 _ _ hq'
      have hex := h.wf.excl id ((contains_iff _ _).mpr ⟨_, hmk⟩)
      rw [haw.exp id c0 hg hr] at hex
      cases hex
    · exact hd hq'
  rw [y4 id hn, x3 id hd]
  exact hg

/-- the response callbacks fired in an end block are, up to order, the expected ones -/
theorem endBlock_resp_perm {s : State} (h : EB s) (haw : Awaits s) (hrn : KeysNodup s.resps) (hnd : KeysNodup s.ctxs)
    (hcb : s.cb = []) :
    respEvents (endBlock s) = (dueIds s.expQ s.height).filterMap (expEvent s) ∧
    (((dueIds s.expQ s.height).filterMap (expEvent s)).map (·.1)).Nodup ∧
    ((dueIds s.expQ s.height).filterMap (expEvent s)).Perm (expectedRespEvents s (endBlock s)) := by
  obtain ⟨x1, _, _, _, _, x6, _⟩ := foldl_expireCtx_out (dueIds s.expQ s.height) s h.expND
  obtain ⟨y0, y1, _, _, _⟩ := foldl_newBatch_out (dueIds (expiredPhase s).newQ (expiredPhase s).height)
    (expiredPhase s) h.newND
  have hE : endBlock s = (dueIds (expiredPhase s).newQ (expiredPhase s).height).foldl newBatch (expiredPhase s) := rfl
  have hT : expiredPhase s = (dueIds s.expQ s.height).foldl expireCtx s := rfl
  rw [← hT] at x1 x6
  rw [← hE] at y0 y1
  have hre : respEvents s = [] := by rw [respEvents_eq, hcb]; rfl
  have hk1 : (((dueIds s.expQ s.height).filterMap (expEvent s)).map (·.1)).Nodup :=
    nodup_filterMap_key (fun x => x) (·.1) (expEvent s) (fun a b hb => expEvent_key hb) _ (by rw [List.map_id']; exact h.expND)
  have hk2 : ((expectedRespEvents s (endBlock s)).map (·.1)).Nodup := by
    rw [expectedResp_eq]
    exact nodup_filterMap_key (fun e : CtxId × Ctx => e.1) (fun x : CtxId × Nat × Bool => x.1) (expF s (endBlock s))
      (fun a b hb => expF_key hb) s.ctxs hnd
  refine ⟨by rw [y1, x1, hre, List.nil_append], hk1, ?_⟩
  -- the payload
  have hout : ∀ id b, outputsOf s (endBlock s) id b = respOutputs s id b := by
    intro id b
    apply outputsOf_eq hrn
    intro e
    rw [List.mem_append]
    constructor
    · rintro (he | he)
      · exact he
      · rw [y0] at he; exact x6 e he
    · exact Or.inl
  -- per stored context
  have hper : ∀ id c0, AMap.get? s.ctxs id = some c0 →
      expF s (endBlock s) (id, c0) = if id ∈ dueIds s.expQ s.height then expEvent s id else none := by
    intro id c0 hg
    have hgc := getCtx_of_get? hg
    unfold expF expEvent
    rw [hgc]
    simp only [hout]
    by_cases hc : c0.moduleName ≠ "" ∧ c0.batchState = .running
    · have hc' : c0.batchState ≠ .completed ∧ c0.moduleName ≠ "" := ⟨by rw [hc.2]; simp, hc.1⟩
      rw [if_pos hc]
      by_cases hd : id ∈ dueIds s.expQ s.height
      · rw [if_pos hd, if_pos hc', batchDone_due h hd hg]
        rfl
      · rw [if_neg hd]
        have hk := not_due_kept h haw hd hg hc.2
        have hb : batchDone (endBlock s) id c0 = false := by
          unfold batchDone; rw [hk]; simp [hc.2]
        rw [hb]; rfl
    · rw [if_neg hc]
      have hc' : ¬ (c0.batchState ≠ .completed ∧ c0.moduleName ≠ "") := by
        rintro ⟨h1, h2⟩
        apply hc
        refine ⟨h2, ?_⟩
        rcases batchState_cases c0.batchState with h3 | h3
        · exact h3
        · exact absurd h3 h1
      rw [if_neg hc']
      split <;> rfl
  apply (List.perm_ext_iff_of_nodup (nodup_of_nodup_map _ _ hk1) (nodup_of_nodup_map _ _ hk2)).mpr
  intro x
  rw [expectedResp_eq, List.mem_filterMap, List.mem_filterMap]
  constructor
  · rintro ⟨id, hid, hx⟩
    have hm : (getCtx s id).moduleName ≠ "" := by
      unfold expEvent at hx
      split at hx
      · rename_i hc; exact hc.2
      · cases hx
    have hg := get?_of_module hm
    refine ⟨(id, getCtx s id), get?_mem _ _ _ hg, ?_⟩
    rw [hper id _ hg, if_pos hid]
    exact hx
  · rintro ⟨e, he, hx⟩
    have hg := get?_of_mem_nodup _ hnd e he
    have hp := hper e.1 e.2 hg
    rw [show ((e.1, e.2) : CtxId × Ctx) = e from rfl, hx] at hp
    by_cases hd : e.1 ∈ dueIds s.expQ s.height
    · rw [if_pos hd] at hp
      exact ⟨e.1, hd, hp.symm⟩
    · rw [if_neg hd] at hp; cases hp

/-- the state callbacks fired in an end block are, up to order, the expected ones -/
theorem endBlock_state_perm {s : State} (h : EB s) (hnd : KeysNodup s.ctxs) (hcb : s.cb = []) :
    (stateEvents (endBlock s)).Perm (expectedStateEvents s (endBlock s)) := by
  obtain ⟨_, x2, _, _, x5, _, _⟩ := foldl_expireCtx_out (dueIds s.expQ s.height) s h.expND
  obtain ⟨_, _, y2, y4, y5⟩ := foldl_newBatch_out (dueIds (expiredPhase s).newQ (expiredPhase s).height)
    (expiredPhase s) h.newND
  have hE : endBlock s = (dueIds (expiredPhase s).newQ (expiredPhase s).height).foldl newBatch (expiredPhase s) := rfl
  have hT : expiredPhase s = (dueIds s.expQ s.height).foldl expireCtx s := rfl
  rw [← hT] at x2 x5
  rw [← hE] at y2 y4 y5
  have hse : stateEvents s = [] := by rw [stateEvents_eq, hcb]; rfl
  rw [y2, x2, hse, List.nil_append]
  have hk2 : ((expectedStateEvents s (endBlock s)).map (fun x => x)).Nodup := by
    rw [expectedState_eq]
    exact nodup_filterMap_key (fun e : CtxId × Ctx => e.1) (fun x : CtxId => x) (stF (endBlock s))
      (fun a b hb => stF_key hb) s.ctxs hnd
  rw [List.map_id'] at hk2
  apply (List.perm_ext_iff_of_nodup (nodup_filter _ h.newND) hk2).mpr
  intro id
  rw [expectedState_eq, List.mem_filter, List.mem_filterMap]
  constructor
  · rintro ⟨hid, hp⟩
    unfold pausedBy at hp
    simp only [decide_eq_true_eq] at hp
    obtain ⟨hm, hr, hpz⟩ := hp
    have g1 := get?_of_module hm
    obtain ⟨c0, g0, _, e2, e3⟩ := x5 id _ g1
    obtain ⟨c', g', _⟩ := y5 id hid _ g1
    have hgc' := getCtx_of_get? g'
    refine ⟨(id, c0), get?_mem _ _ _ g0, ?_⟩
    unfold stF
    have hc : c0.moduleName ≠ "" ∧ c0.state = .running := ⟨by rw [← e3]; exact hm, by rw [← e2]; exact hr⟩
    rw [if_pos hc]
    simp only [g']
    rw [hgc'] at hpz
    rw [if_pos hpz]
  · rintro ⟨e, he, hx⟩
    have hg := get?_of_mem_nodup _ hnd e he
    have hid := stF_key hx
    subst hid
    unfold stF at hx
    split at hx
    · rename_i hc
      split at hx
      · rename_i c' g'
        split at hx
        · rename_i hpz
          have hin : e.1 ∈ dueIds (expiredPhase s).newQ (expiredPhase s).height := by
            apply Decidable.byContradiction
            intro hn
            rw [y4 e.1 hn] at g'
            obtain ⟨c0, g0, _, e2, _⟩ := x5 e.1 c' g'
            rw [hg] at g0; cases g0
            rw [e2, hc.2] at hpz
            cases hpz
          refine ⟨hin, ?_⟩
          obtain ⟨c1, g1⟩ := newId_live h hin
          obtain ⟨c0, g0, _, e2, e3⟩ := x5 e.1 c1 g1
          rw [hg] at g0; cases g0
          unfold pausedBy
          rw [getCtx_of_get? g1, getCtx_of_get? g']
          simp only [decide_eq_true_eq]
          exact ⟨by rw [e3]; exact hc.1, by rw [e2]; exact hc.2, hpz⟩
        · cases hx
      · cases hx
    · cases hx

/-- the callback clause on the end block of a state with an empty callback log -/
theorem endBlock_callbacksOk {s : State} (hw : WF s) (haw : Awaits s) (hrn : KeysNodup s.resps) (hnd : KeysNodup s.ctxs)
    (hcb : s.cb = []) : callbacksOk s (endBlock s) true = true := by
  have h := EB.mk' hw
  obtain ⟨r1, r2, r3⟩ := endBlock_resp_perm h haw hrn hnd hcb
  have r4 := endBlock_state_perm h hnd hcb
  unfold callbacksOk
  rw [r1, if_pos rfl, sortIds_eq_of_perm r4]
  have := isort_eq_of_perm evLe_total evLe_trans r3 (fun a b ha hb h1 h2 =>
    eq_of_key_eq (·.1) _ r2 a b ha hb (evLe_antisymm_id h1 h2))
  rw [this]
  simp

end Cb

open Cb in
/-- **callback clause, the end block**: the response callbacks fired are — up to order — one per due expired-batch entry
whose batch is still running and whose context is module-owned, which are exactly the module-owned contexts whose running
batch is over afterwards, with the number of outputs and the threshold of the state before the block; the state callbacks
are exactly the module-owned running contexts the scheduler paused -/
theorem c08_callbacks_next_sound {s : State} {dt : Int} (hs : SInv s) (hnd : KeysNodup s.ctxs) :
    callbackFails s (apply s (.next dt)) (isNextOp (.next dt) (accepted s (.next dt))) = [] := by
  have hst : step s (.next dt) = .ok (nextBlock { s with cb := [] } dt) := rfl
  obtain ⟨ha, hp⟩ := accepted_ok hst
  rw [hp]
  simp only [isNextOp, ha]
  unfold callbackFails
  have hw0 : WF { s with cb := [] } := hs.wf.of_same ⟨rfl, rfl, rfl, rfl, rfl, rfl, rfl⟩
  have haw0 : Awaits { s with cb := [] } := ⟨hs.awaits.exp, hs.awaits.any⟩
  have hok := endBlock_callbacksOk (s := { s with cb := [] }) hw0 haw0 hs.resp.nd hnd rfl
  have he : callbacksOk s (nextBlock { s with cb := [] } dt) true
      = callbacksOk { s with cb := [] } (endBlock { s with cb := [] }) true := rfl
  rw [he, hok]
  rfl

/-- callbacks fire exactly once per completed batch of a module-owned context with the right payload, and the state
callback exactly when a module-owned context is paused by the scheduler — on every model step -/
theorem c08_callbacks_sound {s : State} {op : Op} (hs : SInv s) (hs' : SInv (apply s op)) (ho : OpOK s op)
    (hnd : KeysNodup s.ctxs) :
    callbackFails s (apply s op) (isNextOp op (accepted s op)) = [] := by
  by_cases hn : ∃ dt, op = .next dt
  · obtain ⟨dt, rfl⟩ := hn
    exact c08_callbacks_next_sound hs hnd
  · exact c08_callbacks_msg_sound hs ho hnd (fun dt e => hn ⟨dt, e⟩)

end Irismod.Proofs.ServiceMonitor
