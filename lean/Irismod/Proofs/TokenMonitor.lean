/-
Soundness of the token monitors (C09, C10 and the token clauses of C12) with respect to the
model: on every model step from a state satisfying the invariants, every clause the driver
evaluates in `monitor C09 | C10 | C12` mode holds (C12: fails only inside a recorded class).
So a monitor failure on an implementation trace is always a model/implementation disagreement or a
genuine failure of the property, never an artefact of the monitor.
-/
import Irismod.Props.C12_Token

namespace Irismod.Proofs.TokenMonitor
open Irismod Irismod.Sdk Irismod.Token Irismod.Proofs.Token
open Irismod.Spec.C09 (WF OwnIdx Fail chk allB tableSame wfB ownIdxB keepsB tokensSameExcept balsSameExcept
  supsSameExcept burnedSameExcept bankSame evmSameExcept sameState feeUnit feeSplitB)

/-! ### helpers: the Boolean frame predicates from lookup facts -/

theorem allB_of {K V : Type} [DecidableEq K] (m : AMap K V) (p : K → V → Bool)
    (h : ∀ k v, AMap.get? m k = some v → p k v = true) : allB m p = true := by
  unfold allB
  rw [List.all_eq_true]
  intro k _
  cases hk : AMap.get? m k with
  | none => rfl
  | some v => exact h k v hk

theorem tableSame_of {K V : Type} [DecidableEq K] [DecidableEq V] (a b : AMap K V)
    (h : ∀ k, AMap.get? a k = AMap.get? b k) : tableSame a b = true := by
  unfold tableSame
  rw [List.all_eq_true]
  intro k _
  rw [h k]; simp

theorem balsSame_of (pre post : State) (ex : List (Addr × Denom))
    (h : ∀ k : Addr × Denom, k ∉ ex → balOf post k.1 k.2 = balOf pre k.1 k.2) :
    balsSameExcept pre post ex = true := by
  unfold balsSameExcept
  rw [List.all_eq_true]
  intro k _
  by_cases hk : k ∈ ex
  · simp [hk]
  · simp [h k hk]

theorem supsSame_of (pre post : State) (ex : List Denom)
    (h : ∀ k : Denom, k ∉ ex → supplyOf post k = supplyOf pre k) : supsSameExcept pre post ex = true := by
  unfold supsSameExcept
  rw [List.all_eq_true]
  intro k _
  by_cases hk : k ∈ ex
  · simp [hk]
  · simp [h k hk]

theorem burnedSame_of (pre post : State) (ex : List String)
    (h : ∀ k : String, k ∉ ex → burnedOf post k = burnedOf pre k) : burnedSameExcept pre post ex = true := by
  unfold burnedSameExcept
  rw [List.all_eq_true]
  intro k _
  by_cases hk : k ∈ ex
  · simp [hk]
  · simp [h k hk]

theorem evmSame_of (pre post : State) (ex : List (Nat × String))
    (h : ∀ k : Nat × String, k ∉ ex → evmBal post k.1 k.2 = evmBal pre k.1 k.2) :
    evmSameExcept pre post ex = true := by
  unfold evmSameExcept
  rw [List.all_eq_true]
  intro k _
  by_cases hk : k ∈ ex
  · simp [hk]
  · simp [h k hk]

theorem bankSame_of (pre post : State) (h : post.bank = pre.bank) : bankSame pre post = true := by
  unfold bankSame
  rw [balsSame_of pre post [] (fun k _ => by unfold balOf; rw [h]),
      supsSame_of pre post [] (fun k _ => by unfold supplyOf; rw [h])]
  rfl

theorem tokensSame_of (pre post : State) (ex : String)
    (h : ∀ k, k ≠ ex → AMap.get? post.tokens k = AMap.get? pre.tokens k) : tokensSameExcept pre post ex = true := by
  unfold tokensSameExcept
  rw [Bool.and_eq_true]
  constructor
  · apply allB_of
    intro k v hk
    by_cases he : k = ex
    · simp [he]
    · rw [h k he, hk]; simp
  · apply allB_of
    intro k v hk
    by_cases he : k = ex
    · simp [he]
    · rw [h k he] at hk
      simp [AMap.contains, hk]

theorem sameState_refl (s : State) : sameState s s = true := by
  unfold sameState
  rw [tableSame_of _ _ (fun _ => rfl), tableSame_of _ _ (fun _ => rfl), tableSame_of _ _ (fun _ => rfl),
      tableSame_of _ _ (fun _ => rfl), tableSame_of _ _ (fun _ => rfl), bankSame_of s s rfl,
      evmSame_of s s [] (fun _ _ => rfl)]
  simp

theorem chk_true (c cls : String) : chk true c cls = [] := rfl

theorem wfB_of {s : State} (h : WF s) : wfB s = true := by
  unfold wfB
  rw [Bool.and_eq_true]
  constructor
  · apply allB_of
    intro sym t ht
    obtain ⟨e1, e2⟩ := h.1 sym t ht
    simp [e1, e2]
  · apply allB_of
    intro m sym hm
    obtain ⟨t, ht, e⟩ := h.2 m sym hm
    simp [ht, e]

theorem ownIdxB_of {s : State} (h : OwnIdx s) : ownIdxB s = true := by
  unfold ownIdxB
  rw [Bool.and_eq_true]
  constructor
  · apply allB_of
    intro sym t ht
    simp [h.1 sym t ht]
  · apply allB_of
    intro k v hk
    obtain ⟨o, sym⟩ := k
    obtain ⟨e, t, ht, eo⟩ := h.2 o sym v hk
    simp [e, ht, eo]

theorem keepsB_of_change {s s' : State} {op : Op} (h : Props.C09.Change s s' op) : keepsB s s' = true := by
  unfold keepsB
  rw [Bool.and_eq_true]
  cases h with
  | same e1 e2 =>
    exact ⟨allB_of _ _ (fun sym t ht => by rw [e1, ht]; simp), allB_of _ _ (fun m sym hm => by rw [e2, hm]; simp)⟩
  | modify sym t t' ht hsym hmu hsc hinit _ e1 e2 =>
    refine ⟨allB_of _ _ ?_, allB_of _ _ (fun m sym hm => by rw [e2, hm]; simp)⟩
    intro sym2 t2 ht2
    rw [e1]
    by_cases hk : sym = sym2
    · subst hk
      rw [ht] at ht2; cases ht2
      simp [hsym, hmu, hsc, hinit]
    · simp [hk, ht2]
  | add t hn1 hn2 e1 e2 =>
    refine ⟨allB_of _ _ ?_, allB_of _ _ ?_⟩
    · intro sym2 t2 ht2
      have hk : t.symbol ≠ sym2 := by intro e; rw [e, ht2] at hn1; cases hn1
      rw [e1]; simp [hk, ht2]
    · intro m sym hm
      have hk : t.minUnit ≠ m := by intro e; rw [e, hm] at hn2; cases hn2
      rw [e2]; simp [hk, hm]

theorem keepsB_refl (s : State) : keepsB s s = true :=
  keepsB_of_change (op := .evmFault "none") (.same (fun _ => rfl) (fun _ => rfl))

theorem feeSplitB_of {pre post : State} {payer : Addr} {fd : String} {n tax : Nat}
    (h1 : balOf post payer fd + n = balOf pre payer fd) (h2 : balOf post FC fd = balOf pre FC fd + tax)
    (h3 : supplyOf post fd + (n - tax) = supplyOf pre fd) (ht : tax ≤ n)
    (h4 : balOf post TM fd = balOf pre TM fd) : feeSplitB pre post payer fd = true := by
  unfold feeSplitB
  simp only [Bool.and_eq_true, decide_eq_true_eq, beq_iff_eq]
  refine ⟨⟨⟨?_, ?_⟩, ?_⟩, h4⟩ <;> omega

/-! ### C09: accepted operations -/

open Irismod.Spec.C09 (acceptedFails acceptedV1 asLegacy stepFails)

theorem feeUnit_of {s : State} {d : String} (h : ∃ t, getToken s s.params.feeDenom = some t ∧ d = t.minUnit) :
    feeUnit s = some d := by
  obtain ⟨t, ht, e⟩ := h
  unfold feeUnit; rw [ht, e]; rfl

/-- the fee token's min unit is registered, so it differs from a min unit that is not -/
theorem feeUnit_registered {s : State} (hwf : WF s) {d : String}
    (h : ∃ t, getToken s s.params.feeDenom = some t ∧ d = t.minUnit) : (AMap.get? s.minUnits d).isSome = true := by
  obtain ⟨t, ht, rfl⟩ := h
  unfold getToken at ht
  split at ht
  · rename_i t' ht'
    cases ht
    rw [(hwf.1 _ _ ht').2]; rfl
  · obtain ⟨e1, _, e3⟩ := Props.C09.tokenByMinUnit_wf hwf ht
    rw [e1, e3]; rfl

theorem accepted_issue (s s' : State) (owner symbol name minUnit : String) (scale init max : Nat) (mintable : Bool)
    (hwf : WF s) (hsound : Sound s.bank)
    (hs : step s (.issue owner symbol name minUnit scale init max mintable) = .ok s') :
    acceptedV1 s (.issue owner symbol name minUnit scale init max mintable) s' = [] := by
  obtain ⟨hv, _, s1, h1, hc1, hc2, rfl⟩ := issue_ok hs
  obtain ⟨d, n, tax, b', hfee, ht, he, rfl, hsd⟩ := deductFee_full h1
  obtain ⟨_, hexact⟩ := hsd hsound
  have hunit := issueFee_unit hfee
  have hfu := feeUnit_of hunit
  have c1 := contains_false hc1
  have c2 := contains_false hc2
  simp only at c1 c2 hc1 hc2
  have hdm : d ≠ minUnit := by
    intro e
    have := feeUnit_registered hwf hunit
    rw [e, c2] at this; cases this
  have q1 : (!(AMap.contains s.tokens symbol) && !(AMap.contains s.minUnits minUnit)) = true := by simp [hc1, hc2]
  have q2 : (AMap.get? (addIssued { s with bank := b' } (issuedToken owner symbol name minUnit scale init max mintable)).tokens symbol
      == some (issuedToken owner symbol name minUnit scale init max mintable)) = true := by
    simp [addIssued, issuedToken, AMap.get?_set_self]
  have q3 : tokensSameExcept s (addIssued { s with bank := b' } (issuedToken owner symbol name minUnit scale init max mintable)) symbol = true := by
    apply tokensSame_of
    intro k hk
    simp only [addIssued, issuedToken]
    exact AMap.get?_set_other _ _ _ _ (Ne.symm hk)
  have hsupm : supplyOf (addIssued { s with bank := b' } (issuedToken owner symbol name minUnit scale init max mintable)) minUnit
      = supplyOf s minUnit + init * pow10 scale := by
    simp only [addIssued, issuedToken, supplyOf]
    rw [supplyOf_mint_self, he.sup_other minUnit hdm]
  have q4 : (supplyOf (addIssued { s with bank := b' } (issuedToken owner symbol name minUnit scale init max mintable)) minUnit
      == supplyOf s minUnit + init * pow10 scale) = true := by rw [hsupm]; simp
  have q5 : (supplyOf s minUnit != 0 || decide (supplyOf (addIssued { s with bank := b' } (issuedToken owner symbol name minUnit scale init max mintable)) minUnit
      ≤ defaultMax init max mintable * pow10 scale)) = true := by
    by_cases hz : supplyOf s minUnit = 0
    · rw [hsupm, hz]
      simp only [Nat.zero_add, bne_self_eq_false, Bool.false_or, decide_eq_true_eq]
      exact Nat.mul_le_mul_right _ (Props.C09.issueValid_init_le hv)
    · simp [hz]
  have q6 : burnedSameExcept s (addIssued { s with bank := b' } (issuedToken owner symbol name minUnit scale init max mintable)) [] = true :=
    burnedSame_of _ _ _ (fun _ _ => rfl)
  unfold acceptedV1
  simp only [q1, q2, q3, q4, q5, q6, chk_true, List.nil_append, hfu]
  split
  · rfl
  · rename_i hcond
    have hp1 : owner ≠ TM := fun e => hcond (Or.inr (Or.inl e))
    have hp2 : owner ≠ FC := fun e => hcond (Or.inl e)
    have mo : ∀ a, (owner, minUnit) ≠ (a, d) := fun a e => hdm (congrArg Prod.snd e).symm
    have r1 : feeSplitB s (addIssued { s with bank := b' } (issuedToken owner symbol name minUnit scale init max mintable)) owner d = true := by
      apply feeSplitB_of (n := n) (tax := tax)
      · simp only [addIssued, issuedToken, balOf]; rw [balOf_mint_other _ _ _ _ _ _ (mo owner)]; exact he.payer_ hp1 hp2
      · simp only [addIssued, issuedToken, balOf]; rw [balOf_mint_other _ _ _ _ _ _ (mo FC)]; exact he.fc hp1 hp2
      · simp only [addIssued, issuedToken, supplyOf]; rw [supplyOf_mint_other _ _ _ _ _ (Ne.symm hdm)]; exact hexact
      · exact ht
      · simp only [addIssued, issuedToken, balOf]; rw [balOf_mint_other _ _ _ _ _ _ (mo TM)]; exact he.tm hp1
    have r2 : balsSameExcept s (addIssued { s with bank := b' } (issuedToken owner symbol name minUnit scale init max mintable))
        [(owner, d), (FC, d), (owner, minUnit)] = true := by
      apply balsSame_of
      intro k hk
      simp only [List.mem_cons, List.not_mem_nil, or_false, not_or] at hk
      obtain ⟨k1, k2, k3⟩ := hk
      simp only [addIssued, issuedToken, balOf]
      rw [balOf_mint_other _ _ _ _ _ _ (Ne.symm k3)]
      by_cases hk4 : k = (TM, d)
      · rw [hk4]; exact he.tm hp1
      · exact he.others k.1 k.2 k1 hk4 k2
    have r3 : supsSameExcept s (addIssued { s with bank := b' } (issuedToken owner symbol name minUnit scale init max mintable))
        [d, minUnit] = true := by
      apply supsSame_of
      intro k hk
      simp only [List.mem_cons, List.not_mem_nil, or_false, not_or] at hk
      simp only [addIssued, issuedToken, supplyOf]
      rw [supplyOf_mint_other _ _ _ _ _ (Ne.symm hk.2)]
      exact he.sup_other k (Ne.symm hk.1)
    simp only [r1, r2, r3, chk_true, List.nil_append]

theorem accepted_edit (s s' : State) (owner symbol name : String) (max : Nat) (mintable : String)
    (hs : step s (.edit owner symbol name max mintable) = .ok s') :
    acceptedV1 s (.edit owner symbol name max mintable) s' = [] := by
  obtain ⟨t, ht, ho, hm, rfl⟩ := edit_ok hs
  unfold acceptedV1
  simp only [ht]
  have q1 : (t.owner == owner) = true := by simp [ho]
  have q2 : (AMap.get? (AMap.set s.tokens symbol (edited t name max mintable)) symbol == some (edited t name max mintable)) = true := by
    simp [AMap.get?_set_self]
  have q3 : tokensSameExcept s { s with tokens := AMap.set s.tokens symbol (edited t name max mintable) } symbol = true :=
    tokensSame_of _ _ _ (fun k hk => AMap.get?_set_other _ _ _ _ (Ne.symm hk))
  have q4 : bankSame s { s with tokens := AMap.set s.tokens symbol (edited t name max mintable) } = true := bankSame_of _ _ rfl
  have q5 : burnedSameExcept s { s with tokens := AMap.set s.tokens symbol (edited t name max mintable) } [] = true :=
    burnedSame_of _ _ _ (fun _ _ => rfl)
  have q6 : (max == 0 || decide (supplyOf { s with tokens := AMap.set s.tokens symbol (edited t name max mintable) } t.minUnit
      ≤ max * pow10 t.scale)) = true := by
    by_cases hz : max = 0
    · simp [hz]
    · have : ¬ (max * pow10 t.scale < supplyOf s t.minUnit) := fun hc => hm ⟨by omega, hc⟩
      have h2 : supplyOf { s with tokens := AMap.set s.tokens symbol (edited t name max mintable) } t.minUnit = supplyOf s t.minUnit := rfl
      rw [h2]
      simp only [Bool.or_eq_true, decide_eq_true_eq]
      right; omega
  simp only [q1, q2, q3, q4, q5, q6, chk_true, List.nil_append]

theorem accepted_transferOwner (s s' : State) (src dst symbol : String)
    (hs : step s (.transferOwner src dst symbol) = .ok s') :
    acceptedV1 s (.transferOwner src dst symbol) s' = [] := by
  obtain ⟨_, t, ht, ho, hs'⟩ := transferOwner_ok hs
  have et : s'.tokens = AMap.set s.tokens symbol { t with owner := dst } := by rw [hs']
  have eb : s'.bank = s.bank := by rw [hs']
  have ebu : s'.burned = s.burned := by rw [hs']
  unfold acceptedV1
  simp only [ht]
  have q1 : (t.owner == src) = true := by simp [ho]
  have q2 : (AMap.get? s'.tokens symbol == some { t with owner := dst }) = true := by
    rw [et]; simp [AMap.get?_set_self]
  have q3 : tokensSameExcept s s' symbol = true :=
    tokensSame_of _ _ _ (fun k hk => by rw [et]; exact AMap.get?_set_other _ _ _ _ (Ne.symm hk))
  have q4 : bankSame s s' = true := bankSame_of _ _ eb
  have q5 : burnedSameExcept s s' [] = true := burnedSame_of _ _ _ (fun _ _ => by unfold burnedOf; rw [ebu])
  simp only [q1, q2, q3, q4, q5, chk_true, List.nil_append]

theorem accepted_burnH (s s' : State) (sender denom : String) (amount : Int) (hsound : Sound s.bank)
    (hh : handleBurn s sender denom amount = .ok s') :
    acceptedV1 s (.burn sender denom amount) s' = [] := by
  obtain ⟨⟨t, ht⟩, b, hb, rfl⟩ := burnH_ok hh
  obtain ⟨e1, e2, _, e4, e5⟩ := burn_ok hb
  have e3 := burn_supply_exact hsound hb
  unfold acceptedV1
  have q1 : (tokenByMinUnit s denom).isSome = true := by rw [ht]; rfl
  have q2 : (decide (amount.toNat ≤ balOf s sender denom) &&
      balOf { s with bank := b, burned := AMap.set s.burned denom (burnedOf s denom + amount.toNat) } sender denom + amount.toNat
        == balOf s sender denom) = true := by
    rw [Bool.and_eq_true]
    refine ⟨decide_eq_true e1, ?_⟩
    simp only [beq_iff_eq, balOf]
    rw [e2]; omega
  have q3 : (supplyOf { s with bank := b, burned := AMap.set s.burned denom (burnedOf s denom + amount.toNat) } denom + amount.toNat
      == supplyOf s denom) = true := by simp only [beq_iff_eq, supplyOf]; exact e3
  have q4 : (burnedOf { s with bank := b, burned := AMap.set s.burned denom (burnedOf s denom + amount.toNat) } denom
      == burnedOf s denom + amount.toNat) = true := by simp [burnedOf, getD_set_self]
  have q5 : burnedSameExcept s { s with bank := b, burned := AMap.set s.burned denom (burnedOf s denom + amount.toNat) } [denom] = true := by
    apply burnedSame_of
    intro k hk
    simp only [List.mem_cons, List.not_mem_nil, or_false] at hk
    simp only [burnedOf]
    exact getD_set_other _ _ _ _ _ (Ne.symm hk)
  have q6 : balsSameExcept s { s with bank := b, burned := AMap.set s.burned denom (burnedOf s denom + amount.toNat) } [(sender, denom)] = true := by
    apply balsSame_of
    intro k hk
    simp only [List.mem_cons, List.not_mem_nil, or_false] at hk
    exact e4 k.1 k.2 (Ne.symm hk)
  have q7 : supsSameExcept s { s with bank := b, burned := AMap.set s.burned denom (burnedOf s denom + amount.toNat) } [denom] = true := by
    apply supsSame_of
    intro k hk
    simp only [List.mem_cons, List.not_mem_nil, or_false] at hk
    exact e5 k (Ne.symm hk)
  have q8 : tokensSameExcept s { s with bank := b, burned := AMap.set s.burned denom (burnedOf s denom + amount.toNat) } "" = true :=
    tokensSame_of _ _ _ (fun _ _ => rfl)
  simp only [q1, q2, q3, q4, q5, q6, q7, q8, chk_true, List.nil_append]

theorem accepted_mintH (s s' : State) (owner rcv denom : String) (amount : Int) (hwf : WF s) (hsound : Sound s.bank)
    (hh : handleMint s owner rcv denom amount = .ok s') :
    acceptedV1 s (.mint owner rcv denom amount) s' = [] := by
  obtain ⟨_, sym, s1, _, h1, h2⟩ := mintH_ok hh
  obtain ⟨d, n, tax, b', hfee, ht, he, rfl, hsd⟩ := deductFee_full h1
  obtain ⟨_, hexact⟩ := hsd hsound
  obtain ⟨t, htok, ho, hmt, hroom, rfl⟩ := mintChecked_ok h2
  have htok' : tokenByMinUnit s denom = some t := htok
  obtain ⟨emu, _, _⟩ := Props.C09.tokenByMinUnit_wf hwf htok'
  have hfu := feeUnit_of (mintFee_unit hfee)
  unfold acceptedV1
  simp only [htok', hfu]
  have hr : (if rcv = "" then owner else rcv) = rcptOf owner rcv := rfl
  rw [hr]
  have q1 : (t.owner == owner) = true := by simp [ho]
  have q3 : decide (supplyOf { ({ s with bank := b' } : State) with bank := b'.mint (rcptOf owner rcv) denom amount.toNat } denom
      ≤ t.maxSupply * pow10 t.scale) = true := by
    apply decide_eq_true
    show (b'.mint (rcptOf owner rcv) denom amount.toNat).supplyOf denom ≤ t.maxSupply * pow10 t.scale
    rw [supplyOf_mint_self]
    rw [emu] at hroom
    exact hroom
  have q4 : tokensSameExcept s { ({ s with bank := b' } : State) with bank := b'.mint (rcptOf owner rcv) denom amount.toNat } "" = true :=
    tokensSame_of _ _ _ (fun _ _ => rfl)
  have q5 : burnedSameExcept s { ({ s with bank := b' } : State) with bank := b'.mint (rcptOf owner rcv) denom amount.toNat } [] = true :=
    burnedSame_of _ _ _ (fun _ _ => rfl)
  simp only [q1, hmt, q3, q4, q5, chk_true, List.nil_append]
  split
  · rfl
  · rename_i hcond
    have hp1 : owner ≠ TM := fun e => hcond (Or.inr (Or.inl e))
    have hp2 : owner ≠ FC := fun e => hcond (Or.inl e)
    have hdd : d ≠ denom := fun e => hcond (Or.inr (Or.inr e))
    have mo : ∀ a, (rcptOf owner rcv, denom) ≠ (a, d) := fun a e => hdd (congrArg Prod.snd e).symm
    have r1 : feeSplitB s { ({ s with bank := b' } : State) with bank := b'.mint (rcptOf owner rcv) denom amount.toNat } owner d = true := by
      apply feeSplitB_of (n := n) (tax := tax)
      · simp only [balOf]; rw [balOf_mint_other _ _ _ _ _ _ (mo owner)]; exact he.payer_ hp1 hp2
      · simp only [balOf]; rw [balOf_mint_other _ _ _ _ _ _ (mo FC)]; exact he.fc hp1 hp2
      · simp only [supplyOf]; rw [supplyOf_mint_other _ _ _ _ _ (Ne.symm hdd)]; exact hexact
      · exact ht
      · simp only [balOf]; rw [balOf_mint_other _ _ _ _ _ _ (mo TM)]; exact he.tm hp1
    have r2 : (supplyOf { ({ s with bank := b' } : State) with bank := b'.mint (rcptOf owner rcv) denom amount.toNat } denom
        == supplyOf s denom + amount.toNat) = true := by
      simp only [beq_iff_eq, supplyOf]
      rw [supplyOf_mint_self, he.sup_other denom hdd]
    have r3 : (balOf { ({ s with bank := b' } : State) with bank := b'.mint (rcptOf owner rcv) denom amount.toNat } (rcptOf owner rcv) denom
        == balOf s (rcptOf owner rcv) denom + amount.toNat) = true := by
      simp only [beq_iff_eq, balOf]
      rw [balOf_mint_self]
      congr 1
      refine he.others _ _ ?_ ?_ ?_ <;> intro e <;> exact hdd (congrArg Prod.snd e).symm
    have r4 : balsSameExcept s { ({ s with bank := b' } : State) with bank := b'.mint (rcptOf owner rcv) denom amount.toNat }
        [(owner, d), (FC, d), (rcptOf owner rcv, denom)] = true := by
      apply balsSame_of
      intro k hk
      simp only [List.mem_cons, List.not_mem_nil, or_false, not_or] at hk
      obtain ⟨k1, k2, k3⟩ := hk
      simp only [balOf]
      rw [balOf_mint_other _ _ _ _ _ _ (Ne.symm k3)]
      by_cases hk4 : k = (TM, d)
      · rw [hk4]; exact he.tm hp1
      · exact he.others k.1 k.2 k1 hk4 k2
    have r5 : supsSameExcept s { ({ s with bank := b' } : State) with bank := b'.mint (rcptOf owner rcv) denom amount.toNat }
        [d, denom] = true := by
      apply supsSame_of
      intro k hk
      simp only [List.mem_cons, List.not_mem_nil, or_false, not_or] at hk
      simp only [supplyOf]
      rw [supplyOf_mint_other _ _ _ _ _ (Ne.symm hk.2)]
      exact he.sup_other k (Ne.symm hk.1)
    simp only [r1, r2, r3, r4, r5, chk_true, List.nil_append]

/-- did the model accept the operation? -/
def accepted (s : State) (op : Op) : Bool := match step s op with | .ok _ => true | .error _ => false

theorem accepted_burn (s s' : State) (sender denom : String) (amount : Int) (hsound : Sound s.bank)
    (hs : step s (.burn sender denom amount) = .ok s') :
    acceptedFails s (.burn sender denom amount) s' = [] :=
  accepted_burnH s s' sender denom amount hsound (burn_handle hs).2.2

theorem accepted_mint (s s' : State) (owner rcv denom : String) (amount : Int) (hwf : WF s) (hsound : Sound s.bank)
    (hs : step s (.mint owner rcv denom amount) = .ok s') :
    acceptedFails s (.mint owner rcv denom amount) s' = [] :=
  accepted_mintH s s' owner rcv denom amount hwf hsound (mint_handle hs).2.2

theorem asLegacy_nil : asLegacy [] = [] := rfl

/-- an accepted legacy mint passes the clauses of the v1 mint it is translated to -/
theorem accepted_legacyMint (s s' : State) (owner rcv symbol : String) (amount : Nat) (hwf : WF s) (hsound : Sound s.bank)
    (hs : step s (.legacyMint owner rcv symbol amount) = .ok s') :
    acceptedFails s (.legacyMint owner rcv symbol amount) s' = [] := by
  obtain ⟨_, _, t, ht, _, _, hh⟩ := legacyMint_ok hs
  unfold acceptedFails
  simp only [ht]
  rw [accepted_mintH s s' owner rcv t.minUnit _ hwf hsound hh]; rfl

/-- an accepted legacy burn passes the clauses of the v1 burn it is translated to -/
theorem accepted_legacyBurn (s s' : State) (sender symbol : String) (amount : Nat) (hsound : Sound s.bank)
    (hs : step s (.legacyBurn sender symbol amount) = .ok s') :
    acceptedFails s (.legacyBurn sender symbol amount) s' = [] := by
  obtain ⟨_, _, t, ht, _, _, hh⟩ := legacyBurn_ok hs
  unfold acceptedFails
  simp only [ht]
  rw [accepted_burnH s s' sender t.minUnit _ hsound hh]; rfl

theorem accepted_other (s s' : State) (op : Op) (hop : Spec.C09.isC09Op op = false) (hs : step s op = .ok s') :
    burnedSameExcept s s' [] = true := by
  apply burnedSame_of
  intro k _
  rw [Props.C09.burned_step s s' op hs k]
  cases op <;> first | (simp [Spec.C09.burnAdds]; done) | cases hop

/-- the clauses of a legacy issue / edit / hand-over are those of the v1 operation it is -/
theorem acceptedFails_of_norm (s s' : State) (op : Op) (h : acceptedFails s (norm op) s' = []) :
    acceptedFails s op s' = [] := by
  cases op with
  | legacyIssue owner symbol name minUnit scale init max mintable =>
    have h' : acceptedV1 s (.issue owner symbol name minUnit scale init max mintable) s' = [] := h
    show asLegacy (acceptedV1 s (.issue owner symbol name minUnit scale init max mintable) s') = []
    rw [h']; rfl
  | legacyEdit owner symbol name max mintable =>
    have h' : acceptedV1 s (.edit owner symbol name max mintable) s' = [] := h
    show asLegacy (acceptedV1 s (.edit owner symbol name max mintable) s') = []
    rw [h']; rfl
  | legacyTransferOwner src dst symbol =>
    have h' : acceptedV1 s (.transferOwner src dst symbol) s' = [] := h
    show asLegacy (acceptedV1 s (.transferOwner src dst symbol) s') = []
    rw [h']; rfl
  | _ => exact h

theorem c09_accepted_core (s s' : State) (op : Op) (hn : norm op = op) (hwf : WF s) (hsound : Sound s.bank)
    (hs : step s op = .ok s') : acceptedFails s op s' = [] := by
  cases op with
  | issue owner symbol name minUnit scale init max mintable => exact accepted_issue s s' _ _ _ _ _ _ _ _ hwf hsound hs
  | edit owner symbol name max mintable => exact accepted_edit s s' _ _ _ _ _ hs
  | mint owner rcv denom amount => exact accepted_mint s s' _ _ _ _ hwf hsound hs
  | burn sender denom amount => exact accepted_burn s s' _ _ _ hsound hs
  | transferOwner src dst symbol => exact accepted_transferOwner s s' _ _ _ hs
  | legacyMint owner rcv symbol amount => exact accepted_legacyMint s s' _ _ _ _ hwf hsound hs
  | legacyBurn sender symbol amount => exact accepted_legacyBurn s s' _ _ _ hsound hs
  | legacyIssue _ _ _ _ _ _ _ _ => cases hn
  | legacyEdit _ _ _ _ _ => cases hn
  | legacyTransferOwner _ _ _ => cases hn
  | swapFee _ _ _ _ => unfold acceptedFails acceptedV1; rw [accepted_other s s' _ rfl hs]; rfl
  | deploy _ _ _ _ _ => unfold acceptedFails acceptedV1; rw [accepted_other s s' _ rfl hs]; rfl
  | swapToErc20 _ _ _ _ => unfold acceptedFails acceptedV1; rw [accepted_other s s' _ rfl hs]; rfl
  | swapFromErc20 _ _ _ _ => unfold acceptedFails acceptedV1; rw [accepted_other s s' _ rfl hs]; rfl
  | hookSwap _ _ _ _ => unfold acceptedFails acceptedV1; rw [accepted_other s s' _ rfl hs]; rfl
  | evmFault _ => unfold acceptedFails acceptedV1; rw [accepted_other s s' _ rfl hs]; rfl
  | updateParams _ _ => unfold acceptedFails acceptedV1; rw [accepted_other s s' _ rfl hs]; rfl
  | evmTx _ _ => unfold acceptedFails acceptedV1; rw [accepted_other s s' _ rfl hs]; rfl
  | upgradeErc20 _ _ => unfold acceptedFails acceptedV1; rw [accepted_other s s' _ rfl hs]; rfl

/-- **C09 monitor soundness**: on every model step — accepted or rejected, any of the 19 operations
(v1 and legacy Msg service, conversions, deployment, upgrade) — from a state with consistent tables
and a sound bank, every clause of `Spec.C09.stepFails` holds -/
theorem c09_monitor_sound (s : State) (op : Op) (hwf : WF s) (hown : OwnIdx s) (hsound : Sound s.bank) :
    stepFails s op (accepted s op) (apply s op) = [] := by
  unfold stepFails accepted apply
  cases hs : step s op with
  | error e =>
    simp only [Bool.false_eq_true, if_false]
    rw [sameState_refl, wfB_of hwf, ownIdxB_of hown, keepsB_refl]
    rfl
  | ok s' =>
    simp only [if_true]
    have a1 : wfB s' = true := wfB_of (Props.C09.wf_step s s' op hwf hs)
    have a2 : ownIdxB s' = true := ownIdxB_of (Props.C09.ownidx_step s s' op hwf hown hs)
    have a3 : keepsB s s' = true := keepsB_of_change (Props.C09.change_step s s' op hwf hs)
    rw [a1, a2, a3]
    simp only [chk_true, List.append_nil]
    exact acceptedFails_of_norm s s' op
      (c09_accepted_core s s' (norm op) (norm_idem op) hwf hsound (by rw [← step_norm]; exact hs))

/-! ### C10: accepted conversions -/

namespace C10
open Irismod.Spec.C10 (evmTotal expectLogs combinedSame swapFails fullValue exactAtOne)
open Irismod.Props.C10 (Bound)

theorem to_erc20 (s s' : State) (sender receiver denom : String) (amount : Int) (hsound : Sound s.bank)
    (hs : step s (.swapToErc20 sender receiver denom amount) = .ok s') :
    Spec.C10.acceptedFails s (.swapToErc20 sender receiver denom amount) s' = [] := by
  obtain ⟨t, ht, hc, _, e1, e2, e3, e4, e5, e6, e7, _, e9⟩ :=
    Props.C10.swap_to_erc20_exact s s' sender receiver denom amount hsound hs
  unfold Spec.C10.acceptedFails
  simp only [ht]
  have q1 : (t.contract != 0) = true := by simp [hc]
  have q2 : (decide (amount.toNat ≤ balOf s sender denom) && balOf s' sender denom + amount.toNat == balOf s sender denom) = true := by
    rw [Bool.and_eq_true]; exact ⟨decide_eq_true (by omega), by simp [e1]⟩
  have q3 : (supplyOf s' denom + amount.toNat == supplyOf s denom) = true := by simp [e2]
  have q4 : (evmBal s' t.contract receiver == evmBal s t.contract receiver + amount.toNat) = true := by simp [e3]
  have q5 : (supplyOf s' denom + evmTotal s' t.contract == supplyOf s denom + evmTotal s t.contract) = true := by simp [e4]
  have q6 : evmSameExcept s s' [(t.contract, receiver)] = true := by
    apply evmSame_of
    intro k hk
    simp only [List.mem_cons, List.not_mem_nil, or_false] at hk
    exact e7 k.1 k.2 (Ne.symm hk)
  have q7 : (balsSameExcept s s' [(sender, denom)] && supsSameExcept s s' [denom]) = true := by
    rw [Bool.and_eq_true]
    constructor
    · apply balsSame_of
      intro k hk
      simp only [List.mem_cons, List.not_mem_nil, or_false] at hk
      exact e5 k.1 k.2 (Ne.symm hk)
    · apply supsSame_of
      intro k hk
      simp only [List.mem_cons, List.not_mem_nil, or_false] at hk
      exact e6 k (Ne.symm hk)
  have q8 : tokensSameExcept s s' "" = true := tokensSame_of _ _ _ (fun _ _ => by rw [e9])
  simp only [q1, q2, q3, q4, q5, q6, q7, q8, chk_true, List.nil_append]

theorem from_erc20 (s s' : State) (sender receiver denom : String) (amount : Int)
    (hs : step s (.swapFromErc20 sender receiver denom amount) = .ok s') :
    Spec.C10.acceptedFails s (.swapFromErc20 sender receiver denom amount) s' = [] := by
  obtain ⟨t, ht, hc, _, _, e1, e2, e3, e4, e5, e6, e7, _, e9⟩ :=
    Props.C10.swap_from_erc20_exact s s' sender receiver denom amount hs
  unfold Spec.C10.acceptedFails
  simp only [ht]
  have q1 : (t.contract != 0) = true := by simp [hc]
  have q2 : (decide (amount.toNat ≤ evmBal s t.contract sender) &&
      evmBal s' t.contract sender + amount.toNat == evmBal s t.contract sender) = true := by
    rw [Bool.and_eq_true]; exact ⟨decide_eq_true (by omega), by simp [e1]⟩
  have q3 : (supplyOf s' denom == supplyOf s denom + amount.toNat) = true := by simp [e3]
  have q4 : (balOf s' receiver denom == balOf s receiver denom + amount.toNat) = true := by simp [e2]
  have q5 : (supplyOf s' denom + evmTotal s' t.contract == supplyOf s denom + evmTotal s t.contract) = true := by simp [e4]
  have q6 : evmSameExcept s s' [(t.contract, sender)] = true := by
    apply evmSame_of
    intro k hk
    simp only [List.mem_cons, List.not_mem_nil, or_false] at hk
    exact e7 k.1 k.2 (Ne.symm hk)
  have q7 : (balsSameExcept s s' [(receiver, denom)] && supsSameExcept s s' [denom]) = true := by
    rw [Bool.and_eq_true]
    constructor
    · apply balsSame_of
      intro k hk
      simp only [List.mem_cons, List.not_mem_nil, or_false] at hk
      exact e5 k.1 k.2 (Ne.symm hk)
    · apply supsSame_of
      intro k hk
      simp only [List.mem_cons, List.not_mem_nil, or_false] at hk
      exact e6 k (Ne.symm hk)
  have q8 : tokensSameExcept s s' "" = true := tokensSame_of _ _ _ (fun _ _ => by rw [e9])
  simp only [q1, q2, q3, q4, q5, q6, q7, q8, chk_true, List.nil_append]

theorem hook (s s' : State) (src : String) (c : Nat) (rcv : String) (amount : Int)
    (hs : step s (.hookSwap src c rcv amount) = .ok s') :
    Spec.C10.acceptedFails s (.hookSwap src c rcv amount) s' = [] := by
  have hs0 : stepHookSwap s src c rcv amount = .ok s' := hs
  obtain ⟨_, hle, h3⟩ := hook_ok hs0
  have f := hook_frame hs0
  unfold Spec.C10.acceptedFails
  have q3 : tokensSameExcept s s' "" = true := tokensSame_of _ _ _ (fun _ _ => by rw [f.tokens])
  rcases h3 with ⟨hs', hnone⟩ | ⟨sym, t, hc, ht, _, _, hs'⟩
  · have eevm : s'.evm = AMap.set s.evm (c, src) (evmBal s c src - amount.toNat) := by rw [hs']
    have eb : s'.bank = s.bank := by rw [hs']
    have q1 : (decide (amount.toNat ≤ evmBal s c src) && evmBal s' c src + amount.toNat == evmBal s c src) = true := by
      rw [Bool.and_eq_true]
      refine ⟨decide_eq_true hle, ?_⟩
      have hv : evmBal s' c src = evmBal s c src - amount.toNat := by
        unfold evmBal; rw [eevm, getD_set_self]; rfl
      simp only [beq_iff_eq]; rw [hv]; omega
    have q2 : evmSameExcept s s' [(c, src)] = true := by
      apply evmSame_of
      intro k hk
      simp only [List.mem_cons, List.not_mem_nil, or_false] at hk
      simp only [evmBal]; rw [eevm]; exact getD_set_other _ _ _ _ _ (Ne.symm hk)
    simp only [q1, q2, q3, hnone, bankSame_of s s' eb, chk_true, List.nil_append]
  · obtain ⟨_, _, e1, e2, e3, e4, e5, e6, _⟩ := Props.C10.hook_swap_exact s s' src c rcv amount sym t hc ht hs
    have hb : (AMap.get? s.contracts c).bind (AMap.get? s.tokens) = some t := by simp [hc, ht]
    have q1 : (decide (amount.toNat ≤ evmBal s c src) && evmBal s' c src + amount.toNat == evmBal s c src) = true := by
      rw [Bool.and_eq_true]; exact ⟨decide_eq_true hle, by simp [e1]⟩
    have q2 : evmSameExcept s s' [(c, src)] = true := by
      apply evmSame_of
      intro k hk
      simp only [List.mem_cons, List.not_mem_nil, or_false] at hk
      exact e6 k.1 k.2 (Ne.symm hk)
    have r1 : (supplyOf s' t.minUnit == supplyOf s t.minUnit + amount.toNat) = true := by simp [e3]
    have r2 : (balOf s' rcv t.minUnit == balOf s rcv t.minUnit + amount.toNat) = true := by simp [e2]
    have r3 : (supplyOf s' t.minUnit + evmTotal s' c == supplyOf s t.minUnit + evmTotal s c) = true := by simp [e4]
    have r4 : (balsSameExcept s s' [(rcv, t.minUnit)] && supsSameExcept s s' [t.minUnit]) = true := by
      rw [Bool.and_eq_true]
      constructor
      · apply balsSame_of
        intro k hk
        simp only [List.mem_cons, List.not_mem_nil, or_false] at hk
        exact e5 k.1 k.2 (Ne.symm hk)
      · apply supsSame_of
        intro k hk
        simp only [List.mem_cons, List.not_mem_nil, or_false] at hk
        rw [hs']
        simp only [supplyOf]
        exact supplyOf_mint_other _ _ _ _ _ (Ne.symm hk)
    simp only [q1, q2, q3, hb, r1, r2, r3, r4, chk_true, List.nil_append]

theorem swapFails_nil (x : Int) (ratio : Dec) (si so : Nat) (b m : Int) (hx : 0 ≤ x)
    (h : lossLess x ratio si so = some (b, m)) : swapFails x ratio.raw si so b m = [] := by
  obtain ⟨hb0, hbx⟩ := Props.C10.burned_le_offered x ratio si so b m hx h
  have hm0 := Props.C10.minted_nonneg x ratio si so b m h
  have hfull := Props.C10.minted_le_burned_value x ratio si so b m h
  unfold swapFails
  have q1 : (decide (b ≤ x) || decide (x < 0 ∧ b = 0)) = true := by simp [hbx]
  simp only [q1, decide_eq_true hb0, decide_eq_true hm0, decide_eq_true hfull, chk_true, List.nil_append]
  split
  · rename_i hr
    have hrat : ratio = ⟨precision⟩ := by cases ratio; simp only at hr; rw [hr]
    rw [hrat] at h
    have := (Props.C10.exact_at_ratio_one x si so b m hx h).1
    simp only [decide_eq_true this, chk_true]
  · rfl

/-- … for every input, negative ones included (the clauses the driver evaluates on a pure
`token lossless` line) -/
theorem swapFails_nil_all (x : Int) (ratio : Dec) (si so : Nat) (b m : Int)
    (h : lossLess x ratio si so = some (b, m)) : swapFails x ratio.raw si so b m = [] := by
  by_cases hx : 0 ≤ x
  · exact swapFails_nil x ratio si so b m hx h
  · have h0 : b = 0 ∧ m = 0 := by
      unfold lossLess at h
      have : x ≤ 0 ∨ ratio.raw ≤ 0 := Or.inl (by omega)
      simp only [this, if_true, Option.some.injEq, Prod.mk.injEq] at h
      exact ⟨h.1.symm, h.2.symm⟩
    obtain ⟨rfl, rfl⟩ := h0
    unfold swapFails
    have hneg : x < 0 := by omega
    have q1 : (decide ((0 : Int) ≤ x) || decide (x < 0 ∧ True)) = true := by simp [hneg]
    have q4 : fullValue 0 0 ratio.raw si so := by unfold fullValue; simp
    have q5 : exactAtOne 0 0 si so := by unfold exactAtOne; simp
    simp only [decide_eq_true (Int.le_refl 0), decide_eq_true q4, decide_eq_true q5, chk_true, List.nil_append]
    split <;> simp [q1, chk]

theorem swap_fee (s s' : State) (sender rcv denom : String) (amount : Int) (hwf : WF s) (hsound : Sound s.bank)
    (hs : step s (.swapFee sender rcv denom amount) = .ok s') :
    Spec.C10.acceptedFails s (.swapFee sender rcv denom amount) s' = [] := by
  obtain ⟨hpos, tb, target, ratio, tm, b, m, htb, hreg, htm, hll, h2⟩ := swapFee_ok hs
  obtain ⟨hb0, hm0, _, bk, hburn, hs'⟩ := swapMoves_ok h2
  obtain ⟨emu, _, _⟩ := Props.C09.tokenByMinUnit_wf hwf htb
  rw [emu] at hburn
  obtain ⟨e1, e2, _, e4, e5⟩ := burn_ok hburn
  have e3 := burn_supply_exact hsound hburn
  have ebank : s'.bank = bk.mint (rcptOf sender rcv) target m.toNat := by rw [hs']
  have eevm : s'.evm = s.evm := by rw [hs']
  have etok : s'.tokens = s.tokens := by rw [hs']
  unfold Spec.C10.acceptedFails
  simp only [htb, hreg, htm]
  split
  · rfl
  · rename_i hne
    have hne' : denom ≠ target := fun e => hne e.symm
    have hr : (if rcv = "" then sender else rcv) = rcptOf sender rcv := rfl
    rw [hr]
    have sD : supplyOf s' denom + b.toNat = supplyOf s denom := by
      simp only [supplyOf]; rw [ebank, supplyOf_mint_other _ _ _ _ _ (Ne.symm hne')]; exact e3
    have sT : supplyOf s' target = supplyOf s target + m.toNat := by
      simp only [supplyOf]; rw [ebank, supplyOf_mint_self, e5 target hne']
    have bS : balOf s' sender denom + b.toNat = balOf s sender denom := by
      simp only [balOf]; rw [ebank, balOf_mint_other _ _ _ _ _ _ (by intro e; exact hne' (congrArg Prod.snd e).symm), e2]; omega
    have bR : balOf s' (rcptOf sender rcv) target = balOf s (rcptOf sender rcv) target + m.toNat := by
      simp only [balOf]; rw [ebank, balOf_mint_self, e4 _ _ (by intro e; exact hne' (congrArg Prod.snd e))]
    have hB : (supplyOf s denom : Int) - supplyOf s' denom = b := by omega
    have hM : (supplyOf s' target : Int) - supplyOf s target = m := by omega
    have hP : ((balOf s sender denom : Int) - balOf s' sender denom = b) := by omega
    have hG : ((balOf s' (rcptOf sender rcv) target : Int) - balOf s (rcptOf sender rcv) target = m) := by omega
    have q1 := swapFails_nil amount ratio tb.scale tm.scale b m (Int.le_of_lt hpos) hll
    have q4 : (balsSameExcept s s' [(sender, denom), (rcptOf sender rcv, target)] && supsSameExcept s s' [denom, target]) = true := by
      rw [Bool.and_eq_true]
      constructor
      · apply balsSame_of
        intro k hk
        simp only [List.mem_cons, List.not_mem_nil, or_false, not_or] at hk
        simp only [balOf]
        rw [ebank, balOf_mint_other _ _ _ _ _ _ (Ne.symm hk.2)]
        exact e4 k.1 k.2 (Ne.symm hk.1)
      · apply supsSame_of
        intro k hk
        simp only [List.mem_cons, List.not_mem_nil, or_false, not_or] at hk
        simp only [supplyOf]
        rw [ebank, supplyOf_mint_other _ _ _ _ _ (Ne.symm hk.2)]
        exact e5 k (Ne.symm hk.1)
    have q5 : evmSameExcept s s' [] = true := evmSame_of _ _ _ (fun _ _ => by unfold evmBal; rw [eevm])
    have q6 : tokensSameExcept s s' "" = true := tokensSame_of _ _ _ (fun _ _ => by rw [etok])
    simp only [hB, hM, q1, decide_eq_true hP, decide_eq_true hG, q4, q5, q6, chk_true, List.nil_append]

/-- the ledgers of an accepted receipt are exactly the expected ones -/
theorem logs_expected : ∀ (logs : List SwapLog) (s s' : State), stepLogs s logs = .ok s' →
    s'.bank = (expectLogs s logs).bank ∧ s'.evm = (expectLogs s logs).evm
  | [], s, s', h => by simp only [stepLogs] at h; cases h; exact ⟨rfl, rfl⟩
  | l :: rest, s, s', h => by
    simp only [stepLogs] at h
    split at h; · cases h
    rename_i s1 h1
    have ih := logs_expected rest s1 s' h
    unfold stepLog at h1
    cases hem : l.emitter with
    | u n =>
      rw [hem] at h1
      simp only at h1
      cases h1
      simp only [expectLogs, hem]
      exact ih
    | k c =>
      rw [hem] at h1
      simp only at h1
      obtain ⟨_, _, h3⟩ := hook_ok h1
      rcases h3 with ⟨rfl, hnone⟩ | ⟨sym, t, hc, ht, _, _, rfl⟩
      · simp only [expectLogs, hem, hnone]
        exact ih
      · have hb : (AMap.get? s.contracts c).bind (AMap.get? s.tokens) = some t := by simp [hc, ht]
        simp only [expectLogs, hem, hb]
        exact ih

theorem evm_tx (s s' : State) (target : Emitter) (logs : List SwapLog) (hwf : WF s) (hb : Bound s)
    (hsound : Sound s.bank) (hs : step s (.evmTx target logs) = .ok s') :
    Spec.C10.acceptedFails s (.evmTx target logs) s' = [] := by
  obtain ⟨f, _, hcons⟩ := Props.C10.evm_tx_conserves s s' target logs hwf hb hsound hs
  obtain ⟨eb, ee⟩ := logs_expected logs s s' (evmTx_ok hs)
  unfold Spec.C10.acceptedFails
  have q1 : combinedSame s s' = true := by
    unfold combinedSame
    apply allB_of
    intro sym t ht
    by_cases hc : t.contract = 0
    · simp [hc]
    · have := hcons sym t ht hc
      unfold Props.C10.combined at this
      simp [this]
  have q2 : bankSame (expectLogs s logs) s' = true := bankSame_of _ _ eb
  have q3 : evmSameExcept (expectLogs s logs) s' [] = true := evmSame_of _ _ _ (fun _ _ => by unfold evmBal; rw [ee])
  have q4 : tokensSameExcept s s' "" = true := tokensSame_of _ _ _ (fun _ _ => by rw [f.tokens])
  simp only [q1, q2, q3, q4, chk_true, List.nil_append]

theorem evmSame_of_eq (s s' : State) (ee : s'.evm = s.evm) : evmSameExcept s s' [] = true :=
  evmSame_of s s' [] (fun _ _ => by unfold evmBal; rw [ee])

theorem c10_accepted_core (s s' : State) (op : Op) (hn : norm op = op) (hwf : WF s) (hb : Bound s)
    (hsound : Sound s.bank) (hs : step s op = .ok s') : Spec.C10.acceptedFails s op s' = [] := by
  cases op with
  | swapToErc20 sender receiver denom amount => exact to_erc20 s s' _ _ _ _ hsound hs
  | swapFromErc20 sender receiver denom amount => exact from_erc20 s s' _ _ _ _ hs
  | hookSwap src c rcv amount => exact hook s s' _ _ _ _ hs
  | swapFee sender rcv denom amount => exact swap_fee s s' _ _ _ _ hwf hsound hs
  | evmTx target logs => exact evm_tx s s' _ _ hwf hb hsound hs
  | deploy authority name symbol minUnit scale =>
    obtain ⟨t, _, _, hs'⟩ := deploy_ok hs
    have eb : s'.bank = s.bank := by rw [hs']
    have ee : s'.evm = s.evm := by rw [hs']
    simp only [Spec.C10.acceptedFails, bankSame_of _ _ eb, evmSame_of_eq s s' ee, Bool.and_self, chk_true]
  | evmFault mode =>
    have hs' := evmFault_ok hs
    have eb : s'.bank = s.bank := by rw [hs']
    have ee : s'.evm = s.evm := by rw [hs']
    simp only [Spec.C10.acceptedFails, bankSame_of _ _ eb, evmSame_of_eq s s' ee, Bool.and_self, chk_true]
  | upgradeErc20 authority impl =>
    obtain ⟨ha, he, hbc, _, hcode, hs'⟩ := upgrade_ok hs
    have eb : s'.bank = s.bank := by rw [hs']
    have ee : s'.evm = s.evm := by rw [hs']
    have et : s'.tokens = s.tokens := by rw [hs']
    have ei : s'.impl = impl := by rw [hs']
    have q1 : (authority == GOV) = true := by simp [ha]
    have q3 : tokensSameExcept s s' "" = true := tokensSame_of _ _ _ (fun _ _ => by rw [et])
    have q4 : (s'.impl == impl) = true := by simp [ei]
    simp only [Spec.C10.acceptedFails, q1, he, hbc, hcode, bankSame_of _ _ eb, evmSame_of_eq s s' ee, q3, q4, Bool.and_self,
      chk_true, List.nil_append]
  | issue owner symbol name minUnit scale init max mintable =>
    obtain ⟨_, _, s1, h1, _, _, hs'⟩ := issue_ok hs
    obtain ⟨_, _, _, _, _, _, _, rfl⟩ := deductFee_ok h1
    have ee : s'.evm = s.evm := by rw [hs']; rfl
    simp only [Spec.C10.acceptedFails, evmSame_of_eq s s' ee, chk_true]
  | edit owner symbol name max mintable =>
    obtain ⟨t, _, _, _, hs'⟩ := edit_ok hs
    have ee : s'.evm = s.evm := by rw [hs']
    simp only [Spec.C10.acceptedFails, evmSame_of_eq s s' ee, chk_true]
  | mint owner rcv denom amount =>
    have ee := (Props.C10.frame_mintH (mint_handle hs).2.2).2.2.2.1
    simp only [Spec.C10.acceptedFails, evmSame_of_eq s s' ee, chk_true]
  | burn sender denom amount =>
    have ee := (Props.C10.frame_burnH (burn_handle hs).2.2).2.2.2.1
    simp only [Spec.C10.acceptedFails, evmSame_of_eq s s' ee, chk_true]
  | transferOwner src dst symbol =>
    obtain ⟨_, t, _, _, hs'⟩ := transferOwner_ok hs
    have ee : s'.evm = s.evm := by rw [hs']
    simp only [Spec.C10.acceptedFails, evmSame_of_eq s s' ee, chk_true]
  | updateParams authority p =>
    have hs' := (updateParams_ok hs).2
    have ee : s'.evm = s.evm := by rw [hs']
    simp only [Spec.C10.acceptedFails, evmSame_of_eq s s' ee, chk_true]
  | legacyIssue _ _ _ _ _ _ _ _ => cases hn
  | legacyEdit _ _ _ _ _ => cases hn
  | legacyTransferOwner _ _ _ => cases hn
  | legacyMint owner rcv symbol amount =>
    obtain ⟨_, _, t, _, _, _, hh⟩ := legacyMint_ok hs
    have ee := (Props.C10.frame_mintH hh).2.2.2.1
    simp only [Spec.C10.acceptedFails, evmSame_of_eq s s' ee, chk_true]
  | legacyBurn sender symbol amount =>
    obtain ⟨_, _, t, _, _, _, hh⟩ := legacyBurn_ok hs
    have ee := (Props.C10.frame_burnH hh).2.2.2.1
    simp only [Spec.C10.acceptedFails, evmSame_of_eq s s' ee, chk_true]

theorem c10_acceptedFails_norm (s s' : State) (op : Op) :
    Spec.C10.acceptedFails s (norm op) s' = Spec.C10.acceptedFails s op s' := by
  cases op <;> rfl

/-- **C10 monitor soundness**: on every model step (any of the 19 operations) from a state with
consistent tables, a consistent contract binding and a sound bank, every clause of
`Spec.C10.stepFails` holds -/
theorem c10_monitor_sound (s : State) (op : Op) (hwf : WF s) (hb : Bound s) (hsound : Sound s.bank) :
    Spec.C10.stepFails s op (accepted s op) (apply s op) = [] := by
  unfold Spec.C10.stepFails accepted apply
  cases hs : step s op with
  | error e =>
    simp only [Bool.false_eq_true, if_false]
    rw [sameState_refl]; rfl
  | ok s' =>
    simp only [if_true]
    rw [← c10_acceptedFails_norm,
      c10_accepted_core s s' (norm op) (norm_idem op) hwf hb hsound (by rw [← step_norm]; exact hs)]
    cases hu : Spec.C10.isUpgrade op with
    | true => rfl
    | false =>
      have := Props.C10.impl_changes_only_by_upgrade s s' op hs hu
      simp [this, chk]

end C10

/-! ### C12 (token clauses): `token export` / `token reimport` -/

namespace C12
open Irismod.TokenGenesis Irismod.Spec.C12.Token Irismod.Props.C12.Token Irismod.Proofs.GenesisList

theorem sameState_of_obsEq {s s' : State} (h : ObsEq s' s) : sameState s s' = true := by
  have hburn : ∀ d, AMap.get? s.burned d = AMap.get? s'.burned d := by
    intro d
    have hk := h.burnedKeys d
    have hv := h.burned d
    rw [mem_keys_iff, mem_keys_iff] at hk
    unfold burnedOf AMap.getD at hv
    cases h1 : AMap.get? s.burned d with
    | none =>
      cases h2 : AMap.get? s'.burned d with
      | none => rfl
      | some v => exact absurd (hk.mp ⟨v, h2⟩) (by rintro ⟨w, hw⟩; rw [h1] at hw; cases hw)
    | some v =>
      obtain ⟨w, hw⟩ := hk.mpr ⟨v, h1⟩
      rw [h1, hw] at hv
      simp only [Option.getD] at hv
      rw [hw, hv]
  unfold sameState
  rw [tableSame_of _ _ (fun k => (h.tokens k).symm), tableSame_of _ _ (fun k => (h.minUnits k).symm),
      tableSame_of _ _ (fun k => (h.owners k).symm), tableSame_of _ _ hburn,
      tableSame_of _ _ (fun k => (h.contracts k).symm), bankSame_of s s' h.bank,
      evmSame_of s s' [] (fun _ _ => by unfold evmBal; rw [h.evm])]
  simp [h.params, h.nonce, h.fault, h.impl]

/-- **C12 monitor soundness, `token export`**: on a reachable state outside the recorded classes the
clause holds; inside them every failure carries the class tag (never an unclassified failure) -/
theorem export_sound (s : State) (h : Reach s) :
    ∀ f ∈ exportFails s (validateGenesis (exportGenesis s)), f.cls ≠ "" := by
  intro f hf
  unfold exportFails chk at hf
  split at hf
  · cases hf
  · rename_i hv
    simp only [List.mem_singleton] at hf
    subst hf
    simp only
    unfold exportClass
    by_cases h9 : maxBelowInit s = true
    · simp [h9]
    · by_cases h11 : badIdentity s = true
      · simp [h9, h11]
      · exfalso
        exact hv (tok_export_validates s h (by simpa using h9) (by simpa using h11))

theorem export_sound_outside (s : State) (h : Reach s) (h9 : maxBelowInit s = false) (h11 : badIdentity s = false) :
    exportFails s (validateGenesis (exportGenesis s)) = [] := by
  unfold exportFails
  rw [tok_export_validates s h h9 h11]; rfl

/-- **C12 monitor soundness, `token reimport`**: when the model's import succeeds the clause
`reimport-changed-state` holds (whatever the classes); when it panics the failure carries the tag
of a recorded class -/
theorem reimport_sound (s : State) (h : Reach s) :
    match reimport s with
    | .ok s' => reimportFails s true s' = []
    | .error _ => ∀ f ∈ reimportFails s false s, f.cls ≠ "" := by
  cases hr : reimport s with
  | ok s' =>
    simp only
    have ho := Proofs.TokenGenesis.reimport_ok_obsEq s s' h.wf h.own h.ctr h.gen hr
    unfold reimportFails
    simp only [if_true]
    rw [sameState_of_obsEq ho]; rfl
  | error e =>
    simp only
    intro f hf
    unfold reimportFails chk at hf
    simp only [Bool.false_eq_true, if_false, List.mem_singleton] at hf
    subst hf
    simp only
    unfold importClass
    by_cases h9 : maxBelowInit s = true
    · simp [h9]
    · by_cases h11 : badIdentity s = true
      · simp [h9, h11]
      · by_cases h10 : feeDenomUnregistered s = true
        · simp [h9, h11, h10]
        · exfalso
          obtain ⟨_, s', h1, _⟩ := tok_roundtrip s h (by simpa using h9) (by simpa using h10) (by simpa using h11)
          rw [hr] at h1; cases h1

end C12

/-! ### non-vacuity: the hypotheses are met by every state reachable from genesis -/

example (bank : Bank) (p : Params) (env : Env) (ops : List Op) (op : Op)
    (hb : Sound bank) :
    Spec.C09.stepFails (run (genesis bank p env) ops) op (accepted (run (genesis bank p env) ops) op)
      (apply (run (genesis bank p env) ops) op) = [] :=
  c09_monitor_sound _ op (Props.C09.wf_reachable bank p env ops)
    (Props.C09.ownidx_run _ ops (Props.C09.wf_genesis bank p env) (Props.C09.ownidx_genesis bank p env))
    (Props.C10.sound_run _ ops hb)

example (bank : Bank) (p : Params) (env : Env) (ops : List Op) (op : Op) (hb : Sound bank) :
    Spec.C10.stepFails (run (genesis bank p env) ops) op (accepted (run (genesis bank p env) ops) op)
      (apply (run (genesis bank p env) ops) op) = [] :=
  C10.c10_monitor_sound _ op (Props.C09.wf_reachable bank p env ops)
    (Props.C10.boundinv_run _ ops (Props.C10.boundinv_genesis bank p env)).bound
    (Props.C10.sound_run _ ops hb)

end Irismod.Proofs.TokenMonitor
