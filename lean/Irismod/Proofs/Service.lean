/-
Helper lemmas for the service theorems (C07 / C08 / C13 service slice): bank frames, map sums,
and the effect of each model primitive on the ledger projections of `Spec/C07.lean`.
-/
import Irismod.Spec.C07

namespace Irismod.Proofs.Service
open Irismod Irismod.Sdk Irismod.Service Irismod.Spec.C07

/-! ### bank facts -/

theorem send_balOf_other {b b' : Bank} {src dst : Addr} {d : Denom} {n : Nat}
    (h : Bank.send b src dst d n = some b') (a : Addr) (d' : Denom) (h1 : (a, d') ≠ (src, d)) (h2 : (a, d') ≠ (dst, d)) :
    Bank.balOf b' a d' = Bank.balOf b a d' := by
  unfold Bank.send at h
  split at h
  · cases h
  · cases h
    rw [Bank.balOf_setBal_other _ _ _ _ _ _ (Ne.symm h2), Bank.balOf_setBal_other _ _ _ _ _ _ (Ne.symm h1)]

theorem send_balOf_dst {b b' : Bank} {src dst : Addr} {d : Denom} {n : Nat} (hne : src ≠ dst)
    (h : Bank.send b src dst d n = some b') : Bank.balOf b' dst d = Bank.balOf b dst d + n :=
  (Bank.send_deltas b b' src dst d n hne h).2.1

theorem send_balOf_src {b b' : Bank} {src dst : Addr} {d : Denom} {n : Nat} (hne : src ≠ dst)
    (h : Bank.send b src dst d n = some b') : Bank.balOf b' src d + n = Bank.balOf b src d :=
  (Bank.send_deltas b b' src dst d n hne h).1

theorem send_le {b b' : Bank} {src dst : Addr} {d : Denom} {n : Nat}
    (h : Bank.send b src dst d n = some b') : n ≤ Bank.balOf b src d := by
  unfold Bank.send at h
  split at h
  · cases h
  · omega

theorem send_isSome {b : Bank} {src dst : Addr} {d : Denom} {n : Nat} (h : n ≤ Bank.balOf b src d) :
    ∃ b', Bank.send b src dst d n = some b' := by
  unfold Bank.send
  split
  · omega
  · exact ⟨_, rfl⟩

/-- a send that involves account `a` in no way leaves all of `a`'s balances alone -/
theorem send_frame {b b' : Bank} {src dst : Addr} {d : Denom} {n : Nat}
    (h : Bank.send b src dst d n = some b') (a : Addr) (hs : a ≠ src) (hd : a ≠ dst) (d' : Denom) :
    Bank.balOf b' a d' = Bank.balOf b a d' :=
  send_balOf_other h a d' (by intro e; cases e; exact hs rfl) (by intro e; cases e; exact hd rfl)

theorem sendCoins_frame {src dst : Addr} (a : Addr) (hs : a ≠ src) (hd : a ≠ dst) :
    ∀ (c : Coins) (b b' : Bank), Bank.sendCoins b src dst c = some b' → ∀ d', Bank.balOf b' a d' = Bank.balOf b a d'
  | [], b, b', h, d' => by simp [Bank.sendCoins] at h; subst h; rfl
  | (d, n) :: rest, b, b', h, d' => by
    simp only [Bank.sendCoins] at h
    cases h1 : Bank.send b src dst d n with
    | none => simp [h1] at h
    | some b1 =>
      simp only [h1, Option.bind] at h
      rw [sendCoins_frame a hs hd rest b1 b' h d', send_frame h1 a hs hd d']

theorem debitCoins_frame (a x : Addr) (hx : a ≠ x) :
    ∀ (c : Coins) (b : Bank) (d' : Denom), Bank.balOf (debitCoins b x c).1 a d' = Bank.balOf b a d'
  | [], _, _ => rfl
  | (d, n) :: rest, b, d' => by
    simp only [debitCoins]
    split
    · rfl
    · rw [debitCoins_frame a x hx rest _ d']
      exact Bank.balOf_setBal_other _ _ _ _ _ _ (by intro e; cases e; exact hx rfl)

theorem creditCoins_frame (a x : Addr) (hx : a ≠ x) :
    ∀ (c : Coins) (b : Bank) (d' : Denom), Bank.balOf (creditCoins b x c) a d' = Bank.balOf b a d'
  | [], _, _ => rfl
  | (d, n) :: rest, b, d' => by
    simp only [creditCoins]
    rw [creditCoins_frame a x hx rest _ d']
    exact Bank.balOf_setBal_other _ _ _ _ _ _ (by intro e; cases e; exact hx rfl)

/-! ### map sums -/

theorem sumBy_set {K V : Type} [DecidableEq K] (f : V → Nat) (m : AMap K V) (k : K) (v : V) :
    AMap.sumBy f (AMap.set m k v) + ((AMap.get? m k).map f).getD 0 = AMap.sumBy f m + f v := by
  have h := AMap.sumIf_set (fun _ : K => true) f m k v
  simpa [AMap.sumBy] using h

theorem get?_none_of_not_contains {K V : Type} [DecidableEq K] {m : AMap K V} {k : K}
    (h : AMap.contains m k = false) : AMap.get? m k = none := by
  unfold AMap.contains at h
  cases hg : AMap.get? m k with
  | none => rfl
  | some v => simp [hg] at h

end Irismod.Proofs.Service
