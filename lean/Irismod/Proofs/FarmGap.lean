/-
C05(b): the module-account identity, component `modacc` of the bundle, operation by operation.
-/
import Irismod.Proofs.FarmInv

namespace Irismod.Proofs.Farm
open Irismod Irismod.Sdk Irismod.Farm Irismod.Spec

theorem user_ne {a : Addr} (h : isModuleAcc a = false) : a ≠ farmAcc ∧ a ≠ collectorAcc ∧ a ≠ feesAcc := by
  unfold isModuleAcc at h
  simp only [Bool.or_eq_false_iff, decide_eq_false_iff_not] at h
  exact ⟨h.1.1.1.1.1, h.1.1.1.1.2, h.1.1.1.2⟩

/-- a pool creator (a user account or the distribution module account) is none of the farm
module's own accounts -/
theorem creator_ne {a : Addr} (h : isModuleAcc a = false ∨ a = distrAcc) : a ≠ farmAcc ∧ a ≠ collectorAcc ∧ a ≠ feesAcc := by
  rcases h with h | h
  · exact user_ne h
  · rw [h]; exact distr_ne

theorem gap_congr {s s' : State} (hb : s'.bank = s.bank) (hp : s'.pools = s.pools) (d : Denom) : gap s' d = gap s d := by
  unfold gap C05.expectedFarm; rw [hb, hp]

/-- replacing the record of pool `id` -/
theorem expected_set {s s' : State} {id : PoolId} {p q : Pool} (hp : getPool s id = some p)
    (hpools : s'.pools = AMap.set s.pools id q) (d : Denom) :
    C05.expectedFarm s' d + C05.poolHolds d p = C05.expectedFarm s d + C05.poolHolds d q := by
  unfold C05.expectedFarm
  rw [hpools]
  have := sumBy_set (C05.poolHolds d) s.pools id q
  unfold getPool at hp
  rw [hp] at this
  simpa using this

/-- adding a record under a fresh id -/
theorem expected_new {s s' : State} {id : PoolId} {q : Pool} (hp : getPool s id = none)
    (hpools : s'.pools = AMap.set s.pools id q) (d : Denom) :
    C05.expectedFarm s' d = C05.expectedFarm s d + C05.poolHolds d q := by
  unfold C05.expectedFarm
  rw [hpools]
  have := sumBy_set (C05.poolHolds d) s.pools id q
  unfold getPool at hp
  rw [hp] at this
  simpa using this

theorem gap_updOk {s s' : State} {id : PoolId} {p p' : Pool} {amount : Int} {b : Bool}
    (h : UpdOk s s' id p p' amount b) (hp : getPool s id = some p) (d : Denom) :
    gap s' d = gap s d - (if p.lpt = d then amount else 0) := by
  have he := expected_set hp h.pools d
  have hf := h.farm d
  have hr := h.remLe d
  have hl := updOk_locked h
  have hlpt : p'.lpt = p.lpt := (updOk_fields h).2.2.2.1
  unfold gap
  unfold C05.poolHolds at he
  rw [hlpt] at he
  split
  · rename_i e; simp only [e, if_true] at he; omega
  · rename_i e; simp only [e, if_false] at he; omega

theorem gap_send_in {s s' : State} {src : Addr} {cs : CoinList} (hne : src ≠ farmAcc)
    (h : sendAll s src farmAcc cs = .ok s') (d : Denom) : gap s' d = gap s d + sumOf cs d := by
  obtain ⟨bo, hb⟩ := sendAll_ok h
  obtain ⟨_, d2, _⟩ := sendCoins_deltas _ _ _ _ _ hne hb
  unfold gap C05.expectedFarm
  rw [bo.pools, d2 d]; omega

theorem gap_send_out {s s' : State} {dst : Addr} {cs : CoinList} (hne : dst ≠ farmAcc)
    (h : sendAll s farmAcc dst cs = .ok s') (d : Denom) : gap s' d = gap s d - sumOf cs d := by
  obtain ⟨bo, hb⟩ := sendAll_ok h
  obtain ⟨d1, _, _⟩ := sendCoins_deltas _ _ _ _ _ (Ne.symm hne) hb
  unfold gap C05.expectedFarm
  rw [bo.pools]; have := d1 d; omega

theorem gap_pay {s s' : State} {a : Addr} {rw : CoinList} (hne : a ≠ farmAcc) (hne2 : a ≠ collectorAcc)
    (h : payRewards s a rw = .ok s') (d : Denom) : gap s' d = gap s d := by
  obtain ⟨bo, hb⟩ := payRewards_ok h
  obtain ⟨_, _, d3⟩ := sendCoins_deltas _ _ _ _ _ (Ne.symm hne2) hb
  unfold gap C05.expectedFarm
  rw [bo.pools, d3 farmAcc d farm_ne_collector (Ne.symm hne)]

/-! ### bank: burn, fee -/

theorem burn_deltas (b b' : Bank) (src : Addr) (d : Denom) (n : Nat) (h : Bank.burn b src d n = some b') :
    Bank.balOf b' src d + n = Bank.balOf b src d ∧
    ∀ a' d', (a', d') ≠ (src, d) → Bank.balOf b' a' d' = Bank.balOf b a' d' := by
  unfold Bank.burn at h
  split at h
  · cases h
  · cases h
    refine ⟨?_, ?_⟩
    · show Bank.balOf (Bank.setBal b src d _) src d + n = _
      rw [Bank.balOf_setBal_self]; omega
    · intro a' d' hne
      show Bank.balOf (Bank.setBal b src d _) a' d' = _
      exact Bank.balOf_setBal_other _ _ _ _ _ _ (Ne.symm hne)

theorem gap_deductFee {s s' : State} {a : Addr} (hne : a ≠ farmAcc) (h : deductFee s a = .ok s') (d : Denom) :
    gap s' d = gap s d := by
  have bo := deductFee_ok h
  unfold deductFee at h
  split at h; · cases h
  split at h; · cases h
  rename_i tax _
  split at h; · cases h
  rename_i htax
  split at h; · cases h
  rename_i b1 h1
  split at h; · cases h
  rename_i b2 h2
  split at h; · cases h
  rename_i b3 h3
  cases h
  have hff : farmAcc ≠ feesAcc := by decide
  obtain ⟨_, e12, e13⟩ := Bank.send_deltas _ _ _ _ _ _ hne h1
  obtain ⟨e21, _, e23⟩ := Bank.send_deltas _ _ _ _ _ _ hff h2
  obtain ⟨e31, e32⟩ := burn_deltas _ _ _ _ _ h3
  have hbal : Bank.balOf b3 farmAcc d = Bank.balOf s.bank farmAcc d := by
    by_cases hd : feeDenom = d
    · subst hd
      have : tax.toNat ≤ s.params.fee := by omega
      omega
    · have hp : ∀ x : Addr, (farmAcc, d) ≠ (x, feeDenom) := fun x e => hd (Prod.mk.inj e).2.symm
      have a1 := e13 farmAcc d (hp _) (hp _)
      have a2 := e23 farmAcc d (hp _) (hp _)
      have a3 := e32 farmAcc d (hp _)
      omega
  unfold gap C05.expectedFarm
  show (Bank.balOf b3 farmAcc d : Int) - (AMap.sumBy (C05.poolHolds d) s.pools : Nat) = _
  rw [hbal]

/-! ### coin-list arithmetic for create / adjust / refund -/

theorem remainingIn_newRules (total rpb : CoinList) (d : Denom) :
    C05.remainingIn d (newRules total rpb) = sumOf total d := by
  induction total with
  | nil => rfl
  | cons c t ih =>
    obtain ⟨d0, n⟩ := c
    simp only [newRules, List.map_cons, C05.remainingIn, sumOf] at ih ⊢
    rw [ih]

theorem sumOf_refundCoins (rs : List Rule) (d : Denom) : sumOf (refundCoins rs) d = C05.remainingIn d rs := by
  unfold refundCoins
  rw [sumOf_nonzero]
  induction rs with
  | nil => rfl
  | cons r t ih => simp [sumOf, C05.remainingIn, ih]

theorem remainingIn_zeroRules (rs : List Rule) (d : Denom) : C05.remainingIn d (zeroRules rs) = 0 := by
  induction rs with
  | nil => rfl
  | cons r t ih =>
    simp only [zeroRules, List.map_cons, C05.remainingIn] at ih ⊢
    rw [ih]; split <;> rfl

theorem sumOf_eq_zero_of_not_mem (cs : CoinList) (d : Denom) (h : d ∉ cs.map (·.1)) : sumOf cs d = 0 := by
  induction cs with
  | nil => rfl
  | cons c t ih =>
    obtain ⟨d0, n⟩ := c
    simp only [List.map_cons, List.mem_cons, not_or] at h
    simp [sumOf, Ne.symm h.1, ih h.2]

theorem amountOf_eq_zero_of_not_mem (cs : CoinList) (d : Denom) (h : d ∉ cs.map (·.1)) : amountOf cs d = 0 := by
  induction cs with
  | nil => rfl
  | cons c t ih =>
    obtain ⟨d0, n⟩ := c
    simp only [List.map_cons, List.mem_cons, not_or] at h
    simp [amountOf, Ne.symm h.1, ih h.2]

theorem amountOf_eq_sumOf (cs : CoinList) (d : Denom) (hn : (cs.map (·.1)).Nodup) : amountOf cs d = sumOf cs d := by
  induction cs with
  | nil => rfl
  | cons c t ih =>
    obtain ⟨d0, n⟩ := c
    simp only [List.map_cons, List.nodup_cons] at hn
    by_cases e : d0 = d
    · subst e
      simp [amountOf, sumOf, sumOf_eq_zero_of_not_mem t d0 hn.1]
    · simp [amountOf, sumOf, e, ih hn.2]

/-- strictly sorted coin lists have pairwise distinct denoms -/
theorem sorted_nodup : ∀ (cs : CoinList), sortedCoins cs = true → (cs.map (·.1)).Nodup
  | [], _ => List.nodup_nil
  | [(a, x)], _ => by simp
  | (a, x) :: (b, y) :: t, h => by
    simp only [sortedCoins, Bool.and_eq_true, decide_eq_true_eq] at h
    have ih := sorted_nodup ((b, y) :: t) h.2
    have hlt : ∀ c ∈ ((b, y) :: t).map (·.1), a < c := by
      -- every later denom is larger
      have : ∀ (cs : CoinList) (a0 : Denom) (x0 : Nat), sortedCoins ((a0, x0) :: cs) = true → ∀ c ∈ cs.map (·.1), a0 < c := by
        intro cs
        induction cs with
        | nil => intro _ _ _ c hc; simp at hc
        | cons hd tl ihc =>
          obtain ⟨b0, y0⟩ := hd
          intro a0 x0 hs c hc
          simp only [sortedCoins, Bool.and_eq_true, decide_eq_true_eq] at hs
          simp only [List.map_cons, List.mem_cons] at hc
          rcases hc with e | e
          · subst e; exact hs.1
          · exact String.lt_trans hs.1 (ihc b0 y0 hs.2 c e)
      exact this _ a x (by simp only [sortedCoins, Bool.and_eq_true, decide_eq_true_eq]; exact h)
    simp only [List.map_cons, List.nodup_cons]
    refine ⟨?_, by simpa using ih⟩
    intro hm
    have := hlt a (by simpa using hm)
    exact absurd this (String.lt_irrefl a)

/-- the top-up booked on the rules equals the coins escrowed, denom by denom -/
theorem remainingIn_adjustRules (add rpb : CoinList) (rs : List Rule) (d : Denom)
    (hn : (rs.map (·.denom)).Nodup) (hadd : (add.map (·.1)).Nodup)
    (hsub : ∀ c ∈ add, ∃ r ∈ rs, r.denom = c.1) :
    C05.remainingIn d (adjustRules add rpb rs) = C05.remainingIn d rs + sumOf add d := by
  have key : ∀ (rs : List Rule), (rs.map (·.denom)).Nodup →
      C05.remainingIn d (adjustRules add rpb rs) = C05.remainingIn d rs + (if d ∈ rs.map (·.denom) then amountOf add d else 0) := by
    intro rs
    induction rs with
    | nil => intro _; rfl
    | cons r t ih =>
      intro hnd
      simp only [List.map_cons, List.nodup_cons] at hnd
      have := ih hnd.2
      simp only [adjustRules, List.map_cons, C05.remainingIn, List.mem_cons] at this ⊢
      rw [this]
      by_cases e : r.denom = d
      · subst e
        simp only [if_true, true_or]
        simp only [hnd.1, if_false]
        omega
      · have e' : ¬ d = r.denom := fun h => e h.symm
        simp only [e, if_false, e', false_or]
        omega
  rw [key rs hn]
  by_cases hm : d ∈ rs.map (·.denom)
  · simp only [hm, if_true]; rw [amountOf_eq_sumOf add d hadd]
  · simp only [hm, if_false]
    have : d ∉ add.map (·.1) := by
      intro hc
      simp only [List.mem_map] at hc
      obtain ⟨c, hc1, hc2⟩ := hc
      obtain ⟨r, hr1, hr2⟩ := hsub c hc1
      apply hm
      simp only [List.mem_map]
      exact ⟨r, hr1, by rw [hr2, hc2]⟩
    rw [sumOf_eq_zero_of_not_mem add d this]

end Irismod.Proofs.Farm
