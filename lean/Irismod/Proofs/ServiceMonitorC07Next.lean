/-
Monitor soundness, C07, the END-BLOCK clause group `Spec.C07.checkNext`: on the model's accepted end block
(`apply s (.next dt) = nextBlock { s with cb := [] } dt`) from an invariant state every clause passes and
nothing is recorded as stranded.

Structure: list / decimal facts; the fee-collector side condition `NoFcConsumer` (a context whose consumer
is the fee collector would be refunded / debited in the end block and break `slash-exact`); the
expired-batch phase relative to the pre-state (`ExpRel`: refunds, slash counts, escrow → collector flow);
the new-batch phase relative to the state after the first phase (`NewRel`: created requests, their fees
and prices, the charge); the five clause groups; the headline theorem `c07_next_sound`.
-/
import Irismod.Proofs.ServiceMonitorBase

namespace Irismod.Proofs.ServiceMonitor
open Irismod Irismod.Sdk Irismod.Service Irismod.Spec.C07 Irismod.Proofs.Service
open Irismod.Proofs.ServiceGenesis Irismod.Proofs.GenesisList

/-! ### list facts -/

/-- a filter predicate that newly admits exactly one element `a` of a duplicate-free list adds `a`'s
term (if the second filter keeps it) -/
theorem sum_filter_step {α : Type} [DecidableEq α] (f : α → Nat) (m p p' : α → Bool) (a : α) :
    ∀ (l : List α), l.Nodup → a ∈ l → p a = false → p' a = true → (∀ x, x ≠ a → p' x = p x) →
      sumList (((l.filter p').filter m).map f) =
        sumList (((l.filter p).filter m).map f) + (if m a = true then f a else 0)
  | [], _, hm, _, _, _ => by cases hm
  | x :: t, hn, hm, hpa, hpa', hoth => by
    rw [List.nodup_cons] at hn
    by_cases hx : x = a
    · subst hx
      have hsame : t.filter p' = t.filter p := by
        apply List.filter_congr
        intro y hy
        exact hoth y (fun e => hn.1 (e ▸ hy))
      rw [List.filter_cons, if_pos hpa', List.filter_cons (p := p), if_neg (by rw [hpa]; simp), hsame]
      by_cases hma : m x = true
      · rw [List.filter_cons, if_pos hma, if_pos hma]
        simp only [List.map, sumList]; omega
      · rw [List.filter_cons, if_neg hma, if_neg hma]; rfl
    · have hm' : a ∈ t := by
        rcases List.mem_cons.mp hm with h | h
        · exact absurd h.symm hx
        · exact h
      have ih := sum_filter_step f m p p' a t hn.2 hm' hpa hpa' hoth
      have hpx := hoth x hx
      by_cases hp : p x = true
      · rw [List.filter_cons, if_pos (by rw [hpx]; exact hp), List.filter_cons (p := p), if_pos hp]
        by_cases hmx : m x = true
        · rw [List.filter_cons, if_pos hmx, List.filter_cons (p := m), if_pos hmx]
          simp only [List.map, sumList]; omega
        · rw [List.filter_cons, if_neg hmx, List.filter_cons (p := m), if_neg hmx]; exact ih
      · rw [List.filter_cons, if_neg (by rw [hpx]; exact hp), List.filter_cons (p := p), if_neg hp]; exact ih

theorem length_eq_sumList {α : Type} : ∀ (l : List α), l.length = sumList (l.map (fun _ => 1))
  | [] => rfl
  | _ :: t => by simp only [List.length_cons, List.map, sumList, length_eq_sumList t]; omega

/-- the counting version of `sum_filter_step` -/
theorem length_filter_step {α : Type} [DecidableEq α] (m p p' : α → Bool) (a : α)
    (l : List α) (hn : l.Nodup) (ha : a ∈ l) (hpa : p a = false) (hpa' : p' a = true) (hoth : ∀ x, x ≠ a → p' x = p x) :
    ((l.filter p').filter m).length = ((l.filter p).filter m).length + (if m a = true then 1 else 0) := by
  rw [length_eq_sumList, length_eq_sumList]
  exact sum_filter_step (fun _ => 1) m p p' a l hn ha hpa hpa' hoth

theorem foldl_const {α β : Type} (f : β → α → β) (h : ∀ acc a, f acc a = acc) : ∀ (l : List α) (init : β), l.foldl f init = init
  | [], _ => rfl
  | a :: t, init => by simp only [List.foldl]; rw [h, foldl_const f h t]

theorem sumList_filter_all {α : Type} (f : α → Nat) (p : α → Bool) (l : List α) (h : ∀ x, x ∈ l → p x = true) :
    sumList ((l.filter p).map f) = sumList (l.map f) := by
  rw [List.filter_eq_self.mpr h]

theorem sumList_filter_none {α : Type} (f : α → Nat) (p : α → Bool) (l : List α) (h : ∀ x, x ∈ l → p x = false) :
    sumList ((l.filter p).map f) = 0 := by
  have : l.filter p = [] := List.filter_eq_nil_iff.mpr (fun x hx => by rw [h x hx]; simp)
  rw [this]; rfl

/-! ### decimals: a fraction of at most one never exceeds the whole -/

theorem chopRoundNat_le (y b : Nat) (h : y ≤ b * 1000000000000000000) : chopRoundNat y ≤ b := by
  have hq : y / 1000000000000000000 ≤ b := Nat.div_le_of_le_mul (by rw [Nat.mul_comm]; exact h)
  have hlt : y % 1000000000000000000 ≠ 0 → y / 1000000000000000000 < b := by
    intro hr
    rcases Nat.lt_or_eq_of_le hq with h1 | h1
    · exact h1
    · exfalso; apply hr
      have h2 := Nat.div_mul_le_self y 1000000000000000000
      rw [h1] at h2
      have h3 : y = b * 1000000000000000000 := Nat.le_antisymm h h2
      rw [h3]; simp [Nat.mul_mod_left]
  unfold chopRoundNat
  simp only
  generalize y / 1000000000000000000 = q at *
  generalize y % 1000000000000000000 = r at *
  split
  · exact hq
  · rename_i hr
    have := hlt hr
    split
    · exact hq
    · split
      · omega
      · split
        · exact hq
        · omega

theorem mulTrunc_le (n : Nat) (r : Dec) (h0 : 0 ≤ r.raw) (h1 : r.raw ≤ precision) : mulTrunc n r ≤ n := by
  obtain ⟨k, hk⟩ := Int.eq_ofNat_of_zero_le h0
  have hk1 : k ≤ 1000000000000000000 := by
    have : (k : Int) ≤ (1000000000000000000 : Nat) := by rw [← hk]; exact h1
    exact Int.ofNat_le.mp this
  have hprod : (decOfNat n).raw * r.raw = ((n * 1000000000000000000 * k : Nat) : Int) := by
    show (n : Int) * precision * r.raw = _
    rw [hk]
    show (n : Int) * ((1000000000000000000 : Nat) : Int) * (k : Int) = _
    rw [Int.natCast_mul, Int.natCast_mul]
  have hle : n * 1000000000000000000 * k ≤ (n * 1000000000000000000) * 1000000000000000000 :=
    Nat.mul_le_mul_left _ hk1
  have hq := chopRoundNat_le _ _ hle
  unfold mulTrunc truncNat mulDec
  simp only
  rw [hprod]
  unfold chopRound
  rw [if_neg (Int.not_lt.mpr (Int.natCast_nonneg _)), Int.natAbs_natCast]
  generalize chopRoundNat (n * 1000000000000000000 * k) = q at hq
  unfold chopTrunc
  show ((q : Int).tdiv ((1000000000000000000 : Nat) : Int)).toNat ≤ n
  rw [← Int.ofNat_tdiv]
  rw [Int.toNat_natCast]
  exact Nat.div_le_of_le_mul (by rw [Nat.mul_comm]; exact hq)

theorem slashTimes_succ_right (fr : Dec) : ∀ (k dep : Nat),
    slashTimes fr (k + 1) dep = slashTimes fr k dep - mulTrunc (slashTimes fr k dep) fr
  | 0, _ => rfl
  | k + 1, dep => by
    show slashTimes fr (k + 1) (dep - mulTrunc dep fr) = _
    rw [slashTimes_succ_right fr k]
    rfl


/-! ### bank: the full effect of one send -/

theorem send_effect {b b' : Bank} {src dst : Addr} {d : Denom} {n : Nat} (hne : src ≠ dst)
    (h : Bank.send b src dst d n = some b') (a : Addr) (d' : Denom) :
    Bank.balOf b' a d' + (if a = src ∧ d' = d then n else 0) = Bank.balOf b a d' + (if a = dst ∧ d' = d then n else 0) := by
  by_cases hd : d' = d
  · subst hd
    by_cases h1 : a = src
    · subst h1
      have := send_balOf_src hne h
      simp [hne]; omega
    · by_cases h2 : a = dst
      · subst h2
        have := send_balOf_dst hne h
        simp [h1]; omega
      · have := send_frame h a h1 h2 d'
        simp [h1, h2]; omega
  · have := send_balOf_other h a d' (by intro e; exact hd (Prod.mk.inj e).2) (by intro e; exact hd (Prod.mk.inj e).2)
    simp [hd]; omega

/-! ### the side condition on the fee collector, accounts the charge clause follows -/

/-- no request context is consumed by the fee collector (the harness only ever uses the user accounts
`A0..A9` as consumers; module accounts cannot sign) -/
def NoFcConsumer (s : State) : Prop := ∀ id c, AMap.get? s.ctxs id = some c → c.consumer ≠ fcAcc

/-- not one of the three module accounts the end block moves funds between -/
def Plain (a : Addr) : Prop := a ≠ depAcc ∧ a ≠ reqAcc ∧ a ≠ fcAcc

theorem plain_of_user : ∀ c, c ∈ users → Plain c := by
  have : ∀ c ∈ users, c ≠ depAcc ∧ c ≠ reqAcc ∧ c ≠ fcAcc := by decide
  exact this

theorem NoFcConsumer.of_gframe {s u : State} (h : NoFcConsumer s) (f : GFrame s u) : NoFcConsumer u := by
  intro id c' hg
  obtain ⟨c, hc, e⟩ := f.2.2.2.2.2.2 id c' hg
  simp only [gcore, Prod.mk.injEq] at e
  rw [e.2.2]; exact h id c hc

/-- the filters of the monitor, named -/
def consIs (s : State) (c : Addr) (r : ReqId) : Bool := decide ((getCtx s r.ctx).consumer = c)

def slashMatch (s : State) (k : String × Addr) (r : ReqId) : Bool :=
  decide ((getCtx s r.ctx).svc = k.1) && ((AMap.get? s.reqs r).map (·.provider)) == some k.2

/-! ### the slash, case by case -/

theorem slash_cases {v : State} (hdi : DepositInv v) (hsl : ∀ n, mulTrunc n v.params.slash ≤ n) (svc : String) (p : Addr) :
    (AMap.get? v.binds (svc, p) = none ∧ slash v svc p = v) ∨
    (∃ b bank, AMap.get? v.binds (svc, p) = some b ∧
      Bank.send v.bank depAcc fcAcc v.params.base (mulTrunc b.deposit v.params.slash) = some bank ∧
      slash v svc p = { v with bank := bank, binds := AMap.set v.binds (svc, p) (slashedBinding v b) }) := by
  unfold slash
  split
  · rename_i hn; exact Or.inl ⟨hn, rfl⟩
  · rename_i b hb
    right
    have hle : slashAmount v b ≤ b.deposit := hsl b.deposit
    rw [if_neg (by omega)]
    obtain ⟨bank, hsend⟩ := send_isSome (dst := fcAcc) (slash_funded hdi svc p b hb hle)
    rw [hsend]
    exact ⟨b, bank, hb, hsend, rfl⟩

/-! ### the expired-batch phase, relative to the pre-state -/

/-- what the expired-batch phase has done so far (`u`) to the pre-state `s` of the end block -/
structure ExpRel (s u : State) : Prop where
  height : u.height = s.height
  sub    : ∀ r, r ∈ u.active → r ∈ s.active
  reqs   : ∀ r, r ∈ u.active → AMap.get? u.reqs r = AMap.get? s.reqs r
  ctxs   : ∀ r, r ∈ u.active → AMap.get? u.ctxs r.ctx = AMap.get? s.ctxs r.ctx
  theta  : ∀ d, Bank.balOf u.bank fcAcc d + Bank.balOf u.bank depAcc d =
             Bank.balOf s.bank fcAcc d + Bank.balOf s.bank depAcc d
  charge : ∀ c, Plain c → ∀ d, Bank.balOf u.bank c d =
             Bank.balOf s.bank c d + sumList (((expiredIn s u).filter (consIs s c)).map (fun r => reqFee s r d))
  slash  : ∀ k b, AMap.get? s.binds k = some b →
             (AMap.get? u.binds k).map (·.deposit) =
               some (slashTimes s.params.slash ((expiredIn s u).filter (slashMatch s k)).length b.deposit)

theorem expiredIn_self (s : State) : expiredIn s s = [] := by
  unfold expiredIn
  apply List.filter_eq_nil_iff.mpr
  intro r hr
  simp [hr]

theorem ExpRel.refl (s : State) : ExpRel s s := by
  refine ⟨rfl, fun _ h => h, fun _ _ => rfl, fun _ _ => rfl, fun _ => rfl, ?_, ?_⟩
  · intro c _ d; rw [expiredIn_self]; simp [sumList]
  · intro k b hb; rw [expiredIn_self, hb]; rfl

/-- bookkeeping that touches neither markers, bank nor bindings, and leaves the requests / contexts of the
remaining markers alone -/
theorem ExpRel.of_same {s u u' : State} (h : ExpRel s u) (e1 : u'.height = u.height) (e2 : u'.active = u.active)
    (e3 : u'.bank = u.bank) (e4 : u'.binds = u.binds)
    (e5 : ∀ r, r ∈ u.active → AMap.get? u'.reqs r = AMap.get? u.reqs r)
    (e6 : ∀ r, r ∈ u.active → AMap.get? u'.ctxs r.ctx = AMap.get? u.ctxs r.ctx) : ExpRel s u' := by
  have hx : expiredIn s u' = expiredIn s u := by unfold expiredIn; rw [e2]
  refine ⟨e1.trans h.height, ?_, ?_, ?_, ?_, ?_, ?_⟩
  · intro r hr; rw [e2] at hr; exact h.sub r hr
  · intro r hr; rw [e2] at hr; rw [e5 r hr]; exact h.reqs r hr
  · intro r hr; rw [e2] at hr; rw [e6 r hr]; exact h.ctxs r hr
  · intro d; rw [e3]; exact h.theta d
  · intro c hc d; rw [e3, hx]; exact h.charge c hc d
  · intro k b hb; rw [e4, hx]; exact h.slash k b hb

/-- one expired request: slash once, refund the fee, drop the marker -/
theorem ExpRel.expireReq {s v : State} (hs : s.active.Nodup) (hsl : ∀ n, mulTrunc n s.params.slash ≤ n)
    (hp : v.params = s.params) (hnf : NoFcConsumer v) (ha : ActOK v) (hd : DI v) (he : EscrowInv v)
    (h : ExpRel s v) {rid : ReqId} (hr : rid ∈ v.active) : ExpRel s (Irismod.Service.expireReq v rid) := by
  obtain ⟨rq, c, h1, h2, h3⟩ := ha.2 rid hr
  have hg := getRequest_of h1 h2 h3
  have hcons : Good c.consumer := hd.1.consumers _ _ h3
  have hfc : c.consumer ≠ fcAcc := hnf _ _ h3
  obtain ⟨l1, l2, l3, l4, l5⟩ := slash_ledger v c.svc rq.provider
  obtain ⟨⟨_, _, _, _, q5, q6, q7⟩, qa⟩ := expireReq_sched v rid
  -- the refund cannot fail
  have hge : rq.feeAmt ≤ Bank.balOf (Irismod.Service.slash v c.svc rq.provider).bank reqAcc rq.feeDenom := by
    rw [l5]
    have := he rq.feeDenom
    have hle := le_sumList_of_mem (fun r => reqFee v r rq.feeDenom) v.active rid hr
    have hfee : reqFee v rid rq.feeDenom = rq.feeAmt := by unfold reqFee feeIn; rw [h1]; simp
    unfold activeFee at this
    omega
  obtain ⟨bank2, hsend2⟩ := send_isSome (dst := c.consumer) hge
  have hbank : (Irismod.Service.expireReq v rid).bank = bank2 := by
    unfold Irismod.Service.expireReq; rw [hg]; simp only [refund, hsend2, dropActive]
  have hbinds : (Irismod.Service.expireReq v rid).binds = (Irismod.Service.slash v c.svc rq.provider).binds := by
    unfold Irismod.Service.expireReq; rw [hg]; simp only [refund, hsend2, dropActive]
  -- what the pre-state records of this request
  have hsr : AMap.get? s.reqs rid = some rq := by rw [← h.reqs rid hr]; exact h1
  have hsc : getCtx s rid.ctx = c := getCtx_of_get? (by rw [← h.ctxs rid hr]; exact h3)
  have hrs : rid ∈ s.active := h.sub rid hr
  -- the filter on the pre-state's markers admits exactly this one more
  have hpa : (fun r : ReqId => !(v.active.contains r)) rid = false := by simp [hr]
  have hpa' : (fun r : ReqId => !((Irismod.Service.expireReq v rid).active.contains r)) rid = true := by
    rw [qa]; simp
  have hoth : ∀ x : ReqId, x ≠ rid → (fun r : ReqId => !((Irismod.Service.expireReq v rid).active.contains r)) x =
      (fun r : ReqId => !(v.active.contains r)) x := by
    intro x hx; rw [qa]; simp [hx]
  have hdi := hd.2
  have hsl' : ∀ n, mulTrunc n v.params.slash ≤ n := by rw [hp]; exact hsl
  have hsend2e := send_effect (Ne.symm hcons.2) hsend2
  refine ⟨q7.trans h.height, ?_, ?_, ?_, ?_, ?_, ?_⟩
  · intro r hr'; rw [qa] at hr'; exact h.sub r (List.mem_filter.mp hr').1
  · intro r hr'; rw [qa] at hr'; rw [q5]; exact h.reqs r (List.mem_filter.mp hr').1
  · intro r hr'; rw [qa] at hr'; rw [q6]; exact h.ctxs r (List.mem_filter.mp hr').1
  · -- escrow → collector: the pair (collector, deposit escrow) keeps its total
    intro d
    rw [hbank, ← h.theta d]
    have e1 := hsend2e fcAcc d
    have e2 := hsend2e depAcc d
    have n1 : ¬ (fcAcc = reqAcc ∧ d = rq.feeDenom) := by intro e; exact absurd e.1 (by decide)
    have n2 : ¬ (fcAcc = c.consumer ∧ d = rq.feeDenom) := by intro e; exact hfc e.1.symm
    have n3 : ¬ (depAcc = reqAcc ∧ d = rq.feeDenom) := by intro e; exact absurd e.1 (by decide)
    have n4 : ¬ (depAcc = c.consumer ∧ d = rq.feeDenom) := by intro e; exact hcons.1 e.1.symm
    rw [if_neg n1, if_neg n2] at e1
    rw [if_neg n3, if_neg n4] at e2
    rcases slash_cases hdi hsl' c.svc rq.provider with ⟨_, hsame⟩ | ⟨b, bank, _, hsend, hsl1⟩
    · rw [hsame] at e1 e2; omega
    · rw [hsl1] at e1 e2
      have f1 := send_effect (by decide) hsend fcAcc d
      have f2 := send_effect (by decide) hsend depAcc d
      simp only at e1 e2
      have m1 : ¬ (fcAcc = depAcc ∧ d = v.params.base) := by intro e; exact absurd e.1 (by decide)
      have m2 : ¬ (depAcc = fcAcc ∧ d = v.params.base) := by intro e; exact absurd e.1 (by decide)
      rw [if_neg m1] at f1
      rw [if_neg m2] at f2
      by_cases hb : d = v.params.base
      · simp only [hb, and_self, if_true] at f1 f2 e1 e2 ⊢; omega
      · simp only [hb, and_false, if_false] at f1 f2; omega
  · -- the refund reaches the consumer, nobody else's balance moves
    intro c0 hc0 d
    have hexp : expiredIn s v = s.active.filter (fun r => !(v.active.contains r)) := rfl
    have hexp' : expiredIn s (Irismod.Service.expireReq v rid) =
        s.active.filter (fun r => !((Irismod.Service.expireReq v rid).active.contains r)) := rfl
    rw [hbank, hexp', sum_filter_step (fun r => reqFee s r d) (consIs s c0) _ _ rid s.active hs hrs hpa hpa' hoth,
      ← Nat.add_assoc, ← hexp, ← h.charge c0 hc0 d]
    have e1 := hsend2e c0 d
    have n1 : ¬ (c0 = reqAcc ∧ d = rq.feeDenom) := by intro e; exact hc0.2.1 e.1
    rw [if_neg n1] at e1
    have hv1 : Bank.balOf (Irismod.Service.slash v c.svc rq.provider).bank c0 d = Bank.balOf v.bank c0 d := by
      rcases slash_cases hdi hsl' c.svc rq.provider with ⟨_, hsame⟩ | ⟨b, bank, _, hsend, hsl1⟩
      · rw [hsame]
      · rw [hsl1]; exact send_frame hsend c0 hc0.1 hc0.2.2 d
    have hfee : reqFee s rid d = feeIn rq d := by unfold reqFee; rw [hsr]
    have hci : consIs s c0 rid = decide (c.consumer = c0) := by unfold consIs; rw [hsc]
    rw [hci, hfee]
    rw [hv1] at e1
    unfold feeIn
    by_cases hcc : c.consumer = c0
    · subst hcc
      simp only [decide_true, if_true, true_and] at e1 ⊢
      by_cases hdd : rq.feeDenom = d
      · subst hdd; simp only [if_true] at e1 ⊢; omega
      · have : ¬ d = rq.feeDenom := fun e => hdd e.symm
        simp only [hdd, this, if_false] at e1 ⊢; omega
    · have : ¬ c0 = c.consumer := fun e => hcc e.symm
      simp only [hcc, this, decide_false, false_and, if_false, Bool.false_eq_true] at e1 ⊢; omega
  · -- the binding of this request's (service, provider) is slashed once more, no other binding moves
    intro k b0 hb0
    have hcnt := length_filter_step (slashMatch s k) _ _ rid s.active hs hrs hpa hpa' hoth
    have hexp : expiredIn s v = s.active.filter (fun r => !(v.active.contains r)) := rfl
    have hexp' : expiredIn s (Irismod.Service.expireReq v rid) =
        s.active.filter (fun r => !((Irismod.Service.expireReq v rid).active.contains r)) := rfl
    rw [hexp', hcnt, ← hexp]
    have ih := h.slash k b0 hb0
    have hsm : slashMatch s k rid = decide (k = (c.svc, rq.provider)) := by
      unfold slashMatch
      rw [hsc, hsr]
      obtain ⟨k1, k2⟩ := k
      by_cases e1 : c.svc = k1
      · by_cases e2 : rq.provider = k2
        · subst e1; subst e2; simp
        · have : ¬ (k1, k2) = (c.svc, rq.provider) := by intro e; exact e2 (Prod.mk.inj e).2.symm
          simp [e2, this]
      · have : ¬ (k1, k2) = (c.svc, rq.provider) := by intro e; exact e1 (Prod.mk.inj e).1.symm
        simp [e1, this]
    rw [hsm, hbinds]
    by_cases hk : k = (c.svc, rq.provider)
    · subst hk
      simp only [decide_true, if_true]
      rw [slashTimes_succ_right]
      rcases slash_cases hdi hsl' c.svc rq.provider with ⟨hnone, _⟩ | ⟨b, bank, hb, hsend, hsl1⟩
      · rw [hnone] at ih; cases ih
      · rw [hb] at ih
        have ihd : b.deposit = slashTimes s.params.slash ((expiredIn s v).filter (slashMatch s (c.svc, rq.provider))).length b0.deposit := by
          simpa using ih
        rw [hsl1]
        simp only
        rw [AMap.get?_set_self]
        simp only [Option.map_some, slashedBinding_deposit]
        unfold slashAmount
        rw [hp, ihd]
    · simp only [hk, decide_false, Bool.false_eq_true, if_false, Nat.add_zero]
      rcases slash_cases hdi hsl' c.svc rq.provider with ⟨_, hsame⟩ | ⟨b, bank, hb, hsend, hsl1⟩
      · rw [hsame]; exact ih
      · rw [hsl1]
        simp only
        rw [AMap.get?_set_other _ _ _ _ (fun e => hk e.symm)]; exact ih


/-- the expiry loop of one batch -/
theorem ExpRel.foldl_expireReq {s : State} (hs : s.active.Nodup) (hsl : ∀ n, mulTrunc n s.params.slash ≤ n)
    (hnf : NoFcConsumer s) : ∀ (l : List ReqId) (v : State), GFrame s v → ActOK v → DI v → EscrowInv v → ExpRel s v →
      l.Nodup → (∀ r, r ∈ l → r ∈ v.active) → ExpRel s (l.foldl Irismod.Service.expireReq v)
  | [], _, _, _, _, _, h, _, _ => h
  | r :: rest, v, f, ha, hd, he, h, hn, hsub => by
    rw [List.nodup_cons] at hn
    have hr := hsub r (List.mem_cons_self ..)
    obtain ⟨e1, a1⟩ := escrow_expireReq ha hd.1 he hr
    have h1 := h.expireReq hs hsl f.1 (hnf.of_gframe f) ha hd he hr
    simp only [List.foldl]
    apply ExpRel.foldl_expireReq hs hsl hnf rest _ (f.trans (expireReq_gframe v r)) a1 (hd.expireReq r) e1 h1 hn.2
    intro r' hr'
    rw [(expireReq_sched v r).2, List.mem_filter]
    refine ⟨hsub r' (List.mem_cons_of_mem _ hr'), ?_⟩
    simp only [ne_eq, decide_eq_true_eq]
    intro e; subst e; exact hn.1 hr'

theorem settleCtx_ledger (t : State) (id : CtxId) (rc : Ctx) :
    (settleCtx t id rc).bank = t.bank ∧ (settleCtx t id rc).binds = t.binds ∧ (settleCtx t id rc).active = t.active ∧
    (settleCtx t id rc).reqs = t.reqs ∧ (settleCtx t id rc).height = t.height ∧
    ∀ id', id' ≠ id → AMap.get? (settleCtx t id rc).ctxs id' = AMap.get? t.ctxs id' := by
  unfold settleCtx
  split
  · exact ⟨rfl, rfl, rfl, rfl, rfl, fun id' hne => get?_erase_other _ _ _ (Ne.symm hne)⟩
  · split
    · split
      · exact ⟨rfl, rfl, rfl, rfl, rfl, fun _ _ => rfl⟩
      · exact ⟨rfl, rfl, rfl, rfl, rfl, fun id' hne => get?_erase_other _ _ _ (Ne.symm hne)⟩
    · exact ⟨rfl, rfl, rfl, rfl, rfl, fun _ _ => rfl⟩

/-- one expired-batch queue entry -/
theorem ExpRel.expireCtx {s u : State} (hs : s.active.Nodup) (hsl : ∀ n, mulTrunc n s.params.slash ≤ n)
    (hnf : NoFcConsumer s) (hw : WF u) (hd : DI u) (he : EscrowInv u) (f : GFrame s u) (h : ExpRel s u)
    {id : CtxId} {c : Ctx} (hg : AMap.get? u.ctxs id = some c) : ExpRel s (Irismod.Service.expireCtx u id) := by
  obtain ⟨⟨_, _, _, _, q5, q6, q7⟩, hact, _⟩ := expirePhase_sched hw hg
  -- the first half
  have h1 : ExpRel s (expirePhase u id).1 := by
    unfold expirePhase
    rw [getCtx_of_get? hg]
    split
    · have hf := ExpRel.foldl_expireReq hs hsl hnf (activeOf u id c.batchCounter) u f hw.actOK hd he h
        (by unfold activeOf; exact nodup_isort _ _ (nodup_filter _ hw.nodup))
        (by intro r hr; unfold activeOf at hr; rw [mem_isort, List.mem_filter] at hr; exact hr.1)
      unfold completeBatch callback
      split
      · exact hf.of_same rfl rfl rfl rfl (fun _ _ => rfl) (fun _ _ => rfl)
      · exact hf
    · exact h
  -- the second half: queue entry, stored context, next batch or removal, batch clean-up
  obtain ⟨s1, s2, s3, s4, s5, s6⟩ := settleCtx_ledger
    (setCtx (delExp (expirePhase u id).1 id (expirePhase u id).1.height) id (expirePhase u id).2) id (expirePhase u id).2
  have hne : ∀ r, r ∈ (expirePhase u id).1.active → r.ctx ≠ id := by
    intro r hr
    rw [hact, List.mem_filter] at hr
    simpa using hr.2
  refine h1.of_same ?_ ?_ ?_ ?_ ?_ ?_
  · unfold Irismod.Service.expireCtx finishExpire; simp only [cleanBatch]; rw [s5]; rfl
  · unfold Irismod.Service.expireCtx finishExpire; simp only [cleanBatch]; rw [s3]; rfl
  · unfold Irismod.Service.expireCtx finishExpire; simp only [cleanBatch]; rw [s1]; rfl
  · unfold Irismod.Service.expireCtx finishExpire; simp only [cleanBatch]; rw [s2]; rfl
  · intro r hr
    unfold Irismod.Service.expireCtx finishExpire
    simp only [cleanBatch]
    rw [s4]
    simp only [setCtx, delExp]
    rw [get?_filter_key (fun k : ReqId => !(k.inBatch id (expirePhase u id).2.batchCounter))]
    simp [ReqId.inBatch, hne r hr]
  · intro r hr
    unfold Irismod.Service.expireCtx finishExpire
    simp only [cleanBatch]
    rw [s6 _ (hne r hr)]
    simp only [setCtx, delExp]
    exact AMap.get?_set_other _ _ _ _ (Ne.symm (hne r hr))

/-- what the end block needs of its pre-state -/
structure Pre (s : State) : Prop where
  full  : Full s
  gi    : GI s
  past  : ActPast s
  nofc  : NoFcConsumer s

theorem Pre.slashOk {s : State} (h : Pre s) : ∀ n, mulTrunc n s.params.slash ≤ n := by
  intro n
  have hp := h.gi.fields.params
  unfold Irismod.ServiceGenesis.paramsValid at hp
  simp only [Bool.and_eq_true, decide_eq_true_eq] at hp
  exact mulTrunc_le n _ hp.1.1.1.1.1.1.2 hp.1.1.1.1.1.2

/-- the bundle carried through the expired-batch phase -/
structure ExpInv (s u : State) : Prop where
  full   : Full u
  gframe : GFrame s u
  price  : BindsPricing s u
  tb     : TBFrame s u
  rel    : ExpRel s u

theorem ExpInv.refl {s : State} (h : Full s) : ExpInv s s :=
  ⟨h, GFrame.refl s, BindsPricing.of_eq rfl, TBFrame.refl s, ExpRel.refl s⟩

theorem ExpInv.expiredPhase {s : State} (h : Pre s) : ExpInv s (expiredPhase s) := by
  unfold Irismod.Service.expiredPhase
  have hw := h.full.1
  refine foldl_expire_induct (ExpInv s) ?_ _ s hw (nodup_dueIds _ _ hw.expND)
    (fun id hm => hw.expM.1 _ _ ((mem_dueIds _ _ _).mp hm)) (ExpInv.refl h.full)
  intro u id c hwu hm hg hp
  exact ⟨Full_expireCtx hp.full id hm, hp.gframe.trans (expireCtx_gframe hg),
    hp.price.trans (expireCtx_pricing u id), hp.tb.trans (expireCtx_tbframe u id),
    hp.rel.expireCtx hw.nodup h.slashOk h.nofc hwu hp.full.2.1 hp.full.2.2.2 hp.gframe hg⟩


/-! ### the new-batch phase -/

/-- the request loop records `mkReq` of one provider under each new id -/
theorem mkRequests_reqs (id : CtxId) (b : Nat) (svc : String) (cons : Addr) (to : Int) :
    ∀ (ps : List Addr) (i : Nat) (s : State),
      (∀ r, r ∈ s.active → r.ctx = id → r.batch = b → r.h = s.height → r.idx < i) →
      ∀ r, r ∈ newRids id b s.height i ps.length →
        ∃ p, AMap.get? (mkRequests s id b svc cons to ps i).reqs r = some (mkReq s id b svc cons to p)
  | [], _, _, _, _, hm => by simp [newRids] at hm
  | p :: rest, i, s, hpre, r, hm => by
    have hnot : s.active.contains (reqIdOf id b s.height i) = false := by
      cases hc : s.active.contains (reqIdOf id b s.height i) with
      | false => rfl
      | true =>
        have hm : reqIdOf id b s.height i ∈ s.active := by simpa using hc
        have := hpre _ hm rfl rfl rfl
        simp [reqIdOf] at this
    have hadd : (addRequest s (reqIdOf id b s.height i) (mkReq s id b svc cons to p)).active =
        s.active ++ [reqIdOf id b s.height i] := by
      simp only [addRequest, hnot, Bool.false_eq_true, if_false]
    have hpre' : ∀ r, r ∈ (addRequest s (reqIdOf id b s.height i) (mkReq s id b svc cons to p)).active → r.ctx = id →
        r.batch = b → r.h = (addRequest s (reqIdOf id b s.height i) (mkReq s id b svc cons to p)).height → r.idx < i + 1 := by
      intro r hr h1 h2 h3
      rw [hadd, List.mem_append, List.mem_singleton] at hr
      rcases hr with hr | hr
      · have := hpre r hr h1 h2 h3; omega
      · subst hr; simp [reqIdOf]
    simp only [List.length_cons, newRids, List.mem_cons] at hm
    simp only [mkRequests]
    rcases hm with hm | hm
    · subst hm
      refine ⟨p, ?_⟩
      obtain ⟨_, _, _, _, _, _, _, i8, _⟩ := mkRequests_spec id b svc cons to rest (i + 1) _ hpre'
      rw [i8 _ (by rw [hadd]; exact List.mem_append_right _ (List.mem_singleton.mpr rfl))]
      simp only [addRequest]
      exact AMap.get?_set_self _ _ _
    · exact mkRequests_reqs id b svc cons to rest (i + 1) _ hpre' r hm

/-- what one new-batch queue entry does, in the shape the monitor's clauses need -/
def NBStruct (u u' : State) (id : CtxId) (c : Ctx) : Prop :=
  ∃ L1, u'.active = u.active ++ L1 ∧ (∀ r, r ∈ L1 → r.ctx = id ∧ r.h = u.height) ∧
    (∀ r, r ∈ u.active → AMap.get? u'.reqs r = AMap.get? u.reqs r) ∧
    (∀ id', id' ≠ id → AMap.get? u'.ctxs id' = AMap.get? u.ctxs id') ∧
    (∀ a, a ≠ c.consumer → a ≠ reqAcc → ∀ d, Bank.balOf u'.bank a d = Bank.balOf u.bank a d) ∧
    (∀ r, r ∈ L1 → ∀ d, reqFee u' r d = priceIn u u' r d) ∧
    u'.earned = u.earned ∧ u'.oearned = u.oearned

theorem NBStruct.quiet {u u' : State} {id : CtxId} {c : Ctx} (ha : u'.active = u.active) (hr : u'.reqs = u.reqs)
    (hb : u'.bank = u.bank) (hc : ∀ id', id' ≠ id → AMap.get? u'.ctxs id' = AMap.get? u.ctxs id')
    (he : u'.earned = u.earned) (ho : u'.oearned = u.oearned) : NBStruct u u' id c := by
  refine ⟨[], by rw [ha]; simp, ?_, ?_, hc, ?_, ?_, he, ho⟩
  · intro _ h; cases h
  · intro _ _; rw [hr]
  · intro _ _ _ _; rw [hb]
  · intro _ h; cases h

theorem NBStruct.paused (u : State) (id : CtxId) (c : Ctx) (cause : String) :
    NBStruct u (delNew (onPaused u id c cause) id u.height) id c := by
  obtain ⟨o1, o2, o3, o4, _⟩ := onPaused_ledger u id c cause
  obtain ⟨t1, t2, _⟩ := onPaused_tbframe u id c cause
  refine NBStruct.quiet (by simp only [delNew]; exact o2) (by simp only [delNew]; exact o3)
    (by simp only [delNew]; exact o1) ?_ (by simp only [delNew]; exact t1) (by simp only [delNew]; exact t2)
  intro id' hne
  simp only [delNew]
  unfold onPaused
  split
  · simp only [setCtx]; exact AMap.get?_set_other _ _ _ _ (Ne.symm hne)
  · simp only [setCtx]; exact AMap.get?_set_other _ _ _ _ (Ne.symm hne)

theorem newBatch_struct {u : State} (hw : WF u) (hd : DI u) (hn : NoPromo u) {id : CtxId} {c : Ctx}
    (hm : AMap.get? u.newH id = some u.height) (hg : AMap.get? u.ctxs id = some c) :
    NBStruct u (newBatch u id) id c := by
  have hnc : AMap.contains u.newH id = true := (contains_iff _ _).mpr ⟨_, hm⟩
  have hgc := getCtx_of_get? hg
  have hna := hw.no_active_of_new hnc
  have hcons : Good c.consumer := hd.1.consumers _ _ hg
  unfold newBatch
  rw [hgc]
  split
  · split
    · exact NBStruct.paused u id c _
    · rename_i provs total hfp
      split
      · unfold chargeAndStart
        split
        case isFalse => exact NBStruct.paused u id c _
        rename_i hp
        obtain ⟨s2, hs2⟩ : ∃ s2 : State, s2 = { u with bank := creditCoins (debitCoins u.bank c.consumer (sortCoins total)).1 reqAcc (sortCoins total) } :=
          ⟨_, rfl⟩
        rw [← hs2]
        have b1 : s2.binds = u.binds := by rw [hs2]
        have b2 : s2.active = u.active := by rw [hs2]
        have b3 : s2.reqs = u.reqs := by rw [hs2]
        have b4 : s2.height = u.height := by rw [hs2]
        have b5 : s2.ctxs = u.ctxs := by rw [hs2]
        have b6 : s2.bank = creditCoins (debitCoins u.bank c.consumer (sortCoins total)).1 reqAcc (sortCoins total) := by rw [hs2]
        have b7 : s2.earned = u.earned := by rw [hs2]
        have b8 : s2.oearned = u.oearned := by rw [hs2]
        have hget : getCtx s2 id = c := getCtx_of_get? (by rw [b5]; exact hg)
        have hn2 : NoPromo s2 := NoPromo.of_binds hn b1
        have hpre : ∀ r, r ∈ s2.active → r.ctx = id → r.batch = c.batchCounter + 1 → r.h = s2.height → r.idx < 0 :=
          fun r hr hi _ _ => absurd hi (hna r (by rw [← b2]; exact hr))
        obtain ⟨_, _, _, _, m5, _, m7, m8, _⟩ := mkRequests_spec id (c.batchCounter + 1) c.svc c.consumer c.timeout provs 0 s2 hpre
        have mreq := mkRequests_reqs id (c.batchCounter + 1) c.svc c.consumer c.timeout provs 0 s2 hpre
        have ml := mkRequests_ledger id (c.batchCounter + 1) c.svc c.consumer c.timeout provs 0 s2
        obtain ⟨t1, t2, _⟩ := mkRequests_tb id (c.batchCounter + 1) c.svc c.consumer c.timeout provs 0 s2
        unfold initiateRequests
        rw [hget]
        refine ⟨newRids id (c.batchCounter + 1) u.height 0 provs.length, ?_, ?_, ?_, ?_, ?_, ?_, ?_, ?_⟩
        · simp only [delNew, addExp, setCtx]; rw [m7, b2, b4]
        · intro r hr
          have := mem_newRids _ _ hr
          exact ⟨this.1, this.2.2.1⟩
        · intro r hr
          simp only [delNew, addExp, setCtx]
          rw [m8 r (by rw [b2]; exact hr), b3]
        · intro id' hne
          simp only [delNew, addExp, setCtx]
          rw [AMap.get?_set_other _ _ _ _ (Ne.symm hne), m5, b5]
        · intro a ha1 ha2 d
          simp only [delNew, addExp, setCtx]
          rw [ml.1, b6, creditCoins_frame a reqAcc ha2, debitCoins_frame a c.consumer ha1]
        · intro r hr d
          obtain ⟨p, hp'⟩ := mreq r (by rw [b4]; exact hr)
          have hrc : r.ctx = id := (mem_newRids _ _ hr).1
          have hctx : getCtx (delNew (addExp (setCtx (mkRequests s2 id (c.batchCounter + 1) c.svc c.consumer c.timeout provs 0)
              id (startedCtx c provs.length)) id (u.height + c.timeout)) id u.height) r.ctx = startedCtx c provs.length := by
            apply getCtx_of_get?
            simp only [delNew, addExp, setCtx]
            rw [hrc]; exact AMap.get?_set_self _ _ _
          unfold priceIn reqFee
          rw [hctx]
          simp only [delNew, addExp, setCtx]
          rw [hp']
          simp only
          rw [feeIn_mkReq_noPromo hn2]
          unfold priceOf pricingOf
          rw [b1]
          show _ = match AMap.get? u.binds (c.svc, p) with
            | none => 0
            | some b => if b.pricing.denom = d then b.pricing.amount else 0
          cases AMap.get? u.binds (c.svc, p) with
          | none => simp
          | some b => rfl
        · simp only [delNew, addExp, setCtx]; rw [t1, b7]
        · simp only [delNew, addExp, setCtx]; rw [t2, b8]
      · refine NBStruct.quiet rfl rfl rfl ?_ rfl rfl
        intro id' hne
        simp only [delNew, skipBatch, addExp, setCtx]
        exact AMap.get?_set_other _ _ _ _ (Ne.symm hne)
  · exact NBStruct.quiet rfl rfl rfl (fun _ _ => rfl) rfl rfl


/-- the monitor's undiscounted price reads the pricing of the pre-state's binding, the stored request and
the service name of its context -/
theorem priceIn_congr {a a' p p' : State} {r : ReqId}
    (hb : ∀ k, (AMap.get? a'.binds k).map (·.pricing) = (AMap.get? a.binds k).map (·.pricing))
    (hr : AMap.get? p'.reqs r = AMap.get? p.reqs r) (hc : getCtx p' r.ctx = getCtx p r.ctx) (d : Denom) :
    priceIn a' p' r d = priceIn a p r d := by
  unfold priceIn
  rw [hr, hc]
  cases AMap.get? p.reqs r with
  | none => rfl
  | some rq =>
    simp only
    have := hb ((getCtx p r.ctx).svc, rq.provider)
    cases h1 : AMap.get? a'.binds ((getCtx p r.ctx).svc, rq.provider) with
    | none =>
      cases h2 : AMap.get? a.binds ((getCtx p r.ctx).svc, rq.provider) with
      | none => rfl
      | some b => rw [h1, h2] at this; cases this
    | some b' =>
      cases h2 : AMap.get? a.binds ((getCtx p r.ctx).svc, rq.provider) with
      | none => rw [h1, h2] at this; cases this
      | some b =>
        rw [h1, h2] at this
        have e : b'.pricing = b.pricing := by simpa using this
        simp only [e]

/-- what the new-batch phase has done so far (`u`, having created the requests `L`) to the state `x` the
expired-batch phase left -/
structure NewRel (x u : State) (L : List ReqId) : Prop where
  height : u.height = x.height
  binds  : u.binds = x.binds
  active : u.active = x.active ++ L
  fresh  : ∀ r, r ∈ L → r.h = x.height
  keep   : ∀ r, r ∈ x.active →
             AMap.get? u.reqs r = AMap.get? x.reqs r ∧ AMap.get? u.ctxs r.ctx = AMap.get? x.ctxs r.ctx
  mods   : ∀ d, Bank.balOf u.bank fcAcc d = Bank.balOf x.bank fcAcc d ∧ Bank.balOf u.bank depAcc d = Bank.balOf x.bank depAcc d
  charge : ∀ c, Plain c → ∀ d,
             Bank.balOf u.bank c d + sumList ((L.filter (consIs u c)).map (fun r => reqFee u r d)) = Bank.balOf x.bank c d
  price  : ∀ r, r ∈ L → ∀ d, reqFee u r d = priceIn x u r d
  earned : u.earned = x.earned ∧ u.oearned = x.oearned

theorem NewRel.refl (x : State) : NewRel x x [] := by
  refine ⟨rfl, rfl, by simp, ?_, fun _ _ => ⟨rfl, rfl⟩, fun _ => ⟨rfl, rfl⟩, ?_, ?_, ⟨rfl, rfl⟩⟩
  · intro _ h; cases h
  · intro _ _ _; simp [sumList]
  · intro _ h; cases h

/-- one new-batch queue entry -/
theorem NewRel.newBatch {x u : State} {L : List ReqId} (h : NewRel x u L) (hw : WF u) (hd : DI u) (hn : NoPromo u)
    (hnf : NoFcConsumer u) {id : CtxId} {c : Ctx} (hm : AMap.get? u.newH id = some u.height)
    (hg : AMap.get? u.ctxs id = some c) : ∃ L', NewRel x (Irismod.Service.newBatch u id) L' := by
  obtain ⟨L1, a1, a2, a3, a4, a5, a6, a7, a8⟩ := newBatch_struct hw hd hn hm hg
  have hnc : AMap.contains u.newH id = true := (contains_iff _ _).mpr ⟨_, hm⟩
  have hna := hw.no_active_of_new hnc
  have hcons : Good c.consumer := hd.1.consumers _ _ hg
  have hw' := (WF_newBatch hw id hm).1
  have hgf := newBatch_gframe hg
  -- what stays of the requests issued before this entry
  have hold : ∀ r, r ∈ u.active → AMap.get? (Irismod.Service.newBatch u id).reqs r = AMap.get? u.reqs r ∧
      getCtx (Irismod.Service.newBatch u id) r.ctx = getCtx u r.ctx := by
    intro r hr
    refine ⟨a3 r hr, ?_⟩
    unfold getCtx
    rw [a4 _ (hna r hr)]
  -- the new ones belong to this context, whose consumer is unchanged
  have hnew : ∀ r, r ∈ L1 → (getCtx (Irismod.Service.newBatch u id) r.ctx).consumer = c.consumer := by
    intro r hr
    have hra : r ∈ (Irismod.Service.newBatch u id).active := by rw [a1]; exact List.mem_append_right _ hr
    obtain ⟨_, c', _, _, _, h4, _⟩ := hw'.act r hra
    rw [getCtx_of_get? h4]
    obtain ⟨c0, g0, e0⟩ := hgf.2.2.2.2.2.2 r.ctx c' h4
    rw [(a2 r hr).1, hg] at g0
    cases g0
    simp only [gcore, Prod.mk.injEq] at e0
    exact e0.2.2
  have hLu : ∀ r, r ∈ L → r ∈ u.active := fun r hr => by rw [h.active]; exact List.mem_append_right _ hr
  refine ⟨L ++ L1, ⟨(newBatch_height u id).trans h.height, (newBatch_binds u id).trans h.binds, ?_, ?_, ?_, ?_, ?_, ?_,
    ⟨a7.trans h.earned.1, a8.trans h.earned.2⟩⟩⟩
  · rw [a1, h.active, List.append_assoc]
  · intro r hr
    rcases List.mem_append.mp hr with hr | hr
    · exact h.fresh r hr
    · rw [(a2 r hr).2, h.height]
  · intro r hr
    have hru : r ∈ u.active := by rw [h.active]; exact List.mem_append_left _ hr
    exact ⟨(a3 r hru).trans (h.keep r hr).1, (a4 _ (hna r hru)).trans (h.keep r hr).2⟩
  · intro d
    have e1 := a5 fcAcc (fun e => hnf id c hg e.symm) (by decide) d
    have e2 := a5 depAcc (fun e => hcons.1 e.symm) (by decide) d
    exact ⟨e1.trans (h.mods d).1, e2.trans (h.mods d).2⟩
  · intro c0 hc0 d
    rw [List.filter_append, List.map_append, sumList_append, ← h.charge c0 hc0 d]
    -- the requests created earlier keep their fee and consumer
    have e1 : sumList ((L.filter (consIs (Irismod.Service.newBatch u id) c0)).map (fun r => reqFee (Irismod.Service.newBatch u id) r d)) =
        sumList ((L.filter (consIs u c0)).map (fun r => reqFee u r d)) := by
      have hf : L.filter (consIs (Irismod.Service.newBatch u id) c0) = L.filter (consIs u c0) := by
        apply List.filter_congr
        intro r hr
        unfold consIs
        rw [(hold r (hLu r hr)).2]
      rw [hf]
      apply sumList_map_congr
      intro r hr
      unfold reqFee
      rw [(hold r (hLu r (List.mem_filter.mp hr).1)).1]
    rw [e1]
    by_cases hcc : c.consumer = c0
    · -- the consumer of this batch: debited by exactly the fees of the new requests
      have e2 : sumList ((L1.filter (consIs (Irismod.Service.newBatch u id) c0)).map (fun r => reqFee (Irismod.Service.newBatch u id) r d)) =
          sumList (L1.map (fun r => reqFee (Irismod.Service.newBatch u id) r d)) := by
        apply sumList_filter_all
        intro r hr
        unfold consIs
        rw [hnew r hr, hcc]; simp
      have hch := charge_eq_fees hw hd hn id hm hg d
      have hsplit : activeFee (Irismod.Service.newBatch u id) d =
          activeFee u d + sumList (L1.map (fun r => reqFee (Irismod.Service.newBatch u id) r d)) := by
        unfold activeFee
        rw [a1, List.map_append, sumList_append]
        congr 1
        apply sumList_map_congr
        intro r hr
        unfold reqFee
        rw [a3 r hr]
      rw [e2]
      rw [hcc] at hch
      omega
    · have e2 : sumList ((L1.filter (consIs (Irismod.Service.newBatch u id) c0)).map (fun r => reqFee (Irismod.Service.newBatch u id) r d)) = 0 := by
        apply sumList_filter_none
        intro r hr
        unfold consIs
        rw [hnew r hr]; simp [hcc]
      rw [e2, a5 c0 (fun e => hcc e.symm) hc0.2.1 d]
      omega
  · intro r hr d
    rcases List.mem_append.mp hr with hr | hr
    · have ho := hold r (hLu r hr)
      have e1 : reqFee (Irismod.Service.newBatch u id) r d = reqFee u r d := by unfold reqFee; rw [ho.1]
      rw [e1, h.price r hr d]
      exact (priceIn_congr (fun _ => rfl) ho.1 ho.2 d).symm
    · rw [a6 r hr d]
      exact priceIn_congr (fun k => by rw [h.binds]) rfl rfl d

/-- the bundle carried through the new-batch phase -/
structure NewInv (x u : State) : Prop where
  full   : Full u
  gframe : GFrame x u
  rel    : ∃ L, NewRel x u L

theorem NewInv.newPhase {x : State} (hf : Full x) (hnf : NoFcConsumer x) : NewInv x (newPhase x) := by
  unfold Irismod.Service.newPhase
  have hw := hf.1
  refine foldl_new_induct (NewInv x) ?_ _ x hw (nodup_dueIds _ _ hw.newND)
    (fun id hm => hw.newM.1 _ _ ((mem_dueIds _ _ _).mp hm)) ⟨hf, GFrame.refl x, [], NewRel.refl x⟩
  intro u id c hwu hm hg hp
  obtain ⟨L, hL⟩ := hp.rel
  exact ⟨Full_newBatch hp.full id hm, hp.gframe.trans (newBatch_gframe hg),
    hL.newBatch hwu hp.full.2.1 hp.full.2.2.1 (hnf.of_gframe hp.gframe) hm hg⟩


/-! ### the clause groups of `checkNext`, named -/

def chargeFailsOf (ds : List Denom) (pre post : State) : List Fail :=
  users.flatMap fun c => ds.flatMap fun d =>
    let feeSum := sumList (((createdIn pre post).filter (fun r => (getCtx post r.ctx).consumer = c)).map (fun r => reqFee post r d))
    let priceSum := sumList (((createdIn pre post).filter (fun r => (getCtx post r.ctx).consumer = c)).map (fun r => priceIn pre post r d))
    let refund := sumList (((expiredIn pre post).filter (fun r => (getCtx pre r.ctx).consumer = c)).map (fun r => reqFee pre r d))
    let actual := bal post c d - bal pre c d
    let expected : Int := (refund : Int) - (feeSum : Int)
    if actual = expected then []
    else if actual = (refund : Int) - (priceSum : Int) ∧ feeSum < priceSum then
      [{ clause := "charge-eq-fees", cls := "F-svc-1" : Fail }]
    else [{ clause := "charge-eq-fees" }]

def surplusOf (ds : List Denom) (m : Mon) (pre post : State) : AMap Denom Nat :=
  ds.foldl (fun acc d =>
    let fee := sumList ((createdIn pre post).map (fun r => reqFee post r d))
    let price := sumList ((createdIn pre post).map (fun r => priceIn pre post r d))
    let refund := sumList ((expiredIn pre post).map (fun r => reqFee pre r d))
    let actual : Int := (bal post reqAcc d - bal pre reqAcc d) - (fee : Int) + (refund : Int)
    if fee < price ∧ actual = ((price - fee : Nat) : Int) then AMap.set acc d (AMap.getD acc d 0 + (price - fee)) else acc) m.stranded

def expiryFailsOf (pre post : State) : List Fail :=
  (if pre.active.all (fun r => (post.active.contains r) == !(((AMap.get? pre.reqs r).map (·.expH)) == some pre.height))
   then [] else [{ clause := "expire-at-expiration-height" : Fail }])

def slashFailsOf (ds : List Denom) (pre post : State) : List Fail :=
  let perBinding := pre.binds.all fun e =>
    let k := ((expiredIn pre post).filter (fun r => (getCtx pre r.ctx).svc = e.1.1 &&
                ((AMap.get? pre.reqs r).map (·.provider)) == some e.1.2)).length
    ((AMap.get? post.binds e.1).map (·.deposit)) == some (slashTimes pre.params.slash k e.2.deposit)
  let moved : Int := (depositSum pre : Int) - (depositSum post : Int)
  let base := pre.params.base
  if perBinding ∧ bal post fcAcc base - bal pre fcAcc base = moved ∧ bal pre depAcc base - bal post depAcc base = moved
    ∧ ds.all (fun d => d = base || (bal post fcAcc d == bal pre fcAcc d && bal post depAcc d == bal pre depAcc d))
  then [] else [{ clause := "slash-exact" : Fail }]

def frameFailsOf (ds : List Denom) (pre post : State) : List Fail :=
  if earnedSameExcept ds pre post [] [] then [] else [{ clause := "endblock-earned-frame" : Fail }]

def escrowFailOf (ds : List Denom) (m : Mon) (pre post : State) : List Fail :=
  if surplusOf ds m pre post != m.stranded then [{ clause := "request-escrow-eq-liabilities", cls := "F-svc-1" : Fail }] else []

theorem checkNext_eq (ds : List Denom) (m : Mon) (pre post : State) :
    checkNext ds m pre post = ({ m with stranded := surplusOf ds m pre post },
      chargeFailsOf ds pre post ++ expiryFailsOf pre post ++ slashFailsOf ds pre post ++ frameFailsOf ds pre post ++
        escrowFailOf ds m pre post) := rfl

theorem apply_next (s : State) (dt : Int) : apply s (.next dt) = beginNext (endBlock { s with cb := [] }) dt := rfl

/-- the clauses read nothing of the callback log of the pre-state … -/
theorem checkNext_cb (ds : List Denom) (m : Mon) (pre post : State) (cb : List CbEvent) :
    checkNext ds m pre post = checkNext ds m { pre with cb := cb } post := rfl

/-- … and nothing of what `BeginBlocker` sets (height, time, per-block index) in the post-state -/
theorem checkNext_begin (ds : List Denom) (m : Mon) (pre post : State) (dt : Int) :
    checkNext ds m pre (beginNext post dt) = checkNext ds m pre post := rfl

/-! ### the end block as a whole -/

/-- pricings are the same before and after the expired-batch phase, key by key -/
theorem pricing_eq {s x : State} (f : GFrame s x) (hp : BindsPricing s x) (k : String × Addr) :
    (AMap.get? x.binds k).map (·.pricing) = (AMap.get? s.binds k).map (·.pricing) := by
  cases hx : AMap.get? x.binds k with
  | none =>
    have : AMap.get? s.binds k = none := by
      rw [get?_eq_none_iff, ← f.2.2.2.2.1, ← get?_eq_none_iff]; exact hx
    rw [this]
  | some b' =>
    obtain ⟨b, hb, e⟩ := hp k b' hx
    rw [hb]; simp [e]

/-- the summary of one end block the clause groups are read off from -/
structure EndSum (s e x : State) (L : List ReqId) : Prop where
  pre   : Pre s
  exp   : ExpInv s x
  new   : NewRel x e L
  full  : Full e
  gf    : GFrame x e

theorem endBlock_sum {s : State} (h : Pre s) : ∃ x L, EndSum s (endBlock s) x L := by
  have he := ExpInv.expiredPhase h
  have hn := NewInv.newPhase he.full (h.nofc.of_gframe he.gframe)
  obtain ⟨L, hL⟩ := hn.rel
  exact ⟨expiredPhase s, L, h, he, hL, hn.full, hn.gframe⟩

namespace EndSum
variable {s e x : State} {L : List ReqId}

theorem created (h : EndSum s e x L) : createdIn s e = L := by
  unfold createdIn
  rw [h.new.active, List.filter_append]
  have h1 : x.active.filter (fun r => !(s.active.contains r)) = [] := by
    apply List.filter_eq_nil_iff.mpr
    intro r hr
    simp [h.exp.rel.sub r hr]
  have h2 : L.filter (fun r => !(s.active.contains r)) = L := by
    apply List.filter_eq_self.mpr
    intro r hr
    have hh := h.new.fresh r hr
    rw [h.exp.rel.height] at hh
    have : r ∉ s.active := fun hm => by have := h.pre.past r hm; omega
    simp [this]
  rw [h1, h2]; rfl

theorem expired (h : EndSum s e x L) : expiredIn s e = expiredIn s x := by
  unfold expiredIn
  apply List.filter_congr
  intro r hr
  rw [h.new.active]
  have : r ∉ L := by
    intro hm
    have hh := h.new.fresh r hm
    rw [h.exp.rel.height] at hh
    have := h.pre.past r hr
    omega
  simp [this]

theorem params (h : EndSum s e x L) : e.params = s.params := h.gf.1.trans h.exp.gframe.1

/-- group 1: the consumers' balances move by exactly refunds minus recorded fees -/
theorem charge (h : EndSum s e x L) (ds : List Denom) : chargeFailsOf ds s e = [] := by
  unfold chargeFailsOf
  apply List.flatMap_eq_nil_iff.mpr
  intro c hc
  apply List.flatMap_eq_nil_iff.mpr
  intro d _
  have hpl := plain_of_user c hc
  have h1 := h.new.charge c hpl d
  have h2 := h.exp.rel.charge c hpl d
  simp only
  rw [h.created, h.expired]
  rw [if_pos]
  unfold bal
  unfold consIs at h1 h2
  omega

/-- group 2: nothing is stranded — the created requests record exactly the undiscounted prices -/
theorem surplus (h : EndSum s e x L) (ds : List Denom) (m : Mon) : surplusOf ds m s e = m.stranded := by
  unfold surplusOf
  apply foldl_const
  intro acc d
  simp only
  rw [h.created]
  have heq : sumList (L.map (fun r => reqFee e r d)) = sumList (L.map (fun r => priceIn s e r d)) := by
    apply sumList_map_congr
    intro r hr
    rw [h.new.price r hr d]
    exact priceIn_congr (pricing_eq h.exp.gframe h.exp.price) rfl rfl d
  rw [heq, if_neg]
  intro hc
  exact absurd hc.1 (Nat.lt_irrefl _)

/-- group 3: exactly the requests whose expiration height is this block leave the active set -/
theorem expiry (h : EndSum s (endBlock s) x L) : expiryFailsOf s (endBlock s) = [] := by
  unfold expiryFailsOf
  rw [if_pos]
  rw [List.all_eq_true]
  intro r hr
  have hw := h.pre.full.1
  obtain ⟨rq, _, a1, _⟩ := hw.act r hr
  rw [a1]
  by_cases hx : rq.expH = s.height
  · have := Irismod.Props.C08.expires_at_expiration_height s hw r hr (h.pre.past r hr) rq a1 hx
    simp [this, hx]
  · have := Irismod.Props.C08.not_expired_before_its_height s hw r hr rq a1 hx
    simp [this, hx]

/-- group 4: each expired request slashes its binding once; the total moves escrow → fee collector -/
theorem slash (h : EndSum s e x L) (ds : List Denom) : slashFailsOf ds s e = [] := by
  unfold slashFailsOf
  simp only
  have hdi := h.pre.full.2.1.2
  have hde := h.full.2.1.2
  have hbase : e.params.base = s.params.base := by rw [h.params]
  have hmods := h.new.mods
  have hth := h.exp.rel.theta
  rw [if_pos]
  refine ⟨?_, ?_, ?_, ?_⟩
  · rw [List.all_eq_true]
    intro b hb
    have hg : AMap.get? s.binds b.1 = some b.2 := get?_of_mem h.pre.gi.nd (by simpa using hb)
    have := h.exp.rel.slash b.1 b.2 hg
    rw [h.expired, h.new.binds, this]
    exact beq_self_eq_true _
  · have d1 := hdi s.params.base
    have d2 := hde s.params.base
    rw [hbase] at d2
    simp only [if_true] at d1 d2
    have := hth s.params.base
    have := hmods s.params.base
    unfold bal
    omega
  · have d1 := hdi s.params.base
    have d2 := hde s.params.base
    rw [hbase] at d2
    simp only [if_true] at d1 d2
    unfold bal
    omega
  · rw [List.all_eq_true]
    intro d _
    by_cases hd : d = s.params.base
    · simp [hd]
    · have d1 := hdi d
      have d2 := hde d
      rw [hbase] at d2
      simp only [hd, if_false] at d1 d2
      have := hth d
      have := hmods d
      have e1 : Bank.balOf e.bank fcAcc d = Bank.balOf s.bank fcAcc d := by omega
      have e2 : Bank.balOf e.bank depAcc d = Bank.balOf s.bank depAcc d := by omega
      simp [bal, e1, e2]

/-- group 5: neither earned-fee table moves -/
theorem frame (h : EndSum s e x L) (ds : List Denom) : frameFailsOf ds s e = [] := by
  unfold frameFailsOf
  have e1 : e.earned = s.earned := h.new.earned.1.trans h.exp.tb.1
  have e2 : e.oearned = s.oearned := h.new.earned.2.trans h.exp.tb.2.1
  rw [if_pos]
  unfold earnedSameExcept earnedOf ownerEarned
  rw [e1, e2]
  simp

end EndSum

/-- the invariant bundle of the pre-state, from the monitors' invariant and the fee-collector side condition -/
theorem Pre.of_sinv {s : State} (hs : SInv s) (hf : NoFcConsumer s) : Pre { s with cb := [] } :=
  ⟨⟨hs.wf.of_same ⟨rfl, rfl, rfl, rfl, rfl, rfl, rfl⟩, DI.of_core (s' := { s with cb := [] }) hs.di ⟨rfl, rfl, rfl, rfl⟩ rfl,
     hs.noPromo.of_binds rfl, EscrowInv.of_frame ⟨fun _ => rfl, rfl, fun _ _ => rfl, rfl⟩ hs.escrow⟩,
   hs.gi.of_frame (GFrame.of_eq rfl rfl rfl rfl rfl rfl), hs.past, hf⟩

/-- the whole clause group on the model's end block -/
theorem checkNext_endBlock (ds : List Denom) (m : Mon) {s : State} (h : Pre s) : checkNext ds m s (endBlock s) = (m, []) := by
  obtain ⟨x, L, hsum⟩ := endBlock_sum h
  rw [checkNext_eq]
  unfold escrowFailOf
  rw [hsum.charge, hsum.expiry, hsum.slash, hsum.frame, hsum.surplus]
  simp

/-! ### the separate groups, on the model step -/

theorem c07_next_charge (ds : List Denom) {s : State} (hs : SInv s) (hf : NoFcConsumer s) :
    chargeFailsOf ds { s with cb := [] } (endBlock { s with cb := [] }) = [] := by
  obtain ⟨x, L, hsum⟩ := endBlock_sum (Pre.of_sinv hs hf)
  exact hsum.charge ds

theorem c07_next_surplus (ds : List Denom) (m : Mon) {s : State} (hs : SInv s) (hf : NoFcConsumer s) :
    surplusOf ds m { s with cb := [] } (endBlock { s with cb := [] }) = m.stranded := by
  obtain ⟨x, L, hsum⟩ := endBlock_sum (Pre.of_sinv hs hf)
  exact hsum.surplus ds m

theorem c07_next_expiry {s : State} (hs : SInv s) (hf : NoFcConsumer s) :
    expiryFailsOf { s with cb := [] } (endBlock { s with cb := [] }) = [] := by
  obtain ⟨x, L, hsum⟩ := endBlock_sum (Pre.of_sinv hs hf)
  exact hsum.expiry

theorem c07_next_slash (ds : List Denom) {s : State} (hs : SInv s) (hf : NoFcConsumer s) :
    slashFailsOf ds { s with cb := [] } (endBlock { s with cb := [] }) = [] := by
  obtain ⟨x, L, hsum⟩ := endBlock_sum (Pre.of_sinv hs hf)
  exact hsum.slash ds

theorem c07_next_frame (ds : List Denom) {s : State} (hs : SInv s) (hf : NoFcConsumer s) :
    frameFailsOf ds { s with cb := [] } (endBlock { s with cb := [] }) = [] := by
  obtain ⟨x, L, hsum⟩ := endBlock_sum (Pre.of_sinv hs hf)
  exact hsum.frame ds

/-- **every clause of `checkNext` passes on the model's end block, and nothing is recorded as stranded** -/
theorem c07_next_sound (ds : List Denom) (m : Mon) (hm : m.stranded = []) {s : State} (hs : SInv s)
    (hf : NoFcConsumer s) (dt : Int) : checkNext ds m s (apply s (.next dt)) = (m, []) := by
  have _ := hm
  rw [apply_next, checkNext_begin, checkNext_cb ds m s _ []]
  exact checkNext_endBlock ds m (Pre.of_sinv hs hf)


/-! ### the fee-collector side condition is an invariant of histories whose consumers are not the collector -/

/-- the consumer argument of the two context-creating operations is not the fee collector (the harness only
ever uses the user accounts `A0..A9`; a module account cannot sign a `MsgCallService`) -/
def OpFc : Op → Prop
  | .call _ consumer _ _ _ _ _ _ _ _ => consumer ≠ fcAcc
  | .mcall _ consumer _ _ _ _ _ _ _ _ _ _ _ => consumer ≠ fcAcc
  | _ => True

theorem NoFcConsumer.of_no_ctxs {s : State} (h : s.ctxs = []) : NoFcConsumer s := by
  intro id c hg; rw [h] at hg; simp [AMap.get?] at hg

theorem NoFcConsumer.of_genesis {s : State} (g : Irismod.Props.C12.Service.Genesis s) : NoFcConsumer s :=
  NoFcConsumer.of_no_ctxs g.base.ctxs

theorem NoFcConsumer.of_emptySched {s : State} (e : Irismod.Props.C13S.EmptySched s) : NoFcConsumer s :=
  NoFcConsumer.of_no_ctxs e.ctxs

theorem NoFcConsumer.setCtx {s : State} (h : NoFcConsumer s) (id : CtxId) (c : Ctx) (hc : c.consumer ≠ fcAcc) :
    NoFcConsumer (Irismod.Service.setCtx s id c) := by
  intro id' c' hg
  simp only [Irismod.Service.setCtx] at hg
  rcases get?_set_cases hg with ⟨_, rfl⟩ | ⟨_, hg'⟩
  · exact hc
  · exact h id' c' hg'

theorem NoFcConsumer.createCtx {s s' : State} {newId svc providers consumer inputOk cap timeout repeated freq total st thr moduleName}
    (hs : NoFcConsumer s) (hc : consumer ≠ fcAcc)
    (h : createCtx s newId svc providers consumer inputOk cap timeout repeated freq total st thr moduleName = .ok s') :
    NoFcConsumer s' := by
  unfold Irismod.Service.createCtx at h
  split at h
  · cases h
  split at h
  · cases h
  split at h
  · cases h
  split at h
  · cases h
  split at h
  · cases h
  rename_i c _ _
  cases h
  have h1 := hs.setCtx newId (newCtx svc providers consumer c timeout repeated freq total st thr moduleName) hc
  unfold createState
  split
  · exact h1
  · exact h1

theorem NoFcConsumer.keeperPause {s s' : State} {id consumer} (hs : NoFcConsumer s) (h : keeperPause s id consumer = .ok s') :
    NoFcConsumer s' := by
  unfold Irismod.Service.keeperPause at h
  split at h
  · cases h
  rename_i rc hg
  split at h
  · cases h
  split at h
  · cases h
  split at h
  · cases h
  cases h
  exact hs.setCtx id _ (hs id rc hg)

theorem NoFcConsumer.keeperStart {s s' : State} {id consumer} (hs : NoFcConsumer s) (h : keeperStart s id consumer = .ok s') :
    NoFcConsumer s' := by
  unfold Irismod.Service.keeperStart at h
  split at h
  · cases h
  rename_i rc hg
  split at h
  · cases h
  split at h
  · cases h
  split at h
  · cases h
  cases h
  have h1 := hs.setCtx id { rc with state := .running } (hs id rc hg)
  split
  · exact h1
  · exact h1

theorem NoFcConsumer.keeperKill {s s' : State} {id consumer} (hs : NoFcConsumer s) (h : keeperKill s id consumer = .ok s') :
    NoFcConsumer s' := by
  unfold Irismod.Service.keeperKill at h
  split at h
  · cases h
  rename_i rc hg
  split at h
  · cases h
  split at h
  · cases h
  cases h
  exact hs.setCtx id _ (hs id rc hg)

theorem NoFcConsumer.keeperUpdate {s s' : State} {id providers thr cap timeout freq total consumer} (hs : NoFcConsumer s)
    (h : keeperUpdate s id providers thr cap timeout freq total consumer = .ok s') : NoFcConsumer s' := by
  unfold Irismod.Service.keeperUpdate at h
  split at h
  · cases h
  rename_i rc hg
  split at h
  · cases h
  split at h
  · cases h
  split at h
  · cases h
  split at h
  · cases h
  split at h
  · cases h
  split at h
  · cases h
  split at h
  · cases h
  split at h
  · cases h
  cases h
  exact hs.setCtx id (updatedCtx rc _ _ _ timeout freq total) (hs id rc hg)

theorem NoFcConsumer.keeperRespond {s s' : State} {provider : Addr} {rid : ReqId} {hasOut : Bool} (hs : NoFcConsumer s)
    (h : keeperRespond s provider rid hasOut = .ok s') : NoFcConsumer s' := by
  unfold Irismod.Service.keeperRespond at h
  split at h
  · cases h
  rename_i rq rc hreq
  split at h
  · cases h
  split at h
  · cases h
  split at h
  · cases h
  rename_i s1 hfee
  cases h
  obtain ⟨_, hctx⟩ := getRequest_some hreq
  unfold addEarnedFee at hfee
  split at hfee
  · cases hfee
  split at hfee
  · cases hfee
  cases hfee
  refine hs.of_gframe ((GFrame.of_eq rfl rfl rfl rfl rfl rfl).trans (countResponse_gframe (c := rc) ?_))
  exact hctx

theorem NoFcConsumer.keeperWithdraw {s s' : State} {owner provider} (hs : NoFcConsumer s)
    (h : keeperWithdraw s owner provider = .ok s') : NoFcConsumer s' := by
  unfold Irismod.Service.keeperWithdraw at h
  split at h
  · unfold withdrawProvider at h
    split at h
    · cases h
    split at h
    · cases h
    split at h
    · cases h
    cases h
    exact hs
  · unfold withdrawOwner at h
    split at h
    · cases h
    cases h
    exact hs

theorem NoFcConsumer.endBlock {s : State} (hw : WF s) (h : NoFcConsumer s) : NoFcConsumer (Irismod.Service.endBlock s) :=
  endBlock_induct NoFcConsumer (fun _ _ _ _ _ hg hp => hp.of_gframe (expireCtx_gframe hg))
    (fun _ _ _ _ _ hg hp => hp.of_gframe (newBatch_gframe hg)) hw h

theorem NoFcConsumer.nextBlock {s : State} (hw : WF s) (h : NoFcConsumer s) (dt : Int) :
    NoFcConsumer (Irismod.Service.nextBlock s dt) := h.endBlock hw

theorem NoFcConsumer.skipBlocks (dt : Int) : ∀ (n : Nat) (s : State), WF s → NoFcConsumer s → NoFcConsumer (skipBlocks s dt n)
  | 0, _, _, h => h
  | n + 1, s, hw, h => NoFcConsumer.skipBlocks dt n (Irismod.Service.nextBlock s dt) (WF_nextBlock hw dt) (h.nextBlock hw dt)

theorem NoFcConsumer.stepCore {s s' : State} {op : Op} (hw : WF s) (hs : NoFcConsumer s) (hf : OpFc op)
    (h : stepCore s op = .ok s') : NoFcConsumer s' := by
  cases op with
  | define sender name schOk =>
    simp only [Irismod.Service.stepCore, stepDefine] at h
    split at h
    · cases h
    split at h
    · cases h
    split at h
    · cases h
    split at h
    · cases h
    cases h
    exact hs
  | bind owner provider svc dep qos pin optsOk =>
    obtain ⟨_, _, d, pr, bank, rfl⟩ := stepBind_inv h
    exact hs
  | updateBinding owner provider svc dep qos pin opts =>
    simp only [Irismod.Service.stepCore] at h
    unfold stepUpdateBinding at h
    split at h
    · cases h
    obtain ⟨b, d, pr, bank, _, _, _, _, rfl⟩ := keeperUpdateBinding_inv h
    exact hs
  | setWithdraw owner addr =>
    simp only [Irismod.Service.stepCore, stepSetWithdraw] at h
    split at h
    · cases h
    split at h
    · cases h
    cases h
    exact hs
  | enable owner provider svc dep =>
    simp only [Irismod.Service.stepCore, stepEnable] at h
    split at h
    · cases h
    unfold keeperEnable at h
    split at h
    · cases h
    split at h
    · cases h
    split at h
    · cases h
    split at h
    · cases h
    split at h
    · cases h
    split at h
    · cases h
    cases h
    exact hs
  | disable owner provider svc =>
    simp only [Irismod.Service.stepCore, stepDisable] at h
    split at h
    · cases h
    split at h
    · cases h
    split at h
    · cases h
    split at h
    · cases h
    cases h
    exact hs
  | refundDeposit owner provider svc =>
    simp only [Irismod.Service.stepCore, stepRefundDeposit] at h
    split at h
    · cases h
    unfold keeperRefundDeposit at h
    split at h
    · cases h
    split at h
    · cases h
    split at h
    · cases h
    split at h
    · cases h
    split at h
    · cases h
    split at h
    · cases h
    cases h
    exact hs
  | call tx consumer svc providers cap timeout repeated freq total inputOk =>
    simp only [Irismod.Service.stepCore, stepCall] at h
    split at h
    · cases h
    split at h
    · cases h
    split at h
    · cases h
    exact hs.createCtx hf h
  | mcall tx consumer svc providers cap timeout repeated freq total inputOk paused thr modName =>
    simp only [Irismod.Service.stepCore] at h
    exact hs.createCtx hf h
  | respond provider rid code out resOk =>
    simp only [Irismod.Service.stepCore, stepRespond] at h
    split at h
    · cases h
    split at h
    · cases h
    exact hs.keeperRespond h
  | withdraw owner provider =>
    simp only [Irismod.Service.stepCore, stepWithdraw] at h
    split at h
    · cases h
    split at h
    · cases h
    exact hs.keeperWithdraw h
  | withdrawK owner provider => exact hs.keeperWithdraw h
  | pause consumer id => exact hs.keeperPause (stepPause_inv h)
  | start consumer id => exact hs.keeperStart (stepStart_inv h)
  | kill consumer id => exact hs.keeperKill (stepKill_inv h)
  | updateCtx consumer id providers cap timeout freq total => exact hs.keeperUpdate (stepUpdateCtx_inv h)
  | mpause consumer id => exact hs.keeperPause h
  | mstart consumer id => exact hs.keeperStart h
  | mkill consumer id => exact hs.keeperKill h
  | mupdate consumer id providers thr cap timeout freq total => exact hs.keeperUpdate h
  | setRate d r =>
    simp only [Irismod.Service.stepCore] at h
    cases h
    exact hs
  | next dt =>
    simp only [Irismod.Service.stepCore] at h
    cases h
    exact hs.nextBlock hw dt
  | skip n dt =>
    simp only [Irismod.Service.stepCore] at h
    cases h
    exact NoFcConsumer.skipBlocks dt n s hw hs

/-- **the side condition is kept by every operation** whose consumer argument is not the fee collector -/
theorem NoFcConsumer.apply {s : State} (h : NoFcConsumer s) (hw : WF s) {op : Op} (hf : OpFc op) :
    NoFcConsumer (Irismod.Service.apply s op) := by
  unfold Irismod.Service.apply step
  have h0 : NoFcConsumer { s with cb := [] } := h
  have hw0 : WF { s with cb := [] } := hw.of_same ⟨rfl, rfl, rfl, rfl, rfl, rfl, rfl⟩
  cases hst : Irismod.Service.stepCore { s with cb := [] } op with
  | ok s' => exact NoFcConsumer.stepCore hw0 h0 hf hst
  | error e => exact h0

/-- in the form the coordinator asked for -/
theorem noFcConsumer_apply {s : State} {op : Op} (h : NoFcConsumer s) (hs : SInv s) (_ho : OpOK s op) (hf : OpFc op) :
    NoFcConsumer (Irismod.Service.apply s op) := h.apply hs.wf hf

end Irismod.Proofs.ServiceMonitor
