/-
`CaclRewards`: what the returned rewards and debts are, rule by rule.
-/
import Irismod.Proofs.FarmCore

namespace Irismod.Proofs.Farm
open Irismod Irismod.Sdk Irismod.Farm Irismod.Spec

theorem shareOf_eq {rps : Dec} {L x : Int} (h : shareOf rps L = some x) : x = (rps.raw * L).tdiv precision := by
  unfold shareOf at h
  split at h; · cases h
  rename_i d hd
  unfold Dec.mulInt chkDec at hd
  split at hd
  · simp at hd
    unfold Dec.truncateInt chkInt chopTrunc at h
    split at h
    · simp at h; rw [← h, ← hd]
    · cases h
  · simp at hd

theorem amountOf_nonzero_single (d k : Denom) (x : Nat) : amountOf (nonzero [(d, x)]) k = if d = k then x else 0 := by
  rw [nonzero_cons]
  by_cases hx : x = 0
  · subst hx; simp [amountOf]
  · simp [hx, amountOf]

theorem amountOf_append (a b : CoinList) (k : Denom) (h : k ∉ a.map (·.1)) : amountOf (a ++ b) k = amountOf b k := by
  induction a with
  | nil => rfl
  | cons c t ih =>
    obtain ⟨d, n⟩ := c
    simp only [List.map_cons, List.mem_cons, not_or] at h
    simp [amountOf, Ne.symm h.1, ih h.2]

theorem amountOf_append_left (a b : CoinList) (k : Denom) (h : k ∈ a.map (·.1)) : amountOf (a ++ b) k = amountOf a k := by
  induction a with
  | nil => simp at h
  | cons c t ih =>
    obtain ⟨d, n⟩ := c
    by_cases e : d = k
    · simp [amountOf, e]
    · simp only [List.map_cons, List.mem_cons] at h
      rcases h with h | h
      · exact absurd h.symm e
      · simp [amountOf, e, ih h]

theorem nonzero_single_denoms (d : Denom) (x : Nat) (k : Denom) (h : k ∈ (nonzero [(d, x)]).map (·.1)) : k = d := by
  rw [nonzero_cons] at h
  split at h
  · simp at h
  · simpa using h

theorem zero_of_not_mem_single (d : Denom) (x : Nat) (h : d ∉ (nonzero [(d, x)]).map (·.1)) : x = 0 := by
  rw [nonzero_cons] at h
  by_cases hx : x = 0
  · exact hx
  · simp [hx] at h

/-- the denoms of the returned lists are rule denoms -/
theorem cacl_denoms : ∀ {rs : List Rule} {f : Farmer} {δ : Int} {rw db : CoinList},
    caclRewards rs f δ = some (rw, db) →
    (∀ k ∈ rw.map (·.1), k ∈ rs.map (·.denom)) ∧ (∀ k ∈ db.map (·.1), k ∈ rs.map (·.denom))
  | [], f, δ, rw, db, h => by simp [caclRewards] at h; obtain ⟨rfl, rfl⟩ := h; simp
  | r :: rs, f, δ, rw, db, h => by
    unfold caclRewards at h
    split at h
    · rename_i tot debt rw0 db0 _ _ hrec
      split at h; · cases h
      split at h; · cases h
      simp only [Option.some.injEq, Prod.mk.injEq] at h
      obtain ⟨rfl, rfl⟩ := h
      obtain ⟨i1, i2⟩ := cacl_denoms hrec
      constructor
      · intro k hk
        simp only [List.map_append, List.mem_append] at hk
        rcases hk with hk | hk
        · simp [nonzero_single_denoms _ _ _ hk]
        · simp [i1 k hk]
      · intro k hk
        simp only [List.map_append, List.mem_append] at hk
        rcases hk with hk | hk
        · simp [nonzero_single_denoms _ _ _ hk]
        · simp [i2 k hk]
    · cases h

/-- rule by rule: the new debt is the floor of the new share, the reward is the floor of the
old share minus the old debt (and both are non-negative, or the call panics) -/
theorem cacl_spec : ∀ {rs : List Rule} {f : Farmer} {δ : Int} {rw db : CoinList},
    caclRewards rs f δ = some (rw, db) → (rs.map (·.denom)).Nodup →
    ∀ r ∈ rs,
      (amountOf db r.denom : Int) = (r.rps.raw * ((f.locked : Int) + δ)).tdiv precision ∧
      (amountOf rw r.denom : Int) =
        (if f.locked > 0 then (r.rps.raw * (f.locked : Int)).tdiv precision - (amountOf f.debt r.denom : Int) else 0) ∧
      (f.locked > 0 → (amountOf f.debt r.denom : Int) ≤ (r.rps.raw * (f.locked : Int)).tdiv precision)
  | [], _, _, _, _, _, _ => by simp
  | r :: rs, f, δ, rw, db, h, hn => by
    unfold caclRewards at h
    split at h
    · rename_i tot debt rw0 db0 htot hdebt hrec
      split at h; · cases h
      rename_i hneg
      split at h; · cases h
      rename_i hdneg
      simp only [Option.some.injEq, Prod.mk.injEq] at h
      obtain ⟨rfl, rfl⟩ := h
      simp only [List.map_cons, List.nodup_cons] at hn
      have ih := cacl_spec hrec hn.2
      obtain ⟨dn1, dn2⟩ := cacl_denoms hrec
      have etot := shareOf_eq htot
      have edebt := shareOf_eq hdebt
      intro r' hr'
      simp only [List.mem_cons] at hr'
      rcases hr' with e | e
      · subst e
        have hnotrw : r'.denom ∉ rw0.map (·.1) := fun hm => hn.1 (dn1 _ hm)
        have hnotdb : r'.denom ∉ db0.map (·.1) := fun hm => hn.1 (dn2 _ hm)
        refine ⟨?_, ?_, ?_⟩
        · by_cases hm : r'.denom ∈ (nonzero [(r'.denom, debt.toNat)]).map (·.1)
          · rw [amountOf_append_left _ _ _ hm, amountOf_nonzero_single]; simp only [if_true]; omega
          · rw [amountOf_append _ _ _ hm, amountOf_eq_zero_of_not_mem _ _ hnotdb]
            have : debt.toNat = 0 := zero_of_not_mem_single _ _ hm
            omega
        · by_cases hm : r'.denom ∈ (nonzero [(r'.denom, if f.locked > 0 then (tot - (amountOf f.debt r'.denom : Int)).toNat else 0)]).map (·.1)
          · rw [amountOf_append_left _ _ _ hm, amountOf_nonzero_single]; simp only [if_true]
            split
            · rename_i hl
              have : ¬ (tot - (amountOf f.debt r'.denom : Int) < 0) := fun hc => hneg ⟨hl, hc⟩
              omega
            · rfl
          · rw [amountOf_append _ _ _ hm, amountOf_eq_zero_of_not_mem _ _ hnotrw]
            have hz : (if f.locked > 0 then (tot - (amountOf f.debt r'.denom : Int)).toNat else 0) = 0 :=
              zero_of_not_mem_single _ _ hm
            split
            · rename_i hl
              simp only [hl, if_true] at hz
              have : ¬ (tot - (amountOf f.debt r'.denom : Int) < 0) := fun hc => hneg ⟨hl, hc⟩
              omega
            · rfl
        · intro hl
          have : ¬ (tot - (amountOf f.debt r'.denom : Int) < 0) := fun hc => hneg ⟨hl, hc⟩
          omega
      · have hne : r.denom ≠ r'.denom := by
          intro e2; apply hn.1; rw [e2]; exact List.mem_map_of_mem e
        have hnot1 : ∀ x, r'.denom ∉ (nonzero [(r.denom, x)]).map (·.1) := by
          intro x hm; exact hne (nonzero_single_denoms _ _ _ hm).symm
        rw [amountOf_append _ _ _ (hnot1 _), amountOf_append _ _ _ (hnot1 _)]
        exact ih r' e
    · cases h

end Irismod.Proofs.Farm
