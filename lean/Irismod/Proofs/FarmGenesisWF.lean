/-
The well-formedness the farm genesis round trip needs (`GenWF`) and its preservation by every
operation: unique pool keys, pool ids of the form `farm-<n>` with `n ≤ sequence`, bounded
descriptions, farmer records with positive stake and a valid debt coin set, valid parameters.
-/
import Irismod.Proofs.FarmGenesisBasic

namespace Irismod.Proofs.FarmGenesis
open Irismod Irismod.Sdk Irismod.Farm Irismod.FarmGenesis Irismod.Proofs.GenesisList Irismod.Proofs.Farm Irismod.Spec

structure GenWF (s : State) : Prop where
  poolKeys : GenesisList.NodupKeys s.pools
  ids      : ∀ id ∈ AMap.keys s.pools, ∃ n, id = poolIdOf n ∧ 0 < n ∧ n ≤ s.seq
  desc     : ∀ id p, getPool s id = some p → p.desc.utf8ByteSize ≤ 280
  flock    : ∀ a id f, getFarmer s a id = some f → 0 < f.locked
  fdebt    : ∀ a id f, getFarmer s a id = some f → (f.debt.map (·.1)).Nodup ∧ ∀ c ∈ f.debt, c.2 ≠ 0
  params   : validParams s.params = true

/-- the pool registry keeps its keys, descriptions, sequence and parameters -/
structure GFrame (s s' : State) : Prop where
  keys   : AMap.keys s'.pools = AMap.keys s.pools
  seq    : s'.seq = s.seq
  params : s'.params = s.params
  desc   : ∀ id p p', getPool s id = some p → getPool s' id = some p' → p'.desc = p.desc

theorem GFrame.refl (s : State) : GFrame s s :=
  ⟨rfl, rfl, rfl, fun id p p' h1 h2 => by rw [h1] at h2; cases h2; rfl⟩

theorem GFrame.trans {a b c : State} (h1 : GFrame a b) (h2 : GFrame b c) : GFrame a c := by
  refine ⟨h2.keys.trans h1.keys, h2.seq.trans h1.seq, h2.params.trans h1.params, ?_⟩
  intro id p p' hp hp'
  have hk : id ∈ AMap.keys b.pools := by
    rw [h1.keys]; exact (mem_keys_iff _ _).mpr ⟨p, hp⟩
  obtain ⟨pb, hpb⟩ := (mem_keys_iff _ _).mp hk
  exact (h2.desc id pb p' hpb hp').trans (h1.desc id p pb hp hpb)

theorem gframe_same {s s' : State} (hp : s'.pools = s.pools) (hs : s'.seq = s.seq) (hq : s'.params = s.params) :
    GFrame s s' :=
  ⟨by rw [hp], hs, hq, fun id p p' h1 h2 => by unfold getPool at h1 h2; rw [hp, h1] at h2; cases h2; rfl⟩

theorem _root_.Irismod.Proofs.Farm.BankOnly.gframe {s s' : State} (b : BankOnly s s') : GFrame s s' := gframe_same b.pools b.seq b.params
theorem _root_.Irismod.Proofs.Farm.Quiet.gframe {s s' : State} (b : Quiet s s') : GFrame s s' := gframe_same b.pools b.seq b.params

theorem gframe_set {s s' : State} {id : PoolId} {p q : Pool} (hp : getPool s id = some p)
    (hpools : s'.pools = AMap.set s.pools id q) (hd : q.desc = p.desc) (hs : s'.seq = s.seq) (hq : s'.params = s.params) :
    GFrame s s' := by
  refine ⟨?_, hs, hq, ?_⟩
  · rw [hpools]; exact keys_set_of_mem _ _ _ ((mem_keys_iff _ _).mpr ⟨p, hp⟩)
  · intro id2 p2 p2' h1 h2
    by_cases e : id = id2
    · subst e
      rw [getPool_set_self _ _ _ _ hpools] at h2; cases h2
      rw [hp] at h1; cases h1; exact hd
    · rw [getPool_set_other s s' id id2 q hpools e, h1] at h2; cases h2; rfl

theorem updOk_gframe {s s' : State} {id : PoolId} {p p' : Pool} {amount : Int} {d : Bool}
    (hp : getPool s id = some p) (h : UpdOk s s' id p p' amount d) : GFrame s s' :=
  gframe_set hp h.pools (updOk_fields h).2.1 h.seq h.params

theorem updErr_gframe {s s1 : State} {id : PoolId} {p : Pool} {e : Err} (hp : getPool s id = some p)
    (h : UpdErr s s1 id p e) : GFrame s s1 := by
  rcases h.pools with hpl | ⟨rs, hpl, _⟩
  · exact gframe_same hpl h.seq h.params
  · exact gframe_set hp hpl rfl h.seq h.params

theorem refund_gframe {s : State} {id : PoolId} {p : Pool} (hp : getPool s id = some p) : GFrame s (refund s id p).1 := by
  have f0 : GFrame s (dequeue s id p.endH) := gframe_same rfl rfl rfl
  have hp0 : getPool (dequeue s id p.endH) id = some p := hp
  rcases refund_cases s id p with ⟨s1, e, hu, hr⟩ | ⟨s1, p1, hu, hr⟩
  · rw [hr]; exact f0.trans (updErr_gframe hp0 (updatePool_err hu))
  · have ok := updatePool_ok hu
    have f1 := updOk_gframe hp0 ok
    have hp1 : getPool s1 id = some p1 := getPool_set_self _ _ _ _ ok.pools
    have f2 : GFrame s1 (zeroed s1 id p1) := gframe_set hp1 rfl rfl rfl rfl
    rcases hr with ⟨_, hr⟩ | ⟨_, e, _, hr⟩ | ⟨_, s2, hs, hr⟩
    · rw [hr]; exact (f0.trans f1).trans f2
    · rw [hr]; exact (f0.trans f1).trans f2
    · rw [hr]; exact (((f0.trans f1).trans f2).trans (sendAll_ok hs).1.gframe).trans (withCp_quiet _ _).gframe

theorem endBlockOne_gframe {s s' : State} {id : PoolId} (h : endBlockOne s id = .ok s') : GFrame s s' := by
  unfold endBlockOne at h
  split at h
  · cases h; exact GFrame.refl _
  · rename_i p hp
    have := refund_gframe hp
    generalize refund s id p = res at h this
    obtain ⟨s1, r⟩ := res
    split at h
    · cases h
    · rename_i s2 r2 _ heq
      cases h; cases heq; exact this

theorem endBlockIds_gframe : ∀ (ids : List PoolId) {s s' : State}, endBlockIds s ids = .ok s' → GFrame s s'
  | [], s, s', h => by simp [endBlockIds] at h; subst h; exact GFrame.refl _
  | id :: ids, s, s', h => by
    unfold endBlockIds at h
    split at h
    · cases h
    · rename_i s1 h1
      exact (endBlockOne_gframe h1).trans (endBlockIds_gframe ids h)

theorem endBlocks_gframe : ∀ (n : Nat) (s : State), GFrame s (endBlocks n s).1
  | 0, s => GFrame.refl _
  | n + 1, s => by
    unfold endBlocks
    split
    · exact GFrame.refl _
    · rename_i s1 h1
      have a := endBlockIds_gframe _ h1
      have b : GFrame s1 { s1 with height := s1.height + 1 } := gframe_same rfl rfl rfl
      exact (a.trans b).trans (endBlocks_gframe n _)

theorem enqueue_gframe (s : State) (id : PoolId) (h : Int) : GFrame s (enqueue s id h) := by
  unfold enqueue; split
  · exact GFrame.refl _
  · exact gframe_same rfl rfl rfl

theorem adjustCore_gframe {s s' : State} {id : PoolId} {p1 : Pool} {sh : Int} {st : Bool} {add rpb : CoinList}
    (hp : getPool s id = some p1) (h : adjustCore s id p1 sh st add rpb = .ok s') : GFrame s s' := by
  unfold adjustCore at h
  split at h; · cases h
  split at h; · cases h
  split at h
  · cases h; exact gframe_set hp rfl rfl rfl rfl
  · rename_i ah _ _ _
    cases h
    refine GFrame.trans (b := setPool (dequeue s id p1.endH) id _) ?_ (enqueue_gframe _ _ _)
    exact gframe_set (s := s) hp rfl rfl rfl rfl

theorem unstakePool_gframe {s s1 : State} {id : PoolId} {p p1 : Pool} {amt : Nat} (hp : getPool s id = some p)
    (h : unstakePool s id p amt = (s1, .ok p1)) : GFrame s s1 := by
  unfold unstakePool at h
  split at h
  · simp only [Prod.mk.injEq, Except.ok.injEq] at h
    obtain ⟨e1, e2⟩ := h
    subst e1 e2
    exact gframe_set hp rfl rfl rfl rfl
  · exact updOk_gframe hp (updatePool_ok h)

/-! ### preservation -/

theorem genWF_gframe {s s' : State} (fr : GFrame s s') (hf : s'.farmers = s.farmers) (h : GenWF s) : GenWF s' := by
  refine ⟨by unfold GenesisList.NodupKeys; rw [fr.keys]; exact h.poolKeys, ?_, ?_, ?_, ?_, by rw [fr.params]; exact h.params⟩
  · intro id hid; rw [fr.keys] at hid; rw [fr.seq]; exact h.ids id hid
  · intro id p' hp'
    have hk : id ∈ AMap.keys s.pools := by rw [← fr.keys]; exact (mem_keys_iff _ _).mpr ⟨p', hp'⟩
    obtain ⟨p, hp⟩ := (mem_keys_iff _ _).mp hk
    rw [fr.desc id p p' hp hp']; exact h.desc id p hp
  · intro a id f hf2; unfold getFarmer at hf2; rw [hf] at hf2; exact h.flock a id f hf2
  · intro a id f hf2; unfold getFarmer at hf2; rw [hf] at hf2; exact h.fdebt a id f hf2

/-- the debt list `CaclRewards` returns is a valid coin set -/
theorem cacl_debt_valid : ∀ {rs : List Rule} {f : Farmer} {δ : Int} {rw db : CoinList},
    caclRewards rs f δ = some (rw, db) → (rs.map (·.denom)).Nodup →
    (db.map (·.1)).Nodup ∧ ∀ c ∈ db, c.2 ≠ 0
  | [], f, δ, rw, db, h, _ => by simp [caclRewards] at h; obtain ⟨rfl, rfl⟩ := h; simp
  | r :: rs, f, δ, rw, db, h, hn => by
    unfold caclRewards at h
    split at h
    · rename_i tot debt rw0 db0 _ _ hrec
      split at h; · cases h
      split at h; · cases h
      simp only [Option.some.injEq, Prod.mk.injEq] at h
      obtain ⟨rfl, rfl⟩ := h
      simp only [List.map_cons, List.nodup_cons] at hn
      obtain ⟨ih1, ih2⟩ := cacl_debt_valid hrec hn.2
      obtain ⟨_, dn2⟩ := cacl_denoms hrec
      rw [nonzero_cons]
      split
      · exact ⟨ih1, ih2⟩
      · rename_i hz
        simp only [nonzero_nil, List.singleton_append, List.map_cons, List.nodup_cons, List.mem_cons]
        refine ⟨⟨fun hm => hn.1 (dn2 _ hm), ih1⟩, ?_⟩
        intro c hc
        rcases hc with e | e
        · rw [e]; exact hz
        · exact ih2 c e
    · cases h

/-- one farmer record written, pools evolving under `GFrame` -/
theorem genWF_interaction {s s' : State} {a : Addr} {id : PoolId} {g : Farmer} (fr : GFrame s s')
    (hf : s'.farmers = AMap.set s.farmers (a, id) g) (hl : 0 < g.locked)
    (hd : (g.debt.map (·.1)).Nodup ∧ ∀ c ∈ g.debt, c.2 ≠ 0) (h : GenWF s) : GenWF s' := by
  have base := genWF_gframe (s' := { s' with farmers := s.farmers }) ⟨fr.keys, fr.seq, fr.params, fr.desc⟩ rfl h
  refine ⟨base.poolKeys, base.ids, base.desc, ?_, ?_, base.params⟩
  · intro a2 id2 f hf2
    unfold getFarmer at hf2; rw [hf] at hf2
    by_cases e : (a, id) = (a2, id2)
    · cases e; rw [AMap.get?_set_self] at hf2; cases hf2; exact hl
    · rw [AMap.get?_set_other _ _ _ _ e] at hf2; exact h.flock a2 id2 f hf2
  · intro a2 id2 f hf2
    unfold getFarmer at hf2; rw [hf] at hf2
    by_cases e : (a, id) = (a2, id2)
    · cases e; rw [AMap.get?_set_self] at hf2; cases hf2; exact hd
    · rw [AMap.get?_set_other _ _ _ _ e] at hf2; exact h.fdebt a2 id2 f hf2

theorem genWF_erase {s s' : State} {a : Addr} {id : PoolId} (fr : GFrame s s')
    (hf : s'.farmers = AMap.erase s.farmers (a, id)) (h : GenWF s) : GenWF s' := by
  have base := genWF_gframe (s' := { s' with farmers := s.farmers }) ⟨fr.keys, fr.seq, fr.params, fr.desc⟩ rfl h
  refine ⟨base.poolKeys, base.ids, base.desc, ?_, ?_, base.params⟩
  · intro a2 id2 f hf2
    unfold getFarmer at hf2; rw [hf] at hf2
    by_cases e : (a, id) = (a2, id2)
    · cases e; rw [get?_erase_self] at hf2; cases hf2
    · rw [get?_erase_other _ _ _ e] at hf2; exact h.flock a2 id2 f hf2
  · intro a2 id2 f hf2
    unfold getFarmer at hf2; rw [hf] at hf2
    by_cases e : (a, id) = (a2, id2)
    · cases e; rw [get?_erase_self] at hf2; cases hf2
    · rw [get?_erase_other _ _ _ e] at hf2; exact h.fdebt a2 id2 f hf2

theorem genWF_stake {s s' : State} {sender id denom amt} (hi : Inv s) (hg : GenWF s)
    (h : stepStake s sender id denom amt = .ok s') : GenWF s' := by
  obtain ⟨p, s1, s2, p1, rewards, debt, s3, _, hpos, hp, _, _, _, h1, hupd, hc, h3, rfl⟩ := stepStake_ok h
  have b1 := (sendAll_ok h1).1
  have ok := updatePool_ok hupd
  have b3 := (payRewards_ok h3).1
  have hp1 : getPool s1 id = some p := by unfold getPool; rw [b1.pools]; exact hp
  have w1 := updOk_wf ok (hi.core.wf id p hp)
  have fr : GFrame s s3 := (b1.gframe.trans (updOk_gframe hp1 ok)).trans b3.gframe
  refine genWF_interaction (a := sender) (id := id)
    (g := { locked := ((getFarmer s sender id).getD { locked := 0, debt := [] }).locked + amt, debt := debt })
    (s' := _) ⟨fr.keys, fr.seq, fr.params, fr.desc⟩ ?_ ?_ (cacl_debt_valid hc w1.nodup) hg
  · show AMap.set s3.farmers _ _ = _; rw [b3.farmers, ok.farmers, b1.farmers]
  · show 0 < _ + amt; omega

theorem genWF_harvest {s s' : State} {sender id} (hi : Inv s) (hg : GenWF s)
    (h : stepHarvest s sender id = .ok s') : GenWF s' := by
  obtain ⟨p, f, s1, p1, rewards, debt, s2, _, hp, _, hf, hupd, hc, h2, rfl⟩ := stepHarvest_ok h
  have ok := updatePool_ok hupd
  have b2 := (payRewards_ok h2).1
  have w1 := updOk_wf ok (hi.core.wf id p hp)
  have fr : GFrame s s2 := (updOk_gframe hp ok).trans b2.gframe
  refine genWF_interaction (a := sender) (id := id) (g := { f with debt := debt })
    (s' := _) ⟨fr.keys, fr.seq, fr.params, fr.desc⟩ ?_ ?_ (cacl_debt_valid hc w1.nodup) hg
  · show AMap.set s2.farmers _ _ = _; rw [b2.farmers, ok.farmers]
  · exact hg.flock sender id f hf

theorem genWF_unstake {s s' : State} {sender id denom amt} (hi : Inv s) (hg : GenWF s)
    (h : stepUnstake s sender id denom amt = .ok s') : GenWF s' := by
  obtain ⟨p, f, s1, p1, s2, rewards, debt, s3, _, _, hp, _, hf, hamt, hamt2, hbr, h2, hc, h3, rfl⟩ := stepUnstake_ok h
  obtain ⟨c1, hp1, _, _⟩ := unstakePool_core hi.core hp hamt2 hbr
  obtain ⟨_, hfm, _⟩ := unstakePool_ok hamt2 hbr
  have b2 := (sendAll_ok h2).1
  have b3 := (payRewards_ok h3).1
  have w1 := c1.wf id p1 hp1
  have fr : GFrame s s3 := ((unstakePool_gframe hp hbr).trans b2.gframe).trans b3.gframe
  by_cases hz : f.locked - amt = 0
  · simp only [hz, if_true]
    refine genWF_erase (a := sender) (id := id) (s' := _) ⟨fr.keys, fr.seq, fr.params, fr.desc⟩ ?_ hg
    show AMap.erase s3.farmers _ = _; rw [b3.farmers, b2.farmers, hfm]
  · simp only [hz, if_false]
    refine genWF_interaction (a := sender) (id := id) (g := { locked := f.locked - amt, debt := debt })
      (s' := _) ⟨fr.keys, fr.seq, fr.params, fr.desc⟩ ?_ ?_ (cacl_debt_valid hc w1.nodup) hg
    · show AMap.set s3.farmers _ _ = _; rw [b3.farmers, b2.farmers, hfm]
    · show 0 < f.locked - amt; omega

theorem genWF_createCore {s2 s' : State} {creator desc lpt start rpb total editable} (hg : GenWF s2)
    (hdesc : desc.utf8ByteSize ≤ 280)
    (h : createPoolCore s2 (poolIdOf (s2.seq + 1)) creator desc lpt start rpb total editable = .ok s') : GenWF s' := by
  have hfr := createCore_frame h
  obtain ⟨m, hnone, _, rfl⟩ := createPoolCore_ok h
  have hnk : poolIdOf (s2.seq + 1) ∉ AMap.keys s2.pools := (get?_eq_none_iff _ _).mp hnone
  have hpools : ∀ (q : Pool) (hh : Int), (enqueue { s2 with seq := s2.seq + 1, pools := AMap.set s2.pools (poolIdOf (s2.seq + 1)) q } (poolIdOf (s2.seq + 1)) hh).pools
      = AMap.set s2.pools (poolIdOf (s2.seq + 1)) q := by
    intro q hh; unfold enqueue; split <;> rfl
  have hseq : ∀ (q : Pool) (hh : Int), (enqueue { s2 with seq := s2.seq + 1, pools := AMap.set s2.pools (poolIdOf (s2.seq + 1)) q } (poolIdOf (s2.seq + 1)) hh).seq
      = s2.seq + 1 := by
    intro q hh; unfold enqueue; split <;> rfl
  have hpar : ∀ (q : Pool) (hh : Int), (enqueue { s2 with seq := s2.seq + 1, pools := AMap.set s2.pools (poolIdOf (s2.seq + 1)) q } (poolIdOf (s2.seq + 1)) hh).params
      = s2.params := by
    intro q hh; unfold enqueue; split <;> rfl
  refine ⟨?_, ?_, ?_, ?_, ?_, by rw [hpar]; exact hg.params⟩
  · unfold GenesisList.NodupKeys
    rw [hpools, keys_set_of_not_mem _ _ _ hnk]
    exact List.nodup_append.mpr ⟨hg.poolKeys, by simp, by intro a ha b hb; simp at hb; subst hb; intro e; subst e; exact hnk ha⟩
  · intro id hid
    rw [hpools, keys_set_of_not_mem _ _ _ hnk, List.mem_append] at hid
    rw [hseq]
    rcases hid with hid | hid
    · obtain ⟨n, e, h0, hle⟩ := hg.ids id hid
      exact ⟨n, e, h0, by omega⟩
    · simp only [List.mem_singleton] at hid
      exact ⟨s2.seq + 1, hid, by omega, Nat.le_refl _⟩
  · intro id p hp
    by_cases e : poolIdOf (s2.seq + 1) = id
    · subst e
      rw [getPool_set_self _ _ _ _ (hpools _ _)] at hp; cases hp
      exact hdesc
    · rw [getPool_set_other s2 _ _ id _ (hpools _ _) e] at hp
      exact hg.desc id p hp
  · intro a id f hf; unfold getFarmer at hf; rw [hfr.farmers] at hf; exact hg.flock a id f hf
  · intro a id f hf; unfold getFarmer at hf; rw [hfr.farmers] at hf; exact hg.fdebt a id f hf

theorem genWF_createPool {s s' : State} {sender desc lpt start rpb total editable} (hg : GenWF s)
    (h : stepCreatePool s (poolIdOf (s.seq + 1)) sender desc lpt start rpb total editable = .ok s') : GenWF s' := by
  unfold stepCreatePool at h
  split at h; · cases h
  split at h; · cases h
  rename_i hd
  split at h; · cases h
  split at h; · cases h
  split at h; · cases h
  split at h; · cases h
  split at h; · cases h
  split at h; · cases h
  split at h; · cases h
  rename_i s1 h1
  split at h; · cases h
  rename_i s2 h2
  have b12 : BankOnly s s2 := (deductFee_ok h1).trans (sendAll_ok h2).1
  rw [← b12.seq] at h
  exact genWF_createCore (genWF_gframe b12.gframe b12.farmers hg) (by omega) h

/-- a community-pool operation keeps the genesis well-formedness; the pool a passed proposal
creates carries the (length-checked) pool description of the proposal -/
theorem genWF_qEffect {s s' : State} (hg : GenWF s) (h : QEffect s s') : GenWF s' := by
  cases h with
  | frame f => exact genWF_gframe f.gframe f.farmers hg
  | created sa s2 c f1 hr f2 =>
    obtain ⟨hdesc, _, _, s1, h1, h2⟩ := hr
    have b1 := (sendAll_ok h1).1
    have g1 := genWF_gframe b1.gframe b1.farmers (genWF_gframe f1.gframe f1.farmers hg)
    exact genWF_gframe f2.gframe f2.farmers (genWF_createCore g1 hdesc h2)

theorem genWF_destroyPool {s s' : State} {sender id} (hg : GenWF s) (h : stepDestroyPool s sender id = .ok s') : GenWF s' := by
  have hfr := destroyPool_frame h
  obtain ⟨p, hp, _, _, _, hr⟩ := stepDestroyPool_ok h
  have := refund_gframe hp
  rw [hr] at this
  exact genWF_gframe this hfr.farmers hg

theorem genWF_adjustPool {s s' : State} {sender id add rpb} (hg : GenWF s)
    (h : stepAdjustPool s sender id add rpb = .ok s') : GenWF s' := by
  have hfr := adjustPool_frame h
  obtain ⟨p, _, _, _, hp, hat⟩ := stepAdjustPool_ok h
  obtain ⟨s1, p1, s2, _, _, _, _, _, hu, _, h2, hcore⟩ := adjustPoolAt_ok hat
  have ok := updatePool_ok hu
  have b2 := (sendAll_ok h2).1
  have hp2 : getPool s2 id = some p1 := by
    unfold getPool; rw [b2.pools]; exact getPool_set_self _ _ _ _ ok.pools
  exact genWF_gframe (((updOk_gframe hp ok).trans b2.gframe).trans (adjustCore_gframe hp2 hcore)) hfr.farmers hg

theorem genWF_stepMsg {s s' : State} {op : Op} (hi : Inv s) (hg : GenWF s) (h : stepMsg s op = .ok s') : GenWF s' := by
  cases op with
  | createPool sender desc lpt start rpb total editable => exact genWF_createPool hg h
  | destroyPool sender id => exact genWF_destroyPool hg h
  | adjustPool sender id add rpb => exact genWF_adjustPool hg h
  | stake sender id denom amt => exact genWF_stake hi hg h
  | unstake sender id denom amt => exact genWF_unstake hi hg h
  | harvest sender id => exact genWF_harvest hi hg h
  | endBlocks n => simp [stepMsg] at h; subst h; exact hg
  | cpPass pid => simp [stepMsg] at h; subst h; exact hg
  | cpReject pid => simp [stepMsg] at h; subst h; exact hg
  | cpFailDeposit pid => simp [stepMsg] at h; subst h; exact hg
  | cpSubmit proposer title c deposit => exact genWF_gframe (cpSubmit_quiet h).gframe (cpSubmit_quiet h).farmers hg
  | fundCp sender amt => exact genWF_gframe (fundCp_quiet h).gframe (fundCp_quiet h).farmers hg

theorem genWF_apply (s : State) (op : Op) (hi : Inv s) (hg : GenWF s) : GenWF (apply s op) := by
  rcases apply_cases s op with ⟨n, _, h⟩ | h | ⟨h, _, _⟩ | h
  · rw [h]; exact genWF_gframe (endBlocks_gframe n s) (endBlocks_frame n s).farmers hg
  · rw [h]; exact hg
  · exact genWF_stepMsg hi hg h
  · exact genWF_qEffect hg (govStep_q h)

theorem genWF_run : ∀ (ops : List Op) (s : State), Inv s → GenWF s → GenWF (run s ops)
  | [], _, _, hg => hg
  | op :: ops, s, hi, hg => by
    show GenWF (run (apply s op) ops)
    exact genWF_run ops _ (inv_apply s op hi) (genWF_apply s op hi hg)

theorem genWF_genesis {s : State} (hg : C05.Genesis s) (hp : validParams s.params = true) : GenWF s := by
  obtain ⟨hpl, hf, _, _, hseq, _⟩ := hg
  refine ⟨by unfold GenesisList.NodupKeys; rw [hpl]; exact List.nodup_nil, ?_, ?_, ?_, ?_, hp⟩
  · intro id hid; rw [hpl] at hid; cases hid
  · intro id p h; unfold getPool at h; rw [hpl] at h; cases h
  · intro a id f h; unfold getFarmer at h; rw [hf] at h; cases h
  · intro a id f h; unfold getFarmer at h; rw [hf] at h; cases h

end Irismod.Proofs.FarmGenesis
