/-
C12 (htlc): the theorems of C03 / C04 / C13 after a restart from genesis.

`Inv`'s counter clause "current supply = completed incoming − completed outgoing" sums over all
contracts ever stored; a chain restarted from a genesis has forgotten its closed contracts, so its
state satisfies `InvFrom base` (the clause relative to the supply at the restart) instead of `Inv`.
Here the gap is closed: put one closed "ghost" contract per supply record — a completed incoming
transfer of exactly the current supply, under an id that is not a well-formed id — in front of the
contract table.  The resulting state satisfies `Inv` (`inv_ghost_imported`), every operation commutes
with the ghosts (`Proofs/HtlcGhost.lean`), hence `Inv (ghost g ·)` holds along every history after
the restart (`restart_inv_run`) and the consequences of `Inv` carry over to the restarted chain
itself: the begin blocker is total (C13), every queue entry is an open contract and vice versa
(C03/C13), the escrow identity (C04), the counters (C04, relative to the restart).
Core tactics only.
-/
import Irismod.Proofs.HtlcGhost
import Irismod.Proofs.HtlcGenesisRoundTrip
import Irismod.Proofs.HtlcLedger

namespace Irismod.Proofs.HtlcGen
open Irismod Irismod.Sdk Irismod.Htlc Irismod.HtlcGen Irismod.Spec.C03 Irismod.Spec.C04 Irismod.Spec.C12Htlc
open Irismod.Proofs.Htlc Irismod.Proofs.GenesisList

/-! ### the ghosts -/

/-- not a well-formed id: `!` is not a hex digit -/
def ghostId (d : Denom) : Id := "!" ++ d

/-- a completed incoming transfer of `n` coins of `d` -/
def ghostOf (d : Denom) (n : Nat) : Contract :=
  { sender := "ghost", to := "ghost", amount := [(d, n)], hashLock := "", secret := "", timestamp := 1,
    expiration := 1, state := .completed, closedBlock := 1, transfer := true, direction := .incoming }

/-- one ghost per supply record, carrying the record's current supply -/
def ghostsOf (l : AMap Denom Supply) : AMap Id Contract := l.map fun e => (ghostId e.1, ghostOf e.1 e.2.current)

theorem ghostId_not_hex (d : Denom) : hexOk64 (ghostId d) = false := by
  unfold hexOk64 ghostId
  have : ("!" ++ d).toList = '!' :: d.toList := by simp
  rw [this]
  simp [isHexChar]

theorem ghostId_inj {a b : Denom} (h : ghostId a = ghostId b) : a = b := by
  unfold ghostId at h
  have := congrArg String.toList h
  simp at this
  exact String.ext_iff.mpr this

theorem keys_ghostsOf (l : AMap Denom Supply) : AMap.keys (ghostsOf l) = (AMap.keys l).map ghostId := by
  unfold ghostsOf AMap.keys
  simp [List.map_map, Function.comp_def]

theorem ghostIds_ghostsOf (l : AMap Denom Supply) : GhostIds (ghostsOf l) := by
  intro k hk
  rw [keys_ghostsOf, List.mem_map] at hk
  obtain ⟨d, _, rfl⟩ := hk
  exact ghostId_not_hex d

theorem nodup_ghostsOf {l : AMap Denom Supply} (h : NodupKeys l) : NodupKeys (ghostsOf l) := by
  unfold NodupKeys at *
  rw [keys_ghostsOf]
  unfold List.Nodup at *
  rw [List.pairwise_map]
  exact h.imp (fun {a b} hab e => hab (ghostId_inj e))

theorem mem_ghostsOf {l : AMap Denom Supply} {id : Id} {c : Contract} (h : (id, c) ∈ ghostsOf l) :
    ∃ d sup, (d, sup) ∈ l ∧ id = ghostId d ∧ c = ghostOf d sup.current := by
  unfold ghostsOf at h
  rw [List.mem_map] at h
  obtain ⟨⟨d, sup⟩, hm, he⟩ := h
  cases he
  exact ⟨d, sup, hm, rfl, rfl⟩

/-- what the ghosts add to the sums of C04: nothing, except the current supply to "completed incoming" -/
theorem sumBy_ghosts_zero (f : Contract → Nat) (hf : ∀ d n, f (ghostOf d n) = 0) :
    ∀ l : AMap Denom Supply, AMap.sumBy f (ghostsOf l) = 0
  | [] => rfl
  | (d, sup) :: t => by
    show AMap.sumBy f ((ghostId d, ghostOf d sup.current) :: ghostsOf t) = 0
    rw [sumBy_cons, hf, sumBy_ghosts_zero f hf t]

theorem sumBy_ghosts_completed_in (d : Denom) : ∀ l : AMap Denom Supply, NodupKeys l →
    AMap.sumBy (dirAmt .completed .incoming d) (ghostsOf l) = ((AMap.get? l d).getD zeroSupply).current
  | [], _ => rfl
  | (d', sup) :: t, hnd => by
    show AMap.sumBy _ ((ghostId d', ghostOf d' sup.current) :: ghostsOf t) = _
    unfold NodupKeys AMap.keys at hnd
    rw [List.map_cons, List.nodup_cons] at hnd
    rw [sumBy_cons, sumBy_ghosts_completed_in d t hnd.2]
    by_cases e : d' = d
    · subst e
      have : AMap.get? t d' = none := (get?_eq_none_iff t d').mpr hnd.1
      simp [AMap.get?, this, dirAmt, ghostOf, coinAmt, zeroSupply]
    · simp [AMap.get?, e, dirAmt, ghostOf, coinAmt]

theorem sumBy_append (f : Contract → Nat) (a b : AMap Id Contract) :
    AMap.sumBy f (a ++ b) = AMap.sumBy f a + AMap.sumBy f b := sumIf_append _ f a b

/-! ### `Inv` of the state with its ghosts -/

/-- every stored id is a well-formed id -/
def IdsHex (s : State) : Prop := ∀ id ∈ AMap.keys s.htlcs, hexOk64 id = true

theorem idsHex_of_genWF {s : State} (hw : GenWF s) : IdsHex s := by
  intro id hid
  obtain ⟨c, hc⟩ := (mem_keys_iff s.htlcs id).mp hid
  exact (hw.good id c hc).id_hex

theorem get?_ghost_cases {g m : AMap Id Contract} {id : Id} {c : Contract} (h : AMap.get? (g ++ m) id = some c) :
    AMap.get? g id = some c ∨ (AMap.get? g id = none ∧ AMap.get? m id = some c) := by
  rw [get?_append] at h
  cases hg : AMap.get? g id with
  | some c' => rw [hg] at h; exact Or.inl h
  | none => rw [hg] at h; exact Or.inr ⟨rfl, h⟩

/-- **the restarted state with its ghosts satisfies the joint invariant** -/
theorem inv_ghost {x : State} (hx : InvFrom (fun d => (supOf x d).current) x)
    (h0 : ∀ d, sumDir x .completed .incoming d = sumDir x .completed .outgoing d)
    (hnd : NodupKeys x.supplies) (hhex : IdsHex x) : Inv (ghost (ghostsOf x.supplies) x) := by
  obtain ⟨hwf, hq, hge, hcnt⟩ := hx
  have hgid := ghostIds_ghostsOf x.supplies
  have hclean : ∀ id ∈ AMap.keys x.htlcs, id ∉ AMap.keys (ghostsOf x.supplies) :=
    fun id hid => not_ghost_of_hex hgid (hhex id hid)
  have hghost : ∀ id c, AMap.get? (ghostsOf x.supplies) id = some c →
      ∃ d sup, (d, sup) ∈ x.supplies ∧ c = ghostOf d sup.current := by
    intro id c hg
    obtain ⟨d, sup, hm, _, hc⟩ := mem_ghostsOf (mem_of_get? hg)
    exact ⟨d, sup, hm, hc⟩
  refine ⟨⟨?_, ?_⟩, ⟨hq.1, ?_, ?_⟩, ?_, ?_⟩
  · -- one entry per id
    show ((ghostsOf x.supplies ++ x.htlcs).map (·.1)).Nodup
    rw [List.map_append, List.nodup_append]
    refine ⟨nodup_ghostsOf hnd, hwf.1, ?_⟩
    intro a ha b hb hab
    subst hab
    exact hclean a hb ha
  · intro id c hget
    rcases get?_ghost_cases hget with hg | ⟨_, hm⟩
    · obtain ⟨d, sup, hmem, rfl⟩ := hghost id c hg
      refine ⟨by simp [ghostOf, escrow], fun _ => ⟨d, sup.current, rfl, by simp [ghostOf], ?_⟩, fun h => by cases h⟩
      show (AMap.get? x.supplies d).isSome = true
      rw [get?_of_mem (m := x.supplies) hnd hmem]; rfl
    · exact hwf.2 id c hm
  · intro id c hget ho
    rcases get?_ghost_cases hget with hg | ⟨_, hm⟩
    · obtain ⟨d, sup, _, rfl⟩ := hghost id c hg
      cases ho
    · exact hq.2.1 id c hm ho
  · intro h id hmem
    obtain ⟨c, hc, ho, he⟩ := hq.2.2 h id hmem
    refine ⟨c, ?_, ho, he⟩
    show AMap.get? (ghostsOf x.supplies ++ x.htlcs) id = some c
    rw [get?_ghost (hclean id ((mem_keys_iff _ _).mpr ⟨c, hc⟩))]
    exact hc
  · intro d
    show AMap.sumBy (escrowAmt d) (ghostsOf x.supplies ++ x.htlcs) ≤ _
    rw [sumBy_append, sumBy_ghosts_zero _ (by intro d' n; simp [escrowAmt, escrowed, ghostOf])]
    rw [Nat.zero_add]
    exact hge d
  · intro d
    obtain ⟨c1, c2, c3, c4⟩ := hcnt d
    have hsup : supOf (ghost (ghostsOf x.supplies) x) d = supOf x d := rfl
    have e1 : sumDir (ghost (ghostsOf x.supplies) x) .open .incoming d = sumDir x .open .incoming d := by
      show AMap.sumBy _ (ghostsOf x.supplies ++ x.htlcs) = _
      rw [sumBy_append, sumBy_ghosts_zero _ (by intro d' n; simp [dirAmt, ghostOf])]; simp [sumDir]
    have e2 : sumDir (ghost (ghostsOf x.supplies) x) .open .outgoing d = sumDir x .open .outgoing d := by
      show AMap.sumBy _ (ghostsOf x.supplies ++ x.htlcs) = _
      rw [sumBy_append, sumBy_ghosts_zero _ (by intro d' n; simp [dirAmt, ghostOf])]; simp [sumDir]
    have e3 : sumDir (ghost (ghostsOf x.supplies) x) .completed .outgoing d = sumDir x .completed .outgoing d := by
      show AMap.sumBy _ (ghostsOf x.supplies ++ x.htlcs) = _
      rw [sumBy_append, sumBy_ghosts_zero _ (by intro d' n; simp [dirAmt, ghostOf])]; simp [sumDir]
    have e4 : sumDir (ghost (ghostsOf x.supplies) x) .completed .incoming d =
        (supOf x d).current + sumDir x .completed .incoming d := by
      show AMap.sumBy _ (ghostsOf x.supplies ++ x.htlcs) = _
      rw [sumBy_append, sumBy_ghosts_completed_in d x.supplies hnd]; rfl
    rw [hsup, e1, e2, e3, e4]
    have := h0 d
    exact ⟨c1, c2, by omega, c4⟩

/-- the ghosts of a restart are completed incoming transfers -/
def Ghostly (g : AMap Id Contract) : Prop :=
  ∀ e ∈ g, e.2.state = .completed ∧ e.2.transfer = true ∧ e.2.direction = .incoming ∧ e.2.to ≠ escrow

theorem ghostly_ghostsOf (l : AMap Denom Supply) : Ghostly (ghostsOf l) := by
  intro e he
  obtain ⟨d, sup, _, _, hc⟩ := mem_ghostsOf (show (e.1, e.2) ∈ ghostsOf l from he)
  rw [hc]
  exact ⟨rfl, rfl, rfl, by simp [ghostOf, escrow]⟩

theorem sumBy_ghostly_zero {g : AMap Id Contract} (hg : Ghostly g) (f : Contract → Nat)
    (hf : ∀ c, c.state = .completed → c.transfer = true → c.direction = .incoming → f c = 0) : AMap.sumBy f g = 0 := by
  induction g with
  | nil => rfl
  | cons e t ih =>
    obtain ⟨id, c⟩ := e
    obtain ⟨h1, h2, h3, _⟩ := hg (id, c) (by simp)
    rw [sumBy_cons, hf c h1 h2 h3, ih (fun e he => hg e (by simp [he]))]

/-! ### the restarted chain -/

/-- **`Inv` of the re-imported state with its ghosts** -/
theorem inv_ghost_imported {s : State} (dp : Nat) (hs : Inv s) (hw : GenWF s) :
    Inv (ghost (ghostsOf s.supplies) (imported dp s)) := by
  have h := inv_ghost (x := imported dp s) (invFrom_imported dp hs hw)
    (fun d => by rw [sumDir_completed_imported, sumDir_completed_imported]) hw.aux.snodup
    (idsHex_of_genWF (genWF_imported dp hs hw))
  exact h

theorem queueClean_of_inv {g : AMap Id Contract} {x : State} (hg : Ghostly g) (hi : Inv (ghost g x)) : QueueClean g x := by
  intro q hq hk
  obtain ⟨c, hc, ho, _⟩ := hi.2.1.2.2 q.1 q.2 (show (q.1, q.2) ∈ (ghost g x).queue from hq)
  obtain ⟨c', hc'⟩ := (mem_keys_iff g q.2).mp hk
  have : AMap.get? (g ++ x.htlcs) q.2 = some c' := by rw [get?_append, hc']; rfl
  rw [show (ghost g x).htlcs = g ++ x.htlcs from rfl, this] at hc
  have hcc : c' = c := Option.some.inj hc
  have hst := (hg (q.2, c') (mem_of_get? hc')).1
  rw [hcc] at hst
  rw [hst] at ho; cases ho

/-- **`Inv` with the ghosts holds along every history after the restart**, and running the
operations on the state with ghosts is running them on the state without -/
theorem restart_inv_run {g : AMap Id Contract} (hgi : GhostIds g) (hg : Ghostly g) :
    ∀ (ops : List Op) (x : State), Inv (ghost g x) → (∀ op ∈ ops, OpOkG op) →
      Inv (ghost g (run x ops)) ∧ run (ghost g x) ops = ghost g (run x ops)
  | [], _, hi, _ => ⟨hi, rfl⟩
  | op :: r, x, hi, hops => by
    have hop := hops op (by simp)
    have hcomm := apply_ghost g hgi x op hop (queueClean_of_inv hg hi)
    have hi' : Inv (ghost g (apply x op)) := by rw [← hcomm]; exact inv_apply hi hop.opOk
    obtain ⟨h1, h2⟩ := restart_inv_run hgi hg r (apply x op) hi' (fun o ho => hops o (by simp [ho]))
    refine ⟨h1, ?_⟩
    show run (apply (ghost g x) op) r = _
    rw [hcomm]; exact h2

/-! ### consequences for the state without ghosts -/

theorem keys_disjoint_of_inv {g : AMap Id Contract} {x : State} (hi : Inv (ghost g x)) :
    ∀ id ∈ AMap.keys x.htlcs, id ∉ AMap.keys g := by
  intro id hid hk
  have := hi.1.1
  rw [show (ghost g x).htlcs = g ++ x.htlcs from rfl, List.map_append, List.nodup_append] at this
  exact this.2.2 id hk id hid rfl

theorem get?_of_ghost {g : AMap Id Contract} {x : State} (hi : Inv (ghost g x)) {id : Id} {c : Contract}
    (h : AMap.get? x.htlcs id = some c) : AMap.get? (ghost g x).htlcs id = some c := by
  show AMap.get? (g ++ x.htlcs) id = some c
  rw [get?_ghost (keys_disjoint_of_inv hi id ((mem_keys_iff _ _).mpr ⟨c, h⟩))]; exact h

/-- the queue bijection of C03 / C13 -/
theorem queueInv_of_ghost {g : AMap Id Contract} {x : State} (hg : Ghostly g) (hi : Inv (ghost g x)) : QueueInv x := by
  refine ⟨hi.2.1.1, ?_, ?_⟩
  · intro id c hget ho
    exact hi.2.1.2.1 id c (get?_of_ghost hi hget) ho
  · intro h id hm
    obtain ⟨c, hc, ho, he⟩ := hi.2.1.2.2 h id hm
    refine ⟨c, ?_, ho, he⟩
    have hk : id ∉ AMap.keys g := queueClean_of_inv hg hi (h, id) hm
    rw [show (ghost g x).htlcs = g ++ x.htlcs from rfl, get?_ghost hk] at hc
    exact hc

theorem wf_of_ghost {g : AMap Id Contract} {x : State} (hi : Inv (ghost g x)) : WF x := by
  refine ⟨?_, fun id c hget => hi.1.2 id c (get?_of_ghost hi hget)⟩
  have := hi.1.1
  rw [show (ghost g x).htlcs = g ++ x.htlcs from rfl, List.map_append, List.nodup_append] at this
  exact this.2.1

theorem openEscrow_ghost {g : AMap Id Contract} (hg : Ghostly g) (x : State) (d : Denom) :
    openEscrow (ghost g x) d = openEscrow x d := by
  show AMap.sumBy (escrowAmt d) (g ++ x.htlcs) = _
  rw [sumBy_append, sumBy_ghostly_zero hg _ (by intro c h1 _ _; simp [escrowAmt, escrowed, h1])]
  simp [openEscrow]

theorem sumDir_ghost {g : AMap Id Contract} (hg : Ghostly g) (x : State) (st : HState) (dir : Dir) (d : Denom)
    (h : st ≠ .completed ∨ dir ≠ .incoming) : sumDir (ghost g x) st dir d = sumDir x st dir d := by
  show AMap.sumBy (dirAmt st dir d) (g ++ x.htlcs) = _
  rw [sumBy_append, sumBy_ghostly_zero hg _ (by
    intro c h1 _ h3
    unfold dirAmt
    rcases h with h | h
    · have : (c.state == st) = false := by rw [h1]; cases st <;> simp_all
      simp [this]
    · have : (c.direction == dir) = false := by rw [h3]; cases dir <;> simp_all
      simp [this])]
  simp [sumDir]

/-- the escrow covers the open contracts -/
theorem escrowGe_of_ghost {g : AMap Id Contract} {x : State} (hg : Ghostly g) (hi : Inv (ghost g x)) : EscrowGe x := by
  intro d; rw [← openEscrow_ghost hg x d]; exact hi.2.2.1 d

/-- the counters, with the history clause relative to what the ghosts stand for -/
theorem countersFrom_of_ghost {g : AMap Id Contract} {x : State} (hg : Ghostly g) (hi : Inv (ghost g x)) :
    CounterInvFrom (fun d => AMap.sumBy (dirAmt .completed .incoming d) g) x := by
  intro d
  obtain ⟨c1, c2, c3, c4⟩ := hi.2.2.2 d
  have hsup : supOf (ghost g x) d = supOf x d := rfl
  rw [hsup, sumDir_ghost hg x _ _ d (Or.inl (by decide))] at c1 c2
  rw [hsup, sumDir_ghost hg x _ _ d (Or.inr (by decide))] at c3
  rw [hsup] at c4
  refine ⟨c1, c2, ?_, c4⟩
  rw [c3]
  show AMap.sumBy (dirAmt .completed .incoming d) (g ++ x.htlcs) = _
  rw [sumBy_append]; rfl

/-- **the begin blocker is total after the restart** (C13) -/
theorem beginBlock_total_of_ghost {g : AMap Id Contract} {x : State} (hg : Ghostly g)
    (hi : Inv (ghost g x)) (h t : Nat) : ∃ x1, step x (.beginBlock h t) = .ok x1 ∧ Inv (ghost g x1) := by
  obtain ⟨s1, e⟩ := beginBlock_ok hi h t
  have hcomm := stepBeginBlock_ghost g x h t (queueClean_of_inv hg hi)
  rw [e.run] at hcomm
  cases hx : stepBeginBlock x h t with
  | error err => rw [hx] at hcomm; cases hcomm
  | ok x1 =>
    rw [hx] at hcomm
    have : s1 = ghost g x1 := by cases hcomm; rfl
    exact ⟨x1, hx, by rw [← this]; exact e.inv⟩

/-- the escrow identity of C04 with and without the ghosts -/
theorem escrowEq_ghost_iff {g : AMap Id Contract} (hg : Ghostly g) (x : State) : EscrowEq (ghost g x) ↔ EscrowEq x := by
  constructor
  · intro h d; rw [← openEscrow_ghost hg x d]; exact h d
  · intro h d; rw [openEscrow_ghost hg x d]; exact h d

theorem noSelf_ghost_iff {g : AMap Id Contract} {x : State} (hg : Ghostly g) (hi : Inv (ghost g x)) :
    NoSelf (ghost g x) ↔ NoSelf x := by
  constructor
  · intro h id c hget; exact h id c (get?_of_ghost hi hget)
  · intro h id c hget
    rcases get?_ghost_cases (show AMap.get? (g ++ x.htlcs) id = some c from hget) with hgc | ⟨_, hm⟩
    · exact (hg (id, c) (mem_of_get? hgc)).2.2.2
    · exact h id c hm

end Irismod.Proofs.HtlcGen
