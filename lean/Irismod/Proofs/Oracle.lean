/-
Helper lemmas for C17 (oracle): aggregates over exact decimals, the feed-value store, the index.
-/
import Irismod.Spec.C17

namespace Irismod.Proofs.Oracle
open Irismod Irismod.Oracle Irismod.Spec.C17

/-! ### aggregates -/

theorem maxAcc_some (m : Int) (t : List Int) : maxAcc (some m) t = some (listMax m t) := by
  induction t generalizing m with
  | nil => rfl
  | cons x t ih =>
    simp only [maxAcc, listMax]
    split <;> exact ih _

theorem minAcc_some (m : Int) (t : List Int) : minAcc (some m) t = some (listMin m t) := by
  induction t generalizing m with
  | nil => rfl
  | cons x t ih =>
    simp only [minAcc, listMin]
    split <;> exact ih _

theorem litMax_eq (xs : List Int) (h : xs ≠ []) : specMax xs = some (litMax xs) := by
  cases xs with
  | nil => exact absurd rfl h
  | cons x t => simp [specMax, litMax, maxAcc, maxAcc_some]

theorem litMin_eq (xs : List Int) : litMin xs = specMin xs := by
  cases xs with
  | nil => rfl
  | cons x t => simp [litMin, minAcc, specMin, minAcc_some]

theorem roundHalfEven_exact (k : Int) (q : Nat) (hq : 0 < q) : roundHalfEven (k * q) q = k := by
  have hq' : (0 : Int) < (q : Int) := by exact_mod_cast hq
  have h1 : (k * (q : Int)) % (q : Int) = 0 := Int.mul_emod_left k q
  have h2 : (k * (q : Int)) / (q : Int) = k := Int.mul_ediv_cancel k (by omega)
  unfold roundHalfEven
  rw [h1, h2]
  have : (2 : Int) * 0 < (q : Int) := by omega
  rw [if_pos this]

/-! ### the feed-value store -/

theorem insertKey_fresh (l : List (Nat × Value)) (k : Nat) (v : Value) (h : FreshKey l k) :
    insertKey k v l = l ++ [(k, v)] := by
  induction l with
  | nil => rfl
  | cons e t ih =>
    obtain ⟨k', v'⟩ := e
    have hk : k' < k := h (k', v') (by simp)
    have ht : FreshKey t k := fun e he => h e (by simp [he])
    have h1 : ¬ k < k' := by omega
    have h2 : ¬ k = k' := by omega
    simp [insertKey, h1, h2, ih ht]

theorem length_insertKey_le (l : List (Nat × Value)) (k : Nat) (v : Value) :
    (insertKey k v l).length ≤ l.length + 1 := by
  induction l with
  | nil => simp [insertKey]
  | cons e t ih =>
    obtain ⟨k', v'⟩ := e
    simp only [insertKey]
    split
    · simp
    · split
      · simp
      · simp only [List.length_cons]; omega

theorem length_setFeedValue_le (vals : List (Nat × Value)) (k hist : Nat) (v : Value) (hh : 1 ≤ hist) :
    (setFeedValue vals k hist v).length ≤ hist := by
  unfold setFeedValue
  have := length_insertKey_le (vals.drop (vals.length + 1 - hist)) k v
  simp only [List.length_drop] at this
  omega

theorem take_eq_of_len {α : Type} (X : List α) (a b : Nat) (h : a = b ∨ (X.length ≤ a ∧ X.length ≤ b)) :
    X.take a = X.take b := by
  rcases h with h | ⟨h1, h2⟩
  · rw [h]
  · rw [List.take_of_length_le h1, List.take_of_length_le h2]

/-- **trim-then-insert**: with a fresh (larger) batch counter, `SetFeedValue` puts the new value in
front of the newest-first history and keeps the newest `latestHistory` entries -/
theorem view_setFeedValue (vals : List (Nat × Value)) (k hist : Nat) (v : Value) (hh : 1 ≤ hist)
    (hf : FreshKey vals k) : view (setFeedValue vals k hist v) = (v :: view vals).take hist := by
  unfold setFeedValue
  have hf' : FreshKey (vals.drop (vals.length + 1 - hist)) k :=
    fun e he => hf e (List.mem_of_mem_drop he)
  rw [insertKey_fresh _ _ _ hf']
  unfold view
  rw [List.reverse_append, List.reverse_drop]
  obtain ⟨h', rfl⟩ : ∃ h', hist = h' + 1 := ⟨hist - 1, by omega⟩
  simp only [List.reverse_cons, List.reverse_nil, List.nil_append, List.singleton_append, List.map_cons,
    List.take_succ_cons, List.map_take]
  congr 1
  apply take_eq_of_len
  simp only [List.length_map, List.length_reverse]
  omega

/-- shrinking `latestHistory` in `EditFeed` trims immediately, keeping the newest entries -/
theorem view_trimTo (vals : List (Nat × Value)) (h : Nat) : view (trimTo vals h) = (view vals).take h := by
  unfold trimTo view
  split
  · rw [List.reverse_drop, List.map_take]
    apply take_eq_of_len
    simp only [List.length_map, List.length_reverse]
    omega
  · rw [List.take_of_length_le]
    simp only [List.length_map, List.length_reverse]; omega

theorem length_trimTo_le (vals : List (Nat × Value)) (h : Nat) : (trimTo vals h).length ≤ h := by
  unfold trimTo
  split
  · simp only [List.length_drop]; omega
  · omega

/-! ### index and map helpers -/

theorem mem_enqueue (l : List Name) (n x : Name) : x ∈ enqueue l n ↔ x = n ∨ x ∈ l := by
  unfold enqueue
  split
  · rename_i h
    have : n ∈ l := by simpa using h
    constructor
    · intro hx; exact Or.inr hx
    · rintro (rfl | hx)
      · exact this
      · exact hx
  · simp

theorem mem_dequeue (l : List Name) (n x : Name) : x ∈ dequeue l n ↔ x ∈ l ∧ x ≠ n := by
  unfold dequeue; simp

theorem isSome_get?_set {V : Type} (m : AMap Name V) (k k2 : Name) (v : V) :
    (AMap.get? (AMap.set m k v) k2).isSome ↔ (k = k2 ∨ (AMap.get? m k2).isSome) := by
  by_cases h : k = k2
  · subst h; simp [AMap.get?_set_self]
  · simp [AMap.get?_set_other m k k2 v h, h]

/-- everything the oracle keeps about names other than `name` is the same in both states -/
structure FrameExcept (s s' : State) (name : Name) : Prop where
  feeds : ∀ n, n ≠ name → AMap.get? s'.feeds n = AMap.get? s.feeds n
  ctxs : ∀ n, n ≠ name → AMap.get? s'.ctxs n = AMap.get? s.ctxs n
  running : ∀ n, n ≠ name → (n ∈ s'.running ↔ n ∈ s.running)
  paused : ∀ n, n ≠ name → (n ∈ s'.paused ↔ n ∈ s.paused)

def MirrorAt (s : State) (n : Name) : Prop :=
  ∀ f c, AMap.get? s.feeds n = some f → AMap.get? s.ctxs n = some c →
    (c.state = .running → n ∈ s.running ∧ n ∉ s.paused) ∧
    (c.state = .paused → n ∈ s.paused ∧ n ∉ s.running)

theorem mirror_iff (s : State) : Mirror s ↔ ∀ n, MirrorAt s n :=
  ⟨fun h n f c hf hc => h n f c hf hc, fun h n f c hf hc => h n f c hf hc⟩

theorem mirror_of_frame {s s' : State} {name : Name} (fr : FrameExcept s s' name) (hm : Mirror s)
    (hn : MirrorAt s' name) : Mirror s' := by
  rw [mirror_iff]
  intro n
  by_cases h : n = name
  · subst h; exact hn
  · intro f c hf hc
    rw [fr.feeds n h] at hf
    rw [fr.ctxs n h] at hc
    have := hm n f c hf hc
    rw [fr.running n h, fr.paused n h]
    exact this

end Irismod.Proofs.Oracle
