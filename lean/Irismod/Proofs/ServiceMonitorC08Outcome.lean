/-
Monitor soundness for the service module, C08 — three of the five clause groups of `Spec.C08.check`:
the OUTCOME AUTOMATON (`outcomeStep`, with the memory `answered` / `expired` / `seen`), the AUTHORITY clause
(`authorityFails`) and the non-end-block part of the schedule group (`countersSame`).

On every model step `pre = s`, `post = apply s op`, `accepted = accepted s op` from a state satisfying `SInv`
under the side conditions `OpOK` the clauses report no failure and the memory invariant `M08a` is kept.

Headlines: `c08_outcome_sound` (uses `SInv s`, `WF` of the post-state, `OpOK`: `notSkip`, `FreshOp`),
`outcomeStep_frame`, `scheduleStep_frame`, `createdPaused_frame`, `M08a.congr`, `c08_authority_sound`
(hypothesis `keeperIdLower`: the keeper-level entry points look the context up under the id as given, the clause
under `id.toLower` — sound for ids that are their own lower-case form, i.e. every stored id `ctxIdOf` generates),
`c08_counters_sound` (hypotheses: unique keys of the context table — `countersSame` ranges over all list entries —
and `OpOK` for `FreshOp`: a created context must not overwrite a stored one).  Helpers live in `C08Out`.
-/
import Irismod.Proofs.ServiceMonitorBase

namespace Irismod.Proofs.ServiceMonitor
open Irismod Irismod.Sdk Irismod.Service Irismod.Spec.C08 Irismod.Proofs.Service

namespace C08Out

/-! ### list and map facts -/

theorem mem_of_get? {K V : Type} [DecidableEq K] : ∀ (m : AMap K V) (k : K) (v : V), AMap.get? m k = some v → (k, v) ∈ m
  | [], _, _, h => by simp [AMap.get?] at h
  | (k', v') :: t, k, v, h => by
    by_cases hk : k' = k
    · simp only [AMap.get?, hk, if_true] at h
      cases h; subst hk; exact List.mem_cons_self ..
    · simp only [AMap.get?, hk, if_false] at h
      exact List.mem_cons_of_mem _ (mem_of_get? t k v h)

theorem get?_ne_none_of_mem_keys {K V : Type} [DecidableEq K] (m : AMap K V) (k : K)
    (h : k ∈ m.map (·.1)) : AMap.get? m k ≠ none := by
  induction m with
  | nil => simp at h
  | cons hd t ih =>
    obtain ⟨k', v'⟩ := hd
    by_cases hk : k' = k
    · simp [AMap.get?, hk]
    · simp only [List.map_cons, List.mem_cons] at h
      rcases h with h | h
      · exact absurd h.symm hk
      · simp only [AMap.get?, hk, if_false]; exact ih h

theorem contains_of_mem_keys {K V : Type} [DecidableEq K] (m : AMap K V) (k : K)
    (h : k ∈ m.map (·.1)) : AMap.contains m k = true := by
  unfold AMap.contains
  cases hg : AMap.get? m k with
  | none => exact absurd hg (get?_ne_none_of_mem_keys m k h)
  | some _ => rfl

theorem set_fresh {K V : Type} [DecidableEq K] (m : AMap K V) (k : K) (v : V)
    (h : AMap.get? m k = none) : AMap.set m k v = m ++ [(k, v)] := by
  induction m with
  | nil => rfl
  | cons hd t ih =>
    obtain ⟨k', v'⟩ := hd
    by_cases hk : k' = k
    · simp [AMap.get?, hk] at h
    · simp only [AMap.get?, hk, if_false] at h
      simp [AMap.set, hk, ih h]

/-- the keys of `set m k v` that are not bound in `m` are exactly `[k]` when `k` was fresh -/
theorem new_keys_of_fresh {K V : Type} [DecidableEq K] (m : AMap K V) (k : K) (v : V)
    (h : AMap.get? m k = none) :
    ((AMap.set m k v).map (·.1)).filter (fun x => !(AMap.contains m x)) = [k] := by
  rw [set_fresh m k v h, List.map_append, List.filter_append]
  have h1 : (m.map (·.1)).filter (fun x => !(AMap.contains m x)) = [] := by
    rw [List.filter_eq_nil_iff]
    intro x hx
    simp [contains_of_mem_keys m x hx]
  have h2 : AMap.contains m k = false := by simp [AMap.contains, h]
  simp [h1, h2]

/-- with unique keys every list entry is the one `get?` finds -/
theorem get?_of_mem_nodup {K V : Type} [DecidableEq K] : ∀ (m : AMap K V), KeysNodup m → ∀ e, e ∈ m → AMap.get? m e.1 = some e.2
  | [], _, _, h => by cases h
  | (k', v') :: t, hn, e, h => by
    unfold KeysNodup at hn
    simp only [List.map_cons, List.nodup_cons] at hn
    rcases List.mem_cons.mp h with h | h
    · subst h; simp [AMap.get?]
    · have hne : k' ≠ e.1 := by
        intro hk
        exact hn.1 (hk ▸ List.mem_map.mpr ⟨e, h, rfl⟩)
      simp only [AMap.get?, hne, if_false]
      exact get?_of_mem_nodup t hn.2 e h

/-- the elements of a duplicate-free list that are missing once `a` is filtered out: exactly `a` -/
theorem filter_removed {α : Type} [DecidableEq α] : ∀ (l : List α) (a : α), l.Nodup → a ∈ l →
    l.filter (fun r => !((l.filter (fun y => decide (y ≠ a))).contains r)) = [a] := by
  intro l a hn ha
  have hcongr : l.filter (fun r => !((l.filter (fun y => decide (y ≠ a))).contains r)) = l.filter (fun r => decide (r = a)) := by
    apply List.filter_congr
    intro r hr
    by_cases hra : r = a
    · subst hra
      simp
    · simp [hra, hr]
  rw [hcongr]
  clear hcongr
  induction l with
  | nil => cases ha
  | cons x t ih =>
    rw [List.nodup_cons] at hn
    by_cases hx : x = a
    · subst hx
      have : t.filter (fun r => decide (r = x)) = [] := by
        rw [List.filter_eq_nil_iff]
        intro y hy
        have : y ≠ x := fun e => hn.1 (e ▸ hy)
        simp [this]
      simp [this]
    · have ha' : a ∈ t := by
        rcases List.mem_cons.mp ha with h | h
        · exact absurd h.symm hx
        · exact h
      simp only [List.filter_cons, hx, decide_false]
      exact ih hn.2 ha'

theorem filter_none {α : Type} (l : List α) (p : α → Bool) (h : ∀ x, x ∈ l → p x = false) : l.filter p = [] := by
  rw [List.filter_eq_nil_iff]
  intro x hx
  rw [h x hx]; simp

/-! ### frames: what the operations other than answers and end blocks leave alone -/

/-- batch counters of the contexts present on both sides agree -/
def CtrSame (m m' : AMap CtxId Ctx) : Prop :=
  ∀ id c c', AMap.get? m id = some c → AMap.get? m' id = some c' → c'.batchCounter = c.batchCounter

theorem CtrSame.refl (m : AMap CtxId Ctx) : CtrSame m m := by
  intro id c c' h h'
  rw [h] at h'; cases h'; rfl

theorem CtrSame.set_core {m : AMap CtxId Ctx} {id : CtxId} {c0 c : Ctx} (hg : AMap.get? m id = some c0)
    (hc : c.batchCounter = c0.batchCounter) : CtrSame m (AMap.set m id c) := by
  intro id' c1 c1' h h'
  by_cases hi : id = id'
  · subst hi
    rw [AMap.get?_set_self] at h'
    rw [hg] at h
    cases h; cases h'; exact hc
  · rw [AMap.get?_set_other _ _ _ _ hi, h] at h'
    cases h'; rfl

theorem CtrSame.set_new {m : AMap CtxId Ctx} {id : CtxId} (c : Ctx) (hf : AMap.contains m id = false) :
    CtrSame m (AMap.set m id c) := by
  intro id' c1 c1' h h'
  by_cases hi : id = id'
  · subst hi
    rw [(contains_false_iff _ _).mp hf] at h
    cases h
  · rw [AMap.get?_set_other _ _ _ _ hi, h] at h'
    cases h'; rfl

/-- active set, response table and batch counters are untouched -/
structure OFrame (s s' : State) : Prop where
  act   : s'.active = s.active
  resps : s'.resps = s.resps
  ctr   : CtrSame s.ctxs s'.ctxs

theorem OFrame.of_eq {s s' : State} (h1 : s'.active = s.active) (h2 : s'.resps = s.resps) (h3 : s'.ctxs = s.ctxs) :
    OFrame s s' :=
  ⟨h1, h2, by rw [h3]; exact CtrSame.refl _⟩

theorem createCtx_oframe {s s' : State} {newId svc providers consumer inputOk cap timeout repeated freq total st thr moduleName}
    (hfresh : AMap.contains s.ctxs newId = false)
    (h : createCtx s newId svc providers consumer inputOk cap timeout repeated freq total st thr moduleName = .ok s') :
    OFrame s s' := by
  unfold createCtx at h
  split at h
  · cases h
  split at h
  · cases h
  split at h
  · cases h
  split at h
  · cases h
  split at h
  · cases h
  cases h
  unfold createState
  split
  · exact ⟨rfl, rfl, CtrSame.set_new _ hfresh⟩
  · exact ⟨rfl, rfl, CtrSame.set_new _ hfresh⟩

theorem keeperPause_oframe {s s' : State} {id consumer} (h : keeperPause s id consumer = .ok s') : OFrame s s' := by
  unfold keeperPause at h
  split at h
  · cases h
  rename_i rc hg
  split at h
  · cases h
  split at h
  · cases h
  split at h
  · cases h
  cases h; exact ⟨rfl, rfl, CtrSame.set_core hg rfl⟩

theorem keeperStart_oframe {s s' : State} {id consumer} (h : keeperStart s id consumer = .ok s') : OFrame s s' := by
  unfold keeperStart at h
  split at h
  · cases h
  rename_i rc hg
  split at h
  · cases h
  split at h
  · cases h
  split at h
  · cases h
  cases h
  split
  · exact ⟨rfl, rfl, CtrSame.set_core hg rfl⟩
  · exact ⟨rfl, rfl, CtrSame.set_core hg rfl⟩

theorem keeperKill_oframe {s s' : State} {id consumer} (h : keeperKill s id consumer = .ok s') : OFrame s s' := by
  unfold keeperKill at h
  split at h
  · cases h
  rename_i rc hg
  split at h
  · cases h
  split at h
  · cases h
  cases h; exact ⟨rfl, rfl, CtrSame.set_core hg rfl⟩

theorem keeperUpdate_oframe {s s' : State} {id providers thr cap timeout freq total consumer}
    (h : keeperUpdate s id providers thr cap timeout freq total consumer = .ok s') : OFrame s s' := by
  unfold keeperUpdate at h
  split at h
  · cases h
  rename_i rc hg
  split at h
  · cases h
  split at h
  · cases h
  split at h
  · cases h
  split at h
  · cases h
  split at h
  · cases h
  split at h
  · cases h
  split at h
  · cases h
  split at h
  · cases h
  cases h; exact ⟨rfl, rfl, CtrSame.set_core hg rfl⟩

theorem keeperWithdraw_oframe {s s' : State} {owner provider} (h : keeperWithdraw s owner provider = .ok s') : OFrame s s' := by
  unfold keeperWithdraw at h
  split at h
  · unfold withdrawProvider at h
    split at h
    · cases h
    split at h
    · cases h
    split at h
    · cases h
    cases h; exact OFrame.of_eq rfl rfl rfl
  · unfold withdrawOwner at h
    split at h
    · cases h
    cases h; exact OFrame.of_eq rfl rfl rfl

/-- what an accepted answer does to the response table and the batch counters -/
theorem keeperRespond_frame {s s' : State} {provider rid hasOut} (h : keeperRespond s provider rid hasOut = .ok s') :
    (∃ v, s'.resps = AMap.set s.resps rid v) ∧ CtrSame s.ctxs s'.ctxs := by
  unfold keeperRespond at h
  split at h
  · cases h
  rename_i rq rc hgr
  split at h
  · cases h
  split at h
  · cases h
  split at h
  · cases h
  rename_i s1 hfee
  cases h
  obtain ⟨hq, hc⟩ := getRequest_some hgr
  obtain ⟨⟨_, _, _, _, _, _, f7⟩, fr, _, _⟩ := addEarnedFee_sched hfee
  have hcr : ∀ (t : State) (id : CtxId), (countResponse t id).resps = t.resps := by
    intro t id
    unfold countResponse storeCtx completeBatch callback
    split
    · split <;> rfl
    · rfl
  constructor
  · rw [hcr]
    simp only [recordResponse]
    rw [fr]
    exact ⟨_, rfl⟩
  · have hget : getCtx (recordResponse s1 rid provider rq rc hasOut) rq.ctx = rc := by
      apply getCtx_of_get?
      simp only [recordResponse]
      rw [f7]; exact hc
    rw [(countResponse_fields _ _).2.2.2.2.2.2, hget]
    simp only [recordResponse]
    rw [f7]
    apply CtrSame.set_core hc
    split <;> rfl

/-- the operations whose outcome clause is not the default one -/
def isOutcomeOp : Op → Bool
  | .respond _ (some _) _ _ _ => true
  | .next _ => true
  | .skip _ _ => true
  | _ => false

/-- every accepted operation other than an answer or a block leaves the active set, the response table and the
batch counters alone (`FreshOp`: a created context does not overwrite a stored one) -/
theorem stepCore_oframe {s s' : State} {op : Op} (hno : isOutcomeOp op = false) (hf : FreshOp s op)
    (h : stepCore s op = .ok s') : OFrame s s' := by
  cases op with
  | define sender name schOk =>
    simp only [stepCore, stepDefine] at h
    split at h
    · cases h
    split at h
    · cases h
    split at h
    · cases h
    split at h
    · cases h
    cases h; exact OFrame.of_eq rfl rfl rfl
  | bind owner provider svc dep qos pin optsOk =>
    simp only [stepCore, stepBind] at h
    split at h
    · cases h
    split at h
    · cases h
    obtain ⟨d, pr, bank, _, _, _, rfl⟩ := keeperBind_inv h
    exact OFrame.of_eq rfl rfl rfl
  | updateBinding owner provider svc dep qos pin opts =>
    simp only [stepCore, stepUpdateBinding] at h
    split at h
    · cases h
    obtain ⟨b, d, pr, bank, _, _, _, _, rfl⟩ := keeperUpdateBinding_inv h
    exact OFrame.of_eq rfl rfl rfl
  | setWithdraw owner addr =>
    simp only [stepCore, stepSetWithdraw] at h
    split at h
    · cases h
    split at h
    · cases h
    cases h; exact OFrame.of_eq rfl rfl rfl
  | enable owner provider svc dep =>
    simp only [stepCore, stepEnable] at h
    split at h
    · cases h
    unfold keeperEnable at h
    split at h
    · cases h
    split at h
    · cases h
    split at h
    · cases h
    split at h
    · cases h
    split at h
    · cases h
    split at h
    · cases h
    cases h; exact OFrame.of_eq rfl rfl rfl
  | disable owner provider svc =>
    simp only [stepCore, stepDisable] at h
    split at h
    · cases h
    split at h
    · cases h
    split at h
    · cases h
    split at h
    · cases h
    cases h; exact OFrame.of_eq rfl rfl rfl
  | refundDeposit owner provider svc =>
    simp only [stepCore, stepRefundDeposit] at h
    split at h
    · cases h
    unfold keeperRefundDeposit at h
    split at h
    · cases h
    split at h
    · cases h
    split at h
    · cases h
    split at h
    · cases h
    split at h
    · cases h
    split at h
    · cases h
    cases h; exact OFrame.of_eq rfl rfl rfl
  | call tx consumer svc providers cap timeout repeated freq total inputOk =>
    simp only [stepCore, stepCall] at h
    split at h
    · cases h
    split at h
    · cases h
    split at h
    · cases h
    exact createCtx_oframe hf h
  | mcall tx consumer svc providers cap timeout repeated freq total inputOk paused thr modName =>
    exact createCtx_oframe hf h
  | respond provider rid code out resOk =>
    cases rid with
    | some rid => simp [isOutcomeOp] at hno
    | none =>
      simp only [stepCore, stepRespond] at h
      split at h
      · cases h
      cases h
  | withdraw owner provider =>
    simp only [stepCore, stepWithdraw] at h
    split at h
    · cases h
    split at h
    · cases h
    exact keeperWithdraw_oframe h
  | withdrawK owner provider => exact keeperWithdraw_oframe h
  | pause consumer id => exact keeperPause_oframe (stepPause_inv h)
  | start consumer id => exact keeperStart_oframe (stepStart_inv h)
  | kill consumer id => exact keeperKill_oframe (stepKill_inv h)
  | updateCtx consumer id providers cap timeout freq total => exact keeperUpdate_oframe (stepUpdateCtx_inv h)
  | mpause consumer id => exact keeperPause_oframe h
  | mstart consumer id => exact keeperStart_oframe h
  | mkill consumer id => exact keeperKill_oframe h
  | mupdate consumer id providers thr cap timeout freq total => exact keeperUpdate_oframe h
  | setRate d r =>
    simp only [stepCore] at h
    cases h; exact OFrame.of_eq rfl rfl rfl
  | next dt => simp [isOutcomeOp] at hno
  | skip n dt => simp [isOutcomeOp] at hno

/-! ### the end block only filters the response table -/

theorem slash_resps (s : State) (svc : String) (p : Addr) : (slash s svc p).resps = s.resps := by
  unfold slash
  split
  · rfl
  split
  · rfl
  split <;> rfl

theorem refund_resps (s : State) (c : Addr) (d : Denom) (n : Nat) : (refund s c d n).resps = s.resps := by
  unfold refund
  split <;> rfl

theorem expireReq_resps (s : State) (rid : ReqId) : (expireReq s rid).resps = s.resps := by
  unfold expireReq
  split
  · rfl
  · simp only [dropActive]
    rw [refund_resps, slash_resps]

theorem foldl_expireReq_resps : ∀ (l : List ReqId) (s : State), (l.foldl expireReq s).resps = s.resps
  | [], _ => rfl
  | r :: rest, s => by
    simp only [List.foldl]
    rw [foldl_expireReq_resps rest, expireReq_resps]

theorem expirePhase_resps (s : State) (id : CtxId) : (expirePhase s id).1.resps = s.resps := by
  unfold expirePhase
  split
  · unfold completeBatch callback
    split
    · exact foldl_expireReq_resps _ _
    · exact foldl_expireReq_resps _ _
  · rfl

theorem settleCtx_resps (t : State) (id : CtxId) (rc : Ctx) : (settleCtx t id rc).resps = t.resps := by
  unfold settleCtx
  split
  · rfl
  · split
    · split <;> rfl
    · rfl

theorem expireCtx_resps (s : State) (id : CtxId) (e : ReqId × Resp) (he : e ∈ (expireCtx s id).resps) : e ∈ s.resps := by
  unfold expireCtx finishExpire at he
  simp only [cleanBatch] at he
  have h1 := (List.mem_filter.mp he).1
  rw [settleCtx_resps] at h1
  simp only [setCtx, delExp] at h1
  rw [expirePhase_resps] at h1
  exact h1

theorem foldl_expireCtx_resps : ∀ (l : List CtxId) (s : State) (e : ReqId × Resp), e ∈ (l.foldl expireCtx s).resps → e ∈ s.resps
  | [], _, _, h => h
  | id :: rest, s, e, h => by
    simp only [List.foldl] at h
    exact expireCtx_resps s id e (foldl_expireCtx_resps rest _ e h)

theorem mkRequests_resps (id : CtxId) (b : Nat) (svc : String) (cons : Addr) (to : Int) :
    ∀ (ps : List Addr) (i : Nat) (s : State), (mkRequests s id b svc cons to ps i).resps = s.resps
  | [], _, _ => rfl
  | p :: rest, i, s => by
    simp only [mkRequests]
    rw [mkRequests_resps id b svc cons to rest (i + 1)]
    rfl

theorem newBatch_resps (s : State) (id : CtxId) : (newBatch s id).resps = s.resps := by
  have hp : ∀ (t : State) (c : Ctx) (cause : String), (onPaused t id c cause).resps = t.resps := by
    intro t c cause; unfold onPaused; split <;> rfl
  unfold newBatch
  split
  · split
    · simp only [delNew]; rw [hp]
    · split
      · unfold chargeAndStart
        split
        · simp only [delNew, addExp, initiateRequests, setCtx]
          exact mkRequests_resps _ _ _ _ _ _ _ _
        · simp only [delNew]; rw [hp]
      · rfl
  · rfl

theorem foldl_newBatch_resps : ∀ (l : List CtxId) (s : State), (l.foldl newBatch s).resps = s.resps
  | [], _ => rfl
  | id :: rest, s => by
    simp only [List.foldl]
    rw [foldl_newBatch_resps rest, newBatch_resps]

/-- the end block records no response -/
theorem endBlock_resps (s : State) (e : ReqId × Resp) (h : e ∈ (endBlock s).resps) : e ∈ s.resps := by
  unfold endBlock newPhase at h
  rw [foldl_newBatch_resps] at h
  unfold expiredPhase at h
  exact foldl_expireCtx_resps _ s e h

/-! ### the monitor's difference lists -/

theorem mem_left {pre post : State} {r : ReqId} : r ∈ left pre post ↔ r ∈ pre.active ∧ r ∉ post.active := by
  unfold left
  simp [List.mem_filter]

theorem mem_entered {pre post : State} {r : ReqId} : r ∈ entered pre post ↔ r ∈ post.active ∧ r ∉ pre.active := by
  unfold entered
  simp [List.mem_filter]

theorem left_nil {pre post : State} (h : ∀ r, r ∈ pre.active → r ∈ post.active) : left pre post = [] := by
  unfold left
  apply filter_none
  intro r hr
  simp [h r hr]

theorem entered_nil {pre post : State} (h : ∀ r, r ∈ post.active → r ∈ pre.active) : entered pre post = [] := by
  unfold entered
  apply filter_none
  intro r hr
  simp [h r hr]

theorem newResponses_nil {pre post : State} (h : ∀ e, e ∈ post.resps → e ∈ pre.resps) : newResponses pre post = [] := by
  unfold newResponses
  apply filter_none
  intro r hr
  obtain ⟨e, he, rfl⟩ := List.mem_map.mp hr
  have : e.1 ∈ pre.resps.map (·.1) := List.mem_map.mpr ⟨e, h e he, rfl⟩
  simp [contains_of_mem_keys _ _ this]

/-- the default clause of the outcome automaton: rejected operations and everything that is neither an answer
nor a block -/
theorem outcomeStep_default (m : Mon) (pre : State) (op : Op) (a : Bool) (post : State)
    (h : a = false ∨ isOutcomeOp op = false) :
    outcomeStep m pre op a post =
      (m, if (left pre post).isEmpty ∧ (entered pre post).isEmpty ∧ (newResponses pre post).isEmpty then []
          else [{ clause := "outcome-only-by-answer-or-expiry" }]) := by
  cases a with
  | false =>
    cases op with
    | respond provider rid code out resOk => cases rid <;> rfl
    | _ => rfl
  | true =>
    have h' : isOutcomeOp op = false := by
      rcases h with h | h
      · cases h
      · exact h
    cases op with
    | respond provider rid code out resOk =>
      cases rid with
      | none => rfl
      | some rid => simp [isOutcomeOp] at h'
    | next dt => simp [isOutcomeOp] at h'
    | skip n dt => simp [isOutcomeOp] at h'
    | _ => rfl

theorem foldl_inv {α β : Type} (P : β → Prop) (f : β → α → β) (hf : ∀ b a, P b → P (f b a)) :
    ∀ (l : List α) (b : β), P b → P (l.foldl f b)
  | [], _, h => h
  | a :: t, b, h => by
    simp only [List.foldl]
    exact foldl_inv P f hf t (f b a) (hf b a h)

end C08Out

/-! ### frames of the monitor functions -/

/-- `outcomeStep` only touches `answered` / `expired` -/
theorem outcomeStep_frame (m : Mon) (pre : State) (op : Op) (a : Bool) (post : State) :
    (outcomeStep m pre op a post).1.seen = m.seen ∧ (outcomeStep m pre op a post).1.lastBatchH = m.lastBatchH ∧
    (outcomeStep m pre op a post).1.modified = m.modified ∧ (outcomeStep m pre op a post).1.pausedSince = m.pausedSince := by
  cases a with
  | false =>
    cases op with
    | respond provider rid code out resOk => cases rid <;> exact ⟨rfl, rfl, rfl, rfl⟩
    | _ => exact ⟨rfl, rfl, rfl, rfl⟩
  | true =>
    cases op with
    | respond provider rid code out resOk =>
      cases rid <;> exact ⟨rfl, rfl, rfl, rfl⟩
    | _ => exact ⟨rfl, rfl, rfl, rfl⟩

theorem checkSchedule_frame (m : Mon) (pre post : State) :
    (checkSchedule m pre post).1.answered = m.answered ∧ (checkSchedule m pre post).1.expired = m.expired ∧
    (checkSchedule m pre post).1.seen = m.seen := by
  unfold checkSchedule
  apply C08Out.foldl_inv (fun acc : Mon × List Fail => acc.1.answered = m.answered ∧ acc.1.expired = m.expired ∧ acc.1.seen = m.seen)
  · intro b e hb
    dsimp only
    repeat' split
    all_goals simp [issuedMon, hb]
  · exact ⟨rfl, rfl, rfl⟩

/-- `scheduleStep` (incl. the `checkSchedule` fold) and `createdPaused` never touch `answered` / `expired` / `seen` -/
theorem scheduleStep_frame (m : Mon) (pre : State) (op : Op) (a : Bool) (post : State) :
    (scheduleStep m pre op a post).1.answered = m.answered ∧ (scheduleStep m pre op a post).1.expired = m.expired ∧
    (scheduleStep m pre op a post).1.seen = m.seen := by
  unfold scheduleStep
  split
  · exact checkSchedule_frame m pre post
  · cases a with
    | false => cases op <;> exact ⟨rfl, rfl, rfl⟩
    | true => cases op <;> exact ⟨rfl, rfl, rfl⟩

theorem createdPaused_frame (m : Mon) (pre : State) (op : Op) (a : Bool) (post : State) :
    (createdPaused m pre op a post).answered = m.answered ∧ (createdPaused m pre op a post).expired = m.expired ∧
    (createdPaused m pre op a post).seen = m.seen := by
  cases a with
  | false => cases op <;> exact ⟨rfl, rfl, rfl⟩
  | true => cases op <;> exact ⟨rfl, rfl, rfl⟩

/-- M08a only reads answered / expired / seen -/
theorem M08a.congr {m m' : Mon} {s : State} (h : M08a m s) (e1 : m'.answered = m.answered) (e2 : m'.expired = m.expired)
    (e3 : m'.seen = m.seen) : M08a m' s :=
  ⟨fun r hr => h.done r (by rw [e1, e2] at hr; exact hr), fun r hr => h.seen r (by rw [e3] at hr; exact hr)⟩

/-! ### the outcome automaton -/

namespace C08Out

/-- how the memory invariant moves along one step: the requests newly recorded as answered / expired were
active and are no longer; the ids newly recorded as seen are those that entered -/
theorem M08a_step {m : Mon} {s post : State} (hm : M08a m s) (hp : ActPast s) (hg : Grows s post) (m' : Mon)
    (h1 : ∀ r, r ∈ m'.answered ∨ r ∈ m'.expired → (r ∈ m.answered ∨ r ∈ m.expired) ∨ (r ∈ s.active ∧ r ∉ post.active))
    (h3 : ∀ r, r ∈ m'.seen → r ∈ m.seen ∨ r ∈ entered s post) : M08a m' post := by
  constructor
  · intro r hr
    rcases h1 r hr with h | h
    · obtain ⟨a1, a2⟩ := hm.done r h
      refine ⟨?_, Int.lt_of_lt_of_le a2 hg.1⟩
      intro hin
      rcases hg.2 r hin with h' | h'
      · exact a1 h'
      · omega
    · exact ⟨h.2, Int.lt_of_lt_of_le (hp r h.1) hg.1⟩
  · intro r hr
    rcases h3 r hr with h | h
    · exact Int.lt_of_lt_of_le (hm.seen r h) hg.1
    · obtain ⟨a1, a2⟩ := mem_entered.mp h
      rcases hg.2 r a1 with h' | h'
      · exact absurd h' a2
      · exact h'.2

theorem outcome_default_sound (m : Mon) {s post : State} {op : Op} {a : Bool} (hd : a = false ∨ isOutcomeOp op = false)
    (hs : SInv s) (hm : M08a m s) (hg : Grows s post) (ha : post.active = s.active) (hr : post.resps = s.resps) :
    (outcomeStep m s op a post).2 = [] ∧
    M08a { (outcomeStep m s op a post).1 with seen := entered s post ++ (outcomeStep m s op a post).1.seen } post := by
  have h1 : left s post = [] := left_nil (fun r h => by rw [ha]; exact h)
  have h2 : entered s post = [] := entered_nil (fun r h => by rw [← ha]; exact h)
  have h3 : newResponses s post = [] := newResponses_nil (fun e h => by rw [← hr]; exact h)
  rw [outcomeStep_default m s op a post hd, h1, h2, h3]
  refine ⟨by simp, ?_⟩
  apply M08a_step hm hs.past hg
  · intro r h; exact Or.inl h
  · intro r h; exact Or.inl (by simpa using h)

end C08Out

namespace C08Out

/-- an accepted answer -/
theorem outcome_respond_sound (m : Mon) {s s' : State} {provider : Addr} {rid : ReqId} {code : Nat} {out : OutKind}
    {resOk : Bool} (hs : SInv s) (hm : M08a m s) (hg : Grows s s')
    (h : stepRespond { s with cb := [] } provider (some rid) code out resOk = .ok s') :
    (outcomeStep m s (.respond provider (some rid) code out resOk) true s').2 = [] ∧
    M08a { (outcomeStep m s (.respond provider (some rid) code out resOk) true s').1 with
           seen := entered s s' ++ (outcomeStep m s (.respond provider (some rid) code out resOk) true s').1.seen } s' := by
  obtain ⟨⟨rq, rc, hgr, hprov⟩, hact, hfil, ⟨rv, hrv, hrvp⟩⟩ :=
    Irismod.Props.C08.respond_only_addressee_while_active _ s' provider rid code out resOk h
  have hq : AMap.get? s.reqs rid = some rq := (getRequest_some hgr).1
  have hact' : s.active.contains rid = true := hact
  have hin : rid ∈ s.active := by simpa using hact'
  have hfil' : s'.active = s.active.filter (fun y => decide (y ≠ rid)) := hfil
  have hk : keeperRespond { s with cb := [] } provider rid (out = .good) = .ok s' := by
    unfold stepRespond at h
    split at h
    · cases h
    exact h
  obtain ⟨⟨v, hres⟩, _⟩ := keeperRespond_frame hk
  have hres' : s'.resps = AMap.set s.resps rid v := hres
  have hnone : AMap.get? s.resps rid = none := by
    cases hgv : AMap.get? s.resps rid with
    | none => rfl
    | some v0 => exact absurd hin (hs.resp.past _ (mem_of_get? _ _ _ hgv)).1
  have hl : left s s' = [rid] := by
    unfold left
    rw [hfil']
    exact filter_removed s.active rid hs.wf.nodup hin
  have he : entered s s' = [] := by
    apply entered_nil
    intro r hr
    rw [hfil'] at hr
    exact (List.mem_filter.mp hr).1
  have hn : newResponses s s' = [rid] := by
    unfold newResponses
    rw [hres']
    exact new_keys_of_fresh _ _ _ hnone
  have hna : rid ∉ m.answered := fun hc => (hm.done rid (Or.inl hc)).1 hin
  have hne : rid ∉ m.expired := fun hc => (hm.done rid (Or.inr hc)).1 hin
  have hgone : rid ∉ s'.active := by
    rw [hfil', List.mem_filter]; simp
  constructor
  · simp only [outcomeStep]
    rw [hl, he, hn, hq, hrv]
    simp [hin, hprov, hrvp, hna, hne]
  · apply M08a_step hm hs.past hg
    · intro r hr
      simp only [outcomeStep] at hr
      rcases hr with hr | hr
      · rcases List.mem_cons.mp hr with e | e
        · subst e; exact Or.inr ⟨hin, hgone⟩
        · exact Or.inl (Or.inl e)
      · exact Or.inl (Or.inr hr)
    · intro r hr
      simp only [outcomeStep] at hr
      rcases List.mem_append.mp hr with e | e
      · exact Or.inr e
      · exact Or.inl e

end C08Out

namespace C08Out

/-- an end block -/
theorem outcome_next_sound (m : Mon) {s : State} {dt : Int} (hs : SInv s) (hm : M08a m s)
    (hw' : WF (nextBlock { s with cb := [] } dt)) :
    (outcomeStep m s (.next dt) true (nextBlock { s with cb := [] } dt)).2 = [] ∧
    M08a { (outcomeStep m s (.next dt) true (nextBlock { s with cb := [] } dt)).1 with
           seen := entered s (nextBlock { s with cb := [] } dt) ++
                   (outcomeStep m s (.next dt) true (nextBlock { s with cb := [] } dt)).1.seen }
         (nextBlock { s with cb := [] } dt) := by
  have hw0 : WF { s with cb := [] } := hs.wf.of_same ⟨rfl, rfl, rfl, rfl, rfl, rfl, rfl⟩
  have hg : Grows s (nextBlock { s with cb := [] } dt) := by
    have := nextBlock_grows { s with cb := [] } dt
    exact ⟨this.1, this.2⟩
  have hpa : ∀ r, r ∈ (nextBlock { s with cb := [] } dt).active ↔ r ∈ (endBlock { s with cb := [] }).active :=
    fun r => Iff.rfl
  -- expired exactly at the expiration height
  have hexp : (s.active.all fun r =>
      ((left s (nextBlock { s with cb := [] } dt)).contains r) == (expHOf s r == some s.height)) = true := by
    rw [List.all_eq_true]
    intro r hr
    obtain ⟨rq, c, a1, _⟩ := hs.wf.act r hr
    have he : expHOf s r = some rq.expH := by unfold expHOf; rw [a1]; rfl
    rw [he]
    by_cases hx : rq.expH = s.height
    · have hgone := Irismod.Props.C08.expires_at_expiration_height { s with cb := [] } hw0 r hr (hs.past r hr) rq a1 hx
      have hl : r ∈ left s (nextBlock { s with cb := [] } dt) := mem_left.mpr ⟨hr, fun hc => hgone ((hpa r).mp hc)⟩
      simp [hl, hx]
    · have hstay := Irismod.Props.C08.not_expired_before_its_height { s with cb := [] } hw0 r hr rq a1 hx
      have hl : r ∉ left s (nextBlock { s with cb := [] } dt) := fun hc => (mem_left.mp hc).2 ((hpa r).mpr hstay)
      simp [hl, hx]
  -- requests enter once, stamped with the block's height, stored
  have hent : ((entered s (nextBlock { s with cb := [] } dt)).all fun r =>
      decide (r.h = s.height) && !(m.seen.contains r) && (AMap.contains (nextBlock { s with cb := [] } dt).reqs r)) = true := by
    rw [List.all_eq_true]
    intro r hr
    obtain ⟨h1, h2⟩ := mem_entered.mp hr
    have hh : r.h = s.height := by
      rcases endBlock_active { s with cb := [] } r ((hpa r).mp h1) with h' | h'
      · exact absurd h' h2
      · exact h'
    have hseen : r ∉ m.seen := by
      intro hc
      have := hm.seen r hc
      omega
    obtain ⟨rq, c, a1, _⟩ := hw'.act r h1
    have hc : AMap.contains (nextBlock { s with cb := [] } dt).reqs r = true := (contains_iff _ _).mpr ⟨rq, a1⟩
    simp [hh, hseen, hc]
  -- one outcome per request
  have hfresh : ((left s (nextBlock { s with cb := [] } dt)).all fun r =>
      !(m.answered.contains r) && !(m.expired.contains r)) = true := by
    rw [List.all_eq_true]
    intro r hr
    have hin := (mem_left.mp hr).1
    have hna : r ∉ m.answered := fun hc => (hm.done r (Or.inl hc)).1 hin
    have hne : r ∉ m.expired := fun hc => (hm.done r (Or.inr hc)).1 hin
    simp [hna, hne]
  have hnew : newResponses s (nextBlock { s with cb := [] } dt) = [] :=
    newResponses_nil (fun e he => endBlock_resps { s with cb := [] } e he)
  constructor
  · simp only [outcomeStep]
    rw [hexp, hent, hfresh, hnew]
    simp
  · apply M08a_step hm hs.past hg
    · intro r hr
      simp only [outcomeStep] at hr
      rcases hr with hr | hr
      · exact Or.inl (Or.inl hr)
      · rcases List.mem_append.mp hr with e | e
        · exact Or.inr (mem_left.mp e)
        · exact Or.inl (Or.inr e)
    · intro r hr
      simp only [outcomeStep] at hr
      rcases List.mem_append.mp hr with e | e
      · exact Or.inr e
      · exact Or.inl e

end C08Out

/-- outcome automaton: no failure, and the memory invariant is kept (with `seen` extended as `check` does) -/
theorem c08_outcome_sound (m : Mon) {s : State} {op : Op} (hs : SInv s) (hs' : SInv (apply s op)) (ho : OpOK s op)
    (hm : M08a m s) :
    (outcomeStep m s op (accepted s op) (apply s op)).2 = [] ∧
    M08a { (outcomeStep m s op (accepted s op) (apply s op)).1 with
             seen := entered s (apply s op) ++ (outcomeStep m s op (accepted s op) (apply s op)).1.seen } (apply s op) := by
  have hg := apply_grows s op
  cases h : step s op with
  | error e =>
    obtain ⟨ha, hp⟩ := accepted_err h
    rw [hp] at hg
    rw [ha, hp]
    exact C08Out.outcome_default_sound m (Or.inl rfl) hs hm hg rfl rfl
  | ok s' =>
    obtain ⟨ha, hp⟩ := accepted_ok h
    rw [hp] at hg hs'
    rw [ha, hp]
    unfold step at h
    cases op with
    | respond provider rid code out resOk =>
      cases rid with
      | none =>
        simp only [stepCore, stepRespond] at h
        split at h
        · cases h
        cases h
      | some rid => exact C08Out.outcome_respond_sound m hs hm hg h
    | next dt =>
      simp only [stepCore] at h
      cases h
      exact C08Out.outcome_next_sound m hs hm hs'.wf
    | skip n dt => exact absurd ho.notSkip (fun hc => hc)
    | _ =>
      have hf := C08Out.stepCore_oframe rfl ho.fresh h
      exact C08Out.outcome_default_sound m (Or.inr rfl) hs hm hg hf.act hf.resps

/-! ### authority -/

namespace C08Out

theorem moduleAuth_ok {s : State} {rc : Ctx} {consumer : Addr} {id : CtxId} {u : Unit}
    (hg : AMap.get? s.ctxs id = some rc) (h : moduleAuth s rc consumer id = .ok u) :
    rc.moduleName = "" ∨ rc.consumer = consumer := by
  by_cases hm : rc.moduleName = ""
  · exact Or.inl hm
  · right
    unfold moduleAuth at h
    rw [if_pos hm] at h
    unfold checkAuthority at h
    rw [hg] at h
    simp only at h
    split at h
    · cases h
    rename_i hc
    exact (Decidable.of_not_not hc).symm

theorem keeperPause_auth {s s' : State} {id consumer} (h : keeperPause s id consumer = .ok s') :
    ∃ rc, AMap.get? s.ctxs id = some rc ∧ (rc.moduleName = "" ∨ rc.consumer = consumer) := by
  unfold keeperPause at h
  split at h
  · cases h
  rename_i rc hg
  split at h
  · cases h
  rename_i u ha
  exact ⟨rc, hg, moduleAuth_ok hg ha⟩

theorem keeperStart_auth {s s' : State} {id consumer} (h : keeperStart s id consumer = .ok s') :
    ∃ rc, AMap.get? s.ctxs id = some rc ∧ (rc.moduleName = "" ∨ rc.consumer = consumer) := by
  unfold keeperStart at h
  split at h
  · cases h
  rename_i rc hg
  split at h
  · cases h
  rename_i u ha
  exact ⟨rc, hg, moduleAuth_ok hg ha⟩

theorem keeperKill_auth {s s' : State} {id consumer} (h : keeperKill s id consumer = .ok s') :
    ∃ rc, AMap.get? s.ctxs id = some rc ∧ (rc.moduleName = "" ∨ rc.consumer = consumer) := by
  unfold keeperKill at h
  split at h
  · cases h
  rename_i rc hg
  split at h
  · cases h
  rename_i u ha
  exact ⟨rc, hg, moduleAuth_ok hg ha⟩

theorem keeperUpdate_auth {s s' : State} {id providers thr cap timeout freq total consumer}
    (h : keeperUpdate s id providers thr cap timeout freq total consumer = .ok s') :
    ∃ rc, AMap.get? s.ctxs id = some rc ∧ (rc.moduleName = "" ∨ rc.consumer = consumer) := by
  unfold keeperUpdate at h
  split at h
  · cases h
  rename_i rc hg
  split at h
  · cases h
  rename_i u ha
  exact ⟨rc, hg, moduleAuth_ok hg ha⟩

theorem authorityOk_msg {s : State} {c : Addr} {id : String}
    (h : ∃ rc, AMap.get? s.ctxs id.toLower = some rc ∧ rc.consumer = c ∧ rc.moduleName = "") :
    authorityOk s c id true = true := by
  obtain ⟨rc, hg, h1, h2⟩ := h
  unfold authorityOk
  rw [hg]
  simp [h1, h2]

theorem authorityOk_keeper {s : State} {c : Addr} {id : String} (hl : id.toLower = id)
    (h : ∃ rc, AMap.get? s.ctxs id = some rc ∧ (rc.moduleName = "" ∨ rc.consumer = c)) :
    authorityOk s c id false = true := by
  obtain ⟨rc, hg, h1⟩ := h
  unfold authorityOk
  rw [hl, hg]
  rcases h1 with h1 | h1 <;> simp [h1]

end C08Out

/-- the keeper-level control entry points (`mpause`, `mstart`, `mkill`, `mupdate`) look a context up under the id
as given, the monitor clause under its lower-case form: the clause is sound for ids that are their own
lower-case form (every id `ctxIdOf` generates — lower-case hex — and every id the harness passes) -/
def keeperIdLower : Op → Prop
  | .mpause _ id => id.toLower = id
  | .mstart _ id => id.toLower = id
  | .mkill _ id => id.toLower = id
  | .mupdate _ id _ _ _ _ _ _ => id.toLower = id
  | _ => True

/-- authority: only the consumer controls a context -/
theorem c08_authority_sound {s : State} {op : Op} (hl : keeperIdLower op) : authorityFails s op (accepted s op) = [] := by
  cases h : step s op with
  | error e =>
    rw [(accepted_err h).1]
    rfl
  | ok s' =>
    rw [(accepted_ok h).1]
    unfold step at h
    cases op with
    | pause c id =>
      have h0 := C08Out.authorityOk_msg (Irismod.Props.C08.control_only_by_consumer _ s' c id (Or.inl h))
      have this : authorityOk s c id _ = true := h0
      simp [authorityFails, this]
    | start c id =>
      have h0 := C08Out.authorityOk_msg (Irismod.Props.C08.control_only_by_consumer _ s' c id (Or.inr (Or.inl h)))
      have this : authorityOk s c id _ = true := h0
      simp [authorityFails, this]
    | kill c id =>
      have h0 := C08Out.authorityOk_msg (Irismod.Props.C08.control_only_by_consumer _ s' c id (Or.inr (Or.inr h)))
      have this : authorityOk s c id _ = true := h0
      simp [authorityFails, this]
    | updateCtx c id providers cap timeout freq total =>
      have h0 := C08Out.authorityOk_msg
        (Irismod.Props.C08.update_only_by_consumer _ s' c id providers cap timeout freq total h)
      have this : authorityOk s c id _ = true := h0
      simp [authorityFails, this]
    | mpause c id =>
      have h0 := C08Out.authorityOk_keeper hl (C08Out.keeperPause_auth h)
      have this : authorityOk s c id _ = true := h0
      simp [authorityFails, this]
    | mstart c id =>
      have h0 := C08Out.authorityOk_keeper hl (C08Out.keeperStart_auth h)
      have this : authorityOk s c id _ = true := h0
      simp [authorityFails, this]
    | mkill c id =>
      have h0 := C08Out.authorityOk_keeper hl (C08Out.keeperKill_auth h)
      have this : authorityOk s c id _ = true := h0
      simp [authorityFails, this]
    | mupdate c id providers thr cap timeout freq total =>
      have h0 := C08Out.authorityOk_keeper hl (C08Out.keeperUpdate_auth h)
      have this : authorityOk s c id _ = true := h0
      simp [authorityFails, this]
    | _ => rfl

/-! ### batch counters move only in an end block -/

namespace C08Out

/-- every accepted operation that is not a block keeps the batch counter of every stored context -/
theorem stepCore_ctr {s s' : State} {op : Op} (hn : ∀ dt, op ≠ .next dt) (hk : ∀ n dt, op ≠ .skip n dt) (hf : FreshOp s op)
    (h : stepCore s op = .ok s') : CtrSame s.ctxs s'.ctxs := by
  by_cases ho : isOutcomeOp op = false
  · exact (stepCore_oframe ho hf h).ctr
  · cases op with
    | respond provider rid code out resOk =>
      cases rid with
      | none => exact absurd rfl ho
      | some rid =>
        simp only [stepCore, stepRespond] at h
        split at h
        · cases h
        exact (keeperRespond_frame h).2
    | next dt => exact absurd rfl (hn dt)
    | skip n dt => exact absurd rfl (hk n dt)
    | _ => exact absurd rfl ho

theorem countersSame_of {pre post : State} (hnd : KeysNodup pre.ctxs) (h : CtrSame pre.ctxs post.ctxs) :
    countersSame pre post = true := by
  unfold countersSame
  rw [List.all_eq_true]
  intro e he
  have hg := get?_of_mem_nodup pre.ctxs hnd e he
  cases hp : AMap.get? post.ctxs e.1 with
  | none => rfl
  | some c => simp [h e.1 e.2 c hg hp]

end C08Out

/-- batch counters move only in an end block (`hnd`: the context table has unique keys — `countersSame` ranges
over all list entries; `ho`: a created context takes a fresh id) -/
theorem c08_counters_sound {s : State} {op : Op} (hnd : KeysNodup s.ctxs) (ho : OpOK s op)
    (hn : ∀ dt, op ≠ .next dt) (hk : ∀ n dt, op ≠ .skip n dt) :
    countersSame s (apply s op) = true := by
  apply C08Out.countersSame_of hnd
  cases h : step s op with
  | error e =>
    rw [(accepted_err h).2]
    exact C08Out.CtrSame.refl _
  | ok s' =>
    rw [(accepted_ok h).2]
    unfold step at h
    have := C08Out.stepCore_ctr hn hk ho.fresh h
    exact this

end Irismod.Proofs.ServiceMonitor
