/-
C01 helper layer: the registry well-formedness invariant, the effect of every ledger shape on
the view (X, Y, L) of an arbitrary registered pool, and the share-value / backing facts for one
swap leg.
-/
import Irismod.Proofs.Coinswap
import Irismod.Proofs.CoinswapArith

namespace Irismod.Proofs.CoinswapShare
open Irismod Irismod.Sdk Irismod.Coinswap Irismod.Spec.C01 Irismod.Spec.C02 Irismod.Proofs.Coinswap
open Irismod.Proofs.CoinswapArith

/-! ### share-value relation -/

theorem shareLE_refl (p : Pool) : ShareLE p p := fun _ => Nat.le_refl _

theorem shareLE_of_prod {p q : Pool} (hl : q.L = p.L) (h : p.X * p.Y ≤ q.X * q.Y) : ShareLE p q := by
  intro _; rw [hl]; exact Nat.mul_le_mul_right _ h

theorem shareLE_of_ge {p q : Pool} (hx : p.X ≤ q.X) (hy : p.Y ≤ q.Y) (hl : q.L ≤ p.L) : ShareLE p q := by
  intro _; exact Nat.mul_le_mul (Nat.mul_le_mul hx hy) (Nat.pow_le_pow_left hl 2)

theorem shareLE_trans {p q r : Pool} (h1 : ShareLE p q) (h2 : ShareLE q r) (hq : 0 < p.L → 0 < q.L) :
    ShareLE p r := by
  intro hp
  have hqL := hq hp
  have a1 := h1 hp
  have a2 := h2 hqL
  have hpos : 0 < q.L ^ 2 := by positivity
  have : p.X * p.Y * r.L ^ 2 * q.L ^ 2 ≤ r.X * r.Y * p.L ^ 2 * q.L ^ 2 := by
    calc p.X * p.Y * r.L ^ 2 * q.L ^ 2 = (p.X * p.Y * q.L ^ 2) * r.L ^ 2 := by ring
      _ ≤ (q.X * q.Y * p.L ^ 2) * r.L ^ 2 := Nat.mul_le_mul_right _ a1
      _ = (q.X * q.Y * r.L ^ 2) * p.L ^ 2 := by ring
      _ ≤ (r.X * r.Y * q.L ^ 2) * p.L ^ 2 := Nat.mul_le_mul_right _ a2
      _ = r.X * r.Y * p.L ^ 2 * q.L ^ 2 := by ring
  exact Nat.le_of_mul_le_mul_right this hpos

theorem poolInv_of_ge {p q : Pool} (hx : p.X ≤ q.X) (hy : p.Y ≤ q.Y) (hl : q.L ≤ p.L) (hp : PoolInv p) : PoolInv q := by
  intro hq
  obtain ⟨a, b⟩ := hp (by omega)
  exact ⟨by omega, by omega⟩

/-! ### registry -/

/-- well-formed pool registry: no pool on the standard denom, sequences below the counter, one
counterparty per sequence, no shadowed entries -/
structure RegWF (s : State) : Prop where
  cpne : ∀ cp n, AMap.get? s.pools cp = some n → cp ≠ s.std
  lt : ∀ cp n, AMap.get? s.pools cp = some n → n < s.seq
  inj : ∀ cp cp' n, AMap.get? s.pools cp = some n → AMap.get? s.pools cp' = some n → cp = cp'
  mem : ∀ cp n, (cp, n) ∈ s.pools → AMap.get? s.pools cp = some n

theorem RegWF.cfg {s s' : State} (h : RegWF s) (hc : SameCfg s s') : RegWF s' := by
  obtain ⟨c1, _, c3, c4, _, _⟩ := hc
  constructor
  · intro cp n hg; rw [c1]; rw [c3] at hg; exact h.cpne cp n hg
  · intro cp n hg; rw [c4]; rw [c3] at hg; exact h.lt cp n hg
  · intro cp cp' n h1 h2; rw [c3] at h1 h2; exact h.inj cp cp' n h1 h2
  · intro cp n hm; rw [c3] at hm ⊢; exact h.mem cp n hm

/-! ### views after a ledger -/

theorem view_after {s s' : State} {mvs : List Mv} (hled : Ledger s.bank s'.bank mvs) (hstd : s'.std = s.std)
    (cp : Denom) (j : Nat) :
    ((view s' cp j).X : Int) = (view s cp j).X + netBal mvs (poolAddr j) s.std ∧
    ((view s' cp j).Y : Int) = (view s cp j).Y + netBal mvs (poolAddr j) cp ∧
    ((view s' cp j).L : Int) = (view s cp j).L + netSup mvs (lptDenom j) := by
  simp only [view, resX, resY, shares, hstd]
  exact ⟨hled.1 _ _, hled.1 _ _, hled.2 _⟩

theorem single_net_other {sender rcpt : Addr} {n j : Nat} {sd bd : Denom} {sa ba : Nat}
    (hs : sender ≠ poolAddr j) (hj : j ≠ n) (d : Denom) :
    0 ≤ netBal (singleSpec sender rcpt n sd bd sa ba) (poolAddr j) d := by
  have hp : ¬ poolAddr n = poolAddr j := fun e => hj (poolAddr_inj e).symm
  simp only [singleSpec, netBal, Mv.bal, hs, hp, false_and, if_false]
  split <;> omega

theorem single_net_sold {sender rcpt : Addr} {n : Nat} {sd bd : Denom} {sa ba : Nat}
    (hs : sender ≠ poolAddr n) (hne : sd ≠ bd) :
    netBal (singleSpec sender rcpt n sd bd sa ba) (poolAddr n) sd = sa := by
  have h2 : ¬ bd = sd := fun e => hne e.symm
  simp [singleSpec, netBal, Mv.bal, hs, h2]

theorem single_net_bought {sender rcpt : Addr} {n : Nat} {sd bd : Denom} {sa ba : Nat}
    (hs : sender ≠ poolAddr n) (hne : sd ≠ bd) :
    netBal (singleSpec sender rcpt n sd bd sa ba) (poolAddr n) bd = if rcpt = poolAddr n then 0 else - (ba : Int) := by
  simp only [singleSpec, netBal, Mv.bal, hs, hne, and_false, if_false, and_true, if_true]
  split <;> omega

theorem single_sup {sender rcpt : Addr} {n : Nat} {sd bd : Denom} {sa ba : Nat} (d : Denom) :
    netSup (singleSpec sender rcpt n sd bd sa ba) d = 0 := by
  simp [singleSpec, netSup, Mv.sup]

/-- one swap leg on pool `n` (sender pays `sa` of `sd`, recipient gets `ba` of `bd`): every
registered pool keeps its share value and its backing, provided the leg is priced so that the
product of the reserves of pool `n` does not fall (not needed when the recipient is that escrow
itself: then the pool only gains) -/
theorem leg_share {s s' : State} {sender rcpt : Addr} {n : Nat} {sd bd : Denom} {sa ba : Nat}
    (hwf : RegWF s) (hl : lookupLpt s sd bd = .ok n)
    (hled : Ledger s.bank s'.bank (singleSpec sender rcpt n sd bd sa ba)) (hstd : s'.std = s.std)
    (hsender : ∀ k, sender ≠ poolAddr k)
    (hprice : rcpt ≠ poolAddr n →
      ba < s.bank.balOf (poolAddr n) bd ∧
      s.bank.balOf (poolAddr n) sd * s.bank.balOf (poolAddr n) bd
        ≤ (s.bank.balOf (poolAddr n) sd + sa) * (s.bank.balOf (poolAddr n) bd - ba))
    (cp : Denom) (j : Nat) (hj : AMap.get? s.pools cp = some j) :
    ShareLE (view s cp j) (view s' cp j) ∧ (PoolInv (view s cp j) → PoolInv (view s' cp j)) := by
  obtain ⟨hX, hY, hL⟩ := view_after hled hstd cp j
  rw [single_sup] at hL
  have hLeq : (view s' cp j).L = (view s cp j).L := by omega
  by_cases hjn : j = n
  · subst hjn
    obtain ⟨cp0, hg, hne0, hdir⟩ := lookupLpt_ok hl
    have hcp : cp = cp0 := hwf.inj cp cp0 j hj hg
    subst hcp
    have hsn := hsender j
    rcases hdir with ⟨e1, e2⟩ | ⟨e1, e2⟩
    · -- sold standard, bought counterparty
      subst e1; subst e2
      have hne : s.std ≠ bd := fun e => hne0 e.symm
      rw [single_net_sold hsn hne] at hX
      rw [single_net_bought hsn hne] at hY
      simp only [view, resX, resY, shares, hstd] at hX hY hLeq hprice ⊢
      by_cases hr : rcpt = poolAddr j
      · simp only [hr, if_true] at hY
        exact ⟨shareLE_of_ge (by dsimp only; omega) (by dsimp only; omega) (by dsimp only; omega),
          poolInv_of_ge (by dsimp only; omega) (by dsimp only; omega) (by dsimp only; omega)⟩
      · simp only [hr, if_false] at hY
        obtain ⟨hlt, hprod⟩ := hprice hr
        have eX : s'.bank.balOf (poolAddr j) s.std = s.bank.balOf (poolAddr j) s.std + sa := by omega
        have eY : s'.bank.balOf (poolAddr j) bd = s.bank.balOf (poolAddr j) bd - ba := by omega
        constructor
        · apply shareLE_of_prod hLeq
          simp only [eX, eY]; exact hprod
        · intro hp hq
          dsimp only [PoolInv] at hq hp ⊢
          obtain ⟨a, b⟩ := hp (by omega)
          exact ⟨by omega, by omega⟩
    · -- sold counterparty, bought standard
      subst e1; subst e2
      have hne : sd ≠ s.std := hne0
      rw [single_net_bought hsn hne] at hX
      rw [single_net_sold hsn hne] at hY
      simp only [view, resX, resY, shares, hstd] at hX hY hLeq hprice ⊢
      by_cases hr : rcpt = poolAddr j
      · simp only [hr, if_true] at hX
        exact ⟨shareLE_of_ge (by dsimp only; omega) (by dsimp only; omega) (by dsimp only; omega),
          poolInv_of_ge (by dsimp only; omega) (by dsimp only; omega) (by dsimp only; omega)⟩
      · simp only [hr, if_false] at hX
        obtain ⟨hlt, hprod⟩ := hprice hr
        have eX : s'.bank.balOf (poolAddr j) s.std = s.bank.balOf (poolAddr j) s.std - ba := by omega
        have eY : s'.bank.balOf (poolAddr j) sd = s.bank.balOf (poolAddr j) sd + sa := by omega
        constructor
        · apply shareLE_of_prod hLeq
          simp only [eX, eY]
          calc s.bank.balOf (poolAddr j) s.std * s.bank.balOf (poolAddr j) sd
              = s.bank.balOf (poolAddr j) sd * s.bank.balOf (poolAddr j) s.std := Nat.mul_comm _ _
            _ ≤ (s.bank.balOf (poolAddr j) sd + sa) * (s.bank.balOf (poolAddr j) s.std - ba) := hprod
            _ = _ := Nat.mul_comm _ _
        · intro hp hq
          dsimp only [PoolInv] at hq hp ⊢
          obtain ⟨a, b⟩ := hp (by omega)
          exact ⟨by omega, by omega⟩
  · have h1 := single_net_other (rcpt := rcpt) (sd := sd) (bd := bd) (sa := sa) (ba := ba) (hsender j) hjn s.std
    have h2 := single_net_other (rcpt := rcpt) (sd := sd) (bd := bd) (sa := sa) (ba := ba) (hsender j) hjn cp
    exact ⟨shareLE_of_ge (by omega) (by omega) (by omega), poolInv_of_ge (by omega) (by omega) (by omega)⟩


/-- a swap leg never changes a share supply -/
theorem leg_L {s s' : State} {sender rcpt : Addr} {n : Nat} {sd bd : Denom} {sa ba : Nat}
    (hled : Ledger s.bank s'.bank (singleSpec sender rcpt n sd bd sa ba)) (hstd : s'.std = s.std)
    (cp : Denom) (j : Nat) : (view s' cp j).L = (view s cp j).L := by
  obtain ⟨_, _, hL⟩ := view_after hled hstd cp j
  rw [single_sup] at hL
  omega

/-- a leg on another pool whose recipient is not this escrow leaves this escrow untouched -/
theorem single_net_zero {sender rcpt : Addr} {n j : Nat} {sd bd : Denom} {sa ba : Nat}
    (hs : sender ≠ poolAddr j) (hj : j ≠ n) (hr : rcpt ≠ poolAddr j) (d : Denom) :
    netBal (singleSpec sender rcpt n sd bd sa ba) (poolAddr j) d = 0 := by
  have hp : ¬ poolAddr n = poolAddr j := fun e => hj (poolAddr_inj e).symm
  simp [singleSpec, netBal, Mv.bal, hs, hp, hr]

/-! ### generic monotone case -/

/-- a pool that only receives coins and whose share supply does not grow keeps value and backing -/
theorem pool_mono {s s' : State} {mvs : List Mv} (hled : Ledger s.bank s'.bank mvs) (hstd : s'.std = s.std)
    (cp : Denom) (j : Nat) (h1 : 0 ≤ netBal mvs (poolAddr j) s.std) (h2 : 0 ≤ netBal mvs (poolAddr j) cp)
    (h3 : netSup mvs (lptDenom j) ≤ 0) :
    ShareLE (view s cp j) (view s' cp j) ∧ (PoolInv (view s cp j) → PoolInv (view s' cp j)) := by
  obtain ⟨hX, hY, hL⟩ := view_after hled hstd cp j
  exact ⟨shareLE_of_ge (by omega) (by omega) (by omega), poolInv_of_ge (by omega) (by omega) (by omega)⟩

theorem addrEmpty_bal {b : Bank} {a : Addr} (h : addrEmpty b a = true) (d : Denom) : b.balOf a d = 0 := by
  unfold addrEmpty at h
  unfold Bank.balOf AMap.getD
  generalize b.bal = m at h
  induction m with
  | nil => simp [AMap.get?]
  | cons hd t ih =>
    obtain ⟨⟨a', d'⟩, v⟩ := hd
    simp only [List.all_cons, Bool.and_eq_true] at h
    obtain ⟨h1, h2⟩ := h
    simp only [AMap.get?]
    split
    · rename_i he
      cases he
      simp at h1
      simp [h1]
    · exact ih h2

/-! ### net effect of the liquidity ledgers on a pool -/

theorem add_net_same_std {std sender : Addr} {n : Nat} {cp : Denom} {dS t m : Nat}
    (hs : sender ≠ poolAddr n) (hne : cp ≠ std) :
    netBal (addMoves std sender n cp dS t m) (poolAddr n) std = dS := by
  simp [addMoves, netBal, Mv.bal, hs, hne]

theorem add_net_same_cp {std sender : Addr} {n : Nat} {cp : Denom} {dS t m : Nat}
    (hs : sender ≠ poolAddr n) (hne : cp ≠ std) :
    netBal (addMoves std sender n cp dS t m) (poolAddr n) cp = t := by
  have : ¬ std = cp := fun e => hne e.symm
  simp [addMoves, netBal, Mv.bal, hs, this]

theorem add_net_other {std sender : Addr} {n j : Nat} {cp : Denom} {dS t m : Nat}
    (hs : sender ≠ poolAddr j) (hj : j ≠ n) (d : Denom) :
    netBal (addMoves std sender n cp dS t m) (poolAddr j) d = 0 := by
  have hp : ¬ poolAddr n = poolAddr j := fun e => hj (poolAddr_inj e).symm
  simp [addMoves, netBal, Mv.bal, hs, hp]

theorem addMoves_sup {std sender : Addr} {n j : Nat} {cp : Denom} {dS t m : Nat} :
    netSup (addMoves std sender n cp dS t m) (lptDenom j) = if j = n then (m : Int) else 0 := by
  by_cases h : j = n
  · subst h; simp [addMoves, netSup, Mv.sup]
  · have : ¬ lptDenom n = lptDenom j := fun e => h (lptDenom_inj e).symm
    simp [addMoves, netSup, Mv.sup, this, h]

theorem fee_net {s : State} {sender : Addr} {j : Nat} (hs : sender ≠ poolAddr j) (d : Denom) :
    0 ≤ netBal (feeSpec s sender) (poolAddr j) d := by
  unfold feeSpec
  generalize s.params.pcfAmt * s.params.tax / D = t
  simp only [netBal, Mv.bal, hs, false_and, if_false]
  split <;> omega

theorem fee_sup {s : State} {sender : Addr} (d : Denom) : netSup (feeSpec s sender) d ≤ 0 := by
  unfold feeSpec
  generalize s.params.pcfAmt * s.params.tax / D = t
  simp only [netSup, Mv.sup]
  split <;> omega

theorem feeMoves_net_pool {s : State} {sender : Addr} {j : Nat} (hs : sender ≠ poolAddr j) (d : Denom) :
    0 ≤ netBal (feeMoves s sender) (poolAddr j) d := by
  unfold feeMoves
  generalize s.params.pcfAmt * s.params.tax / D = t
  have hm : ¬ modAddr = poolAddr j := mod_ne_pool j
  simp only [netBal, Mv.bal, hs, hm, false_and, if_false]
  split <;> omega

theorem feeMoves_sup {s : State} {sender : Addr} (d : Denom) : netSup (feeMoves s sender) d ≤ 0 := by
  unfold feeMoves
  generalize s.params.pcfAmt * s.params.tax / D = t
  simp only [netSup, Mv.sup]
  split <;> omega

theorem add1_net_same {sender : Addr} {n : Nat} {tokD : Denom} {a m : Nat} (hs : sender ≠ poolAddr n) (d : Denom) :
    netBal (add1Moves sender n tokD a m) (poolAddr n) d = if tokD = d then (a : Int) else 0 := by
  simp [add1Moves, netBal, Mv.bal, hs]

theorem add1_net_other {sender : Addr} {n j : Nat} {tokD : Denom} {a m : Nat}
    (hs : sender ≠ poolAddr j) (hj : j ≠ n) (d : Denom) :
    netBal (add1Moves sender n tokD a m) (poolAddr j) d = 0 := by
  have hp : ¬ poolAddr n = poolAddr j := fun e => hj (poolAddr_inj e).symm
  simp [add1Moves, netBal, Mv.bal, hs, hp]

theorem add1Moves_sup {sender : Addr} {n j : Nat} {tokD : Denom} {a m : Nat} :
    netSup (add1Moves sender n tokD a m) (lptDenom j) = if j = n then (m : Int) else 0 := by
  by_cases h : j = n
  · subst h; simp [add1Moves, netSup, Mv.sup]
  · have : ¬ lptDenom n = lptDenom j := fun e => h (lptDenom_inj e).symm
    simp [add1Moves, netSup, Mv.sup, this, h]

theorem remove_net_same_std {std sender : Addr} {n : Nat} {cp : Denom} {w x y : Nat}
    (hs : sender ≠ poolAddr n) (hne : cp ≠ std) :
    netBal (removeMoves std sender n cp w x y) (poolAddr n) std = - (x : Int) := by
  simp [removeMoves, netBal, Mv.bal, hs, hne]

theorem remove_net_same_cp {std sender : Addr} {n : Nat} {cp : Denom} {w x y : Nat}
    (hs : sender ≠ poolAddr n) (hne : cp ≠ std) :
    netBal (removeMoves std sender n cp w x y) (poolAddr n) cp = - (y : Int) := by
  have : ¬ std = cp := fun e => hne e.symm
  simp [removeMoves, netBal, Mv.bal, hs, this]

theorem remove_net_other {std sender : Addr} {n j : Nat} {cp : Denom} {w x y : Nat}
    (hs : sender ≠ poolAddr j) (hj : j ≠ n) (d : Denom) :
    netBal (removeMoves std sender n cp w x y) (poolAddr j) d = 0 := by
  have hp : ¬ poolAddr n = poolAddr j := fun e => hj (poolAddr_inj e).symm
  simp [removeMoves, netBal, Mv.bal, hs, hp]

theorem removeMoves_sup {std sender : Addr} {n j : Nat} {cp : Denom} {w x y : Nat} :
    netSup (removeMoves std sender n cp w x y) (lptDenom j) = if j = n then - (w : Int) else 0 := by
  by_cases h : j = n
  · subst h; simp [removeMoves, netSup, Mv.sup]
  · have : ¬ lptDenom n = lptDenom j := fun e => h (lptDenom_inj e).symm
    simp [removeMoves, netSup, Mv.sup, this, h]

theorem rem1_net_same {sender : Addr} {n : Nat} {minD : Denom} {w out : Nat} (hs : sender ≠ poolAddr n) (d : Denom) :
    netBal (rem1Moves sender n minD w out) (poolAddr n) d = if minD = d then - (out : Int) else 0 := by
  simp only [rem1Moves, netBal, Mv.bal, hs, false_and, if_false, true_and]
  split <;> omega

theorem rem1_net_other {sender : Addr} {n j : Nat} {minD : Denom} {w out : Nat}
    (hs : sender ≠ poolAddr j) (hj : j ≠ n) (d : Denom) :
    netBal (rem1Moves sender n minD w out) (poolAddr j) d = 0 := by
  have hp : ¬ poolAddr n = poolAddr j := fun e => hj (poolAddr_inj e).symm
  simp [rem1Moves, netBal, Mv.bal, hs, hp]

theorem rem1Moves_sup {sender : Addr} {n j : Nat} {minD : Denom} {w out : Nat} :
    netSup (rem1Moves sender n minD w out) (lptDenom j) = if j = n then - (w : Int) else 0 := by
  by_cases h : j = n
  · subst h; simp [rem1Moves, netSup, Mv.sup]
  · have : ¬ lptDenom n = lptDenom j := fun e => h (lptDenom_inj e).symm
    simp [rem1Moves, netSup, Mv.sup, this, h]

theorem donate_net {src dst : Addr} {dd : Denom} {a j : Nat} (hs : src ≠ poolAddr j) (d : Denom) :
    0 ≤ netBal [Mv.xfer src dst dd a] (poolAddr j) d := by
  simp only [netBal, Mv.bal, hs, false_and, if_false]
  split <;> omega

end Irismod.Proofs.CoinswapShare
