/-
Soundness of the htlc C12 monitor (`Spec.C12Htlc.checkExport` / `checkReimport`, the functions
`drv-htlc monitor C12` evaluates) with respect to the model: on the model's own `export` /
`reimport` of a state satisfying the invariants the clauses return `[]`, and inside the class
F-gen-5 exactly the classified failure.  So a monitor failure on an implementation trace is a
model/implementation disagreement or a genuine failure of the property, never an artefact of the
monitor.  Core tactics only.
-/
import Irismod.Proofs.HtlcGenesisRoundTrip
import Irismod.Proofs.HtlcMonitor

namespace Irismod.Proofs.HtlcGen
open Irismod Irismod.Sdk Irismod.Htlc Irismod.HtlcGen Irismod.Spec.C03 Irismod.Spec.C04 Irismod.Spec.C12Htlc
open Irismod.Proofs.Htlc Irismod.Proofs.HtlcMonitor Irismod.Proofs.GenesisList

theorem sameSet_refl {α : Type} [BEq α] [LawfulBEq α] (l : List α) : sameSet l l = true := by
  unfold sameSet
  simp only [Bool.and_self, List.all_eq_true]
  intro x hx
  exact List.contains_iff_mem.mpr hx

theorem countersOpenB_of {b : Denom → Nat} {s : State} (h : CounterInvFrom b s) : countersOpenB s = true := by
  unfold countersOpenB
  rw [List.all_eq_true]
  intro d _
  obtain ⟨c1, c2, _, c4⟩ := h d
  rw [c2] at c4
  simp [c1, c2, c4]

theorem modelImportFails_false {s : State} (hs : Inv s) (hw : GenWF s) (hi : importableB s = true) :
    modelImportFails s = false := by
  unfold modelImportFails
  rw [import_export 0 hs hw hi]

theorem modelImportFails_true {s : State} (hs : Inv s) (hw : GenWF s) (hi : importableB s = false) :
    modelImportFails s = true := by
  unfold modelImportFails
  obtain ⟨w, h⟩ := import_fails 0 hs hw hi
  rw [h]

/-- **an `export` line of the model passes every clause** -/
theorem checkExport_sound (dp : Nat) (s : State) (hs : Inv s) (hw : GenWF s) :
    checkExport "ok" (if validateGenesis (exportGenesis dp s) then "ok" else "err") true s s = [] := by
  rw [validate_export dp hs hw]
  simp [checkExport, sameTables_refl]

/-- **a `reimport` line of the model outside the class F-gen-5 passes every clause** (the escrow
identity is the one of C04: it holds when nothing was donated to the module account) -/
theorem checkReimport_sound (dp : Nat) (s : State) (hs : Inv s) (hw : GenWF s) (he : EscrowEq s)
    (hi : importableB s = true) : checkReimport s "ok" "1" (imported dp s) = [] := by
  have so := sameOpen_imported dp hs hw
  have hinv := invFrom_imported dp hs hw
  have h3 : queueOk (imported dp s) = true := queueOk_of hinv.1 hinv.2.1
  have h8 : escrowEqB (imported dp s) = true := escrowEqB_of (escrowEq_imported dp he)
  have h9 : countersOpenB (imported dp s) = true := countersOpenB_of hinv.2.2.2
  have hprev : (imported dp s).prevTime = s.prevTime := so.prevTime
  have hm := modelImportFails_false hs hw hi
  unfold checkReimport
  simp only [beq_self_eq_true, if_true, List.nil_append]
  have e1 : sameSet (imported dp s).htlcs (s.htlcs.filter fun e => isOpen e.2) = true := sameSet_refl _
  have e2 : sameSet (imported dp s).queue ((s.htlcs.filter fun e => isOpen e.2).map fun e => (e.2.expiration, e.1)) = true :=
    sameSet_refl _
  have e3 : sameSet (imported dp s).supplies s.supplies = true := sameSet_refl _
  have e4 : sameSet s.bank.supply (imported dp s).bank.supply = true := sameSet_refl _
  have e5 : sameBalances s.bank (imported dp s).bank = true := sameBalances_refl _
  have e6 : ((imported dp s).params == s.params) = true := by show (s.params == s.params) = true; simp
  have e7 : ((imported dp s).prevTime == s.prevTime) = true := by rw [hprev]; simp
  have e8 : ((imported dp s).height == s.height) = true := by show (s.height == s.height) = true; simp
  have e9 : ((imported dp s).time == s.time) = true := by show (s.time == s.time) = true; simp
  simp [e1, e2, e3, e4, e5, e6, e7, e8, e9, h3, h8, h9, hi, hm]

/-- **inside the class F-gen-5 the model's `reimport` line is the classified failure, and only that** -/
theorem checkReimport_in_class (s : State) (hs : Inv s) (hw : GenWF s) (hi : importableB s = false) :
    checkReimport s "panic" "1" s = ["clause=reimport-failed class=F-gen-5"] := by
  unfold checkReimport failClass
  simp [modelImportFails_true hs hw hi, validate_export 0 hs hw, hi, sameTables_refl]

end Irismod.Proofs.HtlcGen
