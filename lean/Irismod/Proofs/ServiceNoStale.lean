/-
C08 / C13 (service slice): no queue entry ever lies in the past — every entry is for the current block or a
later one, so the end blocker meets every entry (after /repo f0f40e8 the new-batch handler always consumes
its entry, whatever it decides).  Invariant bundle: `WF` (queues / markers / contexts agree) ∧ `CtxsOk`
(every stored context has `0 < timeout`, and `timeout ≤ frequency` when repeated) ∧ `NoStale`.
-/
import Irismod.Proofs.ServiceQueue

namespace Irismod.Proofs.Service
open Irismod Irismod.Sdk Irismod.Service Irismod.Spec.C13S

/-- the timing settings of a context -/
def timing (c : Ctx) : Int × Nat × Bool := (c.timeout, c.freq, c.repeated)

def CtxOk (c : Ctx) : Prop := 0 < c.timeout ∧ (c.repeated = true → c.timeout ≤ (c.freq : Int))

def CtxsOk (s : State) : Prop := ∀ id c, AMap.get? s.ctxs id = some c → CtxOk c

theorem CtxOk.of_timing {c c0 : Ctx} (h : CtxOk c0) (e : timing c = timing c0) : CtxOk c := by
  simp only [timing, Prod.mk.injEq] at e
  unfold CtxOk
  rw [e.1, e.2.1, e.2.2]; exact h

/-- stored contexts are only replaced by contexts with the same timing, or removed -/
def TimFrame (s s' : State) : Prop :=
  ∀ id c', AMap.get? s'.ctxs id = some c' → ∃ c0, AMap.get? s.ctxs id = some c0 ∧ timing c' = timing c0

theorem TimFrame.refl (s : State) : TimFrame s s := fun _ c' h => ⟨c', h, rfl⟩

theorem TimFrame.trans {a b c : State} (h1 : TimFrame a b) (h2 : TimFrame b c) : TimFrame a c := by
  intro id c' hg
  obtain ⟨c1, g1, t1⟩ := h2 id c' hg
  obtain ⟨c0, g0, t0⟩ := h1 id c1 g1
  exact ⟨c0, g0, t1.trans t0⟩

theorem TimFrame.of_eq {s s' : State} (e : s'.ctxs = s.ctxs) : TimFrame s s' := by
  intro id c' hg; rw [e] at hg; exact ⟨c', hg, rfl⟩

theorem TimFrame.setCtx {s : State} {id : CtxId} {c0 c : Ctx} (hg : AMap.get? s.ctxs id = some c0)
    (e : timing c = timing c0) : TimFrame s (Irismod.Service.setCtx s id c) := by
  intro id' c' hg'
  simp only [Irismod.Service.setCtx] at hg'
  rcases get?_set_cases hg' with ⟨rfl, rfl⟩ | ⟨_, h⟩
  · exact ⟨c0, hg, e⟩
  · exact ⟨c', h, rfl⟩

theorem TimFrame.eraseCtx (s : State) (id : CtxId) : TimFrame s (Irismod.Service.eraseCtx s id) := by
  intro id' c' hg'
  simp only [Irismod.Service.eraseCtx] at hg'
  exact ⟨c', get?_erase_some hg', rfl⟩

theorem CtxsOk.of_frame {s s' : State} (h : CtxsOk s) (f : TimFrame s s') : CtxsOk s' := by
  intro id c' hg
  obtain ⟨c0, g0, t0⟩ := f id c' hg
  exact (h id c0 g0).of_timing t0

/-- every queue entry is at or after `b` -/
def QGe (s : State) (b : Int) : Prop := (∀ e, e ∈ s.newQ → b ≤ e.1) ∧ (∀ e, e ∈ s.expQ → b ≤ e.1)

theorem noStale_iff (s : State) : NoStale s ↔ QGe s s.height := by
  unfold NoStale QGe
  constructor
  · intro h; exact ⟨fun e he => h.1 e.1 e.2 he, fun e he => h.2 e.1 e.2 he⟩
  · intro h; exact ⟨fun a id he => h.1 (a, id) he, fun a id he => h.2 (a, id) he⟩

theorem QGe.of_eq {s s' : State} {b : Int} (h : QGe s b) (e1 : s'.newQ = s.newQ) (e2 : s'.expQ = s.expQ) : QGe s' b := by
  unfold QGe; rw [e1, e2]; exact h

/-! ### the expired-batch handler -/

theorem expirePhase_frame (s : State) (id : CtxId) :
    SameButActive s (expirePhase s id).1 ∧ timing (expirePhase s id).2 = timing (getCtx s id) := by
  unfold expirePhase
  split
  · refine ⟨?_, rfl⟩
    refine (foldl_expireReq_sched (activeOf s id (getCtx s id).batchCounter) s).1.trans ?_
    unfold completeBatch callback
    split <;> exact ⟨rfl, rfl, rfl, rfl, rfl, rfl, rfl⟩
  · exact ⟨SameButActive.refl s, rfl⟩

/-- one expired-batch entry: the context keeps its timing (or is removed), expired-batch entries only
disappear, and the one new-batch entry that may be added is not in the past -/
theorem expireCtx_stale {s : State} {id : CtxId} {c : Ctx} (hg : AMap.get? s.ctxs id = some c) (hc : CtxOk c) :
    TimFrame s (expireCtx s id) ∧ (∀ e, e ∈ (expireCtx s id).expQ → e ∈ s.expQ) ∧
    (∀ e, e ∈ (expireCtx s id).newQ → e ∈ s.newQ ∨ s.height ≤ e.1) := by
  obtain ⟨⟨q1, _, q3, _, _, q6, q7⟩, ht⟩ := expirePhase_frame s id
  rw [getCtx_of_get? hg] at ht
  have hok : CtxOk (expirePhase s id).2 := hc.of_timing ht
  -- the state after storing the completed context
  have hstore : AMap.get? (Irismod.Service.setCtx (delExp (expirePhase s id).1 id (expirePhase s id).1.height) id (expirePhase s id).2).ctxs id
      = some (expirePhase s id).2 := by
    simp only [Irismod.Service.setCtx]; exact AMap.get?_set_self _ _ _
  have f1 : TimFrame s (Irismod.Service.setCtx (delExp (expirePhase s id).1 id (expirePhase s id).1.height) id (expirePhase s id).2) := by
    intro id' c' hg'
    simp only [Irismod.Service.setCtx, delExp] at hg'
    rcases get?_set_cases hg' with ⟨rfl, rfl⟩ | ⟨_, h⟩
    · exact ⟨c, hg, ht⟩
    · rw [q6] at h; exact ⟨c', h, rfl⟩
  unfold expireCtx finishExpire
  refine ⟨?_, ?_, ?_⟩
  · -- contexts
    have f2 : ∀ t : State, TimFrame t (settleCtx t id (expirePhase s id).2) := by
      intro t
      unfold settleCtx
      split
      · exact TimFrame.eraseCtx t id
      · split
        · split
          · exact TimFrame.of_eq rfl
          · exact TimFrame.eraseCtx t id
        · exact TimFrame.refl t
    exact (f1.trans (f2 _)).trans (TimFrame.of_eq rfl)
  · intro e he
    simp only [cleanBatch] at he
    have : (settleCtx (Irismod.Service.setCtx (delExp (expirePhase s id).1 id (expirePhase s id).1.height) id (expirePhase s id).2) id
        (expirePhase s id).2).expQ = (expirePhase s id).1.expQ.filter (· ≠ ((expirePhase s id).1.height, id)) := by
      unfold settleCtx
      split
      · rfl
      · split
        · split <;> rfl
        · rfl
    rw [this, q3] at he
    exact (List.mem_filter.mp he).1
  · intro e he
    simp only [cleanBatch] at he
    unfold settleCtx at he
    split at he
    · left; simp only [Irismod.Service.eraseCtx, Irismod.Service.setCtx, delExp] at he; rw [q1] at he; exact he
    · split at he
      · split at he
        · rename_i hrep
          simp only [Irismod.Service.addNew, Irismod.Service.setCtx, delExp] at he
          rw [mem_qInsert, q1, q7] at he
          rcases he with he | he
          · exact Or.inl he
          · right
            rw [he]
            have := hok.2 hrep.1
            simp only
            omega
        · left; simp only [Irismod.Service.eraseCtx, Irismod.Service.setCtx, delExp] at he; rw [q1] at he; exact he
      · left; simp only [Irismod.Service.setCtx, delExp] at he; rw [q1] at he; exact he

theorem foldl_expire_stale : ∀ (l : List CtxId) (s : State), WF s → l.Nodup →
    (∀ id, id ∈ l → AMap.get? s.expH id = some s.height) → CtxsOk s → QGe s s.height →
    CtxsOk (l.foldl expireCtx s) ∧ QGe (l.foldl expireCtx s) s.height
  | [], _, _, _, _, hc, hq => ⟨hc, hq⟩
  | id :: rest, s, hs, hn, hd, hc, hq => by
    rw [List.nodup_cons] at hn
    have hm := hd id (List.mem_cons_self ..)
    obtain ⟨w1, w2, w3⟩ := WF_expireCtx hs id hm
    have hlive := hs.live id (Or.inr ((contains_iff _ _).mpr ⟨_, hm⟩))
    obtain ⟨c, hg⟩ := (contains_iff _ _).mp hlive
    obtain ⟨t1, t2, t3⟩ := expireCtx_stale hg (hc id c hg)
    have hq' : QGe (expireCtx s id) (expireCtx s id).height := by
      rw [w2]
      refine ⟨?_, fun e he => hq.2 e (t2 e he)⟩
      intro e he
      rcases t3 e he with h | h
      · exact hq.1 e h
      · exact h
    have := foldl_expire_stale rest (expireCtx s id) w1 hn.2 (by
      intro id' hm'
      rw [w2]
      apply w1.expM.1
      rw [w3]
      refine ⟨hs.expM.2 id' s.height (hd id' (List.mem_cons_of_mem _ hm')), ?_⟩
      intro e
      have : id' = id := (Prod.mk.inj e).2
      subst this; exact hn.1 hm') (hc.of_frame t1) hq'
    simp only [List.foldl]
    rw [w2] at this
    exact this

/-! ### the new-batch handler -/

theorem onPaused_stale {t : State} {id : CtxId} {c0 : Ctx} (hg : AMap.get? t.ctxs id = some c0) (c : Ctx)
    (e : timing c = timing c0) (cause : String) :
    TimFrame t (onPaused t id c cause) ∧ (onPaused t id c cause).expQ = t.expQ := by
  unfold onPaused
  split
  · refine ⟨?_, rfl⟩
    intro id' c' hg'
    simp only [Irismod.Service.setCtx] at hg'
    rcases get?_set_cases hg' with ⟨rfl, rfl⟩ | ⟨_, h⟩
    · exact ⟨c0, hg, e⟩
    · exact ⟨c', h, rfl⟩
  · exact ⟨TimFrame.setCtx hg e, rfl⟩

/-- one new-batch entry: the context keeps its timing; the one expired-batch entry that may be added lies
strictly in the future -/
theorem newBatch_stale {s : State} {id : CtxId} {c : Ctx} (hg : AMap.get? s.ctxs id = some c) (hc : CtxOk c) :
    TimFrame s (newBatch s id) ∧ (∀ e, e ∈ (newBatch s id).expQ → e ∈ s.expQ ∨ s.height < e.1) := by
  have hgc := getCtx_of_get? hg
  unfold newBatch
  rw [hgc]
  split
  · split
    · obtain ⟨f, q⟩ := onPaused_stale hg c rfl "no exchange rate"
      refine ⟨f.trans (TimFrame.of_eq rfl), ?_⟩
      intro e he
      simp only [delNew] at he
      rw [q] at he; exact Or.inl he
    · rename_i provs total _
      split
      · unfold chargeAndStart
        split
        · obtain ⟨m1, m2, m3, m4⟩ := mkRequests_queues id (c.batchCounter + 1) c.svc c.consumer c.timeout provs 0
            { s with bank := creditCoins (debitCoins s.bank c.consumer (sortCoins total)).1 reqAcc (sortCoins total) }
          have hinit : initiateRequests
              { s with bank := creditCoins (debitCoins s.bank c.consumer (sortCoins total)).1 reqAcc (sortCoins total) } id provs =
              Irismod.Service.setCtx (mkRequests
                { s with bank := creditCoins (debitCoins s.bank c.consumer (sortCoins total)).1 reqAcc (sortCoins total) }
                id (c.batchCounter + 1) c.svc c.consumer c.timeout provs 0) id (startedCtx c provs.length) := by
            unfold initiateRequests
            rw [getCtx_bank, hgc]
          rw [hinit]
          refine ⟨?_, ?_⟩
          · intro id' c' hg'
            simp only [delNew, addExp, Irismod.Service.setCtx] at hg'
            rcases get?_set_cases hg' with ⟨rfl, rfl⟩ | ⟨_, h⟩
            · exact ⟨c, hg, rfl⟩
            · rw [m4] at h; exact ⟨c', h, rfl⟩
          · intro e he
            simp only [delNew, addExp, Irismod.Service.setCtx] at he
            rw [mem_qInsert, m3] at he
            rcases he with he | he
            · exact Or.inl he
            · right; rw [he]; have := hc.1; simp only; omega
        · obtain ⟨f, q⟩ := onPaused_stale hg c rfl "insufficient balances"
          refine ⟨f.trans (TimFrame.of_eq rfl), ?_⟩
          intro e he
          simp only [delNew] at he
          rw [q] at he; exact Or.inl he
      · refine ⟨?_, ?_⟩
        · intro id' c' hg'
          simp only [delNew, skipBatch, addExp, Irismod.Service.setCtx] at hg'
          rcases get?_set_cases hg' with ⟨rfl, rfl⟩ | ⟨_, h⟩
          · exact ⟨c, hg, rfl⟩
          · exact ⟨c', h, rfl⟩
        · intro e he
          simp only [delNew, skipBatch, addExp, Irismod.Service.setCtx] at he
          rw [mem_qInsert] at he
          rcases he with he | he
          · exact Or.inl he
          · right; rw [he]; have := hc.1; simp only; omega
  · exact ⟨TimFrame.of_eq rfl, fun e he => Or.inl he⟩

theorem foldl_new_stale (b : Int) : ∀ (l : List CtxId) (s : State), WF s → l.Nodup → s.height = b →
    (∀ id, id ∈ l → AMap.get? s.newH id = some s.height) → CtxsOk s → (∀ e, e ∈ s.expQ → b < e.1) →
    CtxsOk (l.foldl newBatch s) ∧ (∀ e, e ∈ (l.foldl newBatch s).expQ → b < e.1)
  | [], _, _, _, _, _, hc, hq => ⟨hc, hq⟩
  | id :: rest, s, hs, hn, hb, hd, hc, hq => by
    rw [List.nodup_cons] at hn
    have hm := hd id (List.mem_cons_self ..)
    obtain ⟨w1, w2, _, w4⟩ := WF_newBatch hs id hm
    have hlive := hs.live id (Or.inl ((contains_iff _ _).mpr ⟨_, hm⟩))
    obtain ⟨c, hg⟩ := (contains_iff _ _).mp hlive
    obtain ⟨t1, t2⟩ := newBatch_stale hg (hc id c hg)
    simp only [List.foldl]
    refine foldl_new_stale b rest (newBatch s id) w1 hn.2 (w2.trans hb) ?_ (hc.of_frame t1) ?_
    · intro id' hm'
      rw [w2, w4 id' (by intro e; subst e; exact hn.1 hm')]
      exact hd id' (List.mem_cons_of_mem _ hm')
    · intro e he
      rcases t2 e he with h | h
      · exact hq e h
      · rw [← hb]; exact h

/-- after the end blocker every remaining entry lies strictly in the future -/
theorem endBlock_stale {s : State} (hs : WF s) (hc : CtxsOk s) (hq : QGe s s.height) :
    CtxsOk (endBlock s) ∧ (∀ e, e ∈ (endBlock s).newQ → s.height < e.1) ∧ (∀ e, e ∈ (endBlock s).expQ → s.height < e.1) := by
  obtain ⟨w1, w2, w3⟩ := WF_expiredPhase hs
  have h1 : CtxsOk (expiredPhase s) ∧ QGe (expiredPhase s) s.height := by
    unfold expiredPhase
    exact foldl_expire_stale _ s hs (nodup_dueIds _ _ hs.expND) (fun id hm => hs.expM.1 _ _ ((mem_dueIds _ _ _).mp hm)) hc hq
  have hexp : ∀ e, e ∈ (expiredPhase s).expQ → s.height < e.1 := by
    intro e he
    have hge := h1.2.2 e he
    have hne : e.1 ≠ s.height := by
      intro heq
      apply w3 e.2
      rw [← heq]; exact he
    omega
  unfold endBlock
  have h2 : CtxsOk (newPhase (expiredPhase s)) ∧ ∀ e, e ∈ (newPhase (expiredPhase s)).expQ → s.height < e.1 := by
    unfold newPhase
    exact foldl_new_stale s.height _ _ w1 (nodup_dueIds _ _ w1.newND) w2
      (fun id hm => w1.newM.1 _ _ ((mem_dueIds _ _ _).mp hm)) h1.1 hexp
  refine ⟨h2.1, ?_, h2.2⟩
  intro e he
  obtain ⟨hin, hne⟩ := newPhase_newQ _ e he
  have hge := h1.2.1 e hin
  rw [w2] at hne
  omega

/-- the bundle -/
def NS (s : State) : Prop := WF s ∧ CtxsOk s ∧ NoStale s

theorem NS_nextBlock {s : State} (h : NS s) (dt : Int) : NS (nextBlock s dt) := by
  obtain ⟨hw, hc, hq⟩ := h
  rw [noStale_iff] at hq
  obtain ⟨e1, e2, e3⟩ := endBlock_stale hw hc hq
  refine ⟨WF_nextBlock hw dt, ?_, ?_⟩
  · unfold nextBlock beginNext; exact e1.of_frame (TimFrame.of_eq rfl)
  · rw [noStale_iff]
    have hh := (WF_endBlock hw).2
    unfold nextBlock beginNext QGe
    simp only
    rw [hh]
    exact ⟨fun e he => by have := e2 e he; omega, fun e he => by have := e3 e he; omega⟩

theorem NS_skipBlocks (dt : Int) : ∀ (n : Nat) (s : State), NS s → NS (skipBlocks s dt n)
  | 0, _, h => h
  | n + 1, s, h => NS_skipBlocks dt n (nextBlock s dt) (NS_nextBlock h dt)

end Irismod.Proofs.Service

namespace Irismod.Proofs.Service
open Irismod Irismod.Sdk Irismod.Service Irismod.Spec.C13S

/-! ### message handlers -/

/-- the part of the bundle that does not need `WF` -/
def CQ (s : State) : Prop := CtxsOk s ∧ NoStale s

theorem CQ.of_same {s s' : State} (h : CQ s) (e1 : s'.ctxs = s.ctxs) (e2 : s'.newQ = s.newQ) (e3 : s'.expQ = s.expQ)
    (e4 : s'.height = s.height) : CQ s' := by
  refine ⟨h.1.of_frame (TimFrame.of_eq e1), ?_⟩
  have := h.2
  unfold NoStale at this ⊢
  rw [e2, e3, e4]; exact this

theorem CQ.of_frame {s s' : State} (h : CQ s) (f : TimFrame s s') (e2 : s'.newQ = s.newQ) (e3 : s'.expQ = s.expQ)
    (e4 : s'.height = s.height) : CQ s' := by
  refine ⟨h.1.of_frame f, ?_⟩
  have := h.2
  unfold NoStale at this ⊢
  rw [e2, e3, e4]; exact this

/-- a new-batch entry for the current height -/
theorem CQ.addNew_now {s : State} (h : CQ s) (id : CtxId) : CQ (Irismod.Service.addNew s id s.height) := by
  refine ⟨h.1.of_frame (TimFrame.of_eq rfl), ?_⟩
  have := h.2
  unfold NoStale at this ⊢
  refine ⟨?_, this.2⟩
  intro a id' he
  simp only [Irismod.Service.addNew] at he ⊢
  rw [mem_qInsert] at he
  rcases he with he | he
  · exact this.1 a id' he
  · cases he; exact Int.le_refl _

theorem validRequest_timing {svc cap providers inputOk timeout repeated freq total}
    (h : validRequest svc cap providers inputOk timeout repeated freq total = true) :
    0 < timeout ∧ (repeated = true → ¬ (0 < freq ∧ (freq : Int) < timeout)) := by
  unfold validRequest at h
  simp only [Bool.and_eq_true, decide_eq_true_eq, Bool.or_eq_true, Bool.not_eq_true'] at h
  refine ⟨h.1.2, ?_⟩
  intro hr hf
  rcases h.2 with h2 | h2
  · rw [hr] at h2; cases h2
  · have := h2.1
    simp only [Bool.and_eq_false_iff, decide_eq_false_iff_not] at this
    rcases this with h3 | h3
    · exact h3 hf.1
    · exact h3 hf.2

theorem newCtx_ok {svc : String} {providers : List Addr} {timeout : Int} {repeated : Bool} {freq : Nat}
    (h : 0 < timeout ∧ (repeated = true → ¬ (0 < freq ∧ (freq : Int) < timeout))) (consumer : Addr) (c : Nat)
    (total : Int) (st : CtxState) (thr : Nat) (mn : String) :
    CtxOk (newCtx svc providers consumer c timeout repeated freq total st thr mn) := by
  unfold CtxOk newCtx
  simp only
  refine ⟨h.1, ?_⟩
  intro hr
  have h2 := h.2 hr
  rw [hr]
  simp only [if_true]
  split
  · have := h.1; omega
  · omega

theorem CQ_createCtx {s s' : State} {newId svc providers consumer inputOk cap} {timeout : Int} {repeated : Bool} {freq : Nat}
    {total st thr moduleName} (hs : CQ s) (hv : 0 < timeout ∧ (repeated = true → ¬ (0 < freq ∧ (freq : Int) < timeout)))
    (h : createCtx s newId svc providers consumer inputOk cap timeout repeated freq total st thr moduleName = .ok s') :
    CQ s' := by
  unfold createCtx at h
  split at h
  · cases h
  split at h
  · cases h
  split at h
  · cases h
  split at h
  · cases h
  split at h
  · cases h
  rename_i c _ _
  cases h
  have hok : CtxOk (newCtx svc providers consumer c timeout repeated freq total st thr moduleName) :=
    newCtx_ok hv consumer c total st thr moduleName
  have h1 : CQ (Irismod.Service.setCtx s newId (newCtx svc providers consumer c timeout repeated freq total st thr moduleName)) := by
    refine ⟨?_, ?_⟩
    · intro id c' hg
      simp only [Irismod.Service.setCtx] at hg
      rcases get?_set_cases hg with ⟨_, rfl⟩ | ⟨_, hg'⟩
      · exact hok
      · exact hs.1 id c' hg'
    · exact hs.2
  have h2 : CQ { Irismod.Service.setCtx s newId (newCtx svc providers consumer c timeout repeated freq total st thr moduleName)
                 with idx := s.idx + 1 } := h1.of_same rfl rfl rfl rfl
  unfold createState
  split
  · exact h2.addNew_now newId
  · exact h2

theorem CQ_keeperPause {s s' : State} {id consumer} (hs : CQ s) (h : keeperPause s id consumer = .ok s') : CQ s' := by
  unfold keeperPause at h
  split at h
  · cases h
  rename_i rc hg
  split at h
  · cases h
  split at h
  · cases h
  split at h
  · cases h
  cases h
  exact hs.of_frame (TimFrame.setCtx hg rfl) rfl rfl rfl

theorem CQ_keeperKill {s s' : State} {id consumer} (hs : CQ s) (h : keeperKill s id consumer = .ok s') : CQ s' := by
  unfold keeperKill at h
  split at h
  · cases h
  rename_i rc hg
  split at h
  · cases h
  split at h
  · cases h
  cases h
  exact hs.of_frame (TimFrame.setCtx hg rfl) rfl rfl rfl

theorem CQ_keeperStart {s s' : State} {id consumer} (hs : CQ s) (h : keeperStart s id consumer = .ok s') : CQ s' := by
  unfold keeperStart at h
  split at h
  · cases h
  rename_i rc hg
  split at h
  · cases h
  split at h
  · cases h
  split at h
  · cases h
  cases h
  have h1 : CQ (Irismod.Service.setCtx s id { rc with state := .running }) := hs.of_frame (TimFrame.setCtx hg rfl) rfl rfl rfl
  split
  · exact h1.addNew_now id
  · exact h1

theorem updatedCtx_ok {rc : Ctx} (hc : CtxOk rc) {timeout : Int} {freq : Nat} (ht : 0 ≤ timeout)
    (hf : ¬ ((effFreq rc freq : Int) < effTimeout rc timeout)) (thr1 : Nat) (pds : List Addr) (c : Nat) (total : Int) :
    CtxOk (updatedCtx rc thr1 pds c timeout freq total) := by
  obtain ⟨h1, h2⟩ := hc
  have hpos : 0 < effTimeout rc timeout := by
    unfold effTimeout; split <;> omega
  have hle : effTimeout rc timeout ≤ (effFreq rc freq : Int) := by omega
  have hfpos : 0 < effFreq rc freq := by omega
  unfold CtxOk updatedCtx
  simp only [if_pos hpos, if_pos hfpos]
  exact ⟨hpos, fun _ => hle⟩

theorem CQ_keeperUpdate {s s' : State} {id providers thr cap timeout freq total consumer} (hs : CQ s) (ht : 0 ≤ timeout)
    (h : keeperUpdate s id providers thr cap timeout freq total consumer = .ok s') : CQ s' := by
  unfold keeperUpdate at h
  split at h
  · cases h
  rename_i rc hg
  split at h
  · cases h
  split at h
  · cases h
  split at h
  · cases h
  split at h
  · cases h
  split at h
  · cases h
  split at h
  · cases h
  split at h
  · cases h
  rename_i hfreq
  split at h
  · cases h
  cases h
  refine ⟨?_, hs.2⟩
  intro id' c' hg'
  simp only [Irismod.Service.setCtx] at hg'
  rcases get?_set_cases hg' with ⟨_, rfl⟩ | ⟨_, hg''⟩
  · exact updatedCtx_ok (hs.1 id rc hg) ht hfreq _ _ _ _
  · exact hs.1 id' c' hg''

theorem stepUpdateCtx_timeout {s s' : State} {consumer : Addr} {id : String} {providers cap timeout freq total}
    (h : stepUpdateCtx s consumer id providers cap timeout freq total = .ok s') : 0 ≤ timeout := by
  unfold stepUpdateCtx at h
  split at h
  · cases h
  split at h
  · cases h
  split at h
  · cases h
  split at h
  · cases h
  rename_i hv
  unfold validUpdate at hv
  simp only [Bool.not_eq_true', Bool.not_eq_false, Bool.and_eq_true, decide_eq_true_eq] at hv
  exact hv.1.1.2

theorem CQ_keeperRespond {s s' : State} {provider : Addr} {rid : ReqId} {hasOut : Bool} (hs : CQ s)
    (h : keeperRespond s provider rid hasOut = .ok s') : CQ s' := by
  unfold keeperRespond at h
  split at h
  · cases h
  rename_i rq rc hreq
  split at h
  · cases h
  split at h
  · cases h
  split at h
  · cases h
  rename_i s1 hfee
  cases h
  obtain ⟨_, hctx⟩ := getRequest_some hreq
  obtain ⟨⟨a1, _, a3, _, _, _, a7⟩, _, _, _⟩ := addEarnedFee_sched hfee
  have hh : s1.height = s.height := by
    unfold addEarnedFee at hfee
    split at hfee
    · cases hfee
    split at hfee
    · cases hfee
    cases hfee; rfl
  obtain ⟨c1, _, c3, _, _, _, c7⟩ := countResponse_fields (recordResponse s1 rid provider rq rc hasOut) rq.ctx
  have hgc : getCtx (recordResponse s1 rid provider rq rc hasOut) rq.ctx = rc := by
    apply getCtx_of_get?
    simp only [recordResponse]; rw [a7]; exact hctx
  have hht : (countResponse (recordResponse s1 rid provider rq rc hasOut) rq.ctx).height = s.height := by
    unfold countResponse storeCtx completeBatch callback
    split
    · split <;> exact hh
    · exact hh
  refine hs.of_frame ?_ (c1.trans a1) (c3.trans a3) hht
  intro id' c' hg'
  rw [c7, hgc] at hg'
  rcases get?_set_cases hg' with ⟨rfl, rfl⟩ | ⟨_, hg''⟩
  · refine ⟨rc, hctx, ?_⟩
    split <;> rfl
  · simp only [recordResponse] at hg''
    rw [a7] at hg''
    exact ⟨c', hg'', rfl⟩

/-- module-level entry points used the way the code base uses them: a module context is created under a
module name (so the request is validated), and a keeper-level update carries a non-negative timeout -/
def opValidated : Op → Prop
  | .mcall _ _ _ _ _ _ _ _ _ _ _ _ modName => modName ≠ ""
  | .mupdate _ _ _ _ _ timeout _ _ => 0 ≤ timeout
  | _ => True

theorem keeperWithdraw_height {s s' : State} {owner provider} (h : keeperWithdraw s owner provider = .ok s') :
    s'.height = s.height := by
  unfold keeperWithdraw at h
  split at h
  · unfold withdrawProvider at h
    split at h
    · cases h
    split at h
    · cases h
    split at h
    · cases h
    cases h; rfl
  · unfold withdrawOwner at h
    split at h
    · cases h
    cases h; rfl

theorem NS_stepCore {s s' : State} {op : Op} (hs : NS s) (hf : FreshOp s op) (hv : opValidated op)
    (h : stepCore s op = .ok s') : NS s' := by
  have hw := WF_stepCore hs.1 hf h
  have hcq : CQ s := hs.2
  suffices hh : CQ s' from ⟨hw, hh.1, hh.2⟩
  cases op with
  | define sender name schOk =>
    simp only [stepCore, stepDefine] at h
    split at h
    · cases h
    split at h
    · cases h
    split at h
    · cases h
    split at h
    · cases h
    cases h
    exact hcq.of_same rfl rfl rfl rfl
  | bind owner provider svc dep qos pin optsOk =>
    simp only [stepCore, stepBind] at h
    split at h
    · cases h
    split at h
    · cases h
    obtain ⟨d, pr, bank, _, _, _, rfl⟩ := keeperBind_inv h
    exact hcq.of_same rfl rfl rfl rfl
  | updateBinding owner provider svc dep qos pin opts =>
    simp only [stepCore, stepUpdateBinding] at h
    split at h
    · cases h
    obtain ⟨b, d, pr, bank, _, _, _, _, rfl⟩ := keeperUpdateBinding_inv h
    exact hcq.of_same rfl rfl rfl rfl
  | setWithdraw owner addr =>
    simp only [stepCore, stepSetWithdraw] at h
    split at h
    · cases h
    split at h
    · cases h
    cases h
    exact hcq.of_same rfl rfl rfl rfl
  | enable owner provider svc dep =>
    simp only [stepCore, stepEnable] at h
    split at h
    · cases h
    unfold keeperEnable at h
    split at h
    · cases h
    split at h
    · cases h
    split at h
    · cases h
    split at h
    · cases h
    split at h
    · cases h
    split at h
    · cases h
    cases h
    exact hcq.of_same rfl rfl rfl rfl
  | disable owner provider svc =>
    simp only [stepCore, stepDisable] at h
    split at h
    · cases h
    split at h
    · cases h
    split at h
    · cases h
    split at h
    · cases h
    cases h
    exact hcq.of_same rfl rfl rfl rfl
  | refundDeposit owner provider svc =>
    simp only [stepCore, stepRefundDeposit] at h
    split at h
    · cases h
    unfold keeperRefundDeposit at h
    split at h
    · cases h
    split at h
    · cases h
    split at h
    · cases h
    split at h
    · cases h
    split at h
    · cases h
    split at h
    · cases h
    cases h
    exact hcq.of_same rfl rfl rfl rfl
  | call tx consumer svc providers cap timeout repeated freq total inputOk =>
    simp only [stepCore, stepCall] at h
    split at h
    · cases h
    split at h
    · cases h
    rename_i hreq
    split at h
    · cases h
    have hreq' : validRequest svc cap providers inputOk timeout repeated freq total = true := by
      cases hvr : validRequest svc cap providers inputOk timeout repeated freq total with
      | true => rfl
      | false => rw [hvr] at hreq; exact absurd rfl hreq
    exact CQ_createCtx hcq (validRequest_timing hreq') h
  | mcall tx consumer svc providers cap timeout repeated freq total inputOk paused thr modName =>
    simp only [stepCore] at h
    have hreq : validRequest svc cap providers inputOk timeout repeated freq total = true := by
      unfold createCtx at h
      split at h
      · cases h
      rename_i hm
      unfold moduleCtxOk at hm
      have hne : modName ≠ "" := hv
      simp only [Bool.not_eq_true', Bool.not_eq_false, Bool.or_eq_true, decide_eq_true_eq, hne, false_or,
        Bool.and_eq_true] at hm
      exact hm.1.1.2
    exact CQ_createCtx hcq (validRequest_timing hreq) h
  | respond provider rid code out resOk =>
    simp only [stepCore, stepRespond] at h
    split at h
    · cases h
    split at h
    · cases h
    exact CQ_keeperRespond hcq h
  | withdraw owner provider =>
    simp only [stepCore, stepWithdraw] at h
    split at h
    · cases h
    split at h
    · cases h
    obtain ⟨a1, _, a3, _, _, _, a7⟩ := keeperWithdraw_sched h
    exact hcq.of_same a7 a1 a3 (keeperWithdraw_height h)
  | withdrawK owner provider =>
    obtain ⟨a1, _, a3, _, _, _, a7⟩ := keeperWithdraw_sched h
    exact hcq.of_same a7 a1 a3 (keeperWithdraw_height h)
  | pause consumer id => exact CQ_keeperPause hcq (stepPause_inv h)
  | start consumer id => exact CQ_keeperStart hcq (stepStart_inv h)
  | kill consumer id => exact CQ_keeperKill hcq (stepKill_inv h)
  | updateCtx consumer id providers cap timeout freq total =>
    exact CQ_keeperUpdate hcq (stepUpdateCtx_timeout h) (stepUpdateCtx_inv h)
  | mpause consumer id => exact CQ_keeperPause hcq h
  | mstart consumer id => exact CQ_keeperStart hcq h
  | mkill consumer id => exact CQ_keeperKill hcq h
  | mupdate consumer id providers thr cap timeout freq total => exact CQ_keeperUpdate hcq hv h
  | setRate d r =>
    simp only [stepCore] at h
    cases h
    exact hcq.of_same rfl rfl rfl rfl
  | next dt =>
    simp only [stepCore] at h
    cases h
    exact (NS_nextBlock hs dt).2
  | skip n dt =>
    simp only [stepCore] at h
    cases h
    exact (NS_skipBlocks dt n s hs).2

end Irismod.Proofs.Service
