/-
C12 (coinswap) helper layer: the liquidity-denom parser inverts the generator, the shape of the
registry that every reachable state has (`GenWF`, on top of `RegWF`), how one accepted message can
change the registry (`RegStep`), and the export / validate / import lemmas.
-/
import Std.Data.String.ToNat
import Irismod.Model.CoinswapGenesis
import Irismod.Proofs.GenesisList
import Irismod.Props.C01
import Irismod.Props.C02

namespace Irismod.Proofs.CoinswapGenesis
open Irismod Irismod.Sdk Irismod.Coinswap Irismod.CoinswapGenesis Irismod.Spec.C02
open Irismod.MtGenesis (sortDedup)
open Irismod.Proofs.GenesisList Irismod.Proofs.Coinswap Irismod.Proofs.CoinswapShare

/-! ### names -/

/-- `ParseLptDenom(GetLptDenom(n)) = n` -/
theorem lptSeq_lptDenom (n : Nat) : lptSeq? (lptDenom n) = some n := by
  have hl : (lptDenom n).toList = 'l' :: 'p' :: 't' :: '-' :: Nat.toDigits 10 n := by
    unfold lptDenom
    rw [String.toList_append]
    show _ ++ (Nat.repr n).toList = _
    rw [Nat.toList_repr]; rfl
  unfold lptSeq?
  rw [hl]
  have hs : List.span (fun c => c != '-') ('l' :: 'p' :: 't' :: '-' :: Nat.toDigits 10 n)
      = (['l', 'p', 't'], '-' :: Nat.toDigits 10 n) := by
    simp [List.span, List.span.loop]
  rw [hs]
  have hd : (Nat.toDigits 10 n).all Char.isDigit = true := by
    rw [List.all_eq_true]
    intro c hc
    exact Nat.isDigit_of_mem_toDigits (by omega) (by omega) hc
  have hne : Nat.toDigits 10 n ≠ [] := Nat.toDigits_ne_nil
  simp only [hne, ne_eq, not_false_eq_true, hd, and_self, if_true]
  rw [← Nat.repr_eq_ofList_toDigits]
  exact Nat.toNat?_repr n

theorem poolId_inj {a b : Denom} (h : poolId a = poolId b) : a = b := by
  unfold poolId at h
  exact (String.append_right_inj _).mp h

theorem validAddr_poolAddr (n : Nat) : validAddr (poolAddr n) = true := by
  unfold validAddr
  have h := poolAddr_head n
  simp only [bne_iff_ne, ne_eq]
  intro e
  rw [e] at h
  simp at h

/-! ### the shape of a reachable registry -/

/-- what every reachable state satisfies besides `RegWF`: distinct keys, valid denoms and
parameters, and the sequences in use are exactly `1 … seq-1` -/
structure GenWF (s : State) : Prop where
  nodup : NodupKeys s.pools
  stdOk : validDenom s.std = true
  cpOk : ∀ cp, cp ∈ AMap.keys s.pools → validDenom cp = true
  parOk : validParams s.params = true
  seqPos : 1 ≤ s.seq
  nPos : ∀ cp n, AMap.get? s.pools cp = some n → 1 ≤ n
  surj : ∀ n, 1 ≤ n → n < s.seq → ∃ cp, AMap.get? s.pools cp = some n

/-- how one accepted message can change the module's own state -/
inductive RegStep (s s' : State) : Prop where
  | same : s'.std = s.std → s'.params = s.params → s'.pools = s.pools → s'.seq = s.seq → RegStep s s'
  | params : s'.std = s.std → validParams s'.params = true → s'.pools = s.pools → s'.seq = s.seq → RegStep s s'
  | created (cp : Denom) : AMap.get? s.pools cp = none → validDenom cp = true → cp ≠ s.std →
      s'.std = s.std → s'.params = s.params → s'.pools = AMap.set s.pools cp s.seq → s'.seq = s.seq + 1 →
      RegStep s s'

theorem regStep_of_cfg {s s' : State} (h : SameCfg s s') : RegStep s s' :=
  .same h.1 h.2.1 h.2.2.1 h.2.2.2.1

theorem vbToken_denom {d : Denom} {amt : Int} (h : vbToken d amt = none) : validDenom d = true := by
  unfold vbToken at h
  split at h
  · cases h
  · rename_i h1
    simp at h1
    exact h1.1

/-- every accepted message is one of the three registry steps -/
theorem regStep_of_step (s s' : State) (op : Op) (resp : CoinList) (h : step s op = .ok (s', resp)) :
    RegStep s s' := by
  cases op with
  | block t =>
    have := step_block_ok h
    cases this
    exact .same rfl rfl rfl rfl
  | setParams auth fee tax ufee pcfD pcfA =>
    obtain ⟨hvb, hs⟩ := step_params_ok h
    unfold stepParams at hs
    split at hs
    · cases hs
    · cases hs
      refine .params rfl ?_ rfl rfl
      simp only [vb] at hvb
      split at hvb
      · rename_i hc
        obtain ⟨_, h1, h2, h3, h4, h5, h6, h7, h8⟩ := hc
        simp only [validParams, Bool.and_eq_true, decide_eq_true_eq]
        refine ⟨⟨⟨⟨⟨⟨?_, ?_⟩, ?_⟩, h4⟩, ?_⟩, ?_⟩, ?_⟩ <;> simp only [D] at * <;> omega
      · cases hvb
  | donate src dst d a =>
    exact regStep_of_cfg (stepDonate_ok (step_donate_ok h)).2
  | swap sender rcpt inD inA outD outA buy dl =>
    cases hd : isDouble s inD outD with
    | false =>
      obtain ⟨_, _, _, _, _, _, _, _, _, hcfg⟩ :=
        Irismod.Props.C02.swap_single_exact s s' sender rcpt inD outD inA outA buy dl resp hd h
      exact regStep_of_cfg hcfg
    | true =>
      obtain ⟨_, _, _, _, _, _, _, _, _, _, _, _, _, hcfg⟩ :=
        Irismod.Props.C02.swap_double_ledger s s' sender rcpt inD outD inA outA buy dl resp hd h
      exact regStep_of_cfg hcfg
  | add sender cp maxA dS minL dl =>
    obtain ⟨hvb, hs⟩ := step_add_ok h
    simp only [vb] at hvb
    have hv := firstErr_none hvb
    have hden : validDenom cp = true := vbToken_denom (hv (vbToken cp maxA) (by simp))
    obtain ⟨_, hstd, hcase⟩ := stepAdd_ok hs
    rcases hcase with ⟨hnone, s1, hfee, _, hadd⟩ | ⟨n, _, _, _, hadd⟩ | ⟨n, _, _, hex⟩
    · obtain ⟨_, c1, c2, c3, c4, _, _⟩ := deductFee_ok hfee
      obtain ⟨_, ⟨d1, d2, d3, d4, _, _⟩, _⟩ := addLiq_ok hadd
      simp only at d1 d2 d3 d4
      exact .created cp hnone hden hstd (d1.trans c1) (d2.trans c2) (by rw [d3, c3, c4]) (by rw [d4, c4])
    · exact regStep_of_cfg (addLiq_ok hadd).2.1
    · obtain ⟨_, _, _, _, _, hadd⟩ := addExisting_ok hex
      exact regStep_of_cfg (addLiq_ok hadd).2.1
  | remove sender lptD w minStd minTok dl =>
    obtain ⟨_, hs⟩ := step_remove_ok h
    obtain ⟨_, _, _, _, _, _, _, _, hrem⟩ := stepRemove_ok hs
    exact regStep_of_cfg (removeLiq_ok hrem).2.1
  | add1 sender cp tokD a minL dl =>
    obtain ⟨_, hs⟩ := step_add1_ok h
    obtain ⟨_, _, _, _, _, _, _, hcfg, _⟩ := stepAdd1_ok hs
    exact regStep_of_cfg hcfg
  | rem1 sender cp minD minA w dl =>
    obtain ⟨_, hs⟩ := step_rem1_ok h
    obtain ⟨_, _, _, _, _, _, _, hrem⟩ := stepRem1_ok hs
    exact regStep_of_cfg (rem1Liq_ok hrem).2.1

end Irismod.Proofs.CoinswapGenesis
