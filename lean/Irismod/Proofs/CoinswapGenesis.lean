/-
C12 (coinswap) helper layer: the liquidity-denom parser inverts the generator, the shape of the
registry that every reachable state has (`GenWF`, on top of `RegWF`), how one accepted message can
change the registry (`RegStep`), and the export / validate / import lemmas.
-/
import Std.Data.String.ToNat
import Irismod.Model.CoinswapGenesis
import Irismod.Proofs.GenesisList
import Irismod.Props.C01
import Irismod.Props.C02

namespace Irismod.Proofs.CoinswapGenesis
open Irismod Irismod.Sdk Irismod.Coinswap Irismod.CoinswapGenesis Irismod.Spec.C02
open Irismod.MtGenesis (sortDedup)
open Irismod.Proofs.GenesisList Irismod.Proofs.Coinswap Irismod.Proofs.CoinswapShare

/-! ### names -/

/-- `ParseLptDenom(GetLptDenom(n)) = n` -/
theorem lptSeq_lptDenom (n : Nat) : lptSeq? (lptDenom n) = some n := by
  have hl : (lptDenom n).toList = 'l' :: 'p' :: 't' :: '-' :: Nat.toDigits 10 n := by
    unfold lptDenom
    rw [String.toList_append]
    show _ ++ (Nat.repr n).toList = _
    rw [Nat.toList_repr]; rfl
  unfold lptSeq?
  rw [hl]
  have hs : List.span (fun c => c != '-') ('l' :: 'p' :: 't' :: '-' :: Nat.toDigits 10 n)
      = (['l', 'p', 't'], '-' :: Nat.toDigits 10 n) := by
    simp [List.span, List.span.loop]
  rw [hs]
  have hd : (Nat.toDigits 10 n).all Char.isDigit = true := by
    rw [List.all_eq_true]
    intro c hc
    exact Nat.isDigit_of_mem_toDigits (by omega) (by omega) hc
  have hne : Nat.toDigits 10 n ≠ [] := Nat.toDigits_ne_nil
  simp only [hne, ne_eq, not_false_eq_true, hd, and_self, if_true]
  rw [← Nat.repr_eq_ofList_toDigits]
  exact Nat.toNat?_repr n

theorem poolId_inj {a b : Denom} (h : poolId a = poolId b) : a = b := by
  unfold poolId at h
  exact (String.append_right_inj _).mp h

theorem validAddr_poolAddr (n : Nat) : validAddr (poolAddr n) = true := by
  unfold validAddr
  have h := poolAddr_head n
  simp only [bne_iff_ne, ne_eq]
  intro e
  rw [e] at h
  simp at h

/-! ### the shape of a reachable registry -/

/-- what every reachable state satisfies besides `RegWF`: distinct keys, valid denoms and
parameters, and the sequences in use are exactly `1 … seq-1` -/
structure GenWF (s : State) : Prop where
  nodup : NodupKeys s.pools
  stdOk : validDenom s.std = true
  cpOk : ∀ cp, cp ∈ AMap.keys s.pools → validDenom cp = true
  parOk : validParams s.params = true
  seqPos : 1 ≤ s.seq
  nPos : ∀ cp n, AMap.get? s.pools cp = some n → 1 ≤ n
  surj : ∀ n, 1 ≤ n → n < s.seq → ∃ cp, AMap.get? s.pools cp = some n

/-- how one accepted message can change the module's own state -/
inductive RegStep (s s' : State) : Prop where
  | same : s'.std = s.std → s'.params = s.params → s'.pools = s.pools → s'.seq = s.seq → RegStep s s'
  | params : s'.std = s.std → validParams s'.params = true → s'.pools = s.pools → s'.seq = s.seq → RegStep s s'
  | created (cp : Denom) : AMap.get? s.pools cp = none → validDenom cp = true → cp ≠ s.std →
      s'.std = s.std → s'.params = s.params → s'.pools = AMap.set s.pools cp s.seq → s'.seq = s.seq + 1 →
      RegStep s s'

theorem regStep_of_cfg {s s' : State} (h : SameCfg s s') : RegStep s s' :=
  .same h.1 h.2.1 h.2.2.1 h.2.2.2.1

theorem vbToken_denom {d : Denom} {amt : Int} (h : vbToken d amt = none) : validDenom d = true := by
  unfold vbToken at h
  split at h
  · cases h
  · rename_i h1
    simp at h1
    exact h1.1

/-- every accepted message is one of the three registry steps -/
theorem regStep_of_step (s s' : State) (op : Op) (resp : CoinList) (h : step s op = .ok (s', resp)) :
    RegStep s s' := by
  cases op with
  | block t =>
    have := step_block_ok h
    cases this
    exact .same rfl rfl rfl rfl
  | setParams auth fee tax ufee pcfD pcfA =>
    obtain ⟨hvb, hs⟩ := step_params_ok h
    unfold stepParams at hs
    split at hs
    · cases hs
    · cases hs
      refine .params rfl ?_ rfl rfl
      simp only [vb] at hvb
      split at hvb
      · rename_i hc
        obtain ⟨_, h1, h2, h3, h4, h5, h6, h7, h8⟩ := hc
        simp only [validParams, Bool.and_eq_true, decide_eq_true_eq]
        refine ⟨⟨⟨⟨⟨⟨?_, ?_⟩, ?_⟩, h4⟩, ?_⟩, ?_⟩, ?_⟩ <;> simp only [D] at * <;> omega
      · cases hvb
  | donate src dst d a =>
    exact regStep_of_cfg (stepDonate_ok (step_donate_ok h)).2
  | swap sender rcpt inD inA outD outA buy dl =>
    cases hd : isDouble s inD outD with
    | false =>
      obtain ⟨_, _, _, _, _, _, _, _, _, hcfg⟩ :=
        Irismod.Props.C02.swap_single_exact s s' sender rcpt inD outD inA outA buy dl resp hd h
      exact regStep_of_cfg hcfg
    | true =>
      obtain ⟨_, _, _, _, _, _, _, _, _, _, _, _, _, hcfg⟩ :=
        Irismod.Props.C02.swap_double_ledger s s' sender rcpt inD outD inA outA buy dl resp hd h
      exact regStep_of_cfg hcfg
  | add sender cp maxA dS minL dl =>
    obtain ⟨hvb, hs⟩ := step_add_ok h
    simp only [vb] at hvb
    have hv := firstErr_none hvb
    have hden : validDenom cp = true := vbToken_denom (hv (vbToken cp maxA) (by simp))
    obtain ⟨_, hstd, hcase⟩ := stepAdd_ok hs
    rcases hcase with ⟨hnone, s1, hfee, _, hadd⟩ | ⟨n, _, _, _, hadd⟩ | ⟨n, _, _, hex⟩
    · obtain ⟨_, c1, c2, c3, c4, _, _⟩ := deductFee_ok hfee
      obtain ⟨_, ⟨d1, d2, d3, d4, _, _⟩, _⟩ := addLiq_ok hadd
      simp only at d1 d2 d3 d4
      exact .created cp hnone hden hstd (d1.trans c1) (d2.trans c2) (by rw [d3, c3, c4]) (by rw [d4, c4])
    · exact regStep_of_cfg (addLiq_ok hadd).2.1
    · obtain ⟨_, _, _, _, _, hadd⟩ := addExisting_ok hex
      exact regStep_of_cfg (addLiq_ok hadd).2.1
  | remove sender lptD w minStd minTok dl =>
    obtain ⟨_, hs⟩ := step_remove_ok h
    obtain ⟨_, _, _, _, _, _, _, _, hrem⟩ := stepRemove_ok hs
    exact regStep_of_cfg (removeLiq_ok hrem).2.1
  | add1 sender cp tokD a minL dl =>
    obtain ⟨_, hs⟩ := step_add1_ok h
    obtain ⟨_, _, _, _, _, _, _, hcfg, _⟩ := stepAdd1_ok hs
    exact regStep_of_cfg hcfg
  | rem1 sender cp minD minA w dl =>
    obtain ⟨_, hs⟩ := step_rem1_ok h
    obtain ⟨_, _, _, _, _, _, _, hrem⟩ := stepRem1_ok hs
    exact regStep_of_cfg (rem1Liq_ok hrem).2.1


/-! ### well-formedness is preserved -/

theorem regwf_of_regStep {s s' : State} (hw : RegWF s) (_hg : GenWF s) (h : RegStep s s') : RegWF s' := by
  cases h with
  | same e1 e2 e3 e4 | params e1 e2 e3 e4 =>
    constructor
    · intro cp n hgt; rw [e1]; rw [e3] at hgt; exact hw.cpne cp n hgt
    · intro cp n hgt; rw [e4]; rw [e3] at hgt; exact hw.lt cp n hgt
    · intro c c' n h1 h2; rw [e3] at h1 h2; exact hw.inj c c' n h1 h2
    · intro cp n hm; rw [e3] at hm ⊢; exact hw.mem cp n hm
  | created cp hnone hden hstd e1 e2 e3 e4 =>
    constructor
    · intro c n hgt
      rw [e3] at hgt; rw [e1]
      rcases Irismod.Props.C01.get?_set_cases hgt with ⟨e, _⟩ | ⟨_, hg'⟩
      · rw [e]; exact hstd
      · exact hw.cpne c n hg'
    · intro c n hgt
      rw [e3] at hgt; rw [e4]
      rcases Irismod.Props.C01.get?_set_cases hgt with ⟨_, e⟩ | ⟨_, hg'⟩
      · omega
      · have := hw.lt c n hg'; omega
    · intro c c' n h1 h2
      rw [e3] at h1 h2
      rcases Irismod.Props.C01.get?_set_cases h1 with ⟨a1, f1⟩ | ⟨a1, g1⟩ <;>
        rcases Irismod.Props.C01.get?_set_cases h2 with ⟨a2, f2⟩ | ⟨a2, g2⟩
      · rw [a1, a2]
      · have := hw.lt c' n g2; omega
      · have := hw.lt c n g1; omega
      · exact hw.inj c c' n g1 g2
    · intro c n hm
      rw [e3] at hm ⊢
      rcases Irismod.Props.C01.mem_set_none hnone hm with h' | ⟨a1, a2⟩
      · have hgt := hw.mem c n h'
        have hck : cp ≠ c := by intro e; rw [e] at hnone; rw [hnone] at hgt; cases hgt
        rw [AMap.get?_set_other _ _ _ _ hck]; exact hgt
      · rw [a1, a2]; exact AMap.get?_set_self _ _ _

theorem genwf_of_regStep {s s' : State} (_hw : RegWF s) (hg : GenWF s) (h : RegStep s s') : GenWF s' := by
  cases h with
  | same e1 e2 e3 e4 =>
    exact ⟨by rw [e3]; exact hg.nodup, by rw [e1]; exact hg.stdOk, by rw [e3]; exact hg.cpOk,
      by rw [e2]; exact hg.parOk, by rw [e4]; exact hg.seqPos, by rw [e3]; exact hg.nPos,
      by rw [e3, e4]; exact hg.surj⟩
  | params e1 e2 e3 e4 =>
    exact ⟨by rw [e3]; exact hg.nodup, by rw [e1]; exact hg.stdOk, by rw [e3]; exact hg.cpOk,
      e2, by rw [e4]; exact hg.seqPos, by rw [e3]; exact hg.nPos, by rw [e3, e4]; exact hg.surj⟩
  | created cp hnone hden hstd e1 e2 e3 e4 =>
    have hnk : cp ∉ AMap.keys s.pools := (get?_eq_none_iff _ _).mp hnone
    refine ⟨by rw [e3]; exact nodupKeys_set hg.nodup _ _, by rw [e1]; exact hg.stdOk, ?_,
      by rw [e2]; exact hg.parOk, by rw [e4]; omega, ?_, ?_⟩
    · intro c hc
      rw [e3, mem_keys_set] at hc
      rcases hc with e | hc
      · rw [e]; exact hden
      · exact hg.cpOk c hc
    · intro c n hgt
      rw [e3] at hgt
      rcases Irismod.Props.C01.get?_set_cases hgt with ⟨_, e⟩ | ⟨_, hg'⟩
      · have := hg.seqPos; omega
      · exact hg.nPos c n hg'
    · intro n h1 h2
      rw [e4] at h2; rw [e3]
      by_cases hn : n = s.seq
      · exact ⟨cp, by rw [hn]; exact AMap.get?_set_self _ _ _⟩
      · obtain ⟨c, hc⟩ := hg.surj n h1 (by omega)
        have hck : cp ≠ c := by intro e; rw [e] at hnone; rw [hnone] at hc; cases hc
        exact ⟨c, by rw [AMap.get?_set_other _ _ _ _ hck]; exact hc⟩

/-! ### export -/

/-- the sequence the registry records for `cp` -/
def seqOf (s : State) (cp : Denom) : Nat := AMap.getD s.pools cp 0

theorem get?_seqOf {s : State} {cp : Denom} (h : cp ∈ AMap.keys s.pools) : AMap.get? s.pools cp = some (seqOf s cp) := by
  obtain ⟨v, hv⟩ := (mem_keys_iff _ _).mp h
  unfold seqOf AMap.getD
  rw [hv]; rfl

theorem exportPools_eq (s : State) :
    exportPools s = (sortDedup (AMap.keys s.pools)).map fun cp => mkPool s.std cp (seqOf s cp) := rfl

/-- the validation loop accepts the exported records of any duplicate-free list of registered
counterparties, and returns the largest sequence seen -/
theorem validatePools_export (s : State) (hw : RegWF s) (hg : GenWF s) (hr : s.seq ≤ 18446744073709551616) :
    ∀ (cps : List Denom) (ids lpts : List String) (mx : Nat), cps.Nodup → (∀ cp ∈ cps, cp ∈ AMap.keys s.pools) →
      (∀ cp ∈ cps, poolId cp ∉ ids) → (∀ cp ∈ cps, lptDenom (seqOf s cp) ∉ lpts) →
      ∃ mx', validatePools (cps.map fun cp => mkPool s.std cp (seqOf s cp)) ids lpts mx = .ok mx' ∧
        mx ≤ mx' ∧ (∀ cp ∈ cps, seqOf s cp ≤ mx') ∧ (mx' = mx ∨ ∃ cp ∈ cps, mx' = seqOf s cp)
  | [], ids, lpts, mx, _, _, _, _ => ⟨mx, rfl, Nat.le_refl _, by simp, Or.inl rfl⟩
  | cp :: t, ids, lpts, mx, hnd, hk, hi, hl => by
    rw [List.nodup_cons] at hnd
    have hcpk := hk cp (by simp)
    have hget := get?_seqOf hcpk
    have hlt := hw.lt cp _ hget
    simp only [List.map_cons, validatePools, mkPool]
    have h1 : ids.contains (poolId cp) = false := by
      simpa using hi cp (by simp)
    have h2 : lpts.contains (lptDenom (seqOf s cp)) = false := by
      simpa using hl cp (by simp)
    simp only [h1, h2, Bool.false_eq_true, if_false, lptSeq_lptDenom]
    have h3 : seqOf s cp < 18446744073709551616 := by omega
    simp only [h3, not_true_eq_false, if_false, hg.cpOk cp hcpk, hg.stdOk, validAddr_poolAddr, Bool.not_true]
    obtain ⟨mx', hv, hle, hall, hatt⟩ := validatePools_export s hw hg hr t (poolId cp :: ids)
      (lptDenom (seqOf s cp) :: lpts) (max mx (seqOf s cp)) hnd.2 (fun c hc => hk c (List.mem_cons_of_mem _ hc))
      (by
        intro c hc hm
        rcases List.mem_cons.mp hm with e | hm
        · have := poolId_inj e; subst this; exact hnd.1 hc
        · exact hi c (List.mem_cons_of_mem _ hc) hm)
      (by
        intro c hc hm
        rcases List.mem_cons.mp hm with e | hm
        · have e' := lptDenom_inj e
          have g1 := get?_seqOf (hk c (List.mem_cons_of_mem _ hc))
          rw [e'] at g1
          have := hw.inj c cp _ g1 hget
          subst this; exact hnd.1 hc
        · exact hl c (List.mem_cons_of_mem _ hc) hm)
    refine ⟨mx', hv, by omega, ?_, ?_⟩
    · intro c hc
      rcases List.mem_cons.mp hc with e | hc
      · subst e; omega
      · exact hall c hc
    · rcases hatt with e | ⟨c, hc, e⟩
      · by_cases hm : mx ≤ seqOf s cp
        · exact Or.inr ⟨cp, by simp, by omega⟩
        · exact Or.inl (by omega)
      · exact Or.inr ⟨c, List.mem_cons_of_mem _ hc, e⟩

theorem validParams_eq {p : Params} (h : validParams p = true) : (!validParams p) = false := by simp [h]

/-- **export validates** -/
theorem validate_export (s : State) (hw : RegWF s) (hg : GenWF s) (hr : s.seq ≤ 18446744073709551616) :
    validateGenesis (exportGenesis s) = .ok () := by
  unfold validateGenesis exportGenesis
  simp only [hg.stdOk, Bool.not_true, Bool.false_eq_true, if_false, exportPools_eq]
  obtain ⟨mx, hv, _, hall, hatt⟩ := validatePools_export s hw hg hr (sortDedup (AMap.keys s.pools)) [] [] 0
    (nodup_sortDedup _) (fun cp hc => (mem_sortDedup _ _).mp hc) (by simp) (by simp)
  rw [hv]
  have hmx : mx + 1 = s.seq := by
    have hpos := hg.seqPos
    have hup : mx + 1 ≤ s.seq := by
      rcases hatt with e | ⟨c, hc, e⟩
      · omega
      · have := hw.lt c _ (get?_seqOf ((mem_sortDedup _ _).mp hc)); omega
    by_cases h1 : s.seq = 1
    · omega
    · obtain ⟨c, hc⟩ := hg.surj (s.seq - 1) (by omega) (by omega)
      have hck : c ∈ AMap.keys s.pools := (mem_keys_iff _ _).mpr ⟨_, hc⟩
      have := hall c ((mem_sortDedup _ _).mpr hck)
      have e2 := get?_seqOf hck
      rw [hc] at e2
      have e3 : s.seq - 1 = seqOf s c := Option.some.inj e2
      omega
  simp only [hmx, ne_eq, not_true_eq_false, if_false, hg.parOk, Bool.not_true, Bool.false_eq_true]


/-! ### import -/

theorem poolEntry_mk (std cp : Denom) (n : Nat) : poolEntry std (mkPool std cp n) = some (cp, n) := by
  unfold poolEntry
  simp [mkPool, lptSeq_lptDenom]

theorem importPools_export (std : Denom) (f : Denom → Nat) : ∀ (cps : List Denom) (m : AMap Denom Nat),
    importPools std (cps.map fun cp => mkPool std cp (f cp)) m
      = some (cps.foldl (fun acc cp => AMap.set acc cp (f cp)) m)
  | [], m => rfl
  | cp :: t, m => by
    simp only [List.map_cons, importPools, poolEntry_mk, List.foldl_cons]
    exact importPools_export std f t _

theorem keys_append' (m1 m2 : AMap Denom Nat) : AMap.keys (m1 ++ m2) = AMap.keys m1 ++ AMap.keys m2 := by
  simp [AMap.keys]

/-- writing fresh, pairwise distinct keys appends the bindings in order -/
theorem foldl_set_fresh' (f : Denom → Nat) : ∀ (cps : List Denom) (m0 : AMap Denom Nat),
    cps.Nodup → (∀ cp ∈ cps, cp ∉ AMap.keys m0) →
    cps.foldl (fun acc cp => AMap.set acc cp (f cp)) m0 = m0 ++ cps.map (fun cp => (cp, f cp))
  | [], m0, _, _ => by simp
  | x :: t, m0, hn, hf => by
    rw [List.nodup_cons] at hn
    simp only [List.foldl_cons]
    rw [set_of_not_mem m0 _ _ (hf x (by simp))]
    rw [foldl_set_fresh' f t _ hn.2]
    · simp
    · intro y hy
      rw [keys_append', List.mem_append, not_or]
      refine ⟨hf y (List.mem_cons_of_mem _ hy), ?_⟩
      simp only [AMap.keys, List.map_cons, List.map_nil, List.mem_singleton]
      intro e
      exact hn.1 (e ▸ hy)

/-- the registry after `InitGenesis(ExportGenesis(s))`: the same bindings in store-key order -/
def reimportPools (s : State) : AMap Denom Nat :=
  (sortDedup (AMap.keys s.pools)).map fun cp => (cp, seqOf s cp)

/-- the state after the round trip: only the order of the registry list can differ -/
def reimport (s : State) : State := { s with pools := reimportPools s }

theorem keys_reimportPools (s : State) : AMap.keys (reimportPools s) = sortDedup (AMap.keys s.pools) := by
  simp [reimportPools, AMap.keys, List.map_map, Function.comp_def]

theorem nodup_reimportPools (s : State) : NodupKeys (reimportPools s) := by
  unfold NodupKeys; rw [keys_reimportPools]; exact nodup_sortDedup _

/-- `GetPool` answers the same after the round trip -/
theorem get?_reimportPools (s : State) (cp : Denom) :
    AMap.get? (reimportPools s) cp = AMap.get? s.pools cp := by
  by_cases hk : cp ∈ AMap.keys s.pools
  · rw [get?_seqOf hk]
    apply get?_of_mem (nodup_reimportPools s)
    unfold reimportPools
    exact List.mem_map.mpr ⟨cp, (mem_sortDedup _ _).mpr hk, rfl⟩
  · rw [(get?_eq_none_iff _ _).mpr hk]
    apply (get?_eq_none_iff _ _).mpr
    rw [keys_reimportPools, mem_sortDedup]; exact hk

/-- **import succeeds** on the exported document, and yields `reimport s` -/
theorem import_export (s : State) (hw : RegWF s) (hg : GenWF s) (hr : s.seq ≤ 18446744073709551616) :
    importGenesis s (exportGenesis s) = .ok (reimport s) := by
  unfold importGenesis
  rw [validate_export s hw hg hr]
  simp only [exportGenesis, exportPools_eq]
  rw [importPools_export, foldl_set_fresh' _ _ _ (nodup_sortDedup _) (by simp [AMap.keys])]
  rfl

/-! ### what the round trip preserves -/

theorem findByLpt_none {m : AMap Denom Nat} {d : Denom} (h : findByLpt m d = none) :
    ∀ cp n, (cp, n) ∈ m → lptDenom n ≠ d := by
  induction m with
  | nil => intro cp n hm; cases hm
  | cons hd t ih =>
    obtain ⟨c, k⟩ := hd
    simp only [findByLpt] at h
    split at h
    · cases h
    · rename_i hne
      intro cp n hm
      rcases List.mem_cons.mp hm with e | hm
      · cases e; exact hne
      · exact ih h cp n hm

/-- `GetPoolByLptDenom` is determined by the bindings (keys distinct, one counterparty per sequence) -/
theorem findByLpt_congr {m1 m2 : AMap Denom Nat} (n1 : NodupKeys m1) (n2 : NodupKeys m2)
    (inj2 : ∀ c c' n, AMap.get? m2 c = some n → AMap.get? m2 c' = some n → c = c')
    (h : ∀ cp, AMap.get? m1 cp = AMap.get? m2 cp) (d : Denom) : findByLpt m1 d = findByLpt m2 d := by
  cases h1 : findByLpt m1 d with
  | none =>
    cases h2 : findByLpt m2 d with
    | none => rfl
    | some e =>
      obtain ⟨c, n⟩ := e
      obtain ⟨hl, hm⟩ := findByLpt_some h2
      have hg2 := get?_of_mem n2 hm
      rw [← h] at hg2
      exact absurd hl (findByLpt_none h1 c n (mem_of_get? hg2))
  | some e =>
    obtain ⟨c, n⟩ := e
    obtain ⟨hl, hm⟩ := findByLpt_some h1
    have hg2 : AMap.get? m2 c = some n := by rw [← h]; exact get?_of_mem n1 hm
    cases h2 : findByLpt m2 d with
    | none => exact absurd hl (findByLpt_none h2 c n (mem_of_get? hg2))
    | some e' =>
      obtain ⟨c', n'⟩ := e'
      obtain ⟨hl', hm'⟩ := findByLpt_some h2
      have hn : n' = n := lptDenom_inj (hl'.trans hl.symm)
      subst hn
      have := inj2 c c' n' hg2 (get?_of_mem n2 hm')
      subst this; rfl

theorem seqOf_reimport (s : State) (cp : Denom) : seqOf (reimport s) cp = seqOf s cp := by
  unfold seqOf AMap.getD reimport
  simp only [get?_reimportPools]

/-- **fixpoint**: exporting the re-imported state gives the same document -/
theorem export_reimport (s : State) : exportGenesis (reimport s) = exportGenesis s := by
  unfold exportGenesis
  have hp : exportPools (reimport s) = exportPools s := by
    rw [exportPools_eq, exportPools_eq]
    have hk : AMap.keys (reimport s).pools = sortDedup (AMap.keys s.pools) := keys_reimportPools s
    rw [hk, sortDedup_idem_of_sorted (sorted_sortDedup _)]
    apply List.map_congr_left
    intro cp _
    rw [seqOf_reimport]; rfl
  rw [hp]; rfl

theorem regwf_reimport {s : State} (hw : RegWF s) : RegWF (reimport s) := by
  constructor
  · intro cp n hgt; exact hw.cpne cp n (by rw [← get?_reimportPools]; exact hgt)
  · intro cp n hgt; exact hw.lt cp n (by rw [← get?_reimportPools]; exact hgt)
  · intro c c' n h1 h2
    exact hw.inj c c' n (by rw [← get?_reimportPools]; exact h1) (by rw [← get?_reimportPools]; exact h2)
  · intro cp n hm; exact get?_of_mem (nodup_reimportPools s) hm

theorem genwf_reimport {s : State} (hg : GenWF s) : GenWF (reimport s) := by
  refine ⟨nodup_reimportPools s, hg.stdOk, ?_, hg.parOk, hg.seqPos, ?_, ?_⟩
  · intro cp hc
    have : cp ∈ AMap.keys (reimportPools s) := hc
    rw [keys_reimportPools, mem_sortDedup] at this
    exact hg.cpOk cp this
  · intro cp n hgt; exact hg.nPos cp n (by rw [← get?_reimportPools]; exact hgt)
  · intro n h1 h2
    obtain ⟨c, hc⟩ := hg.surj n h1 h2
    exact ⟨c, by show AMap.get? (reimportPools s) c = some n; rw [get?_reimportPools]; exact hc⟩


/-! ### the next pool creation does not see the round trip -/

theorem deductFee_withPools (s : State) (P : AMap Denom Nat) (sender : Addr) :
    deductFee { s with pools := P } sender =
      match deductFee s sender with
      | .ok s1 => .ok { s1 with pools := P }
      | .error e => .error e := by
  unfold deductFee
  by_cases hc : s.params.pcfAmt * s.params.tax < pow2_315
  · simp only [hc, not_true_eq_false, if_false]
    cases h1 : s.bank.send sender modAddr s.params.pcfDenom s.params.pcfAmt with
    | none => rfl
    | some b1 =>
      simp only []
      cases h2 : b1.send modAddr fcAddr s.params.pcfDenom (s.params.pcfAmt * s.params.tax / D) with
      | none => rfl
      | some b2 =>
        simp only []
        cases h3 : burnCk b2 modAddr s.params.pcfDenom (s.params.pcfAmt - s.params.pcfAmt * s.params.tax / D) with
        | error e => rfl
        | ok b3 => rfl
  · simp only [hc, not_false_eq_true, if_true]; rfl

/-- `addLiquidity` reads only the bank and the standard denom -/
theorem addLiq_frame (s sX : State) (hb : sX.bank = s.bank) (hs : sX.std = s.std) (sender : Addr) (n : Nat)
    (cp : Denom) (dS t m : Nat) :
    addLiq sX sender n cp dS t m =
      match addLiq s sender n cp dS t m with
      | .ok (u, r) => .ok ({ sX with bank := u.bank }, r)
      | .error e => .error e := by
  obtain ⟨bk, sd, pa, po, sq, nw, bl⟩ := sX
  simp only at hb hs
  subst hb; subst hs
  unfold addLiq
  simp only []
  cases h1 : s.bank.send sender (poolAddr n) s.std dS with
  | none => rfl
  | some b1 =>
    simp only []
    cases h2 : b1.send sender (poolAddr n) cp t with
    | none => rfl
    | some b2 => rfl

end Irismod.Proofs.CoinswapGenesis
