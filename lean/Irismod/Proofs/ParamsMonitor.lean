/-
Soundness of the C16 monitor with respect to the model.  The driver evaluates exactly
`Spec.C16.stepFails st op obs` on every line and advances `st` with `Spec.C16.track`.  Here:
on the model's own observation of any operation, from any store whose sets are valid,

* update / genesis / validate / reset lines raise NO clause at all (`…_sound`);
* a battery line raises a clause only together with a recorded finding class, i.e. an abort the
  model predicts under a validated set is always one of F-par-1/2/3 (`battery_sound`: no class ⇒
  the battery's fragments do not abort);
* the tracked store equals the model's next store and stays valid, so the statements lift to
  whole traces (`monitor_sound_trace`).

So a monitor failure without a class on an implementation trace is a model/implementation
disagreement or a genuine failure of the property, never an artefact of the monitor.
-/
import Irismod.Props.C16

set_option linter.unusedTactic false

namespace Irismod.Proofs.ParamsMonitor
open Irismod Irismod.Sdk Irismod.Params Irismod.Spec.C16 Irismod.Props.C16

/-! ## small facts about the projections -/

theorem modOf_getMod (s : Store) (m : Mod) : modOf (getMod s m) = m := by cases m <;> rfl

theorem storeValid_getMod {s : Store} (hs : StoreValid s) (m : Mod) : validateAny (getMod s m) = .ok () := by
  obtain ⟨h1, h2, h3, h4, h5⟩ := hs
  cases m <;> assumption

theorem resWord_error_ne_ok {α : Type} (e : Err) : (resWord (Except.error e : Res α) == "ok") = false := by
  cases e <;> simp [resWord]

theorem resWord_map {α β : Type} (f : α → β) (r : Res α) : resWord (r.map f) = resWord r := by
  cases r with
  | ok a => rfl
  | error e => cases e <;> rfl

theorem verdict_ok : verdict (.ok ()) = "valid" := rfl

/-! ## update lines -/

theorem updateFails_refused (pre p : AnyParams) (sender cls : String) (hc : (cls == "ok") = false)
    (hv : validateAny pre = .ok ()) :
    updateFails pre sender p cls pre (verdict (validateAny pre)) = [] := by
  simp [updateFails, isValid, hv, verdict, hc]

theorem updateFails_accepted (pre p post : AnyParams) (hpost : post = normAny p)
    (hv : validateAny post = .ok ()) :
    updateFails pre authority p "ok" post (verdict (validateAny post)) = [] := by
  subst hpost
  simp [updateFails, isValid, hv, verdict]

/-- per module: the model's observation of an update, in terms of `updateParams` -/
theorem update_obs_sound {P : Type} (validate : P → Res Unit) (norm : P → P) (inj : P → AnyParams)
    (pre : AnyParams) (sender : String) (q : P)
    (hpre : validateAny pre = .ok ())
    (hnorm : ∀ r, validate r = .ok () → validateAny (inj (norm r)) = .ok ())
    (hna : normAny (inj q) = inj (norm q)) :
    updateFails pre sender (inj q)
      (resWord (updateParams validate norm authority sender q))
      (match updateParams validate norm authority sender q with | .ok r => inj r | .error _ => pre)
      (verdict (validateAny (match updateParams validate norm authority sender q with
        | .ok r => inj r | .error _ => pre))) = [] := by
  cases hu : updateParams validate norm authority sender q with
  | error e => exact updateFails_refused pre (inj q) sender _ (resWord_error_ne_ok e) hpre
  | ok r =>
    obtain ⟨hs, hv, rfl⟩ := (update_accepted_iff _ _ _ _ _ _).1 hu
    subst hs
    exact updateFails_accepted pre (inj q) _ hna.symm (hnorm q hv)

theorem update_sound (s : Store) (hs : StoreValid s) (sender : String) (p : AnyParams) :
    stepFails s (.update sender p) (modelObs s (.update sender p)) = [] := by
  have hpre := storeValid_getMod hs (modOf p)
  simp only [stepFails, modelObs, modOf_getMod, ne_eq, not_true_eq_false, if_false]
  cases p with
  | coinswap q =>
    have := update_obs_sound coinswapValidate id .coinswap _ sender q hpre (fun r h => h) rfl
    simp only [applyOp, stepUpdate, getMod, modOf, resWord_map] at this ⊢
    cases hu : updateParams coinswapValidate id authority sender q <;> simp [hu, Except.map, untagged] at this ⊢ <;> exact this
  | farm q =>
    have := update_obs_sound farmValidate farmNorm .farm _ sender q hpre
      (fun r h => farmValidateWith_norm h) rfl
    simp only [applyOp, stepUpdate, getMod, modOf, resWord_map] at this ⊢
    cases hu : updateParams farmValidate farmNorm authority sender q <;> simp [hu, Except.map, untagged] at this ⊢ <;> exact this
  | htlc q =>
    have := update_obs_sound htlcValidate id .htlc _ sender q hpre (fun r h => h) rfl
    simp only [applyOp, stepUpdate, getMod, modOf, resWord_map] at this ⊢
    cases hu : updateParams htlcValidate id authority sender q <;> simp [hu, Except.map, untagged] at this ⊢ <;> exact this
  | service q =>
    have := update_obs_sound serviceValidate id .service _ sender q hpre (fun r h => h) rfl
    simp only [applyOp, stepUpdate, getMod, modOf, resWord_map] at this ⊢
    cases hu : updateParams serviceValidate id authority sender q <;> simp [hu, Except.map, untagged] at this ⊢ <;> exact this
  | token q =>
    have := update_obs_sound tokenValidate id .token _ sender q hpre (fun r h => h) rfl
    simp only [applyOp, stepUpdate, getMod, modOf, resWord_map] at this ⊢
    cases hu : updateParams tokenValidate id authority sender q <;> simp [hu, Except.map, untagged] at this ⊢ <;> exact this

/-! ## genesis lines -/

theorem genesisFails_refused (pv ig : String) (post : AnyParams) (h : (ig == "ok") = false) :
    genesisFails pv ig post = [] := by
  simp [genesisFails, h]

theorem genesisFails_imported (post : AnyParams) (hv : validateAny post = .ok ()) :
    genesisFails "valid" "ok" post = [] := by
  simp [genesisFails, isValid, hv]

theorem genesis_obs_sound {P : Type} (vg validate : P → Res Unit) (norm : P → P) (extra : P → Bool)
    (inj : P → AnyParams) (cur : AnyParams) (q : P)
    (hnorm : ∀ r, validate r = .ok () → validateAny (inj (norm r)) = .ok ())
    (hval : validateAny (inj q) = validate q) :
    genesisFails (verdict (validateAny (inj q)))
      (resWord (importGenesis vg validate norm extra q))
      (match importGenesis vg validate norm extra q with | .ok r => inj r | .error _ => cur) = [] := by
  cases hi : importGenesis vg validate norm extra q with
  | error e => exact genesisFails_refused _ _ _ (resWord_error_ne_ok e)
  | ok r =>
    obtain ⟨hv, rfl⟩ := genesis_stored_is_valid _ _ _ _ _ _ hi
    rw [hval, hv]
    exact genesisFails_imported _ (hnorm q hv)

theorem genesis_sound (s : Store) (p : AnyParams) :
    stepFails s (.genesis p) (modelObs s (.genesis p)) = [] := by
  cases p with
  | coinswap q =>
    have := genesis_obs_sound coinswapValidate coinswapValidate id (fun _ => true) .coinswap
      (getMod s .coinswap) q (fun r h => h) rfl
    simp only [stepFails, modelObs, genesisAny, resWord_map]
    cases hi : importGenesis coinswapValidate coinswapValidate id (fun _ => true) q <;>
      simp [hi, Except.map, modOf, getMod, untagged] at this ⊢ <;>
      exact this
  | farm q =>
    have := genesis_obs_sound farmValidateGenesis farmValidate farmNorm (fun _ => true) .farm
      (getMod s .farm) q (fun r h => farmValidateWith_norm h) rfl
    simp only [stepFails, modelObs, genesisAny, resWord_map]
    cases hi : importGenesis farmValidateGenesis farmValidate farmNorm (fun _ => true) q <;>
      simp [hi, Except.map, modOf, getMod, untagged] at this ⊢ <;>
      exact this
  | htlc q =>
    have := genesis_obs_sound htlcValidate htlcValidate id (fun _ => true) .htlc
      (getMod s .htlc) q (fun r h => h) rfl
    simp only [stepFails, modelObs, genesisAny, resWord_map]
    cases hi : importGenesis htlcValidate htlcValidate id (fun _ => true) q <;>
      simp [hi, Except.map, modOf, getMod, untagged] at this ⊢ <;>
      exact this
  | service q =>
    have := genesis_obs_sound serviceValidate serviceValidate id (fun _ => true) .service
      (getMod s .service) q (fun r h => h) rfl
    simp only [stepFails, modelObs, genesisAny, resWord_map]
    cases hi : importGenesis serviceValidate serviceValidate id (fun _ => true) q <;>
      simp [hi, Except.map, modOf, getMod, untagged] at this ⊢ <;>
      exact this
  | token q =>
    have := genesis_obs_sound tokenValidate tokenValidate id (tokenGenesisExtra baseSymbols) .token
      (getMod s .token) q (fun r h => h) rfl
    simp only [stepFails, modelObs, genesisAny, resWord_map]
    cases hi : importGenesis tokenValidate tokenValidate id (tokenGenesisExtra baseSymbols) q <;>
      simp [hi, Except.map, modOf, getMod, untagged] at this ⊢ <;>
      exact this

/-! ## reset and validate lines; the tracked store -/

theorem reset_sound (s : Store) : stepFails s .reset (modelObs s .reset) = [] := by
  obtain ⟨h1, h2, h3, h4, h5⟩ := defaults_valid
  simp [stepFails, modelObs, allMods, getMod, isValid, validateAny, h1, h2, h3, h4, h5]

theorem validate_sound (s : Store) (p : AnyParams) :
    stepFails s (.validate p) (modelObs s (.validate p)) = [] := rfl

/-! ## direct updates (message server without the router's `ValidateBasic` pre-check) -/

theorem updateParams_nonauth {P : Type} (validate : P → Res Unit) (norm : P → P) (sender : String) (q : P)
    (h : sender ≠ authority) : ∃ e, updateParams validate norm authority sender q = .error e := by
  unfold updateParams
  cases validate q with
  | error e => exact ⟨e, rfl⟩
  | ok _ => exact ⟨.reject, by simp [h]⟩

theorem stepUpdate_nonauth (s : Store) (sender : String) (p : AnyParams) (h : sender ≠ authority) :
    ∃ e, stepUpdate s sender p = .error e := by
  cases p with
  | coinswap q => obtain ⟨e, he⟩ := updateParams_nonauth coinswapValidate id sender q h; exact ⟨e, by simp [stepUpdate, he, Except.map]⟩
  | farm q => obtain ⟨e, he⟩ := updateParams_nonauth farmValidate farmNorm sender q h; exact ⟨e, by simp [stepUpdate, he, Except.map]⟩
  | htlc q => obtain ⟨e, he⟩ := updateParams_nonauth htlcValidate id sender q h; exact ⟨e, by simp [stepUpdate, he, Except.map]⟩
  | service q => obtain ⟨e, he⟩ := updateParams_nonauth serviceValidate id sender q h; exact ⟨e, by simp [stepUpdate, he, Except.map]⟩
  | token q => obtain ⟨e, he⟩ := updateParams_nonauth tokenValidate id sender q h; exact ⟨e, by simp [stepUpdate, he, Except.map]⟩

theorem applyOp_nonauth (s : Store) (sender : String) (p : AnyParams) (h : sender ≠ authority) :
    applyOp s ⟨sender, p⟩ = s := by
  obtain ⟨e, he⟩ := stepUpdate_nonauth s sender p h
  simp [applyOp, he]

/-- the handler-level path raises no clause either: for the authority it is the transaction path,
    for anyone else a rejection that stores nothing -/
theorem updateDirect_sound (s : Store) (hs : StoreValid s) (sender : String) (p : AnyParams) :
    stepFails s (.updateDirect sender p) (modelObs s (.updateDirect sender p)) = [] := by
  by_cases h : sender = authority
  · have e : modelObs s (.updateDirect sender p) = modelObs s (.update sender p) := by
      simp [modelObs, stepUpdateDirect, h]
    rw [e]
    exact update_sound s hs sender p
  · have hpre := storeValid_getMod hs (modOf p)
    simp only [stepFails, modelObs, modOf_getMod, ne_eq, not_true_eq_false, if_false,
      applyOp_nonauth s sender p h, stepUpdateDirect, h, not_false_eq_true, if_true, resWord]
    have := updateFails_refused (getMod s (modOf p)) p sender "rej" (by decide) hpre
    simp [untagged, this]

theorem setMod_applyOp (s : Store) (sender : String) (p : AnyParams) :
    setMod s (getMod (applyOp s ⟨sender, p⟩) (modOf p)) = applyOp s ⟨sender, p⟩ := by
  cases p with
  | coinswap q =>
    cases hu : updateParams coinswapValidate id authority sender q <;>
      simp [applyOp, stepUpdate, hu, Except.map, getMod, setMod, modOf]
  | farm q =>
    cases hu : updateParams farmValidate farmNorm authority sender q <;>
      simp [applyOp, stepUpdate, hu, Except.map, getMod, setMod, modOf]
  | htlc q =>
    cases hu : updateParams htlcValidate id authority sender q <;>
      simp [applyOp, stepUpdate, hu, Except.map, getMod, setMod, modOf]
  | service q =>
    cases hu : updateParams serviceValidate id authority sender q <;>
      simp [applyOp, stepUpdate, hu, Except.map, getMod, setMod, modOf]
  | token q =>
    cases hu : updateParams tokenValidate id authority sender q <;>
      simp [applyOp, stepUpdate, hu, Except.map, getMod, setMod, modOf]

/-- the monitor's tracked store after a model observation is the model's next store -/
theorem track_model (s : Store) (op : MonOp) : track s op (modelObs s op) = modelNext s op := by
  cases op with
  | reset => rfl
  | validate p => rfl
  | genesis p => rfl
  | battery m => rfl
  | updateDirect sender p =>
    simp only [track, modelObs, modelNext, modOf_getMod, if_true]
    exact setMod_applyOp s sender p
  | update sender p =>
    simp only [track, modelObs, modelNext, modOf_getMod, if_true]
    cases p with
    | coinswap q =>
      cases hu : updateParams coinswapValidate id authority sender q <;>
        simp [applyOp, stepUpdate, hu, Except.map, getMod, setMod, modOf]
    | farm q =>
      cases hu : updateParams farmValidate farmNorm authority sender q <;>
        simp [applyOp, stepUpdate, hu, Except.map, getMod, setMod, modOf]
    | htlc q =>
      cases hu : updateParams htlcValidate id authority sender q <;>
        simp [applyOp, stepUpdate, hu, Except.map, getMod, setMod, modOf]
    | service q =>
      cases hu : updateParams serviceValidate id authority sender q <;>
        simp [applyOp, stepUpdate, hu, Except.map, getMod, setMod, modOf]
    | token q =>
      cases hu : updateParams tokenValidate id authority sender q <;>
        simp [applyOp, stepUpdate, hu, Except.map, getMod, setMod, modOf]

theorem modelNext_valid (s : Store) (hs : StoreValid s) (op : MonOp) : StoreValid (modelNext s op) := by
  cases op with
  | reset => exact defaults_valid
  | update sender p => exact applyOp_preserves_valid s ⟨sender, p⟩ hs
  | updateDirect sender p => exact applyOp_preserves_valid s ⟨sender, p⟩ hs
  | validate p => exact hs
  | genesis p => exact hs
  | battery m => exact hs

/-! ## battery fragments per module -/

theorem isPanic_of_noabort {α : Type} {r : Res α} (h : NoAbort r) : isPanic r = false := by
  cases r with
  | ok a => rfl
  | error e =>
    cases e with
    | reject => rfl
    | panic k => exact absurd rfl (h k)

theorem not_big {i : Option Int} {a : Int} (h : big i = false) (hi : i = some a) : a < pow2_128 := by
  subst hi; simp [big] at h; omega

theorem abortClass_none_coinswap {p : CoinswapParams} (h : abortClass (.coinswap p) = none) :
    (Gen.Handlers.coinswapValidatesFeeDenom = true ∨ validDenom p.poolCreationFee.denom = true) ∧
    big p.poolCreationFee.amount = false := by
  simp only [abortClass, extremeMagnitude] at h
  by_cases h1 : (!Gen.Handlers.coinswapValidatesFeeDenom && !validDenom p.poolCreationFee.denom) = true
  · simp [h1] at h
  · by_cases h2 : big p.poolCreationFee.amount = true
    · simp [h1, h2] at h
    · refine ⟨?_, by simpa using h2⟩
      cases hc : Gen.Handlers.coinswapValidatesFeeDenom
      · right; simpa [hc] using h1
      · left; rfl

theorem battery_coinswap (p : CoinswapParams) (hv : coinswapValidate p = .ok ())
    (hc : abortClass (.coinswap p) = none) : batteryCoinswap p = [] := by
  obtain ⟨hden, hbig⟩ := abortClass_none_coinswap hc
  have hw := coinswapValidateWith_ok hv
  obtain ⟨_, ⟨a, ha, ha0⟩, _, _, hfact⟩ := hw
  have hd : validDenom p.poolCreationFee.denom = true := by
    rcases hden with h | h
    · exact hfact h
    · exact h
  have hb : ∀ a', p.poolCreationFee.amount = some a' → a' < pow2_255 := by
    intro a' ha'
    have := not_big hbig ha'
    unfold pow2_128 at this; unfold pow2_255; omega
  obtain ⟨t, b, hs, _⟩ := coinswap_pool_creation_noabort_partial _ p hv hd hb
  have hprices := coinswap_prices_noabort_bounded p hv
  have h1 := isPanic_of_noabort ((hprices 1000 1500000 1500000 (by decide) (by decide) (by decide)).1 (by decide))
  have h2 := isPanic_of_noabort ((hprices 500 1500000 1500000 (by decide) (by decide) (by decide)).2 (by decide))
  have h0 : isPanic (poolCreationFee p.poolCreationFee p.taxRate) = false := by rw [hs]; rfl
  simp [batteryCoinswap, h0, h1, h2]

theorem battery_farm (p : FarmParams) (hv : farmValidate p = .ok ())
    (hc : abortClass (.farm p) = none) : batteryFarm p = [] := by
  simp only [abortClass, extremeMagnitude] at hc
  by_cases h1 : (!Gen.Handlers.farmValidatesTaxRate && decOutside01 p.taxRate) = true
  · simp [h1] at hc
  · by_cases h2 : big p.poolCreationFee.amount = true
    · simp [h1, h2] at hc
    · have hbig : big p.poolCreationFee.amount = false := by simpa using h2
      have hb : ∀ a', p.poolCreationFee.amount = some a' → a' < pow2_255 := by
        intro a' ha'
        have := not_big hbig ha'
        unfold pow2_128 at this; unfold pow2_255; omega
      have hrate : ∃ r, p.taxRate = some r ∧ 0 ≤ r.raw ∧ r.raw ≤ precision := by
        cases hf : Gen.Handlers.farmValidatesTaxRate
        · simp only [hf, Bool.not_false, Bool.true_and] at h1
          unfold decOutside01 at h1
          cases ht : p.taxRate with
          | none => simp [ht] at h1
          | some x => simp [ht] at h1; exact ⟨x, rfl, by omega, by omega⟩
        · unfold farmValidate at hv
          rw [hf] at hv
          obtain ⟨_, r, hr, hr0, hr1⟩ := farmValidateWith_true_ok hv
          exact ⟨r, hr, by omega, by omega⟩
      obtain ⟨r, hr, hr0, hr1⟩ := hrate
      have := isPanic_of_noabort (farm_noabort_partial _ _ p 1 hv r hr hr0 hr1 hb)
      simp [batteryFarm, this]

theorem battery_service (p : ServiceParams) (hv : serviceValidate p = .ok ())
    (hc : abortClass (.service p) = none) : batteryService p = [] := by
  simp only [abortClass, extremeMagnitude] at hc
  by_cases h2 : (p.minDeposit.any (fun c => big c.amount) || big (some p.minDepositMultiple)) = true
  · simp [h2] at hc
  · have hm : p.minDepositMultiple < pow2_128 := by
      simp only [Bool.or_eq_true, not_or] at h2
      have := h2.2
      simp [big] at this; omega
    obtain ⟨_, hm0, _, _, _, _, _, _, hd⟩ := serviceValidate_ok hv
    have hfr := service_fragments_noabort p hv
    have h1 := isPanic_of_noabort ((hfr 10 (by decide)).2.2.2 (by decide)).1
    have h3 := isPanic_of_noabort ((hfr 100000000000000000000 (by decide)).2.2.2 (by decide)).2
    have hmul : I256.mul 10 p.minDepositMultiple = some (10 * p.minDepositMultiple) := by
      unfold I256.mul
      apply chkInt_of_bound
      · omega
      · unfold pow2_128 at hm; unfold pow2_256; omega
    have h0 : isPanic (minDepositBase p 10) = false := by
      have : ¬ (10 * p.minDepositMultiple < 0) := by omega
      simp [minDepositBase, hmul, hd, this, isPanic]
    simp [batteryService, h0, h1, h3]

theorem regOk_battery : RegOk batteryReg := by
  intro e he
  simp [batteryReg] at he
  rcases he with rfl | rfl <;> exact ⟨by decide, by decide⟩

theorem battery_token (p : TokenParams) (hv : tokenValidate p = .ok ())
    (hc : abortClass (.token p) = none) : batteryToken p = [] := by
  simp only [abortClass, extremeMagnitude] at hc
  by_cases h1 : (!Gen.Handlers.tokenValidatesFeeDenom && !validDenom p.issueTokenBaseFee.denom) = true
  · simp [h1] at hc
  · by_cases h2 : big p.issueTokenBaseFee.amount = true
    · simp [h1, h2] at hc
    · have hbig : big p.issueTokenBaseFee.amount = false := by simpa using h2
      obtain ⟨_, _, _, hfact⟩ := tokenValidateWith_ok hv
      have hd : validDenom p.issueTokenBaseFee.denom = true := by
        cases hf : Gen.Handlers.tokenValidatesFeeDenom
        · simpa [hf] using h1
        · exact hfact hf
      have hb : ∀ a, p.issueTokenBaseFee.amount = some a → a < pow2_128 := fun a ha => not_big hbig ha
      have h5 := token_fee_paths_noabort_partial _ p batteryReg factor5 hv regOk_battery (by decide) hd hb
      have h3 := token_fee_paths_noabort_partial _ p batteryReg factor3 hv regOk_battery (by decide) hd hb
      simp [batteryToken, isPanic_of_noabort h5.1, isPanic_of_noabort h3.1, isPanic_of_noabort h5.2]

theorem incrementIncoming_ok {a : AssetParam} {s s' : Supply} {amt : Int}
    (h : incrementIncoming a s amt = .ok s') : s' = { s with incoming := s.incoming + amt } := by
  unfold incrementIncoming at h
  repeat' split at h
  all_goals first
    | (cases h; done)
    | (rename_i i2 hi; cases h; rw [addP_val hi])

theorem htltIncoming_ok {a : AssetParam} {s s' : Supply} {amt : Int}
    (h : htltIncoming a s amt = .ok s') : s' = { s with incoming := s.incoming + amt } := by
  unfold htltIncoming at h
  repeat' split at h
  all_goals first
    | (cases h; done)
    | exact incrementIncoming_ok h

theorem incrementCurrent_ok {a : AssetParam} {s s' : Supply} {amt : Int}
    (h : incrementCurrent a s amt = .ok s') :
    s'.incoming = s.incoming ∧ s'.outgoing = s.outgoing ∧ s'.current = s.current + amt ∧
    (s'.timeLimitedCurrent = s.timeLimitedCurrent ∨ s'.timeLimitedCurrent = s.timeLimitedCurrent + amt) := by
  unfold incrementCurrent at h
  repeat' split at h
  all_goals first
    | (cases h; done)
    | (injection h with h; subst h
       have hc := addP_val (by assumption : addP s.current amt = Except.ok _)
       first
         | (have ht := addP_val (by assumption : addP s.timeLimitedCurrent amt = Except.ok _)
            simp [hc, ht])
         | simp [hc])

/-- all counters in `[0, n·2^128]` -/
def SmallN (n : Int) (s : Supply) : Prop :=
  (0 ≤ s.incoming ∧ s.incoming ≤ n * pow2_128) ∧ (0 ≤ s.outgoing ∧ s.outgoing ≤ n * pow2_128) ∧
  (0 ≤ s.current ∧ s.current ≤ n * pow2_128) ∧ (0 ≤ s.timeLimitedCurrent ∧ s.timeLimitedCurrent ≤ n * pow2_128)

theorem SmallN.small {n : Int} {s : Supply} (h : SmallN n s) (hn : n ≤ 3) : SupplySmall s := by
  obtain ⟨⟨a0, a1⟩, ⟨b0, b1⟩, ⟨c0, c1⟩, ⟨d0, d1⟩⟩ := h
  have : n * pow2_128 ≤ 3 * pow2_128 := Int.mul_le_mul_of_nonneg_right hn (by unfold pow2_128; omega)
  have hp : (0 : Int) < pow2_128 := by unfold pow2_128; omega
  exact ⟨⟨a0, by omega⟩, ⟨b0, by omega⟩, ⟨c0, by omega⟩, ⟨d0, by omega⟩⟩

theorem SmallN.mono {n : Int} {s : Supply} (h : SmallN n s) : SmallN (n + 1) s := by
  obtain ⟨⟨a0, a1⟩, ⟨b0, b1⟩, ⟨c0, c1⟩, ⟨d0, d1⟩⟩ := h
  have : (n + 1) * pow2_128 = n * pow2_128 + pow2_128 := by ring
  have hp : (0 : Int) ≤ pow2_128 := by unfold pow2_128; omega
  exact ⟨⟨a0, by omega⟩, ⟨b0, by omega⟩, ⟨c0, by omega⟩, ⟨d0, by omega⟩⟩

theorem SmallN.incoming {n : Int} {a : AssetParam} {s s' : Supply} {amt : Int} (h : SmallN n s)
    (hamt : 0 ≤ amt ∧ amt < pow2_128) (hok : htltIncoming a s amt = .ok s') : SmallN (n + 1) s' := by
  rw [htltIncoming_ok hok]
  obtain ⟨⟨a0, a1⟩, ⟨b0, b1⟩, ⟨c0, c1⟩, ⟨d0, d1⟩⟩ := h
  have : (n + 1) * pow2_128 = n * pow2_128 + pow2_128 := by ring
  exact ⟨⟨by simp only; omega, by simp only; omega⟩, ⟨b0, by simp only; omega⟩, ⟨c0, by simp only; omega⟩,
    ⟨d0, by simp only; omega⟩⟩

theorem SmallN.claim {n : Int} {a : AssetParam} {s s' : Supply} {amt : Int} (h : SmallN n s)
    (hamt : 0 ≤ amt ∧ amt < pow2_128) (hok : htltClaimIncoming a s amt = .ok s') : SmallN (n + 1) s' := by
  unfold htltClaimIncoming at hok
  split at hok
  · cases hok
  · rename_i hge
    obtain ⟨e1, e2, e3, e4⟩ := incrementCurrent_ok hok
    simp only at e1 e2 e3 e4
    obtain ⟨⟨a0, a1⟩, ⟨b0, b1⟩, ⟨c0, c1⟩, ⟨d0, d1⟩⟩ := h
    have : (n + 1) * pow2_128 = n * pow2_128 + pow2_128 := by ring
    refine ⟨⟨by omega, by omega⟩, ⟨by omega, by omega⟩, ⟨by omega, by omega⟩, ?_⟩
    rcases e4 with e4 | e4 <;> exact ⟨by omega, by omega⟩

theorem SmallN.after {n : Int} {s0 : Supply} (r : Res Supply) (h0 : SmallN n s0)
    (h : ∀ s', r = .ok s' → SmallN (n + 1) s') : SmallN (n + 1) (supplyAfter r s0) := by
  cases r with
  | ok s => exact h s rfl
  | error e => exact h0.mono

theorem battery_htlc (p : HtlcParams) (hv : htlcValidate p = .ok ())
    (hc : abortClass (.htlc p) = none) : batteryHtlc p = [] := by
  cases p with
  | nil => rfl
  | cons a rest =>
    have hok : AssetOk a := htlcValidate_ok hv a (List.mem_cons_self ..)
    have hnb : (big a.fixedFee || big a.minSwapAmount || big a.maxSwapAmount ||
        big a.supplyLimit.limit || big a.supplyLimit.timeBasedLimit) = false := by
      simp only [abortClass, extremeMagnitude] at hc
      by_cases h : (List.any (a :: rest) fun a => big a.fixedFee || big a.minSwapAmount || big a.maxSwapAmount ||
          big a.supplyLimit.limit || big a.supplyLimit.timeBasedLimit) = true
      · simp [h] at hc
      · simp only [List.any_cons, Bool.or_eq_true, not_or] at h
        simpa using h.1
    simp only [Bool.or_eq_false_iff] at hnb
    obtain ⟨⟨⟨⟨hbf, hbmn⟩, hbmx⟩, _⟩, _⟩ := hnb
    obtain ⟨mn, mx, hmn, hmx, hmn0, hmnmx⟩ := hok.swap
    obtain ⟨f, hf, hf0⟩ := hok.fee
    have hmxb := not_big hbmx hmx
    have hamt : 0 ≤ mx ∧ mx < pow2_128 := ⟨by omega, hmxb⟩
    have hfee : ∀ f' mn', a.fixedFee = some f' → a.minSwapAmount = some mn' → f' < pow2_128 ∧ mn' < pow2_128 :=
      fun f' mn' h1 h2 => ⟨not_big hbf h1, not_big hbmn h2⟩
    have z0 : SmallN 0 ({} : Supply) := by simp [SmallN]
    simp only [batteryHtlc, hmx]
    have n1 : isPanic (htltIncoming a {} mx) = false :=
      isPanic_of_noabort (htltIncoming_noabort hok (z0.small (by omega)) hamt)
    have z1 : SmallN (0 + 1) (supplyAfter (htltIncoming a {} mx) {}) :=
      SmallN.after _ z0 (fun s' h => z0.incoming hamt h)
    generalize htltIncoming a {} mx = r1 at n1 z1 ⊢
    generalize supplyAfter r1 {} = s1 at z1 ⊢
    have n2 : isPanic (htltIncoming a s1 mx) = false :=
      isPanic_of_noabort (htltIncoming_noabort hok (z1.small (by omega)) hamt)
    have z2 : SmallN (0 + 1 + 1) (supplyAfter (htltIncoming a s1 mx) s1) :=
      SmallN.after _ z1 (fun s' h => z1.incoming hamt h)
    generalize htltIncoming a s1 mx = r2 at n2 z2 ⊢
    generalize supplyAfter r2 s1 = s2 at z2 ⊢
    have n3 : isPanic (onlyAfter r1 (htltClaimIncoming a s2 mx)) = false := by
      cases r1 with
      | ok s => exact isPanic_of_noabort (htltClaimIncoming_noabort hok (z2.small (by omega)) hamt)
      | error e => rfl
    have z3 : SmallN (0 + 1 + 1 + 1) (supplyAfter (onlyAfter r1 (htltClaimIncoming a s2 mx)) s2) := by
      apply SmallN.after _ z2
      intro s' h
      cases r1 with
      | ok s => exact z2.claim hamt h
      | error e => cases h
    generalize onlyAfter r1 (htltClaimIncoming a s2 mx) = r3 at n3 z3 ⊢
    generalize supplyAfter r3 s2 = s3 at z3 ⊢
    have n4 : isPanic (htltOutgoing a s3 mx a.maxBlockLock) = false :=
      isPanic_of_noabort (htltOutgoing_noabort hok (z3.small (by omega)) hamt _ hfee)
    simp [n1, n2, n3, n4]


/-- all counters in `[0, n]` -/
def Tiny (n : Int) (s : Supply) : Prop :=
  (0 ≤ s.incoming ∧ s.incoming ≤ n) ∧ (0 ≤ s.outgoing ∧ s.outgoing ≤ n) ∧
  (0 ≤ s.current ∧ s.current ≤ n) ∧ (0 ≤ s.timeLimitedCurrent ∧ s.timeLimitedCurrent ≤ n)

theorem Tiny.small {n : Int} {s : Supply} (h : Tiny n s) (hn : n ≤ 1000000) : SupplySmall s := by
  obtain ⟨⟨a0, a1⟩, ⟨b0, b1⟩, ⟨c0, c1⟩, ⟨d0, d1⟩⟩ := h
  exact ⟨⟨a0, by unfold pow2_128; omega⟩, ⟨b0, by unfold pow2_128; omega⟩, ⟨c0, by unfold pow2_128; omega⟩,
    ⟨d0, by unfold pow2_128; omega⟩⟩

theorem Tiny.incoming {n : Int} {a : AssetParam} {s : Supply} {amt : Int} (h : Tiny n s) (hamt : 0 ≤ amt) :
    Tiny (n + amt) (supplyAfter (htltIncoming a s amt) s) := by
  obtain ⟨⟨a0, a1⟩, ⟨b0, b1⟩, ⟨c0, c1⟩, ⟨d0, d1⟩⟩ := h
  cases hr : htltIncoming a s amt with
  | error e => exact ⟨⟨a0, by simp only [supplyAfter]; omega⟩, ⟨b0, by simp only [supplyAfter]; omega⟩,
      ⟨c0, by simp only [supplyAfter]; omega⟩, ⟨d0, by simp only [supplyAfter]; omega⟩⟩
  | ok s' =>
    rw [htltIncoming_ok hr]
    exact ⟨⟨by simp only [supplyAfter]; omega, by simp only [supplyAfter]; omega⟩, ⟨b0, by simp only [supplyAfter]; omega⟩,
      ⟨c0, by simp only [supplyAfter]; omega⟩, ⟨d0, by simp only [supplyAfter]; omega⟩⟩

/-- the carry-over part: under a validated set without an extreme magnitude none of its operations aborts -/
theorem battery_htlc_carry (p : HtlcParams) (hv : htlcValidate p = .ok ())
    (hc : abortClass (.htlc p) = none) : batteryHtlcCarry p = [] := by
  cases p with
  | nil => rfl
  | cons a rest =>
    have hok : AssetOk a := htlcValidate_ok hv a (List.mem_cons_self ..)
    have hnb : (big a.fixedFee || big a.minSwapAmount || big a.maxSwapAmount ||
        big a.supplyLimit.limit || big a.supplyLimit.timeBasedLimit) = false := by
      simp only [abortClass, extremeMagnitude] at hc
      by_cases h : (List.any (a :: rest) fun a => big a.fixedFee || big a.minSwapAmount || big a.maxSwapAmount ||
          big a.supplyLimit.limit || big a.supplyLimit.timeBasedLimit) = true
      · simp [h] at hc
      · simp only [List.any_cons, Bool.or_eq_true, not_or] at h
        simpa using h.1
    simp only [Bool.or_eq_false_iff] at hnb
    obtain ⟨⟨⟨⟨hbf, hbmn⟩, _⟩, _⟩, _⟩ := hnb
    have hfee : ∀ f' mn', a.fixedFee = some f' → a.minSwapAmount = some mn' → f' < pow2_128 ∧ mn' < pow2_128 :=
      fun f' mn' h1 h2 => ⟨not_big hbf h1, not_big hbmn h2⟩
    have hp : (10000 : Int) < pow2_128 := by unfold pow2_128; omega
    have z0 : Tiny 5000 carrySupply := by simp only [Tiny, carrySupply]; omega
    have a3000 : (0 : Int) ≤ 3000 ∧ (3000 : Int) < pow2_128 := ⟨by omega, by omega⟩
    have a2500 : (0 : Int) ≤ 2500 ∧ (2500 : Int) < pow2_128 := ⟨by omega, by omega⟩
    have a7 : (0 : Int) ≤ 7 ∧ (7 : Int) < pow2_128 := ⟨by omega, by omega⟩
    have a1200 : (0 : Int) ≤ 1200 ∧ (1200 : Int) < pow2_128 := ⟨by omega, by omega⟩
    simp only [batteryHtlcCarry]
    have n1 : isPanic (htltClaimIncoming a carrySupply 3000) = false :=
      isPanic_of_noabort (htltClaimIncoming_noabort hok (z0.small (by omega)) a3000)
    -- after the two claims every counter is still non-negative and small
    have z2 : Tiny 8000 { supplyAfter (htltClaimIncoming a carrySupply 3000) carrySupply with
        outgoing := (supplyAfter (htltClaimIncoming a carrySupply 3000) carrySupply).outgoing - 1500,
        current := (supplyAfter (htltClaimIncoming a carrySupply 3000) carrySupply).current - 1500 } := by
      cases hr : htltClaimIncoming a carrySupply 3000 with
      | error e =>
        simp only [supplyAfter, Tiny, carrySupply]; omega
      | ok s' =>
        unfold htltClaimIncoming at hr
        split at hr
        · cases hr
        · obtain ⟨e1, e2, e3, e4⟩ := incrementCurrent_ok hr
          simp only [carrySupply] at e1 e2 e3 e4
          simp only [supplyAfter, Tiny, e1, e2, e3]
          rcases e4 with e4 | e4 <;> rw [e4] <;> omega
    generalize htltClaimIncoming a carrySupply 3000 = r1 at n1 z2 ⊢
    generalize supplyAfter r1 carrySupply = s1 at z2 ⊢
    generalize ({ s1 with outgoing := s1.outgoing - 1500, current := s1.current - 1500 } : Supply) = s2 at z2 ⊢
    have n3 : isPanic (htltIncoming a s2 2500) = false :=
      isPanic_of_noabort (htltIncoming_noabort hok (z2.small (by omega)) a2500)
    have z3 : Tiny (8000 + 2500) (supplyAfter (htltIncoming a s2 2500) s2) := z2.incoming (by omega)
    generalize htltIncoming a s2 2500 = r3 at n3 z3 ⊢
    generalize supplyAfter r3 s2 = s3 at z3 ⊢
    have n4 : isPanic (htltIncoming a s3 7) = false :=
      isPanic_of_noabort (htltIncoming_noabort hok (z3.small (by omega)) a7)
    have z4 : Tiny (8000 + 2500 + 7) (supplyAfter (htltIncoming a s3 7) s3) := z3.incoming (by omega)
    generalize htltIncoming a s3 7 = r4 at n4 z4 ⊢
    generalize supplyAfter r4 s3 = s4 at z4 ⊢
    have n5 : isPanic (htltOutgoing a s4 1200 a.maxBlockLock) = false :=
      isPanic_of_noabort (htltOutgoing_noabort hok (z4.small (by omega)) a1200 _ hfee)
    simp [n1, n3, n4, n5]

/-! ## battery lines: an abort the model predicts under a validated set always carries a class -/

theorem battery_nil_of_no_class (cur : AnyParams) (hv : validateAny cur = .ok ())
    (hc : abortClass cur = none) : batteryOf cur = [] := by
  cases cur with
  | coinswap p => exact battery_coinswap p hv hc
  | farm p => exact battery_farm p hv hc
  | htlc p => simp [batteryOf, battery_htlc p hv hc, battery_htlc_carry p hv hc]
  | service p => exact battery_service p hv hc
  | token p => exact battery_token p hv hc

theorem battery_sound (s : Store) (hs : StoreValid s) (m : Mod) :
    ∀ e ∈ stepFails s (.battery m) (modelObs s (.battery m)), e.2.isSome = true := by
  intro e he
  have hv := storeValid_getMod hs m
  have hd : ("ok".endsWith "=panic") = false := by decide
  simp only [stepFails, modelObs, batteryFails, hd] at he
  by_cases hemp : (batteryOf (getMod s m)).isEmpty = true
  · simp [hemp] at he
  · simp only [hemp] at he
    simp at he
    cases hc : abortClass (getMod s m) with
    | none =>
      have := battery_nil_of_no_class _ hv hc
      simp [this] at hemp
    | some k => rw [he]; simp [hc]

/-! ## the whole monitor, one step and whole traces -/

/-- every clause the driver's monitor raises on a model step from a valid store carries a recorded
    finding class (and only battery lines can raise one at all) -/
theorem monitor_sound (s : Store) (hs : StoreValid s) (op : MonOp) :
    ∀ e ∈ stepFails s op (modelObs s op), e.2.isSome = true := by
  cases op with
  | reset => simp [reset_sound]
  | validate p => simp [validate_sound]
  | update sender p => simp [update_sound s hs]
  | updateDirect sender p => simp [updateDirect_sound s hs]
  | genesis p => simp [genesis_sound]
  | battery m => exact battery_sound s hs m

theorem monitor_sound_strict (s : Store) (hs : StoreValid s) (op : MonOp)
    (h : ∀ m, op ≠ .battery m) : stepFails s op (modelObs s op) = [] := by
  cases op with
  | reset => exact reset_sound s
  | validate p => exact validate_sound s p
  | update sender p => exact update_sound s hs sender p
  | updateDirect sender p => exact updateDirect_sound s hs sender p
  | genesis p => exact genesis_sound s p
  | battery m => exact absurd rfl (h m)

/-- what the driver's monitor loop prints on the model's own observation stream -/
def modelTraceFails (s : Store) : List MonOp → List (String × Option String)
  | [] => []
  | op :: rest => stepFails s op (modelObs s op) ++ modelTraceFails (track s op (modelObs s op)) rest

theorem monitor_sound_trace (ops : List MonOp) : ∀ (s : Store), StoreValid s →
    ∀ e ∈ modelTraceFails s ops, e.2.isSome = true := by
  induction ops with
  | nil => intro s _ e he; cases he
  | cons op rest ih =>
    intro s hs e he
    simp only [modelTraceFails, List.mem_append] at he
    rcases he with he | he
    · exact monitor_sound s hs op e he
    · rw [track_model] at he
      exact ih _ (modelNext_valid s hs op) e he

/-! ## non-vacuity: the clauses do fire on observations that violate the property -/

example : stepFails {} (.update "A1" (.coinswap coinswapDefault)) (.update "ok" (.coinswap coinswapDefault) "valid")
    = [("non-authority-accepted", none)] := by decide
example : (stepFails {} (.update "authority" (.service { serviceDefault with maxRequestTimeout := 0 }))
    (.update "ok" (.service { serviceDefault with maxRequestTimeout := 0 }) "valid")).length = 1 := by decide
example : stepFails {} (.battery .service) (.battery ["respond"] "ok")
    = [("abort-under-validated-params:respond", none)] := by decide
example : stepFails {} (.update "authority" (.htlc [])) (modelObs {} (.update "authority" (.htlc []))) = [] := by decide

end Irismod.Proofs.ParamsMonitor
