/-
Soundness of the C17 monitor with respect to the model: on every model step from a state
satisfying the invariant, with batch counters that grow (the guard `guardOp` the driver checks on
the trace), every clause of `Spec.C17.stepVerdicts` — the function the driver evaluates in
`monitor C17` mode — passes. So a monitor failure on an implementation trace is a
model/implementation disagreement or a genuine failure of the property, never an artefact of the
monitor demanding something the model and its theorems do not guarantee.
-/
import Irismod.Props.C17

namespace Irismod.Proofs.OracleMonitor
open Irismod Irismod.Oracle Irismod.Spec.C17 Irismod.Proofs.Oracle Irismod.Props.C17

/-! ### helpers -/

theorem get?_isSome_of_mem {V : Type} (m : AMap Name V) (n : Name) (v : V) (h : (n, v) ∈ m) :
    (AMap.get? m n).isSome = true := by
  induction m with
  | nil => simp at h
  | cons hd t ih =>
    obtain ⟨k', v'⟩ := hd
    by_cases hk : k' = n
    · simp [AMap.get?, hk]
    · simp only [AMap.get?, hk, if_false]
      apply ih
      simp only [List.mem_cons, Prod.mk.injEq] at h
      rcases h with ⟨h1, _⟩ | h
      · exact absurd h1.symm hk
      · exact h

theorem mirrorB_of (s : State) (hm : Mirror s) : mirrorB s = true := by
  unfold mirrorB
  rw [List.all_eq_true]
  rintro ⟨n, f⟩ hmem
  have hsome := get?_isSome_of_mem s.feeds n f hmem
  cases hf : AMap.get? s.feeds n with
  | none => simp [hf] at hsome
  | some f' =>
    cases hc : AMap.get? s.ctxs n with
    | none => simp only [hc]
    | some c =>
      have := hm n f' c hf hc
      simp only [hc]
      cases hst : c.state with
      | running => simp [hst] at this ⊢; exact this
      | paused => simp [hst] at this ⊢; exact this
      | completed => simp

theorem boundedB_of (s : State) (hb : Bounded s) : boundedB s = true := by
  unfold boundedB
  rw [List.all_eq_true]
  rintro ⟨n, f⟩ _
  cases hf : AMap.get? s.feeds n with
  | none => simp only [hf]
  | some f' => have := hb.1 n f' hf; simp only [hf]; simp [this.1, this.2]

theorem sameOracle_refl (s : State) : sameOracle s s = true := by
  simp [sameOracle]

theorem foldl_fixed {α β : Type} (f : β → α → β) (l : List α) (b : β) (h : ∀ b a, a ∈ l → f b a = b) :
    l.foldl f b = b := by
  induction l generalizing b with
  | nil => rfl
  | cons a t ih =>
    simp only [List.foldl_cons]
    rw [h b a (by simp)]
    exact ih b (fun b x hx => h b x (by simp [hx]))

/-- model aggregate = specified aggregate, for every function name (unknown ones are `none` in both) -/
theorem aggSpecs_eq (fn : String) (outs : List String) (h : outs ≠ []) :
    aggregateSpecs fn outs = specAggregateSpecs fn outs := by
  by_cases hk : knownAgg fn = true
  · exact done_value_is_spec fn outs h hk
  · have hk' : fn ≠ "max" ∧ fn ≠ "min" ∧ fn ≠ "avg" := by
      simp only [knownAgg, Bool.or_eq_true, decide_eq_true_eq, not_or] at hk
      exact ⟨hk.1.1, hk.1.2, hk.2⟩
    simp [aggregateSpecs, specAggregateSpecs, aggregate, specAggregate, hk'.1, hk'.2.1, hk'.2.2]

theorem applyCb_frame (s : State) (cb : Cb) : (applyCb s cb).feeds = s.feeds ∧ (applyCb s cb).now = s.now := by
  cases cb with
  | done f b thr outs =>
    simp only [applyCb]
    rcases cbDone_spec s f b thr outs with ⟨_, he⟩ | ⟨fd, d, _, _, he⟩ <;> rw [he] <;> exact ⟨rfl, rfl⟩
  | state f to =>
    simp only [applyCb, cbState]
    split; · exact ⟨rfl, rfl⟩
    split; · exact ⟨rfl, rfl⟩
    cases to <;> exact ⟨rfl, rfl⟩

theorem viewOf_cbDone_other (s : State) (f n : Name) (b thr : Nat) (outs : List String) (h : f ≠ n) :
    viewOf (cbDone s f b thr outs) n = viewOf s n := by
  rcases cbDone_spec s f b thr outs with ⟨_, he⟩ | ⟨fd, d, _, _, he⟩
  · rw [he]
  · rw [he]; unfold viewOf; rw [valuesOf_set_other _ _ _ _ h]

theorem contains_ctx_of_feed (s : State) (hw : WF s) (n : Name) (f : Feed) (hf : AMap.get? s.feeds n = some f) :
    AMap.contains s.ctxs n = true := by
  have := (hw.1 n).1 (by simp [hf])
  simpa [AMap.contains] using this

/-! ### the value clauses: what the monitor expects is what the model stores -/

theorem expectCb_view (pre s : State) (n : Name) (e : Expect) (cb : Cb) (hs : Inv s) (hf : FreshCb s cb)
    (hfeeds : s.feeds = pre.feeds) (hnow : s.now = pre.now) (he : e.view = viewOf s n)
    (het : e.touched = true → e.view ≠ []) :
    (expectCb pre n e cb).view = viewOf (applyCb s cb) n ∧
    ((expectCb pre n e cb).touched = true → (expectCb pre n e cb).view ≠ []) := by
  cases cb with
  | state f to => simp only [expectCb, applyCb, viewOf_cbState]; exact ⟨he, het⟩
  | done f b thr outs =>
    simp only [applyCb]
    by_cases hfn : f = n
    · subst hfn
      simp only [expectCb, ne_eq, not_true_eq_false, if_false, ← hfeeds]
      cases hfd : AMap.get? s.feeds f with
      | none =>
        have : cbDone s f b thr outs = s := by
          rcases cbDone_spec s f b thr outs with ⟨_, h⟩ | ⟨fd, d, h, _, _⟩
          · exact h
          · rw [hfd] at h; cases h
        simp only [this]; exact ⟨he, het⟩
      | some fd =>
        simp only
        by_cases hcond : (outs.length = 0 || decide (outs.length < thr)) = true
        · have hshort : outs.length < thr ∨ outs.length = 0 := by
            simp only [Bool.or_eq_true, decide_eq_true_eq] at hcond
            rcases hcond with h | h
            · exact Or.inr h
            · exact Or.inl h
          rw [if_pos hcond, done_short_noop s f b thr outs hshort]
          exact ⟨he, het⟩
        · rw [if_neg hcond]
          simp only [Bool.or_eq_true, decide_eq_true_eq, not_or, Nat.not_lt] at hcond
          obtain ⟨hl, hthr⟩ := hcond
          have hne : outs ≠ [] := by intro h0; simp [h0] at hl
          have hc := contains_ctx_of_feed s hs.1 f fd hfd
          rw [← aggSpecs_eq fd.agg outs hne]
          cases ha : aggregateSpecs fd.agg outs with
          | none =>
            have : cbDone s f b thr outs = s := by
              simp [cbDone, handlerResponse, hthr, hl, hfd, hc, ha]
            simp only [this]; exact ⟨he, het⟩
          | some d =>
            have hh := (hs.2.2.1 f fd hfd).1
            have hd := done_appends s f b thr outs fd d hl hthr hfd hc ha hh hf
            simp only
            rw [hd.1, he, hnow]
            refine ⟨rfl, fun _ => ?_⟩
            obtain ⟨h', hh'⟩ : ∃ h', fd.hist = h' + 1 := ⟨fd.hist - 1, by omega⟩
            rw [hh']; simp
    · have : (expectCb pre n e (.done f b thr outs)) = e := by simp [expectCb, hfn]
      rw [this, viewOf_cbDone_other s f n b thr outs hfn]
      exact ⟨he, het⟩

theorem expectFold_view (pre : State) (n : Name) (cbs : List Cb) (s : State) (e : Expect) (hs : Inv s)
    (hf : FreshCbs s cbs) (hfeeds : s.feeds = pre.feeds) (hnow : s.now = pre.now) (he : e.view = viewOf s n)
    (het : e.touched = true → e.view ≠ []) :
    (cbs.foldl (expectCb pre n) e).view = viewOf (applyCbs s cbs) n ∧
    ((cbs.foldl (expectCb pre n) e).touched = true → (cbs.foldl (expectCb pre n) e).view ≠ []) := by
  induction cbs generalizing s e with
  | nil => exact ⟨he, het⟩
  | cons cb r ih =>
    have h1 := expectCb_view pre s n e cb hs hf.1 hfeeds hnow he het
    have hfr := applyCb_frame s cb
    exact ih (applyCb s cb) (expectCb pre n e cb) (inv_applyCb cb hs) hf.2
      (hfr.1.trans hfeeds) (hfr.2.trans hnow) h1.1 h1.2

theorem expectView_sound (s : State) (n : Name) (cbs : List Cb) (hs : Inv s) (hf : FreshCbs s cbs) :
    (expectView s n cbs).view = viewOf (applyCbs s cbs) n ∧
    ((expectView s n cbs).touched = true → (expectView s n cbs).view ≠ []) :=
  expectFold_view s n cbs s { view := viewOf s n } hs hf rfl rfl rfl (by intro h; cases h)

/-- if, feed by feed, the post view is the expected one, no value clause fires -/
theorem valuesVerdicts_nil (pre post : State) (cbs : List Cb)
    (h : ∀ n, (expectView pre n cbs).view = viewOf post n ∧
      ((expectView pre n cbs).touched = true → (expectView pre n cbs).view ≠ [])) :
    valuesVerdicts pre post cbs = [] := by
  unfold valuesVerdicts
  apply foldl_fixed
  intro acc n _
  obtain ⟨hv, ht⟩ := h n
  simp only
  cases htouch : (expectView pre n cbs).touched with
  | false => simp [hv]
  | true =>
    have hne := ht htouch
    rw [← hv]
    cases hview : (expectView pre n cbs).view with
    | nil => exact absurd hview hne
    | cons ev erest => simp

theorem expectView_nil (s : State) (n : Name) : expectView s n [] = { view := viewOf s n } := rfl

/-- an operation that leaves the stored values alone and makes no callback passes the value clauses -/
theorem valuesVerdicts_frame (pre post : State) (h : post.values = pre.values) : valuesVerdicts pre post [] = [] := by
  apply valuesVerdicts_nil
  intro n
  rw [expectView_nil]
  exact ⟨(viewOf_of_values h n).symm, by intro h; cases h⟩

/-! ### the whole step -/

theorem step_never_panics (s : State) (op : Op) (why : String) : step s op ≠ .error (.panic why) := by
  intro h
  cases op with
  | create m =>
    simp only [step, stepCreate] at h
    repeat (first | (split at h) | cases h)
  | start n a =>
    simp only [step, stepStart] at h
    repeat (first | (split at h) | cases h)
  | pause n a =>
    simp only [step, stepPause] at h
    repeat (first | (split at h) | cases h)
  | edit m =>
    simp only [step, stepEdit] at h
    repeat (first | (split at h) | cases h)
  | respond acc cbs =>
    simp only [step] at h
    split at h <;> cases h
  | block dt cbs => simp [step] at h
  | bank => simp [step] at h

/-- **monitor soundness (C17)**: on every model step from a state satisfying the invariant, under
the batch-counter guard, every clause of `stepVerdicts` passes -/
theorem monitor_sound (s : State) (op : Op) (hs : Inv s) (hf : FreshOp s op) :
    stepVerdicts s op (accepted s op) (apply s op) = [] := by
  have hinv := inv_apply s op hs
  have hmir : mirrorB (apply s op) = true := mirrorB_of _ hinv.2.1
  have hbd : boundedB (apply s op) = true := boundedB_of _ hinv.2.2
  unfold stepVerdicts
  simp only [hmir, hbd, if_true, List.append_nil]
  unfold accepted apply at *
  cases hstep : step s op with
  | error e => simp [sameOracle_refl]
  | ok s' =>
    simp only [hstep] at hinv hmir hbd ⊢
    simp only [Bool.not_true, Bool.false_eq_true, if_false]
    cases op with
    | create m =>
      obtain ⟨_, hnew, _, hs'⟩ := stepCreate_ok (by simpa [step] using hstep)
      have hnone : AMap.get? s.feeds m.name = none := by
        simp only [AMap.contains] at hnew
        cases hg : AMap.get? s.feeds m.name with
        | none => rfl
        | some v => simp [hg] at hnew
      have hvals : s'.values = s.values := by rw [hs']
      have hv : viewOf s' m.name = [] := by
        rw [viewOf_of_values hvals]; simp [viewOf, hs.2.2.2 m.name hnone, view]
      have h1 : creatorOf s' m.name = some m.creator := by rw [hs']; simp [creatorOf, AMap.get?_set_self]
      have h2 : ctxStateOf s' m.name = some .paused := by rw [hs']; simp [ctxStateOf, AMap.get?_set_self]
      simp [hnew, h1, h2, hv, valuesVerdicts_frame s s' hvals]
    | start n a =>
      obtain ⟨f, c, hfd, ha, _, _, hs'⟩ := stepStart_ok (by simpa [step] using hstep)
      have hvals : s'.values = s.values := by rw [hs']; rfl
      have h1 : creatorOf s n = some a := by simp [creatorOf, hfd, ha]
      have h2 : ctxStateOf s' n = some .running := by
        rw [hs']; simp [ctxStateOf, indexRunning, setCtxState, AMap.get?_set_self]
      simp [h1, h2, valuesVerdicts_frame s s' hvals]
    | pause n a =>
      obtain ⟨f, c, hfd, ha, _, _, hs'⟩ := stepPause_ok (by simpa [step] using hstep)
      have hvals : s'.values = s.values := by rw [hs']; rfl
      have h1 : creatorOf s n = some a := by simp [creatorOf, hfd, ha]
      have h2 : ctxStateOf s' n = some .paused := by
        rw [hs']; simp [ctxStateOf, indexPaused, setCtxState, AMap.get?_set_self]
      simp [h1, h2, valuesVerdicts_frame s s' hvals]
    | edit m =>
      have hc := edit_only_creator s s' m hstep
      have ht := edit_trims s s' m hstep
      simp only [hc, beq_self_eq_true, if_true, List.nil_append]
      apply foldl_fixed
      intro acc n _
      by_cases hn : n = m.name
      · subst hn
        rw [ht.1]
        by_cases hh : 0 < m.hist <;> simp [hh]
      · rw [ht.2 n hn]; simp [hn]
    | respond acc cbs =>
      cases acc with
      | false => simp [step] at hstep
      | true =>
        simp only [step, if_true] at hstep
        cases hstep
        exact valuesVerdicts_nil _ _ _ (fun n => expectView_sound s n cbs hs (hf rfl))
    | block dt cbs =>
      simp only [step] at hstep
      cases hstep
      apply valuesVerdicts_nil
      intro n
      have := expectView_sound s n cbs hs hf
      have e : viewOf { applyCbs s cbs with now := (applyCbs s cbs).now + 1000000000 * dt } n
          = viewOf (applyCbs s cbs) n := viewOf_of_values rfl n
      rw [e]; exact this
    | bank =>
      simp only [step] at hstep
      cases hstep
      simp [sameOracle_refl]

/-! ### the guard the driver checks implies the hypothesis of `monitor_sound` -/

theorem hiOf_set_self (hi : Hi) (n : Name) (v : Nat) : hiOf (AMap.set hi n v) n = v := by
  simp [hiOf, AMap.getD, AMap.get?_set_self]

theorem hiOf_set_other (hi : Hi) (n m : Name) (v : Nat) (h : n ≠ m) : hiOf (AMap.set hi n v) m = hiOf hi m := by
  simp [hiOf, AMap.getD, AMap.get?_set_other _ _ _ _ h]

theorem guardCbs_incr (hi hi' : Hi) (cbs : List Cb) (h : guardCbs hi cbs = some hi') (n : Name) :
    IncrFrom (hiOf hi n) (batchesCbs n cbs) ∧ hiOf hi' n = endOf (hiOf hi n) (batchesCbs n cbs) := by
  induction cbs generalizing hi with
  | nil => simp only [guardCbs, Option.some.injEq] at h; subst h; simp [batchesCbs, IncrFrom, endOf]
  | cons cb r ih =>
    cases cb with
    | state f to => simp only [guardCbs] at h; simpa [batchesCbs] using ih hi h
    | done f b thr outs =>
      simp only [guardCbs] at h
      split at h
      · rename_i hle
        have := ih _ h
        by_cases hfn : f = n
        · subst hfn
          rw [hiOf_set_self] at this
          simp only [batchesCbs, if_true, IncrFrom, endOf, List.foldl_cons]
          exact ⟨⟨hle, this.1⟩, this.2⟩
        · rw [hiOf_set_other _ _ _ _ hfn] at this
          simpa [batchesCbs, hfn] using this
      · cases h

theorem guardOp_incr (hi hi' : Hi) (op : Op) (h : guardOp hi op = some hi') (n : Name) :
    IncrFrom (hiOf hi n) (batchesOp n op) ∧ hiOf hi' n = endOf (hiOf hi n) (batchesOp n op) := by
  cases op with
  | respond acc cbs =>
    cases acc with
    | true => exact guardCbs_incr hi hi' cbs (by simpa [guardOp] using h) n
    | false => simp only [guardOp, Option.some.injEq] at h; subst h; simp [batchesOp, IncrFrom, endOf]
  | block dt cbs => exact guardCbs_incr hi hi' cbs (by simpa [guardOp] using h) n
  | create m => simp only [guardOp, Option.some.injEq] at h; subst h; simp [batchesOp, IncrFrom, endOf]
  | start a b => simp only [guardOp, Option.some.injEq] at h; subst h; simp [batchesOp, IncrFrom, endOf]
  | pause a b => simp only [guardOp, Option.some.injEq] at h; subst h; simp [batchesOp, IncrFrom, endOf]
  | edit m => simp only [guardOp, Option.some.injEq] at h; subst h; simp [batchesOp, IncrFrom, endOf]
  | bank => simp only [guardOp, Option.some.injEq] at h; subst h; simp [batchesOp, IncrFrom, endOf]

theorem guardRun_incr (hi hi' : Hi) (ops : List Op) (h : guardRun hi ops = some hi') (n : Name) :
    IncrFrom (hiOf hi n) (batches n ops) := by
  induction ops generalizing hi with
  | nil => simp [batches, IncrFrom]
  | cons op r ih =>
    simp only [guardRun] at h
    split at h
    · cases h
    · rename_i hi1 h1
      have g := guardOp_incr hi hi1 op h1 n
      have := ih hi1 h
      rw [g.2] at this
      exact (incrFrom_append _ _ _).2 ⟨g.1, this⟩

theorem freshRun_split (s : State) (a : List Op) (op : Op) (b : List Op) (h : FreshRun s (a ++ op :: b)) :
    FreshOp (run s a) op := by
  induction a generalizing s with
  | nil => exact h.1
  | cons x t ih => exact ih (apply s x) h.2

theorem run_inv (s : State) (ops : List Op) (hs : Inv s) : Inv (run s ops) := mirror_and_bound_run s ops hs

/-- **monitor soundness along a whole history**: from the state of a reset line, if the guard the
driver checks (`guardRun`, batch counters growing per feed) passes on the history, then at every
step of the model's run every clause the driver evaluates passes -/
theorem monitor_sound_run (t : Nat) (ops : List Op) (hi' : Hi) (hg : guardRun [] ops = some hi')
    (a : List Op) (op : Op) (b : List Op) (hsplit : ops = a ++ op :: b) :
    stepVerdicts (run { now := t } a) op (accepted (run { now := t } a) op) (apply (run { now := t } a) op) = [] := by
  have hincr : ∀ m, IncrFrom 0 (batches m ops) := fun m => by
    simpa [hiOf, AMap.getD] using guardRun_incr [] hi' ops hg m
  have hfresh : FreshRun { now := t } ops :=
    freshRun_of_increasing _ ops (fun _ => 0)
      (fun m => ⟨by intro e he; simp [valuesOf, AMap.getD] at he, hincr m⟩)
  rw [hsplit] at hfresh
  exact monitor_sound _ op (run_inv _ a (inv_init t)) (freshRun_split _ a op b hfresh)

/-! ### pure aggregate lines -/

/-- an `agg` line: the model's own result passes the clause the driver evaluates on it -/
theorem aggVerdict_sound (fn : String) (vals : List String) (r : String)
    (h : aggregateSpecs fn vals = some r) : aggVerdict fn vals r = .ok := by
  unfold aggVerdict
  cases vals with
  | nil =>
    have : specAggregateSpecs fn [] = none := by simp [specAggregateSpecs, specAggregate]
    simp [this]
  | cons x t =>
    rw [← aggSpecs_eq fn (x :: t) (by simp), h]
    simp

/-- the model refuses an `agg` line only for an unregistered function (driver clause `agg-rejected`) -/
theorem aggregateSpecs_none (fn : String) (vals : List String) (h : aggregateSpecs fn vals = none) :
    knownAgg fn = false := by
  cases hk : knownAgg fn with
  | false => rfl
  | true =>
    exfalso
    simp only [knownAgg, Bool.or_eq_true, decide_eq_true_eq] at hk
    unfold aggregateSpecs aggregate at h
    rcases hk with (hk | hk) | hk
    · simp [hk] at h
    · subst hk
      simp only [show ¬ ("min" = "max") by decide, if_false, if_true] at h
      split at h <;> cases h
    · subst hk
      simp only [show ¬ ("avg" = "max") by decide, show ¬ ("avg" = "min") by decide, if_false, if_true] at h
      split at h <;> cases h

/-- rounding to the nearest integer is within half a unit -/
theorem roundHalfEven_near (p : Int) (D : Nat) (hD : 0 < D) :
    2 * (roundHalfEven p D * (D : Int) - p).natAbs ≤ D := by
  have hD' : (0 : Int) < (D : Int) := by exact_mod_cast hD
  have h1 := Int.emod_add_mul_ediv p D
  have h2 := Int.emod_nonneg p (Int.ne_of_gt hD')
  have h3 := Int.emod_lt_of_pos p hD'
  have hc : p / (D : Int) * (D : Int) = (D : Int) * (p / (D : Int)) := Int.mul_comm _ _
  have hc1 : (p / (D : Int) + 1) * (D : Int) = (D : Int) * (p / (D : Int)) + D := by
    rw [Int.add_mul, hc]; simp
  unfold roundHalfEven
  split
  · rw [hc]; omega
  · split
    · rw [hc1]; omega
    · split
      · rw [hc]; omega
      · rw [hc1]; omega

/-- an `aggtol` line (outside the exact-float domain): the tolerance clause accepts the exact
aggregate `p / q` (units of `10^-S`) rounded to the nearest unit of the 8th decimal, whatever the
magnitudes — the clause does not demand more than the specification. (The model itself adopts the
implementation's value on these lines, so there is no model result to compare.) -/
theorem withinTol_of_rounded (S : Nat) (p : Int) (q maxAbs n : Nat) (hq : 0 < q) :
    withinTol S (roundHalfEven p (q * pow10 (S - 8))) p q maxAbs n = true := by
  have hpos : 0 < q * pow10 (S - 8) := Nat.mul_pos hq (by unfold pow10; exact Nat.pow_pos (by decide))
  have h := roundHalfEven_near p (q * pow10 (S - 8)) hpos
  unfold withinTol
  simp only [decide_eq_true_eq]
  have e : roundHalfEven p (q * pow10 (S - 8)) * ((pow10 (S - 8) : Nat) : Int) * (q : Int)
      = roundHalfEven p (q * pow10 (S - 8)) * ((q * pow10 (S - 8) : Nat) : Int) := by
    rw [Int.mul_assoc]; congr 1; simp [Int.mul_comm]
  rw [e]
  have h4 : (roundHalfEven p (q * pow10 (S - 8)) * ((q * pow10 (S - 8) : Nat) : Int) - p).natAbs
      ≤ q * pow10 (S - 8) := by omega
  calc _ ≤ q * pow10 (S - 8) * 2 ^ 52 := Nat.mul_le_mul_right _ h4
    _ = pow10 (S - 8) * q * 2 ^ 52 := by rw [Nat.mul_comm q]
    _ ≤ _ := Nat.le_add_right _ _

/-- non-vacuity: the demo history passes the guard, so `monitor_sound_run` applies to each of its steps -/
example : (guardRun [] demoOps).isSome = true := by decide

end Irismod.Proofs.OracleMonitor
