/-
Monitor soundness, service slice of C13 (`Spec.C13S.check`, evaluated by `drv-service monitor C13`):
on every model step from an invariant state every clause passes — the seven state clauses (queue entries
↔ markers, no entry in the past, entries refer to contexts, running batches / contexts await an event) and
the three end-block clauses (every due entry processed exactly once, no future entry lost).
-/
import Irismod.Proofs.ServiceMonitorBase

namespace Irismod.Proofs.ServiceMonitor
open Irismod Irismod.Sdk Irismod.Service Irismod.Spec.C13S Irismod.Proofs.Service

/-- unique keys of the three tables whose list entries the C13 / C08 monitors enumerate -/
structure TablesNodup (s : State) : Prop where
  ctxs : KeysNodup s.ctxs
  newH : KeysNodup s.newH
  expH : KeysNodup s.expH

private theorem get?_of_mem_nodup {K V : Type} [DecidableEq K] {m : AMap K V} (hn : KeysNodup m) {k : K} {v : V}
    (h : (k, v) ∈ m) : AMap.get? m k = some v :=
  Irismod.Proofs.GenesisList.get?_of_mem (m := m) hn h

/-- a duplicate-free list all of whose members equal `a`, containing `a`, has exactly one element -/
private theorem length_eq_one_of_all_eq {α : Type} : ∀ (l : List α) (a : α), l.Nodup → a ∈ l → (∀ x, x ∈ l → x = a) → l.length = 1
  | [], a, _, hm, _ => by cases hm
  | [x], _, _, _, _ => rfl
  | x :: y :: t, a, hn, _, hall => by
    exfalso
    have hx := hall x (List.mem_cons_self ..)
    have hy := hall y (List.mem_cons_of_mem _ (List.mem_cons_self ..))
    rw [List.nodup_cons] at hn
    apply hn.1
    rw [hx, ← hy]
    exact List.mem_cons_self ..

theorem markersAgreeB_of {q : List (Int × CtxId)} {m : AMap CtxId Int} (h : MarkersAgree q m) (hq : q.Nodup)
    (hm : KeysNodup m) : markersAgreeB q m = true := by
  unfold markersAgreeB
  simp only [Bool.and_eq_true, List.all_eq_true, beq_iff_eq]
  refine ⟨⟨?_, ?_⟩, ?_⟩
  · intro e he
    exact h.1 e.1 e.2 he
  · intro e he
    rw [List.contains_iff_mem]
    exact h.2 e.1 e.2 (get?_of_mem_nodup hm he)
  · intro e he
    apply length_eq_one_of_all_eq _ e (nodup_filter _ hq)
    · rw [List.mem_filter]; exact ⟨he, by simp⟩
    · intro x hx
      rw [List.mem_filter] at hx
      have h2 : x.2 = e.2 := by simpa using hx.2
      have a1 := h.1 x.1 x.2 hx.1
      have a2 := h.1 e.1 e.2 he
      rw [h2, a2] at a1
      exact Prod.ext (Option.some.inj a1).symm h2

/-- the seven state clauses hold on every invariant state -/
theorem c13_state_sound {s : State} (hs : SInv s) (hk : TablesNodup s) : stateFails s = [] := by
  have hw := hs.wf
  have h1 : markersAgreeB s.newQ s.newH = true := markersAgreeB_of hw.newM hw.newND hk.newH
  have h2 : markersAgreeB s.expQ s.expH = true := markersAgreeB_of hw.expM hw.expND hk.expH
  have h3 : s.newQ.all (fun e => decide (s.height ≤ e.1)) = true := by
    rw [List.all_eq_true]; intro e he
    exact decide_eq_true (hs.noStale.1 e.1 e.2 he)
  have h4 : s.expQ.all (fun e => decide (s.height ≤ e.1)) = true := by
    rw [List.all_eq_true]; intro e he
    exact decide_eq_true (hs.noStale.2 e.1 e.2 he)
  have h5 : s.newQ.all (fun e => AMap.contains s.ctxs e.2) = true ∧ s.expQ.all (fun e => AMap.contains s.ctxs e.2) = true := by
    constructor
    · rw [List.all_eq_true]; intro e he
      exact hw.live e.2 (Or.inl ((contains_iff _ _).mpr ⟨_, hw.newM.1 e.1 e.2 he⟩))
    · rw [List.all_eq_true]; intro e he
      exact hw.live e.2 (Or.inr ((contains_iff _ _).mpr ⟨_, hw.expM.1 e.1 e.2 he⟩))
  have h6 : s.ctxs.all (fun e => e.2.batchState != .running || AMap.contains s.expH e.1) = true := by
    rw [List.all_eq_true]; intro e he
    have hg := get?_of_mem_nodup hk.ctxs (k := e.1) (v := e.2) he
    by_cases hb : e.2.batchState = .running
    · simp [hs.awaits.exp e.1 e.2 hg hb]
    · simp [hb]
  have h7 : s.ctxs.all (fun e => e.2.state != .running || AMap.contains s.expH e.1 || AMap.contains s.newH e.1) = true := by
    rw [List.all_eq_true]; intro e he
    have hg := get?_of_mem_nodup hk.ctxs (k := e.1) (v := e.2) he
    by_cases hb : e.2.state = .running
    · rcases hs.awaits.any e.1 e.2 hg hb with h | h <;> simp [h]
    · simp [hb]
  unfold stateFails
  simp [h1, h2, h3, h4, h5.1, h5.2, h6, h7]

/-! ### the end block loses no future entry -/

theorem newBatch_expQ_mono (s : State) (id : CtxId) (e : Int × CtxId) (h : e ∈ s.expQ) : e ∈ (newBatch s id).expQ := by
  unfold newBatch
  split
  · split
    · simp only [delNew]; rw [(onPaused_queues _ _ _ _).2.2]; exact h
    · split
      · unfold chargeAndStart
        split
        · simp only [delNew, addExp, initiateRequests, setCtx]
          rw [mem_qInsert, (mkRequests_queues _ _ _ _ _ _ _ _).2.2.1]
          exact Or.inl h
        · simp only [delNew]; rw [(onPaused_queues _ _ _ _).2.2]; exact h
      · simp only [delNew, skipBatch, addExp, setCtx]
        rw [mem_qInsert]
        exact Or.inl h
  · exact h

theorem foldl_newBatch_expQ_mono : ∀ (l : List CtxId) (s : State) (e : Int × CtxId), e ∈ s.expQ → e ∈ (l.foldl newBatch s).expQ
  | [], _, _, h => h
  | id :: rest, s, e, h => by
    simp only [List.foldl]
    exact foldl_newBatch_expQ_mono rest (newBatch s id) e (newBatch_expQ_mono s id e h)

theorem expireCtx_newQ_mono (s : State) (id : CtxId) (e : Int × CtxId) (h : e ∈ s.newQ) : e ∈ (expireCtx s id).newQ := by
  have hq : (expirePhase s id).1.newQ = s.newQ := (expirePhase_frame s id).1.1
  unfold expireCtx finishExpire
  simp only [cleanBatch]
  unfold settleCtx
  split
  · simp only [eraseCtx, setCtx, delExp]; rw [hq]; exact h
  · split
    · split
      · simp only [addNew, setCtx, delExp]
        rw [mem_qInsert, hq]
        exact Or.inl h
      · simp only [eraseCtx, setCtx, delExp]; rw [hq]; exact h
    · simp only [setCtx, delExp]; rw [hq]; exact h

theorem foldl_expireCtx_newQ_mono : ∀ (l : List CtxId) (s : State) (e : Int × CtxId), e ∈ s.newQ → e ∈ (l.foldl expireCtx s).newQ
  | [], _, _, h => h
  | id :: rest, s, e, h => by
    simp only [List.foldl]
    exact foldl_expireCtx_newQ_mono rest (expireCtx s id) e (expireCtx_newQ_mono s id e h)

theorem foldl_newBatch_newQ_keeps : ∀ (l : List CtxId) (s : State) (e : Int × CtxId), e ∈ s.newQ → e.1 ≠ s.height →
    e ∈ (l.foldl newBatch s).newQ
  | [], _, _, h, _ => h
  | id :: rest, s, e, h, hne => by
    simp only [List.foldl]
    apply foldl_newBatch_newQ_keeps rest (newBatch s id) e
    · rw [newBatch_newQ, List.mem_filter]
      refine ⟨h, ?_⟩
      simp only [ne_eq, decide_eq_true_eq]
      intro he
      apply hne
      rw [he]
    · rw [newBatch_height]; exact hne

/-- an entry of a later block survives the end block, in both queues -/
theorem endBlock_keeps_future {s : State} (hw : WF s) (e : Int × CtxId) (hne : e.1 ≠ s.height) :
    (e ∈ s.expQ → e ∈ (endBlock s).expQ) ∧ (e ∈ s.newQ → e ∈ (endBlock s).newQ) := by
  constructor
  · intro h
    unfold endBlock newPhase
    apply foldl_newBatch_expQ_mono
    unfold expiredPhase
    obtain ⟨_, _, w3⟩ := WF_foldl_expire _ s hw (nodup_dueIds _ _ hw.expND)
      (fun id hm => hw.expM.1 _ _ ((mem_dueIds _ _ _).mp hm))
    rw [w3]
    refine ⟨h, ?_⟩
    intro id _ he
    apply hne
    rw [he]
  · intro h
    unfold endBlock newPhase
    apply foldl_newBatch_newQ_keeps
    · unfold expiredPhase
      exact foldl_expireCtx_newQ_mono _ s e h
    · rw [(WF_expiredPhase hw).2.1]; exact hne

/-- the end-block clauses: nothing of the block's height is left in either queue (each due entry was handled,
once), and no entry of another height was lost -/
theorem c13_next_sound {s : State} (hs : SInv s) (dt : Int) :
    (((apply s (.next dt)).expQ.filter (fun e => e.1 = s.height)).isEmpty = true) ∧
    ((apply s (.next dt)).newQ.filter (fun e => e.1 = s.height)) = [] ∧
    (s.expQ.all (fun e => e.1 = s.height || (apply s (.next dt)).expQ.contains e) = true ∧
     s.newQ.all (fun e => e.1 = s.height || (apply s (.next dt)).newQ.contains e) = true) := by
  have hs0 : NS { s with cb := [] } :=
    ⟨hs.wf.of_same ⟨rfl, rfl, rfl, rfl, rfl, rfl, rfl⟩,
     (CQ.of_same (s' := { s with cb := [] }) hs.ns.2 rfl rfl rfl rfl).1,
     (CQ.of_same (s' := { s with cb := [] }) hs.ns.2 rfl rfl rfl rfl).2⟩
  have hfut := Irismod.Props.C13S.end_block_leaves_only_future_entries hs0
  have hkeep := endBlock_keeps_future hs0.1
  have hap : apply s (.next dt) = nextBlock { s with cb := [] } dt := rfl
  have hexp : (apply s (.next dt)).expQ = (endBlock { s with cb := [] }).expQ := rfl
  have hnew : (apply s (.next dt)).newQ = (endBlock { s with cb := [] }).newQ := rfl
  have hh : ({ s with cb := [] } : State).height = s.height := rfl
  refine ⟨?_, ?_, ?_, ?_⟩
  · rw [List.isEmpty_iff, List.filter_eq_nil_iff, hexp]
    intro e he
    have := hfut.2 e.1 e.2 he
    rw [hh] at this
    simp only [decide_eq_true_eq]
    omega
  · rw [List.filter_eq_nil_iff, hnew]
    intro e he
    have := hfut.1 e.1 e.2 he
    rw [hh] at this
    simp only [decide_eq_true_eq]
    omega
  · rw [List.all_eq_true]
    intro e he
    by_cases h1 : e.1 = s.height
    · simp [h1]
    · have := (hkeep e h1).1 he
      rw [hexp]
      simp [h1, this]
  · rw [List.all_eq_true]
    intro e he
    by_cases h1 : e.1 = s.height
    · simp [h1]
    · have := (hkeep e h1).2 he
      rw [hnew]
      simp [h1, this]

/-- **monitor soundness, C13 service slice**: on every model step (`OpOK` excludes only the multi-block `skip`
line and the recorded exclusion hypotheses) from an invariant state no clause of `Spec.C13S.check` fails -/
theorem c13_check_sound (m : Mon) {s : State} {op : Op} (hs : SInv s) (hs' : SInv (apply s op))
    (hk' : TablesNodup (apply s op)) (ho : OpOK s op) :
    (check m s op (accepted s op) (apply s op)).2 = [] := by
  have hst := c13_state_sound hs' hk'
  unfold check
  cases hstep : step s op with
  | error e =>
    have ha := (accepted_err hstep).1
    rw [ha]
    cases op <;> simp [hst]
  | ok s' =>
    have ha := (accepted_ok hstep).1
    rw [ha]
    cases op with
    | next dt =>
      obtain ⟨c1, c2, c3, c4⟩ := c13_next_sound hs dt
      simp only [c1, c2, c3, c4, and_self, if_true, List.map_nil, List.append_nil, List.nil_append]
      exact hst
    | skip n dt => exact absurd ho.notSkip (by simp [notSkip])
    | _ => simp [hst]

end Irismod.Proofs.ServiceMonitor
