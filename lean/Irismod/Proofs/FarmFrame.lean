/-
Frame lemmas: which parts of the state the bank-only transformers and `updatePool` leave
alone, and how stakes and pool totals move.
-/
import Irismod.Proofs.FarmUpdate

namespace Irismod.Proofs.Farm
open Irismod Irismod.Sdk Irismod.Farm Irismod.Spec

/-- only the bank ledger differs -/
structure BankOnly (s s' : State) : Prop where
  pools   : s'.pools = s.pools
  farmers : s'.farmers = s.farmers
  queue   : s'.queue = s.queue
  height  : s'.height = s.height
  seq     : s'.seq = s.seq
  params  : s'.params = s.params
  ledger  : s'.ledger = s.ledger
  resp    : s'.resp = s.resp
  cp      : s'.cp = s.cp

theorem BankOnly.refl (s : State) : BankOnly s s := ⟨rfl, rfl, rfl, rfl, rfl, rfl, rfl, rfl, rfl⟩

theorem BankOnly.trans {a b c : State} (h1 : BankOnly a b) (h2 : BankOnly b c) : BankOnly a c :=
  ⟨h2.pools.trans h1.pools, h2.farmers.trans h1.farmers, h2.queue.trans h1.queue, h2.height.trans h1.height,
   h2.seq.trans h1.seq, h2.params.trans h1.params, h2.ledger.trans h1.ledger, h2.resp.trans h1.resp, h2.cp.trans h1.cp⟩

theorem sendAll_ok {s s' : State} {src dst : Addr} {cs : CoinList} (h : sendAll s src dst cs = .ok s') :
    BankOnly s s' ∧ Bank.sendCoins s.bank src dst cs = some s'.bank := by
  unfold sendAll at h
  split at h
  · cases h
  · rename_i b hb
    cases h
    exact ⟨⟨rfl, rfl, rfl, rfl, rfl, rfl, rfl, rfl, rfl⟩, hb⟩

theorem payRewards_ok {s s' : State} {a : Addr} {rw : CoinList} (h : payRewards s a rw = .ok s') :
    BankOnly s s' ∧ Bank.sendCoins s.bank collectorAcc a rw = some s'.bank := by
  unfold payRewards at h
  split at h
  · rename_i he; cases h; subst he; exact ⟨BankOnly.refl _, rfl⟩
  · exact sendAll_ok h

theorem deductFee_ok {s s' : State} {a : Addr} (h : deductFee s a = .ok s') : BankOnly s s' := by
  unfold deductFee at h
  split at h; · cases h
  split at h; · cases h
  split at h; · cases h
  split at h; · cases h
  split at h; · cases h
  split at h; · cases h
  cases h
  exact ⟨rfl, rfl, rfl, rfl, rfl, rfl, rfl, rfl, rfl⟩

/-! ### stakes and totals -/

theorem lockedOf_eq {s s' : State} (id : PoolId) (h : getPool s' id = getPool s id) :
    C05.lockedOf s' id = C05.lockedOf s id := by unfold C05.lockedOf; rw [h]

theorem getPool_set_self (m : AMap PoolId Pool) (s' : State) (id : PoolId) (p : Pool)
    (h : s'.pools = AMap.set m id p) : getPool s' id = some p := by
  unfold getPool; rw [h, AMap.get?_set_self]

theorem getPool_set_other (s s' : State) (id id2 : PoolId) (p : Pool)
    (h : s'.pools = AMap.set s.pools id p) (hne : id ≠ id2) : getPool s' id2 = getPool s id2 := by
  unfold getPool; rw [h, AMap.get?_set_other _ _ _ _ hne]

theorem stakedSum_eq {s s' : State} (h : s'.farmers = s.farmers) (id : PoolId) :
    C05.stakedSum s' id = C05.stakedSum s id := by unfold C05.stakedSum; rw [h]

/-- writing farmer `(a,id)` moves the staked sum of pool `id` by the change of that farmer's stake -/
theorem stakedSum_set_self (m : AMap (Addr × PoolId) Farmer) (s' : State) (a : Addr) (id : PoolId) (f : Farmer)
    (h : s'.farmers = AMap.set m (a, id) f) :
    C05.stakedSum s' id + (((AMap.get? m (a, id)).map (·.locked)).getD 0)
      = AMap.sumIf (fun k : Addr × PoolId => k.2 = id) (fun f => f.locked) m + f.locked := by
  unfold C05.stakedSum
  rw [h]
  have := AMap.sumIf_set (fun k : Addr × PoolId => k.2 = id) (fun f : Farmer => f.locked) m (a, id) f
  simpa using this

theorem stakedSum_set_other (m : AMap (Addr × PoolId) Farmer) (s' : State) (a : Addr) (id id2 : PoolId) (f : Farmer)
    (h : s'.farmers = AMap.set m (a, id) f) (hne : id ≠ id2) :
    C05.stakedSum s' id2 = AMap.sumIf (fun k : Addr × PoolId => k.2 = id2) (fun f => f.locked) m := by
  unfold C05.stakedSum
  rw [h]
  apply AMap.sumIf_set_of_not
  simp [hne]

theorem stakedSum_erase_self (m : AMap (Addr × PoolId) Farmer) (s' : State) (a : Addr) (id : PoolId)
    (hn : NodupKeys m) (h : s'.farmers = AMap.erase m (a, id)) :
    C05.stakedSum s' id + (((AMap.get? m (a, id)).map (·.locked)).getD 0)
      = AMap.sumIf (fun k : Addr × PoolId => k.2 = id) (fun f => f.locked) m := by
  unfold C05.stakedSum
  rw [h]
  have := sumIf_erase (fun k : Addr × PoolId => k.2 = id) (fun f : Farmer => f.locked) m (a, id) hn
  simpa using this

theorem stakedSum_erase_other (m : AMap (Addr × PoolId) Farmer) (s' : State) (a : Addr) (id id2 : PoolId)
    (h : s'.farmers = AMap.erase m (a, id)) (hne : id ≠ id2) :
    C05.stakedSum s' id2 = AMap.sumIf (fun k : Addr × PoolId => k.2 = id2) (fun f => f.locked) m := by
  unfold C05.stakedSum
  rw [h]
  apply sumIf_erase_of_not
  simp [hne]

/-- `updatePool` failed: the store may carry partial rule writes of pool `id`, nothing else
(a panic may also have moved coins, but a panicking block or message is discarded) -/
structure UpdErr (s s1 : State) (id : PoolId) (p : Pool) (e : Err) : Prop where
  farmers : s1.farmers = s.farmers
  queue   : s1.queue = s.queue
  height  : s1.height = s.height
  seq     : s1.seq = s.seq
  params  : s1.params = s.params
  ledger  : s1.ledger = s.ledger
  cp      : s1.cp = s.cp
  bank    : (∀ w, e ≠ .panic w) → s1.bank = s.bank
  pools   : s1.pools = s.pools ∨ ∃ rs, s1.pools = AMap.set s.pools id { p with rules := rs } ∧
              rs.map (·.denom) = p.rules.map (·.denom)

theorem collectRules_denoms (i L : Nat) : ∀ (rs : List Rule), (collectRules i L rs).1.map (·.denom) = rs.map (·.denom)
  | [] => rfl
  | r :: rs => by
    unfold collectRules
    split
    · rfl
    · rename_i r' hr
      simp only [List.map_cons]
      rw [collectRules_denoms i L rs, (stepped_facts hr).1]

theorem updatePool_err {s s1 : State} {id : PoolId} {p : Pool} {amount : Int} {isDestroy : Bool} {e : Err}
    (h : updatePool s id p amount isDestroy = (s1, .error e)) : UpdErr s s1 id p e := by
  have hfin : ∀ (s0 s2 : State) (rs : List Rule), finishUpdate s0 id p rs amount isDestroy = (s2, .error e) →
      s2 = s0 ∧ ∃ w, e = .panic w := by
    intro s0 s2 rs hf
    unfold finishUpdate at hf
    split at hf
    · simp only [Prod.mk.injEq, Except.error.injEq] at hf; exact ⟨hf.1.symm, _, hf.2.symm⟩
    · simp at hf
  unfold updatePool at h
  split at h
  · simp only [Prod.mk.injEq] at h; rw [← h.1]; exact ⟨rfl, rfl, rfl, rfl, rfl, rfl, rfl, fun _ => rfl, Or.inl rfl⟩
  split at h
  · simp only [Prod.mk.injEq] at h; rw [← h.1]; exact ⟨rfl, rfl, rfl, rfl, rfl, rfl, rfl, fun _ => rfl, Or.inl rfl⟩
  split at h
  · split at h
    · simp only [Prod.mk.injEq] at h; rw [← h.1]
      exact ⟨rfl, rfl, rfl, rfl, rfl, rfl, rfl, fun _ => rfl, Or.inr ⟨_, rfl, collectRules_denoms _ _ _⟩⟩
    · unfold releaseAndFinish at h
      split at h
      · have := (hfin _ _ _ h).1; rw [this]
        exact ⟨rfl, rfl, rfl, rfl, rfl, rfl, rfl, fun _ => rfl, Or.inr ⟨_, rfl, collectRules_denoms _ _ _⟩⟩
      · split at h
        · simp only [Prod.mk.injEq] at h; rw [← h.1]
          exact ⟨rfl, rfl, rfl, rfl, rfl, rfl, rfl, fun _ => rfl, Or.inr ⟨_, rfl, collectRules_denoms _ _ _⟩⟩
        · rename_i s2 hs2
          obtain ⟨hs, w, hw⟩ := hfin _ _ _ h
          rw [hs]
          obtain ⟨bo, _⟩ := sendAll_ok hs2
          exact ⟨bo.farmers, bo.queue, bo.height, bo.seq, bo.params, bo.ledger, bo.cp,
                 fun hn => absurd hw (hn w), Or.inr ⟨_, bo.pools, collectRules_denoms _ _ _⟩⟩
  · have := (hfin _ _ _ h).1; rw [this]; exact ⟨rfl, rfl, rfl, rfl, rfl, rfl, rfl, fun _ => rfl, Or.inl rfl⟩

end Irismod.Proofs.Farm
