/-
The two witness histories of the farm findings, as closed terms the kernel evaluates.
-/
import Irismod.Proofs.FarmNoPanic

namespace Irismod.Proofs.Farm
open Irismod Irismod.Sdk Irismod.Farm Irismod.Spec Irismod.Spec.C05

/-- the F-farm-1 history: reward 1/block; A1 stakes 2; one block later A1 unstakes 1 and A2
stakes 1; one block later A1 harvests -/
def w1Genesis : State :=
  { height := 10,
    bank := { bal := [(("A0", "btc"), 1000), (("A0", "stake"), 10000), (("A1", "lpt-1"), 10), (("A2", "lpt-1"), 10)] } }

def w1Ops : List Op :=
  [.createPool "A0" "d1" "lpt-1" 10 [("btc", 1)] [("btc", 100)] true,
   .stake "A1" "farm-1" "lpt-1" 2, .endBlocks 1,
   .unstake "A1" "farm-1" "lpt-1" 1, .stake "A2" "farm-1" "lpt-1" 1, .endBlocks 1,
   .harvest "A1" "farm-1"]

theorem w1_genesis : Genesis w1Genesis := by
  refine ⟨rfl, rfl, rfl, rfl, rfl, ?_, ?_, rfl, rfl, ?_, ?_, ?_⟩ <;> intro d <;>
    simp [w1Genesis, Bank.balOf, AMap.getD, AMap.get?, farmAcc, collectorAcc, escrowAcc, govAcc, cpoolOf, cpGet]

/-- the history of the fixed finding F-farm-2 (commit 966aea0): btc/eth 5 each at 1/block from
height 10; the creator tops up 10 btc in the end block (height 15); the chain runs on past
height 25.  With the fix the pool ends at 15 and everything is refunded. -/
def w2Genesis : State :=
  { height := 10,
    bank := { bal := [(("A0", "btc"), 1000), (("A0", "eth"), 1000), (("A0", "stake"), 10000), (("A1", "lpt-1"), 10)] } }

def w2Ops : List Op :=
  [.createPool "A0" "d1" "lpt-1" 10 [("btc", 1), ("eth", 1)] [("btc", 5), ("eth", 5)] true,
   .stake "A1" "farm-1" "lpt-1" 2, .endBlocks 5,
   .adjustPool "A0" "farm-1" (some [("btc", 10)]) none, .endBlocks 11]

theorem w2_genesis : Genesis w2Genesis := by
  refine ⟨rfl, rfl, rfl, rfl, rfl, ?_, ?_, rfl, rfl, ?_, ?_, ?_⟩ <;> intro d <;>
    simp [w2Genesis, Bank.balOf, AMap.getD, AMap.get?, farmAcc, collectorAcc, escrowAcc, govAcc, cpoolOf, cpGet]

/-- a community-pool history: A0 funds the community pool with 5000 btc; proposal 1 (1000 btc
applied, 50 eth self-bonded, full deposit → voting period) and proposal 2 (200 btc applied, small
deposit → deposit period); proposal 1 passes (pool farm-1 owned by the distribution module
account, heights 10..60), proposal 2 misses its deposit (refunded); A1 stakes; the chain runs past
the pool's end (the remaining budget goes back to the community pool); proposal 1 is passed and
rejected once more (nothing happens) -/
def w3Genesis : State :=
  { height := 10,
    bank := { bal := [(("A0", "btc"), 10000), (("A0", "eth"), 1000), (("A0", "stake"), 100000000), (("A1", "lpt-1"), 100)] } }

def w3Content1 : Content := { desc := "cp", lpt := "lpt-1", rpb := [("btc", 10), ("eth", 1)], applied := [("btc", 1000)], selfBond := [("eth", 50)] }
def w3Content2 : Content := { desc := "cp2", lpt := "lpt-1", rpb := [("btc", 10)], applied := [("btc", 200)], selfBond := [] }

def w3Ops : List Op :=
  [.fundCp "A0" [("btc", 5000)],
   .cpSubmit "A0" "t" w3Content1 [("stake", 10000000)],
   .cpSubmit "A0" "t" w3Content2 [("stake", 100000)],
   .cpPass 1, .cpFailDeposit 2,
   .stake "A1" "farm-1" "lpt-1" 5, .endBlocks 51,
   .cpPass 1, .cpReject 1]

theorem w3_genesis : Genesis w3Genesis := by
  refine ⟨rfl, rfl, rfl, rfl, rfl, ?_, ?_, rfl, rfl, ?_, ?_, ?_⟩ <;> intro d <;>
    simp [w3Genesis, Bank.balOf, AMap.getD, AMap.get?, farmAcc, collectorAcc, escrowAcc, govAcc, cpoolOf, cpGet]

end Irismod.Proofs.Farm
